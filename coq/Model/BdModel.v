(* Model/BdModel.v -- C19: the SB2.1 command-file (BD) language as SPSDK implements it.

   Faithful model of
     spsdk/sbfile/sb2/sly_bd_parser.py   semantic actions (expressions, definitions, statements -> dictionaries)
     spsdk/sbfile/sb2/sb_21_helper.py    SB21Helper handlers (dictionaries -> command objects)
     spsdk/sbfile/sb2/commands.py        constructors of the command objects (operand checks, flag packing)
     spsdk/sbfile/sb2/images.py          BootImageV21.load_from_config (iteration over sections / commands)
   parametrised by the tables of Gen/GenBd.v, which are regenerated from the source on every run, and next to it the
   SPECIFICATION of the language (eval_spec, beval_spec, stmt_spec).  Definitions only; proofs are in Proofs/BdProofs.v.

   Not modelled: sly's lexer regexes and LALR tables (text -> AST); they are reached by the correspondence check only.
   The concrete syntax enters through `binop_text` etc. (spec side: which text denotes which operator), the
   precedence parser `parse_tokens` over the extracted precedence table, and the printer `print_expr`. *)
From Coq Require Import String Ascii ZArith NArith List Bool.
Require Import Value Bytes GenBd.
Import ListNotations.
Local Open Scope string_scope.
Local Open Scope list_scope.
Local Open Scope Z_scope.

Definition E_UNMODELLED : N := 9.     (* the model has no opinion (outside the modelled subset) *)

(* ------------------------------------------------------------------------------------------------ *)
(** * Abstract syntax                                                                                *)
(* ------------------------------------------------------------------------------------------------ *)
Inductive binop := Add | Sub | Mul | Div | Mod | Shl | Shr | BAnd | BOr | BXor.
Inductive isize := SzW | SzH | SzB.
Inductive expr :=
| ELit (z : Z)
| EVar (x : N)
| EBin (o : binop) (a b : expr)
| ENeg (a : expr)
| EPos (a : expr)
| ESize (a : expr) (s : isize).

Inductive cmpop := CLt | CLe | CGt | CGe | CEq | CNe.
Inductive bexpr :=
| BInt (e : expr)
| BCmp (o : cmpop) (a b : bexpr)
| BAndL (a b : bexpr)
| BOrL (a b : bexpr)
| BNot (a : bexpr)
| BDefined (x : N).

(* concrete syntax of the operators (docs/usage/elf2sb.md, productions expr / bool_expr / unary_expr) *)
Definition binop_text (o : binop) : string :=
  match o with
  | Add => "+" | Sub => "-" | Mul => "*" | Div => "/" | Mod => "%" | Shl => "<<" | Shr => ">>"
  | BAnd => "&" | BOr => "|" | BXor => "^"
  end.
Definition cmpop_text (o : cmpop) : string :=
  match o with CLt => "<" | CLe => "<=" | CGt => ">" | CGe => ">=" | CEq => "==" | CNe => "!=" end.
Definition isize_text (s : isize) : string := match s with SzW => "w" | SzH => "h" | SzB => "b" end.

(* ------------------------------------------------------------------------------------------------ *)
(** * Values and environments                                                                        *)
(* ------------------------------------------------------------------------------------------------ *)
(* Python values that occur in the modelled subset: int (bool is 0/1) and str (code points). *)
Inductive dval := DInt (z : Z) | DStr (s : list N) | DName (s : string) | DBlob (b : list N).
(* DName: an identifier kept as text (memory option); DBlob: the hex text of a {{..}} blob, by the bytes it spells *)

Definition env := list (N * dval).           (* BDParser._variables, in append order *)

Fixpoint lookup_var (x : N) (e : env) : option dval :=
  match e with
  | [] => None
  | (y, v) :: t => if N.eqb x y then Some v else lookup_var x t       (* first match wins *)
  end.

Definition b2z (b : bool) : Z := if b then 1 else 0.
Definition to_opt {A} (r : res A) : option A := match r with Ok a => Some a | Err _ => None end.

(* ------------------------------------------------------------------------------------------------ *)
(** * Expressions: implementation (table driven)                                                     *)
(* ------------------------------------------------------------------------------------------------ *)
Fixpoint lookup_op (t : string) (tbl : list (string * pyop * bool)) : option (pyop * bool) :=
  match tbl with
  | [] => None
  | (t', op, sw) :: r => if String.eqb t t' then Some (op, sw) else lookup_op t r
  end.

Fixpoint lookup_mask (t : string) (tbl : list (string * Z)) : option Z :=
  match tbl with
  | [] => None
  | (t', m) :: r => if String.eqb t t' then Some m else lookup_mask t r
  end.

(* Python semantics of the operator classes on ints (bool results are 0/1; `and`/`or` return an operand) *)
Definition apply_py (op : pyop) (a b : Z) : res Z :=
  match op with
  | PyAdd => Ok (a + b)
  | PySub => Ok (a - b)
  | PyMult => Ok (a * b)
  | PyFloorDiv => if b =? 0 then Err 2%N else Ok (a / b)           (* ZeroDivisionError *)
  | PyMod => if b =? 0 then Err 2%N else Ok (a mod b)
  | PyLShift => if b <? 0 then Err 2%N else Ok (Z.shiftl a b)       (* ValueError: negative shift count *)
  | PyRShift => if b <? 0 then Err 2%N else Ok (Z.shiftr a b)
  | PyBitAnd => Ok (Z.land a b)
  | PyBitOr => Ok (Z.lor a b)
  | PyBitXor => Ok (Z.lxor a b)
  | PyLt => Ok (b2z (a <? b))
  | PyLtE => Ok (b2z (a <=? b))
  | PyGt => Ok (b2z (b <? a))
  | PyGtE => Ok (b2z (b <=? a))
  | PyEq => Ok (b2z (a =? b))
  | PyNotEq => Ok (b2z (negb (a =? b)))
  | PyAnd => Ok (if a =? 0 then a else b)
  | PyOr => Ok (if a =? 0 then b else a)
  | PyAndBool => Ok (b2z (negb (a =? 0) && negb (b =? 0)))         (* bool(a and b) *)
  | PyOrBool => Ok (b2z (negb (a =? 0) || negb (b =? 0)))
  | _ => Err E_UNMODELLED                                           (* / ** @ is in ... : not int -> int *)
  end.

Definition apply_row (row : option (pyop * bool)) (a b : Z) : res Z :=
  match row with
  | Some (op, false) => apply_py op a b
  | Some (op, true) => apply_py op b a
  | None => Err E_UNMODELLED     (* the action falls through to `return token[1]`: the operator text, a str *)
  end.

Definition str_in (t : string) (l : list string) : bool := existsb (String.eqb t) l.

Fixpoint eval_impl (e : env) (x : expr) : res Z :=
  match x with
  | ELit z => Ok z
  | EVar v => match lookup_var v e with
              | Some (DInt z) => Ok z
              | _ => Err E_UNMODELLED    (* unknown identifier: the action returns its *name* (a str) *)
              end
  | EBin o a b =>
      bind (eval_impl e a) (fun va => bind (eval_impl e b) (fun vb =>
        apply_row (lookup_op (binop_text o) expr_ops) va vb))
  | ENeg a => bind (eval_impl e a) (fun v => Ok (if str_in "-" unary_negating then - v else v))
  | EPos a => bind (eval_impl e a) (fun v => Ok (if str_in "+" unary_negating then - v else v))
  | ESize a s =>
      bind (eval_impl e a) (fun v =>
        match lookup_op "." expr_ops with
        | Some _ => Err E_UNMODELLED
        | None => match lookup_mask (isize_text s) size_masks with
                  | Some m => Ok (Z.land v m)
                  | None => Err E_UNMODELLED
                  end
        end)
  end.

(* `token.IDENT in self._variables`: a str is compared with Variable objects (no __eq__): always False;
   `any(v.name == token.IDENT for v in self._variables)`: the name is looked up (Gen.defined_by_name tells which) *)
Definition defined_impl (e : env) (x : N) : Z :=
  if defined_by_name then b2z (match lookup_var x e with Some _ => true | None => false end) else 0.

Fixpoint beval_impl (e : env) (b : bexpr) : res Z :=
  match b with
  | BInt x => eval_impl e x
  | BCmp o a c => bind (beval_impl e a) (fun va => bind (beval_impl e c) (fun vc =>
                    apply_row (lookup_op (cmpop_text o) bool_ops) va vc))
  | BAndL a c => bind (beval_impl e a) (fun va => bind (beval_impl e c) (fun vc =>
                    apply_row (lookup_op "&&" bool_ops) va vc))
  | BOrL a c => bind (beval_impl e a) (fun va => bind (beval_impl e c) (fun vc =>
                    apply_row (lookup_op "||" bool_ops) va vc))
  | BNot a => bind (beval_impl e a) (fun v => Ok (b2z (v =? 0)))
  | BDefined x => Ok (defined_impl e x)
  end.

(* ------------------------------------------------------------------------------------------------ *)
(** * Expressions: specification (ordinary arithmetic)                                               *)
(* ------------------------------------------------------------------------------------------------ *)
(* Division and remainder: floor convention (equal to the C convention on non-negative operands, see
   Proofs: division_is_c_division_on_naturals); undefined for a zero divisor.  Shifts by a negative count are undefined. *)
Definition spec_binop (o : binop) (a b : Z) : option Z :=
  match o with
  | Add => Some (a + b) | Sub => Some (a - b) | Mul => Some (a * b)
  | Div => if b =? 0 then None else Some (a / b)
  | Mod => if b =? 0 then None else Some (a mod b)
  | Shl => if b <? 0 then None else Some (a * 2 ^ b)
  | Shr => if b <? 0 then None else Some (a / 2 ^ b)
  | BAnd => Some (Z.land a b) | BOr => Some (Z.lor a b) | BXor => Some (Z.lxor a b)
  end.

(* integer-size suffixes: .b byte, .h half-word (two bytes), .w word (four bytes).  docs/usage/elf2sb.md only gives the
   production `expr '.' INT_SIZE`; the widths are those of the SB21Helper._fill_memory docstring ("load two bytes at an
   address: load 0x1122.h > 0xf00") and of the elftosb convention the BD language comes from *)
Definition spec_size_bits (s : isize) : Z := match s with SzB => 8 | SzH => 16 | SzW => 32 end.

Definition obind {A B} (o : option A) (f : A -> option B) : option B := match o with Some a => f a | None => None end.

Fixpoint eval_spec (e : env) (x : expr) : option Z :=
  match x with
  | ELit z => Some z
  | EVar v => match lookup_var v e with Some (DInt z) => Some z | _ => None end
  | EBin o a b => obind (eval_spec e a) (fun va => obind (eval_spec e b) (fun vb => spec_binop o va vb))
  | ENeg a => obind (eval_spec e a) (fun v => Some (- v))
  | EPos a => eval_spec e a
  | ESize a s => obind (eval_spec e a) (fun v => Some (v mod 2 ^ spec_size_bits s))
  end.

Definition spec_cmp (o : cmpop) (a b : Z) : bool :=
  match o with
  | CLt => a <? b | CLe => a <=? b | CGt => b <? a | CGe => b <=? a | CEq => a =? b | CNe => negb (a =? b)
  end.

Definition is_defined (e : env) (x : N) : bool := match lookup_var x e with Some _ => true | None => false end.

(* boolean operators yield the truth values 1 / 0 *)
Fixpoint beval_spec (e : env) (b : bexpr) : option Z :=
  match b with
  | BInt x => eval_spec e x
  | BCmp o a c => obind (beval_spec e a) (fun va => obind (beval_spec e c) (fun vc => Some (b2z (spec_cmp o va vc))))
  | BAndL a c => obind (beval_spec e a) (fun va => obind (beval_spec e c) (fun vc =>
                   Some (b2z (negb (va =? 0) && negb (vc =? 0)))))
  | BOrL a c => obind (beval_spec e a) (fun va => obind (beval_spec e c) (fun vc =>
                   Some (b2z (negb (va =? 0) || negb (vc =? 0)))))
  | BNot a => obind (beval_spec e a) (fun v => Some (b2z (v =? 0)))
  | BDefined x => Some (b2z (is_defined e x))
  end.

(* ------------------------------------------------------------------------------------------------ *)
(** * Precedence: the C table, a precedence parser over the extracted table, a printer               *)
(* ------------------------------------------------------------------------------------------------ *)
(* C operator precedence of the operators of the language (comment "Operators precedence" of the parser; the
   grammar of elf2sb.md itself is ambiguous): level numbers, higher binds tighter; all binary operators associate left *)
Definition c_level_bin (o : binop) : nat :=
  match o with
  | BOr => 3 | BXor => 4 | BAnd => 5 | Shl | Shr => 8 | Add | Sub => 9 | Mul | Div | Mod => 10
  end.
Definition c_level_cmp (o : cmpop) : nat := match o with CEq | CNe => 6 | CLt | CLe | CGt | CGe => 7 end.
Definition c_level_lor : nat := 1.
Definition c_level_land : nat := 2.
Definition c_table : list (string * nat) :=
  [("||", c_level_lor); ("&&", c_level_land)]
  ++ map (fun o => (binop_text o, c_level_bin o)) [Add; Sub; Mul; Div; Mod; Shl; Shr; BAnd; BOr; BXor]
  ++ map (fun o => (cmpop_text o, c_level_cmp o)) [CLt; CLe; CGt; CGe; CEq; CNe].

(* level of an operator text in a table: 1 = lowest; 0 = not in the table *)
Fixpoint prec_level_from (n : nat) (tbl : list (assoc * list string)) (t : string) : nat :=
  match tbl with
  | [] => O
  | (_, l) :: r => if str_in t l then n else prec_level_from (S n) r t
  end.
Definition prec_level (tbl : list (assoc * list string)) (t : string) : nat := prec_level_from 1 tbl t.

Fixpoint assoc_of (tbl : list (assoc * list string)) (t : string) : assoc :=
  match tbl with
  | [] => NonA
  | (a, l) :: r => if str_in t l then a else assoc_of r t
  end.

Definition lvl (o : binop) : nat := prec_level precedence (binop_text o).
(* yacc: a rule without %prec takes the precedence of its last terminal; for `MINUS expr` / `PLUS expr` that is
   the additive level, so a sign extends over following * / % operators but not over + - *)
Definition unary_lvl : nat := prec_level precedence "-".
(* level of PERIOD in the precedence tuple: the row above * / % makes the suffix bind tightest.  (A token that is not in the
   tuple gets level 0 from sly, below every rule: the suffix would then apply to the whole expression read so far.) *)
Definition size_lvl : nat := prec_level precedence ".".

Inductive token :=
| TNum (z : Z) | TId (x : N) | TOp (o : binop) | TLp | TRp | TSize (s : isize).

(* Precedence climbing, the standard reading of an LR grammar `expr : expr OP expr` disambiguated by a
   precedence table with left-associative levels:  parse_expr m  reads a maximal expression all of whose
   top-level binary operators have level >= m.  fuel bounds the nesting depth (2 * length + 2 always suffices).
   `pe` is the parser for operands (the recursive call at smaller fuel). *)
Definition operand_parser := nat -> list token -> option (expr * list token).

Definition parse_atom (pe : operand_parser) (ts : list token) : option (expr * list token) :=
  match ts with
  | TNum z :: r => Some (ELit z, r)
  | TId x :: r => Some (EVar x, r)
  | TLp :: r => match pe 0%nat r with
                | Some (e, TRp :: r') => Some (e, r')
                | _ => None
                end
  | TOp Sub :: r => match pe (S unary_lvl) r with
                    | Some (e, r') => Some (ENeg e, r')
                    | None => None
                    end
  | TOp Add :: r => match pe (S unary_lvl) r with
                    | Some (e, r') => Some (EPos e, r')
                    | None => None
                    end
  | _ => None
  end.

Fixpoint parse_loop (pe : operand_parser) (n : nat) (m : nat) (lhs : expr) (ts : list token) {struct n}
  : option (expr * list token) :=
  match n with
  | O => None
  | S n' =>
      match ts with
      | TSize s :: r => if Nat.leb m size_lvl then parse_loop pe n' m (ESize lhs s) r else Some (lhs, ts)
      | TOp o :: r =>
          if Nat.leb m (lvl o) && negb (Nat.eqb (lvl o) 0) then
            match pe (S (lvl o)) r with                       (* left associative: right operand one level up *)
            | Some (rhs, r') => parse_loop pe n' m (EBin o lhs rhs) r'
            | None => None
            end
          else Some (lhs, ts)
      | _ => Some (lhs, ts)
      end
  end.

Fixpoint parse_expr (fuel : nat) (m : nat) (ts : list token) {struct fuel} : option (expr * list token) :=
  match fuel with
  | O => None
  | S f => match parse_atom (parse_expr f) ts with
           | None => None
           | Some (a, r) => parse_loop (parse_expr f) f m a r
           end
  end.

Definition parse_tokens (ts : list token) : option expr :=
  match parse_expr (2 * List.length ts + 2) 0 ts with
  | Some (e, []) => Some e
  | _ => None
  end.

(* printer with the parentheses the table requires: print_at m e  prints e in a context that accepts
   top-level operators of level >= m *)
Definition paren (ts : list token) : list token := TLp :: ts ++ [TRp].
Definition max_lvl : nat := S (S (List.length precedence)).    (* a level above every operator: atoms only *)

Fixpoint print_at (m : nat) (e : expr) : list token :=
  match e with
  | ELit z => if z <? 0 then paren [TOp Sub; TNum (- z)] else [TNum z]
  | EVar x => [TId x]
  | EBin o a b =>
      let body := print_at (lvl o) a ++ TOp o :: print_at (S (lvl o)) b in
      if Nat.leb m (lvl o) then body else paren body
  | ENeg a => paren (TOp Sub :: print_at (S unary_lvl) a)
  | EPos a => paren (TOp Add :: print_at (S unary_lvl) a)
  | ESize a s => let body := print_at size_lvl a ++ [TSize s] in if Nat.leb m size_lvl then body else paren body
  end.
Definition print_expr (e : expr) : list token := print_at 0 e.

(* literals are non-negative in the concrete syntax; the printer above writes a negative literal as ( - n ),
   which parses back to ENeg (ELit n): the canonical form of an AST has no negative literals *)
Fixpoint canonical (e : expr) : bool :=
  match e with
  | ELit z => 0 <=? z
  | EVar _ => true
  | EBin o a b => canonical a && canonical b
  | ENeg a | EPos a => canonical a
  | ESize a _ => canonical a
  end.

(* ------------------------------------------------------------------------------------------------ *)
(** * Quoted literals                                                                                *)
(* ------------------------------------------------------------------------------------------------ *)
(* The lexer rules for string literals and character literals (regex texts pinned in Gen.token_regex, see
   Proofs: literal_regexes_non_greedy) stop at the FIRST closing quote and never cross a line end.
   lex_quoted q s reads one literal delimited by the code point q at the head of s: Some (content, rest) *)
Fixpoint scan_quoted (q : N) (s acc : list N) : option (list N * list N) :=
  match s with
  | [] => None
  | c :: t => if N.eqb c q then Some (rev acc, t)
              else if N.eqb c 10 then None
              else scan_quoted q t (c :: acc)
  end.
Definition lex_quoted (q : N) (s : list N) : option (list N * list N) :=
  match s with
  | c :: t => if N.eqb c q then scan_quoted q t [] else None
  | [] => None
  end.
Definition plain (q : N) (body : list N) : bool := forallb (fun c => negb (N.eqb c q) && negb (N.eqb c 10)) body.
Definition regex_of (name : string) : option string :=
  (fix go (l : list (string * string)) := match l with [] => None | (k, v) :: r => if String.eqb k name then Some v else go r end)
    token_regex.

(* ------------------------------------------------------------------------------------------------ *)
(** * Dictionaries produced by the parser actions                                                    *)
(* ------------------------------------------------------------------------------------------------ *)
Definition dict := list (string * dval).

Fixpoint dget (k : string) (d : dict) : option dval :=
  match d with
  | [] => None
  | (k', v) :: r => if String.eqb k k' then Some v else dget k r
  end.
Fixpoint dset (k : string) (v : dval) (d : dict) : dict :=
  match d with
  | [] => [(k, v)]
  | (k', v') :: r => if String.eqb k k' then (k, v) :: r else (k', v') :: dset k v r
  end.
Definition dupdate (d e : dict) : dict := fold_left (fun acc kv => dset (fst kv) (snd kv) acc) e d.
Definition dhas (k : string) (d : dict) : bool := match dget k d with Some _ => true | None => false end.

(* Python truthiness of the values that occur *)
Definition truthy (v : option dval) : bool :=
  match v with
  | None => false
  | Some (DInt z) => negb (z =? 0)
  | Some (DStr s) => negb (Nat.eqb (List.length s) 0)
  | Some (DName s) => negb (String.eqb s "")
  | Some (DBlob b) => negb (Nat.eqb (List.length b) 0)
  end.

(* ------------------------------------------------------------------------------------------------ *)
(** * Statements                                                                                     *)
(* ------------------------------------------------------------------------------------------------ *)
Inductive memopt := MNone | MName (s : string) | MAt (e : expr).
Inductive target := TAddr (e : expr) | TRange (a b : expr).
Inductive ldata := LPattern (e : expr) | LFile (path : list N) | LSource (x : N) | LBlob (b : list N).
Inductive callarg := ANone | AEmpty | AArg (e : expr).

Inductive stmt :=
| SLoad (o : memopt) (d : ldata) (t : target)
| SErase (o : memopt) (t : target)
| SEraseAll (o : memopt)
| SEraseUnsecureAll
| SEnable (o : memopt) (e : expr)
| SCall (is_jump : bool) (t : expr) (a : callarg)
| SJumpSp (sp : expr) (t : expr) (a : callarg)
| SReset
| SVersionCheck (nsec : bool) (e : expr)
| SKeystore (to_nv : bool) (o : memopt) (t : target)
| SKeywrap (id : expr) (blob : list N) (addr : expr)
| SEncrypt (id : expr) (o : memopt) (d : ldata) (t : target).

(* parsing context: variables, sources (lexer._sources, first match), files on disk *)
Record pctx := { vars : env; srcs : list (N * list N) }.

Fixpoint lookup_src (x : N) (l : list (N * list N)) : option (list N) :=
  match l with
  | [] => None
  | (y, p) :: t => if N.eqb x y then Some p else lookup_src x t
  end.

Definition ev (c : pctx) (e : expr) : res Z := eval_impl (vars c) e.

Definition d_memopt (key : string) (c : pctx) (o : memopt) : res dict :=
  match o with
  | MNone => Ok []
  | MName s => if String.eqb s "" then Err E_UNMODELLED      (* an IDENT token is never empty: not syntax *)
               else Ok [(key, DName s)]
  | MAt e => bind (ev c e) (fun v => Ok [(key, DInt v)])
  end.

Definition d_target (c : pctx) (t : target) : res dict :=
  match t with
  | TAddr e => bind (ev c e) (fun v => Ok [("address", DInt v)])
  | TRange a b => bind (ev c a) (fun va => bind (ev c b) (fun vb =>
                    Ok [("address", DInt va); ("length", DInt (vb - va))]))
  end.

Definition d_ldata (c : pctx) (d : ldata) : res dict :=
  match d with
  | LPattern e => bind (ev c e) (fun v => Ok [("pattern", DInt v)])
  | LFile p => Ok [("file", DStr p)]
  | LSource x => match lookup_src x (srcs c) with
                 | Some p => Ok [("file", DStr p)]
                 | None => Err E_UNMODELLED       (* not a SOURCE_NAME token: a different production applies *)
                 end
  | LBlob b => Ok (("values", DBlob b) :: (if blob_bytes_in_order then [("binary_blob", DInt 1)] else []))
  end.

Definition d_callarg (c : pctx) (a : callarg) : res dict :=
  match a with
  | ANone | AEmpty => Ok []
  | AArg e => bind (ev c e) (fun v => Ok [("argument", DInt v)])
  end.

(* load_stmt: a pattern without load option is a fill *)
Definition d_load (c : pctx) (o : memopt) (d : ldata) (t : target) : res (string * dict) :=
  bind (d_memopt "load_opt" c o) (fun dopt =>
  bind (d_ldata c d) (fun ddata =>
  bind (d_target c t) (fun dtgt =>
    let key := if dhas "pattern" ddata && negb (dhas "load_opt" dopt) then "fill" else "load" in
    Ok (key, dupdate (dupdate (dupdate [] dopt) ddata) dtgt)))).

(* the dictionary (key, arguments) each statement is turned into by the parser *)
Definition stmt_dict (c : pctx) (s : stmt) : res (string * dict) :=
  match s with
  | SLoad o d t => d_load c o d t
  | SErase o t => bind (d_memopt "mem_opt" c o) (fun dm => bind (d_target c t) (fun dt =>
                    Ok ("erase", dupdate (dupdate [] dt) dm)))
  | SEraseAll o => bind (d_memopt "mem_opt" c o) (fun dm =>
                    Ok ("erase", dupdate [("address", DInt 0); ("flags", DInt 1)] dm))
  | SEraseUnsecureAll => Ok ("erase", [("address", DInt 0); ("flags", DInt 2)])
  | SEnable o e => bind (d_memopt "mem_opt" c o) (fun dm => bind (ev c e) (fun v =>
                    Ok ("enable", dset "address" (DInt v) (dupdate [] dm))))
  | SCall j t a => bind (ev c t) (fun v => bind (d_callarg c a) (fun da =>
                    Ok (if j then "jump" else "call", dupdate [("address", DInt v)] da)))
  | SJumpSp sp t a => bind (ev c sp) (fun vsp => bind (ev c t) (fun v => bind (d_callarg c a) (fun da =>
                    Ok ("jump", dupdate (dupdate [("spreg", DInt vsp)] [("address", DInt v)]) da))))
  | SReset => Ok ("reset", [])
  | SVersionCheck nsec e => bind (ev c e) (fun v =>
                    Ok ("version_check", [("ver_type", DInt (b2z nsec)); ("fw_version", DInt v)]))
  | SKeystore to_nv o t => bind (d_memopt "mem_opt" c o) (fun dm => bind (d_target c t) (fun dt =>
                    Ok (if to_nv then "keystore_to_nv" else "keystore_from_nv", dupdate (dupdate [] dm) dt)))
  | SKeywrap id b a => bind (ev c id) (fun vid => bind (ev c a) (fun va =>
                    Ok ("keywrap", [("keyblob_id", DInt vid); ("address", DInt va); ("values", DBlob b)])))
  | SEncrypt id o d t => bind (ev c id) (fun vid => bind (d_load c o d t) (fun kd =>
                    if String.eqb (fst kd) "load" then Ok ("encrypt", dupdate [("keyblob_id", DInt vid)] (snd kd))
                    else Err 2%N))      (* token.load_stmt.get("load") is None for a fill: dict.update(None) TypeError *)
  end.

(* ------------------------------------------------------------------------------------------------ *)
(** * Command objects                                                                                *)
(* ------------------------------------------------------------------------------------------------ *)
Inductive payload :=
| PNone
| PBytes (l : list N)
| PWrap (key ctr : list N) (start end_ : Z) (kek : list N)          (* KeyBlob(start,end,key,ctr).export(kek) *)
| PEnc (key ctr : list N) (start end_ : Z) (swap : bool) (ctr_base : Z) (addr : Z) (data : list N).
        (* OTFAD AES-CTR of `data` placed at `addr`; the block at offset i uses the counter word ctr_base + i.
           KeyBlob(...).encrypt_image(base_address=addr, data, swap) without counter_value: ctr_base = start of the key blob;
           the hardware (and Otfad.encrypt_image) use the system address: ctr_base = addr *)
Record cmd := { c_tag : Z; c_flags : Z; c_addr : Z; c_count : Z; c_data : Z; c_payload : payload; c_memid : Z }.

Definition u32 (z : Z) : bool := (0 <=? z) && (z <=? 4294967295).

(* commands.py: get_device_id / get_group_id packed into the command flags *)
Definition mem_flags (mem_id : Z) : Z :=
  Z.lor (Z.land (Z.shiftl (Z.land mem_id 255) 8) 65280)
        (Z.land (Z.shiftl (Z.shiftr (Z.land mem_id 3840) 8) 4) 240).

(* spsdk/mboot/memories.py LEGACY_MEM_ID resolved through MemId.get_tag: Some tag, or None when get_tag raises
   SPSDKKeyError ("internal" -> label "INTERNAL", "semcnor" -> label "SEMC_NOR" do not exist) *)
Definition legacy_mem : list (string * option Z) :=
  [("internal", None); ("qspi", Some 1); ("fuse", Some 4); ("ifr", Some 4); ("semcnor", None);
   ("flexspinor", Some 9); ("semcnand", Some 256); ("spinand", Some 257); ("spieeprom", Some 272);
   ("i2ceeprom", Some 273); ("sdcard", Some 288); ("mmccard", Some 289)].

Fixpoint lookup_legacy (s : string) (l : list (string * option Z)) : option (option Z) :=
  match l with
  | [] => None
  | (k, v) :: r => if String.eqb s k then Some v else lookup_legacy s r
  end.

(* SB21Helper.get_mem_id *)
Definition get_mem_id (v : dval) : res Z :=
  match v with
  | DInt z => Ok z
  | DName s => match lookup_legacy s legacy_mem with
               | Some (Some tag) => if tag =? 0 then Err 1%N else Ok tag
               | _ => Err 1%N
               end
  | _ => Err 1%N
  end.

Definition opt_mem_id (v : option dval) : res Z :=
  if truthy v then match v with Some x => get_mem_id x | None => Ok 0 end else Ok 0.

Definition dint (v : option dval) : res Z :=                 (* value_to_int on what the parser stores *)
  match v with
  | Some (DInt z) => Ok z
  | Some _ => Err E_UNMODELLED
  | None => Err 2%N                                           (* KeyError *)
  end.

(* files on disk: load_binary raises SPSDKError when the file does not exist *)
Definition files := list (list N * list N).
Fixpoint eq_ln (a b : list N) : bool :=
  match a, b with
  | [], [] => true
  | x :: a', y :: b' => N.eqb x y && eq_ln a' b'
  | _, _ => false
  end.
Fixpoint lookup_file (p : list N) (fs : files) : option (list N) :=
  match fs with
  | [] => None
  | (q, d) :: r => if eq_ln p q then Some d else lookup_file p r
  end.
Definition load_binary (fs : files) (p : list N) : res (list N) :=
  match lookup_file p fs with Some d => Ok d | None => Err 1%N end.

Definition mk (tag flags addr count data : Z) (p : payload) (memid : Z) : cmd :=
  {| c_tag := tag; c_flags := flags; c_addr := addr; c_count := count; c_data := data; c_payload := p; c_memid := memid |}.

(* CmdLoad(address, data, mem_id) *)
Definition cmd_load (addr : Z) (p : payload) (mem_id : Z) : res cmd :=
  if u32 addr then Ok (mk 2 (mem_flags mem_id) addr 0 0 p mem_id) else Err 1%N.

(* get_bytes_cnt_of_int(value) with the defaults align_to_2n=True, byte_cnt=None, for value >= 0 *)
Definition bytes_cnt (v : Z) : Z :=
  if v =? 0 then 1 else let c := Z.log2 v / 8 + 1 in if 2 <? c then (c + 3) / 4 * 4 else c.

Definition swap32 (x : Z) : Z := Z.of_N (be_dec (le_enc 4 (Z.to_N x))).

(* CmdProg(address, mem_id, data_word1, data_word2) *)
Definition cmd_prog (addr mem_id w1 w2 : Z) : res cmd :=
  if (mem_id <? 0) || (255 <? mem_id) then Err 1%N
  else if negb (u32 addr) then Err 1%N
  else if negb (u32 w1) then Err 1%N
  else if negb (u32 w2) then Err 1%N
  else Ok (mk 10 (Z.lor (b2z (negb (w2 =? 0))) (Z.land (Z.shiftl mem_id 8) 65280)) addr w1 w2 PNone mem_id).

(* SB21Helper._prog *)
Definition h_prog (d : dict) : res cmd :=
  bind (dint (dget "address" d)) (fun addr =>
  bind (get_mem_id (match dget "load_opt" d with Some v => v | None => DInt 4 end)) (fun mem_id =>
  if truthy (dget "values" d) then
    match dget "values" d with
    | Some (DBlob b) =>
        let v := Z.of_N (be_dec b) in
        let cnt := bytes_cnt v in
        if cnt <=? 4 then cmd_prog addr mem_id (swap32 v) (swap32 0)
        else if cnt <=? 8 then cmd_prog addr mem_id (swap32 (Z.shiftr v 32)) (swap32 (Z.land v 4294967295))
        else Err 1%N
    | _ => Err E_UNMODELLED
    end
  else if truthy (dget "pattern" d) then
    bind (dint (dget "pattern" d)) (fun v =>
      if v <? 0 then Err 1%N                                  (* get_bytes_cnt_of_int: SPSDKValueError *)
      else if bytes_cnt v <=? 4 then cmd_prog addr mem_id v 0 else Err 1%N)
  else Err 1%N)).

(* SB21Helper._load *)
Definition h_load (fs : files) (d : dict) : res cmd :=
  bind (dint (dget "address" d)) (fun addr =>
  bind (opt_mem_id (dget "load_opt" d)) (fun mem_id =>
  if truthy (dget "file" d) then
    match dget "file" d with
    | Some (DStr p) => bind (load_binary fs p) (fun data => cmd_load addr (PBytes data) mem_id)
    | _ => Err E_UNMODELLED
    end
  else if truthy (dget "values" d) then
    if mem_id =? 4 then h_prog d
    else match dget "values" d with
         | Some (DBlob b) =>
             if truthy (dget "binary_blob" d) then cmd_load addr (PBytes b) mem_id      (* bytes.fromhex(values) *)
             else
               (* values = [int(s, 16) for s in "<hex>".split(",")]: ONE number; struct.pack("<1L", number) *)
               let v := Z.of_N (be_dec b) in
               if 4294967295 <? v then Err 1%N else cmd_load addr (PBytes (le_enc 4 (Z.to_N v))) mem_id
         | _ => Err E_UNMODELLED
         end
  else if truthy (dget "pattern" d) then
    if mem_id =? 4 then h_prog d else Err 1%N
  else Err 1%N)).

(* CmdFill(address, pattern, length) *)
Definition fill_word (pattern : Z) : res Z :=
  if pattern <? 0 then Err 2%N                                 (* int.to_bytes: OverflowError *)
  else
    let n0 := if pattern =? 0 then 1 else Z.log2 pattern / 8 + 1 in
    let n := if n0 =? 3 then 4 else n0 in
    if n =? 1 then Ok (pattern * 16843009)                     (* 0x01010101 *)
    else if n =? 2 then Ok (pattern * 65537)                   (* 0x00010001 *)
    else if n =? 4 then Ok pattern
    else Err 1%N.

Definition h_fill (d : dict) : res cmd :=
  bind (dint (dget "address" d)) (fun addr =>
  bind (dint (dget "pattern" d)) (fun pattern =>
  bind (match dget "length" d with None => Ok 4 | v => bind (dint v) (fun l => Ok (if l =? 0 then 4 else l)) end) (fun len =>
  if negb (len mod 4 =? 0) then Err 1%N
  else bind (fill_word pattern) (fun w =>
       if u32 addr then Ok (mk 3 0 addr len w PNone (-1)) else Err 1%N)))).

(* SB21Helper._erase_cmd_handler / CmdErase *)
Definition h_erase (d : dict) : res cmd :=
  bind (dint (dget "address" d)) (fun addr =>
  bind (match dget "length" d with None => Ok 0 | v => dint v end) (fun len =>
  bind (match dget "flags" d with None => Ok 0 | v => dint v end) (fun flags =>
  bind (opt_mem_id (dget "mem_opt" d)) (fun mem_id =>
  if u32 addr then Ok (mk 7 (Z.lor flags (mem_flags mem_id)) addr len 0 PNone mem_id) else Err 1%N)))).

(* SB21Helper._enable / CmdMemEnable: no operand check *)
Definition h_enable (d : dict) : res cmd :=
  bind (dint (dget "address" d)) (fun addr =>
  bind (opt_mem_id (dget "mem_opt" d)) (fun mem_id =>
  Ok (mk 9 (mem_flags mem_id) addr 4 0 PNone mem_id))).

(* SB21Helper._jump / CmdJump *)
Definition h_jump (d : dict) : res cmd :=
  bind (match dget "argument" d with None => Ok 0 | v => dint v end) (fun arg =>
  bind (dint (dget "address" d)) (fun addr =>
  if negb (u32 addr) then Err 1%N
  else match dget "spreg" d with
       | None => Ok (mk 4 0 addr 0 arg PNone (-1))
       | v => bind (dint v) (fun sp => Ok (mk 4 2 addr sp arg PNone (-1)))
       end)).

(* anticipated handler of a repaired tree: CmdCall(address, argument) *)
Definition h_call (d : dict) : res cmd :=
  bind (match dget "argument" d with None => Ok 0 | v => dint v end) (fun arg =>
  bind (dint (dget "address" d)) (fun addr =>
  if u32 addr then Ok (mk 5 0 addr 0 arg PNone (-1)) else Err 1%N)).

(* SB21Helper._version_check / CmdVersionCheck *)
Definition h_version (d : dict) : res cmd :=
  bind (dint (dget "ver_type" d)) (fun ty =>
  bind (dint (dget "fw_version" d)) (fun v =>
  Ok (mk 11 0 ty v 0 PNone (-1)))).

(* tags of spsdk.mboot.memories.ExtMemId (ExtMemId.from_tag raises SPSDKKeyError for any other tag) *)
Definition ext_mem_tags : list Z := [1; 4; 8; 9; 10; 11; 16; 256; 257; 272; 273; 288; 289].
Definition is_ext_mem (m : Z) : bool := existsb (Z.eqb m) ext_mem_tags.

(* SB21Helper._keystore_to_nv / _keystore_from_nv / CmdKeyStoreBackupRestore *)
Definition h_keystore (tag : Z) (d : dict) : res cmd :=
  match dget "mem_opt" d with
  | None => Err 2%N                                            (* KeyError 'mem_opt' *)
  | Some (DInt m) =>
      bind (dint (dget "address" d)) (fun addr =>
        if negb (is_ext_mem m) then Err 1%N
        else if negb (u32 addr) then Err 1%N
        else if (m <? 0) || (255 <? m) then Err 1%N
        else Ok (mk tag (Z.land (Z.shiftl m 8) 65280) addr 4 0 PNone m))
  | Some _ => bind (dint (dget "address" d)) (fun _ => Err 2%N)   (* ExtMemId.from_tag(str): hex(str) TypeError *)
  end.

(* key blobs: config["keyblobs"] = list of {keyblob_id, keyblob_content: [options]} *)
Definition keyblobs := list (Z * dict).

Fixpoint find_keyblob (id : Z) (l : keyblobs) : option dict :=
  match l with
  | [] => None
  | (i, c) :: r => if i =? id then Some c else find_keyblob id r
  end.

Definition hex_val (c : N) : option N :=
  if (48 <=? c)%N && (c <=? 57)%N then Some (c - 48)%N
  else if (97 <=? c)%N && (c <=? 102)%N then Some (c - 87)%N
  else if (65 <=? c)%N && (c <=? 70)%N then Some (c - 55)%N
  else None.
(* bytes.fromhex on text without white space *)
Fixpoint fromhex (s : list N) : option (list N) :=
  match s with
  | [] => Some []
  | a :: b :: r => match hex_val a, hex_val b, fromhex r with
                   | Some x, Some y, Some t => Some ((16 * x + y)%N :: t)
                   | _, _, _ => None
                   end
  | _ => None
  end.

Record kb := { kb_start : Z; kb_end : Z; kb_key : list N; kb_ctr : list N; kb_swap : bool }.

(* _validate_keyblob followed by the field conversions and the KeyBlob constructor checks *)
Definition resolve_keyblob (kbs : keyblobs) (id : Z) : res kb :=
  match find_keyblob id kbs with
  | None => Err 1%N                                            (* "Missing keyblob" *)
  | Some c =>
      if negb (dhas "start" c && dhas "end" c && dhas "key" c && dhas "counter" c) then Err 1%N
      else
        match dget "start" c, dget "end" c, dget "key" c, dget "counter" c with
        | Some (DInt s), Some (DInt e), Some (DStr k), Some (DStr ct) =>
            match fromhex k, fromhex ct with
            | Some kb_, Some cb =>
                let swap := truthy (dget "byte_swap" c) in
                if negb (Nat.eqb (List.length kb_) 16) && negb (Nat.eqb (List.length cb) 8) then Err 1%N
                else if negb (Nat.eqb (List.length kb_) 16) || negb (Nat.eqb (List.length cb) 8) then Err E_UNMODELLED
                else if (s <? 0) || (e <? s) || (4294967295 <? e) then Err 1%N
                else if negb (Z.land s 1023 =? 0) then Err 1%N
                else Ok {| kb_start := s; kb_end := e; kb_key := kb_; kb_ctr := cb; kb_swap := swap |}
            | _, _ => Err 2%N                                  (* ValueError of bytes.fromhex *)
            end
        | _, _, _, _ => Err E_UNMODELLED
        end
  end.

(* SB21Helper._keywrap *)
Definition h_keywrap (kbs : keyblobs) (d : dict) : res cmd :=
  bind (dint (dget "keyblob_id" d)) (fun id =>
  bind (dint (dget "address" d)) (fun addr =>
  match dget "values" d with
  | Some (DBlob kek) =>
      bind (resolve_keyblob kbs id) (fun k =>
        if negb (Nat.eqb (List.length kek) 16) then Err 1%N
        else cmd_load addr (PWrap (kb_key k) (kb_ctr k) (kb_start k) (kb_end k) kek) 0)
  | _ => Err E_UNMODELLED
  end)).

Definition align_zeros (d : list N) (a : nat) : list N :=
  let r := Nat.modulo (List.length d) a in
  if Nat.eqb r 0 then d else d ++ repeat 0%N (a - r).

(* SB21Helper._encrypt *)
Definition h_encrypt (fs : files) (kbs : keyblobs) (d : dict) : res cmd :=
  bind (dint (dget "keyblob_id" d)) (fun id =>
  bind (dint (dget "address" d)) (fun addr =>
  bind (if truthy (dget "file" d) then
          match dget "file" d with Some (DStr p) => load_binary fs p | _ => Err E_UNMODELLED end
        else if truthy (dget "values" d) then
          match dget "values" d with
          | Some (DBlob b) => if truthy (dget "binary_blob" d) then Ok b
                              else let v := Z.of_N (be_dec b) in
                                   if 4294967295 <? v then Err 2%N     (* struct.error *)
                                   else Ok (le_enc 4 (Z.to_N v))
          | _ => Err E_UNMODELLED
          end
        else Err 1%N) (fun data =>
  bind (resolve_keyblob kbs id) (fun k =>
  if negb (Z.land (kb_end k) 2 =? 0) && negb (Z.land (kb_end k) 1 =? 0) then
    if negb (addr mod 16 =? 0) then Err 1%N
    else cmd_load addr (PEnc (kb_key k) (kb_ctr k) (kb_start k) (kb_end k) (kb_swap k)
                             (if encrypt_counter_from_address then addr else kb_start k) addr (align_zeros data 512)) 0
  else cmd_load addr (PBytes data) 0)))).

(* dispatch: SB21Helper.cmds[key] (KeyError when the key is missing), then the handler of that name *)
Fixpoint lookup_handler (k : string) (l : list (string * string)) : option string :=
  match l with
  | [] => None
  | (k', h) :: r => if String.eqb k k' then Some h else lookup_handler k r
  end.

Definition run_handler (fs : files) (kbs : keyblobs) (h : string) (d : dict) : res cmd :=
  if String.eqb h "_load" then h_load fs d
  else if String.eqb h "_fill_memory" then h_fill d
  else if String.eqb h "_erase_cmd_handler" then h_erase d
  else if String.eqb h "_enable" then h_enable d
  else if String.eqb h "_encrypt" then h_encrypt fs kbs d
  else if String.eqb h "_keywrap" then h_keywrap kbs d
  else if String.eqb h "_keystore_to_nv" then h_keystore 12 d
  else if String.eqb h "_keystore_from_nv" then h_keystore 13 d
  else if String.eqb h "_version_check" then h_version d
  else if String.eqb h "_jump" then h_jump d
  else if String.eqb h "_prog" then h_prog d
  else if String.eqb h "_call" then h_call d
  else if String.eqb h "_reset" then Ok (mk 8 0 0 0 0 PNone (-1))
  else Err E_UNMODELLED.

Definition helper (fs : files) (kbs : keyblobs) (kd : string * dict) : res cmd :=
  match lookup_handler (fst kd) helper_cmds with
  | None => Err 2%N                                            (* KeyError *)
  | Some h => run_handler fs kbs h (snd kd)
  end.

(* statement -> command object, as SPSDK does it *)
Definition compile_impl (c : pctx) (fs : files) (kbs : keyblobs) (s : stmt) : res cmd :=
  bind (stmt_dict c s) (helper fs kbs).

(* ------------------------------------------------------------------------------------------------ *)
(** * Statements: specification                                                                      *)
(* ------------------------------------------------------------------------------------------------ *)
Definition sev (c : pctx) (e : expr) : option Z := eval_spec (vars c) e.

(* memory option -> memory id: none = internal memory 0; @n = n; name = documented legacy name *)
Definition spec_mem (c : pctx) (o : memopt) : option Z :=
  match o with
  | MNone => Some 0
  | MAt e => sev c e
  | MName s => match lookup_legacy s legacy_mem with Some (Some t) => if t =? 0 then None else Some t | _ => None end
  end.

Definition spec_target (c : pctx) (t : target) : option (Z * option Z) :=
  match t with
  | TAddr e => obind (sev c e) (fun a => Some (a, None))
  | TRange a b => obind (sev c a) (fun va => obind (sev c b) (fun vb => Some (va, Some (vb - va))))
  end.

Definition spec_arg (c : pctx) (a : callarg) : option Z :=
  match a with ANone | AEmpty => Some 0 | AArg e => sev c e end.

Definition guard (b : bool) : option unit := if b then Some tt else None.

(* a pattern is a byte, a half-word or a word (three bytes are widened to a word), replicated to 32 bits *)
Definition spec_fill_word (p : Z) : option Z :=
  if p <? 0 then None
  else if p <? 256 then Some (p * 16843009)
  else if p <? 65536 then Some (p * 65537)
  else if p <? 4294967296 then Some p
  else None.

Definition spec_data (c : pctx) (fs : files) (d : ldata) : option (list N) :=
  match d with
  | LFile p => match p with [] => None | _ => lookup_file p fs end
  | LSource x => obind (lookup_src x (srcs c)) (fun p => match p with [] => None | _ => lookup_file p fs end)
  | LBlob b => match b with [] => None | _ => Some b end          (* the bytes of the blob, in the order written *)
  | LPattern _ => None
  end.

(* load fuse / ifr {{..}} > index: the blob, read as one big-endian number below 2^64, is programmed as one or two
   byte-swapped 32-bit words (for a four / eight byte blob: its little-endian words, as elftosb does) *)
Definition spec_prog_blob (addr : Z) (b : list N) : option cmd :=
  let v := Z.of_N (be_dec b) in
  obind (if v <? 4294967296 then Some (swap32 v, 0)
         else if v <? 18446744073709551616 then Some (swap32 (Z.shiftr v 32), swap32 (Z.land v 4294967295))
         else None) (fun w =>
  obind (guard (u32 addr && u32 (fst w) && u32 (snd w))) (fun _ =>
  Some (mk 10 (Z.lor (b2z (negb (snd w =? 0))) 1024) addr (fst w) (snd w) PNone 4))).

Definition stmt_spec (c : pctx) (fs : files) (kbs : keyblobs) (s : stmt) : option cmd :=
  match s with
  | SLoad o (LPattern e) t =>
      match o with
      | MNone =>     (* pattern fill of the address (one word) or of the whole range *)
          obind (spec_target c t) (fun al => obind (sev c e) (fun p =>
          let len := match snd al with Some l => if l =? 0 then 4 else l | None => 4 end in
          obind (guard (len mod 4 =? 0)) (fun _ => obind (spec_fill_word p) (fun w =>
          obind (guard (u32 (fst al))) (fun _ => Some (mk 3 0 (fst al) len w PNone (-1)))))))
      | _ =>         (* load ifr / fuse <word> > index : program one word *)
          obind (spec_mem c o) (fun m => obind (spec_target c t) (fun al => obind (sev c e) (fun p =>
          obind (guard ((m =? 4) && (0 <? p) && (p <? 4294967296) && u32 (fst al))) (fun _ =>
          Some (mk 10 1024 (fst al) p 0 PNone 4)))))
      end
  | SLoad o d t =>
      obind (spec_mem c o) (fun m => obind (spec_target c t) (fun al =>
      match d with
      | LBlob b =>
          if m =? 4 then
            obind (spec_data c fs d) (fun bytes => spec_prog_blob (fst al) bytes)
          else obind (spec_data c fs d) (fun bytes => obind (guard (u32 (fst al))) (fun _ =>
               Some (mk 2 (mem_flags m) (fst al) 0 0 (PBytes bytes) m)))
      | _ => obind (spec_data c fs d) (fun bytes => obind (guard (u32 (fst al))) (fun _ =>
               Some (mk 2 (mem_flags m) (fst al) 0 0 (PBytes bytes) m)))
      end))
  | SErase o t =>
      obind (spec_mem c o) (fun m => obind (spec_target c t) (fun al => obind (guard (u32 (fst al))) (fun _ =>
      Some (mk 7 (mem_flags m) (fst al) (match snd al with Some l => l | None => 0 end) 0 PNone m))))
  | SEraseAll o =>
      obind (spec_mem c o) (fun m => Some (mk 7 (Z.lor 1 (mem_flags m)) 0 0 0 PNone m))
  | SEraseUnsecureAll => Some (mk 7 2 0 0 0 PNone 0)
  | SEnable o e =>
      obind (spec_mem c o) (fun m => obind (sev c e) (fun a => Some (mk 9 (mem_flags m) a 4 0 PNone m)))
  | SCall true t a =>
      obind (sev c t) (fun addr => obind (spec_arg c a) (fun arg => obind (guard (u32 addr)) (fun _ =>
      Some (mk 4 0 addr 0 arg PNone (-1)))))
  | SCall false t a =>
      obind (sev c t) (fun addr => obind (spec_arg c a) (fun arg => obind (guard (u32 addr)) (fun _ =>
      Some (mk 5 0 addr 0 arg PNone (-1)))))
  | SJumpSp sp t a =>
      obind (sev c sp) (fun vsp => obind (sev c t) (fun addr => obind (spec_arg c a) (fun arg =>
      obind (guard (u32 addr)) (fun _ => Some (mk 4 2 addr vsp arg PNone (-1))))))
  | SReset => Some (mk 8 0 0 0 0 PNone (-1))
  | SVersionCheck nsec e => obind (sev c e) (fun v => Some (mk 11 0 (b2z nsec) v 0 PNone (-1)))
  | SKeystore to_nv o t =>
      match o with
      | MAt e => obind (sev c e) (fun m => obind (spec_target c t) (fun al =>
                 obind (guard (u32 (fst al) && is_ext_mem m && (m <=? 255))) (fun _ =>
                 Some (mk (if to_nv then 12 else 13) (Z.shiftl m 8) (fst al) 4 0 PNone m))))
      | _ => None
      end
  | SKeywrap id kek a =>
      obind (sev c id) (fun vid => obind (sev c a) (fun addr =>
      match to_opt (resolve_keyblob kbs vid) with
      | Some k => obind (guard (Nat.eqb (List.length kek) 16 && u32 addr)) (fun _ =>
                  Some (mk 2 0 addr 0 0 (PWrap (kb_key k) (kb_ctr k) (kb_start k) (kb_end k) kek) 0))
      | None => None
      end))
  | SEncrypt id o d t =>
      obind (sev c id) (fun vid =>
      obind (match o with                                    (* the option is read (it must be syntax), not used *)
             | MAt e => obind (sev c e) (fun _ => Some tt)
             | MName s => if String.eqb s "" then None else Some tt
             | MNone => Some tt
             end) (fun _ =>
      obind (spec_target c t) (fun al =>
      match d with
      | LFile _ | LSource _ | LBlob _ =>
          obind (spec_data c fs d) (fun bytes =>
          match to_opt (resolve_keyblob kbs vid) with
          | Some k =>
              obind (guard (u32 (fst al))) (fun _ =>
              if negb (Z.land (kb_end k) 2 =? 0) && negb (Z.land (kb_end k) 1 =? 0) then
                obind (guard (fst al mod 16 =? 0)) (fun _ =>
                Some (mk 2 0 (fst al) 0 0
                         (PEnc (kb_key k) (kb_ctr k) (kb_start k) (kb_end k) (kb_swap k) (fst al) (fst al) (align_zeros bytes 512)) 0))
              else Some (mk 2 0 (fst al) 0 0 (PBytes bytes) 0))
          | None => None
          end)
      | _ => None
      end)))
  end.

(* ------------------------------------------------------------------------------------------------ *)
(** * Unsupported constructs                                                                         *)
(* ------------------------------------------------------------------------------------------------ *)
(* constructs of the grammar of elf2sb.md that SPSDK documents as unsupported, by the production that matches them *)
Inductive unsupported :=
| U_source_attr_list | U_section_from_source | U_from_stmt | U_if_stmt | U_mode_stmt | U_message_info
| U_message_warning | U_message_error | U_load_section_list | U_load_section_list_from | U_section_ref
| U_section_ref_not | U_load_target_period | U_load_target_empty | U_symbol_ref | U_call_source | U_call_symbol
| U_expr_symbol_ref | U_sizeof_symbol | U_sizeof_ident | U_ident_source | U_section_options.

Definition all_unsupported : list unsupported :=
  [U_source_attr_list; U_section_from_source; U_from_stmt; U_if_stmt; U_mode_stmt; U_message_info; U_message_warning;
   U_message_error; U_load_section_list; U_load_section_list_from; U_section_ref; U_section_ref_not; U_load_target_period;
   U_load_target_empty; U_symbol_ref; U_call_source; U_call_symbol; U_expr_symbol_ref; U_sizeof_symbol; U_sizeof_ident;
   U_ident_source; U_section_options].

Definition production_of (u : unsupported) : string * string :=
  match u with
  | U_source_attr_list => ("source_def", "source_def IDENT ASSIGN source_value LPAREN source_attr_list RPAREN SEMI")
  | U_section_from_source => ("section_contents", "LE SOURCE_NAME SEMI")
  | U_from_stmt => ("from_stmt", "FROM SOURCE_NAME LBRACE in_from_stmt RBRACE")
  | U_if_stmt => ("if_stmt", "IF bool_expr LBRACE statement RBRACE else_stmt")
  | U_mode_stmt => ("mode_stmt", "MODE int_const_expr")
  | U_message_info => ("message_type", "INFO")
  | U_message_warning => ("message_type", "WARNING")
  | U_message_error => ("message_type", "ERROR")
  | U_load_section_list => ("load_data", "section_list")
  | U_load_section_list_from => ("load_data", "section_list FROM SOURCE_NAME")
  | U_section_ref => ("section_ref", "SECTION_NAME")
  | U_section_ref_not => ("section_ref", "NOT SECTION_NAME")
  | U_load_target_period => ("load_target", "GT PERIOD")
  | U_load_target_empty => ("load_target", "empty")
  | U_symbol_ref => ("symbol_ref", "SOURCE_NAME QUESTIONMARK COLON IDENT")
  | U_call_source => ("call_target", "SOURCE_NAME")
  | U_call_symbol => ("call_target", "symbol_ref")
  | U_expr_symbol_ref => ("expr", "symbol_ref")
  | U_sizeof_symbol => ("expr", "SIZEOF LPAREN symbol_ref RPAREN")
  | U_sizeof_ident => ("expr", "SIZEOF LPAREN IDENT RPAREN")
  | U_ident_source => ("bool_expr", "IDENT LPAREN SOURCE_NAME RPAREN")
  | U_section_options => ("section_options", "SEMI section_option_list")
  end.

Fixpoint production_flag (nt rhs : string) (l : list (string * string * bool)) : option bool :=
  match l with
  | [] => None
  | (n, r, e) :: t => if String.eqb nt n && String.eqb rhs r then Some e else production_flag nt rhs t
  end.

(* what reducing the production does: Err 1 = self.error(...) raises SPSDKError; Ok tt = accepted silently;
   Err 9 = the production no longer exists (syntax error through sly, reached by correspondence only) *)
Definition reduce_unsupported (u : unsupported) : res unit :=
  match production_flag (fst (production_of u)) (snd (production_of u)) productions with
  | Some true => Err 1%N
  | Some false => Ok tt
  | None => Err E_UNMODELLED
  end.

(* how SPSDK treats the construct: section options are parsed (the parser is shared with HAB command files, where they
   mean something) and refused by BootImageV21.load_from_config; everything else is refused by its production *)
Definition unsupported_outcome (u : unsupported) : res unit :=
  match u with
  | U_section_options => if section_options_refused then Err 1%N else Ok tt
  | _ => reduce_unsupported u
  end.

(* ------------------------------------------------------------------------------------------------ *)
(** * Whole programs                                                                                 *)
(* ------------------------------------------------------------------------------------------------ *)
Inductive cexpr := CEStr (s : list N) | CEBool (b : bexpr).
Inductive srcval := SPath (p : list N) | SExtern (e : expr).
Inductive block :=
| BOptions (defs : list (N * cexpr))
| BConstants (defs : list (N * bexpr))
| BSources (defs : list (N * srcval))
| BKeyblob (id : expr) (opts : list (string * cexpr)).

Record pstate := {
  st_vars : env;
  st_srcs : list (N * list N);
  st_opts : option (list (N * dval));        (* config["options"], None until the first options block *)
  st_srcdict : option (list (N * list N));   (* config["sources"] *)
  st_kbs : option (list (Z * dict)) }.       (* config["keyblobs"] *)

Definition st0 : pstate := {| st_vars := []; st_srcs := []; st_opts := None; st_srcdict := None; st_kbs := None |}.

Fixpoint nset {A} (k : N) (v : A) (d : list (N * A)) : list (N * A) :=
  match d with
  | [] => [(k, v)]
  | (k', v') :: r => if N.eqb k k' then (k, v) :: r else (k', v') :: nset k v r
  end.

Definition eval_cexpr (e : env) (c : cexpr) : res dval :=
  match c with
  | CEStr s => Ok (DStr s)
  | CEBool b => bind (beval_impl e b) (fun z => Ok (DInt z))
  end.

Fixpoint run_options (st : pstate) (acc : list (N * dval)) (defs : list (N * cexpr)) : res (pstate * list (N * dval)) :=
  match defs with
  | [] => Ok (st, acc)
  | (x, c) :: r =>
      bind (eval_cexpr (st_vars st) c) (fun v =>
        run_options {| st_vars := st_vars st ++ [(x, v)]; st_srcs := st_srcs st; st_opts := st_opts st;
                       st_srcdict := st_srcdict st; st_kbs := st_kbs st |} (nset x v acc) r)
  end.

Fixpoint run_constants (st : pstate) (defs : list (N * bexpr)) : res pstate :=
  match defs with
  | [] => Ok st
  | (x, b) :: r =>
      bind (beval_impl (st_vars st) b) (fun z =>
        run_constants {| st_vars := st_vars st ++ [(x, DInt z)]; st_srcs := st_srcs st; st_opts := st_opts st;
                         st_srcdict := st_srcdict st; st_kbs := st_kbs st |} r)
  end.

(* source_value: EXTERN '(' int_const_expr ')' with Python list indexing (negative indices count from the end) *)
Definition extern_lookup (ext : list (list N)) (i : Z) : res (list N) :=
  let n := Z.of_nat (List.length ext) in
  if n - 1 <? i then Err 1%N                                    (* "extern() out of range" *)
  else if i <? - n then Err 2%N                                 (* IndexError *)
  else match nth_error ext (Z.to_nat (if i <? 0 then i + n else i)) with
       | Some p => Ok p
       | None => Err 2%N
       end.

Fixpoint run_sources (ext : list (list N)) (st : pstate) (defs : list (N * srcval)) : res pstate :=
  match defs with
  | [] => Ok st
  | (x, v) :: r =>
      bind (match v with
            | SPath p => Ok p
            | SExtern e => bind (eval_impl (st_vars st) e) (extern_lookup ext)
            end) (fun p =>
        run_sources ext {| st_vars := st_vars st; st_srcs := st_srcs st ++ [(x, p)]; st_opts := st_opts st;
                           st_srcdict := st_srcdict st; st_kbs := st_kbs st |} r)
  end.

(* keyblob_options is right recursive: the LAST option is reduced first, and the dictionary is built as
   {first} .update(rest): on duplicate keys the later one wins, evaluation errors surface left to right in
   source order because all expressions are reduced before any dictionary is built *)
Fixpoint eval_kb_opts (e : env) (opts : list (string * cexpr)) : res dict :=
  match opts with
  | [] => Ok []
  | (k, c) :: r => bind (eval_cexpr e c) (fun v => bind (eval_kb_opts e r) (fun d => Ok (dupdate [(k, v)] d)))
  end.

Definition run_block (ext : list (list N)) (st : pstate) (b : block) : res pstate :=
  match b with
  | BOptions defs =>
      bind (run_options st [] defs) (fun sa =>
        let '(st', acc) := sa in
        let merged := fold_left (fun d kv => nset (fst kv) (snd kv) d) acc (match st_opts st' with Some o => o | None => [] end) in
        Ok {| st_vars := st_vars st'; st_srcs := st_srcs st'; st_opts := Some merged;
              st_srcdict := st_srcdict st'; st_kbs := st_kbs st' |})
  | BConstants defs => run_constants st defs
  | BSources defs =>
      bind (run_sources ext st defs) (fun st' =>
        (* {"sources": {every lexer source so far}} replaces the key *)
        Ok {| st_vars := st_vars st'; st_srcs := st_srcs st'; st_opts := st_opts st';
              st_srcdict := Some (fold_left (fun d kv => nset (fst kv) (snd kv) d) (st_srcs st') []); st_kbs := st_kbs st' |})
  | BKeyblob id opts =>
      bind (eval_impl (st_vars st) id) (fun vid =>
      bind (eval_kb_opts (st_vars st) opts) (fun d =>
        Ok {| st_vars := st_vars st; st_srcs := st_srcs st; st_opts := st_opts st; st_srcdict := st_srcdict st;
              st_kbs := Some ((match st_kbs st with Some l => l | None => [] end) ++ [(vid, d)]) |}))
  end.

Fixpoint run_blocks (ext : list (list N)) (st : pstate) (bs : list block) : res pstate :=
  match bs with
  | [] => Ok st
  | b :: r => bind (run_block ext st b) (fun st' => run_blocks ext st' r)
  end.

Record section := { sec_id : expr; sec_opts : list (string * cexpr); sec_stmts : list stmt }.
Record csection := { cs_id : Z; cs_opts : list (string * dval); cs_cmds : list (string * dict) }.

Fixpoint mapM {A B} (f : A -> res B) (l : list A) : res (list B) :=
  match l with
  | [] => Ok []
  | a :: r => bind (f a) (fun b => bind (mapM f r) (fun bs => Ok (b :: bs)))
  end.

(* section '(' int_const_expr section_options ')' section_contents: id, then the options (a list of one-entry
   dictionaries in the configuration), then the statements *)
Definition parse_section (c : pctx) (s : section) : res csection :=
  bind (eval_impl (vars c) (sec_id s)) (fun id =>
  bind (mapM (fun kc => bind (eval_cexpr (vars c) (snd kc)) (fun v => Ok (fst kc, v))) (sec_opts s)) (fun os =>
  bind (mapM (stmt_dict c) (sec_stmts s)) (fun ds => Ok {| cs_id := id; cs_opts := os; cs_cmds := ds |}))).

Record config := {
  cf_opts : option (list (N * dval)); cf_srcs : option (list (N * list N)); cf_kbs : option (list (Z * dict));
  cf_sections : list csection }.

Record program := { p_extern : list (list N); p_files : files; p_blocks : list block; p_sections : list section }.

(* BDParser().parse(text, extern) *)
Definition parse_program (p : program) : res config :=
  bind (run_blocks (p_extern p) st0 (p_blocks p)) (fun st =>
  bind (mapM (parse_section {| vars := st_vars st; srcs := st_srcs st |}) (p_sections p)) (fun secs =>
    Ok {| cf_opts := st_opts st; cf_srcs := st_srcdict st; cf_kbs := st_kbs st; cf_sections := secs |})).

(* BootImageV21.load_from_config: commands of every section, in order; KeyError when there is no options block; a
   section with options is refused when its turn comes *)
Definition load_config (fs : files) (cf : config) : res (list (list cmd)) :=
  match cf_opts cf with
  | None => Err 2%N
  | Some _ =>
      let kbs := match cf_kbs cf with Some l => l | None => [] end in
      mapM (fun sec => match cs_opts sec with
                       | _ :: _ => if section_options_refused then Err 1%N else mapM (helper fs kbs) (cs_cmds sec)
                       | [] => mapM (helper fs kbs) (cs_cmds sec)
                       end) (cf_sections cf)
  end.

(* ------------------------------------------------------------------------------------------------ *)
(** * Rendering to the interchange type                                                              *)
(* ------------------------------------------------------------------------------------------------ *)
Definition vstring (s : string) : value := VStr (map (fun a => N_of_ascii a) (list_ascii_of_string s)).

Definition v_dval (v : dval) : value :=
  match v with
  | DInt z => VInt z
  | DStr s => VStr s
  | DName s => VList [vstring s]
  | DBlob b => VBytes b
  end.
Definition v_dict (d : dict) : value := VList (map (fun kv => VList [vstring (fst kv); v_dval (snd kv)]) d).

Definition v_payload (p : payload) : value :=
  match p with
  | PNone => VList []
  | PBytes l => VList [VInt 1; VBytes l]
  | PWrap k c s e kek => VList [VInt 2; VBytes k; VBytes c; VInt s; VInt e; VBytes kek]
  | PEnc k c s e sw cb a d => VList [VInt 3; VBytes k; VBytes c; VInt s; VInt e; vbool sw; VInt a; VBytes d; VInt cb]
  end.
Definition v_cmd (c : cmd) : value :=
  VList [VInt (c_tag c); VInt (c_flags c); VInt (c_addr c); VInt (c_count c); VInt (c_data c); v_payload (c_payload c); VInt (c_memid c)].

Definition v_config (cf : config) : value :=
  VList [vopt (fun o => VList (map (fun kv => VList [VInt (Z.of_N (fst kv)); v_dval (snd kv)]) o)) (cf_opts cf);
         vopt (fun o => VList (map (fun kv => VList [VInt (Z.of_N (fst kv)); VStr (snd kv)]) o)) (cf_srcs cf);
         vopt (fun o => VList (map (fun kv => VList [VInt (fst kv); v_dict (snd kv)]) o)) (cf_kbs cf);
         VList (map (fun s => VList [VInt (cs_id s); VList (map (fun kd => VList [vstring (fst kd); v_dict (snd kd)]) (cs_cmds s));
                                     vnat (List.length (cs_opts s))])
                    (cf_sections cf))].

(* observable of one program: [configuration or error, command lists or error] *)
Definition run_program (p : program) : value :=
  match parse_program p with
  | Err k => VList [VErr k; VErr k]
  | Ok cf => VList [v_config cf;
                    vres (fun l => VList (map (fun cs => VList (map v_cmd cs)) l)) (load_config (p_files p) cf)]
  end.

(* expression-only entry points (function id, arguments) *)
Fixpoint dec_expr (v : value) : option expr :=
  match v with
  | VList [VInt 0; VInt z] => Some (ELit z)
  | VList [VInt 1; VInt x] => Some (EVar (Z.to_N x))
  | VList [VInt 2; VInt o; a; b] =>
      match dec_expr a, dec_expr b with
      | Some ea, Some eb =>
          let op := match o with 0 => Some Add | 1 => Some Sub | 2 => Some Mul | 3 => Some Div | 4 => Some Mod | 5 => Some Shl
                                 | 6 => Some Shr | 7 => Some BAnd | 8 => Some BOr | 9 => Some BXor | _ => None end in
          match op with Some op' => Some (EBin op' ea eb) | None => None end
      | _, _ => None
      end
  | VList [VInt 3; a] => match dec_expr a with Some ea => Some (ENeg ea) | None => None end
  | VList [VInt 4; a] => match dec_expr a with Some ea => Some (EPos ea) | None => None end
  | VList [VInt 5; a; VInt s] =>
      match dec_expr a with
      | Some ea => match s with 0 => Some (ESize ea SzW) | 1 => Some (ESize ea SzH) | 2 => Some (ESize ea SzB) | _ => None end
      | None => None
      end
  | _ => None
  end.

Definition v_tokens (ts : list token) : value :=
  VList (map (fun t => match t with
                       | TNum z => VList [VInt 0; VInt z] | TId x => VList [VInt 1; VInt (Z.of_N x)]
                       | TOp o => VList [VInt 2; vstring (binop_text o)] | TLp => VList [VInt 3] | TRp => VList [VInt 4]
                       | TSize s => VList [VInt 5; vstring (isize_text s)]
                       end) ts).

Definition run_case (fn : Z) (args : list value) : value :=
  match fn, args with
  | 1, [v] => match dec_expr v with Some e => vres VInt (eval_impl [] e) | None => VErr E_BADCASE end
  | 2, [v] => match dec_expr v with Some e => vopt VInt (eval_spec [] e) | None => VErr E_BADCASE end
  | 3, [v] => match dec_expr v with Some e => v_tokens (print_expr e) | None => VErr E_BADCASE end
  | _, _ => VErr E_BADCASE
  end.

(* evaluate a token list the way the precedence parser reads it *)
Definition run_tokens (e : env) (ts : list token) : value :=
  match parse_tokens ts with
  | Some x => vres VInt (eval_impl e x)
  | None => VErr 1%N
  end.

(* ------------------------------------------------------------------------------------------------ *)
(** * Sanity checks                                                                                  *)
(* ------------------------------------------------------------------------------------------------ *)
Example ex_fill : to_opt (compile_impl {| vars := []; srcs := [] |} [] []
                            (SLoad MNone (LPattern (ELit 85)) (TRange (ELit 8192) (ELit 12288))))
                  = Some (mk 3 0 8192 4096 1431655765 PNone (-1)).
Proof. vm_compute. reflexivity. Qed.
