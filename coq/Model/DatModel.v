(* Model/DatModel.v -- C15: debug authentication (credentials, challenges, responses).  Definitions only.

   Written the way the code computes it (defects included):
     DebugCredentialCertificate{Rsa,Ecc}, DebugCredentialEdgeLockEnclave, RotMeta{RSA,Flags,Ecc,EdgeLockEnclave},
     DebugCredentialCertificate.parse / create_from_yaml_config / calculate_hash        spsdk/dat/debug_credential.py
     DebugAuthenticateResponse{,RSA,ECC*}                                               spsdk/dat/dar_packet.py
     DebugAuthenticationChallenge.parse / export / validate_against_dc                  spsdk/dat/dac_packet.py
     AHAB SRKTable / SRKRecord parse + verify (what RotMetaEdgeLockEnclave.parse runs)  spsdk/image/ahab/ahab_srk.py
   Keys are their public numbers (RotModel.key); PEM/DER decoding, key-pair matching and the RSA/ECDSA primitives are
   black boxes: a signature is an opaque byte string handed in, verifiers emit obligations.
   Struct formats, field orders, version tables and database facts come from Gen/GenDat.v (regenerated from source on
   every run) and are compared with the layouts used here by the `*_from_source` Examples (reflexivity). *)
From Coq Require Import ZArith NArith List Bool.
Require Import Value Bytes Sha2 GenRot RotModel GenDat.
Import ListNotations.
Local Open Scope N_scope.

Definition E_NOTMODELLED : N := 99.

(* ------------------------------------------------------------------ Python struct, the subset used *)
Inductive fitem : Type := FU16 | FU32 | FS (n : nat).
Inductive fval : Type := XI (v : N) | XB (b : list N).

Definition fwidth (i : fitem) : nat := match i with FU16 => 2 | FU32 => 4 | FS n => n end%nat.
Definition calcsize (f : list fitem) : nat := fold_right (fun i a => (fwidth i + a)%nat) 0%nat f.
(* 'Ns': longer values are cut, shorter ones zero filled *)
Definition pack_s (n : nat) (b : list N) : list N := firstn n b ++ zeros (n - length b).
Definition pack1 (i : fitem) (v : fval) : res (list N) :=
  match i, v with
  | FU16, XI v => if v <? 65536 then Ok (le_enc 2 v) else Err 2          (* struct.error *)
  | FU32, XI v => if v <? 4294967296 then Ok (le_enc 4 v) else Err 2
  | FS n, XB b => Ok (pack_s n b)
  | _, _ => Err 2
  end.
Fixpoint pack (f : list fitem) (v : list fval) : res (list N) :=
  match f, v with
  | [], [] => Ok []
  | i :: f', x :: v' => bind (pack1 i x) (fun a => bind (pack f' v') (fun b => Ok (a ++ b)))
  | _, _ => Err 2
  end.
Definition unpack1 (i : fitem) (d : list N) : fval :=
  match i with FU16 => XI (le_dec (firstn 2 d)) | FU32 => XI (le_dec (firstn 4 d)) | FS n => XB (firstn n d) end.
Fixpoint unpack (f : list fitem) (d : list N) : list fval :=
  match f with [] => [] | i :: f' => unpack1 i d :: unpack f' (skipn (fwidth i) d) end.
(* unpack_from(fmt, data, offset): struct.error when the buffer is too small *)
Definition unpack_from (f : list fitem) (d : list N) (off : nat) : res (list fval) :=
  if (length d <? off + calcsize f)%nat then Err 2 else Ok (unpack f (skipn off d)).

(* ------------------------------------------------------------------ protocol versions *)
Definition version_ok (maj mi : N) : bool := existsb (fun p => (fst p =? maj) && (snd p =? mi)) g_versions.
(* ProtocolVersion.from_public_key *)
Definition version_of_key (k : key) : res (N * N) :=
  match k with
  | KRsa n _ => match lookup g_ver_rsa_minor (N.size n) with Some m => Ok (g_ver_rsa_major, m) | None => Err 2 end
  | KEcc c _ _ => match lookup g_ver_ecc_minor c with Some m => Ok (g_ver_ecc_major, m) | None => Err 2 end
  end.

(* ------------------------------------------------------------------ key blobs *)
(* PublicKeyRsa.export(exp_length=w): modulus minimal, exponent in w bytes (OverflowError when it does not fit) *)
Definition rsa_export_w (w : nat) (k : key) : res (list N) :=
  match k with
  | KRsa n e => bind (to_bytes w e) (fun eb => Ok (be_min n ++ eb))
  | KEcc _ _ _ => Err 2                                   (* assert isinstance(..., PublicKeyRsa) *)
  end.
Definition is_ecc_key (k : key) : bool := match k with KEcc _ _ _ => true | _ => false end.
Definition is_rsa_key (k : key) : bool := negb (is_ecc_key k).
Definition key_eqb (a b : key) : bool :=
  match a, b with
  | KRsa n e, KRsa n' e' => (n =? n') && (e =? e')
  | KEcc c x y, KEcc c' x' y' => (c =? c') && (x =? x') && (y =? y')
  | _, _ => false
  end.
(* PublicKey.parse of an NXP raw blob: RotModel.raw_decode + the checks `cryptography` applies to RSA public numbers
   (ValueError: "e must be >= 3 and < n" / "e must be odd"), which are not SPSDK errors *)
Definition rsa_numbers_ok (n e : N) : bool := negb ((e <? 3) || (n <=? e) || N.even e).
Definition pub_parse (b : list N) : res key :=
  bind (raw_decode b) (fun k => match k with KRsa n e => if rsa_numbers_ok n e then Ok k else Err 2 | _ => Ok k end).
(* signature_size of a public key *)
Definition key_sig_size (k : key) : nat :=
  match k with KRsa n _ => N.to_nat (N.size n / 8) | KEcc c _ _ => (2 * coord_size c)%nat end.

(* ------------------------------------------------------------------ AHAB SRK table (container version 1) *)
Record srk_rec := { sr_len : N; sr_alg : N; sr_hash : N; sr_ksid : N; sr_flags : N; sr_params : list N }.
Record srk_table := { st_len : N; st_recs : list srk_rec }.

Definition g_srk_v1_algs : list N := [33; 34; 39; 40].             (* AHABSignAlgorithmV1 tags *)
Definition g_srk_v2_algs : list N := [33; 34; 39; 40; 209; 210].    (* SRKRecordBase.VERSION = AHABSignAlgorithmV2.tags() *)
Definition g_srk_v1_hashes : list N := [0; 1; 2; 3].
Definition mem_n (x : N) (l : list N) : bool := existsb (N.eqb x) l.

(* SRKRecordBase.export *)
Definition srk_rec_export (r : srk_rec) : res (list N) :=
  match lookup2 g_ahab1_key_sizes (sr_ksid r) with
  | None => Err 1                                          (* "Key size value is not supported" *)
  | Some (l1, l2) =>
      if (65535 <? sr_len r) || (255 <? sr_alg r) || (255 <? sr_hash r) || (255 <? sr_ksid r) || (255 <? sr_flags r) then Err 2
      else Ok ([g_ahab1_rec_tag] ++ le16 (sr_len r) ++ [sr_alg r; sr_hash r; sr_ksid r; 0; sr_flags r]
               ++ le16 l1 ++ le16 l2 ++ sr_params r)
  end.
Definition srk_table_export (t : srk_table) : res (list N) :=
  bind (map_res srk_rec_export (st_recs t)) (fun rs =>
    if 65535 <? st_len t then Err 2 else Ok ([g_ahab1_tab_tag] ++ le16 (st_len t) ++ [g_ahab1_tab_version] ++ concat rs)).
Definition srk_rec_size (r : srk_rec) : N := 12 + nlen (sr_params r).
Definition srk_table_size (t : srk_table) : N := 4 + fold_right (fun r a => srk_rec_size r + a) 0 (st_recs t).

(* SRKRecord.create_from_key (+ update_fields) *)
Definition srk_rec_of_key (ca : bool) (k : key) : res srk_rec :=
  bind (srk_of_key ahab1 k) (fun si =>
    Ok {| sr_len := 12 + nlen (si_data si); sr_alg := si_alg si; sr_hash := hash_tag ahab1 (si_hash si);
          sr_ksid := si_ksid si; sr_flags := srk_flags ahab1 ca; sr_params := si_data si |}).
Definition srk_sig5 (r : srk_rec) : N * N * N * N * N := (sr_alg r, sr_hash r, sr_ksid r, sr_len r, sr_flags r).

(* SRKRecord.get_public_key of a parsed record *)
Definition srk_rec_key (r : srk_rec) : res key :=
  match lookup2 g_ahab1_key_sizes (sr_ksid r) with
  | None => Err 2
  | Some (l1, _) =>
      let p1 := be_dec (firstn (N.to_nat l1) (sr_params r)) in
      let p2 := be_dec (skipn (N.to_nat l1) (sr_params r)) in
      if (sr_alg r =? 33) || (sr_alg r =? 34) then (if rsa_numbers_ok p1 p2 then Ok (KRsa p1 p2) else Err 2)
      else if sr_alg r =? 39 then
        match find (fun p => snd p =? sr_ksid r) g_ahab1_ecc_type with
        | Some (c, _) => if on_curve c p1 p2 then Ok (KEcc c p1 p2) else Err 1
        | None => Err 1                                    (* get_key_by_val: SPSDKValueError *)
        end
      else Err 1
  end.
(* record-level verify() of a v1 record *)
Definition srk_rec_verify (r : srk_rec) : res bool :=
  match lookup2 g_ahab1_key_sizes (sr_ksid r) with
  | None => Ok false                                       (* "Unknown key size code" *)
  | Some (l1, l2) =>
      let alg := sr_alg r in
      let ks_ok := if (alg =? 33) || (alg =? 34) then mem_n (sr_ksid r) (map snd g_ahab1_rsa_type)
                   else if alg =? 39 then mem_n (sr_ksid r) (map snd g_ahab1_ecc_type)
                   else if alg =? 40 then sr_ksid r =? 8 else true in
      (* "Restore public key": SPSDK errors and ValueError (RSA numbers refused by `cryptography`) are warnings only *)
      Ok ((sr_len r =? srk_rec_size r) && mem_n alg g_srk_v1_algs && mem_n (sr_hash r) g_srk_v1_hashes && ks_ok
          && (sr_len r =? 12 + l1 + l2)
          && (nlen (firstn (N.to_nat l1) (sr_params r)) =? l1) && (nlen (skipn (N.to_nat l1) (sr_params r)) =? l2))
  end.
(* SRKTable.verify().validate() *)
Definition srk_table_verify (t : srk_table) : res unit :=
  match st_recs t with
  | [] => Err 2
  | r0 :: _ =>
      bind (map_res srk_rec_verify (st_recs t)) (fun oks =>
        if (st_len t =? srk_table_size t) && (nlen (st_recs t) =? g_ahab1_count) && forallb (fun b => b) oks
           && forallb (fun r => sig_eqb (srk_sig5 r) (srk_sig5 r0)) (st_recs t)
        then Ok tt else Err 1)
  end.

(* SRKRecord.parse (one record at the head of x) *)
Definition srk_rec_parse (x : list N) : res srk_rec :=
  if nlen x <? 12 then Err 1 else
  let tag := nth 0 x 0 in let len := le_dec (firstn 2 (skipn 1 x)) in let alg := nth 3 x 0 in
  if negb (tag =? g_ahab1_rec_tag) || negb (mem_n alg g_srk_v2_algs) || (nlen x <? len) then Err 1 else
  let l1 := le_dec (firstn 2 (skipn 8 x)) in let l2 := le_dec (firstn 2 (skipn 10 x)) in
  if len <? l1 + l2 + 12 then Err 1 else
  if negb (mem_n alg g_srk_v1_algs) || negb (mem_n (nth 4 x 0) g_srk_v1_hashes) then Err 1 else
  Ok {| sr_len := len; sr_alg := alg; sr_hash := nth 4 x 0; sr_ksid := nth 5 x 0; sr_flags := nth 7 x 0;
        sr_params := firstn (N.to_nat (l1 + l2)) (skipn 12 x) |}.
(* SRKTable.parse; a declared length below 4 walks backwards in the code and is not modelled *)
Definition srk_table_parse (d : list N) : res srk_table :=
  if nlen d <? 4 then Err 1 else
  let tag := nth 0 d 0 in let len := le_dec (firstn 2 (skipn 1 d)) in let ver := nth 3 d 0 in
  if negb (tag =? g_ahab1_tab_tag) || negb (ver =? g_ahab1_tab_version) || (nlen d <? len) then Err 1 else
  if len <? 4 then Err E_NOTMODELLED else
  if negb ((len - 4) mod 4 =? 0) then Err 1 else
  let sz := N.to_nat ((len - 4) / 4) in
  bind (map_res (fun i => srk_rec_parse (skipn (4 + i * sz) d)) [0; 1; 2; 3]%nat) (fun rs =>
    Ok {| st_len := len; st_recs := rs |}).
Definition srk_rec_eqb (a b : srk_rec) : bool :=
  sig_eqb (srk_sig5 a) (srk_sig5 b) && eqb_list (sr_params a) (sr_params b).
Fixpoint list_eqb {A} (f : A -> A -> bool) (a b : list A) : bool :=
  match a, b with [], [] => true | x :: a', y :: b' => f x y && list_eqb f a' b' | _, _ => false end.
Definition srk_table_eqb (a b : srk_table) : bool := (st_len a =? st_len b) && list_eqb srk_rec_eqb (st_recs a) (st_recs b).

(* ------------------------------------------------------------------ RoT meta *)
Inductive rotmeta : Type :=
| RMRsa (items : list (list N))
| RMEcc (hs : N) (used cnt : N) (items : list (list N))     (* hs = HASH_SIZE of the RotMetaEcc subclass *)
| RMEle (used cnt : N) (t : srk_table).

(* RotMetaFlags *)
Definition flags_validate (used cnt : N) : bool := negb (4 <? cnt) && negb (cnt <? used + 1).
Definition flags_export (used cnt : N) : res (list N) :=
  let f := N.lor (N.lor (2 ^ 31) (N.shiftl used 8)) (N.shiftl cnt 4) in
  if f <? 4294967296 then Ok (le_enc 4 f) else Err 2.
Definition flags_parse (d : list N) : res (N * N) :=
  if negb (nlen d =? 4) then Err 1 else
  let f := le_dec d in
  if negb (N.testbit f 31) then Err 1 else
  let used := N.land (N.shiftr f 8) 15 in let cnt := N.land (N.shiftr f 4) 15 in
  if flags_validate used cnt then Ok (used, cnt) else Err 1.

(* bytearray slice assignment buf[a:b] = d *)
Definition slice_assign (buf : list N) (a b : nat) (d : list N) : list N := firstn a buf ++ d ++ skipn b buf.
Fixpoint rsa_meta_fill (buf : list N) (i : nat) (items : list (list N)) : list N :=
  match items with
  | [] => buf
  | it :: t => rsa_meta_fill (slice_assign buf (i * 32) ((i + 1) * 32) it) (S i) t
  end.
Definition all_zero (l : list N) : bool := forallb (N.eqb 0) l.

Definition rotmeta_export (m : rotmeta) : res (list N) :=
  match m with
  | RMRsa items => Ok (rsa_meta_fill (zeros 128) 0 items)
  | RMEcc _ used cnt items =>
      bind (flags_export used cnt) (fun f => Ok (f ++ (if (1 <? length items)%nat then concat items else [])))
  | RMEle used cnt t => bind (flags_export used cnt) (fun f => bind (srk_table_export t) (fun tb => Ok (f ++ tb)))
  end.
(* RotMetaRSA.parse *)
Definition rsa_meta_parse (d : list N) : res rotmeta :=
  if nlen d <? 128 then Err 1 else
  Ok (RMRsa (filter (fun it => negb (all_zero it)) (map (fun i => slice d (i * 32) ((i + 1) * 32)) [0; 1; 2; 3]%nat))).
(* size of one table entry: the digest, HASH_SIZES[HASH_SIZE] // 8 = 32 / 48 / 64 *)
Definition ecc_item_size (hs : N) : nat :=
  match lookup g_hash_sizes hs with Some bits => N.to_nat (bits / 8) | None => N.to_nat hs end.
(* RotMetaEcc<hs>.parse *)
Definition ecc_meta_parse (hs : N) (d : list N) : res rotmeta :=
  bind (flags_parse (firstn 4 d)) (fun uc =>
    let '(used, cnt) := uc in
    let tb := skipn 4 d in let h := ecc_item_size hs in
    Ok (RMEcc hs used cnt (if 1 <? cnt then map (fun i => slice tb (i * h) ((i + 1) * h)) (seq 0 (N.to_nat cnt)) else []))).
(* RotMetaEdgeLockEnclave.parse *)
Definition ele_meta_parse (d : list N) : res rotmeta :=
  bind (flags_parse (firstn 4 d)) (fun uc =>
    let '(used, cnt) := uc in
    bind (srk_table_parse (skipn 4 d)) (fun t => bind (srk_table_verify t) (fun _ => Ok (RMEle used cnt t)))).
Definition rotmeta_eqb (a b : rotmeta) : bool :=
  match a, b with
  | RMRsa x, RMRsa y => list_eqb eqb_list x y
  | RMEcc _ u c x, RMEcc _ u' c' y => (u =? u') && (c =? c') && list_eqb eqb_list x y
  | RMEle u c t, RMEle u' c' t' => (u =? u') && (c =? c') && srk_table_eqb t t'
  | _, _ => false
  end.

(* ------------------------------------------------------------------ the credential *)
Inductive klass : Type := CRsa | CEcc | CEle.
Record dc := { d_major : N; d_minor : N; d_socc : N; d_uuid : list N; d_meta : rotmeta; d_dck : key;
               d_socu : N; d_vu : N; d_beacon : N; d_rot : key; d_sig : list N }.

(* layouts (checked against the generated formats below) *)
Definition head_fmt : list fitem := [FU16; FU16; FU32; FS 16; FU32; FU32; FU32].
Definition rsa_fmt (ks : nat) : list fitem := [FU16; FU16; FU32; FS 16; FS 128; FS ks; FU32; FU32; FU32; FS ks].
Definition ecc_fmt (ml rl dl : nat) : list fitem := head_fmt ++ [FS ml; FS rl; FS dl].
Definition ele_fmt (ml dl : nat) : list fitem := head_fmt ++ [FS ml; FS dl].
(* packed field ids: 1 major 2 minor 3 socc 4 uuid 5 rot_meta 6 dck 7 cc_socu 8 cc_vu 9 cc_beacon 10 rot_pub 11 signature *)
Definition rsa_order : list N := [1; 2; 3; 4; 5; 6; 7; 8; 9; 10].
Definition ecc_order : list N := [1; 2; 3; 4; 7; 8; 9; 5; 10; 6].
Definition ele_order : list N := [1; 2; 3; 4; 7; 8; 9; 5; 6].

Definition rsa_key_size (mi : N) : res nat := match lookup g_rsa_key_size mi with Some s => Ok (N.to_nat s) | None => Err 2 end.
Definition rsa_sig_size (mi : N) : res nat := match lookup g_rsa_sig_size mi with Some s => Ok (N.to_nat s) | None => Err 2 end.

(* export_rot_pub / export_dck_pub per class *)
Definition rot_blob (c : klass) (d : dc) : res (list N) :=
  match c with
  | CRsa => rsa_export_w (N.to_nat (fst g_rsa_exp_len)) (d_rot d)
  | _ => if is_ecc_key (d_rot d) then raw_key (d_rot d) else Err 2
  end.
Definition dck_blob (c : klass) (d : dc) : res (list N) :=
  match c with
  | CRsa => rsa_export_w (N.to_nat (snd g_rsa_exp_len)) (d_dck d)
  | _ => raw_key (d_dck d)
  end.

Definition field_val (c : klass) (d : dc) (f : N) : res fval :=
  if f =? 1 then Ok (XI (d_major d)) else if f =? 2 then Ok (XI (d_minor d)) else if f =? 3 then Ok (XI (d_socc d))
  else if f =? 4 then Ok (XB (d_uuid d)) else if f =? 5 then res_map XB (rotmeta_export (d_meta d))
  else if f =? 6 then res_map XB (dck_blob c d) else if f =? 7 then Ok (XI (d_socu d)) else if f =? 8 then Ok (XI (d_vu d))
  else if f =? 9 then Ok (XI (d_beacon d)) else if f =? 10 then res_map XB (rot_blob c d) else Err 2.

(* get_data_format(include_signature=False); Err 2 = AssertionError / KeyError *)
Definition dc_format (c : klass) (d : dc) : res (list fitem) :=
  match c with
  | CRsa => bind (rsa_key_size (d_minor d)) (fun ks => Ok (rsa_fmt ks))
  | CEcc =>
      match d_rot d, d_dck d with
      | KEcc cr _ _, KEcc cd _ _ =>
          bind (rotmeta_export (d_meta d)) (fun m => Ok (ecc_fmt (length m) (2 * coord_size cr) (2 * coord_size cd)))
      | _, _ => Err 2
      end
  | CEle => bind (rotmeta_export (d_meta d)) (fun m => bind (dck_blob c d) (fun k => Ok (ele_fmt (length m) (length k))))
  end.
Definition dc_order (c : klass) : list N := match c with CRsa => rsa_order | CEcc => ecc_order | CEle => ele_order end.

(* _get_data_to_sign *)
Definition dc_tbs (c : klass) (d : dc) : res (list N) :=
  bind (dc_format c d) (fun f => bind (map_res (field_val c d) (dc_order c)) (fun vs => pack f vs)).
(* the width the signature is packed with *)
Definition dc_sig_width (c : klass) (d : dc) : res nat :=
  match c with CRsa => rsa_sig_size (d_minor d) | _ => Ok (length (d_sig d)) end.
(* export *)
Definition dc_export (c : klass) (d : dc) : res (list N) :=
  match d_sig d with
  | [] => Err 1                                            (* "signature is not set" *)
  | _ => bind (dc_tbs c d) (fun t => bind (dc_sig_width c d) (fun w => Ok (t ++ pack_s w (d_sig d))))
  end.

Definition xi (v : fval) : N := match v with XI n => n | XB _ => 0 end.
Definition xb (v : fval) : list N := match v with XB b => b | XI _ => [] end.

(* DebugCredentialCertificateRsa.parse *)
Definition rsa_parse (d : list N) : res dc :=
  bind (unpack_from [FU16; FU16] d 0) (fun v =>
    let maj := xi (nth 0 v (XI 0)) in let mi := xi (nth 1 v (XI 0)) in
    if negb (version_ok maj mi) then Err 1 else
    bind (rsa_key_size mi) (fun ks => bind (rsa_sig_size mi) (fun sg =>
    bind (unpack_from (rsa_fmt ks ++ [FS sg]) d 0) (fun f =>
    let g i := nth i f (XI 0) in
    bind (rsa_meta_parse (xb (g 4%nat))) (fun m =>
    bind (pub_parse (xb (g 5%nat))) (fun dck =>
    bind (pub_parse (xb (g 9%nat))) (fun rot =>
      Ok {| d_major := maj; d_minor := mi; d_socc := xi (g 2%nat); d_uuid := xb (g 3%nat); d_meta := m; d_dck := dck;
            d_socu := xi (g 6%nat); d_vu := xi (g 7%nat); d_beacon := xi (g 8%nat); d_rot := rot; d_sig := xb (g 10%nat) |}))))))).

Definition ecc_hash_size (mi : N) : res N := match lookup g_ecc_coord mi with Some s => Ok s | None => Err 2 end.
(* DebugCredentialCertificateEcc.parse *)
Definition ecc_parse (d : list N) : res dc :=
  bind (unpack_from head_fmt d 0) (fun h =>
    let g i := nth i h (XI 0) in
    let maj := xi (g 0%nat) in let mi := xi (g 1%nat) in
    if negb (version_ok maj mi) then Err 1 else
    bind (ecc_hash_size mi) (fun hs =>
    if negb (mem_n hs (map fst g_hash_sizes)) then Err 1 else
    bind (ecc_meta_parse hs (skipn 36 d)) (fun m =>
    bind (rotmeta_export m) (fun mb =>
    let w := (2 * N.to_nat hs)%nat in
    bind (unpack_from [FS w; FS w; FS w] d (36 + length mb)) (fun t =>
    bind (pub_parse (xb (nth 1 t (XI 0)))) (fun dck =>
    bind (pub_parse (xb (nth 0 t (XI 0)))) (fun rot =>
      Ok {| d_major := maj; d_minor := mi; d_socc := xi (g 2%nat); d_uuid := xb (g 3%nat); d_meta := m; d_dck := dck;
            d_socu := xi (g 4%nat); d_vu := xi (g 5%nat); d_beacon := xi (g 6%nat); d_rot := rot;
            d_sig := xb (nth 2 t (XI 0)) |}))))))).

(* DebugCredentialEdgeLockEnclave.parse *)
Definition ele_parse (d : list N) : res dc :=
  bind (unpack_from head_fmt d 0) (fun h =>
    let g i := nth i h (XI 0) in
    let maj := xi (g 0%nat) in let mi := xi (g 1%nat) in
    if negb (version_ok maj mi) then Err 1 else
    bind (ele_meta_parse (skipn 36 d)) (fun m =>
    match m with
    | RMEle used cnt t =>
        bind (map_res srk_rec_key (st_recs t)) (fun keys =>
        match nth_error keys (N.to_nat used) with
        | None => Err 2
        | Some rot =>
            bind (raw_key rot) (fun rb =>
            bind (rotmeta_export m) (fun mb =>
            bind (unpack_from [FS (length rb); FS (key_sig_size rot)] d (36 + length mb)) (fun t2 =>
            bind (pub_parse (xb (nth 0 t2 (XI 0)))) (fun dck =>
              Ok {| d_major := maj; d_minor := mi; d_socc := xi (g 2%nat); d_uuid := xb (g 3%nat); d_meta := m; d_dck := dck;
                    d_socu := xi (g 4%nat); d_vu := xi (g 5%nat); d_beacon := xi (g 6%nat); d_rot := rot;
                    d_sig := xb (nth 1 t2 (XI 0)) |}))))
        end)
    | _ => Err E_NOTMODELLED
    end)).

Definition dc_parse_class (c : klass) (d : list N) : res dc :=
  match c with CRsa => rsa_parse d | CEcc => ecc_parse d | CEle => ele_parse d end.

(* DebugCredentialCertificate._get_class from the facts of a family: (ele, cnt_version); None = ELE container v2 *)
Definition class_of (ele cnt : N) (maj mi : N) : res (option klass) :=
  if negb (ele =? 0) then
    if (maj =? 2) && (mi =? 0) then Ok (Some CEle)
    else if cnt =? 1 then Ok (Some CEle) else if cnt =? 2 then Ok None else Err 1
  else if maj =? g_rsa_major then Ok (Some CRsa) else Ok (Some CEcc).

Definition g_cert_tag : N := 175.   (* AHABTags.CERTIFICATE: byte 3 of an ELE v2 credential *)
(* DebugCredentialCertificate.parse: ELE v2 attempt (fails on anything whose byte 3 is not the certificate tag), then
   version + SOCC -> family ambassador -> class *)
Definition dc_parse (d : list N) : res (klass * dc) :=
  if (4 <=? nlen d) && (nth 3 d 0 =? g_cert_tag) then Err E_NOTMODELLED else
  bind (unpack_from [FU16; FU16] d 0) (fun v =>
  bind (unpack_from [FU32] d 4) (fun s =>
    let maj := xi (nth 0 v (XI 0)) in let mi := xi (nth 1 v (XI 0)) in let socc := xi (nth 0 s (XI 0)) in
    match find (fun r => fst r =? socc) g_socc_table with
    | None => Err 1
    | Some (_, (ele, cnt, _, _)) =>
        if negb (version_ok maj mi) then Err 1 else
        bind (class_of ele cnt maj mi) (fun oc =>
          match oc with
          | None => bind (dc_parse_class CEle d) (fun x => Ok (CEle, x))   (* container v2 has refused the data above *)
          | Some c => bind (dc_parse_class c d) (fun x => Ok (c, x))
          end)
    end)).

Definition dc_eqb (a b : dc) : bool :=
  (d_major a =? d_major b) && (d_minor a =? d_minor b) && (d_socc a =? d_socc b) && eqb_list (d_uuid a) (d_uuid b)
  && rotmeta_eqb (d_meta a) (d_meta b) && key_eqb (d_dck a) (d_dck b) && (d_socu a =? d_socu b) && (d_vu a =? d_vu b)
  && (d_beacon a =? d_beacon b) && key_eqb (d_rot a) (d_rot b) && eqb_list (d_sig a) (d_sig b).

(* ------------------------------------------------------------------ calculate_hash *)
Definition ecc_table (m : rotmeta) : list N :=
  match m with RMEcc _ _ _ items => if (1 <? length items)%nat then concat items else [] | _ => [] end.
Definition dc_calc_hash (c : klass) (d : dc) : res (list N) :=
  match c, d_meta d with
  | CRsa, m => bind (rotmeta_export m) (fun b => Ok (sha256 b))
  | CEcc, RMEcc hs used cnt items =>
      match ecc_table (d_meta d) with
      | [] => (* crkt table empty -> hash of the RoT key with sha<key_size> *)
          if is_ecc_key (d_rot d) then bind (key_halg (d_rot d)) (fun a => bind (raw_key (d_rot d)) (fun b => Ok (hash a b)))
          else Err 2
      | tb => if cnt =? 0 then Err 2 else
              (* RotMetaEcc.key_size: HASH_SIZES[HASH_SIZE] of the subclass *)
              match lookup g_hash_sizes hs with
              | None => Err 2
              | Some bits => if bits =? 256 then Ok (sha256 tb) else if bits =? 384 then Ok (sha384 tb)
                             else if bits =? 512 then Ok (sha512 tb) else Err 1
              end
      end
  | CEle, RMEle _ _ t => bind (srk_table_export t) (fun b => Ok (sha256 b))
  | _, _ => Err E_NOTMODELLED
  end.

(* ------------------------------------------------------------------ create_from_yaml_config (keys already decoded) *)
(* family facts: (based_on_ele, ele_cnt_version) *)
Definition rot_meta_create (c : klass) (ks : list key) (rot_id : N) (flag_ca : bool) : res rotmeta :=
  match c with
  | CRsa => if 4 <? nlen ks then Err 1 else bind (map_res dc_rsa_item ks) (fun items => Ok (RMRsa items))
  | CEcc =>
      match ks with
      | [] => Err 1
      | k0 :: _ =>
          if negb (forallb is_ecc_key ks) then Err 1 else
          let hs := N.of_nat (coord_size (key_bits k0)) in
          if negb (forallb (fun k => N.of_nat (coord_size (key_bits k)) =? hs) ks) then Err 1 else
          if negb (mem_n hs (map fst g_hash_sizes)) then Err 1 else
          bind (dc_ecc_items ks) (fun items =>
            if flags_validate rot_id (nlen ks) then Ok (RMEcc hs rot_id (nlen ks) items) else Err 1)
      end
  | CEle =>
      if negb (flags_validate rot_id (nlen ks)) then Err 1 else
      if negb (nlen ks =? 4) then Err 1 else
      bind (map_res (srk_rec_of_key flag_ca) ks) (fun rs =>
        let t := {| st_len := 4 + fold_right (fun r a => sr_len r + a) 0 rs; st_recs := rs |} in
        bind (srk_table_verify t) (fun _ => Ok (RMEle rot_id (nlen ks) t)))
  end.

Definition dc_create (ele cnt : N) (socc : N) (ks : list key) (rot_id : N) (dck : key) (uuid : list N)
           (socu vu beacon : N) (flag_ca : bool) : res (klass * dc) :=
  match nth_error ks (N.to_nat rot_id) with
  | None => Err 2                                          (* IndexError on config["rot_meta"][rot_id] *)
  | Some rot =>
      bind (version_of_key rot) (fun v =>
      bind (class_of ele cnt (fst v) (snd v)) (fun oc =>
      if negb (length uuid =? 16)%nat then Err 1 else
      if negb (Bool.eqb (is_ecc_key dck) (is_ecc_key rot) && (key_bits dck =? key_bits rot)) then Err 1 else
      match oc with
      | None => Err 2                                      (* base-class create with the ELE v2 class: TypeError *)
      | Some c =>
          bind (rot_meta_create c ks rot_id flag_ca) (fun m =>
            Ok (c, {| d_major := fst v; d_minor := snd v; d_socc := socc; d_uuid := uuid; d_meta := m; d_dck := dck;
                      d_socu := socu; d_vu := vu; d_beacon := beacon; d_rot := rot; d_sig := [] |}))
      end))
  end.
Definition dc_with_sig (d : dc) (s : list N) : dc :=
  {| d_major := d_major d; d_minor := d_minor d; d_socc := d_socc d; d_uuid := d_uuid d; d_meta := d_meta d; d_dck := d_dck d;
     d_socu := d_socu d; d_vu := d_vu d; d_beacon := d_beacon d; d_rot := d_rot d; d_sig := s |}.

(* ------------------------------------------------------------------ challenge (DAC) *)
Record dac := { a_major : N; a_minor : N; a_socc : N; a_uuid : list N; a_revocation : N; a_rkth : list N;
                a_pinned : N; a_default : N; a_vu : N; a_challenge : list N }.
Definition dac_head_fmt : list fitem := [FU16; FU16; FU32; FS 16; FU32].
Definition dac_tail_fmt (hl : nat) : list fitem := [FS hl; FU32; FU32; FU32; FS 32].
(* get_rot_hash_length *)
Definition dac_hash_len (ele sha256_always maj mi : N) : nat :=
  if negb (ele =? 0) then 32%nat
  else if (maj =? 2) && (sha256_always =? 0) then (if mi =? 1 then 48%nat else if mi =? 2 then 64%nat else 32%nat)
  else 32%nat.
Definition dac_parse (d : list N) : res dac :=
  bind (unpack_from dac_head_fmt d 0) (fun h =>
    let g i := nth i h (XI 0) in
    let maj := xi (g 0%nat) in let mi := xi (g 1%nat) in let socc := xi (g 2%nat) in
    match find (fun r => fst r =? socc) g_socc_table with
    | None => Err 1
    | Some (_, (ele, _, sha, swapped)) =>
        let hl := dac_hash_len ele sha maj mi in
        let '(maj', mi') := if negb (swapped =? 0) then (mi, maj) else (maj, mi) in
        bind (unpack_from (dac_tail_fmt hl) d 28) (fun t =>
          let q i := nth i t (XI 0) in
          if negb (version_ok maj' mi') then Err 1 else
          Ok {| a_major := maj'; a_minor := mi'; a_socc := socc; a_uuid := xb (g 3%nat); a_revocation := xi (g 4%nat);
                a_rkth := xb (q 0%nat); a_pinned := xi (q 1%nat); a_default := xi (q 2%nat); a_vu := xi (q 3%nat);
                a_challenge := xb (q 4%nat) |})
    end).
Definition u32 (v : N) : res (list N) := if v <? 4294967296 then Ok (le_enc 4 v) else Err 2.
Definition u16 (v : N) : res (list N) := if v <? 65536 then Ok (le_enc 2 v) else Err 2.
Definition dac_export (a : dac) : res (list N) :=
  bind (u16 (a_major a)) (fun b1 => bind (u16 (a_minor a)) (fun b2 => bind (u32 (a_socc a)) (fun b3 =>
  bind (u32 (a_revocation a)) (fun b4 => bind (u32 (a_pinned a)) (fun b5 => bind (u32 (a_default a)) (fun b6 =>
  bind (u32 (a_vu a)) (fun b7 =>
    Ok (b1 ++ b2 ++ b3 ++ a_uuid a ++ b4 ++ a_rkth a ++ b5 ++ b6 ++ b7 ++ a_challenge a)))))))).

(* validate_against_dc: 0 accepted, Err 1 rejected.  family facts: ele, rot_not_part_of_dac, rot_could_be_invalid *)
Fixpoint prefix_eqb (a b : list N) : res bool :=     (* all(a[x] == b[x] for x in range(len(a))): IndexError when b is shorter *)
  match a with
  | [] => Ok true
  | x :: a' => match b with
               | [] => Err 2
               | y :: b' => if x =? y then prefix_eqb a' b' else Ok false
               end
  end.
Definition dac_validate (ele not_part could_be_invalid : bool) (a : dac) (c : klass) (d : dc) : res unit :=
  if negb ((a_major a =? d_major d) && (a_minor a =? d_minor d)) && negb ele then Err 1 else
  if negb (a_socc a =? d_socc d) then Err 1 else
  if negb (eqb_list (a_uuid a) (d_uuid d)) && negb (all_zero (d_uuid d)) then Err 1 else
  bind (dc_calc_hash c d) (fun h =>
    match h with
    | [] => Ok tt
    | _ => bind (prefix_eqb (a_rkth a) h) (fun same =>
             if same then Ok tt else if not_part then Ok tt else if could_be_invalid then Ok tt else Err 1)
    end).

(* ------------------------------------------------------------------ response (DAR) *)
Definition dar_uses_uuid (maj mi : N) : res bool :=
  match find (fun r => (fst (fst r) =? maj) && (snd (fst r) =? mi)) g_dar_versions with
  | Some (_, u) => Ok (negb (u =? 0))
  | None => Err 2
  end.
(* _get_common_data *)
Definition dar_common (with_uuid : bool) (dcb : list N) (beacon : N) (uuid : list N) : res (list N) :=
  bind (u32 beacon) (fun b => Ok (dcb ++ b ++ (if with_uuid then pack_s 16 uuid else []))).
(* _get_data_for_signature *)
Definition dar_tbs (with_uuid : bool) (dcb : list N) (beacon : N) (uuid challenge : list N) : res (list N) :=
  bind (dar_common with_uuid dcb beacon uuid) (fun c => Ok (c ++ challenge)).
(* export, given the signature the provider returned *)
Definition dar_export (with_uuid : bool) (dcb : list N) (beacon : N) (uuid sig : list N) : res (list N) :=
  bind (dar_common with_uuid dcb beacon uuid) (fun c => match sig with [] => Err 1 | _ => Ok (c ++ sig) end).

(* ------------------------------------------------------------------ verifiers (what the device checks), with obligations *)
Inductive obligation : Type := SigVerify (k : key) (msg sig : list N).

(* credential: decode, the signed range is everything in front of the signature, the key is the RoT key it carries *)
Definition dc_verify (c : klass) (b : list N) : res (dc * obligation) :=
  bind (dc_parse_class c b) (fun d =>
  bind (dc_export c d) (fun b' =>
    let n := (length b' - length (d_sig d))%nat in
    Ok (d, SigVerify (d_rot d) (firstn n b) (d_sig d)))).
(* response for protocol class c: the credential in front, beacon, (uuid), signature by the DCK over everything in front of
   the signature followed by the challenge the DEVICE issued; in the ECC protocols the uuid must be the device's own *)
Definition dar_verify (c : klass) (with_uuid : bool) (r : list N) (dev_uuid challenge : list N)
  : res (dc * N * list obligation) :=
  bind (dc_verify c r) (fun p =>
    let '(d, o1) := p in
    bind (dc_export c d) (fun dcb =>
      let rest := skipn (length dcb) r in
      if (length rest <? 4 + (if with_uuid then 16 else 0))%nat then Err 1 else
      let beacon := le_dec (firstn 4 rest) in
      let uuid := if with_uuid then firstn 16 (skipn 4 rest) else [] in
      if with_uuid && negb (eqb_list uuid dev_uuid) then Err 1 else
      let n := (length dcb + 4 + (if with_uuid then 16 else 0))%nat in
      let sig := skipn n r in
      Ok (d, beacon, [o1; SigVerify (d_dck d) (firstn n r ++ challenge) sig]))).

(* ------------------------------------------------------------------ (T1) the layouts above are the ones the source computes *)
Definition fitem_c (p : N * N) : fitem := if fst p =? 0 then FU16 else if fst p =? 1 then FU32 else FS (N.to_nat (snd p)).
(* RSA: DebugCredentialCertificateRsa.get_data_format(version) for 1.0 and 1.1 *)
Example rsa_fmt_from_source :
  map fitem_c g_rsa_fmt_0 = rsa_fmt 260 ++ [FS 256] /\ map fitem_c g_rsa_fmt_1 = rsa_fmt 516 ++ [FS 512] /\ g_rsa_exp_len = (4, 4).
Proof. repeat split; reflexivity. Qed.
(* ECC: get_data_format() of credentials created with n RoT keys on the curve: RoT meta = flags + n digests (n > 1) *)
Definition ecc_inst_fmt (bits n : N) : list fitem :=
  let cs := coord_size bits in
  let hl := if bits =? 256 then 32%nat else if bits =? 384 then 48%nat else 64%nat in
  (ecc_fmt (4 + (if (1 <? n)%N then N.to_nat n * hl else 0)) (2 * cs) (2 * cs) ++ [FS (2 * cs)])%nat.
Example ecc_fmt_from_source :
  map (fun r => map fitem_c (snd r)) g_ecc_fmt_inst = map (fun r => ecc_inst_fmt (fst (fst r)) (snd (fst r))) g_ecc_fmt_inst.
Proof. reflexivity. Qed.
(* EdgeLock: flags + SRK table (4 + 4 x (12 + key numbers)), DCK blob, signature *)
Definition ele_inst_fmt (bits : N) : list fitem :=
  let rsa := 1024 <? bits in
  let keylen := (if rsa then N.to_nat (bits / 8) + 4 else 2 * coord_size bits)%nat in
  let dcklen := (if rsa then N.to_nat (bits / 8) + 3 else 2 * coord_size bits)%nat in  (* RSA: minimal exponent, 65537 in the pool *)
  let siglen := (if rsa then N.to_nat (bits / 8) else 2 * coord_size bits)%nat in
  (ele_fmt (4 + 4 + 4 * (12 + keylen)) dcklen ++ [FS siglen])%nat.
Example ele_fmt_from_source :
  map (fun r => map fitem_c (snd r)) g_ele_fmt_inst = map (fun r => ele_inst_fmt (fst (fst r))) g_ele_fmt_inst.
Proof. reflexivity. Qed.

(* ------------------------------------------------------------------ run_case *)
Definition key_of_val (v : value) : option key :=
  match v with
  | VList [VInt 0%Z; VBytes n; VInt e] => Some (KRsa (be_dec n) (Z.to_N e))
  | VList [VInt 1%Z; VInt c; VBytes x; VBytes y] => Some (KEcc (Z.to_N c) (be_dec x) (be_dec y))
  | _ => None
  end.
Fixpoint keys_of_vals (l : list value) : option (list key) :=
  match l with
  | [] => Some []
  | v :: t => match key_of_val v, keys_of_vals t with Some k, Some ks => Some (k :: ks) | _, _ => None end
  end.
Definition val_of_key (k : key) : value :=
  match k with
  | KRsa n e => VList [VInt 0; VBytes (be_min n); vN e]
  | KEcc c x y => VList [VInt 1; vN c; VBytes (be_encf (coord_size c) x); VBytes (be_encf (coord_size c) y)]
  end.
Definition klass_id (c : klass) : Z := match c with CRsa => 0 | CEcc => 1 | CEle => 2 end%Z.
Definition klass_of_id (z : Z) : klass := (if z =? 0 then CRsa else if z =? 1 then CEcc else CEle)%Z.
Definition vbr (r : res (list N)) : value := vres VBytes r.
Definition val_of_dc (c : klass) (d : dc) : value :=
  VList [VInt (klass_id c); vN (d_major d); vN (d_minor d); vN (d_socc d); VBytes (d_uuid d); vN (d_socu d); vN (d_vu d);
         vN (d_beacon d); vbr (rotmeta_export (d_meta d)); val_of_key (d_dck d); val_of_key (d_rot d); VBytes (d_sig d)].
Definition zb (z : Z) : bool := negb (z =? 0)%Z.

(* large byte strings travel as big-endian chunks of 128 bytes (cheaper to parse than list literals) *)
Fixpoint bx (chunks : list N) (last : nat) : list N :=
  match chunks with
  | [] => []
  | [c] => be_encf last c
  | c :: t => be_encf 128 c ++ bx t last
  end.
(* results are compressed against a reference that both sides of the correspondence have: 1 = "equal to the reference" *)
Definition cmp_bytes (ref out : list N) : value := if eqb_list ref out then VInt 1 else VBytes out.
Definition cmp_res (ref : res (list N)) (r : res (list N)) : value :=
  match r with
  | Err k => VErr k
  | Ok b => match ref with Ok rb => cmp_bytes rb b | Err _ => VBytes b end
  end.
Definition cmp_key (ref k : key) : value := if key_eqb ref k then VInt 1 else val_of_key k.
Definition val_of_dc_cmp (ref : dc) (c : klass) (d : dc) : value :=
  VList [VInt (klass_id c); vN (d_major d); vN (d_minor d); vN (d_socc d); VBytes (d_uuid d); vN (d_socu d); vN (d_vu d);
         vN (d_beacon d); cmp_res (rotmeta_export (d_meta ref)) (rotmeta_export (d_meta d)); cmp_key (d_dck ref) (d_dck d);
         cmp_key (d_rot ref) (d_rot d); cmp_bytes (d_sig ref) (d_sig d)].
Definition is_prefix (a b : list N) : bool := eqb_list a (firstn (length a) b).

Definition run_case (fn : Z) (args : list value) : value :=
  match fn, args with
  (* 1: credential life cycle: family facts, inputs, signature as produced
        -> [class; major; minor; export; export = tbs ++ signature field; parse...; hash] *)
  | 1%Z, [VInt ele; VInt cnt; VInt socc; VList kvs; VInt rot_id; dckv; VBytes uuid; VInt socu; VInt vu; VInt beacon;
          VInt fca; VBytes sig] =>
      match keys_of_vals kvs, key_of_val dckv with
      | Some ks, Some dck =>
          match dc_create (Z.to_N ele) (Z.to_N cnt) (Z.to_N socc) ks (Z.to_N rot_id) dck uuid (Z.to_N socu) (Z.to_N vu)
                          (Z.to_N beacon) (zb fca) with
          | Err k => VErr k
          | Ok (c, d0) =>
              let d := dc_with_sig d0 sig in
              let ex := dc_export c d in
              VList [VInt (klass_id c); vN (d_major d); vN (d_minor d); vbr ex;
                     match ex, dc_tbs c d with
                     | Ok b, Ok t => vbool (is_prefix t b)
                     | _, Ok _ => VInt 1
                     | _, Err k => VErr k
                     end;
                     match ex with
                     | Err k => VErr k
                     | Ok b => match dc_parse b with
                               | Err k => VErr k
                               | Ok (c', p) => VList [val_of_dc_cmp d c' p; vbool (dc_eqb p d && (klass_id c =? klass_id c')%Z);
                                                      cmp_res ex (dc_export c' p)]
                               end
                     end;
                     vbr (dc_calc_hash c d)]
          end
      | _, _ => VErr E_BADCASE
      end
  (* 2: DebugCredentialCertificate.parse of arbitrary bytes -> [fields; re-export (1 = a prefix of the input); hash] *)
  | 2%Z, [VBytes b] =>
      match dc_parse b with
      | Err k => VErr k
      | Ok (c, p) => VList [val_of_dc c p;
                            match dc_export c p with Err k => VErr k | Ok r => if is_prefix r b then VInt 1 else VBytes r end;
                            vbr (dc_calc_hash c p)]
      end
  (* 3: response: protocol version of the credential, credential bytes, beacon, device uuid, challenge, signature
        -> [signed message (1 = response-without-signature ++ challenge); exported response] *)
  | 3%Z, [VInt maj; VInt mi; VBytes dcb; VInt beacon; VBytes uuid; VBytes ch; VBytes sig] =>
      match dar_uses_uuid (Z.to_N maj) (Z.to_N mi) with
      | Err k => VErr k
      | Ok u =>
          let t := dar_tbs u dcb (Z.to_N beacon) uuid ch in
          let e := dar_export u dcb (Z.to_N beacon) uuid sig in
          VList [match t, e with
                 | Ok tb, Ok eb => if eqb_list tb (firstn (length eb - length sig) eb ++ ch) then VInt 1 else VBytes tb
                 | _, _ => vbr t
                 end; vbr e]
      end
  (* 4: DebugAuthenticationChallenge.parse -> fields + export of the parsed object *)
  | 4%Z, [VBytes b] =>
      match dac_parse b with
      | Err k => VErr k
      | Ok a => VList [vN (a_major a); vN (a_minor a); vN (a_socc a); VBytes (a_uuid a); vN (a_revocation a); VBytes (a_rkth a);
                       vN (a_pinned a); vN (a_default a); vN (a_vu a); VBytes (a_challenge a); vbr (dac_export a)]
      end
  (* 5: validate_against_dc: family facts (ele, rot_not_part_of_dac, rot_could_be_invalid), challenge bytes, credential bytes *)
  | 5%Z, [VInt ele; VInt np; VInt cbi; VBytes ab; VBytes db] =>
      match dac_parse ab, dc_parse db with
      | Ok a, Ok (c, d) => match dac_validate (zb ele) (zb np) (zb cbi) a c d with Ok _ => VInt 0 | Err k => VErr k end
      | _, _ => VErr E_BADCASE
      end
  | _, _ => VErr E_BADCASE
  end.

(* sanity: the model computes *)
Example pack_runs : pack [FU16; FU32; FS 3] [XI 258; XI 1; XB [7]] = Ok [2; 1; 1; 0; 0; 0; 7; 0; 0].
Proof. vm_compute. reflexivity. Qed.
