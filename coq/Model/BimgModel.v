(* Model/BimgModel.v -- executable model of spsdk/image/bootable_image/bimg.py (BootableImage) over raw-binary segments
   (C14).  Definitions only.  The segment tables come from Gen/GenBimg.v (regenerated from the device database and
   segments.py on every run).  Faithful to the code, defects included:
     - init_offset setter: the closest segment start at or above the request (floating segments ignored; repaired C14-F1);
     - export() never validates: an oversized segment is silently overwritten by its successor, or makes the
       memoryview assignment fail (non-SPSDK exception);
     - _parse_all tries init offsets of INIT_SEGMENT segments only (C14-F3);
     - FCB segment of a family without FCB description is taken by the generic parser (repaired C14-F4);
     - a fixed-size class refuses a binary longer than its SIZE on load (repaired C14-F2).
   Not modelled: segments built from YAML configurations (MBI/HAB/AHAB/FCB/XMCD objects; their own export/parse round
   trip is C01/C06/C07/C12) -- a segment is its raw bytes and len(segment) = number of bytes; per-class recognisers of
   structured segments are parameters (rec/find) of the parse model. *)
From Coq Require Import ZArith NArith List Bool.
Require Import Value Bytes GenBimg.
Import ListNotations.
Local Open Scope Z_scope.

(* ---------- tables ---------- *)
Record seg : Type := mkSeg { tag : Z; doff : Z; algn : Z; fsize : Z; is_init : bool; is_hdr : bool }.
Record table : Type := mkTable { fillb : N; segs : list seg }.

Definition seg_of_row (r : gen_row) : seg := let '(a, b, c, d, e, f) := r in mkSeg a b c d e f.
Definition table_of_gen (g : gen_table) : table := mkTable (fst g) (map seg_of_row (snd g)).
Definition tables : list table := map table_of_gen all_tables.
Definition empty_table : table := mkTable 0%N [].
Definition get_table (i : Z) : table := nth (Z.to_nat i) tables empty_table.

(* ---------- arithmetic ---------- *)
(* spsdk.utils.misc.align for alignment > 0 and number >= 0 (the extractor refuses alignments < 1) *)
Definition align_up (n a : Z) : Z := ((n + (a - 1)) / a) * a.
Definition zlen {A} (l : list A) : Z := Z.of_nat (length l).
Definition is_nil {A} (l : list A) : bool := match l with [] => true | _ => false end.

(* Segment.full_image_offset *)
Definition fo (s : seg) : Z := if doff s <? 0 then doff s else align_up (doff s) (algn s).
Definition is_dyn (s : seg) : bool := fo s <? 0.

(* ---------- init offset (BootableImage.init_offset setter + _update_segments) ---------- *)
Definition set_init (t : table) (r : Z) : res Z :=
  if r <? 0 then Err 1%N
  else if r =? 0 then Ok 0
  else match filter (fun o => r <=? o) (map fo (segs t)) with
       | [] => Err 1%N
       | o :: rest => Ok (fold_left Z.min rest o)
       end.

Definition excluded (io : Z) (s : seg) : bool := (fo s - io <? 0) && (0 <=? fo s).

(* ---------- offsets (get_segment_offset) ---------- *)
(* offsets in full-image coordinates: static, or the aligned end of the table predecessor (present or not) *)
Fixpoint raw_offsets (prev : option (res Z * Z)) (l : list (seg * list N)) : list (res Z) :=
  match l with
  | [] => []
  | (s, p) :: tl =>
      let o := if 0 <=? fo s then Ok (fo s)
               else match prev with
                    | None => Err 1%N
                    | Some (Ok po, pl) => Ok (align_up (po + pl) (algn s))
                    | Some (Err k, _) => Err k
                    end in
      o :: raw_offsets (Some (o, zlen p)) tl
  end.

Record placed : Type := mkPlaced { p_seg : seg; p_data : list N; p_off : res Z }.   (* p_off: get_segment_offset *)

Definition seg_offset (io : Z) (s : seg) (raw : res Z) : res Z :=
  if excluded io s then Err 1%N else res_map (fun o => o - io) raw.

Definition place (t : table) (io : Z) (ps : list (list N)) : list placed :=
  let items := combine (segs t) ps in
  map (fun x => mkPlaced (fst (fst x)) (snd (fst x)) (seg_offset io (fst (fst x)) (snd x)))
      (combine items (raw_offsets None items)).

Definition present (io : Z) (x : placed) : bool := negb (excluded io (p_seg x)) && negb (is_nil (p_data x)).

(* BootableImage.__len__ : end of the last present segment *)
Definition total_len (io : Z) (pl : list placed) : res Z :=
  match rev (filter (present io) pl) with
  | [] => Err 2%N                                        (* self.segments[-1] -> IndexError *)
  | x :: _ => res_map (fun o => o + zlen (p_data x)) (p_off x)
  end.

(* ---------- export through BinaryImage ---------- *)
(* BinaryImage.add_image: insert before the first child with a larger offset *)
Fixpoint insert_img (x : Z * list N) (l : list (Z * list N)) : list (Z * list N) :=
  match l with
  | [] => [x]
  | y :: tl => if fst x <? fst y then x :: y :: tl else y :: insert_img x tl
  end.

Fixpoint sub_images (io : Z) (pl : list placed) (acc : list (Z * list N)) : res (list (Z * list N)) :=
  match pl with
  | [] => Ok acc
  | x :: tl => if present io x then
                 match p_off x with
                 | Ok o => sub_images io tl (insert_img (o, p_data x) acc)
                 | Err k => Err k
                 end
               else sub_images io tl acc
  end.

(* memoryview(ret)[o : o+len(d)][:] = d  -- fails (ValueError) when the slice is shorter than the data *)
Definition write_at (buf : list N) (o : Z) (d : list N) : res (list N) :=
  if (o <? 0) || (zlen buf <? o + zlen d) then Err 2%N
  else Ok (splice buf (Z.to_nat o) d).

Fixpoint write_all (buf : list N) (l : list (Z * list N)) : res (list N) :=
  match l with
  | [] => Ok buf
  | (o, d) :: tl => match write_at buf o d with Ok b => write_all b tl | Err k => Err k end
  end.

Definition merge (t : table) (io : Z) (ps : list (list N)) : res (list N) :=
  let pl := place t io ps in
  match total_len io pl with
  | Err k => Err k
  | Ok tot =>
      match sub_images io pl [] with
      | Err k => Err k
      | Ok subs => write_all (repeat (fillb t) (Z.to_nat tot)) subs
      end
  end.

(* ---------- parse ---------- *)
Inductive rec_result : Type :=
| RFound (raw : list N) (ln : Z)      (* parse_binary succeeded: raw_block, len(segment) *)
| RAbsent                             (* SPSDKSegmentNotPresent *)
| RFail (k : N).                      (* any other exception *)

Definition zskip {A} (n : Z) (l : list A) : list A := skipn (Z.to_nat n) l.

Section ParseModel.
  (* per-class recognisers: parse_binary and find_segment_offset of the segment class *)
  Variable rec : seg -> list N -> rec_result.
  Variable find : seg -> list N -> res Z.

  (* BootableImage._parse: [first] = the segment is the first one of the table *)
  Fixpoint parse_loop (io : Z) (bin : list N) (first : bool) (prev_off prev_size : Z) (todo : list seg)
    : res (list (list N)) :=
    match todo with
    | [] => Ok []
    | s :: tl =>
        let skip (_ : unit) := res_map (fun r => [] :: r) (parse_loop io bin false prev_off prev_size tl) in   (* thunk: vm_compute is call-by-value *)
        let step (offset : Z) :=
          if (zlen bin <=? offset) && is_hdr s then Err 1%N
          else match rec s (zskip offset bin) with
               | RAbsent => skip tt
               | RFail k => Err k
               | RFound raw ln => res_map (fun r => raw :: r) (parse_loop io bin false offset ln tl)
               end in
        if excluded io s then skip tt
        else if is_dyn s then
          if first then Err 1%N                           (* get_segment_offset: no previous segment *)
          else let start := align_up (prev_off + prev_size) (algn s) in
               if zlen bin <=? start then skip tt
               else match find s (zskip start bin) with
                    | Ok d => step (start + d)
                    | Err k => Err k
                    end
        else step (fo s - io)
    end.

  Definition parse_at (t : table) (io : Z) (bin : list N) : res (list (list N)) :=
    parse_loop io bin true 0 0 (segs t).

  (* the part of BootableImage.verify() that depends on the layout: header_len needs a present application segment,
     image_info().validate() needs every segment inside the image and no overlap *)
  Fixpoint no_overlap_b (l : list (Z * list N)) : bool :=
    match l with
    | [] => true
    | (o, d) :: tl => forallb (fun y => (o + zlen d <=? fst y) || (fst y + zlen (snd y) <=? o)) tl && no_overlap_b tl
    end.

  Definition verify_layout (t : table) (io : Z) (ps : list (list N)) : bool :=
    let pl := place t io ps in
    existsb (fun x => present io x && negb (is_hdr (p_seg x))) pl &&
    match total_len io pl, sub_images io pl [] with
    | Ok tot, Ok subs => forallb (fun y => (0 <=? fst y) && (fst y + zlen (snd y) <=? tot)) subs && no_overlap_b subs
    | _, _ => false
    end.

  (* SegmentImageVersionAntiPole.verify *)
  Definition antipole_ok (raw : list N) : bool :=
    match raw with
    | [a; b; c; d] => let v := le_dec [a; b] in let w := le_dec [c; d] in
                      (N.eqb v (N.lxor w 65535)) || (N.eqb v 65535 && N.eqb w 65535)
    | [] => true
    | _ => false
    end.
  Definition verify_segments (t : table) (ps : list (list N)) : bool :=
    forallb (fun x => if tag (fst x) =? 5 then antipole_ok (snd x) else true) (combine (segs t) ps).

  Definition try_parse (t : table) (r : Z) (bin : list N) : option (Z * list (list N)) :=
    match set_init t r with
    | Err _ => None
    | Ok io => match parse_at t io bin with
               | Ok ps => if verify_layout t io ps && verify_segments t ps then Some (io, ps) else None
               | Err _ => None
               end
    end.

  (* BootableImage.parse with the memory type given: the full image first, then the offsets of the INIT_SEGMENT
     segments in table order; first success wins *)
  Fixpoint first_some {A B} (f : A -> option B) (l : list A) : option B :=
    match l with [] => None | x :: tl => match f x with Some y => Some y | None => first_some f tl end end.

  Definition parse_typed (t : table) (bin : list N) : res (Z * list (list N)) :=
    match try_parse t 0 bin with
    | Some x => Ok x
    | None => match first_some (fun r => try_parse t r bin) (map fo (filter is_init (segs t))) with
              | Some x => Ok x
              | None => Err 1%N
              end
    end.
End ParseModel.

(* ---------- concrete recognisers (Segment.parse_binary of each class) ---------- *)
Definition all_eq (b : N) (l : list N) : bool := forallb (N.eqb b) l.
Definition zfirst {A} (n : Z) (l : list A) : list A := firstn (Z.to_nat n) l.

(* Segment._is_padding *)
Definition is_padding (s : seg) (bin : list N) : bool :=
  (0 <? fsize s) && (fsize s <=? zlen bin) && existsb (fun b => all_eq b (zfirst (fsize s) bin)) padding_bytes.
(* note: binary[:SIZE] of a shorter binary never equals a SIZE-long block *)

(* Segment.parse_binary (key blob, key store, BEE headers; tail of SB2.1/SB3.1) *)
Definition rec_raw (s : seg) (bin : list N) : rec_result :=
  if (0 <? fsize s) && (zlen bin <? fsize s) then RFail 1%N
  else if is_padding s bin then RAbsent
  else let raw := if 0 <? fsize s then zfirst (fsize s) bin else bin in RFound raw (zlen raw).

(* stand-in for a structured class: the harness names the valid payload of that class used in the case *)
Record descr : Type := mkDescr { d_tag : Z; d_prefix : list N; d_len : Z; d_whole : bool }.
Record rec_ctx : Type := mkCtx { fcb_supported : bool; descrs : list descr }.

Fixpoint starts_with (p l : list N) : bool :=
  match p, l with
  | [], _ => true
  | a :: p', b :: l' => if N.eqb a b then starts_with p' l' else false   (* no && : vm_compute is call-by-value *)
  | _ :: _, [] => false
  end.

Definition rec_descr (c : rec_ctx) (s : seg) (bin : list N) : rec_result :=
  match find (fun d => (d_tag d =? tag s) && starts_with (d_prefix d) bin && (d_len d <=? zlen bin)) (descrs c) with
  | Some d => if d_whole d then RFound bin (d_len d) else RFound (zfirst (d_len d) bin) (d_len d)
  | None => RFail 1%N
  end.

Definition fcb_tag (bin : list N) : bool :=
  starts_with [70; 67; 70; 66]%N bin || starts_with [67; 70; 66; 70]%N bin.

Definition rec_std (c : rec_ctx) (s : seg) (bin : list N) : rec_result :=
  let t := tag s in
  if (t =? 1) || (t =? 6) || (t =? 7) || (t =? 8) then rec_raw s bin
  else if t =? 4 then let raw := zfirst (fsize s) bin in RFound raw (zlen raw)          (* SegmentImageVersion *)
  else if t =? 5 then if zlen bin <? fsize s then RFail 1%N
                      else let raw := zfirst 4 bin in RFound raw (zlen raw)             (* ...AntiPole *)
  else if (t =? 2) || (t =? 3) then                                                     (* SegmentFcb(Xspi) *)
    if zlen bin <? fsize s then RFail 1%N
    else if fcb_tag bin then
           (if fcb_supported c then let raw := zfirst (fsize s) bin in RFound raw (zlen raw)     (* FCB.parse *)
            else rec_raw s bin)                                            (* no FCB description: generic parse *)
         else if is_padding s bin then RAbsent else RFail 1%N
  else if t =? 9 then                                                                   (* SegmentXmcd *)
    if zlen bin <? fsize s then RFail 1%N
    else if is_padding s bin then RAbsent else rec_descr c s bin
  else if is_nil bin then RFail 1%N
  else rec_descr c s bin.                                                               (* containers *)

(* AHABImage.find_offset_of_ahab: first multiple of 0x400 where a container head is recognised *)
Fixpoint find_ahab_fuel (fuel : nat) (c : rec_ctx) (s : seg) (bin : list N) (off : Z) : res Z :=
  match fuel with
  | O => Err 1%N
  | S f => match bin with
           | [] => Err 1%N
           | _ => match rec_descr c s bin with
                  | RFound _ _ => Ok off
                  | _ => find_ahab_fuel f c s (zskip 1024 bin) (off + 1024)
                  end
           end
  end.

Definition find_std (c : rec_ctx) (s : seg) (bin : list N) : res Z :=
  if (tag s =? 12) || (tag s =? 13) || (tag s =? 14)
  then find_ahab_fuel (S (Nat.div (length bin) 1024)) c s bin 0
  else Ok 0.

(* ---------- harness interface ---------- *)
(* deterministic synthetic payload: first byte a, last byte a+64, body a+32 (all >= 0x80, never a fill byte) *)
Definition syn (a : N) (n : Z) : list N :=
  match Z.to_nat n with
  | O => []
  | S O => [a]
  | S (S k) => a :: repeat (a + 32)%N k ++ [(a + 64)%N]
  end.

(* output encoding: VInt k = "payload k of the case verbatim", VList [VInt b; VInt n] = n times byte b *)
Fixpoint find_ref (ps : list (list N)) (l : list N) (k : Z) : option (Z * nat) :=
  match ps with
  | [] => None
  | p :: tl => if (if is_nil p then false else starts_with p l) then Some (k, length p) else find_ref tl l (k + 1)
  end.

Definition flush (cur : option (N * Z)) : list value :=
  match cur with Some (c, n) => [VList [VInt (Z.of_N c); VInt n]] | None => [] end.

Fixpoint encode (fuel : nat) (ps : list (list N)) (l : list N) (cur : option (N * Z)) : list value :=
  match fuel with
  | O => flush cur
  | S f =>
      match l with
      | [] => flush cur
      | b :: t =>
          match find_ref ps l 0 with
          | Some (k, ln) => flush cur ++ VInt k :: encode f ps (skipn ln l) None
          | None => match cur with
                    | Some (c, n) => if N.eqb b c then encode f ps t (Some (c, n + 1))
                                     else VList [VInt (Z.of_N c); VInt n] :: encode f ps t (Some (b, 1))
                    | None => encode f ps t (Some (b, 1))
                    end
          end
      end
  end.
Definition venc (ps : list (list N)) (l : list N) : value := VList (encode (S (length l)) ps l None).

Definition vresz (r : res Z) : value := vres VInt r.

Fixpoint bytes_of_values (l : list value) : list (list N) :=
  match l with
  | VBytes b :: tl => b :: bytes_of_values tl
  | VList [VInt a; VInt n] :: tl => syn (Z.to_N a) n :: bytes_of_values tl
  | _ :: tl => [] :: bytes_of_values tl
  | [] => []
  end.

(* load_from_config, segment by segment in table order:
   - Segment.load_config (key blob, key store, BEE headers, and the binary fall-back of FCB and XMCD) refuses a binary
     longer than the class SIZE (SPSDKValueError);
   - SegmentHab.load_config reads config["hab_container"] unconditionally: a configuration without it dies with KeyError *)
Definition sized_tag (s : seg) : bool :=
  (tag s =? 1) || (tag s =? 2) || (tag s =? 3) || (tag s =? 6) || (tag s =? 7) || (tag s =? 8) || (tag s =? 9).
Fixpoint load_check_l (l : list (seg * list N)) : res unit :=
  match l with
  | [] => Ok tt
  | (s, p) :: tl =>
      if sized_tag s && (0 <? fsize s) && (fsize s <? zlen p) then Err 1%N
      else if (tag s =? 11) && is_nil p then Err 2%N
      else load_check_l tl
  end.
Definition load_check (t : table) (ps : list (list N)) : res unit := load_check_l (combine (segs t) ps).

Definition describe (t : table) (io : Z) (ps : list (list N)) : value :=
  let pl := place t io ps in
  VList [VInt io;
         VList (map (fun x => VList [vbool (excluded io (p_seg x)); vbool (present io x); VInt (zlen (p_data x));
                                     vresz (p_off x)]) pl);
         vresz (total_len io pl);
         vres (venc ps) (merge t io ps)].

Definition run_merge (ti r : Z) (ps : list (list N)) : value :=
  let t := get_table ti in
  match set_init t r, load_check t ps with
  | Err k, _ => VErr k
  | _, Err k => VErr k
  | Ok io, Ok _ => describe t io ps
  end.

Fixpoint descrs_of_values (l : list value) : list descr :=
  match l with
  | VList [VInt tg; VBytes pre; VInt ln; VInt whole] :: tl => mkDescr tg pre ln (negb (whole =? 0)) :: descrs_of_values tl
  | _ :: tl => descrs_of_values tl
  | [] => []
  end.

(* merge with init request r, cut the first [cut] bytes, parse with the memory type given *)
Definition run_roundtrip (ti r : Z) (ps : list (list N)) (c : rec_ctx) (cut : Z) : value :=
  let t := get_table ti in
  match set_init t r, load_check t ps with
  | Err k, _ => VErr k
  | _, Err k => VErr k
  | Ok io, Ok _ =>
      match merge t io ps with
      | Err k => VErr k
      | Ok img =>
          match parse_typed (rec_std c) (find_std c) t (zskip cut img) with
          | Err k => VList [VErr k]
          | Ok (io', ps') => VList [VInt io'; VList (map (venc ps) ps')]
          end
      end
  end.

Fixpoint cuts_of_values (l : list value) : list Z :=
  match l with VInt c :: tl => c :: cuts_of_values tl | _ :: tl => cuts_of_values tl | [] => [] end.

Definition run_case (fn : Z) (args : list value) : value :=
  match fn, args with
  | 1, [VInt ti; VInt r; VList ps] => run_merge ti r (bytes_of_values ps)
  | 2, [VInt ti; VInt r; VList ps; VList cuts; VInt fcbs; VList ds] =>
      let ps' := bytes_of_values ps in
      let c := mkCtx (negb (fcbs =? 0)) (descrs_of_values ds) in
      VList (run_merge ti r ps' :: map (run_roundtrip ti r ps' c) (cuts_of_values cuts))
  | 3, [VInt a; VInt n] => VBytes (syn (Z.to_N a) n)
  | _, _ => VErr E_BADCASE
  end.

(* literal layouts for examples (independent of the order of the regenerated tables) *)
Definition ex_table_rt1170_nor : table :=
  mkTable 0%N [mkSeg 1 0 1 256 false true; mkSeg 2 1024 1 512 true true; mkSeg 6 2048 1 2048 false true;
               mkSeg 11 4096 1 (-1) true false].

Example ex_merge_rt1170 :
  (match set_init ex_table_rt1170_nor 1024 with
   | Ok io => describe ex_table_rt1170_nor io [syn 129 256; syn 130 512; []; syn 132 3]
   | Err k => VErr k
   end)
  = VList [VInt 1024;
           VList [VList [VInt 1; VInt 0; VInt 256; VErr 1]; VList [VInt 0; VInt 1; VInt 512; VInt 0];
                  VList [VInt 0; VInt 0; VInt 0; VInt 1024]; VList [VInt 0; VInt 1; VInt 3; VInt 3072]];
           VInt 3075;
           VList [VInt 1; VList [VInt 0; VInt 2560]; VInt 3]].
Proof. vm_compute. reflexivity. Qed.
