(* Model/MbiRomModel.v -- C02: an independent model of the boot ROM's acceptance checks for Master Boot Images,
   and the instantiation of the C01 export model (Model/MbiModel.v) with the real symmetric primitives.  Definitions only.

   rom_mbi : rom_cfg -> rom_keys -> bytes -> option rom_ok
   is written from the documented image formats (IVT words 0x20/0x24/0x28, certificate block v1 and v2.1 layouts, image
   manifest, header HMAC, AES-CTR image encryption with the relocated encrypted header copy + IV), NOT from SPSDK's
   parser: nothing of MbiModel.parse_mbi is used.  It shares only the byte accessors (rd32, slice) with the export model.
   * CRC images (types 2, 5): CRC-32/MPEG-2 (Crypto/Crc.v) over the image with the word at 0x28 excluded;
   * signed images (types 1, 3, 4, 8): optional header authentication (HMAC-SHA256 of the first 64 bytes under
     AES-ECB(user key, 0^16); HMAC and key store are not part of the signed image), then the certificate block found through
     word 0x28; v1: header, certificate table, root key hash table whose SHA-256 is RKTH, signed length = header.image_length,
     signature = everything after it; v2.1: root key record (hash of the root key = entry used_index of the table, hash of
     the table = RKTH), optional ISK certificate, manifest (+ CRC), signature over the bytes through the manifest, optional
     digest; encrypted (type 3): AES-CTR under AES-ECB(master key, 1|0^15 ; 2|0^15) or the user key when a key store is carried;
   * asymmetric verification and X.509 are NOT modelled: they are returned as obligations (discharged by the check with
     an independent implementation). *)
From Coq Require Import ZArith NArith List Bool.
Require Import Value Bytes Crc Sha2 Hmac Aes Modes SymWrapModel MbiMixinModel GenMbi MbiModel.
Import ListNotations.
Local Open Scope nat_scope.

(* ------------------------------------------------------------------ ROM side *)
Inductive cbgen : Type := CbNone | CbV1 | CbV21.
(* r_types: the image types the device boots (secure-boot policy: a signed-only device refuses plain / CRC images);
   r_ks: the device's key source for encrypted images as provisioned / configured: true = user key from the key store
   (KEYSTORE, with or without key-store data embedded in the image), false = key derived from the master key (no key store
   configured, OTP).  Which key real silicon selects for KEYSTORE without embedded data is not judged here: the convention
   is the one pinned by the repository's golden files. *)
Record rom_cfg : Type := { r_cb : cbgen; r_hmac : bool; r_tzsize : nat; r_mcrc : bool; r_types : list Z; r_ks : bool }.
Record rom_keys : Type := { rk_rkth : list N; rk_user : list N }.

Inductive obligation : Type :=
| RootKeyIn (cert : list N) (table : list (list N))     (* SHA-256(modulus || exponent) of the certificate's key is in the table *)
| CertChain (child parent : list N)                       (* the child's signature verifies under the parent's key *)
| ImageSig (alg : Z) (pub msg sig : list N)               (* 1 RSASSA-PKCS1-v1_5/SHA-256 (pub = certificate), 2 ECDSA P-256, 3 ECDSA P-384 *)
| IskSig (alg : Z) (pub msg sig : list N).

Record rom_ok : Type := { ro_plain : list N; ro_msg : list N; ro_obl : list obligation }.

Definition rom_word (d : list N) (off : nat) : Z := rd32 off d.
Definition zbit (v mask : Z) : bool := negb (Z.land v mask =? 0)%Z.
Definition ks_flag (d : list N) : bool := zbit (rom_word d 36) 32768.
Definition tz_custom (d : list N) : bool := (Z.land (Z.shiftr (rom_word d 36) 13) 3 =? 1)%Z.
Definition align4 (n : nat) : nat := (n + 3) / 4 * 4.
(* a length / offset field of the image as a natural number; a field beyond the data it refers to (lim) is cut to lim + 1,
   which every following bound check refuses (keeps the evaluation of corrupted images small) *)
Definition wnat (lim : nat) (z : Z) : nat := Z.to_nat (Z.min z (Z.of_nat lim + 1)).
Definition KS_SIZE : nat := 1424.

(* the CRC word matches the image with that word excluded *)
Definition crc_region (img : list N) : list N := firstn 40 img ++ skipn 44 img.
Definition rom_crc_ok (img : list N) : bool := eqb_list (le_enc 4 (crc CRC32_MPEG2 (crc_region img))) (slice img 40 44).

(* key derivations of the ROM: AES-256-ECB of fixed blocks under the master / user key *)
Definition aes_enc_block (key b : list N) : list N := cipher_rks (key_expansion key) b.
Definition rom_hmac_key (uk : list N) : list N := aes_enc_block uk (zeros 16).
Definition rom_enc_key (mk : list N) : list N := aes_enc_block mk (1%N :: zeros 15) ++ aes_enc_block mk (2%N :: zeros 15).
Definition rom_hmac_ok (uk img : list N) : bool := eqb_list (hmac_sha256 (rom_hmac_key uk) (firstn 64 img)) (slice img 64 96).

(* header | HMAC | [key store] | rest   ->   header | rest *)
Definition has_hmac (cfg : rom_cfg) (ty : Z) : bool := r_hmac cfg && ((ty =? 1) || (ty =? 3))%Z.
Definition strip_len (img : list N) : nat := if ks_flag img then 96 + KS_SIZE else 96.
Definition rom_strip (cfg : rom_cfg) (keys : rom_keys) (ty : Z) (img : list N) : option (list N) :=
  if has_hmac cfg ty then
    if Nat.ltb (length img) (strip_len img) then None
    else if negb (rom_hmac_ok (rk_user keys) img) then None
    else Some (firstn 64 img ++ skipn (strip_len img) img)
  else Some img.

(* ---- certificate block v1 *)
Fixpoint cb1_certs (n : nat) (d : list N) (off lim : nat) : option (list (list N) * nat) :=
  match n with
  | O => Some ([], off)
  | S n' =>
      if Nat.ltb lim (off + 4) then None
      else let ln := wnat (length d) (rd32 off d) in
           if negb (Nat.eqb (Nat.modulo ln 4) 0) || Nat.ltb lim (off + 4 + ln) then None
           else match cb1_certs n' d (off + 4 + ln) lim with
                | Some (cs, e) => Some (slice d (off + 4) (off + 4 + ln) :: cs, e)
                | None => None
                end
  end.
Record cb1_info : Type := { c1_il : Z; c1_certs : list (list N); c1_table : list (list N) }.
Definition CERT_MAGIC_B : list N := [99; 101; 114; 116]%N.
Definition rom_cb_v1 (cb : list N) : option cb1_info :=
  if Nat.ltb (length cb) 32 then None
  else if negb (eqb_list (firstn 4 cb) CERT_MAGIC_B) then None
  else if negb (rd32 8 cb =? 32)%Z then None
  else let count := wnat (length cb) (rd32 24 cb) in let ctl := wnat (length cb) (rd32 28 cb) in
       if Nat.eqb count 0 || Nat.ltb 4 count then None
       else if negb (Nat.eqb (length cb) (align4 (32 + ctl + 128))) then None
       else match cb1_certs count cb 32 (32 + ctl) with
            | Some (cs, e) =>
                if negb (Nat.eqb e (32 + ctl)) then None
                else Some {| c1_il := rd32 20 cb; c1_certs := cs;
                             c1_table := map (fun i => slice cb (e + 32 * i) (e + 32 * (i + 1))) [0; 1; 2; 3] |}
            | None => None
            end.
Fixpoint chain_pairs (prev : list N) (cs : list (list N)) : list obligation :=
  match cs with [] => [] | c :: t => CertChain c prev :: chain_pairs c t end.
Definition chain_obl (i : cb1_info) : list obligation :=
  match c1_certs i with
  | [] => []
  | c0 :: t => RootKeyIn c0 (c1_table i) :: CertChain c0 c0 :: chain_pairs c0 t
  end.

(* the decrypted image carries the same IVT words as the plain header *)
Definition ivt_agree (p s : list N) : bool := eqb_list (slice p 32 44) (slice s 32 44) && eqb_list (slice p 52 56) (slice s 52 56).

Definition rom_cipher (s : list N) (off cbsize il : nat) : list N :=
  let p := off + cbsize in slice s p (p + 56) ++ slice s 56 off ++ slice s (p + 72) il.
Definition rom_iv (s : list N) (off cbsize : nat) : list N := slice s (off + cbsize + 56) (off + cbsize + 72).
Definition rom_image_key (cfg : rom_cfg) (keys : rom_keys) : list N :=
  if r_ks cfg then rk_user keys else rom_enc_key (rk_user keys).

Definition min_off (cfg : rom_cfg) (ty : Z) : nat := if has_hmac cfg ty then 64 else 56.
Definition rom_signed_v1 (cfg : rom_cfg) (keys : rom_keys) (ty : Z) (s : list N) : option rom_ok :=
  let off := wnat (length s) (rd32 40 s) in
  if Nat.ltb off (min_off cfg ty) || Nat.ltb (length s) (off + 32) then None
  else let cbsize := align4 (32 + wnat (length s) (rd32 (off + 28) s) + 128) in
       if Nat.ltb (length s) (off + cbsize) then None
       else match rom_cb_v1 (slice s off (off + cbsize)) with
            | None => None
            | Some info =>
                if negb (eqb_list (sha256 (concat (c1_table info))) (rk_rkth keys)) then None
                else let il := wnat (length s) (c1_il info) in
                     let tzs := if tz_custom s then r_tzsize cfg else 0 in
                     let extra := if (ty =? 3)%Z then 72 else 0 in
                     if negb (Nat.eqb il (off + cbsize + extra + tzs)) || negb (Nat.ltb il (length s)) then None
                     else let msg := firstn il s in
                          let obl := chain_obl info ++ [ImageSig 1 (last (c1_certs info) []) msg (skipn il s)] in
                          if (ty =? 3)%Z
                          then let plain := ctr_xcrypt (aes_enc_block (rom_image_key cfg keys)) (rom_iv s off cbsize)
                                                       (rom_cipher s off cbsize il) in
                               if ivt_agree plain s then Some {| ro_plain := plain; ro_msg := msg; ro_obl := obl |} else None
                          else Some {| ro_plain := msg; ro_msg := msg; ro_obl := obl |}
            end.

(* ---- certificate block v2.1 *)
Record cb21_info : Type := { c2_size : nat; c2_obl : list obligation; c2_alg : Z; c2_pub : list N }.
Definition hash_by (typ : Z) (d : list N) : list N :=
  if (typ =? 1)%Z then sha256 d else if (typ =? 2)%Z then sha384 d else sha512 d.
Definition CHDR_B : list N := [99; 104; 100; 114; 1; 0; 2; 0]%N.          (* "chdr", minor 1, major 2 *)
Definition IMGM_B : list N := [105; 109; 103; 109]%N.                      (* "imgm" *)
(* everything behind the 12-byte header: root key record and optional ISK certificate; cb = the whole block, size = its length *)
Definition rom_cb_v21_body (rkth cb : list N) (size : nat) : option cb21_info :=
  let flags := rd32 12 cb in
  let ca := zbit flags 2147483648 in
  let used := natz (Z.land (Z.shiftr flags 8) 15) in
  let num := natz (Z.land (Z.shiftr flags 4) 15) in
  let typ := Z.land flags 15 in
  if negb ((typ =? 1) || (typ =? 2))%Z then None
  else if Nat.eqb num 0 || Nat.ltb 4 num || negb (Nat.ltb used num) then None
  else let hl := if (typ =? 1)%Z then 32 else 48 in
  let tl := if Nat.ltb 1 num then num * hl else 0 in
  let p := 16 + tl in
  if Nat.ltb size (p + 2 * hl) then None
  else let table := slice cb 16 p in
  let root_pub := slice cb p (p + 2 * hl) in
  let rkh := hash_by typ root_pub in
  let root_ok := if Nat.ltb 1 num
                 then eqb_list (slice table (used * hl) (used * hl + hl)) rkh && eqb_list (hash_by typ table) rkth
                 else eqb_list rkh rkth in
  if negb root_ok then None
  else let q := p + 2 * hl in
  if ca then (if Nat.eqb q size then Some {| c2_size := size; c2_obl := []; c2_alg := typ + 1; c2_pub := root_pub |} else None)
  else if Nat.ltb size (q + 12) then None
  else let sig_off := wnat size (rd32 q cb) in
  let iflags := rd32 (q + 8) cb in
  let ityp := Z.land iflags 15 in
  if negb ((ityp =? 1) || (ityp =? 2))%Z then None
  else let il := if (ityp =? 1)%Z then 32 else 48 in
  if Nat.ltb sig_off (12 + 2 * il) then None
  else if negb (Bool.eqb (zbit iflags 2147483648) (Nat.ltb (12 + 2 * il) sig_off)) then None
  else if negb (Nat.eqb (q + sig_off + 2 * hl) size) then None
  else Some {| c2_size := size;
               c2_obl := [IskSig (typ + 1) root_pub (slice cb 12 (q + sig_off)) (slice cb (q + sig_off) size)];
               c2_alg := ityp + 1; c2_pub := slice cb (q + 12) (q + 12 + 2 * il) |}.
Definition rom_cb_v21 (rkth : list N) (s : list N) (off : nat) : option cb21_info :=
  if Nat.ltb (length s) (off + 16) then None
  else if negb (eqb_list (slice s off (off + 8)) CHDR_B) then None
  else let size := wnat (length s) (rd32 (off + 8) s) in
  if Nat.ltb (length s) (off + size) then None
  else rom_cb_v21_body rkth (slice s off (off + size)) size.

Definition rom_signed_v21 (cfg : rom_cfg) (keys : rom_keys) (ty : Z) (s : list N) : option rom_ok :=
  let off := wnat (length s) (rd32 40 s) in
  if Nat.ltb off (min_off cfg ty) then None
  else match rom_cb_v21 (rk_rkth keys) s off with
       | None => None
       | Some cb =>
  let m0 := off + c2_size cb in
  if Nat.ltb (length s) (m0 + 20) then None
  else if negb (eqb_list (slice s m0 (m0 + 4)) IMGM_B) then None
  else if negb (rd32 (m0 + 4) s =? 65536)%Z then None
  else let mlen := wnat (length s) (rd32 (m0 + 12) s) in
  let mflags := rd32 (m0 + 16) s in
  let tzs := if tz_custom s then r_tzsize cfg else 0 in
  if negb (Nat.eqb mlen (20 + tzs + (if r_mcrc cfg then 4 else 0))) then None
  else let mend := m0 + mlen in
  if Nat.ltb (length s) mend then None
  else if r_mcrc cfg && negb (eqb_list (le_enc 4 (crc CRC32_MPEG2 (firstn (mend - 4) s))) (slice s (mend - 4) mend) && (mflags =? 0)%Z)
       then None
  else let klen := if (c2_alg cb =? 2)%Z then 32 else 48 in
  let send := mend + 2 * klen in
  if Nat.ltb (length s) send then None
  else let msg := firstn mend s in
  let digest_present := negb (r_mcrc cfg) && zbit mflags 2147483648 in
  let tail_ok :=
    if digest_present
    then let alg := Z.land mflags 15 in
         ((alg =? 1) || (alg =? 2) || (alg =? 3))%Z && (mflags =? 2147483648 + alg)%Z && (alg =? c2_alg cb - 1)%Z &&
         eqb_list (skipn send s) (hash_by alg msg)
    else (r_mcrc cfg || (mflags =? 0)%Z) && Nat.eqb (length s) send in
  if tail_ok
  then Some {| ro_plain := msg; ro_msg := msg; ro_obl := c2_obl cb ++ [ImageSig (c2_alg cb) (c2_pub cb) msg (slice s mend send)] |}
  else None
       end.

Definition rom_mbi (cfg : rom_cfg) (keys : rom_keys) (img : list N) : option rom_ok :=
  if Nat.ltb (length img) 56 then None
  else let ty := Z.land (rd32 36 img) 63 in
  if negb (existsb (Z.eqb ty) (r_types cfg)) then None
  else if (ty =? 0)%Z then Some {| ro_plain := img; ro_msg := []; ro_obl := [] |}
  else if negb (rd32 32 img =? zlen img)%Z then None
  else if ((ty =? 2) || (ty =? 5))%Z
       then (if rom_crc_ok img then Some {| ro_plain := img; ro_msg := crc_region img; ro_obl := [] |} else None)
  else if negb ((ty =? 1) || (ty =? 3) || (ty =? 4) || (ty =? 8))%Z then None
  else match rom_strip cfg keys ty img with
       | None => None
       | Some s =>
           match r_cb cfg with
           | CbV1 => rom_signed_v1 cfg keys ty s
           | CbV21 => if (ty =? 3)%Z then None else rom_signed_v21 cfg keys ty s
           | CbNone => None
           end
       end.

(* ------------------------------------------------------------------ export side: the C01 builder with the real primitives *)
(* Mbi_MixinHmac.compute_hmac: hmac(KeyStore.derive_hmac_key(key), data)  (spsdk_hmac default SHA-256) *)
Definition real_hmac (key data : list N) : list N :=
  match SymWrapModel.derive_hmac_key key with
  | Ok k => match spsdk_hmac k data 1 with Ok m => m | Err _ => [] end
  | Err _ => []
  end.
(* aes_ctr_encrypt(key or KeyStore.derive_enc_image_key(key), data, nonce) *)
Definition real_ctr (key : list N) (derive : bool) (iv data : list N) : list N :=
  let k := if derive then match SymWrapModel.derive_enc_image_key key with Ok k => k | Err _ => [] end else key in
  match aes_ctr_crypt k data iv with Ok c => c | Err _ => [] end.
Definition real_hash (alg : Z) (data : list N) : list N :=
  match get_hash data alg with Ok h => h | Err _ => [] end.
Definition real_crypto (sign : list N -> list N) : crypto :=
  {| k_sign := sign; k_hmac := real_hmac; k_ctr := real_ctr; k_hash := real_hash |}.

(* get_hash_type_from_signature_size (spsdk/crypto/utils.py): the digest algorithm that belongs to a signature size; the
   refusal of any other manifest digest algorithm is part of MbiModel.collect (digest_guard there) *)
Definition hash_type_of_sig (sg : nat) : option Z :=
  if Nat.eqb sg 64 then Some 1%Z else if Nat.eqb sg 96 then Some 2%Z else if Nat.eqb sg 132 then Some 3%Z else None.
(* the exporter this property is about *)
Definition export_c02 (k : crypto) (c : mbi_class) (x : mbi) : res (list N) := export_mbi k c x.

(* export with the bytes handed to the signature provider *)
Definition export_with_dts (k : crypto) (c : mbi_class) (x : mbi) : res (list N * list N) :=
  if negb (supported c) then Err E_UNSUPPORTED else
  bind (validate c x) (fun _ =>
  bind (collect c x) (fun raw =>
  bind (encrypt k c x raw) (fun enc =>
  bind (post_encrypt c x enc) (fun enc2 =>
  bind (MbiModel.sign k c x enc2) (fun sg =>
  bind (finalize k c x (fst sg) (snd sg)) (fun fin => Ok (flat fin, snd sg))))))).

(* ------------------------------------------------------------------ run_case *)
Definition enc_obl (o : obligation) : value :=
  match o with
  | RootKeyIn c t => VList [VInt 1; VBytes c; VList (map VBytes t)]
  | CertChain c p => VList [VInt 2; VBytes c; VBytes p]
  | ImageSig a p m s => VList [VInt 3; VInt a; VBytes p; VInt (zlen m); VBytes s]
  | IskSig a p m s => VList [VInt 4; VInt a; VBytes p; VBytes m; VBytes s]
  end.
Definition enc_rom (r : option rom_ok) : value :=
  match r with
  | None => VList [VInt 0]
  | Some o => VList [VInt 1; VBytes (ro_plain o); VBytes (ro_msg o); VList (map enc_obl (ro_obl o))]
  end.
Definition dec_cfg (v : value) : option rom_cfg :=
  match v with
  | VList [VInt cb; VInt hm; VInt tzs; VInt mcrc; VInt ty; VInt ks] =>
      Some {| r_cb := if (cb =? 1)%Z then CbV1 else if (cb =? 2)%Z then CbV21 else CbNone; r_hmac := dec_bool hm;
              r_tzsize := natz tzs; r_mcrc := dec_bool mcrc; r_types := [ty]; r_ks := dec_bool ks |}
  | _ => None
  end.

Definition run_case (fn : Z) (args : list value) : value :=
  match fn, args with
  | 1%Z, [cfgv; VBytes rkth; VBytes uk; VBytes img] =>          (* the ROM on given bytes *)
      match dec_cfg cfgv with
      | Some cfg => enc_rom (rom_mbi cfg {| rk_rkth := rkth; rk_user := uk |} img)
      | None => VErr E_BADCASE
      end
  | 2%Z, [cv; xv; VBytes sig] =>                                 (* export with the real primitives, observed signature *)
      match dec_class cv, dec_mbi xv with
      | Some c, Some x => vres (fun p => VList [VBytes (fst p); VBytes (snd p)]) (export_with_dts (real_crypto (fun _ => sig)) c x)
      | _, _ => VErr E_BADCASE
      end
  | 3%Z, [cfgv; VBytes rkth; VBytes uk; VBytes img] =>          (* accept / reject only (tamper stream) *)
      match dec_cfg cfgv with
      | Some cfg => match rom_mbi cfg {| rk_rkth := rkth; rk_user := uk |} img with Some _ => VInt 1 | None => VInt 0 end
      | None => VErr E_BADCASE
      end
  | _, _ => VErr E_BADCASE
  end.

(* sanity: the documented key derivation constants, on the all-zero key (FIPS-197 AES-256 of the zero block) *)
Example rom_hmac_key_zero : rom_hmac_key (zeros 32) = [220; 149; 192; 120; 162; 64; 137; 137; 173; 72; 162; 20; 146; 132; 32; 135]%N.
Proof. vm_compute. reflexivity. Qed.
