(* Model/Sb20Model.v -- Secure Binary 2.0 (C04): faithful model of BootImageV20.export / .parse and CertSectionV2
   (spsdk/sbfile/sb2/images.py, sections.py) on top of the command / section / header / certificate-block codecs of
   Model/Sb2Model.v, and -- written separately from the container layout -- the boot ROM's SB 2.0 loader (rom20).
   Layout:  header 96 | HMAC(header) 32 | RFC 3394 key blob 72 + 8 padding | [certificate section: encrypted section
   header 16, HMAC(header) 32, HMAC(certificate block) 32, certificate block in clear] | boot sections | [signature].
   Signed images have flags 0x08, unsigned 0x04; the signature covers everything before it (image_blocks * 16 bytes).
   The 8 header padding bytes and the 8 bytes after the key blob are drawn per export (or given to export()): inputs
   y_pad1 / y_pad2.  Constants of V2.0 come from Gen/GenSb20.v (regenerated from source).  Definitions only. *)
From Coq Require Import ZArith NArith List Bool.
Require Import Value Bytes GenSb2 GenSb20 Sha2 Aes Modes Hmac KeyWrap Crc Sb2Model.
Import ListNotations.
Local Open Scope N_scope.

Record sb20in := mkSb20 {
  y_signed : bool; y_kek : list N; y_dek : list N; y_mac : list N; y_nonce : list N;
  y_pad1 : list N; y_pad2 : list N; y_ts : N; y_pv : N * N * N; y_cv : N * N * N; y_build : N;
  y_secs : list section; y_cb : certblk; y_sigsize : nat; y_sig : list N }.

Definition CERTSECT_MARK : N := le_dec CERTSECT_MARK_BYTES.
Definition CS_OVERHEAD : nat := (HDR_SIZE + 2 * N.to_nat CERTSECT_HMAC_SIZE)%nat.          (* 80 *)
Definition PRE20 : nat := (IHDR_SIZE + N.to_nat V20_HEADER_MAC_SIZE + N.to_nat V20_KEY_BLOB_SIZE)%nat.   (* 208 *)

Fixpoint uids_distinct (seen : list N) (ss : list N) : bool :=
  match ss with
  | [] => true
  | u :: t => negb (mem u seen) && uids_distinct (u :: seen) t
  end.

Definition certsect_hdr (cb : certblk) : hdr :=
  mkHdr TAG_TAG CERTSECT_FLAGS CERTSECT_MARK (N.of_nat (cb_raw_size cb / 16)) CERTSECT_HDR_DATA.

(* the boot ROM starts at the section whose id equals the header's first_boot_section_id *)
Fixpoint find_uid_index (u : N) (uids : list N) : option nat :=
  match uids with
  | [] => None
  | x :: t => if x =? u then Some 0%nat else match find_uid_index u t with Some i => Some (S i) | None => None end
  end.

(* first_boot_section_id as the ROM reads it from the 96-byte image header *)
Definition hdr_first_boot_section_id (file : list N) : option N :=
  match unpack rom_imghdr_layout file with
  | [FB _; FB _; FB _; FI _; FI _; FI _; FI _; FI _; FI fbsid; FI _; FI _; FI _; FI _; FI _;
     FB _; FI _; FI _; FI _; FI _; FI _; FI _; FI _; FI _; FI _; FI _; FI _; FI _; FI _; FI _; FB _] => Some fbsid
  | _ => None
  end.

Section Cipher20.
Variable E : list N -> list N -> list N.     (* key -> block -> block *)
Variable D : list N -> list N -> list N.

(* CertSectionV2.export: the header is encrypted with the current counter, the certificate block stays in clear *)
Definition certsect_export (dek mac nonce : list N) (ctr : N) (cb : certblk) (build image_length : N) : res (list N) :=
  let h := certsect_hdr cb in
  if negb (hdr_fits h) then Err 2
  else if U32 <=? ctr then Err 2
  else match cb_export cb build image_length with
       | Err e => Err e
       | Ok cbb =>
           let ench := xblock (E dek) nonce ctr (hdr_export h) in
           Ok (ench ++ hmac256 mac ench ++ hmac256 mac cbb ++ cbb)
       end.

Definition build20_gen (y : sb20in) : res (list N) :=
  if negb (uids_distinct [] (map s_uid (y_secs y))) then Err 1          (* add_boot_section: duplicate UID *)
  else match y_secs y with
  | [] => Err 1
  | s0 :: _ =>
    match secs_raw_size (y_secs y) with
    | Err e => Err e
    | Ok ssz =>
      let cbraw := cb_raw_size (y_cb y) in
      let csz := if y_signed y then (CS_OVERHEAD + cbraw)%nat else 0%nat in
      let tagoff := (PRE20 + csz)%nat in
      let rawsz := (tagoff + ssz)%nat in                          (* raw_size_without_signature *)
      if negb (aligned16 tagoff) then Err 1
      else if negb (aligned16 rawsz) then Err 1
      else
        let h := mkIhdr (y_nonce y) (y_pad1 y) V20_VERSION_MAJOR V20_VERSION_MINOR
                        (if y_signed y then V20_FLAGS_SIGNED else V20_FLAGS_UNSIGNED)
                        (N.of_nat (rawsz / 16)) (N.of_nat (tagoff / 16)) (s_uid s0)
                        (if y_signed y then N.of_nat (PRE20 + CS_OVERHEAD) else 0)
                        (N.of_nat (IHDR_SIZE / 16)) IMG_KEY_BLOB_BLOCK IMG_KEY_BLOB_BLOCK_COUNT
                        (N.of_nat ((if y_signed y then 1 else 0) + secs_mac_count (y_secs y)))
                        (y_ts y) (y_pv y) (y_cv y) (y_build y) in
        match ihdr_export h with
        | Err e => Err e
        | Ok hb =>
          let pre := hb ++ hmac256 (y_mac y) hb ++ wrap_keys E (y_kek y) (y_dek y) (y_mac y) ++ y_pad2 y in
          if negb (aligned16 (length pre)) then Err 1
          else
            let ctr0 := ctr_of_nonce (y_nonce y) + N.of_nat (length pre / 16) in
            let cs := if y_signed y
                      then certsect_export (y_dek y) (y_mac y) (y_nonce y) ctr0 (y_cb y) (y_build y) (N.of_nat (PRE20 + ssz))
                      else Ok [] in
            match cs with
            | Err e => Err e
            | Ok csb =>
              if negb (aligned16 (length csb)) then Err 1
              else
                match secs_export (E (y_dek y)) (y_mac y) (y_nonce y) (ctr0 + N.of_nat (length csb / 16)) (y_secs y) with
                | Err e => Err e
                | Ok bs =>
                  let data := pre ++ csb ++ bs in
                  let out := if y_signed y then data ++ y_sig y else data in
                  if Nat.eqb (length out) (rawsz + (if y_signed y then y_sigsize y else 0))%nat then Ok out
                  else Err 1                                         (* "Invalid length of exported data" *)
                end
            end
        end
    end
  end.

(* ---------------- BootImageV20.parse; sig_ok = verdict of cert_block.verify_data(data[image_size:], data[:image_size]) *)
Record parsed20 := mkParsed20 { q_signed : bool; q_pv : N * N * N; q_cv : N * N * N; q_build : N; q_ts : N;
                                q_nonce : list N; q_dek : list N; q_mac : list N; q_secs : list (N * N * list pcmd);
                                q_image_size : nat }.

Definition certsect_parse (dek mac nonce : list N) (ctr : N) (data : list N) (off : nat) : res nat :=
  let ench := slice data off (off + 16) in
  let hh := slice data (off + 16) (off + 48) in
  let ch := slice data (off + 48) (off + 80) in
  if negb (eqb_list hh (hmac256 mac ench)) then Err 1
  else if U32 <=? ctr then Err 2
  else match hdr_parse (xblock (E dek) nonce ctr ench) with
       | Err e => Err e
       | Ok h =>
           if negb (h_tag h =? TAG_TAG) then Err 1
           else if negb (h_flags h =? CERTSECT_FLAGS) then Err 1
           else if negb (h_addr h =? CERTSECT_MARK) then Err 1
           else match cb_parse_size (skipn (off + 80) data) with
                | Err e => Err e
                | Ok cbraw =>
                    if negb (eqb_list ch (hmac256 mac (slice data (off + 80) (off + 80 + cbraw)))) then Err 1
                    else Ok (80 + cbraw)%nat
                end
       end.

Definition parse20 (sig_ok : bool) (kek data : list N) : res parsed20 :=
  match kek with
  | [] => Err 1
  | _ =>
    let kb := slice data (IHDR_SIZE + 32) PRE20 in
    match py_unwrap D kek (firstn (length kb - 8) kb) with
    | Err e => Err e
    | Ok un =>
      let dek := firstn 32 un in
      let mac := skipn 32 un in
      let hraw := slice data 0 IHDR_SIZE in
      if negb (eqb_list (slice data IHDR_SIZE (IHDR_SIZE + 32)) (hmac256 mac hraw)) then Err 1
      else match ihdr_parse hraw with
      | Err e => Err e
      | Ok h =>
        if negb ((ih_major h =? V20_VERSION_MAJOR) && (ih_minor h =? V20_VERSION_MINOR)) then Err 1
        else
          let image_size := N.to_nat (N.min (ih_image_blocks h * 16) (nlen data + 1)) in   (* clamped, see parse21 *)
          let ctr := ctr_of_nonce (ih_nonce h) + N.of_nat (PRE20 / 16) in
          let signed := ih_flags h =? V20_PARSE_SIGNED_FLAGS in
          let cs := if signed then certsect_parse dek mac (ih_nonce h) ctr data PRE20 else Ok 0%nat in
          match cs with
          | Err e => Err e
          | Ok csz =>
            if signed && negb sig_ok then Err 1
            else
              match secs_parse (S (length data)) (E dek) mac (ih_nonce h) (ctr + N.of_nat (csz / 16)) data (PRE20 + csz) image_size with
              | Err e => Err e
              | Ok secs =>
                  if negb (uids_distinct [] (map (fun s => fst (fst s)) secs)) then Err 1
                  else Ok (mkParsed20 signed (ih_pv h) (ih_cv h) (ih_build h) (ih_ts h / 1000000 * 1000000) (ih_nonce h)
                                      dek mac secs image_size)
              end
          end
      end
    end
  end.

(* ---------------- the boot ROM for SB 2.0, from the container layout *)
Record rom20_out := mkRom20 { t_signed : bool; t_pv : N * N * N; t_cv : N * N * N; t_build : N; t_ts : N;
                              t_secs : list (N * list rcmd); t_signed_len : nat; t_sig : list N;
                              t_boot_index : nat (* position of the section the ROM starts with *) }.

Definition rom20 (sigsize : nat) (kek file : list N) : option rom20_out :=
  if Nat.ltb (length file) 208 then None
  else match unpack rom_imghdr_layout file with
  | [FB nonce; FB _; FB s1; FI mj; FI mn; FI fl; FI ib; FI fbtb; FI fbsid; FI co; FI hb; FI kbb; FI kbbc; FI _;
     FB s2; FI ts; FI p0; FI _; FI p1; FI _; FI p2; FI _; FI c0; FI _; FI c1; FI _; FI c2; FI _; FI bn; FB _] =>
      if negb (eqb_list s1 [83; 84; 77; 80] && eqb_list s2 [115; 103; 116; 108]) then None       (* "STMP", "sgtl" *)
      else if negb ((mj =? 2) && (mn =? 0)) then None
      else if negb ((hb =? 6) && (kbb =? 8) && (kbbc =? 5)) then None
      else if negb ((fl =? 8) || (fl =? 4)) then None
      else
        let signed := fl =? 8 in
        match kw_unwrap (D kek) (slice file 128 200) with
        | None => None
        | Some keys =>
          if negb (Nat.eqb (length keys) 64) then None
          else
            let dek := firstn 32 keys in
            let mac := skipn 32 keys in
            (* the header MAC authenticates the 96 header bytes *)
            if negb (eqb_list (slice file 96 128) (hmac256 mac (firstn 96 file))) then None
            else if (nlen file <? ib * 16) || (ib <=? fbtb) then None
            else
              let stop := (N.to_nat ib * 16)%nat in
              let start := (N.to_nat fbtb * 16)%nat in
              let ctr0 := ctr_of_nonce nonce in
              (* certificate section (signed images): encrypted header at block 13, two MACs, certificate block in clear *)
              let cert_ok :=
                if signed then
                  let ench := slice file 208 224 in
                  if negb (eqb_list (slice file 224 256) (hmac256 mac ench)) then None
                  else if negb (ctr0 + 13 <? U32) then None
                  else match rom_hdr (xblock (E dek) nonce (ctr0 + 13) ench) with
                       | None => None
                       | Some h =>
                           if negb ((h_tag h =? 1) && (h_flags h =? 32770) && (h_addr h =? 1852270963) && (co =? 288)) then None   (* 'sign' *)
                           else if nlen file <? h_count h * 16 then None
                           else
                             let cbsz := (16 * N.to_nat (h_count h))%nat in
                             if negb (eqb_list (slice file 256 288) (hmac256 mac (slice file 288 (288 + cbsz)))) then None
                             else if negb (eqb_list (slice file 288 292) [99; 101; 114; 116]) then None            (* "cert" *)
                             else Some (288 + cbsz)%nat
                       end
                else Some 208%nat in
              match cert_ok with
              | None => None
              | Some first =>
                  if negb (Nat.eqb start first) then None
                  else if negb (Nat.eqb (length file) (stop + (if signed then sigsize else 0))) then None
                  else match rom_sections (E dek) (S (length file)) mac nonce (firstn stop file) start stop with
                       | None => None
                       | Some secs =>
                           (* the section to start with is the one that carries first_boot_section_id *)
                           match find_uid_index fbsid (map fst secs) with
                           | None => None
                           | Some bi =>
                               Some (mkRom20 signed (bswap p0, bswap p1, bswap p2) (bswap c0, bswap c1, bswap c2) bn ts secs
                                             stop (skipn stop file) bi)
                           end
                       end
              end
        end
  | _ => None
  end.

(* SB 2.1: the ROM of Model/Sb2Model.v plus the location of the first boot section by first_boot_section_id *)
Definition rom21_boot (sigsize : nat) (kek file : list N) : option (rom_out * nat) :=
  match rom21 E D sigsize kek file with
  | None => None
  | Some r => match hdr_first_boot_section_id file with
              | None => None
              | Some fbsid => match find_uid_index fbsid (map fst (r_secs r)) with
                              | None => None
                              | Some bi => Some (r, bi)
                              end
              end
  end.

End Cipher20.

(* ------------------------------------------------------------------ executable instance and run_case *)
Definition build20 : sb20in -> res (list N) := build20_gen sbE.
Definition spsdk_parse20 := parse20 sbE sbD.
Definition rom20_aes := rom20 sbE sbD.
Definition rom21_boot_aes := rom21_boot sbE sbD.

Definition sb20in_of_value (v : value) : option sb20in :=
  match v with
  | VList [VInt signed; VBytes kek; VBytes dek; VBytes mac; VBytes nonce; VBytes pad1; VBytes pad2; VInt ts; pv; cv; VInt build;
           VList secs; VList [VInt cbf; VList certs; VBytes rkht]; VInt sigsize; VBytes sig] =>
      match ver_of_value pv, ver_of_value cv, opt_all (map sec_of_value secs), bytes_all certs with
      | Some p, Some c, Some ss, Some cl =>
          Some (mkSb20 (negb (signed =? 0)%Z) kek dek mac nonce pad1 pad2 (zN ts) p c (zN build) ss (mkCb (zN cbf) cl rkht)
                       (Z.to_nat sigsize) sig)
      | _, _, _, _ => None
      end
  | _ => None
  end.

Definition vparsed20 (p : parsed20) : value :=
  VList [vbool (q_signed p); v3 (q_pv p); v3 (q_cv p); vN (q_build p); vN (q_ts p); VBytes (q_nonce p); VBytes (q_dek p);
         VBytes (q_mac p); VList (map vsec (q_secs p)); vnat (q_image_size p)].

Definition vrom20 (r : rom20_out) : value :=
  VList [vbool (t_signed r); v3 (t_pv r); v3 (t_cv r); vN (t_build r); vN (t_ts r);
         VList (map (fun s => VList [vN (fst s); VList (map vrcmd (snd s))]) (t_secs r)); vnat (t_signed_len r); VBytes (t_sig r);
         vnat (t_boot_index r)].

(* function ids: 1 build20 [sb20in] -> bytes; 2 spsdk_parse20 [sig_ok; kek; data]; 3 rom20 [sigsize; kek; data];
   4 rom21 with the first boot section located by id [sigsize; kek; data] -> [rom output; boot index] *)
Definition run_case20 (fn : Z) (args : list value) : value :=
  match fn, args with
  | 1%Z, [v] => match sb20in_of_value v with Some y => vres VBytes (build20 y) | None => VErr E_BADCASE end
  | 2%Z, [VInt ok; VBytes kek; VBytes data] => vres vparsed20 (spsdk_parse20 (negb (ok =? 0)%Z) kek data)
  | 3%Z, [VInt sigsize; VBytes kek; VBytes data] => vopt vrom20 (rom20_aes (Z.to_nat sigsize) kek data)
  | 4%Z, [VInt sigsize; VBytes kek; VBytes data] =>
      vopt (fun p => VList [vrom (fst p); vnat (snd p)]) (rom21_boot_aes (Z.to_nat sigsize) kek data)
  | _, _ => VErr E_BADCASE
  end.
