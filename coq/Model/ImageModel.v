(* Model/ImageModel.v -- faithful executable model of spsdk.utils.images.BinaryImage (C16):
   constructor, __len__, add_image / append_image, validate, export, the HEX/S19 write list of
   save_binary_image, and the segment -> sub-image step of load_binary_image (+ update_offsets).
   Integer alignment is the TRANSLATED py_align of Gen/GenMisc.v; the interval tests of validate() and the
   sub-image end of __len__ are the EXTRACTED definitions of Gen/GenImage.v (regenerated from the source on
   every run); pattern blocks and align_block are the C20 models of Model/MiscModel.v.  Definitions only.

   Not modelled (third party / presentation): bincopy's record text (checksums, extended-address
   records), its format auto-detection, ELF loading, draw(), __str__.  The write list -> segment
   step of bincopy (later write wins, maximal runs) IS modelled (mem_at / group) and is tied to the
   real library only by correspondence. *)
From Coq Require Import ZArith NArith List Bool.
Require Import Value Bytes GenMisc GenImage MiscModel.
Import ListNotations.
Local Open Scope Z_scope.

(* sz is the private _size (already aligned by the constructor); bin = [] stands for None / b"" (both falsy) *)
Inductive img : Type :=
| Img (sz al off : Z) (bin : list N) (pat : option pattern) (subs : list img).

Definition isz (i : img) : Z := match i with Img sz _ _ _ _ _ => sz end.
Definition ial (i : img) : Z := match i with Img _ al _ _ _ _ => al end.
Definition ioff (i : img) : Z := match i with Img _ _ off _ _ _ => off end.
Definition ibin (i : img) : list N := match i with Img _ _ _ bin _ _ => bin end.
Definition ipat (i : img) : option pattern := match i with Img _ _ _ _ pat _ => pat end.
Definition isubs (i : img) : list img := match i with Img _ _ _ _ _ subs => subs end.

Definition isnil {A} (l : list A) : bool := match l with [] => true | _ => false end.

(* align() of misc.py; the error branch is unreachable for constructed images (alignment >= 1, sizes >= 0) *)
Definition zalign (n a : Z) : Z := match py_align n a with Ok r => r | Err _ => 0 end.

(* __len__: the loop  max_size = max(image.offset + len(image), max_size) *)
Fixpoint max_ends (l : list (Z * Z)) (m : Z) : Z :=
  match l with
  | [] => m
  | (o, n) :: t => max_ends t (Z.max (l_child_end o n) m)
  end.

Fixpoint ilen (i : img) : Z :=
  match i with
  | Img sz al off bin pat subs =>
      if sz =? 0 then zalign (max_ends (map (fun c => (ioff c, ilen c)) subs) (zlen bin)) al
      else sz
  end.

Definition extents (subs : list img) : list (Z * Z) := map (fun c => (ioff c, ilen c)) subs.

(* ---------- add_image / append_image ---------- *)
Fixpoint insert_img (c : img) (l : list img) : list img :=
  match l with
  | [] => [c]
  | x :: t => if ioff c <? ioff x then c :: l else x :: insert_img c t
  end.

Definition add_image (p c : img) : img :=
  match p with Img sz al off bin pat subs => Img sz al off bin pat (insert_img c subs) end.

Definition set_off (c : img) (o : Z) : img :=
  match c with Img sz al _ bin pat subs => Img sz al o bin pat subs end.

Definition append_image (p c : img) : img := add_image p (set_off c (ilen p)).

(* ---------- validate ---------- *)
(* "end < sibling_begin or begin > sibling_end" with end = begin + len - 1 *)
Definition no_overlap (x y : Z * Z) : bool :=
  let '(b1, l1) := x in let '(b2, l2) := y in v_siblings_apart b1 l1 b2 l2.

(* "end >= len(self)" raises *)
Definition fits_in (plen : Z) (x : Z * Z) : bool :=
  let '(b, l) := x in negb (v_child_sticks_out b l plen).

(* for image in subs: for sibling in subs: if sibling != image (identity): ... *)
Fixpoint sib_check (pre l : list (Z * Z)) : bool :=
  match l with
  | [] => true
  | x :: t => forallb (no_overlap x) pre && forallb (no_overlap x) t && sib_check (pre ++ [x]) t
  end.

(* every raise in validate() is an SPSDKError (SPSDKValueError / SPSDKOverlapError): outcome is a boolean *)
Fixpoint validate (i : img) : bool :=
  match i with
  | Img sz al off bin pat subs =>
      negb (v_offset_negative off)
      && negb (negb (isnil bin) && v_binary_too_long (zlen bin) (ilen i))
      && forallb validate subs
      && forallb (fits_in (ilen i)) (extents subs)
      && sib_check [] (extents subs)
  end.

(* ---------- export ---------- *)
Definition pat_or_zeros (pat : option pattern) : pattern :=
  match pat with Some p => p | None => PZeros end.

(* CPython slice.indices for step 1 *)
Definition clamp_idx (i n : Z) : Z := if i <? 0 then Z.max (i + n) 0 else Z.min i n.

(* memoryview(ret)[off : off + len(d)][:] = d  -- ValueError when the slice is shorter than d *)
Definition mv_write (ret : list N) (off : Z) (d : list N) : res (list N) :=
  let n := zlen ret in
  let start := clamp_idx off n in
  let stop := clamp_idx (off + zlen d) n in
  if Z.max (stop - start) 0 =? zlen d then Ok (splice ret (Z.to_nat start) d) else Err 2%N.

Fixpoint write_children (ret : list N) (l : list (Z * res (list N))) : res (list N) :=
  match l with
  | [] => Ok ret
  | (o, Err e) :: _ => Err e
  | (o, Ok d) :: t => match mv_write ret o d with
                      | Ok r => write_children r t
                      | Err e => Err e
                      end
  end.

Fixpoint export (i : img) : res (list N) :=
  match i with
  | Img sz al off bin pat subs =>
      let n := ilen i in
      if negb (isnil bin) && (n =? zlen bin) && isnil subs then Ok bin
      else match pattern_block (pat_or_zeros pat) (Z.to_nat n) with
           | Err e => Err e
           | Ok blk =>
               (* ret[:len(binary)] = binary  on a bytearray: grows when the binary is longer *)
               let ret := if isnil bin then blk else splice blk 0 bin in
               match write_children ret (map (fun c => (ioff c, export c)) subs) with
               | Err e => Err e
               | Ok r => align_block r al (pat_or_zeros pat)
               end
           end
  end.

(* ---------- construction from a tree description (constructor + add/append, bottom-up) ---------- *)
Inductive spec : Type :=
| Spec (size al off : Z) (bin : list N) (pat : option pattern) (kids : list (bool * spec)).   (* true = append_image *)

Fixpoint build (s : spec) : res img :=
  match s with
  | Spec size al off bin pat kids =>
      match py_align size al with
      | Err e => Err e
      | Ok sz =>
          (fix go (l : list (bool * spec)) (p : img) : res img :=
             match l with
             | [] => Ok p
             | (ap, k) :: t => match build k with
                               | Err e => Err e
                               | Ok c => go t (if ap then append_image p c else add_image p c)
                               end
             end) kids (Img sz al off bin pat [])
      end
  end.

(* absolute_address / len of every node, depth first in sub_images order *)
Fixpoint shape (base : Z) (i : img) : list (Z * Z) :=
  match i with
  | Img sz al off bin pat subs => (base + off, ilen i) :: flat_map (shape (base + off)) subs
  end.

(* ---------- save_binary_image HEX / S19: ordered add_binary(..., overwrite=True) calls ---------- *)
Definition has_pat (pat : option pattern) : bool := match pat with Some _ => true | None => false end.

(* add_into_binary(bin_image, filled): once an ancestor has written data (pattern or own binary) a node writes its
   whole extent (zeros without a pattern), as export() does; empty blocks are skipped *)
Fixpoint writes (filled : bool) (base : Z) (i : img) : list (Z * list N) :=
  match i with
  | Img sz al off bin pat subs =>
      let a := base + off in
      (if (has_pat pat || filled) && negb (ilen i =? 0) then
         match pattern_block (pat_or_zeros pat) (Z.to_nat (ilen i)) with Ok b => [(a, b)] | Err _ => [] end
       else [])
      ++ (if isnil bin then [] else [(a, bin)])
      ++ flat_map (writes (filled || has_pat pat || negb (isnil bin)) a) subs
  end.

(* content of the BinFile after the calls: the last write covering an address wins *)
Fixpoint mem_at (ws : list (Z * list N)) (a : Z) (cur : option N) : option N :=
  match ws with
  | [] => cur
  | (s, d) :: t => mem_at t a (if (s <=? a) && (a <? s + zlen d) then nth_error d (Z.to_nat (a - s)) else cur)
  end.

Fixpoint scan (ws : list (Z * list N)) (fuel : nat) (a : Z) : list (option N) :=
  match fuel with
  | O => []
  | S f => mem_at ws a None :: scan ws f (a + 1)
  end.

(* maximal runs of defined addresses = bincopy segments *)
Fixpoint group (a : Z) (l : list (option N)) : list (Z * list N) :=
  match l with
  | [] => []
  | None :: t => group (a + 1) t
  | Some b :: t => match group (a + 1) t with
                   | (s, d) :: r => if s =? a + 1 then (a, b :: d) :: r else (a, [b]) :: (s, d) :: r
                   | [] => [(a, [b])]
                   end
  end.

Definition ws_lo (ws : list (Z * list N)) : Z :=
  match ws with [] => 0 | (s, _) :: t => fold_left (fun m w => Z.min m (fst w)) t s end.
Definition ws_hi (ws : list (Z * list N)) : Z :=
  match ws with [] => 0 | (s, d) :: t => fold_left (fun m w => Z.max m (fst w + zlen (snd w))) t (s + zlen d) end.

(* empty blocks carry no address range *)
Definition nonempty_ws (ws : list (Z * list N)) : list (Z * list N) :=
  filter (fun w => negb (isnil (snd w))) ws.

Definition segments (ws : list (Z * list N)) : list (Z * list N) :=
  let ne := nonempty_ws ws in
  group (ws_lo ne) (scan ws (Z.to_nat (ws_hi ne - ws_lo ne)) (ws_lo ne)).

Definition hex_segments (i : img) : list (Z * list N) := segments (writes false 0 i).

(* ---------- load_binary_image: segments -> "Segment i" children, then update_offsets ---------- *)
Definition seg_img (s : Z * list N) : img := Img (zlen (snd s)) 1 (fst s) (snd s) None [].

Definition min_off (l : list img) : Z :=
  match l with [] => 0 | x :: t => fold_left (fun m c => Z.min m (ioff c)) t (ioff x) end.

Definition update_offsets (i : img) : img :=
  match i with
  | Img sz al off bin pat subs =>
      let m := min_off subs in
      Img sz al (off + m) bin pat (map (fun c => set_off c (ioff c - m)) subs)
  end.

Definition load_segments (offset : Z) (segs : list (Z * list N)) : res img :=
  match segs with
  | [] => Err 1%N                                   (* "Load of ... failed, can't be decoded." *)
  | _ => Ok (update_offsets (fold_left (fun p s => add_image p (seg_img s)) segs (Img 0 1 offset [] None [])))
  end.

(* ---------- run_case dispatcher ---------- *)
Definition pat_of_value (v : value) : option (option pattern) :=
  match v with
  | VList [] => Some None
  | VList [VInt tag; VInt x] => Some (Some (pat_of tag x))
  | _ => None
  end.

Fixpoint all_some {A} (l : list (option A)) : option (list A) :=
  match l with
  | [] => Some []
  | Some x :: t => match all_some t with Some r => Some (x :: r) | None => None end
  | None :: _ => None
  end.

Fixpoint spec_of (v : value) : option spec :=
  match v with
  | VList [VInt size; VInt al; VInt off; VBytes bin; p; VList kids] =>
      match pat_of_value p with
      | None => None
      | Some pat =>
          match all_some (map (fun kv => match kv with
                                         | VList [VInt ap; s] =>
                                             match spec_of s with
                                             | Some k => Some (negb (ap =? 0), k)
                                             | None => None
                                             end
                                         | _ => None
                                         end) kids) with
          | Some ks => Some (Spec size al off bin pat ks)
          | None => None
          end
      end
  | _ => None
  end.

Definition vpair (x : Z * Z) : value := VList [VInt (fst x); VInt (snd x)].
Definition vseg (x : Z * list N) : value := VList [VInt (fst x); VBytes (snd x)].

(* len, validate, export, absolute address / len of every node *)
Definition observe (i : img) : value :=
  VList [VInt (ilen i); vbool (validate i); vres VBytes (export i); VList (map vpair (shape 0 i))].

Definition observe_loaded (r : res img) : value :=
  match r with
  | Err k => VErr k
  | Ok i => VList [VInt (ioff i); VList (map (fun c => vseg (ioff c, ibin c)) (isubs i)); vres VBytes (export i);
                   vbool (validate i)]
  end.

Definition run_case (fn : Z) (args : list value) : value :=
  match fn, args with
  | 1, [v] => match spec_of v with
              | Some s => vres observe (build s)
              | None => VErr E_BADCASE
              end
  (* HEX / S19 save -> load at segment level *)
  | 2, [v] => match spec_of v with
              | Some s => match build s with
                          | Ok i => observe_loaded (load_segments 0 (hex_segments i))
                          | Err k => VErr k
                          end
              | None => VErr E_BADCASE
              end
  (* BIN save -> load: one segment at address 0 holding export() *)
  | 3, [v] => match spec_of v with
              | Some s => match build s with
                          | Ok i => match export i with
                                    | Ok b => observe_loaded (load_segments 0 (match b with [] => [] | _ => [(0, b)] end))
                                    | Err k => VErr k
                                    end
                          | Err k => VErr k
                          end
              | None => VErr E_BADCASE
              end
  | _, _ => VErr E_BADCASE
  end.
