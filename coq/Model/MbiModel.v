(* Model/MbiModel.v -- executable model of the Master Boot Image builder / parser
   (spsdk/image/mbi/mbi.py, mbi_mixin.py, mbi_classes.py; TrustZone / KeyStore / cert blocks as byte strings).
   Faithful to the CURRENT code, defects included.  Definitions only.

   * an MBI class is a list of mixins (Gen/GenMbi.v, extracted from the database); every stage of the export / parse
     pipeline is dispatched on the first mixin of the list that provides it (Python's MRO), see [provider];
   * export_mbi  = validate -> collect_data -> encrypt -> post_encrypt -> sign -> finalize     (mbi.py:357-393)
   * parse_mbi   = mix_parse of every mixin (with the PRE_PARSED re-queue loop), then finalize / sign / post_encrypt /
                   encrypt with revert=True, then disassemble_image                            (mbi.py:396-468)
   * cryptographic primitives (signature, HMAC, AES-CTR, hash) are a record of functions [crypto]: the theorems
     quantify over it, run_case instantiates it with the values observed for the case (C02 / C09 own the primitives).
   * certificate blocks are byte strings: v1 = 20 header bytes ++ image_length word ++ rest, v2.1 = opaque bytes
     (C03 owns their content); X.509 parsing is not modelled (the signature size is a parameter of parse).
   Not modelled (run_case answers VErr 98): the BCA/FCF families (MixinBcaTable, MixinBca, MixinFcf, ... ). *)
From Coq Require Import ZArith NArith List Bool.
Require Import Value Bytes MbiMixinModel GenMbi.
Import ListNotations.
Local Open Scope Z_scope.

Definition E_UNSUPPORTED : N := 98.

(* ------------------------------------------------------------------ bytes *)
Definition natz (z : Z) : nat := Z.to_nat z.
Definition OFF_LEN : nat := natz G_IVT_IMAGE_LENGTH_OFFSET.       (* 0x20 *)
Definition OFF_FLAGS : nat := natz G_IVT_IMAGE_FLAGS_OFFSET.      (* 0x24 *)
Definition OFF_CRC : nat := natz G_IVT_CRC_CERTIFICATE_OFFSET.    (* 0x28 *)
Definition OFF_LOAD : nat := natz G_IVT_LOAD_ADDR_OFFSET.         (* 0x34 *)
Definition HMAC_OFF : nat := natz G_HMAC_OFFSET.                  (* 64 *)
Definition HMAC_SZ : nat := natz G_HMAC_SIZE.                     (* 32 *)
Definition KS_SZ : nat := natz G_KEY_STORE_SIZE.                  (* 1424 *)
Definition IV_SZ : nat := natz G_CTR_INIT_VECTOR_SIZE.            (* 16 *)
Definition MIN_APP : nat := 56.                                   (* 0x38 *)

(* struct.pack("<I", v): struct.error (not an SPSDKError) outside 0 .. 2^32-1 *)
Definition u32 (v : Z) : res (list N) :=
  if (0 <=? v) && (v <? 4294967296) then Ok (le_enc 4 (Z.to_N v)) else Err E_CRASH.
(* int.from_bytes(data[o:o+4], "little") -- tolerant of short data *)
Definition rd32 (off : nat) (d : list N) : Z := Z.of_N (le_dec (firstn 4 (skipn off d))).
(* bytearray slice assignment data[o:o+4] = w *)
Definition wr (off : nat) (w : list N) (d : list N) : list N := splice d off w.
Definition sub (d : list N) (a b : nat) : list N := slice d a b.
(* data[:-k] for k > 0 *)
Definition drop_last (k : nat) (d : list N) : list N := firstn (length d - k) d.
(* data[-k:] for k > 0 *)
Definition take_last (k : nat) (d : list N) : list N := skipn (length d - k) d.
(* align_block(data, 4) with zero padding *)
Definition pad4 (d : list N) : list N := d ++ zeros ((4 - length d mod 4) mod 4)%nat.

(* CRC-32/MPEG-2 (poly 0x04C11DB7, init 0xFFFFFFFF, no reflection, no final xor), bit serial *)
Fixpoint mbi_crc_bits (n : nat) (c : N) : N :=
  match n with
  | O => c
  | S k => mbi_crc_bits k (let s := N.land (N.shiftl c 1) 4294967295 in
                          if N.testbit c 31 then N.lxor s 79764919 else s)
  end.
Definition mbi_crc_byte (c b : N) : N := mbi_crc_bits 8 (N.lxor c (N.shiftl b 24)).
Definition mbi_crc32_from (init : N) (d : list N) : N := fold_left mbi_crc_byte d init.
Definition mbi_crc32_mpeg (d : list N) : N := mbi_crc32_from 4294967295 d.

(* ------------------------------------------------------------------ data *)
Inductive tz : Type := TzEnabled | TzCustom (d : list N) | TzDisabled.
Definition tz_tag (t : tz) : Z :=
  match t with TzEnabled => G_TZ_ENABLED | TzCustom _ => G_TZ_CUSTOM | TzDisabled => G_TZ_DISABLED end.
Definition tz_export (t : tz) : list N := match t with TzCustom d => d | _ => [] end.
Definition tz_is_disabled (t : tz) : bool := match t with TzDisabled => true | _ => false end.
Definition tz_is_custom (t : tz) : bool := match t with TzCustom _ => true | _ => false end.
(* TrustZone.from_binary(family, raw): needs at least len(presets) words, keeps exactly len(presets) words *)
Definition tz_from_binary (tzsize : nat) (raw : list N) : res tz :=
  if (Nat.ltb (length raw / 4) (tzsize / 4)) then Err E_REJECT else Ok (TzCustom (firstn tzsize raw)).

Record entry : Type := { e_img : list N; e_dst : Z; e_flags : Z }.

Inductive cert : Type :=
| CertV1 (pre post : list N) (sig : nat)       (* export = pre(20) ++ u32 image_length ++ post *)
| CertV21 (body : list N) (sig : nat).
Definition cert_sig (c : cert) : nat := match c with CertV1 _ _ s => s | CertV21 _ s => s end.
Definition cert_size (c : cert) : nat :=
  match c with CertV1 pre post _ => (length pre + 4 + length post)%nat | CertV21 b _ => length b end.
Definition cert_is_v1 (c : cert) : bool := match c with CertV1 _ _ _ => true | _ => false end.
(* cert_block.image_length = il (setter rejects il <= 0) ; cert_block.export() *)
Definition cert_export (c : cert) (il : Z) : res (list N) :=
  match c with
  | CertV1 pre post _ => if il <=? 0 then Err E_REJECT else bind (u32 il) (fun w => Ok (pre ++ w ++ post))
  | CertV21 b _ => Ok b
  end.

Record mbi : Type := {
  m_app : list N;                 (* _app (already aligned by the app setter) *)
  m_load : Z; m_imgver : Z; m_subtype : Z; m_fwver : Z;
  m_tz : tz;
  m_hwkey : bool;
  m_ks : option (list N);         (* KeyStore(KEYSTORE, data) *)
  m_hmac : option (list N);       (* hmac_key *)
  m_iv : list N;                  (* ctr_init_vector *)
  m_table : option (list entry);  (* app_table *)
  m_cert : option cert;
  m_digest : Z                    (* manifest digest hash algorithm: 0 none, 1 sha256, 2 sha384, 3 sha512 *)
}.

Definition set_app (x : mbi) (a : list N) : mbi :=
  {| m_app := a; m_load := m_load x; m_imgver := m_imgver x; m_subtype := m_subtype x; m_fwver := m_fwver x;
     m_tz := m_tz x; m_hwkey := m_hwkey x; m_ks := m_ks x; m_hmac := m_hmac x; m_iv := m_iv x; m_table := m_table x;
     m_cert := m_cert x; m_digest := m_digest x |}.
Definition set_load (x : mbi) (v : Z) : mbi :=
  {| m_app := m_app x; m_load := v; m_imgver := m_imgver x; m_subtype := m_subtype x; m_fwver := m_fwver x;
     m_tz := m_tz x; m_hwkey := m_hwkey x; m_ks := m_ks x; m_hmac := m_hmac x; m_iv := m_iv x; m_table := m_table x;
     m_cert := m_cert x; m_digest := m_digest x |}.
Definition set_imgver (x : mbi) (v : Z) : mbi :=
  {| m_app := m_app x; m_load := m_load x; m_imgver := v; m_subtype := m_subtype x; m_fwver := m_fwver x;
     m_tz := m_tz x; m_hwkey := m_hwkey x; m_ks := m_ks x; m_hmac := m_hmac x; m_iv := m_iv x; m_table := m_table x;
     m_cert := m_cert x; m_digest := m_digest x |}.
Definition set_subtype (x : mbi) (v : Z) : mbi :=
  {| m_app := m_app x; m_load := m_load x; m_imgver := m_imgver x; m_subtype := v; m_fwver := m_fwver x;
     m_tz := m_tz x; m_hwkey := m_hwkey x; m_ks := m_ks x; m_hmac := m_hmac x; m_iv := m_iv x; m_table := m_table x;
     m_cert := m_cert x; m_digest := m_digest x |}.
Definition set_tz (x : mbi) (v : tz) : mbi :=
  {| m_app := m_app x; m_load := m_load x; m_imgver := m_imgver x; m_subtype := m_subtype x; m_fwver := m_fwver x;
     m_tz := v; m_hwkey := m_hwkey x; m_ks := m_ks x; m_hmac := m_hmac x; m_iv := m_iv x; m_table := m_table x;
     m_cert := m_cert x; m_digest := m_digest x |}.
Definition set_hwkey (x : mbi) (v : bool) : mbi :=
  {| m_app := m_app x; m_load := m_load x; m_imgver := m_imgver x; m_subtype := m_subtype x; m_fwver := m_fwver x;
     m_tz := m_tz x; m_hwkey := v; m_ks := m_ks x; m_hmac := m_hmac x; m_iv := m_iv x; m_table := m_table x;
     m_cert := m_cert x; m_digest := m_digest x |}.
Definition set_ks (x : mbi) (v : option (list N)) : mbi :=
  {| m_app := m_app x; m_load := m_load x; m_imgver := m_imgver x; m_subtype := m_subtype x; m_fwver := m_fwver x;
     m_tz := m_tz x; m_hwkey := m_hwkey x; m_ks := v; m_hmac := m_hmac x; m_iv := m_iv x; m_table := m_table x;
     m_cert := m_cert x; m_digest := m_digest x |}.
Definition set_hmac (x : mbi) (v : option (list N)) : mbi :=
  {| m_app := m_app x; m_load := m_load x; m_imgver := m_imgver x; m_subtype := m_subtype x; m_fwver := m_fwver x;
     m_tz := m_tz x; m_hwkey := m_hwkey x; m_ks := m_ks x; m_hmac := v; m_iv := m_iv x; m_table := m_table x;
     m_cert := m_cert x; m_digest := m_digest x |}.
Definition set_iv (x : mbi) (v : list N) : mbi :=
  {| m_app := m_app x; m_load := m_load x; m_imgver := m_imgver x; m_subtype := m_subtype x; m_fwver := m_fwver x;
     m_tz := m_tz x; m_hwkey := m_hwkey x; m_ks := m_ks x; m_hmac := m_hmac x; m_iv := v; m_table := m_table x;
     m_cert := m_cert x; m_digest := m_digest x |}.
Definition set_table (x : mbi) (v : option (list entry)) : mbi :=
  {| m_app := m_app x; m_load := m_load x; m_imgver := m_imgver x; m_subtype := m_subtype x; m_fwver := m_fwver x;
     m_tz := m_tz x; m_hwkey := m_hwkey x; m_ks := m_ks x; m_hmac := m_hmac x; m_iv := m_iv x; m_table := v;
     m_cert := m_cert x; m_digest := m_digest x |}.
Definition set_cert (x : mbi) (v : option cert) : mbi :=
  {| m_app := m_app x; m_load := m_load x; m_imgver := m_imgver x; m_subtype := m_subtype x; m_fwver := m_fwver x;
     m_tz := m_tz x; m_hwkey := m_hwkey x; m_ks := m_ks x; m_hmac := m_hmac x; m_iv := m_iv x; m_table := m_table x;
     m_cert := v; m_digest := m_digest x |}.
Definition set_manifest (x : mbi) (fw : Z) (t : tz) (dg : Z) : mbi :=
  {| m_app := m_app x; m_load := m_load x; m_imgver := m_imgver x; m_subtype := m_subtype x; m_fwver := fw;
     m_tz := t; m_hwkey := m_hwkey x; m_ks := m_ks x; m_hmac := m_hmac x; m_iv := m_iv x; m_table := m_table x;
     m_cert := m_cert x; m_digest := dg |}.

(* the object created by MasterBootImage.parse before any mixin has parsed: NEEDED_MEMBERS defaults *)
Definition mbi_default : mbi :=
  {| m_app := []; m_load := 0; m_imgver := 0; m_subtype := 0; m_fwver := 0; m_tz := TzEnabled; m_hwkey := false;
     m_ks := None; m_hmac := None; m_iv := []; m_table := None; m_cert := None; m_digest := 0 |}.

(* cryptographic primitives used by the builder (owned by C02/C09; here: any functions) *)
Record crypto : Type := {
  k_sign : list N -> list N;                              (* signature_provider.get_signature(data) *)
  k_hmac : list N -> list N -> list N;                    (* hmac(KeyStore.derive_hmac_key(key), data) *)
  k_ctr : list N -> bool -> list N -> list N -> list N;   (* AES-CTR: user key, derive-enc-key?, iv, data *)
  k_hash : Z -> list N -> list N                          (* get_hash(data, algo 1|2|3) *)
}.

(* ------------------------------------------------------------------ class structure (MRO, hasattr) *)
Definition has (c : mbi_class) (m : mixin) : bool := existsb (mixin_eqb m) (c_mixins c).
Definition attr_eqb (a b : attr) : bool := Z.eqb (attr_id a) (attr_id b).
Definition stage_eqb (a b : stage) : bool := Z.eqb (stage_id a) (stage_id b).

(* attributes a mixin class contributes to the created class (NEEDED_MEMBERS keys and properties) *)
Definition mixin_attrs (m : mixin) : list attr :=
  match m with
  | MixinTrustZone | MixinTrustZoneMandatory => [ATrustZone]
  | MixinLoadAddress | MixinLoadAddressOptional => [ALoadAddress]
  | MixinFwVersion => [AManifest]
  | MixinImageVersion => [AImageVersion]
  | MixinImageSubType => [AImageSubtype]
  | MixinIvt | MixinIvtZeroTotalLength => [AIvtTable]
  | MixinRelocTable => [AAppTable]
  | MixinManifest | MixinManifestCrc | MixinManifestDigest => [ACertBlock; AManifest]
  | MixinCertBlockV1 | MixinCertBlockV21 | MixinCertBlockVx => [ACertBlock]
  | MixinBca => [ABca]
  | MixinFcf => [AFcf]
  | MixinHwKey => [AHwKey]
  | MixinKeyStore => [AKeyStore]
  | MixinHmac | MixinHmacMandatory => [AHmacKey]
  | MixinCtrInitVector => [ACtrIv]
  | _ => []
  end.
Definition has_attr (c : mbi_class) (a : attr) : bool :=
  existsb (fun m => existsb (attr_eqb a) (mixin_attrs m)) (c_mixins c).
(* PRE_PARSED = ["cert_block"] *)
Definition pre_parsed_cert (m : mixin) : bool :=
  match m with
  | MixinTrustZone | MixinTrustZoneMandatory | MixinManifest | MixinManifestCrc | MixinManifestDigest
  | MixinCtrInitVector => true
  | _ => false
  end.
(* COUNT_IN_LEGACY_CERT_BLOCK_LEN *)
Definition legacy_len (m : mixin) : bool :=
  match m with MixinKeyStore | MixinHmac | MixinHmacMandatory => false | _ => true end.

(* the class (the mixin itself or one of its ancestors) that defines a stage method, None = root base only *)
Definition definer (m : mixin) (s : stage) : option mixin :=
  match s, m with
  | SCollect, ExportMixinApp => Some ExportMixinApp
  | SCollect, ExportMixinAppTrustZone => Some ExportMixinAppTrustZone
  | SCollect, ExportMixinAppTrustZoneCertBlock => Some ExportMixinAppTrustZoneCertBlock
  | SCollect, ExportMixinAppCertBlockManifest => Some ExportMixinAppCertBlockManifest
  | SCollect, ExportMixinAppBcaFcf => Some ExportMixinAppBcaFcf
  | SCollect, ExportMixinAppFcf => Some ExportMixinAppFcf
  | SCollect, ExportMixinAppTrustZoneCertBlockEncrypt => Some ExportMixinAppTrustZoneCertBlockEncrypt
  | SDisassemble, ExportMixinApp => Some ExportMixinApp
  | SDisassemble, ExportMixinAppTrustZone => Some ExportMixinAppTrustZone
  | SDisassemble, ExportMixinAppTrustZoneCertBlock => Some ExportMixinAppTrustZoneCertBlock
  | SDisassemble, ExportMixinAppCertBlockManifest => Some ExportMixinAppCertBlockManifest
  | SDisassemble, ExportMixinAppBcaFcf => Some ExportMixinAppBcaFcf
  | SDisassemble, ExportMixinAppFcf => Some ExportMixinAppFcf
  | SDisassemble, ExportMixinAppTrustZoneCertBlockEncrypt => Some ExportMixinAppTrustZoneCertBlockEncrypt
  | SEncrypt, ExportMixinAppTrustZoneCertBlockEncrypt => Some ExportMixinAppTrustZoneCertBlockEncrypt
  | SPostEncrypt, ExportMixinAppTrustZoneCertBlockEncrypt => Some ExportMixinAppTrustZoneCertBlockEncrypt
  | SSign, ExportMixinCrcSign => Some ExportMixinCrcSign
  | SSign, ExportMixinRsaSign => Some ExportMixinRsaSign
  | SSign, ExportMixinEccSign => Some ExportMixinEccSign
  | SSign, ExportMixinCrcSignBca => Some ExportMixinCrcSignBca
  | SSign, ExportMixinEccSignVx => Some ExportMixinEccSignVx
  | SFinalize, ExportMixinAppCertBlockManifest => Some ExportMixinAppCertBlockManifest
  | SFinalize, ExportMixinHmacKeyStoreFinalize => Some ExportMixinHmacKeyStoreFinalize
  | SUpdateIvt, MixinIvt => Some MixinIvt
  | SUpdateIvt, MixinIvtZeroTotalLength => Some MixinIvtZeroTotalLength
  | SCheckTotalLength, MixinIvt => Some MixinIvt
  | SCheckTotalLength, MixinIvtZeroTotalLength => Some MixinIvtZeroTotalLength
  | SCleanIvt, MixinIvt => Some MixinIvt
  | SCleanIvt, MixinIvtZeroTotalLength => Some MixinIvt
  | SDisassemblyAppData, MixinRelocTable => Some MixinRelocTable
  | _, _ => None
  end.
(* Python MRO on type(name, (MasterBootImage, m1, ..., mn)): the first base (in order) that has the method.
   (The root bases Mbi_Mixin / Mbi_ExportMixin come after every listed mixin in the linearisation.) *)
Fixpoint provider_in (l : list mixin) (s : stage) : option mixin :=
  match l with
  | [] => None
  | m :: t => match definer m s with Some d => Some d | None => provider_in t s end
  end.
Definition provider (c : mbi_class) (s : stage) : option mixin := provider_in (c_mixins c) s.

Definition opt_mixin_id (o : option mixin) : Z := match o with Some m => mixin_id m | None => 0 end.

(* families handled by this model: everything except the BCA/FCF-based classes *)
Definition unsupported_mixin (m : mixin) : bool :=
  match m with
  | MixinBcaTable | MixinBcaObsolete | MixinFcfObsolete | MixinCertBlockVx | MixinBca | MixinFcf
  | ExportMixinAppBcaFcf | ExportMixinAppFcf | ExportMixinCrcSignBca | ExportMixinEccSignVx | MixinManifest => true
  | _ => false
  end.
Definition supported (c : mbi_class) : bool := negb (existsb unsupported_mixin (c_mixins c)).

(* trust_zone is an *instance* attribute for the manifest mixins (set by load_from_config / mix_parse) *)
Definition has_manifest (c : mbi_class) : bool := has c MixinManifestCrc || has c MixinManifestDigest.
Definition has_tz (c : mbi_class) : bool := has_attr c ATrustZone || has_manifest c.

(* ------------------------------------------------------------------ relocation table (mbi_classes.py:368-456) *)
Fixpoint table_images (es : list entry) : list N :=
  match es with [] => [] | e :: t => pad4 (e_img e) ++ table_images t end.
Fixpoint table_entries (es : list entry) (src : Z) : res (list N) :=
  match es with
  | [] => Ok []
  | e :: t =>
      bind (u32 src) (fun ws => bind (u32 (e_dst e)) (fun wd => bind (u32 (zlen (e_img e))) (fun wl =>
      bind (u32 (e_flags e)) (fun wf => bind (table_entries t (src + zlen (pad4 (e_img e)))) (fun r =>
      Ok (ws ++ wd ++ wl ++ wf ++ r))))))
  end.
Definition RELOC_MARKER : Z := 1280590412.       (* 0x4C54424C "LBTL" *)
Definition table_export (es : list entry) (start : Z) : res (list N) :=
  match es with
  | [] => Err E_REJECT                           (* "There must be at least one entry for export" *)
  | _ => let imgs := table_images es in
         bind (table_entries es start) (fun ent =>
         bind (u32 (Z.of_nat (length es))) (fun wn => bind (u32 (start + zlen imgs)) (fun wp =>
         bind (u32 RELOC_MARKER) (fun wm => Ok (imgs ++ ent ++ wm ++ le_enc 4 0 ++ wn ++ wp)))))
  end.
Definition table_len (es : list entry) : Z :=
  match table_export es 0 with Ok b => zlen b | Err _ => 0 end.

(* MultipleImageTable.parse(data) (mbi_classes.py): header = last 16 bytes (marker, version, n, pointer to the entry table);
   None when there is no marker, n = 0, or the entry table does not end where the header starts;
   entry k is read at pointer + 16 k: (src, dst, size, flags), image = data[src : src+size] *)
Fixpoint entries_parse (n k : nat) (start : Z) (data : list N) : res (list (entry * Z)) :=
  match n with
  | O => Ok []
  | S n' =>
      let off := (natz start + 16 * k)%nat in
      let e := sub data off (off + 16) in
      let src := rd32 0 e in let dst := rd32 4 e in let size := rd32 8 e in let fl := rd32 12 e in
      if start <? src + size then Err E_REJECT
      else if negb (fl =? G_LTI_LOAD) then Err E_REJECT
      else bind (entries_parse n' (S k) start data) (fun r =>
           Ok (({| e_img := sub data (natz src) (natz (src + size)); e_dst := dst; e_flags := fl |}, src) :: r))
  end.
Definition table_parse (data : list N) : res (option (list entry * Z)) :=
  if Nat.ltb (length data) 16 then Err E_CRASH
  else let h := take_last 16 data in
       if negb ((rd32 0 h =? RELOC_MARKER) && (rd32 4 h =? 0)) then Ok None
       else let n := rd32 8 h in let start := rd32 12 h in
            if (n =? 0) || negb (start + n * 16 + 16 =? zlen data) then Ok None
            else bind (entries_parse (natz n) 0 start data) (fun es =>
                 match es with
                 | [] => Ok None
                 | (_, src0) :: _ => Ok (Some (map fst es, src0))    (* start_address := entries[0].src_addr *)
                 end).
(* ------------------------------------------------------------------ lengths (mbi.py:299-331) *)
Definition hash_size (alg : Z) : Z := if alg =? 1 then 32 else if alg =? 2 then 48 else if alg =? 3 then 64 else 0.
Definition manifest_flags (dg : Z) : Z := if dg =? 0 then 0 else Z.lor G_MANIFEST_DIGEST_PRESENT_FLAG dg.
Definition opt_len (o : option (list N)) : Z := match o with Some b => zlen b | None => 0 end.
Definition mix_len (x : mbi) (m : mixin) : Z :=
  match m with
  | MixinApp => zlen (m_app x)
  | MixinTrustZone | MixinTrustZoneMandatory => zlen (tz_export (m_tz x))
  | MixinRelocTable => match m_table x with Some es => table_len es | None => 0 end
  | MixinManifestCrc => 20 + zlen (tz_export (m_tz x)) + 4
  | MixinManifestDigest =>
      20 + zlen (tz_export (m_tz x)) +
      (if Z.land (manifest_flags (m_digest x)) G_MANIFEST_DIGEST_PRESENT_FLAG =? 0 then 0 else hash_size (m_digest x))
  | MixinCertBlockV1 => match m_cert x with Some c => Z.of_nat (cert_size c) | None => 0 end
  | MixinCertBlockV21 => match m_cert x with Some c => Z.of_nat (cert_size c) + Z.of_nat (cert_sig c) | None => 0 end
  | MixinKeyStore => opt_len (m_ks x)
  | MixinHmac | MixinHmacMandatory => match m_hmac x with Some _ => Z.of_nat HMAC_SZ | None => 0 end
  | _ => 0
  end.
Definition mix_app_len (x : mbi) (m : mixin) : Z :=
  match m with
  | MixinApp => zlen (m_app x)
  | MixinRelocTable => match m_table x with Some es => table_len es | None => 0 end
  | _ => 0
  end.
Definition sumz (l : list Z) : Z := fold_right Z.add 0 l.
Definition total_len (c : mbi_class) (x : mbi) : Z := sumz (map (mix_len x) (c_mixins c)).
Definition app_len (c : mbi_class) (x : mbi) : Z := sumz (map (mix_app_len x) (c_mixins c)).
Definition total_len_for_cert (c : mbi_class) (x : mbi) : Z :=
  sumz (map (fun m => if legacy_len m then mix_len x m else 0) (c_mixins c)).

(* ------------------------------------------------------------------ IVT (mbi_mixin.py:492-840) *)
Definition truthy_ks (o : option (list N)) : bool := match o with Some (_ :: _) => true | _ => false end.
Definition create_flags (c : mbi_class) (x : mbi) : Z :=
  let f0 := c_type c in
  let f1 := if has_tz c then Z.lor f0 (Z.shiftl (tz_tag (m_tz x)) G_IVT_IMAGE_FLAGS_TZ_TYPE_SHIFT) else f0 in
  let f2 := if has_attr c AImageSubtype then Z.lor f1 (Z.shiftl (m_subtype x) G_IVT_IMAGE_FLAGS_SUB_TYPE_SHIFT) else f1 in
  let f3 := if has_attr c AHwKey && m_hwkey x then Z.lor f2 G_HW_USER_KEY_EN_FLAG else f2 in
  let f4 := if has_attr c AKeyStore && truthy_ks (m_ks x) then Z.lor f3 G_KEY_STORE_FLAG else f3 in
  let f5 := if has_attr c AAppTable && (match m_table x with Some _ => true | None => false end)
            then Z.lor f4 G_RELOC_TABLE_FLAG else f4 in
  if has_attr c AImageVersion && negb (m_imgver x =? 0)
  then Z.lor (Z.lor f5 G_BOOT_IMAGE_VERSION_FLAG) (Z.shiftl (m_imgver x) 16) else f5.

Definition update_ivt (c : mbi_class) (x : mbi) (app : list N) (total crc_cert : Z) : res (list N) :=
  let total' := match provider c SUpdateIvt with Some MixinIvtZeroTotalLength => 0 | _ => total end in
  bind (u32 (create_flags c x)) (fun wf =>
  bind (u32 total') (fun wt =>
  bind (u32 (if c_type c =? 0 then 0 else crc_cert)) (fun wc =>
  bind (u32 (if has_attr c ALoadAddress then m_load x else 0)) (fun wl =>
  Ok (wr OFF_LOAD wl (wr OFF_CRC wc (wr OFF_LEN wt (wr OFF_FLAGS wf app)))))))).

Definition clean_ivt (app : list N) : list N :=
  wr OFF_LOAD (zeros 4) (wr OFF_CRC (zeros 4) (wr OFF_FLAGS (zeros 4) (wr OFF_LEN (zeros 4) app))).

(* check_total_length of the class *)
Definition check_total_length (c : mbi_class) (data : list N) : res unit :=
  match provider c SCheckTotalLength with
  | Some MixinIvtZeroTotalLength =>
      let t := rd32 OFF_LEN data in
      if negb (t =? 0) && (zlen data <? t) then Err E_REJECT else Ok tt
  | _ =>
      if Nat.ltb (length data) MIN_APP then Err E_REJECT
      else if zlen data <? rd32 OFF_LEN data then Err E_REJECT else Ok tt
  end.
Definition get_flags (data : list N) : Z := rd32 OFF_FLAGS data.
Definition get_cert_block_offset (c : mbi_class) (data : list N) : res Z :=
  bind (check_total_length c data) (fun _ => Ok (rd32 OFF_CRC data)).
Definition flag_set (data : list N) (f : Z) : bool := negb (Z.land (get_flags data) f =? 0).
(* Mbi_MixinRelocTable.disassembly_app_data: a table is looked for only when the image flags announce it *)
Definition disassembly_app_data (c : mbi_class) (data : list N) : res (list N * option (list entry)) :=
  if has_attr c AIvtTable && negb (flag_set data G_RELOC_TABLE_FLAG) then Ok (data, None)
  else bind (table_parse data) (fun r =>
       match r with
       | None => Ok (data, None)
       | Some (es, start) => Ok (firstn (natz start) data, Some es)
       end).

(* ------------------------------------------------------------------ validate (mix_validate of every mixin) *)
Definition mix_validate (c : mbi_class) (x : mbi) (m : mixin) : res unit :=
  match m with
  | MixinApp =>
      if Nat.ltb (length (m_app x)) MIN_APP then Err E_REJECT
      else let sp := rd32 0 (m_app x) in let pc := rd32 4 (m_app x) in let w3 := rd32 8 (m_app x) in
           if (sp =? pc) && (pc =? w3) then Err E_REJECT else Ok tt
  | MixinTrustZoneMandatory | MixinManifestCrc | MixinManifestDigest =>
      if tz_is_disabled (m_tz x) then Err E_REJECT else Ok tt
  | MixinRelocTable => match m_table x with Some [] => Err E_REJECT | _ => Ok tt end
  | MixinCertBlockV1 => match m_cert x with Some (CertV1 _ _ _) => Ok tt | _ => Err E_REJECT end
  | MixinCertBlockV21 => match m_cert x with Some _ => Ok tt | None => Err E_REJECT end
  | MixinKeyStore => match m_ks x, m_hmac x with
                     | Some _, None => Err E_REJECT
                     | Some _, Some [] => Err E_REJECT
                     | _, _ => Ok tt end
  | MixinHmac => match m_hmac x with
                 | Some (b :: k) => if Nat.eqb (length (b :: k)) (natz G_HMAC_KEY_LENGTH) then Ok tt else Err E_REJECT
                 | _ => Ok tt end
  | MixinHmacMandatory => match m_hmac x with
                          | Some (b :: k) => if Nat.eqb (length (b :: k)) (natz G_HMAC_KEY_LENGTH) then Ok tt else Err E_REJECT
                          | _ => Err E_REJECT end
  | MixinCtrInitVector => if Nat.eqb (length (m_iv x)) IV_SZ then Ok tt else Err E_REJECT
  | _ => Ok tt
  end.
Fixpoint validate_in (c : mbi_class) (x : mbi) (l : list mixin) : res unit :=
  match l with
  | [] => Ok tt
  | m :: t => bind (mix_validate c x m) (fun _ => validate_in c x t)
  end.
Definition validate (c : mbi_class) (x : mbi) : res unit := validate_in c x (c_mixins c).

(* ------------------------------------------------------------------ export stages; an image is a list of sub-images *)
Definition image := list (list N).
Definition flat (im : image) : list N := concat im.

Definition reloc_segment (c : mbi_class) (x : mbi) (start : Z) : res image :=
  if has_attr c AAppTable
  then match m_table x with
       | Some es => bind (table_export es start) (fun b => Ok [b])
       | None => Ok []
       end
  else Ok [].
Definition tz_segment (x : mbi) : image := match tz_export (m_tz x) with [] => [] | d => [d] end.

(* manifest bytes: "<4s4L" magic, format version, firmware version, total length, flags ++ tz [++ crc] *)
Definition manifest_export (c : mbi_class) (x : mbi) (crc : Z) : res (list N) :=
  let tzb := tz_export (m_tz x) in
  let is_crc := has c MixinManifestCrc in
  let total := 20 + zlen tzb + (if is_crc then 4 else 0) in
  let flags := if is_crc then 0 else manifest_flags (m_digest x) in
  bind (u32 G_MANIFEST_MAGIC) (fun w0 => bind (u32 G_MANIFEST_FORMAT_VERSION) (fun w1 =>
  bind (u32 (m_fwver x)) (fun w2 => bind (u32 total) (fun w3 => bind (u32 flags) (fun w4 =>
  bind (if is_crc then u32 crc else Ok []) (fun w5 => Ok (w0 ++ w1 ++ w2 ++ w3 ++ w4 ++ tzb ++ w5))))))).

(* collect_data of the manifest classes refuses a digest algorithm that differs from the hash belonging to the signing key
   (get_hash_type_from_signature_size: 64 -> sha256, 96 -> sha384, 132 -> sha512, other sizes -> SPSDKValueError) *)
Definition digest_guard (c : mbi_class) (x : mbi) (cb : cert) : res unit :=
  if has c MixinManifestDigest && negb (m_digest x =? 0)
  then let sg := Z.of_nat (cert_sig cb) in
       let alg := if sg =? 64 then 1 else if sg =? 96 then 2 else if sg =? 132 then 3 else 0 in
       if (alg =? 0) || negb (alg =? m_digest x) then Err E_REJECT else Ok tt
  else Ok tt.

Definition collect_app (c : mbi_class) (x : mbi) : res image :=
  match m_app x with
  | [] => Err E_REJECT
  | _ =>
      bind (if has_attr c AIvtTable then update_ivt c x (m_app x) (total_len c x) 0 else Ok (m_app x)) (fun binary =>
      bind (reloc_segment c x (zlen binary)) (fun rs => Ok ([binary] ++ rs)))
  end.

Definition collect (c : mbi_class) (x : mbi) : res image :=
  match provider c SCollect with
  | Some ExportMixinApp => collect_app c x
  | Some ExportMixinAppTrustZone => bind (collect_app c x) (fun im => Ok (im ++ tz_segment x))
  | Some ExportMixinAppTrustZoneCertBlock =>
      match m_app x, m_cert x with
      | _ :: _, Some (CertV1 pre post sg) =>
          bind (cert_export (CertV1 pre post sg) (total_len_for_cert c x)) (fun cb =>
          bind (update_ivt c x (m_app x) (total_len c x + Z.of_nat sg) (app_len c x)) (fun app =>
          bind (reloc_segment c x (zlen app)) (fun rs =>
          Ok ([app] ++ rs ++ [cb] ++ tz_segment x))))
      | _, _ => Err E_REJECT
      end
  | Some ExportMixinAppCertBlockManifest =>
      match m_app x, m_cert x with
      | _ :: _, Some cb =>
          bind (digest_guard c x cb) (fun _ =>
          bind (update_ivt c x (m_app x) (total_len c x) (app_len c x)) (fun app =>
          bind (cert_export cb 1) (fun cbb =>
          bind (manifest_export c x 0) (fun mf0 =>
          if has c MixinManifestCrc
          then let pre := app ++ cbb ++ mf0 in
               bind (manifest_export c x (Z.of_N (mbi_crc32_mpeg (drop_last 4 pre)))) (fun mf => Ok [app; cbb; mf])
          else Ok [app; cbb; mf0]))))
      | _, _ => Err E_REJECT
      end
  | Some ExportMixinAppTrustZoneCertBlockEncrypt =>
      match m_app x, m_cert x with
      | _ :: _, Some (CertV1 pre post sg) =>
          bind (update_ivt c x (m_app x) (total_len c x + Z.of_nat sg + 56 + 16) (app_len c x)) (fun app =>
          bind (reloc_segment c x (zlen app)) (fun rs => Ok ([app] ++ rs ++ tz_segment x)))
      | _, _ => Err E_REJECT
      end
  | _ => Err E_UNSUPPORTED
  end.

Definition ks_truthy_obj (o : option (list N)) : bool := match o with Some _ => true | None => false end.
Definition enc_derive (x : mbi) : bool := negb (ks_truthy_obj (m_ks x)).

Definition encrypt (k : crypto) (c : mbi_class) (x : mbi) (im : image) : res image :=
  match provider c SEncrypt with
  | Some ExportMixinAppTrustZoneCertBlockEncrypt =>
      match m_hmac x, m_iv x with
      | Some (kb :: kt), _ :: _ => Ok [k_ctr k (kb :: kt) (enc_derive x) (m_iv x) (flat im)]
      | _, _ => Err E_REJECT
      end
  | _ => Ok im
  end.

Definition post_encrypt (c : mbi_class) (x : mbi) (im : image) : res image :=
  match provider c SPostEncrypt with
  | Some ExportMixinAppTrustZoneCertBlockEncrypt =>
      match m_cert x with
      | Some (CertV1 pre post sg) =>
          let bytes_ := flat im in
          let alen := natz (app_len c x) in
          let cb0 := CertV1 pre post sg in
          bind (update_ivt c x (firstn HMAC_OFF bytes_) (total_len c x + Z.of_nat sg + 56 + 16) (app_len c x)) (fun enc_ivt =>
          bind (cert_export cb0 (zlen bytes_ + Z.of_nat (cert_size cb0) + 56 + zlen (m_iv x))) (fun cb =>
          Ok ([enc_ivt; sub bytes_ HMAC_OFF alen; cb; firstn 56 bytes_; m_iv x]
              ++ (match tz_export (m_tz x) with [] => [] | _ => [skipn alen bytes_] end))))
      | _ => Err E_REJECT
      end
  | _ => Ok im
  end.

(* get_image_by_absolute_address(0x28) over the sub-images, then write the CRC word into that sub-image *)
Fixpoint crc_write (im : image) (off : nat) (w : list N) : option image :=
  match im with
  | [] => None
  | s :: t => if Nat.leb off OFF_CRC && Nat.leb OFF_CRC (off + length s)
              then Some (wr (OFF_CRC - off) w s :: t)
              else match crc_write t (off + length s) w with Some t' => Some (s :: t') | None => None end
  end.

(* sign: returns the image and the bytes handed to the signature provider (data_to_sign) *)
Definition sign (k : crypto) (c : mbi_class) (x : mbi) (im : image) : res (image * list N) :=
  match provider c SSign with
  | Some ExportMixinCrcSign =>
      let input := flat im in
      let crc := mbi_crc32_from (mbi_crc32_mpeg (firstn OFF_CRC input)) (skipn (OFF_CRC + 4) input) in
      match crc_write im 0 (le_enc 4 crc) with
      | Some im' => Ok (im', [])
      | None => Err E_REJECT
      end
  | Some ExportMixinRsaSign => Ok (im ++ [k_sign k (flat im)], flat im)
  | Some ExportMixinEccSign => Ok (im ++ [k_sign k (flat im)], flat im)
  | Some _ => Err E_UNSUPPORTED
  | None => Ok (im, [])
  end.

(* Mbi_ExportMixinHmacKeyStoreFinalize.finalize over the sub-images (offsets are the ones before the insertion) *)
Definition hmac_block (x : mbi) (hm : list N) : image :=
  [hm] ++ (match m_ks x with Some ksb => [ksb] | None => [] end).
Fixpoint offsets_from (im : image) (off : nat) : list nat :=
  match im with [] => [] | s :: t => off :: offsets_from t (off + length s) end.
Fixpoint hmac_insert_between (x : mbi) (hm : list N) (im : image) (off : nat) (inserted : bool) : image :=
  match im with
  | [] => []
  | s :: t => let here := Nat.eqb off HMAC_OFF && negb inserted in
              (if here then hmac_block x hm else []) ++ [s] ++ hmac_insert_between x hm t (off + length s) (inserted || here)
  end.
Fixpoint hmac_insert_split (x : mbi) (hm : list N) (im : image) (off : nat) : image :=
  match im with
  | [] => []
  | s :: t =>
      (if Nat.leb off HMAC_OFF && Nat.ltb HMAC_OFF (off + length s)
       then [firstn (HMAC_OFF - off) s] ++ hmac_block x hm ++ [skipn (HMAC_OFF - off) s]
       else [s]) ++ hmac_insert_split x hm t (off + length s)
  end.

Definition finalize (k : crypto) (c : mbi_class) (x : mbi) (im : image) (dts : list N) : res image :=
  match provider c SFinalize with
  | Some ExportMixinHmacKeyStoreFinalize =>
      let raw := flat im in
      if app_len c x <? Z.of_nat HMAC_OFF then Err E_REJECT    (* "The application must have at least 64 bytes ..." *)
      else
      let hm := match m_hmac x with Some (kb :: kt) => k_hmac k (kb :: kt) (firstn HMAC_OFF raw) | _ => [] end in
      if existsb (Nat.eqb HMAC_OFF) (offsets_from im 0)
      then Ok (hmac_insert_between x hm im 0 false)
      else Ok (hmac_insert_split x hm im 0)
  | Some ExportMixinAppCertBlockManifest =>
      (* manifest and manifest.flags and DIGEST_PRESENT_FLAG (a non-zero constant) and digest_hash_algo is not None *)
      if has c MixinManifestDigest && negb (manifest_flags (m_digest x) =? 0) && negb (m_digest x =? 0)
      then match provider c SSign with
           | Some ExportMixinEccSign => Ok (im ++ [k_hash k (m_digest x) dts])
           | _ => Err E_CRASH                     (* data_to_sign was never set *)
           end
      else Ok im
  | Some _ => Err E_UNSUPPORTED
  | None => Ok im
  end.

Definition export_image (k : crypto) (c : mbi_class) (x : mbi) : res image :=
  if negb (supported c) then Err E_UNSUPPORTED else
  bind (validate c x) (fun _ =>
  bind (collect c x) (fun raw =>
  bind (encrypt k c x raw) (fun enc =>
  bind (post_encrypt c x enc) (fun enc2 =>
  bind (sign k c x enc2) (fun sg =>
  finalize k c x (fst sg) (snd sg)))))).
Definition export_mbi (k : crypto) (c : mbi_class) (x : mbi) : res (list N) :=
  res_map flat (export_image k c x).

(* ------------------------------------------------------------------ parse: mix_parse of every mixin *)
(* CertBlockV1.parse(data): header "cert", header length 32, cert table length; X.509 content is not inspected.
   CertBlockV21.parse(data): header "chdr", cert_block_size at offset 8. *)
Definition CERT_MAGIC : Z := 1953654115.       (* b"cert" *)
Definition CHDR_MAGIC : Z := 1919182947.       (* b"chdr" *)
Definition cert_v1_parse (sigsz : nat) (d : list N) : res cert :=
  if Nat.ltb (length d) 32 then Err E_REJECT
  else if negb (rd32 0 d =? CERT_MAGIC) then Err E_REJECT
  else if negb (rd32 8 d =? 32) then Err E_REJECT
  else let ctl := rd32 28 d in
       if zlen d <? ctl + 128 then Err E_REJECT
       else let raw := 32 + ctl + 128 in
            let size := natz (raw + (4 - raw mod 4) mod 4) in
            Ok (CertV1 (firstn 20 d) (sub d 24 size) sigsz).
Definition cert_v21_parse (sigsz : nat) (d : list N) : res cert :=
  if Nat.ltb (length d) 12 then Err E_REJECT
  else if negb (rd32 0 d =? CHDR_MAGIC) then Err E_REJECT
  else Ok (CertV21 (firstn (natz (rd32 8 d)) d) sigsz).

Definition hmac_ks_shift (c : mbi_class) (data : list N) : Z :=
  if has_attr c AHmacKey
  then Z.of_nat HMAC_SZ + (if flag_set data G_KEY_STORE_FLAG then Z.of_nat KS_SZ else 0)
  else 0.

(* manifest parse (mbi_classes.py:68-120,173-261): returns firmware version, trust zone option, digest algo *)
Definition manifest_parse (c : mbi_class) (tzsize : nat) (d : list N) : res (Z * option tz * Z) :=
  if Nat.ltb (length d) 20 then Err E_CRASH          (* struct.error *)
  else if negb (rd32 0 d =? G_MANIFEST_MAGIC) then Err E_REJECT
  else if negb (rd32 4 d =? G_MANIFEST_FORMAT_VERSION) then Err E_REJECT
  else let total := rd32 12 d in let flags := rd32 16 d in
       if zlen d <=? total then Err E_REJECT
       else let extra := sub d 20 (natz total) in
            if has c MixinManifestCrc
            then if Nat.ltb (length extra) 4 then Err E_REJECT
                 else match drop_last 4 extra with
                      | [] => Ok (rd32 8 d, None, 0)
                      | tzb => bind (tz_from_binary tzsize tzb) (fun t => Ok (rd32 8 d, Some t, 0))
                      end
            else let alg := if Z.land flags G_MANIFEST_DIGEST_PRESENT_FLAG =? 0 then Ok 0
                            else let a := Z.land flags G_MANIFEST_HASH_TYPE_MASK in
                                 if a <=? 3 then Ok a else Err E_CRASH (* KeyError *) in
                 bind alg (fun a =>
                 match extra with
                 | [] => Ok (rd32 8 d, None, a)
                 | _ => bind (tz_from_binary tzsize extra) (fun t => Ok (rd32 8 d, Some t, a))
                 end).

Definition mix_parse (c : mbi_class) (tzsize sigsz : nat) (dek : option (list N)) (data : list N)
                     (m : mixin) (st : mbi) : res mbi :=
  match m with
  | MixinTrustZone | MixinTrustZoneMandatory =>
      let t := Z.land (Z.shiftr (get_flags data) G_IVT_IMAGE_FLAGS_TZ_TYPE_SHIFT) G_IVT_IMAGE_FLAGS_TZ_TYPE_MASK in
      if t =? G_TZ_CUSTOM then
        if has_attr c ACertBlock
        then match m_cert st with
             | None => Err E_CRASH                (* assert isinstance(self.cert_block, ...) *)
             | Some cb =>
                 bind (get_cert_block_offset c data) (fun off =>
                 let o := natz (off + Z.of_nat (cert_size cb) + hmac_ks_shift c data) in
                 bind (tz_from_binary tzsize (sub data o (o + tzsize))) (fun t' => Ok (set_tz st t')))
             end
        else bind (tz_from_binary tzsize (match tzsize with O => data | _ => take_last tzsize data end))
                  (fun t' => Ok (set_tz st t'))
      else if t =? G_TZ_ENABLED then Ok (set_tz st TzEnabled)
      else if t =? G_TZ_DISABLED then Ok (set_tz st TzDisabled)
      else Err E_REJECT
  | MixinLoadAddress | MixinLoadAddressOptional => Ok (set_load st (rd32 OFF_LOAD data))
  | MixinImageVersion =>
      Ok (set_imgver st (if flag_set data G_BOOT_IMAGE_VERSION_FLAG
                         then Z.land (Z.shiftr (get_flags data) G_IVT_IMAGE_FLAGS_IMG_VER_SHIFT) G_IVT_IMAGE_FLAGS_IMG_VER_MASK
                         else 0))
  | MixinImageSubType =>
      Ok (set_subtype st (Z.land (Z.shiftr (get_flags data) G_IVT_IMAGE_FLAGS_SUB_TYPE_SHIFT) G_IVT_IMAGE_FLAGS_SUB_TYPE_MASK))
  | MixinHwKey => Ok (set_hwkey st (flag_set data G_HW_USER_KEY_EN_FLAG))
  | MixinManifestCrc | MixinManifestDigest =>
      match m_cert st with
      | Some (CertV21 b sg) =>
          bind (get_cert_block_offset c data) (fun off =>
          bind (manifest_parse c tzsize (skipn (natz (off + zlen b)) data)) (fun r =>
          let '(fw, t, a) := r in
          Ok (set_manifest st fw (match t with Some t' => t' | None => TzEnabled end) a)))
      | _ => Err E_CRASH                           (* assert isinstance(self.cert_block, CertBlockV21) *)
      end
  | MixinCertBlockV1 =>
      bind (get_cert_block_offset c data) (fun off =>
      bind (cert_v1_parse sigsz (skipn (natz (off + hmac_ks_shift c data)) data)) (fun cb => Ok (set_cert st (Some cb))))
  | MixinCertBlockV21 =>
      bind (get_cert_block_offset c data) (fun off =>
      bind (cert_v21_parse sigsz (skipn (natz off) data)) (fun cb => Ok (set_cert st (Some cb))))
  | MixinKeyStore =>
      if flag_set data G_KEY_STORE_FLAG
      then let ksb := sub data (HMAC_OFF + HMAC_SZ) (HMAC_OFF + HMAC_SZ + KS_SZ) in
           match ksb with
           | [] => Ok (set_ks st (Some []))
           | _ => if Nat.eqb (length ksb) KS_SZ then Ok (set_ks st (Some ksb)) else Err E_REJECT
           end
      else Ok (set_ks st None)
  | MixinHmac | MixinHmacMandatory =>
      match dek with
      | Some kb => Ok (set_hmac st (Some kb))
      | None => Ok st
      end
  | MixinCtrInitVector =>
      match m_cert st with
      | Some (CertV1 pre post sg) =>
          bind (get_cert_block_offset c data) (fun off =>
          let o := natz (off + Z.of_nat (cert_size (CertV1 pre post sg)) + 56 + hmac_ks_shift c data) in
          Ok (set_iv st (sub data o (o + IV_SZ))))
      | _ => Err E_CRASH
      end
  | _ => Ok st
  end.

(* one round of the loop in MasterBootImage.parse: a mixin whose PRE_PARSED member (cert_block) is still None is queued
   for the next round and NOT parsed now; a round that parses nothing ends with SPSDKParsingError *)
Fixpoint parse_round (c : mbi_class) (tzsize sigsz : nat) (dek : option (list N)) (data : list N)
                     (l : list mixin) (st : mbi) : res (mbi * list mixin) :=
  match l with
  | [] => Ok (st, [])
  | m :: t =>
      let waits := pre_parsed_cert m && has_attr c ACertBlock && (match m_cert st with None => true | Some _ => false end) in
      if waits then bind (parse_round c tzsize sigsz dek data t st) (fun r => Ok (fst r, m :: snd r))
      else bind (mix_parse c tzsize sigsz dek data m st) (fun st' => parse_round c tzsize sigsz dek data t st')
  end.
Fixpoint parse_rounds (fuel : nat) (c : mbi_class) (tzsize sigsz : nat) (dek : option (list N)) (data : list N)
                      (l : list mixin) (st : mbi) : res mbi :=
  match l with
  | [] => Ok st
  | _ => match fuel with
         | O => Err E_HANG
         | S f => bind (parse_round c tzsize sigsz dek data l st) (fun r =>
                  if Nat.eqb (length (snd r)) (length l) then Err E_REJECT
                  else parse_rounds f c tzsize sigsz dek data (snd r) (fst r))
         end
  end.

(* ------------------------------------------------------------------ parse: reverted stages + disassemble *)
Definition finalize_revert (c : mbi_class) (st : mbi) (d : list N) : res (list N) :=
  match provider c SFinalize with
  | Some ExportMixinHmacKeyStoreFinalize =>
      let e := (HMAC_OFF + HMAC_SZ + (if flag_set d G_KEY_STORE_FLAG then KS_SZ else 0))%nat in
      Ok (firstn HMAC_OFF d ++ skipn e d)
  | Some ExportMixinAppCertBlockManifest =>
      if has c MixinManifestDigest && negb (manifest_flags (m_digest st) =? 0) && negb (m_digest st =? 0)
      then Ok (drop_last (natz (hash_size (m_digest st))) d) else Ok d
  | Some _ => Err E_UNSUPPORTED
  | None => Ok d
  end.
Definition sign_revert (c : mbi_class) (st : mbi) (d : list N) : res (list N) :=
  match provider c SSign with
  | Some ExportMixinRsaSign =>
      match m_cert st, d with
      | Some (CertV1 _ _ sg), _ :: _ => Ok (match sg with O => [] | _ => drop_last sg d end)
      | _, _ => Err E_REJECT
      end
  | Some ExportMixinEccSign =>
      match m_cert st, d with
      | Some (CertV21 _ sg), _ :: _ => Ok (match sg with O => [] | _ => drop_last sg d end)
      | _, _ => Err E_REJECT
      end
  | Some ExportMixinCrcSign => Ok d
  | Some _ => Err E_UNSUPPORTED
  | None => Ok d
  end.
Definition post_encrypt_revert (c : mbi_class) (st : mbi) (d : list N) : res (list N) :=
  match provider c SPostEncrypt with
  | Some ExportMixinAppTrustZoneCertBlockEncrypt =>
      match m_cert st with
      | Some (CertV1 pre post sg) =>
          let off := natz (rd32 OFF_CRC d) in
          let sz := cert_size (CertV1 pre post sg) in
          Ok (sub d (off + sz) (off + sz + 56) ++ sub d 56 off ++ skipn (off + sz + 56 + 16) d)
      | _ => Err E_REJECT
      end
  | _ => Ok d
  end.
Definition encrypt_revert (k : crypto) (c : mbi_class) (st : mbi) (d : list N) : res (list N) :=
  match provider c SEncrypt with
  | Some ExportMixinAppTrustZoneCertBlockEncrypt =>
      match m_hmac st, m_iv st with
      | Some (kb :: kt), _ :: _ => Ok (k_ctr k (kb :: kt) (enc_derive st) (m_iv st) d)
      | _, _ => Ok d                               (* "Cannot parse the encrypted image without decrypting key!" *)
      end
  | _ => Ok d
  end.

Definition reloc_cut (c : mbi_class) (st : mbi) (d : list N) : res (mbi * list N) :=
  match provider c SDisassemblyAppData with
  | Some _ => bind (disassembly_app_data c d) (fun r => Ok (set_table st (snd r), fst r))
  | None => Ok (st, d)
  end.
Definition finish_app (c : mbi_class) (st : mbi) (d : list N) : mbi :=
  set_app st (pad4 (match provider c SCleanIvt with Some _ => clean_ivt d | None => d end)).
Definition cut_tz (st : mbi) (d : list N) : list N :=
  match tz_export (m_tz st) with [] => d | t => drop_last (length t) d end.

Definition disassemble (c : mbi_class) (tzsize : nat) (st : mbi) (d : list N) : res mbi :=
  match provider c SDisassemble with
  | Some ExportMixinApp =>
      bind (reloc_cut c st d) (fun r => Ok (finish_app c (fst r) (snd r)))
  | Some ExportMixinAppTrustZone =>
      bind (reloc_cut c st (cut_tz st d)) (fun r => Ok (finish_app c (fst r) (snd r)))
  | Some ExportMixinAppTrustZoneCertBlock =>
      bind (reloc_cut c st (firstn (natz (rd32 OFF_CRC d)) d)) (fun r => Ok (set_app (fst r) (pad4 (clean_ivt (snd r)))))
  | Some ExportMixinAppCertBlockManifest =>
      let d1 := match m_cert st with Some _ => firstn (natz (rd32 OFF_CRC d)) d | None => d end in
      bind (reloc_cut c st d1) (fun r => Ok (set_app (fst r) (pad4 (clean_ivt (snd r)))))
  | Some ExportMixinAppTrustZoneCertBlockEncrypt =>
      bind (if tz_is_custom (m_tz st)
            then bind (tz_from_binary tzsize (match tzsize with O => d | _ => take_last tzsize d end))
                      (fun t => Ok (set_tz st t))
            else Ok st) (fun st1 =>
      bind (reloc_cut c st1 (cut_tz st1 d)) (fun r => Ok (set_app (fst r) (pad4 (clean_ivt (snd r))))))
  | Some _ => Err E_UNSUPPORTED
  | None => Ok st
  end.

Definition parse_mbi (k : crypto) (c : mbi_class) (tzsize sigsz : nat) (dek : option (list N)) (data : list N) : res mbi :=
  if negb (supported c) then Err E_UNSUPPORTED else
  bind (parse_rounds (S (length (c_mixins c))) c tzsize sigsz dek data (c_mixins c) mbi_default) (fun st =>
  bind (finalize_revert c st data) (fun d1 =>
  bind (sign_revert c st d1) (fun d2 =>
  bind (post_encrypt_revert c st d2) (fun d3 =>
  bind (encrypt_revert k c st d3) (fun d4 =>
  disassemble c tzsize st d4))))).

(* ------------------------------------------------------------------ class selection at parse time (mbi.py:408-428) *)
Definition nth_comp (i : Z) : option mbi_class := nth_error gen_compositions (natz i).
Definition image_type_of_data (fixed : Z) (data : list N) : Z :=
  if fixed <? 0 then Z.land (get_flags data) G_IVT_IMAGE_FLAGS_IMAGE_TYPE_MASK else fixed.
Fixpoint select_offer (offers : list (Z * (Z * Z))) (ty : Z) : option (Z * (Z * Z)) :=
  match offers with
  | [] => None
  | o :: t => match nth_comp (snd (snd o)) with
              | Some c => if c_type c =? ty then Some o else select_offer t ty
              | None => select_offer t ty
              end
  end.
Definition select_class (fam : Z * (Z * list (Z * (Z * Z)))) (data : list N) : option (Z * (Z * Z)) :=
  select_offer (snd (snd fam)) (image_type_of_data (fst (snd fam)) data).

(* ------------------------------------------------------------------ structural well-formedness against the generated data *)
Definition list_eqb {A} (eqb : A -> A -> bool) :=
  fix go (a b : list A) : bool :=
    match a, b with
    | [], [] => true
    | x :: a', y :: b' => eqb x y && go a' b'
    | _, _ => false
    end.
Definition sort_attrs (l : list attr) : list Z :=
  filter (fun i => existsb (fun a => attr_id a =? i) l) (map attr_id all_attrs).

(* the hand tables of this file agree with what the source says about every mixin class *)
Definition mixin_info_ok (r : mixin * (list attr * (bool * (bool * list Z)))) : bool :=
  let '(m, (attrs, (pre, (leg, owners)))) := r in
  list_eqb Z.eqb (sort_attrs attrs) (sort_attrs (mixin_attrs m)) &&
  Bool.eqb pre (pre_parsed_cert m) && Bool.eqb leg (legacy_len m) &&
  list_eqb Z.eqb owners (map (fun s => opt_mixin_id (definer m s)) all_stages).
Definition mixin_table_ok : bool :=
  forallb mixin_info_ok gen_mixin_info &&
  list_eqb Z.eqb (map (fun r => mixin_id (fst r)) gen_mixin_info) (map mixin_id all_mixins).

(* the composition mechanism: [provider] = Python's MRO on the created class, [has_attr] = hasattr on the class *)
Definition comp_resolution_ok (c : mbi_class) (resolved : list Z) (attrs : list attr) : bool :=
  list_eqb Z.eqb resolved (map (fun s => opt_mixin_id (provider c s)) all_stages) &&
  list_eqb Z.eqb (sort_attrs attrs) (sort_attrs (filter (has_attr c) all_attrs)).
Fixpoint zip3_forall {A B C} (f : A -> B -> C -> bool) (a : list A) (b : list B) (c : list C) : bool :=
  match a, b, c with
  | [], [], [] => true
  | x :: a', y :: b', z :: c' => f x y z && zip3_forall f a' b' c'
  | _, _, _ => false
  end.
Definition resolution_ok : bool := zip3_forall comp_resolution_ok gen_compositions gen_resolved gen_hasattr.

Definition consts_ok : bool :=
  (G_IVT_IMAGE_LENGTH_OFFSET =? 32) && (G_IVT_IMAGE_FLAGS_OFFSET =? 36) && (G_IVT_CRC_CERTIFICATE_OFFSET =? 40) &&
  (G_IVT_LOAD_ADDR_OFFSET =? 52) && (G_IVT_IMAGE_FLAGS_IMAGE_TYPE_MASK =? 63) && (G_IVT_IMAGE_FLAGS_TZ_TYPE_MASK =? 3) &&
  (G_IVT_IMAGE_FLAGS_TZ_TYPE_SHIFT =? 13) && (G_IVT_IMAGE_FLAGS_IMG_VER_MASK =? 65535) &&
  (G_IVT_IMAGE_FLAGS_IMG_VER_SHIFT =? 16) && (G_IVT_IMAGE_FLAGS_SUB_TYPE_MASK =? 3) &&
  (G_IVT_IMAGE_FLAGS_SUB_TYPE_SHIFT =? 6) && (G_BOOT_IMAGE_VERSION_FLAG =? 1024) && (G_RELOC_TABLE_FLAG =? 2048) &&
  (G_HW_USER_KEY_EN_FLAG =? 4096) && (G_KEY_STORE_FLAG =? 32768) && (G_HMAC_OFFSET =? 64) && (G_HMAC_SIZE =? 32) &&
  (G_HMAC_KEY_LENGTH =? 32) && (G_KEY_STORE_SIZE =? 1424) && (G_CTR_INIT_VECTOR_SIZE =? 16) &&
  (G_MANIFEST_DIGEST_PRESENT_FLAG =? 2147483648) && (G_MANIFEST_HASH_TYPE_MASK =? 15) &&
  (G_MANIFEST_FORMAT_VERSION =? 65536) && (G_MANIFEST_MAGIC =? 1835494761) && (G_LTI_LOAD =? 1) &&
  (G_TZ_ENABLED =? 0) && (G_TZ_CUSTOM =? 1) && (G_TZ_DISABLED =? 2).

(* ------------------------------------------------------------------ run_case *)
Definition dec_bool (z : Z) : bool := negb (z =? 0).
Definition dec_opt_bytes (v : value) : option (option (list N)) :=
  match v with VList [] => Some None | VList [VBytes b] => Some (Some b) | _ => None end.
Definition dec_tz (v : value) : option tz :=
  match v with
  | VList [VInt 0; VBytes _] => Some TzEnabled
  | VList [VInt 1; VBytes d] => Some (TzCustom d)
  | VList [VInt 2; VBytes _] => Some TzDisabled
  | _ => None
  end.
Fixpoint dec_entries (l : list value) : option (list entry) :=
  match l with
  | [] => Some []
  | VList [VBytes img; VInt dst; VInt fl] :: t =>
      match dec_entries t with Some r => Some ({| e_img := img; e_dst := dst; e_flags := fl |} :: r) | None => None end
  | _ => None
  end.
Definition dec_table (v : value) : option (option (list entry)) :=
  match v with
  | VList [] => Some None
  | VList [VList es] => match dec_entries es with Some r => Some (Some r) | None => None end
  | _ => None
  end.
Definition dec_cert (v : value) : option (option cert) :=
  match v with
  | VList [] => Some None
  | VList [VInt 1; VBytes pre; VBytes post; VInt sg] => Some (Some (CertV1 pre post (natz sg)))
  | VList [VInt 2; VBytes b; VInt sg] => Some (Some (CertV21 b (natz sg)))
  | _ => None
  end.
Fixpoint dec_mixins (l : list value) : option (list mixin) :=
  match l with
  | [] => Some []
  | VInt i :: t => match mixin_of_id i, dec_mixins t with Some m, Some r => Some (m :: r) | _, _ => None end
  | _ => None
  end.
Definition dec_class (v : value) : option mbi_class :=
  match v with
  | VList [VInt ty; VList ms] => match dec_mixins ms with Some l => Some {| c_type := ty; c_mixins := l |} | None => None end
  | _ => None
  end.
Definition dec_mbi (v : value) : option mbi :=
  match v with
  | VList [VBytes app; VInt load; VInt iv_; VInt st; VInt fw; tzv; VInt hw; ksv; hmv; VBytes ivb; tbv; cbv; VInt dg] =>
      match dec_tz tzv, dec_opt_bytes ksv, dec_opt_bytes hmv, dec_table tbv, dec_cert cbv with
      | Some t, Some ks, Some hm, Some tb, Some cb =>
          Some {| m_app := app; m_load := load; m_imgver := iv_; m_subtype := st; m_fwver := fw; m_tz := t;
                  m_hwkey := dec_bool hw; m_ks := ks; m_hmac := hm; m_iv := ivb; m_table := tb; m_cert := cb;
                  m_digest := dg |}
      | _, _, _, _, _ => None
      end
  | _ => None
  end.
(* primitives as observed for the case: constant signature / hmac / digest, CTR as xor with the given key stream *)
Definition dec_crypto (v : value) : option crypto :=
  match v with
  | VList [VBytes sg; VBytes hm; VBytes ks; VBytes dg] =>
      Some {| k_sign := fun _ => sg; k_hmac := fun _ _ => hm;
              k_ctr := fun _ _ _ d => xor_bytes d (firstn (length d) ks ++ zeros (length d - length ks));
              k_hash := fun _ _ => dg |}
  | _ => None
  end.

Definition enc_opt_bytes (o : option (list N)) : value := match o with Some b => VList [VBytes b] | None => VList [] end.
Definition enc_tz (t : tz) : value := VList [VInt (tz_tag t); VBytes (tz_export t)].
Definition enc_entry (e : entry) : value := VList [VBytes (e_img e); VInt (e_dst e); VInt (e_flags e)].
Definition enc_table (o : option (list entry)) : value :=
  match o with Some es => VList [VList (map enc_entry es)] | None => VList [] end.
Definition enc_cert (o : option cert) : value :=
  match o with
  | None => VList []
  | Some (CertV1 pre post sg) => VList [VInt 1; VBytes pre; VBytes post; VInt (Z.of_nat sg)]
  | Some (CertV21 b sg) => VList [VInt 2; VBytes b; VInt (Z.of_nat sg)]
  end.
Definition enc_mbi (x : mbi) : value :=
  VList [VBytes (m_app x); VInt (m_load x); VInt (m_imgver x); VInt (m_subtype x); VInt (m_fwver x); enc_tz (m_tz x);
         vbool (m_hwkey x); enc_opt_bytes (m_ks x); enc_opt_bytes (m_hmac x); VBytes (m_iv x); enc_table (m_table x);
         enc_cert (m_cert x); VInt (m_digest x)].

Definition run_case (fn : Z) (args : list value) : value :=
  match fn, args with
  | 1, [cv; xv; kv] =>            (* export *)
      match dec_class cv, dec_mbi xv, dec_crypto kv with
      | Some c, Some x, Some k => vres VBytes (export_mbi k c x)
      | _, _, _ => VErr E_BADCASE
      end
  | 2, [cv; VInt tzsize; VInt sigsz; dekv; VBytes data; kv] =>     (* parse with a given class *)
      match dec_class cv, dec_opt_bytes dekv, dec_crypto kv with
      | Some c, Some dek, Some k => vres enc_mbi (parse_mbi k c (natz tzsize) (natz sigsz) dek data)
      | _, _, _ => VErr E_BADCASE
      end
  | 3, [VInt fam; VBytes data] =>                                  (* class selection: (target, auth, composition) *)
      match nth_error gen_families (natz fam) with
      | Some f => match select_class f data with
                  | Some (t, (a, ci)) => VList [VInt t; VInt a; VInt ci]
                  | None => VErr E_REJECT
                  end
      | None => VErr E_BADCASE
      end
  | 4, [cv; xv] =>                (* total_len, app_len, flags *)
      match dec_class cv, dec_mbi xv with
      | Some c, Some x => VList [VInt (total_len c x); VInt (app_len c x); VInt (create_flags c x)]
      | _, _ => VErr E_BADCASE
      end
  | _, _ => VErr E_BADCASE
  end.

(* all observables of one correspondence case in one evaluation: export, lengths/flags, class selection on the exported
   header, parse of the exported bytes with the class the implementation selected *)
Definition run_all (fam : Z) (cv xv kv pcv : value) (tzsize sigsz : Z) (dekv : value) : value :=
  let ex := run_case 1 [cv; xv; kv] in
  let lens := run_case 4 [cv; xv] in
  match ex with
  | VBytes img =>
      VList [ex; lens; run_case 3 [VInt fam; VBytes (firstn 64 img)];
             match pcv with
             | VList [] => VList []
             | _ => run_case 2 [pcv; VInt tzsize; VInt sigsz; dekv; VBytes img; kv]
             end]
  | _ => VList [ex; lens]
  end.
