(* Model/MiscExtModel.v -- C20 extension: further public entry points of spsdk.sbfile.misc.BcdVersion3
   (the constructor BcdVersion3(major, minor, service) and to_version(text)), as a dispatcher that extends
   MiscModel.run_case.  Definitions only. *)
From Coq Require Import ZArith NArith List Bool.
Require Import Value Bytes GenMisc MiscModel.
Import ListNotations.
Local Open Scope Z_scope.

(* __init__: all([_check_number(major), _check_number(minor), _check_number(service)]); _check_number raises
   SPSDKError for a number outside 0..0x9999 or with a nibble above 9 *)
Definition bcd_new (x y z : Z) : res (Z * Z * Z) :=
  if bcd_check x then
    if bcd_check y then
      if bcd_check z then Ok (x, y, z) else Err 1%N
    else Err 1%N
  else Err 1%N.

(* to_version(str) = from_str(str); from_str ends in the constructor, whose checks repeat those of _num_from_str *)
Definition bcd_to_version (s : list N) : res (Z * Z * Z) :=
  match bcd_from_str s with
  | Ok (x, y, z) => bcd_new x y z
  | Err e => Err e
  end.

Definition run_case_ext (fn : Z) (args : list value) : value :=
  match fn, args with
  | 17, [VInt x; VInt y; VInt z] => vres (fun v => VStr (bcd_to_str v)) (bcd_new x y z)
  | 18, [VStr s] => vres (fun v => VStr (bcd_to_str v)) (bcd_to_version s)
  | _, _ => run_case fn args
  end.

Example bcd_new_ex1 : run_case_ext 17 [VInt 0x9999; VInt 0; VInt 0x12] = VStr [57; 57; 57; 57; 46; 48; 46; 49; 50]%N.
Proof. vm_compute. reflexivity. Qed.
Example bcd_new_ex2 : run_case_ext 17 [VInt 0x1A; VInt 0; VInt 0] = VErr 1 /\ run_case_ext 17 [VInt 1; VInt 0x10000; VInt 0] = VErr 1
                      /\ run_case_ext 17 [VInt 1; VInt 1; VInt (-1)] = VErr 1.
Proof. vm_compute. repeat split; reflexivity. Qed.
Example bcd_new_ex3 : run_case_ext 18 [VStr [49; 65; 46; 48; 46; 48]%N] = VErr 1.     (* "1A.0.0" *)
Proof. vm_compute. reflexivity. Qed.
