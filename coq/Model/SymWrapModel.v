(* Model/SymWrapModel.v -- faithful models of the SPSDK crypto wrappers (C09):
   spsdk/crypto/symmetric.py (Counter, the aes and sm4 functions), hash.py, spsdk_hmac.py, cmac.py, hkdf.py, crc.py,
   spsdk/image/keystore.py (KeyStore derive functions), spsdk/sbfile/sb31/functions.py (derive_kdk / derive_block_key).
   The primitives are the CryptoRef definitions (coq/Crypto); the SPSDK-owned constants (CRC table, accepted key
   sizes, default IV, IV length test, padding alignment, key-store constants) come from Gen/GenCrypto.v which is
   regenerated from the source on every run.  Error classes: Err 1 = SPSDKError family, Err 2 = any other exception
   (ValueError / InvalidTag / InvalidUnwrap / OverflowError raised by `cryptography` or CPython).
   Definitions only. *)
From Coq Require Import ZArith NArith List Bool.
Require Import Value Bytes GenMisc MiscModel GenCrypto Sha2 Aes Sm4 Modes Hmac Hkdf Cmac KeyWrap Crc.
Import ListNotations.
Local Open Scope N_scope.

Definition E_SPSDK : N := 1.
Definition E_OTHER : N := 2.

Definition len_mult16 (l : list N) : bool := Nat.eqb (Nat.modulo (length l) 16) 0.
Definition key_bits_ok (bits : list N) (key : list N) : bool := existsb (N.eqb (8 * nlen key)) bits.

(* keyed block functions; the key schedule is shared by all blocks of one call *)
Definition aesE (key : list N) : blk -> blk := let rks := key_expansion key in cipher_rks rks.
Definition aesD (key : list N) : blk -> blk := let rks := key_expansion key in inv_cipher_rks rks.
Definition sm4E (key : list N) : blk -> blk := let rks := sm4_round_keys key in sm4_crypt_rks rks.
Definition sm4D (key : list N) : blk -> blk := let rks := rev (sm4_round_keys key) in sm4_crypt_rks rks.

(* ---------------- Counter ---------------- *)
(* the observable: `value` after construction and after each increment *)
Definition counter_encode (nonce : list N) (big : bool) (c : Z) : res (list N) :=
  (* (self._ctr & 0xFFFFFFFF).to_bytes(4, ..): Python's & on an unbounded int, negative values included *)
  Ok (firstn 12 nonce ++ (if big then be_enc else le_enc) 4%nat (Z.to_N (Z.land c 4294967295))).

Definition counter_init (nonce : list N) (ctr_value : option Z) (big : bool) : res Z :=
  if negb (Nat.eqb (length nonce) 16) then Err E_SPSDK
  else Ok (Z.of_N ((if big then be_dec else le_dec) (skipn 12 nonce)) + match ctr_value with Some v => v | None => 0 end)%Z.

Fixpoint counter_trace (nonce : list N) (big : bool) (c : Z) (incs : list Z) : list (res (list N)) :=
  counter_encode nonce big c ::
  match incs with
  | [] => []
  | i :: t => counter_trace nonce big (c + i)%Z t
  end.

Definition counter_run (nonce : list N) (ctr_value : option Z) (big : bool) (incs : list Z) : res (list (res (list N))) :=
  match counter_init nonce ctr_value big with
  | Err e => Err e
  | Ok c => Ok (counter_trace nonce big c incs)
  end.

(* ---------------- AES-ECB ---------------- *)
Definition aes_ecb_encrypt (key data : list N) : res (list N) :=
  if negb (aes_key_ok key) then Err E_OTHER
  else if negb (len_mult16 data) then Err E_OTHER
  else Ok (ecb (aesE key) data).
Definition aes_ecb_decrypt (key data : list N) : res (list N) :=
  if negb (aes_key_ok key) then Err E_OTHER
  else if negb (len_mult16 data) then Err E_OTHER
  else Ok (ecb (aesD key) data).

(* ---------------- CBC wrappers (AES and SM4 share the SPSDK-side logic) ---------------- *)
(* `iv_data or bytes(n)`: None and the empty byte string both select the default *)
Definition choose_iv (iv : option (list N)) (default_len : N) : list N :=
  match iv with
  | Some (b :: t) => b :: t
  | _ => zeros (N.to_nat default_len)
  end.

Definition cbc_wrapper (key_bits : list N) (default_iv_len iv_bits alignment : N) (encrypt : bool)
           (lib_key_ok : list N -> bool) (F : list N -> blk -> blk)
           (key data : list N) (iv : option (list N)) : res (list N) :=
  if negb (key_bits_ok key_bits key) then Err E_SPSDK
  else
    let ivv := choose_iv iv default_iv_len in
    if negb (8 * nlen ivv =? iv_bits) then Err E_SPSDK
    else if negb (lib_key_ok key) then Err E_OTHER                     (* cryptography: key size not valid for the mode *)
    else if negb (Nat.eqb (length ivv) 16) then Err E_OTHER           (* cryptography: Invalid IV size for CBC *)
    else
      match (if encrypt then MiscModel.align_block data (Z.of_N alignment) PZeros else Ok data) with
      | Err e => Err e
      | Ok d =>
          if negb (len_mult16 d) then Err E_OTHER                     (* finalize(): not a multiple of the block length *)
          else Ok (if encrypt then cbc_enc (F key) ivv d else cbc_dec (F key) ivv d)
      end.

Definition sm4_key_ok (key : list N) : bool := Nat.eqb (length key) 16.

Definition aes_cbc_encrypt := cbc_wrapper aes_cbc_encrypt_key_bits aes_cbc_encrypt_default_iv_len aes_cbc_encrypt_iv_bits
                                          aes_cbc_encrypt_alignment true aes_key_ok aesE.
Definition aes_cbc_decrypt := cbc_wrapper aes_cbc_decrypt_key_bits aes_cbc_decrypt_default_iv_len aes_cbc_decrypt_iv_bits
                                          aes_cbc_decrypt_alignment false aes_key_ok aesD.
Definition sm4_cbc_encrypt := cbc_wrapper sm4_cbc_encrypt_key_bits sm4_cbc_encrypt_default_iv_len sm4_cbc_encrypt_iv_bits
                                          sm4_cbc_encrypt_alignment true sm4_key_ok sm4E.
Definition sm4_cbc_decrypt := cbc_wrapper sm4_cbc_decrypt_key_bits sm4_cbc_decrypt_default_iv_len sm4_cbc_decrypt_iv_bits
                                          sm4_cbc_decrypt_alignment false sm4_key_ok sm4D.

(* ---------------- AES-CTR (encrypt and decrypt are the same code path) ---------------- *)
Definition aes_ctr_crypt (key data nonce : list N) : res (list N) :=
  if negb (aes_key_ok key) then Err E_OTHER
  else if negb (Nat.eqb (length nonce) 16) then Err E_OTHER
  else Ok (ctr_xcrypt (aesE key) nonce data).

(* ---------------- AES-XTS ---------------- *)
Definition xts_key_ok (key : list N) : bool := Nat.eqb (length key) 32 || Nat.eqb (length key) 64.
Definition xts_k1 (key : list N) : list N := firstn (Nat.div (length key) 2) key.
Definition xts_k2 (key : list N) : list N := skipn (Nat.div (length key) 2) key.

Definition aes_xts_encrypt (key data tweak : list N) : res (list N) :=
  if negb (xts_key_ok key) then Err E_OTHER
  else if negb (Nat.eqb (length tweak) 16) then Err E_OTHER
  else if eqb_list (xts_k1 key) (xts_k2 key) then Err E_OTHER       (* OpenSSL 3: duplicated keys refused when encrypting *)
  else match data with
       | [] => Ok []
       | _ => if Nat.ltb (length data) 16 then Err E_OTHER
              else Ok (xts_crypt (aesE (xts_k1 key)) (aesE (xts_k2 key)) false tweak data)
       end.
Definition aes_xts_decrypt (key data tweak : list N) : res (list N) :=
  if negb (xts_key_ok key) then Err E_OTHER
  else if negb (Nat.eqb (length tweak) 16) then Err E_OTHER
  else match data with
       | [] => Ok []
       | _ => if Nat.ltb (length data) 16 then Err E_OTHER
              else Ok (xts_crypt (aesD (xts_k1 key)) (aesE (xts_k2 key)) true tweak data)
       end.

(* ---------------- AES-CCM ---------------- *)
Definition ccm_params_ok (key nonce : list N) (taglen : Z) : bool :=
  aes_key_ok key && ccm_tag_ok taglen && ccm_nonce_ok nonce.

Definition aes_ccm_encrypt (key data nonce : list N) (aad : option (list N)) (taglen : option Z) : res (list N) :=
  let t := match taglen with Some t => t | None => 16%Z end in
  let a := match aad with Some a => a | None => [] end in
  if negb (ccm_params_ok key nonce t) then Err E_OTHER
  else if negb (ccm_len_ok nonce (length data)) then Err E_OTHER
  else Ok (ccm_encrypt (aesE key) nonce a (Z.to_nat t) data).

Definition aes_ccm_decrypt (key data nonce aad : list N) (taglen : option Z) : res (list N) :=
  let t := match taglen with Some t => t | None => 16%Z end in
  if negb (ccm_params_ok key nonce t) then Err E_OTHER
  else if negb (ccm_len_ok nonce (length data)) then Err E_OTHER
  else match ccm_decrypt (aesE key) nonce aad (Z.to_nat t) data with
       | Some p => Ok p
       | None => Err E_OTHER                                          (* InvalidTag *)
       end.

(* ---------------- RFC 3394 ---------------- *)
Definition aes_key_wrap (kek key_to_wrap : list N) : res (list N) :=
  if negb (aes_key_ok kek) then Err E_OTHER
  else if Nat.ltb (length key_to_wrap) 16 then Err E_OTHER
  else if negb (Nat.eqb (Nat.modulo (length key_to_wrap) 8) 0) then Err E_OTHER
  else Ok (aes_kw_wrap kek key_to_wrap).
Definition aes_key_unwrap (kek wrapped : list N) : res (list N) :=
  if negb (aes_key_ok kek) then Err E_OTHER
  else if Nat.ltb (length wrapped) 24 then Err E_OTHER
  else if negb (Nat.eqb (Nat.modulo (length wrapped) 8) 0) then Err E_OTHER
  else match aes_kw_unwrap kek wrapped with Some k => Ok k | None => Err E_OTHER end.

(* ---------------- hashes / MACs / KDF ---------------- *)
(* EnumHashAlgorithm tags: 1 sha256, 2 sha384, 3 sha512 are modelled; 254 (NONE) is rejected by get_hash_algorithm *)
Definition hash_by_tag (alg : Z) : option ((list N -> list N) * nat) :=
  (if alg =? 1 then Some (sha256, 64%nat) else if alg =? 2 then Some (sha384, 128%nat)
   else if alg =? 3 then Some (sha512, 128%nat) else None)%Z.

Definition get_hash (data : list N) (alg : Z) : res (list N) :=
  match hash_by_tag alg with Some (h, _) => Ok (h data) | None => Err E_SPSDK end.
Definition spsdk_hmac (key data : list N) (alg : Z) : res (list N) :=
  match hash_by_tag alg with Some (h, b) => Ok (hmac_gen h b key data) | None => Err E_SPSDK end.
Definition spsdk_hmac_validate (key data sig : list N) (alg : Z) : res bool :=
  match spsdk_hmac key data alg with Ok m => Ok (eqb_list m sig) | Err e => Err e end.

Definition spsdk_cmac (key data : list N) : res (list N) :=
  if negb (aes_key_ok key) then Err E_OTHER else Ok (aes_cmac key data).
Definition spsdk_cmac_validate (key data sig : list N) : res bool :=
  match spsdk_cmac key data with Ok m => Ok (eqb_list m sig) | Err e => Err e end.

Definition spsdk_hkdf (salt ikm info : list N) (len : Z) : res (list N) :=
  if (8160 <? len)%Z then Err E_OTHER else Ok (hkdf_sha256 salt ikm info (Z.to_nat len)).

(* Hash().update(..)/update_int(..)/finalize(): pieces are byte strings or integers *)
Definition int_be_bytes (v : Z) : list N :=
  let a := Z.to_N (Z.abs v) in
  be_enc (N.to_nat ((N.size a + 7) / 8)) a.

(* ---------------- CRC ---------------- *)
Definition crcmod_params (cfg : N * N * N * bool) : option crc_params :=
  let '(poly, init, xorout, rev) := cfg in
  let w := N.size poly - 1 in
  if (w =? 8) || (w =? 16) || (w =? 24) || (w =? 32) || (w =? 64) then
    let reg0 := N.lxor init xorout in
    Some {| crc_width := w; crc_poly := poly - 2 ^ w; crc_init := if rev then reflect w reg0 else reg0;
            crc_refin := rev; crc_refout := rev; crc_xorout := xorout |}
  else None.

Fixpoint crc_lookup (label : list N) (t : list (list N * (N * N * N * bool))) : option (N * N * N * bool) :=
  match t with
  | [] => None
  | (l, cfg) :: rest => if eqb_list l label then Some cfg else crc_lookup label rest
  end.

Definition spsdk_crc (label data : list N) : res N :=
  match crc_lookup (lower label) crc_table with
  | None => Err E_SPSDK                                               (* SPSDKKeyError *)
  | Some cfg => match crcmod_params cfg with
                | Some p => Ok (crc p data)
                | None => Err E_OTHER                                 (* crcmod: ValueError for an unsupported size *)
                end
  end.

(* ---------------- KeyStore.derive_* ---------------- *)
Definition keystore_derive (key_len input_len : N) (const : option (list N)) (key input : list N) : res (list N) :=
  if negb (nlen key =? key_len) then Err E_SPSDK
  else match const with
       | Some c => aes_ecb_encrypt key c
       | None => if negb (nlen input =? input_len) then Err E_SPSDK else aes_ecb_encrypt key input
       end.

Definition derive_hmac_key (k : list N) := keystore_derive derive_hmac_key_key_len derive_hmac_key_input_len derive_hmac_key_const k [].
Definition derive_enc_image_key (k : list N) :=
  keystore_derive derive_enc_image_key_key_len derive_enc_image_key_input_len derive_enc_image_key_const k [].
Definition derive_sb_kek_key (k : list N) := keystore_derive derive_sb_kek_key_key_len derive_sb_kek_key_input_len derive_sb_kek_key_const k [].
Definition derive_otfad_kek_key (k i : list N) :=
  keystore_derive derive_otfad_kek_key_key_len derive_otfad_kek_key_input_len derive_otfad_kek_key_const k i.

(* ---------------- SB3.1 key derivation (CMAC in counter mode) ---------------- *)
(* mode: 1 = KDK, 2 = BLK *)
Definition kdf_data (const : Z) (rights : Z) (mode : Z) (key_length : Z) (iteration : N) : res (list N) :=
  if negb ((0 <=? rights) && (rights <=? 3))%Z then Err E_SPSDK
  else if negb ((key_length =? 128) || (key_length =? 256))%Z then Err E_SPSDK
  else if ((const <? 0) || (2 ^ 96 <=? const))%Z then Err E_OTHER    (* int.to_bytes(length=12) -> OverflowError *)
  else Ok (le_enc 12 (Z.to_N const)                                   (* label *)
           ++ zeros 8 ++ [Z.to_N (rights * 64)] ++ [if (mode =? 1)%Z then 1 else 16] ++ [0]
           ++ [if (key_length =? 128)%Z then 32 else 33]              (* context *)
           ++ be_enc 4 (Z.to_N key_length) ++ be_enc 4 iteration).

Definition kdf_derive (key : list N) (const rights mode key_length : Z) : res (list N) :=
  match kdf_data const rights mode key_length 1 with
  | Err e => Err e
  | Ok d1 =>
      match spsdk_cmac key d1 with
      | Err e => Err e
      | Ok r1 =>
          if (key_length =? 256)%Z then
            match kdf_data const rights mode key_length 2 with
            | Err e => Err e
            | Ok d2 => match spsdk_cmac key d2 with Err e => Err e | Ok r2 => Ok (r1 ++ r2) end
            end
          else Ok r1
      end
  end.

Definition derive_kdk (pck : list N) (timestamp key_length rights : Z) : res (list N) := kdf_derive pck timestamp rights 1 key_length.
Definition derive_block_key (kdk : list N) (block key_length rights : Z) : res (list N) := kdf_derive kdk block rights 2 key_length.
(* KeyDerivator(pck, ts, kl, rights).get_block_key(n) *)
Definition key_derivator_block_key (pck : list N) (ts key_length rights block : Z) : res (list N) :=
  match derive_kdk pck ts key_length rights with
  | Err e => Err e
  | Ok kdk => derive_block_key kdk block key_length rights
  end.

(* ---------------- run_case dispatcher ---------------- *)
Definition vb (r : res (list N)) : value := vres VBytes r.
Definition vbo (r : res bool) : value := vres vbool r.
Definition opt_bytes (v : value) : option (option (list N)) :=
  match v with VList [] => Some None | VList [VBytes b] => Some (Some b) | _ => None end.
Definition opt_int (v : value) : option (option Z) :=
  match v with VList [] => Some None | VList [VInt z] => Some (Some z) | _ => None end.
Definition zb (z : Z) : bool := negb (z =? 0)%Z.

(* encrypt, then decrypt the result with the given decryptor: [ciphertext; decrypt outcome] *)
Definition rt (enc : res (list N)) (dec : list N -> res (list N)) : value :=
  match enc with
  | Ok c => VList [VBytes c; vb (dec c)]
  | Err k => VErr k
  end.

Fixpoint ints_of (l : list value) : option (list Z) :=
  match l with
  | [] => Some []
  | VInt z :: t => match ints_of t with Some r => Some (z :: r) | None => None end
  | _ => None
  end.

Fixpoint pieces_of (l : list value) : option (list N) :=
  match l with
  | [] => Some []
  | VBytes b :: t => match pieces_of t with Some r => Some (b ++ r) | None => None end
  | VInt z :: t => match pieces_of t with Some r => Some (int_be_bytes z ++ r) | None => None end
  | _ => None
  end.

Definition run_case (fn : Z) (args : list value) : value :=
  match fn, args with
  | 1%Z, [VBytes k; VBytes d] => rt (aes_ecb_encrypt k d) (aes_ecb_decrypt k)
  | 2%Z, [VBytes k; VBytes d] => vb (aes_ecb_decrypt k d)
  | 3%Z, [VBytes k; VBytes d; ive; ivd] =>
      match opt_bytes ive, opt_bytes ivd with
      | Some e, Some dd => rt (aes_cbc_encrypt k d e) (fun c => aes_cbc_decrypt k c dd)
      | _, _ => VErr E_BADCASE
      end
  | 4%Z, [VBytes k; VBytes d; ivd] =>
      match opt_bytes ivd with Some dd => vb (aes_cbc_decrypt k d dd) | None => VErr E_BADCASE end
  | 5%Z, [VBytes k; VBytes d; VBytes n] => rt (aes_ctr_crypt k d n) (fun c => aes_ctr_crypt k c n)
  | 7%Z, [VBytes k; VBytes d; VBytes t] => rt (aes_xts_encrypt k d t) (fun c => aes_xts_decrypt k c t)
  | 8%Z, [VBytes k; VBytes d; VBytes t] => vb (aes_xts_decrypt k d t)
  | 9%Z, [VBytes k; VBytes d; VBytes n; aad; tl] =>
      match opt_bytes aad, opt_int tl with
      | Some a, Some t => rt (aes_ccm_encrypt k d n a t)
                             (fun c => aes_ccm_decrypt k c n (match a with Some x => x | None => [] end) t)
      | _, _ => VErr E_BADCASE
      end
  | 10%Z, [VBytes k; VBytes d; VBytes n; VBytes a; tl] =>
      match opt_int tl with Some t => vb (aes_ccm_decrypt k d n a t) | None => VErr E_BADCASE end
  | 11%Z, [VBytes k; VBytes d] => rt (aes_key_wrap k d) (aes_key_unwrap k)
  | 12%Z, [VBytes k; VBytes d] => vb (aes_key_unwrap k d)
  | 13%Z, [VBytes k; VBytes d; ive; ivd] =>
      match opt_bytes ive, opt_bytes ivd with
      | Some e, Some dd => rt (sm4_cbc_encrypt k d e) (fun c => sm4_cbc_decrypt k c dd)
      | _, _ => VErr E_BADCASE
      end
  | 14%Z, [VBytes k; VBytes d; ivd] =>
      match opt_bytes ivd with Some dd => vb (sm4_cbc_decrypt k d dd) | None => VErr E_BADCASE end
  | 15%Z, [VBytes n; cv; VInt big; VList incs] =>
      match opt_int cv, ints_of incs with
      | Some c, Some il => match counter_run n c (zb big) il with
                           | Ok tr => VList (map vb tr)
                           | Err e => VErr e
                           end
      | _, _ => VErr E_BADCASE
      end
  | 20%Z, [VBytes d; VInt alg] => vb (get_hash d alg)
  | 21%Z, [VBytes k; VBytes d; VInt alg] => vb (spsdk_hmac k d alg)
  | 22%Z, [VBytes k; VBytes d; VBytes s; VInt alg] => vbo (spsdk_hmac_validate k d s alg)
  | 23%Z, [VBytes k; VBytes d] => vb (spsdk_cmac k d)
  | 24%Z, [VBytes k; VBytes d; VBytes s] => vbo (spsdk_cmac_validate k d s)
  | 25%Z, [VBytes s; VBytes i; VBytes inf; VInt len] => vb (spsdk_hkdf s i inf len)
  | 26%Z, [VStr l; VBytes d] => vres vN (spsdk_crc l d)
  | 28%Z, [VBytes d] => VList [VBytes (sha256 d); VBytes (hmac_sha256 [107; 101; 121] d); VInt 1; VInt 32; VInt 48; VInt 64]
  | 30%Z, [VBytes k] => vb (derive_hmac_key k)
  | 31%Z, [VBytes k] => vb (derive_enc_image_key k)
  | 32%Z, [VBytes k] => vb (derive_sb_kek_key k)
  | 33%Z, [VBytes k; VBytes i] => vb (derive_otfad_kek_key k i)
  | 34%Z, [VBytes k; VInt ts; VInt kl; VInt r] => vb (derive_kdk k ts kl r)
  | 35%Z, [VBytes k; VInt bn; VInt kl; VInt r] => vb (derive_block_key k bn kl r)
  | 36%Z, [VBytes k; VInt ts; VInt kl; VInt r; VInt bn] => vb (key_derivator_block_key k ts kl r bn)
  | 37%Z, [VInt alg; VList ps] =>
      match pieces_of ps with Some d => vb (get_hash d alg) | None => VErr E_BADCASE end
  | _, _ => VErr E_BADCASE
  end.
