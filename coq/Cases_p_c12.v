From Coq Require Import ZArith NArith List.
Require Import Value Bytes RegsModel GenAreas AreaModel.
Import ListNotations.
Eval vm_compute in (length all_areas).
Time Eval vm_compute in (run_case 1 [VInt 74; VList [(VList [(VList [(VInt 0%Z)]); (VInt 0%Z); (VInt 0%Z); (VInt 1%Z)]); (VList [(VList [(VInt 1%Z)]); (VInt 2%Z); (VList [(VList [(VInt 0%Z); (VInt 7%Z)])]); (VInt 1%Z)])]; VInt 0; VBytes []]).
