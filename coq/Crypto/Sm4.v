(* Crypto/Sm4.v -- SM4 block cipher (GB/T 32907-2016) over N.  Definitions only.
   S-box generated from its algebraic definition (affine 0xA7 / 0xD3 around the inverse in GF(2^8) mod 0x1F5);
   validated on the standard's example vector below. *)
From Coq Require Import ZArith NArith List Bool.
Require Import Value Bytes Aes.
Import ListNotations.
Local Open Scope N_scope.

Definition sm4_sbox_list : list N := [214; 144; 233; 254; 204; 225; 61; 183; 22; 182; 20; 194; 40; 251; 44; 5; 43; 103; 154; 118; 42; 190; 4; 195; 170; 68; 19; 38; 73; 134; 6; 153; 156; 66; 80; 244; 145; 239; 152; 122; 51; 84; 11; 67; 237; 207; 172; 98; 228; 179; 28; 169; 201; 8; 232; 149; 128; 223; 148; 250; 117; 143; 63; 166; 71; 7; 167; 252; 243; 115; 23; 186; 131; 89; 60; 25; 230; 133; 79; 168; 104; 107; 129; 178; 113; 100; 218; 139; 248; 235; 15; 75; 112; 86; 157; 53; 30; 36; 14; 94; 99; 88; 209; 162; 37; 34; 124; 59; 1; 33; 120; 135; 212; 0; 70; 87; 159; 211; 39; 82; 76; 54; 2; 231; 160; 196; 200; 158; 234; 191; 138; 210; 64; 199; 56; 181; 163; 247; 242; 206; 249; 97; 21; 161; 224; 174; 93; 164; 155; 52; 26; 85; 173; 147; 50; 48; 245; 140; 177; 227; 29; 246; 226; 46; 130; 102; 202; 96; 192; 41; 35; 171; 13; 83; 78; 111; 213; 219; 55; 69; 222; 253; 142; 47; 3; 255; 106; 114; 109; 108; 91; 81; 141; 27; 175; 146; 187; 221; 188; 127; 17; 217; 92; 65; 31; 16; 90; 216; 10; 193; 49; 136; 165; 205; 123; 189; 45; 116; 208; 18; 184; 229; 180; 176; 137; 105; 151; 74; 12; 150; 119; 126; 101; 185; 241; 9; 197; 110; 198; 132; 24; 240; 125; 236; 58; 220; 77; 32; 121; 238; 95; 62; 215; 203; 57; 72].
Definition sm4_sbox_tbl : tbl := Eval vm_compute in tbl_build 8 sm4_sbox_list.
Definition sm4_sbox (x : N) : N := tbl_get sm4_sbox_tbl x.

Definition m32 : N := 4294967295.
Definition rotl32 (n x : N) : N := N.lor (N.land (N.shiftl x n) m32) (N.shiftr x (32 - n)).

(* tau: S-box on each byte of a 32-bit word *)
Definition sm4_tau (a : N) : N :=
  N.lor (N.lor (N.shiftl (sm4_sbox (N.shiftr a 24)) 24) (N.shiftl (sm4_sbox (N.land (N.shiftr a 16) 255)) 16))
        (N.lor (N.shiftl (sm4_sbox (N.land (N.shiftr a 8) 255)) 8) (sm4_sbox (N.land a 255))).
Definition sm4_L (b : N) : N :=
  N.lxor (N.lxor (N.lxor (N.lxor b (rotl32 2 b)) (rotl32 10 b)) (rotl32 18 b)) (rotl32 24 b).
Definition sm4_L' (b : N) : N := N.lxor (N.lxor b (rotl32 13 b)) (rotl32 23 b).
Definition sm4_T (x : N) : N := sm4_L (sm4_tau x).
Definition sm4_T' (x : N) : N := sm4_L' (sm4_tau x).

Definition sm4_FK : list N := [2746333894; 1453994832; 1736282519; 2993693404].
Definition sm4_CK : list N := [462357; 472066609; 943670861; 1415275113; 1886879365; 2358483617; 2830087869; 3301692121; 3773296373; 4228057617; 404694573; 876298825; 1347903077; 1819507329; 2291111581; 2762715833; 3234320085; 3705924337; 4177462797; 337322537; 808926789; 1280531041; 1752135293; 2223739545; 2695343797; 3166948049; 3638552301; 4110090761; 269950501; 741554753; 1213159005; 1684763257].

Definition w4 := (N * N * N * N)%type.

Definition sm4_round (F : N -> N) (s : w4) (rk : N) : w4 :=
  let '(a, b, c, d) := s in (b, c, d, N.lxor a (F (N.lxor (N.lxor (N.lxor b c) d) rk))).

(* key schedule: rk_i = K_{i+4} *)
Fixpoint sm4_ks (cks : list N) (s : w4) : list N :=
  match cks with
  | [] => []
  | ck :: t => let s' := sm4_round sm4_T' s ck in
               let '(_, _, _, k) := s' in k :: sm4_ks t s'
  end.

Definition words4 (b : list N) : w4 :=
  (be_dec (firstn 4 b), be_dec (firstn 4 (skipn 4 b)), be_dec (firstn 4 (skipn 8 b)), be_dec (firstn 4 (skipn 12 b))).
Definition bytes4 (s : w4) : list N :=
  let '(a, b, c, d) := s in be_enc 4 a ++ be_enc 4 b ++ be_enc 4 c ++ be_enc 4 d.
Definition rev4 (s : w4) : w4 := let '(a, b, c, d) := s in (d, c, b, a).

Definition sm4_round_keys (key : list N) : list N :=
  let '(a, b, c, d) := words4 key in
  match sm4_FK with
  | [f0; f1; f2; f3] => sm4_ks sm4_CK (N.lxor a f0, N.lxor b f1, N.lxor c f2, N.lxor d f3)
  | _ => []
  end.

Definition sm4_crypt_words (rks : list N) (x : w4) : w4 := rev4 (fold_left (sm4_round sm4_T) rks x).
Definition sm4_crypt_rks (rks : list N) (b : list N) : list N := bytes4 (sm4_crypt_words rks (words4 b)).
Definition sm4_enc (key b : list N) : list N := sm4_crypt_rks (sm4_round_keys key) b.
Definition sm4_dec (key b : list N) : list N := sm4_crypt_rks (rev (sm4_round_keys key)) b.

(* GB/T 32907 appendix A example 1 *)
Definition sm4_k1 : list N := [1; 35; 69; 103; 137; 171; 205; 239; 254; 220; 186; 152; 118; 84; 50; 16].
Example sm4_example1 : sm4_enc sm4_k1 sm4_k1 = [104; 30; 223; 52; 210; 6; 150; 94; 134; 179; 233; 79; 83; 110; 66; 70].
Proof. vm_compute. reflexivity. Qed.
Example sm4_example1_inv : sm4_dec sm4_k1 [104; 30; 223; 52; 210; 6; 150; 94; 134; 179; 233; 79; 83; 110; 66; 70] = sm4_k1.
Proof. vm_compute. reflexivity. Qed.
Example sm4_rk0 : hd 0 (sm4_round_keys sm4_k1) = 4045506297.   (* F12186F9 *)
Proof. vm_compute. reflexivity. Qed.
(* regression value recorded from OpenSSL at authoring time (not a standard vector) *)
Example sm4_regression : sm4_enc [16; 17; 18; 19; 20; 21; 22; 23; 24; 25; 26; 27; 28; 29; 30; 31] [100; 101; 102; 103; 104; 105; 106; 107; 108; 109; 110; 111; 112; 113; 114; 115] = [200; 166; 98; 157; 65; 197; 87; 206; 138; 214; 233; 125; 174; 160; 121; 177].
Proof. vm_compute. reflexivity. Qed.
