(* Crypto/Hkdf.v -- HKDF (RFC 5869) over HMAC-SHA-256.  Definitions only. *)
From Coq Require Import ZArith NArith List Bool.
Require Import Value Bytes Sha2 Hmac.
Import ListNotations.
Local Open Scope N_scope.

Definition hkdf_extract (salt ikm : list N) : list N :=
  hmac_sha256 (match salt with [] => zeros 32 | _ => salt end) ikm.

(* T(1) .. T(n) concatenated *)
Fixpoint hkdf_expand_loop (n : nat) (prk info prev : list N) (i : N) : list N :=
  match n with
  | O => []
  | S n' => let t := hmac_sha256 prk (prev ++ info ++ [i]) in t ++ hkdf_expand_loop n' prk info t (i + 1)
  end.

Definition hkdf_expand (prk info : list N) (len : nat) : list N :=
  firstn len (hkdf_expand_loop (Nat.div (len + 31) 32) prk info [] 1).

Definition hkdf_sha256 (salt ikm info : list N) (len : nat) : list N :=
  hkdf_expand (hkdf_extract salt ikm) info len.
