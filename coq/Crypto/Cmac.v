(* Crypto/Cmac.v -- CMAC (SP 800-38B / RFC 4493) over an abstract 16-byte block function.  Definitions only. *)
From Coq Require Import ZArith NArith List Bool.
Require Import Value Bytes Aes Modes.
Import ListNotations.
Local Open Scope N_scope.

(* doubling in GF(2^128), block as big-endian integer, R128 = 0x87 *)
Definition cmac_dbl (b : blk) : blk :=
  let v2 := 2 * be_dec b in
  be_enc BS (if v2 <? 2 ^ 128 then v2 else N.lxor (v2 - 2 ^ 128) 135).

Definition cmac_gen (E : blk -> blk) (msg : list N) : list N :=
  let k1 := cmac_dbl (E (zeros BS)) in
  let k2 := cmac_dbl k1 in
  let bs := chunks BS msg in
  let body := removelast bs in
  let lastb := last bs [] in
  let final := if Nat.eqb (length lastb) BS then xor_bytes lastb k1
               else xor_bytes (lastb ++ [128] ++ zeros (BS - 1 - length lastb)) k2 in
  cbc_mac E (body ++ [final]).

Definition aes_cmac (key msg : list N) : list N :=
  let rks := key_expansion key in cmac_gen (cipher_rks rks) msg.
