(* Crypto/Modes.v -- block cipher modes of operation over an abstract 16-byte block function.
   ECB / CBC / CTR (SP 800-38A), CCM (SP 800-38C, RFC 3610), XTS (IEEE 1619 / SP 800-38E, with
   ciphertext stealing).  Definitions only; the block functions E / D are arguments (already keyed).
   Test vectors with the concrete AES are in Crypto/ModesVectors.v. *)
From Coq Require Import ZArith NArith List Bool.
Require Import Value Bytes.
Import ListNotations.
Local Open Scope N_scope.

Definition blk := list N.
Definition BS : nat := 16.

(* ---------------- ECB ---------------- *)
Definition ecb_blocks (F : blk -> blk) (bs : list blk) : list blk := map F bs.
Definition ecb (F : blk -> blk) (m : list N) : list N := concat (ecb_blocks F (chunks BS m)).

(* ---------------- CBC ---------------- *)
Fixpoint cbc_enc_blocks (E : blk -> blk) (iv : blk) (bs : list blk) : list blk :=
  match bs with
  | [] => []
  | b :: t => let c := E (xor_bytes b iv) in c :: cbc_enc_blocks E c t
  end.
Fixpoint cbc_dec_blocks (D : blk -> blk) (iv : blk) (cs : list blk) : list blk :=
  match cs with
  | [] => []
  | c :: t => xor_bytes (D c) iv :: cbc_dec_blocks D c t
  end.
Definition cbc_enc (E : blk -> blk) (iv : blk) (m : list N) : list N := concat (cbc_enc_blocks E iv (chunks BS m)).
Definition cbc_dec (D : blk -> blk) (iv : blk) (c : list N) : list N := concat (cbc_dec_blocks D iv (chunks BS c)).

(* CBC-MAC with zero IV: last chaining value *)
Definition cbc_mac (E : blk -> blk) (bs : list blk) : blk :=
  fold_left (fun acc b => E (xor_bytes b acc)) bs (zeros BS).

(* ---------------- CTR: 128-bit big-endian counter block, wraps modulo 2^128 ---------------- *)
Definition inc_be (ctr : blk) : blk := be_enc (length ctr) (be_dec ctr + 1).
Fixpoint ctr_blocks (E : blk -> blk) (ctr : blk) (bs : list blk) : list blk :=
  match bs with
  | [] => []
  | b :: t => xor_bytes b (E ctr) :: ctr_blocks E (inc_be ctr) t
  end.
Definition ctr_xcrypt (E : blk -> blk) (ctr : blk) (m : list N) : list N := concat (ctr_blocks E ctr (chunks BS m)).

(* ---------------- CCM ---------------- *)
Definition pad16 (l : list N) : list N :=
  let r := Nat.modulo (length l) BS in
  match r with O => l | _ => l ++ zeros (BS - r) end.

Definition ccm_aad_enc (a : list N) : list N :=
  let n := nlen a in
  if n =? 0 then []
  else pad16 ((if n <? 65280 then be_enc 2 n
               else if n <? 4294967296 then [255; 254] ++ be_enc 4 n
               else [255; 255] ++ be_enc 8 n) ++ a).

Definition ccm_b0 (nonce : list N) (taglen : nat) (has_aad : bool) (plen : N) : blk :=
  let q := (15 - length nonce)%nat in
  let flags := (if has_aad then 64 else 0) + 8 * ((N.of_nat taglen - 2) / 2) + (N.of_nat q - 1) in
  flags :: nonce ++ be_enc q plen.

Definition ccm_ctr_block (nonce : list N) (i : N) : blk :=
  let q := (15 - length nonce)%nat in
  (N.of_nat q - 1) :: nonce ++ be_enc q i.

Fixpoint ccm_stream (E : blk -> blk) (nonce : list N) (i : N) (bs : list blk) : list blk :=
  match bs with
  | [] => []
  | b :: t => xor_bytes b (E (ccm_ctr_block nonce i)) :: ccm_stream E nonce (i + 1) t
  end.

Definition ccm_tag (E : blk -> blk) (nonce aad : list N) (taglen : nat) (payload : list N) : list N :=
  let b0 := ccm_b0 nonce taglen (negb (nlen aad =? 0)) (nlen payload) in
  let t := cbc_mac E (b0 :: chunks BS (ccm_aad_enc aad) ++ chunks BS (pad16 payload)) in
  xor_bytes (firstn taglen t) (E (ccm_ctr_block nonce 0)).

Definition ccm_crypt (E : blk -> blk) (nonce : list N) (data : list N) : list N :=
  concat (ccm_stream E nonce 1 (chunks BS data)).

(* output = ciphertext ++ tag (as cryptography's AESCCM) *)
Definition ccm_encrypt (E : blk -> blk) (nonce aad : list N) (taglen : nat) (payload : list N) : list N :=
  ccm_crypt E nonce payload ++ ccm_tag E nonce aad taglen payload.

Definition ccm_decrypt (E : blk -> blk) (nonce aad : list N) (taglen : nat) (data : list N) : option (list N) :=
  if Nat.ltb (length data) taglen then None
  else
    let n := (length data - taglen)%nat in
    let ct := firstn n data in
    let tag := skipn n data in
    let p := ccm_crypt E nonce ct in
    if eqb_list (ccm_tag E nonce aad taglen p) tag then Some p else None.

Definition ccm_nonce_ok (nonce : list N) : bool := Nat.leb 7 (length nonce) && Nat.leb (length nonce) 13.
Definition ccm_tag_ok (taglen : Z) : bool :=
  ((4 <=? taglen) && (taglen <=? 16) && Z.even taglen)%Z.
(* payload length must fit in q = 15 - |nonce| bytes *)
Definition ccm_len_ok (nonce : list N) (plen : nat) : bool :=
  N.of_nat plen <? 2 ^ (8 * N.of_nat (15 - length nonce)).

(* ---------------- XTS ---------------- *)
(* multiplication by alpha in GF(2^128), tweak as little-endian integer *)
Definition xts_mul_alpha (t : blk) : blk :=
  let v := le_dec t in
  let v2 := 2 * v in
  le_enc BS (if v2 <? 2 ^ 128 then v2 else N.lxor (v2 - 2 ^ 128) 135).

Definition xts_block (F : blk -> blk) (t : blk) (b : blk) : blk := xor_bytes (F (xor_bytes b t)) t.

(* F = E1 for encryption, D1 for decryption; dec selects the tweak order of the stolen pair *)
Fixpoint xts_blocks (F : blk -> blk) (dec : bool) (t : blk) (bs : list blk) : list blk :=
  match bs with
  | [] => []
  | b :: rest =>
      match rest with
      | [last] =>
          if Nat.ltb (length last) BS then
            let t2 := xts_mul_alpha t in
            let n := length last in
            if dec then
              let pp := xts_block F t2 b in
              let cc := last ++ skipn n pp in
              [xts_block F t cc; firstn n pp]
            else
              let cc := xts_block F t b in
              let pp := last ++ skipn n cc in
              [xts_block F t2 pp; firstn n cc]
          else xts_block F t b :: xts_blocks F dec (xts_mul_alpha t) rest
      | _ => xts_block F t b :: xts_blocks F dec (xts_mul_alpha t) rest
      end
  end.

(* E2 encrypts the tweak; data of at least one block *)
Definition xts_crypt (F : blk -> blk) (E2 : blk -> blk) (dec : bool) (tweak : blk) (m : list N) : list N :=
  concat (xts_blocks F dec (E2 tweak) (chunks BS m)).
