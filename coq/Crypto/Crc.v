(* Crypto/Crc.v -- bit-serial CRC in the Rocksoft parametrisation (width, poly, init, refin, refout, xorout).
   Definitions only.  The register is processed most-significant-bit first; reflection is done literally. *)
From Coq Require Import ZArith NArith List Bool.
Require Import Value Bytes.
Import ListNotations.
Local Open Scope N_scope.

Record crc_params := { crc_width : N; crc_poly : N; crc_init : N; crc_refin : bool; crc_refout : bool; crc_xorout : N }.

(* reverse the low w bits of x *)
Fixpoint reflect_fuel (w : nat) (x acc : N) : N :=
  match w with
  | O => acc
  | S w' => reflect_fuel w' (N.div2 x) (2 * acc + (if N.odd x then 1 else 0))
  end.
Definition reflect (w : N) (x : N) : N := reflect_fuel (N.to_nat w) x 0.

Fixpoint crc_bits (n : nat) (w poly reg : N) : N :=
  match n with
  | O => reg
  | S n' =>
      let top := N.testbit reg (w - 1) in
      let sh := N.land (N.shiftl reg 1) (N.ones w) in
      crc_bits n' w poly (if top then N.lxor sh poly else sh)
  end.

(* register update for one byte (width >= 8) *)
Definition crc_byte (p : crc_params) (reg b : N) : N :=
  let b' := if crc_refin p then reflect 8 b else b in
  crc_bits 8 (crc_width p) (crc_poly p) (N.lxor reg (N.shiftl b' (crc_width p - 8))).

Definition crc_update (p : crc_params) (reg : N) (data : list N) : N := fold_left (crc_byte p) data reg.

Definition crc_finish (p : crc_params) (reg : N) : N :=
  N.lxor (if crc_refout p then reflect (crc_width p) reg else reg) (crc_xorout p).

Definition crc (p : crc_params) (data : list N) : N := crc_finish p (crc_update p (crc_init p) data).

(* the catalogue entries ("Catalogue of parametrised CRC algorithms", reveng) *)
Definition CRC32 : crc_params :=        (* CRC-32/ISO-HDLC *)
  {| crc_width := 32; crc_poly := 0x04C11DB7; crc_init := 0xFFFFFFFF; crc_refin := true; crc_refout := true; crc_xorout := 0xFFFFFFFF |}.
Definition CRC32_MPEG2 : crc_params :=  (* CRC-32/MPEG-2 *)
  {| crc_width := 32; crc_poly := 0x04C11DB7; crc_init := 0xFFFFFFFF; crc_refin := false; crc_refout := false; crc_xorout := 0 |}.
Definition CRC16_XMODEM : crc_params := (* CRC-16/XMODEM *)
  {| crc_width := 16; crc_poly := 0x1021; crc_init := 0; crc_refin := false; crc_refout := false; crc_xorout := 0 |}.

Definition check_msg : list N := [49; 50; 51; 52; 53; 54; 55; 56; 57].    (* "123456789" *)
Example crc32_check : crc CRC32 check_msg = 0xCBF43926.
Proof. vm_compute. reflexivity. Qed.
Example crc32_mpeg2_check : crc CRC32_MPEG2 check_msg = 0x0376E6E7.
Proof. vm_compute. reflexivity. Qed.
Example crc16_xmodem_check : crc CRC16_XMODEM check_msg = 0x31C3.
Proof. vm_compute. reflexivity. Qed.
Example crc32_poly_hex : (crc_poly CRC32 = 0x04C11DB7 /\ crc_poly CRC16_XMODEM = 0x1021).
Proof. split; reflexivity. Qed.
