(* Crypto/Aes.v -- AES-128/192/256 block cipher written from FIPS 197 over N.  Definitions only.
   State = list of 16 bytes in FIPS input order (index r + 4c).  S-box generated from the GF(2^8)
   inverse + affine map; validated on the FIPS 197 appendix C vectors below. *)
From Coq Require Import ZArith NArith List Bool.
Require Import Value Bytes.
Import ListNotations.
Local Open Scope N_scope.

(* ---- 256-entry tables as binary tries indexed by the bits of the argument, least significant first ---- *)
Inductive tbl := TL (v : N) | TN (l r : tbl).

Fixpoint evens (l : list N) : list N := match l with a :: _ :: t => a :: evens t | a :: nil => [a] | nil => [] end.
Fixpoint odds (l : list N) : list N := match l with _ :: b :: t => b :: odds t | _ => [] end.
Fixpoint tbl_build (d : nat) (l : list N) : tbl :=
  match d with
  | O => TL (hd 0 l)
  | S d' => TN (tbl_build d' (evens l)) (tbl_build d' (odds l))
  end.
Fixpoint tbl_zero (t : tbl) : N := match t with TL v => v | TN l _ => tbl_zero l end.
Fixpoint tbl_get_pos (t : tbl) (p : positive) : N :=
  match t with
  | TL v => v
  | TN l r => match p with
              | xH => tbl_zero r
              | xO q => tbl_get_pos l q
              | xI q => tbl_get_pos r q
              end
  end.
Definition tbl_get (t : tbl) (x : N) : N := match x with N0 => tbl_zero t | Npos p => tbl_get_pos t p end.
Fixpoint tbl_all (f : N -> bool) (t : tbl) : bool :=
  match t with TL v => f v | TN l r => tbl_all f l && tbl_all f r end.

Definition sbox_list : list N := [99; 124; 119; 123; 242; 107; 111; 197; 48; 1; 103; 43; 254; 215; 171; 118; 202; 130; 201; 125; 250; 89; 71; 240; 173; 212; 162; 175; 156; 164; 114; 192; 183; 253; 147; 38; 54; 63; 247; 204; 52; 165; 229; 241; 113; 216; 49; 21; 4; 199; 35; 195; 24; 150; 5; 154; 7; 18; 128; 226; 235; 39; 178; 117; 9; 131; 44; 26; 27; 110; 90; 160; 82; 59; 214; 179; 41; 227; 47; 132; 83; 209; 0; 237; 32; 252; 177; 91; 106; 203; 190; 57; 74; 76; 88; 207; 208; 239; 170; 251; 67; 77; 51; 133; 69; 249; 2; 127; 80; 60; 159; 168; 81; 163; 64; 143; 146; 157; 56; 245; 188; 182; 218; 33; 16; 255; 243; 210; 205; 12; 19; 236; 95; 151; 68; 23; 196; 167; 126; 61; 100; 93; 25; 115; 96; 129; 79; 220; 34; 42; 144; 136; 70; 238; 184; 20; 222; 94; 11; 219; 224; 50; 58; 10; 73; 6; 36; 92; 194; 211; 172; 98; 145; 149; 228; 121; 231; 200; 55; 109; 141; 213; 78; 169; 108; 86; 244; 234; 101; 122; 174; 8; 186; 120; 37; 46; 28; 166; 180; 198; 232; 221; 116; 31; 75; 189; 139; 138; 112; 62; 181; 102; 72; 3; 246; 14; 97; 53; 87; 185; 134; 193; 29; 158; 225; 248; 152; 17; 105; 217; 142; 148; 155; 30; 135; 233; 206; 85; 40; 223; 140; 161; 137; 13; 191; 230; 66; 104; 65; 153; 45; 15; 176; 84; 187; 22].
Definition isbox_list : list N := [82; 9; 106; 213; 48; 54; 165; 56; 191; 64; 163; 158; 129; 243; 215; 251; 124; 227; 57; 130; 155; 47; 255; 135; 52; 142; 67; 68; 196; 222; 233; 203; 84; 123; 148; 50; 166; 194; 35; 61; 238; 76; 149; 11; 66; 250; 195; 78; 8; 46; 161; 102; 40; 217; 36; 178; 118; 91; 162; 73; 109; 139; 209; 37; 114; 248; 246; 100; 134; 104; 152; 22; 212; 164; 92; 204; 93; 101; 182; 146; 108; 112; 72; 80; 253; 237; 185; 218; 94; 21; 70; 87; 167; 141; 157; 132; 144; 216; 171; 0; 140; 188; 211; 10; 247; 228; 88; 5; 184; 179; 69; 6; 208; 44; 30; 143; 202; 63; 15; 2; 193; 175; 189; 3; 1; 19; 138; 107; 58; 145; 17; 65; 79; 103; 220; 234; 151; 242; 207; 206; 240; 180; 230; 115; 150; 172; 116; 34; 231; 173; 53; 133; 226; 249; 55; 232; 28; 117; 223; 110; 71; 241; 26; 113; 29; 41; 197; 137; 111; 183; 98; 14; 170; 24; 190; 27; 252; 86; 62; 75; 198; 210; 121; 32; 154; 219; 192; 254; 120; 205; 90; 244; 31; 221; 168; 51; 136; 7; 199; 49; 177; 18; 16; 89; 39; 128; 236; 95; 96; 81; 127; 169; 25; 181; 74; 13; 45; 229; 122; 159; 147; 201; 156; 239; 160; 224; 59; 77; 174; 42; 245; 176; 200; 235; 187; 60; 131; 83; 153; 97; 23; 43; 4; 126; 186; 119; 214; 38; 225; 105; 20; 99; 85; 33; 12; 125].
Definition sbox_tbl : tbl := Eval vm_compute in tbl_build 8 sbox_list.
Definition isbox_tbl : tbl := Eval vm_compute in tbl_build 8 isbox_list.
Definition sbox (x : N) : N := tbl_get sbox_tbl x.
Definition isbox (x : N) : N := tbl_get isbox_tbl x.

(* ---- GF(2^8) multiplication by the MixColumns constants ---- *)
Definition xtime (x : N) : N := let y := 2 * x in if y <? 256 then y else N.lxor y 283.
Definition g2 (x : N) : N := xtime x.
Definition g3 (x : N) : N := N.lxor (xtime x) x.
Definition g9 (x : N) : N := N.lxor (xtime (xtime (xtime x))) x.
Definition g11 (x : N) : N := N.lxor (N.lxor (xtime (xtime (xtime x))) (xtime x)) x.
Definition g13 (x : N) : N := N.lxor (N.lxor (xtime (xtime (xtime x))) (xtime (xtime x))) x.
Definition g14 (x : N) : N := N.lxor (N.lxor (xtime (xtime (xtime x))) (xtime (xtime x))) (xtime x).

Definition x4 (a b c d : N) : N := N.lxor (N.lxor (N.lxor a b) c) d.

Definition mc_col (a b c d : N) : list N :=
  [x4 (g2 a) (g3 b) c d; x4 a (g2 b) (g3 c) d; x4 a b (g2 c) (g3 d); x4 (g3 a) b c (g2 d)].
Definition imc_col (a b c d : N) : list N :=
  [x4 (g14 a) (g11 b) (g13 c) (g9 d); x4 (g9 a) (g14 b) (g11 c) (g13 d);
   x4 (g13 a) (g9 b) (g14 c) (g11 d); x4 (g11 a) (g13 b) (g9 c) (g14 d)].

Definition sub_bytes (s : list N) : list N := map sbox s.
Definition inv_sub_bytes (s : list N) : list N := map isbox s.

Definition shift_rows (s : list N) : list N :=
  match s with
  | [s0; s1; s2; s3; s4; s5; s6; s7; s8; s9; s10; s11; s12; s13; s14; s15] =>
      [s0; s5; s10; s15; s4; s9; s14; s3; s8; s13; s2; s7; s12; s1; s6; s11]
  | _ => s
  end.
Definition inv_shift_rows (s : list N) : list N :=
  match s with
  | [s0; s1; s2; s3; s4; s5; s6; s7; s8; s9; s10; s11; s12; s13; s14; s15] =>
      [s0; s13; s10; s7; s4; s1; s14; s11; s8; s5; s2; s15; s12; s9; s6; s3]
  | _ => s
  end.
Definition mix_columns (s : list N) : list N :=
  match s with
  | [s0; s1; s2; s3; s4; s5; s6; s7; s8; s9; s10; s11; s12; s13; s14; s15] =>
      mc_col s0 s1 s2 s3 ++ mc_col s4 s5 s6 s7 ++ mc_col s8 s9 s10 s11 ++ mc_col s12 s13 s14 s15
  | _ => s
  end.
Definition inv_mix_columns (s : list N) : list N :=
  match s with
  | [s0; s1; s2; s3; s4; s5; s6; s7; s8; s9; s10; s11; s12; s13; s14; s15] =>
      imc_col s0 s1 s2 s3 ++ imc_col s4 s5 s6 s7 ++ imc_col s8 s9 s10 s11 ++ imc_col s12 s13 s14 s15
  | _ => s
  end.

Definition add_round_key (k s : list N) : list N := xor_bytes s k.

Definition aes_round (k s : list N) : list N := add_round_key k (mix_columns (shift_rows (sub_bytes s))).
Definition aes_final (k s : list N) : list N := add_round_key k (shift_rows (sub_bytes s)).
Definition aes_inv_round (k s : list N) : list N := inv_sub_bytes (inv_shift_rows (inv_mix_columns (add_round_key k s))).
Definition aes_inv_final (k s : list N) : list N := inv_sub_bytes (inv_shift_rows (add_round_key k s)).

(* Cipher / InvCipher (FIPS 197 fig. 5 / fig. 12) over an explicit list of round keys *)
Fixpoint enc_loop (rks : list (list N)) (s : list N) : list N :=
  match rks with
  | [] => s
  | k :: more => match more with
                 | [] => aes_final k s
                 | _ => enc_loop more (aes_round k s)
                 end
  end.
Fixpoint dec_loop (rks : list (list N)) (c : list N) : list N :=
  match rks with
  | [] => c
  | k :: more => match more with
                 | [] => aes_inv_final k c
                 | _ => aes_inv_round k (dec_loop more c)
                 end
  end.
Definition cipher_rks (rks : list (list N)) (b : list N) : list N :=
  match rks with [] => b | k0 :: rest => enc_loop rest (add_round_key k0 b) end.
Definition inv_cipher_rks (rks : list (list N)) (c : list N) : list N :=
  match rks with [] => c | k0 :: rest => add_round_key k0 (dec_loop rest c) end.

(* ---- KeyExpansion (FIPS 197 5.2); words are 4-byte lists, accumulator newest first ---- *)
Definition sub_word (w : list N) : list N := map sbox w.
Definition rot_word (w : list N) : list N := match w with a :: t => t ++ [a] | [] => [] end.

Fixpoint ke_loop (fuel : nat) (nk i : nat) (rc : N) (acc : list (list N)) : list (list N) :=
  match fuel with
  | O => rev acc
  | S f =>
      let prev := hd [] acc in
      let back := nth (nk - 1) acc [] in
      let r := Nat.modulo i nk in
      if Nat.eqb r 0 then
        ke_loop f nk (S i) (xtime rc) (xor_bytes back (xor_bytes (sub_word (rot_word prev)) [rc; 0; 0; 0]) :: acc)
      else if Nat.ltb 6 nk && Nat.eqb r 4 then
        ke_loop f nk (S i) rc (xor_bytes back (sub_word prev) :: acc)
      else ke_loop f nk (S i) rc (xor_bytes back prev :: acc)
  end.

Definition key_words (key : list N) : list (list N) :=
  let nk := Nat.div (length key) 4 in
  ke_loop (3 * nk + 28) nk nk 1 (rev (chunks 4 key)).

Fixpoint rk_of_words (ws : list (list N)) : list (list N) :=
  match ws with
  | a :: b :: c :: d :: t => (a ++ b ++ c ++ d) :: rk_of_words t
  | _ => []
  end.

Definition key_expansion (key : list N) : list (list N) := rk_of_words (key_words key).

Definition aes_key_ok (key : list N) : bool :=
  let n := length key in (Nat.eqb n 16 || Nat.eqb n 24 || Nat.eqb n 32).

(* block functions; key must satisfy aes_key_ok, block has 16 bytes *)
Definition aes_enc (key b : list N) : list N := cipher_rks (key_expansion key) b.
Definition aes_dec (key c : list N) : list N := inv_cipher_rks (key_expansion key) c.

(* ---- FIPS 197 Appendix C vectors (+ Appendix B) ---- *)
Definition pt_c : list N := [0; 17; 34; 51; 68; 85; 102; 119; 136; 153; 170; 187; 204; 221; 238; 255].
Example aes128_c1 : aes_enc [0; 1; 2; 3; 4; 5; 6; 7; 8; 9; 10; 11; 12; 13; 14; 15] pt_c = [105; 196; 224; 216; 106; 123; 4; 48; 216; 205; 183; 128; 112; 180; 197; 90].
Proof. vm_compute. reflexivity. Qed.
Example aes192_c2 : aes_enc [0; 1; 2; 3; 4; 5; 6; 7; 8; 9; 10; 11; 12; 13; 14; 15; 16; 17; 18; 19; 20; 21; 22; 23] pt_c = [221; 169; 124; 164; 134; 76; 223; 224; 110; 175; 112; 160; 236; 13; 113; 145].
Proof. vm_compute. reflexivity. Qed.
Example aes256_c3 : aes_enc [0; 1; 2; 3; 4; 5; 6; 7; 8; 9; 10; 11; 12; 13; 14; 15; 16; 17; 18; 19; 20; 21; 22; 23; 24; 25; 26; 27; 28; 29; 30; 31] pt_c = [142; 162; 183; 202; 81; 103; 69; 191; 234; 252; 73; 144; 75; 73; 96; 137].
Proof. vm_compute. reflexivity. Qed.
Example aes128_c1_inv : aes_dec [0; 1; 2; 3; 4; 5; 6; 7; 8; 9; 10; 11; 12; 13; 14; 15] [105; 196; 224; 216; 106; 123; 4; 48; 216; 205; 183; 128; 112; 180; 197; 90] = pt_c.
Proof. vm_compute. reflexivity. Qed.
Example aes192_c2_inv : aes_dec [0; 1; 2; 3; 4; 5; 6; 7; 8; 9; 10; 11; 12; 13; 14; 15; 16; 17; 18; 19; 20; 21; 22; 23] [221; 169; 124; 164; 134; 76; 223; 224; 110; 175; 112; 160; 236; 13; 113; 145] = pt_c.
Proof. vm_compute. reflexivity. Qed.
Example aes256_c3_inv : aes_dec [0; 1; 2; 3; 4; 5; 6; 7; 8; 9; 10; 11; 12; 13; 14; 15; 16; 17; 18; 19; 20; 21; 22; 23; 24; 25; 26; 27; 28; 29; 30; 31] [142; 162; 183; 202; 81; 103; 69; 191; 234; 252; 73; 144; 75; 73; 96; 137] = pt_c.
Proof. vm_compute. reflexivity. Qed.
Example aes128_appendix_b : aes_enc [43; 126; 21; 22; 40; 174; 210; 166; 171; 247; 21; 136; 9; 207; 79; 60] [50; 67; 246; 168; 136; 90; 48; 141; 49; 49; 152; 162; 224; 55; 7; 52] = [57; 37; 132; 29; 2; 220; 9; 251; 220; 17; 133; 151; 25; 106; 11; 50].
Proof. vm_compute. reflexivity. Qed.
Example aes128_last_round_key : last (key_expansion [43; 126; 21; 22; 40; 174; 210; 166; 171; 247; 21; 136; 9; 207; 79; 60]) [] = [208; 20; 249; 168; 201; 238; 37; 137; 225; 63; 12; 200; 182; 99; 12; 166].
Proof. vm_compute. reflexivity. Qed.
