(* Crypto/Hmac.v -- HMAC (RFC 2104 / FIPS 198-1) over an abstract hash with block size B.  Definitions only. *)
From Coq Require Import ZArith NArith List Bool.
Require Import Value Bytes Sha2.
Import ListNotations.
Local Open Scope N_scope.

Definition hmac_gen (H : list N -> list N) (B : nat) (key msg : list N) : list N :=
  let k0 := if Nat.ltb B (length key) then H key else key in
  let k := k0 ++ zeros (B - length k0) in
  let ipad := map (fun b => N.lxor b 54) k in
  let opad := map (fun b => N.lxor b 92) k in
  H (opad ++ H (ipad ++ msg)).

Definition hmac_sha256 := hmac_gen sha256 64.
Definition hmac_sha384 := hmac_gen sha384 128.
Definition hmac_sha512 := hmac_gen sha512 128.
