(* Crypto/KeyWrap.v -- AES key wrap (RFC 3394, default IV A6A6A6A6A6A6A6A6) over an abstract block function.
   Definitions only.  R blocks are 8-byte lists; step counter t = n*j + i runs 1 .. 6n. *)
From Coq Require Import ZArith NArith List Bool.
Require Import Value Bytes Aes Modes.
Import ListNotations.
Local Open Scope N_scope.

Definition kw_iv : list N := repeat 166 8.

(* one pass over the R blocks: returns (A, new R) ; t is the counter of the first block of the pass *)
Fixpoint kw_pass (E : blk -> blk) (a : list N) (t : N) (rs : list (list N)) : list N * list (list N) :=
  match rs with
  | [] => (a, [])
  | r :: rest =>
      let b := E (a ++ r) in
      let a' := xor_bytes (firstn 8 b) (be_enc 8 t) in
      let '(a'', rest') := kw_pass E a' (t + 1) rest in
      (a'', skipn 8 b :: rest')
  end.

Fixpoint kw_passes (E : blk -> blk) (j : nat) (a : list N) (t : N) (rs : list (list N)) : list N * list (list N) :=
  match j with
  | O => (a, rs)
  | S j' => let '(a', rs') := kw_pass E a t rs in kw_passes E j' a' (t + nlen rs) rs'
  end.

Definition kw_wrap (E : blk -> blk) (key_data : list N) : list N :=
  let '(a, rs) := kw_passes E 6 kw_iv 1 (chunks 8 key_data) in a ++ concat rs.

(* inverse pass: blocks processed last to first, t is the counter of the LAST block of the pass *)
Fixpoint kw_unpass (D : blk -> blk) (a : list N) (t : N) (rs_rev : list (list N)) : list N * list (list N) :=
  match rs_rev with
  | [] => (a, [])
  | r :: rest =>
      let b := D (xor_bytes a (be_enc 8 t) ++ r) in
      let '(a', rest') := kw_unpass D (firstn 8 b) (t - 1) rest in
      (a', skipn 8 b :: rest')
  end.

(* rs_rev is kept reversed between passes *)
Fixpoint kw_unpasses (D : blk -> blk) (j : nat) (a : list N) (t : N) (rs_rev : list (list N)) : list N * list (list N) :=
  match j with
  | O => (a, rs_rev)
  | S j' => let '(a', rs') := kw_unpass D a t rs_rev in kw_unpasses D j' a' (t - nlen rs_rev) rs'
  end.

Definition kw_unwrap (D : blk -> blk) (wrapped : list N) : option (list N) :=
  let a0 := firstn 8 wrapped in
  let rs := chunks 8 (skipn 8 wrapped) in
  let '(a, rs_rev) := kw_unpasses D 6 a0 (6 * nlen rs) (rev rs) in
  if eqb_list a kw_iv then Some (concat (rev rs_rev)) else None.

Definition aes_kw_wrap (kek key_data : list N) : list N :=
  let rks := key_expansion kek in kw_wrap (cipher_rks rks) key_data.
Definition aes_kw_unwrap (kek wrapped : list N) : option (list N) :=
  let rks := key_expansion kek in kw_unwrap (inv_cipher_rks rks) wrapped.
