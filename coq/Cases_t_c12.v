From Coq Require Import ZArith NArith List.
Require Import Value Bytes RegsModel GenAreas AreaModel.
Import ListNotations.
Time Eval vm_compute in (length (g_regs (a_regs (nth 3 all_areas dflt_area)))).
Time Eval vm_compute in (length (g_regs (a_regs (nth 4 all_areas dflt_area)))).
Time Eval vm_compute in (length (g_regs (a_regs area_5))).
Time Eval vm_compute in (match area_export area_5 (a_regs area_5) false with Ok b => length b | _ => 0%nat end).
Time Eval vm_compute in (match area_export area_5 (a_regs area_5) false with Ok b => length b | _ => 0%nat end).
Time Eval vm_compute in (match area_get_config area_5 (a_regs area_5) with Ok b => length b | _ => 0%nat end).
