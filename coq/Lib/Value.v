(* Lib/Value.v -- interchange type between harness, Coq models and the extracted driver.
   Definitions only (no proofs): models must keep running when a proof breaks. *)
From Coq Require Import ZArith NArith List.
Import ListNotations.

Definition byte := N.
Definition bytes := list N.

Inductive value : Type :=
| VInt (z : Z)
| VBytes (l : list N)
| VStr (l : list N)          (* code points *)
| VList (l : list value)
| VErr (k : N).              (* 1 = rejected with an SPSDK error, 2 = other exception, 3 = hang / out of fuel *)

(* Result type of translated / modelled partial functions. *)
Inductive res (A : Type) : Type :=
| Ok (a : A)
| Err (k : N).
Arguments Ok {A} a.
Arguments Err {A} k.

Definition E_REJECT : N := 1.
Definition E_CRASH : N := 2.
Definition E_HANG : N := 3.

Definition bind {A B} (r : res A) (f : A -> res B) : res B :=
  match r with Ok a => f a | Err k => Err k end.

Definition res_map {A B} (f : A -> B) (r : res A) : res B :=
  match r with Ok a => Ok (f a) | Err k => Err k end.

Definition is_ok {A} (r : res A) : bool := match r with Ok _ => true | Err _ => false end.

Definition vres {A} (f : A -> value) (r : res A) : value :=
  match r with Ok a => f a | Err k => VErr k end.

Definition vbool (b : bool) : value := VInt (if b then 1 else 0)%Z.
Definition vnat (n : nat) : value := VInt (Z.of_nat n).
Definition vN (n : N) : value := VInt (Z.of_N n).
Definition vopt {A} (f : A -> value) (o : option A) : value :=
  match o with Some a => VList [f a] | None => VList [] end.

(* accessors used by run_case dispatchers: malformed harness input yields VErr 99 *)
Definition E_BADCASE : N := 99.
