(* Lib/Bytes.v -- byte strings as list N; integer codecs; slices.  Definitions only. *)
From Coq Require Import ZArith NArith List Bool.
Require Import Value.
Import ListNotations.
Local Open Scope N_scope.

Definition wf_byte (b : N) : Prop := b < 256.
Definition wf_bytes (l : list N) : Prop := Forall wf_byte l.
Definition wf_byteb (b : N) : bool := b <? 256.
Definition wf_bytesb (l : list N) : bool := forallb wf_byteb l.

Fixpoint le_enc (w : nat) (n : N) : list N :=
  match w with
  | O => []
  | S w' => (n mod 256) :: le_enc w' (n / 256)
  end.

Fixpoint le_dec (l : list N) : N :=
  match l with
  | [] => 0
  | b :: t => b + 256 * le_dec t
  end.

Definition be_enc (w : nat) (n : N) : list N := rev (le_enc w n).
Definition be_dec (l : list N) : N := le_dec (rev l).

(* Python slice data[a:b] for 0 <= a, b (clamped) *)
Definition slice {A} (l : list A) (a b : nat) : list A := firstn (b - a) (skipn a l).

(* Python bytearray slice assignment buf[off:off+len(d)] = d  (may grow the buffer) *)
Definition splice {A} (buf : list A) (off : nat) (d : list A) : list A :=
  firstn off buf ++ d ++ skipn (off + length d) buf.

Definition repeatN {A} (x : A) (n : nat) : list A := repeat x n.

Definition zeros (n : nat) : list N := repeat 0 n.

Definition xor_bytes (a b : list N) : list N := map (fun p => N.lxor (fst p) (snd p)) (combine a b).

Fixpoint chunks_fuel {A} (fuel : nat) (k : nat) (l : list A) : list (list A) :=
  match fuel with
  | O => []
  | S f => match l with
           | [] => []
           | _ => firstn k l :: chunks_fuel f k (skipn k l)
           end
  end.
(* split into pieces of k elements (last may be shorter); k > 0 *)
Definition chunks {A} (k : nat) (l : list A) : list (list A) := chunks_fuel (length l) k l.

Fixpoint eqb_list (a b : list N) : bool :=
  match a, b with
  | [], [] => true
  | x :: a', y :: b' => (x =? y) && eqb_list a' b'
  | _, _ => false
  end.

(* N <-> Z helpers for models that mix lengths and values *)
Definition nlen {A} (l : list A) : N := N.of_nat (length l).
Definition zlen {A} (l : list A) : Z := Z.of_nat (length l).
