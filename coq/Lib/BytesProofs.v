(* Lib/BytesProofs.v -- laws of the integer codecs and slices. *)
From Coq Require Import ZArith NArith List Bool Lia.
Require Import Value Bytes.
Import ListNotations.
Local Open Scope N_scope.

Lemma le_enc_length w n : length (le_enc w n) = w.
Proof. revert n; induction w as [|w IH]; intros n; simpl; [reflexivity| now rewrite IH]. Qed.

Lemma be_enc_length w n : length (be_enc w n) = w.
Proof. unfold be_enc; now rewrite rev_length, le_enc_length. Qed.

Lemma le_enc_wf w n : wf_bytes (le_enc w n).
Proof.
  revert n; induction w as [|w IH]; intros n; simpl; constructor.
  - unfold wf_byte. apply N.mod_lt. lia.
  - apply IH.
Qed.

Lemma be_enc_wf w n : wf_bytes (be_enc w n).
Proof. unfold be_enc, wf_bytes. apply Forall_rev. apply le_enc_wf. Qed.

Lemma le_dec_enc w n : le_dec (le_enc w n) = n mod 2 ^ (8 * N.of_nat w).
Proof.
  revert n; induction w as [|w IH]; intros n.
  - simpl. now rewrite N.mod_1_r.
  - cbn [le_enc le_dec]. rewrite IH.
    replace (8 * N.of_nat (S w)) with (8 + 8 * N.of_nat w) by lia.
    rewrite N.pow_add_r. change (2 ^ 8) with 256.
    rewrite N.mod_mul_r by (try apply N.pow_nonzero; lia). lia.
Qed.

Lemma le_dec_enc_small w n : n < 2 ^ (8 * N.of_nat w) -> le_dec (le_enc w n) = n.
Proof. intros H. rewrite le_dec_enc. now apply N.mod_small. Qed.

Lemma be_dec_enc w n : be_dec (be_enc w n) = n mod 2 ^ (8 * N.of_nat w).
Proof. unfold be_dec, be_enc. rewrite rev_involutive. apply le_dec_enc. Qed.

Lemma be_dec_enc_small w n : n < 2 ^ (8 * N.of_nat w) -> be_dec (be_enc w n) = n.
Proof. intros H. rewrite be_dec_enc. now apply N.mod_small. Qed.

Lemma le_dec_bound l : wf_bytes l -> le_dec l < 2 ^ (8 * N.of_nat (length l)).
Proof.
  induction l as [|b t IH]; intros H.
  - simpl. lia.
  - inversion H as [|? ? Hb Ht]; subst. specialize (IH Ht).
    cbn [le_dec length].
    replace (8 * N.of_nat (S (length t))) with (8 + 8 * N.of_nat (length t)) by lia.
    rewrite N.pow_add_r. change (2 ^ 8) with 256. unfold wf_byte in Hb. nia.
Qed.

Lemma le_enc_dec l : wf_bytes l -> le_enc (length l) (le_dec l) = l.
Proof.
  induction l as [|b t IH]; intros H; [reflexivity|].
  inversion H as [|? ? Hb Ht]; subst. unfold wf_byte in Hb.
  cbn [le_dec length le_enc].
  assert (E1 : (b + 256 * le_dec t) mod 256 = b).
  { rewrite N.mul_comm, N.mod_add by lia. now apply N.mod_small. }
  assert (E2 : (b + 256 * le_dec t) / 256 = le_dec t).
  { rewrite N.mul_comm, N.div_add by lia. rewrite N.div_small by assumption. lia. }
  rewrite E1, E2, IH by assumption. reflexivity.
Qed.

Lemma be_enc_dec l : wf_bytes l -> be_enc (length l) (be_dec l) = l.
Proof.
  intros H. unfold be_enc, be_dec.
  rewrite <- (rev_length l). rewrite le_enc_dec.
  - apply rev_involutive.
  - unfold wf_bytes. now apply Forall_rev.
Qed.

Lemma wf_bytesb_spec l : wf_bytesb l = true <-> wf_bytes l.
Proof.
  unfold wf_bytesb, wf_bytes. rewrite forallb_forall, Forall_forall.
  unfold wf_byteb, wf_byte. split; intros H x Hx; specialize (H x Hx); now apply N.ltb_lt.
Qed.

Lemma slice_length {A} (l : list A) a b :
  (b <= length l)%nat -> length (slice l a b) = (b - a)%nat.
Proof. intros H. unfold slice. rewrite firstn_length, skipn_length. lia. Qed.

Lemma splice_length {A} (buf d : list A) off :
  (off + length d <= length buf)%nat -> length (splice buf off d) = length buf.
Proof.
  intros H. unfold splice. rewrite !app_length, firstn_length, skipn_length. lia.
Qed.

Lemma splice_slice {A} (buf d : list A) off :
  (off <= length buf)%nat -> slice (splice buf off d) off (off + length d) = d.
Proof.
  intros H. unfold slice, splice.
  replace (off + length d - off)%nat with (length d) by lia.
  rewrite skipn_app, firstn_length.
  replace (Nat.min off (length buf)) with off by lia.
  rewrite skipn_all2 by (rewrite firstn_length; lia).
  replace (off - off)%nat with 0%nat by lia. simpl.
  rewrite firstn_app. rewrite Nat.sub_diag. simpl. rewrite app_nil_r. apply firstn_all.
Qed.

Lemma eqb_list_spec a b : eqb_list a b = true <-> a = b.
Proof.
  revert b; induction a as [|x a IH]; intros [|y b]; simpl; split; intros H; try discriminate; try reflexivity.
  - apply andb_true_iff in H as [H1 H2]. apply N.eqb_eq in H1. apply IH in H2. now subst.
  - inversion H; subst. rewrite N.eqb_refl. simpl. now apply IH.
Qed.

Lemma xor_bytes_length a b : length a = length b -> length (xor_bytes a b) = length a.
Proof. intros H. unfold xor_bytes. rewrite map_length, combine_length. lia. Qed.

Lemma xor_bytes_involutive a b : length a = length b -> xor_bytes (xor_bytes a b) b = a.
Proof.
  revert b; induction a as [|x a IH]; intros [|y b] H; simpl in *; try discriminate; try reflexivity.
  unfold xor_bytes in *. simpl. f_equal.
  - rewrite N.lxor_assoc, N.lxor_nilpotent, N.lxor_0_r. reflexivity.
  - apply IH. lia.
Qed.
