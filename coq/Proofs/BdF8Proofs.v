(* Proofs/BdF8Proofs.v -- finding C19-F8 (encrypt: AES-CTR counter taken from the key blob start, not from the load address) *)
From Coq Require Import String Ascii ZArith NArith List Bool Lia.
Require Import Value Bytes GenBd BdModel BdProofs.
Import ListNotations.
Local Open Scope string_scope.
Local Open Scope list_scope.
Local Open Scope Z_scope.

Definition f8_ctx : pctx := {| vars := []; srcs := [] |}.
Definition f8_files : files := [([102%N], [1%N; 2%N; 3%N; 4%N])].
Definition f8_kbs : keyblobs :=
  [(0, [("start", DInt 134221824); ("end", DInt 134226943); ("key", DStr (repeat 48%N 32)); ("counter", DStr (repeat 48%N 16))])].
Definition f8_stmt : stmt := SEncrypt (ELit 0) MNone (LFile [102%N]) (TAddr (ELit 134222848)).   (* 0x08001400 in 0x08001000..0x080023ff *)

(* encrypt (0) { load "f" > 0x08001400; } with keyblob (0) starting at 0x08001000: SPSDK encrypts with the counter of
   0x08001000, the OTFAD hardware decrypts with the counter of the system address 0x08001400 *)
Theorem encrypt_counter_refuted :
  sclean f8_stmt = true /\ enc_at_start f8_ctx f8_kbs f8_stmt = false /\
  exists k c d,
    option_map c_payload (stmt_spec f8_ctx f8_files f8_kbs f8_stmt) = Some (PEnc k c 134221824 134226943 false 134222848 134222848 d) /\
    option_map c_payload (to_opt (compile_impl f8_ctx f8_files f8_kbs f8_stmt)) = Some (PEnc k c 134221824 134226943 false 134221824 134222848 d).
Proof.
  split; [reflexivity|]. split; [vm_compute; reflexivity|].
  eexists. eexists. eexists. split; vm_compute; reflexivity.
Qed.
