(* Proofs/AreaProofs.v -- lemmas about Model/AreaModel.v (C12), on top of Proofs/RegsProofs.v (C11). *)
From Coq Require Import ZArith NArith List Bool Lia ZifyBool.
Require Import Value Bytes BytesProofs GenMisc MiscModel GenRegs RegsModel RegsProofs GenAreaFns GenAreas AreaModel.
Import ListNotations.
Local Open Scope Z_scope.
Ltac Zify.zify_post_hook ::= Z.to_euclidean_division_equations.

(* ====================================================================== A. writing children into a parent buffer *)
(* the byte at position p after the images were written in order (later images win) *)
Definition covers (im : Z * list N) (p : nat) : bool :=
  (fst im <=? Z.of_nat p) && (Z.of_nat p <? fst im + zlen (snd im)).

Fixpoint byte_at (p : nat) (ims : list (Z * list N)) (dflt : N) : N :=
  match ims with
  | [] => dflt
  | im :: t => byte_at p t (if covers im p then nth (p - Z.to_nat (fst im)) (snd im) 0%N else dflt)
  end.

Definition fits (n : Z) (im : Z * list N) : Prop := 0 <= fst im /\ fst im + zlen (snd im) <= n.

Lemma nth_skipn' {A} (l : list A) k p d : nth p (skipn k l) d = nth (k + p) l d.
Proof. revert l; induction k as [|k IH]; intros l; [reflexivity|]. destruct l; [now destruct p|]. cbn. apply IH. Qed.

Lemma nth_firstn' {A} (l : list A) k p d : (p < k)%nat -> nth p (firstn k l) d = nth p l d.
Proof. revert l p; induction k as [|k IH]; intros l p H; [lia|]. destruct l; [reflexivity|]. destruct p; [reflexivity|]. cbn. apply IH. lia. Qed.

Lemma nth_splice (buf d : list N) off p : (off + length d <= length buf)%nat ->
  nth p (splice buf off d) 0%N = if (off <=? p)%nat && (p <? off + length d)%nat then nth (p - off) d 0%N else nth p buf 0%N.
Proof.
  intros H. unfold splice.
  destruct (Nat.leb_spec off p) as [H1|H1]; cbn [andb].
  - rewrite app_nth2 by (rewrite firstn_length; lia). rewrite firstn_length, Nat.min_l by lia.
    destruct (Nat.ltb_spec p (off + length d)) as [H2|H2].
    + apply app_nth1. lia.
    + rewrite app_nth2 by lia. rewrite nth_skipn'. f_equal. lia.
  - rewrite app_nth1 by (rewrite firstn_length; lia). apply nth_firstn'. lia.
Qed.

Lemma place_all_ok ims : forall buf, Forall (fits (zlen buf)) ims ->
  exists out, place_all buf ims = Ok out /\ length out = length buf /\
              forall p, (p < length buf)%nat -> nth p out 0%N = byte_at p ims (nth p buf 0%N).
Proof.
  induction ims as [|im t IH]; intros buf H; cbn [place_all byte_at].
  - exists buf. repeat split; reflexivity.
  - inversion H as [|? ? (F1 & F2) Ht]; subst.
    replace ((fst im <? 0) || (zlen buf <? fst im + zlen (snd im))) with false by lia.
    assert (Hl : (Z.to_nat (fst im) + length (snd im) <= length buf)%nat) by (unfold zlen in *; lia).
    assert (Hlen : length (splice buf (Z.to_nat (fst im)) (snd im)) = length buf) by now apply splice_length.
    destruct (IH (splice buf (Z.to_nat (fst im)) (snd im))) as (out & E & L & B).
    { unfold zlen. rewrite Hlen. exact Ht. }
    exists out. split; [exact E|]. split; [lia|].
    intros p Hp. rewrite B by lia. rewrite nth_splice by assumption. f_equal.
    unfold covers, zlen.
    destruct (Nat.leb_spec (Z.to_nat (fst im)) p); destruct (Nat.ltb_spec p (Z.to_nat (fst im) + length (snd im))); cbn [andb];
      destruct (Z.leb_spec (fst im) (Z.of_nat p)); destruct (Z.ltb_spec (Z.of_nat p) (fst im + Z.of_nat (length (snd im)))); cbn [andb];
      try reflexivity; lia.
Qed.

Lemma byte_at_nocover p ims : forall a, (forall im, In im ims -> covers im p = false) -> byte_at p ims a = a.
Proof.
  induction ims as [|im t IH]; intros a H; cbn [byte_at]; [reflexivity|].
  rewrite (H im) by now left. apply IH. intros x Hx. apply H. now right.
Qed.

(* an image that alone covers p determines the byte, wherever it sits in the list *)
Lemma byte_at_unique p im ims : forall a, In im ims -> covers im p = true ->
  (forall x, In x ims -> covers x p = true -> x = im) ->
  byte_at p ims a = nth (p - Z.to_nat (fst im)) (snd im) 0%N.
Proof.
  induction ims as [|x t IH]; intros a Hin Hc Hu; [destruct Hin|]. cbn [byte_at].
  destruct (covers x p) eqn:Ex.
  - assert (x = im) by (apply Hu; [now left|assumption]). subst x.
    destruct (in_dec (fun u v : Z * list N => ltac:(decide equality; [apply (list_eq_dec N.eq_dec)|apply Z.eq_dec])) im t) as [Hi|Hn].
    + apply IH; [assumption|assumption|]. intros y Hy. apply Hu. now right.
    + apply byte_at_nocover. intros y Hy. destruct (covers y p) eqn:Ey; [|reflexivity].
      exfalso. apply Hn. rewrite <- (Hu y) by (try assumption; now right). assumption.
  - destruct Hin as [->|Hin]; [congruence|]. apply IH; [assumption|assumption|]. intros y Hy. apply Hu. now right.
Qed.

(* two lists of images of the same geometry; the second one holds, image by image, either the same bytes or the bytes
   that the first list leaves in the buffer: writing the second list gives the same buffer *)
Definition same_geom (x y : Z * list N) : Prop := fst x = fst y /\ length (snd x) = length (snd y).

Lemma byte_at_idem p F : forall ims ims',
  Forall2 (fun x y => same_geom x y /\ (snd y = snd x \/ (covers x p = true -> nth (p - Z.to_nat (fst x)) (snd y) 0%N = F))) ims ims' ->
  forall a b, byte_at p ims a = F -> (b = a \/ b = F) -> byte_at p ims' b = F.
Proof.
  induction 1 as [|x y t t' ((G1 & G2) & Hd) Ht IH]; intros a b Ha Hb; cbn [byte_at] in *.
  - destruct Hb as [Hb|Hb]; congruence.
  - assert (Ec : covers y p = covers x p) by (unfold covers, zlen; rewrite G1, G2; reflexivity).
    rewrite Ec. eapply IH; [exact Ha|].
    destruct (covers x p) eqn:Ex; [|exact Hb].
    destruct Hd as [Hd|Hd]; [left; now rewrite Hd, G1|right; rewrite <- G1; now apply Hd].
Qed.

(* ---------------------------------------------------------------- sorting keeps membership and pointwise relations *)
Lemma insert_img_in x a l : In x (insert_img a l) <-> x = a \/ In x l.
Proof.
  induction l as [|c t IH]; cbn [insert_img]; [cbn; intuition|].
  destruct (fst a <? fst c); cbn [In]; [intuition|]. rewrite IH. intuition.
Qed.

Lemma sort_images_in x l : In x (sort_images l) <-> In x l.
Proof.
  unfold sort_images. assert (G : forall acc, In x (fold_left (fun l x => insert_img x l) l acc) <-> In x l \/ In x acc).
  { induction l as [|a t IH]; intros acc; cbn [fold_left In]; [intuition|]. rewrite IH, insert_img_in. intuition. }
  rewrite G. cbn. intuition.
Qed.

Lemma insert_img_rel (R : Z * list N -> Z * list N -> Prop) a a' : (forall x y, R x y -> fst x = fst y) -> R a a' ->
  forall l l', Forall2 R l l' -> Forall2 R (insert_img a l) (insert_img a' l').
Proof.
  intros HR Ha. induction 1 as [|c c' t t' Hc Ht IH]; cbn [insert_img]; [repeat constructor; assumption|].
  rewrite (HR _ _ Ha), (HR _ _ Hc). destruct (fst a' <? fst c'); repeat constructor; assumption.
Qed.

Lemma sort_images_rel (R : Z * list N -> Z * list N -> Prop) : (forall x y, R x y -> fst x = fst y) ->
  forall l l', Forall2 R l l' -> Forall2 R (sort_images l) (sort_images l').
Proof.
  intros HR l l' H. unfold sort_images.
  assert (G : forall acc acc', Forall2 R acc acc' ->
              Forall2 R (fold_left (fun l x => insert_img x l) l acc) (fold_left (fun l x => insert_img x l) l' acc')).
  { induction H as [|a a' t t' Ha Ht IH]; intros acc acc' Hacc; cbn [fold_left]; [assumption|].
    apply IH. now apply insert_img_rel. }
  apply G. constructor.
Qed.

Lemma image_size_rel l l' : Forall2 same_geom l l' -> image_size l = image_size l'.
Proof.
  intros H. unfold image_size. generalize 0. induction H as [|x y t t' (G1 & G2) Ht IH]; intros m; cbn [fold_left]; [reflexivity|].
  unfold zlen. rewrite G1, G2. apply IH.
Qed.

Lemma Forall2_impl {A B} (P Q : A -> B -> Prop) l l' : (forall x y, P x y -> Q x y) -> Forall2 P l l' -> Forall2 Q l l'.
Proof. intros H. induction 1; constructor; auto. Qed.

Lemma Forall_fits_rel n l l' : Forall2 same_geom l l' -> Forall (fits n) l -> Forall (fits n) l'.
Proof.
  induction 1 as [|x y t t' (G1 & G2) Ht IH]; intros H; [constructor|].
  inversion H as [|? ? (F1 & F2) Hr]; subst. constructor; [|now apply IH].
  unfold fits, zlen in *. rewrite <- G1, <- G2. lia.
Qed.

(* the central fact: re-writing what was read back from the buffer (or the same bytes) reproduces the buffer *)
Lemma place_all_idem buf ims ims' bin :
  Forall (fits (zlen buf)) ims -> place_all buf ims = Ok bin ->
  Forall2 (fun x y => same_geom x y /\
                      (snd y = snd x \/ snd y = slice bin (Z.to_nat (fst x)) (Z.to_nat (fst x) + length (snd x)))) ims ims' ->
  place_all buf ims' = Ok bin.
Proof.
  intros Hf E H.
  destruct (place_all_ok ims buf Hf) as (out & E1 & L1 & B1). rewrite E in E1. injection E1 as <-.
  assert (Hg : Forall2 same_geom ims ims') by (eapply Forall2_impl; [|exact H]; cbn; tauto).
  destruct (place_all_ok ims' buf (Forall_fits_rel _ _ _ Hg Hf)) as (out' & E2 & L2 & B2).
  rewrite E2. f_equal. apply nth_ext with (d := 0%N) (d' := 0%N); [lia|].
  intros p Hp. rewrite B2 by lia.
  eapply byte_at_idem with (ims := ims) (a := nth p buf 0%N); [|symmetry; apply B1; lia|now left].
  clear - H Hf L1 Hp. induction H as [|x y t t' (G & Hd) Ht IH]; [constructor|].
  inversion Hf as [|? ? (F1 & F2) Hr]; subst. constructor; [|now apply IH]. split; [exact G|].
  destruct Hd as [Hd|Hd]; [now left|right]. intros Hc. rewrite Hd. unfold slice.
  unfold covers, zlen in Hc. rewrite nth_firstn' by lia. rewrite nth_skipn'. f_equal. lia.
Qed.

(* ====================================================================== B. export of a well-formed register file *)
Lemma nth_repeat' {A} (x d : A) n p : (p < n)%nat -> nth p (repeat x n) d = x.
Proof. revert p; induction n as [|n IH]; intros p H; [lia|]. destruct p; [reflexivity|]. cbn. apply IH. lia. Qed.

Lemma wf_bytes_app a b : wf_bytes a -> wf_bytes b -> wf_bytes (a ++ b).
Proof. unfold wf_bytes. intros. apply Forall_app. now split. Qed.
Lemma In_firstn {A} (x : A) n l : In x (firstn n l) -> In x l.
Proof. revert l; induction n as [|n IH]; intros l H; [destruct H|]. destruct l; [destruct H|]. destruct H as [H|H]; [now left|right; now apply IH]. Qed.
Lemma wf_bytes_firstn n l : wf_bytes l -> wf_bytes (firstn n l).
Proof. unfold wf_bytes. rewrite !Forall_forall. intros H x Hx. apply H. eapply In_firstn; eassumption. Qed.
Lemma In_skipn {A} (x : A) n l : In x (skipn n l) -> In x l.
Proof. revert l; induction n as [|n IH]; intros l H; [exact H|]. destruct l; [destruct H|]. right. now apply IH. Qed.
Lemma wf_bytes_skipn n l : wf_bytes l -> wf_bytes (skipn n l).
Proof. unfold wf_bytes. rewrite !Forall_forall. intros H x Hx. apply H. eapply In_skipn; eassumption. Qed.
Lemma wf_bytes_slice l a b : wf_bytes l -> wf_bytes (slice l a b).
Proof. intros H. unfold slice. now apply wf_bytes_firstn, wf_bytes_skipn. Qed.
Lemma wf_bytes_repeat x n : (x < 256)%N -> wf_bytes (repeat x n).
Proof. intros H. unfold wf_bytes. apply Forall_forall. intros y Hy. apply repeat_spec in Hy. subst. exact H. Qed.

Lemma place_all_wf ims : forall buf out, wf_bytes buf -> Forall (fun im => wf_bytes (snd im)) ims ->
  place_all buf ims = Ok out -> wf_bytes out.
Proof.
  induction ims as [|im t IH]; intros buf out Hb Hi E; cbn [place_all] in E.
  - now injection E as <-.
  - inversion Hi as [|? ? H1 H2]; subst.
    destruct ((fst im <? 0) || (zlen buf <? fst im + zlen (snd im))); [discriminate|].
    eapply IH; [|exact H2|exact E]. unfold splice.
    apply wf_bytes_app; [now apply wf_bytes_firstn|]. apply wf_bytes_app; [assumption|now apply wf_bytes_skipn].
Qed.

Lemma enc_wf big n v : wf_bytes (enc big n v).
Proof. unfold enc. destruct big; [apply be_enc_wf|apply le_enc_wf]. Qed.

(* decoding a byte string and encoding it again *)
Lemma dec_bytes_range big l : wf_bytes l -> 0 <= dec_bytes big l < 2 ^ (8 * Z.of_nat (length l)).
Proof.
  intros H. unfold dec_bytes. split; [lia|].
  assert (B : (le_dec (if big then rev l else l) < 2 ^ (8 * N.of_nat (length l)))%N).
  { destruct big.
    - rewrite <- (rev_length l). apply le_dec_bound. unfold wf_bytes. now apply Forall_rev.
    - now apply le_dec_bound. }
  assert (E : (if big then be_dec else le_dec) l = le_dec (if big then rev l else l)) by (destruct big; reflexivity).
  rewrite E. rewrite pow_N_Z in B. apply N2Z.inj_lt in B. rewrite Z2N.id in B by (apply Z.pow_nonneg; lia). exact B.
Qed.

Lemma enc_dec_bytes big l : wf_bytes l -> enc big (length l) (dec_bytes big l) = l.
Proof.
  intros H. unfold enc, dec_bytes. rewrite N2Z.id. destruct big; [now apply be_enc_dec|now apply le_enc_dec].
Qed.

Definition reg_imgs (g : regs) : list (Z * list N) := map (reg_img (g_big g)) (g_regs g).

(* every register starts at a non-negative offset and, when the size is given, ends inside the binary *)
Definition reg_fits (size : Z) (r : reg) : Prop :=
  0 <= s_offset (r_base r) /\ (size = 0 \/ s_offset (r_base r) + s_width (r_base r) / 8 <= size).
Definition regs_fit (g : regs) (size : Z) : Prop := Forall (reg_fits size) (g_regs g).

Definition total_of (g : regs) (size : Z) : Z := if size =? 0 then image_size (reg_imgs g) else size.

Lemma reg_img_len big r : wf_reg r -> zlen (snd (reg_img big r)) = s_width (r_base r) / 8.
Proof.
  intros ((B1 & B2 & _) & _). unfold reg_img, zlen. cbn [snd]. rewrite enc_length. destruct (width_bytes _ B1 B2). lia.
Qed.

Lemma image_size_nonneg ims : 0 <= image_size ims.
Proof. unfold image_size. apply image_size_acc. Qed.

Lemma reg_imgs_fit g size : wf_regs g -> regs_fit g size -> Forall (fits (total_of g size)) (reg_imgs g).
Proof.
  intros Hg Hf. unfold reg_imgs. apply Forall_forall. intros im Hin. apply in_map_iff in Hin. destruct Hin as (r & <- & Hr).
  unfold regs_fit in Hf. rewrite Forall_forall in Hf. destruct (Hf r Hr) as (F1 & F2).
  assert (Hw : wf_reg r) by (unfold wf_regs in Hg; rewrite Forall_forall in Hg; now apply Hg).
  split; [exact F1|]. rewrite reg_img_len by assumption. cbn [fst reg_img]. unfold total_of.
  destruct (Z.eqb_spec size 0) as [E|E].
  - pose proof (image_size_ge (map (reg_img (g_big g)) (g_regs g)) 0 (reg_img (g_big g) r)) as G.
    rewrite reg_img_len in G by assumption. cbn [fst reg_img] in G. apply G. now apply in_map.
  - destruct F2; [contradiction|assumption].
Qed.

Lemma Forall_sorted (P : Z * list N -> Prop) l : Forall P l -> Forall P (sort_images l).
Proof. rewrite !Forall_forall. intros H x Hx. apply H. now apply sort_images_in. Qed.

(* export_with: succeeds, has the announced size, and every byte is the byte of the last child that covers it or the fill *)
Lemma export_with_ok g size fill : wf_regs g -> regs_fit g size -> 0 <= size ->
  exists bin, export_with g size fill = Ok bin /\ zlen bin = total_of g size /\
    place_all (repeat fill (Z.to_nat (total_of g size))) (sort_images (reg_imgs g)) = Ok bin /\
    forall p, (p < length bin)%nat -> nth p bin 0%N = byte_at p (sort_images (reg_imgs g)) fill.
Proof.
  intros Hg Hf Hs. unfold export_with.
  rewrite (images_from_ok g Hg (g_regs g) 0) by (intros k r H; exact H). cbn [bind].
  fold (reg_imgs g). fold (total_of g size).
  assert (Ht : 0 <= total_of g size) by (unfold total_of; destruct (size =? 0); [apply image_size_nonneg|assumption]).
  set (buf := repeat fill (Z.to_nat (total_of g size))).
  assert (Lb : zlen buf = total_of g size) by (unfold zlen, buf; rewrite repeat_length; lia).
  destruct (place_all_ok (sort_images (reg_imgs g)) buf) as (out & E & L & B).
  { rewrite Lb. apply Forall_sorted. now apply reg_imgs_fit. }
  exists out. split; [exact E|]. split; [unfold zlen in *; lia|]. split; [exact E|].
  intros p Hp. rewrite B by lia. f_equal. unfold buf. apply nth_repeat'. unfold buf in L. rewrite repeat_length in L. lia.
Qed.

(* ====================================================================== C. parse (export g) exports the same binary again *)
(* the hidden registers of the exported object hold what the receiving (fresh) object holds: hidden registers are not parsed *)
Definition hidden_agree (g g0 : regs) : Prop :=
  forall i r, nth_error (g_regs g) i = Some r -> s_hidden (r_base r) = true -> nth_error (g_regs g0) i = Some r.

Lemma same_layout_geom g g1 i r r1 : same_layout g g1 -> nth_error (g_regs g) i = Some r -> nth_error (g_regs g1) i = Some r1 ->
  s_offset (r_base r1) = s_offset (r_base r) /\ s_width (r_base r1) = s_width (r_base r) /\ s_hidden (r_base r1) = s_hidden (r_base r).
Proof.
  intros Hsl E E1. destruct (same_layout_nth g g1 i r Hsl E) as (r1' & E1' & Ee). rewrite E1 in E1'. injection E1' as <-.
  destruct (erase_r_inv r1 r Ee) as (Eb & _ & _).
  destruct (erase_s_fields (r_base r) (r_base r1) Eb) as (_ & Ew & _ & _ & _ & _ & _ & Eh & Eo). repeat split; congruence.
Qed.

Lemma same_layout_len g g1 : same_layout g g1 -> length (g_regs g1) = length (g_regs g).
Proof.
  intros H. destruct (regs_eq_inv g g1 H) as (_ & Hm).
  rewrite <- (map_length erase_r (g_regs g1)), <- Hm. apply map_length.
Qed.

Lemma Forall2_nth {A B} (R : A -> B -> Prop) l l' : length l = length l' ->
  (forall i x y, nth_error l i = Some x -> nth_error l' i = Some y -> R x y) -> Forall2 R l l'.
Proof.
  revert l'; induction l as [|x t IH]; intros [|y t'] Hl H; try discriminate; constructor.
  - apply (H 0%nat); reflexivity.
  - apply IH; [cbn in Hl; lia|]. intros i a b Ha Hb. apply (H (S i)); assumption.
Qed.

Theorem export_parse_export_lemma g g0 size fill :
  wf_regs g -> wf_regs g0 -> same_layout g g0 -> hidden_agree g g0 -> regs_fit g size -> 0 <= size -> (fill < 256)%N ->
  exists bin g', export_with g size fill = Ok bin /\ zlen bin = total_of g size /\
                 parse g0 bin = Ok g' /\ wf_regs g' /\ same_layout g g' /\ export_with g' size fill = Ok bin.
Proof.
  intros Hg Hg0 Hsl Hh Hf Hs Hfill.
  destruct (export_with_ok g size fill Hg Hf Hs) as (bin & Ex & Lb & Pl & _).
  assert (Hbig : g_big g0 = g_big g) by (destruct (regs_eq_inv g g0 Hsl); congruence).
  assert (Hlen : length (g_regs g0) = length (g_regs g)) by now apply same_layout_len.
  assert (Hfit : Forall (fits (total_of g size)) (reg_imgs g)) by now apply reg_imgs_fit.
  assert (Hwb : wf_bytes bin).
  { eapply place_all_wf; [| |exact Pl]; [now apply wf_bytes_repeat|].
    apply Forall_sorted. unfold reg_imgs. apply Forall_forall. intros im Hin. apply in_map_iff in Hin.
    destruct Hin as (r & <- & _). apply enc_wf. }
  (* the slice of every register lies inside the binary *)
  assert (Hin : forall k r, nth_error (g_regs g) k = Some r ->
            0 <= s_offset (r_base r) /\ s_offset (r_base r) + s_width (r_base r) / 8 <= zlen bin).
  { intros k r E. rewrite Lb. assert (Hr : wf_reg r) by exact (wf_regs_nth g k r Hg E).
    unfold reg_imgs in Hfit. rewrite Forall_forall in Hfit.
    destruct (Hfit (reg_img (g_big g) r)) as (F1 & F2); [apply in_map; eapply nth_error_In; eassumption|].
    rewrite reg_img_len in F2 by assumption. exact (conj F1 F2). }
  set (chunk := fun (r : reg) => slice bin (Z.to_nat (s_offset (r_base r))) (Z.to_nat (s_offset (r_base r) + s_width (r_base r) / 8))).
  assert (Hchunk : forall k r, nth_error (g_regs g) k = Some r ->
            wf_bytes (chunk r) /\ length (chunk r) = Z.to_nat (s_width (r_base r) / 8)).
  { intros k r E. destruct (Hin k r E) as (I1 & I2). split; [now apply wf_bytes_slice|].
    unfold chunk. rewrite slice_length by (unfold zlen in I2; lia).
    assert (Hr : wf_reg r) by exact (wf_regs_nth g k r Hg E). destruct Hr as ((B1 & B2 & _) & _).
    destruct (width_bytes _ B1 B2). lia. }
  (* parse *)
  destruct (parse_from_spec bin (length (g_regs g0)) 0 g0 Hg0 eq_refl) as (g' & P1 & P2 & _ & P4).
  { intros k r1 _ Ek Eh. destruct (same_layout_nth g0 g k r1 (eq_sym Hsl) Ek) as (r & Er & _).
    destruct (same_layout_geom g g0 k r r1 Hsl Er Ek) as (Eo & Ew & _). rewrite Eo, Ew.
    destruct (Hin k r Er) as (I1 & I2). split; [exact I2|].
    destruct (Hchunk k r Er) as (C1 & C2). fold (chunk r). unfold in_range.
    pose proof (dec_bytes_range (g_big g0) (chunk r) C1) as D. rewrite C2 in D.
    assert (Hr : wf_reg r) by exact (wf_regs_nth g k r Hg Er). destruct Hr as ((B1 & B2 & _) & _).
    destruct (width_bytes _ B1 B2) as (_ & _ & Q3). rewrite Q3 in D. exact D. }
  assert (Pw : keeps g0 g') by (eapply parse_from_wf; [exact Hg0|exact P1]). destruct Pw as (Hg' & Hsl').
  assert (Hsl2 : same_layout g g') by (eapply same_layout_trans; eassumption).
  exists bin, g'. split; [exact Ex|]. split; [exact Lb|]. split; [exact P1|]. split; [exact Hg'|]. split; [exact Hsl2|].
  (* the images of the parsed object *)
  assert (Hrel : Forall2 (fun x y => same_geom x y /\
                   (snd y = snd x \/ snd y = slice bin (Z.to_nat (fst x)) (Z.to_nat (fst x) + length (snd x))))
                 (reg_imgs g) (reg_imgs g')).
  { unfold reg_imgs. apply Forall2_nth; [rewrite !map_length; symmetry; now apply same_layout_len|].
    intros k x y Hx Hy. rewrite nth_error_map in Hx, Hy.
    destruct (nth_error (g_regs g) k) as [r|] eqn:Er; [|discriminate]. injection Hx as <-.
    destruct (nth_error (g_regs g') k) as [r'|] eqn:Er'; [|discriminate]. injection Hy as <-.
    destruct (same_layout_nth g g0 k r Hsl Er) as (r1 & Er1 & _).
    destruct (same_layout_geom g g0 k r r1 Hsl Er Er1) as (Eo & Ew & Ehid).
    rewrite (P4 k r1 (Nat.le_0_l k) Er1) in Er'. injection Er' as <-.
    assert (Hr : wf_reg r) by exact (wf_regs_nth g k r Hg Er).
    assert (Hr1 : wf_reg r1) by exact (wf_regs_nth g0 k r1 Hg0 Er1).
    destruct (Hchunk k r Er) as (C1 & C2).
    unfold parsed_reg. rewrite Ehid. destruct (s_hidden (r_base r)) eqn:Eh.
    - (* hidden: the receiving object holds the same register *)
      rewrite (Hh k r Er Eh) in Er1. injection Er1 as <-. rewrite P2, Hbig. split; [split; reflexivity|now left].
    - rewrite Eo, Ew. fold (chunk r).
      pose proof (dec_bytes_range (g_big g0) (chunk r) C1) as D. rewrite C2 in D.
      pose proof Hr as ((B1 & B2 & _) & _). destruct (width_bytes _ B1 B2) as (Q1 & Q2 & Q3). rewrite Q3 in D.
      assert (HV : in_range (s_width (r_base r1)) (dec_bytes (g_big g0) (chunk r))) by (unfold in_range; now rewrite Ew).
      assert (Ew' : s_width (r_base (reg_written r1 (dec_bytes (g_big g0) (chunk r)) true)) = s_width (r_base r) /\
                    s_offset (r_base (reg_written r1 (dec_bytes (g_big g0) (chunk r)) true)) = s_offset (r_base r)).
      { unfold reg_written. destruct (r_subs r1); cbn; split; congruence. }
      destruct Ew' as (Ew' & Eo').
      unfold reg_img, same_geom. rewrite Ew', Eo', reg_stored_written, view_raw by assumption. cbn [fst snd].
      rewrite !enc_length. split; [split; reflexivity|right].
      rewrite P2. rewrite <- C2. rewrite enc_dec_bytes by assumption.
      rewrite C2. unfold chunk. f_equal. destruct (Hin k r Er). lia. }
  (* export of the parsed object *)
  unfold export_with. rewrite (images_from_ok g' Hg' (g_regs g') 0) by (intros k r H; exact H). cbn [bind].
  fold (reg_imgs g').
  assert (Hgeo : Forall2 same_geom (reg_imgs g) (reg_imgs g')) by (eapply Forall2_impl; [|exact Hrel]; cbn; tauto).
  assert (Et : (if size =? 0 then image_size (reg_imgs g') else size) = total_of g size).
  { unfold total_of. destruct (size =? 0); [symmetry; now apply image_size_rel|reflexivity]. }
  rewrite Et.
  eapply place_all_idem with (ims := sort_images (reg_imgs g)); [| exact Pl |].
  - unfold zlen. rewrite repeat_length.
    assert (0 <= total_of g size) by (unfold total_of; destruct (size =? 0); [apply image_size_nonneg|assumption]).
    rewrite Z2Nat.id by assumption. apply Forall_sorted. exact Hfit.
  - apply sort_images_rel; [|exact Hrel]. intros x y ((G1 & _) & _). exact G1.
Qed.

(* ====================================================================== D. what the binary holds at a register *)
Definition reg_end (r : reg) : Z := s_offset (r_base r) + s_width (r_base r) / 8.
Definition disjoint_regs (r r' : reg) : Prop := reg_end r <= s_offset (r_base r') \/ reg_end r' <= s_offset (r_base r).
(* no other register of the file shares a byte with register i *)
Definition isolated (g : regs) (i : nat) : Prop :=
  forall j r r', nth_error (g_regs g) i = Some r -> nth_error (g_regs g) j = Some r' -> j <> i -> disjoint_regs r r'.

Lemma covers_reg_img big r p : wf_reg r ->
  covers (reg_img big r) p = (s_offset (r_base r) <=? Z.of_nat p) && (Z.of_nat p <? reg_end r).
Proof. intros Hr. unfold covers. rewrite reg_img_len by assumption. reflexivity. Qed.

Theorem export_reg_bytes_lemma g size fill i r bin : wf_regs g -> regs_fit g size -> 0 <= size ->
  nth_error (g_regs g) i = Some r -> isolated g i -> export_with g size fill = Ok bin ->
  slice bin (Z.to_nat (s_offset (r_base r))) (Z.to_nat (reg_end r)) =
  enc (g_big g) (Z.to_nat (s_width (r_base r) / 8)) (reg_stored r true).
Proof.
  intros Hg Hf Hs E Hiso Ex.
  destruct (export_with_ok g size fill Hg Hf Hs) as (bin' & Ex' & Lb & _ & B). rewrite Ex in Ex'. injection Ex' as <-.
  assert (Hr : wf_reg r) by exact (wf_regs_nth g i r Hg E).
  pose proof Hr as ((B1 & B2 & _) & _). destruct (width_bytes _ B1 B2) as (Q1 & Q2 & Q3).
  assert (Hfit : fits (total_of g size) (reg_img (g_big g) r)).
  { pose proof (reg_imgs_fit g size Hg Hf) as H. unfold reg_imgs in H. rewrite Forall_forall in H. apply H.
    apply in_map. eapply nth_error_In; eassumption. }
  destruct Hfit as (F1 & F2). rewrite reg_img_len in F2 by assumption. cbn [fst reg_img] in F1, F2. rewrite <- Lb in F2.
  set (o := Z.to_nat (s_offset (r_base r))). set (n := Z.to_nat (s_width (r_base r) / 8)).
  assert (Eend : Z.to_nat (reg_end r) = (o + n)%nat) by (unfold reg_end, o, n; lia).
  rewrite Eend.
  apply nth_ext with (d := 0%N) (d' := 0%N).
  { rewrite slice_length by (unfold zlen, o, n in *; lia). rewrite enc_length. lia. }
  intros p Hp. rewrite slice_length in Hp by (unfold zlen, o, n in *; lia).
  unfold slice. rewrite nth_firstn' by lia. rewrite nth_skipn'.
  rewrite B by (unfold zlen, o, n in *; lia).
  rewrite (byte_at_unique (o + p) (reg_img (g_big g) r)).
  - cbn [fst snd reg_img]. fold o. f_equal. lia.
  - apply sort_images_in. unfold reg_imgs. apply in_map. eapply nth_error_In; eassumption.
  - rewrite covers_reg_img by assumption. unfold reg_end, o, n in *. lia.
  - intros x Hx Hc. apply (proj1 (sort_images_in _ _)) in Hx. unfold reg_imgs in Hx. apply in_map_iff in Hx. destruct Hx as (r' & <- & Hin).
    destruct (In_nth_error _ _ Hin) as (j & Ej).
    destruct (Nat.eq_dec j i) as [->|Hne]; [congruence|].
    exfalso. assert (Hr' : wf_reg r') by exact (wf_regs_nth g j r' Hg Ej).
    rewrite covers_reg_img in Hc by assumption.
    destruct (Hiso j r r' E Ej Hne) as [D|D]; unfold reg_end, o, n in *; lia.
Qed.

(* ====================================================================== E. computed fields *)
(* what the documentation demands of a register with a computed field:
   method 0 (pfr_reg_inverse_high_half):   bits 16..31 are the bitwise inverse of bits 0..15
   method 1 (pfr_reg_inverse_lower_8_bits): bits 8..15 are the bitwise inverse of bits 0..7 *)
Definition computed_rel (m v : Z) : Prop :=
  (m = 0 -> getbits v 16 16 = Z.lxor (getbits v 0 16) 65535) /\
  (m = 1 -> getbits v 8 8 = Z.lxor (getbits v 0 8) 255).

Lemma ones16 : 65535 = Z.ones 16. Proof. reflexivity. Qed.
Lemma ones8 : 255 = Z.ones 8. Proof. reflexivity. Qed.

Lemma inverse_high_half_spec v : in_range 32 v ->
  exists v', py_pfr_reg_inverse_high_half v = Ok v' /\ in_range 32 v' /\
             getbits v' 16 16 = Z.lxor (getbits v' 0 16) 65535 /\ getbits v' 0 16 = getbits v 0 16.
Proof.
  intros (V0 & V1). unfold py_pfr_reg_inverse_high_half. eexists. split; [reflexivity|].
  set (lo := Z.land v 65535).
  assert (Hlo : forall n, 0 <= n -> Z.testbit lo n = Z.testbit v n && (n <? 16)).
  { intros n Hn. unfold lo. rewrite Z.land_spec, ones16, testbit_ones_full by lia. replace (0 <=? n) with true by lia. reflexivity. }
  assert (Hx : forall n, 0 <= n -> Z.testbit (Z.lxor lo 65535) n = (n <? 16) && negb (Z.testbit v n)).
  { intros n Hn. rewrite Z.lxor_spec, Hlo, ones16, testbit_ones_full by lia. replace (0 <=? n) with true by lia.
    destruct (n <? 16), (Z.testbit v n); reflexivity. }
  assert (Hv : forall n, 0 <= n -> Z.testbit (Z.lor lo (Z.shiftl (Z.lxor lo 65535) 16)) n =
                                   if n <? 16 then Z.testbit v n else (n <? 32) && negb (Z.testbit v (n - 16))).
  { intros n Hn. rewrite Z.lor_spec, Hlo by lia. rewrite Z.shiftl_spec by lia.
    destruct (Z.ltb_spec n 16).
    - rewrite (Z.testbit_neg_r _ (n - 16)) by lia. now rewrite andb_true_r, orb_false_r.
    - rewrite Hx by lia. rewrite andb_false_r. cbn [orb]. destruct (Z.ltb_spec n 32), (Z.ltb_spec (n - 16) 16); try lia; reflexivity. }
  split; [|split].
  - split.
    + apply Z.lor_nonneg. split; [apply Z.land_nonneg; lia|]. apply Z.shiftl_nonneg. apply Z.lxor_nonneg.
      unfold lo. split; intros; [lia|apply Z.land_nonneg; lia].
    + apply bits_small; [lia| |].
      * apply Z.lor_nonneg. split; [apply Z.land_nonneg; lia|]. apply Z.shiftl_nonneg. apply Z.lxor_nonneg.
        unfold lo. split; intros; [lia|apply Z.land_nonneg; lia].
      * intros n Hn. rewrite Hv by lia. replace (n <? 16) with false by lia. replace (n <? 32) with false by lia. reflexivity.
  - apply Z.bits_inj'. intros n Hn. rewrite testbit_getbits by lia.
    rewrite Z.lxor_spec, testbit_getbits, ones16, testbit_ones_full by lia. rewrite !Hv by lia.
    replace (0 <=? n) with true by lia. replace (n + 0) with n by lia.
    destruct (Z.ltb_spec n 16).
    + replace (n + 16 <? 16) with false by lia. replace (n + 16 <? 32) with true by lia. replace (n + 16 - 16) with n by lia.
      cbn. now destruct (Z.testbit v n).
    + now rewrite !andb_false_r.
  - apply Z.bits_inj'. intros n Hn. rewrite !testbit_getbits by lia. replace (n + 0) with n by lia. rewrite Hv by lia.
    destruct (n <? 16); [reflexivity|now rewrite !andb_false_r].
Qed.

Lemma inverse_lower_8_spec v : in_range 32 v ->
  exists v', py_pfr_reg_inverse_lower_8_bits v = Ok v' /\ in_range 32 v' /\
             getbits v' 8 8 = Z.lxor (getbits v' 0 8) 255 /\ getbits v' 0 8 = getbits v 0 8 /\ getbits v' 16 16 = getbits v 16 16.
Proof.
  intros (V0 & V1). unfold py_pfr_reg_inverse_lower_8_bits. eexists. split; [reflexivity|].
  assert (Hm : 4294902015 = Z.lor (Z.ones 8) (Z.shiftl (Z.ones 16) 16)) by reflexivity.
  assert (Hb : forall n, 0 <= n -> Z.testbit (Z.land v 4294902015) n = Z.testbit v n && ((n <? 8) || ((16 <=? n) && (n <? 32)))).
  { intros n Hn. rewrite Z.land_spec, Hm, Z.lor_spec, Z.shiftl_spec, testbit_ones_full by lia. f_equal.
    replace (0 <=? n) with true by lia. cbn [andb].
    destruct (Z.leb_spec 16 n).
    - rewrite testbit_ones_full by lia. replace (0 <=? n - 16) with true by lia. cbn [andb]. f_equal. lia.
    - rewrite (Z.testbit_neg_r _ (n - 16)) by lia. reflexivity. }
  assert (Hi : forall n, 0 <= n -> Z.testbit (Z.lxor (Z.land v 255) 255) n = (n <? 8) && negb (Z.testbit v n)).
  { intros n Hn. rewrite Z.lxor_spec, Z.land_spec, ones8, testbit_ones_full by lia. replace (0 <=? n) with true by lia.
    destruct (n <? 8), (Z.testbit v n); reflexivity. }
  set (v' := Z.lor (Z.land v 4294902015) (Z.shiftl (Z.lxor (Z.land v 255) 255) 8)).
  assert (Hv : forall n, 0 <= n -> Z.testbit v' n =
             if n <? 8 then Z.testbit v n else if n <? 16 then negb (Z.testbit v (n - 8)) else (n <? 32) && Z.testbit v n).
  { intros n Hn. unfold v'. rewrite Z.lor_spec, Hb, Z.shiftl_spec by lia.
    destruct (Z.ltb_spec n 8).
    - rewrite (Z.testbit_neg_r _ (n - 8)) by lia. cbn [orb]. now rewrite andb_true_r, orb_false_r.
    - rewrite Hi by lia. cbn [orb]. destruct (Z.ltb_spec n 16).
      + replace (16 <=? n) with false by lia. replace (n - 8 <? 8) with true by lia. cbn. now rewrite andb_false_r.
      + replace (16 <=? n) with true by lia. replace (n - 8 <? 8) with false by lia. cbn. rewrite orb_false_r. apply andb_comm. }
  assert (Hnn : 0 <= v').
  { unfold v'. apply Z.lor_nonneg. split; [apply Z.land_nonneg; lia|]. apply Z.shiftl_nonneg. apply Z.lxor_nonneg.
    split; intros; [lia|apply Z.land_nonneg; lia]. }
  split; [|split; [|split]].
  - split; [exact Hnn|]. apply bits_small; [lia|exact Hnn|].
    intros n Hn. rewrite Hv by lia. replace (n <? 8) with false by lia. replace (n <? 16) with false by lia.
    replace (n <? 32) with false by lia. reflexivity.
  - apply Z.bits_inj'. intros n Hn. rewrite testbit_getbits by lia.
    rewrite Z.lxor_spec, testbit_getbits, ones8, testbit_ones_full by lia. rewrite !Hv by lia.
    replace (0 <=? n) with true by lia. replace (n + 0) with n by lia.
    destruct (Z.ltb_spec n 8).
    + replace (n + 8 <? 8) with false by lia. replace (n + 8 <? 16) with true by lia. replace (n + 8 - 8) with n by lia.
      cbn. now destruct (Z.testbit v n).
    + now rewrite !andb_false_r.
  - apply Z.bits_inj'. intros n Hn. rewrite !testbit_getbits by lia. replace (n + 0) with n by lia. rewrite Hv by lia.
    destruct (n <? 8); [reflexivity|now rewrite !andb_false_r].
  - apply Z.bits_inj'. intros n Hn. rewrite !testbit_getbits by lia. rewrite Hv by lia.
    destruct (Z.ltb_spec n 16); [|now rewrite !andb_false_r].
    replace (n + 16 <? 8) with false by lia. replace (n + 16 <? 16) with false by lia. replace (n + 16 <? 32) with true by lia.
    reflexivity.
Qed.

Lemma py_compute_spec m v : in_range 32 v -> (m = 0 \/ m = 1) ->
  exists v', py_compute m v = Ok v' /\ in_range 32 v' /\ computed_rel m v'.
Proof.
  intros HV [->| ->]; unfold py_compute; cbn [Z.eqb].
  - destruct (inverse_high_half_spec v HV) as (v' & E & R & C & _). exists v'. split; [exact E|]. split; [exact R|].
    split; [intros _; exact C|discriminate].
  - destruct (inverse_lower_8_spec v HV) as (v' & E & R & C & _). exists v'. split; [exact E|]. split; [exact R|].
    split; [discriminate|intros _; exact C].
Qed.

(* ---------------------------------------------------------------- BaseConfigArea.set_config after load_yml_config *)
Definition comp_reg (c : nat * nat * Z) : nat := fst (fst c).
(* the register of a computed field exists, is 32 bits wide, the method is one of the translated ones *)
Definition comp_ok (g : regs) (c : nat * nat * Z) : Prop :=
  exists s, t_sreg g (Top (comp_reg c)) = Some s /\ s_width s = 32 /\ (snd c = 0 \/ snd c = 1).

Lemma comp_ok_layout g g' c : same_layout g g' -> comp_ok g c -> comp_ok g' c.
Proof.
  intros Hsl (s & E & W & M). destruct (same_layout_sreg g g' _ s Hsl E) as (s' & E' & Ee).
  destruct (erase_s_fields s s' Ee) as (_ & Ew & _). exists s'. split; [exact E'|]. split; [congruence|exact M].
Qed.

Lemma recompute_lemma cfg : forall comps g, wf_regs g -> Forall (comp_ok g) comps -> NoDup (map comp_reg comps) ->
  exists g', recompute g cfg comps = Ok g' /\ wf_regs g' /\ same_layout g g' /\
    (forall u raw, ~ In (top_of u) (map comp_reg comps) -> t_get g' u raw = t_get g u raw) /\
    (forall i k m e, In (i, k, m) comps -> cfg_lookup cfg (Top i) None = Some e -> needs_compute e k = true ->
       exists v, t_get g' (Top i) true = Ok v /\ in_range 32 v /\ computed_rel m v).
Proof.
  induction comps as [|((i, k), m) rest IH]; intros g Hg Hc Hnd; cbn [recompute].
  - exists g. split; [reflexivity|]. split; [assumption|]. split; [apply same_layout_refl|]. split; [reflexivity|].
    intros ? ? ? ? [].
  - inversion Hc as [|? ? (s & Es & Ws & Hm) Hrest]; subst. cbn [comp_reg fst snd] in Es, Hm.
    cbn [map comp_reg fst] in Hnd. inversion Hnd as [|? ? Hni Hnd']; subst.
    assert (Hstep : forall g1, wf_regs g1 -> same_layout g g1 ->
              (forall u raw, top_of u <> i -> t_get g1 u raw = t_get g u raw) ->
              (forall e, cfg_lookup cfg (Top i) None = Some e -> needs_compute e k = true ->
                 exists v, t_get g1 (Top i) true = Ok v /\ in_range 32 v /\ computed_rel m v) ->
              exists g', recompute g1 cfg rest = Ok g' /\ wf_regs g' /\ same_layout g g' /\
                (forall u raw, ~ In (top_of u) (map comp_reg ((i, k, m) :: rest)) -> t_get g' u raw = t_get g u raw) /\
                (forall i0 k0 m0 e, In (i0, k0, m0) ((i, k, m) :: rest) -> cfg_lookup cfg (Top i0) None = Some e ->
                   needs_compute e k0 = true -> exists v, t_get g' (Top i0) true = Ok v /\ in_range 32 v /\ computed_rel m0 v)).
    { intros g1 Hg1 Hsl1 Hfr1 Hhere.
      destruct (IH g1 Hg1) as (g' & R & W' & Sl' & Fr' & Co'); [|assumption|].
      { eapply Forall_impl; [|exact Hrest]. intros c. now apply comp_ok_layout. }
      exists g'. split; [exact R|]. split; [exact W'|]. split; [eapply same_layout_trans; eassumption|]. split.
      - intros u raw Hu. cbn [map comp_reg fst In] in Hu. rewrite Fr' by tauto. apply Hfr1. intros Heq. apply Hu. left. now symmetry.
      - intros i0 k0 m0 e [Heq|Hin] Hl Hn.
        + injection Heq as <- <- <-. destruct (Hhere e Hl Hn) as (v & G & Rg & Cr). exists v. split; [|tauto].
          rewrite Fr'; [exact G|]. cbn [top_of]. exact Hni.
        + eapply Co'; eassumption. }
    destruct (cfg_lookup cfg (Top i) None) as [e|] eqn:El.
    + destruct (needs_compute e k) eqn:En.
      * destruct (t_get_total g (Top i) s true Hg Es) as (v & Gv & Rv). rewrite Ws in Rv.
        destruct (py_compute_spec m v Rv Hm) as (v' & Cv & Rv' & Cr).
        assert (Rv'' : in_range (s_width s) v') by now rewrite Ws.
        destruct (t_set_ok g (Top i) s v' true Hg Es Rv'') as (g1 & S1 & S2 & S3 & S4 & S5 & _).
        rewrite Gv. cbn [bind]. rewrite Cv. cbn [bind]. rewrite S1. cbn [bind].
        apply (Hstep g1 S2 S3); [intros u raw Hu; apply S5; exact Hu|].
        intros e' He' _. exists v'. tauto.
      * apply (Hstep g Hg (same_layout_refl g)); [reflexivity|]. intros e' He'. injection He' as <-. congruence.
    + apply (Hstep g Hg (same_layout_refl g)); [reflexivity|]. discriminate.
Qed.

(* ====================================================================== F. well-formed areas (decidable) *)
Definition reg_fits_b (size : Z) (r : reg) : bool :=
  (0 <=? s_offset (r_base r)) && ((size =? 0) || (reg_end r <=? size)).
Definition disjoint_b (r r' : reg) : bool := (reg_end r <=? s_offset (r_base r')) || (reg_end r' <=? s_offset (r_base r)).
Definition indexed {A} (l : list A) : list (nat * A) := combine (seq 0 (length l)) l.
Definition isolated_b (g : regs) (i : nat) : bool :=
  match nth_error (g_regs g) i with
  | None => true
  | Some r => forallb (fun jr => Nat.eqb (fst jr) i || disjoint_b r (snd jr)) (indexed (g_regs g))
  end.
(* the hidden bit-field named in the database is exactly the bits the method fills *)
Definition comp_field_b (s : sreg) (k : nat) (m : Z) : bool :=
  match nth_error (s_fields s) k with
  | Some f => if m =? 0 then (f_off f =? 16) && (f_width f =? 16) else (f_off f =? 8) && (f_width f =? 8)
  | None => false
  end.
Definition comp_ok_b (g : regs) (c : nat * nat * Z) : bool :=
  match t_sreg g (Top (comp_reg c)) with
  | Some s => (s_width s =? 32) && ((snd c =? 0) || (snd c =? 1)) && isolated_b g (comp_reg c) && comp_field_b s (snd (fst c)) (snd c)
  | None => false
  end.
Fixpoint nodup_b (l : list nat) : bool :=
  match l with [] => true | x :: t => negb (existsb (Nat.eqb x) t) && nodup_b t end.
Definition area_total (A : area) : Z := if a_sized A then a_size A else 0.

(* the bit-fields of one register do not overlap (registers merged as aliases could) *)
Fixpoint fields_disjoint_b (fs : list field) : bool :=
  match fs with
  | [] => true
  | f :: t => forallb (fun f' => (f_off f + f_width f <=? f_off f') || (f_off f' + f_width f' <=? f_off f)) t && fields_disjoint_b t
  end.
Definition reg_fields_disjoint_b (r : reg) : bool :=
  fields_disjoint_b (s_fields (r_base r)) && forallb (fun s => fields_disjoint_b (s_fields s)) (r_subs r).

Definition wf_area_b (A : area) : bool :=
  forallb reg_fields_disjoint_b (g_regs (a_regs A)) &&
  wf_regs_b false (a_regs A) &&
  forallb (reg_fits_b (area_total A)) (g_regs (a_regs A)) &&
  (0 <=? a_size A) && (negb (a_sized A) || ((0 <? a_size A) && (0 <=? a_kind A) && (a_kind A <=? 3))) &&
  (a_fill A <? 256)%N &&
  forallb (comp_ok_b (a_regs A)) (a_computed A) && nodup_b (map comp_reg (a_computed A)) &&
  match a_seal A with Some (start, count) => (0 <=? start) && (0 <=? count) && (start + 4 * count <=? a_size A) | None => true end &&
  (* a segment class with a documented SIZE exports exactly that many bytes *)
  (a_sized A || (a_size A =? 0) || (image_size (reg_imgs (a_regs A)) =? a_size A)) &&
  (* the optional XMCD register is described only for XMCD *)
  match a_opt A with Some _ => a_kind A =? 7 | None => true end.

Lemma nth_error_indexed {A} (l : list A) : forall j x, nth_error l j = Some x -> In (j, x) (indexed l).
Proof.
  unfold indexed. assert (G : forall s j x, nth_error l j = Some x -> In ((s + j)%nat, x) (combine (seq s (length l)) l)).
  { induction l as [|a t IH]; intros s j x H; [destruct j; discriminate|]. destruct j as [|j]; cbn in *.
    - injection H as <-. left. f_equal. lia.
    - right. replace (s + S j)%nat with (S s + j)%nat by lia. now apply IH. }
  intros j x H. exact (G 0%nat j x H).
Qed.

Lemma isolated_b_sound g i : isolated_b g i = true -> isolated g i.
Proof.
  unfold isolated_b, isolated. intros H j r r' Ei Ej Hne. rewrite Ei in H. rewrite forallb_forall in H.
  specialize (H (j, r') (nth_error_indexed _ j r' Ej)). cbn [fst snd] in H.
  replace (Nat.eqb j i) with false in H by (symmetry; now apply Nat.eqb_neq). cbn [orb] in H.
  unfold disjoint_b in H. unfold disjoint_regs. lia.
Qed.

Lemma nodup_b_sound l : nodup_b l = true -> NoDup l.
Proof.
  induction l as [|x t IH]; intros H; [constructor|]. cbn in H. apply andb_true_iff in H. destruct H as (H1 & H2).
  constructor; [|now apply IH]. intros Hin. apply negb_true_iff in H1.
  assert (existsb (Nat.eqb x) t = true) by (apply existsb_exists; exists x; split; [assumption|apply Nat.eqb_refl]). congruence.
Qed.

Lemma comp_ok_b_sound g c : comp_ok_b g c = true -> comp_ok g c /\ isolated g (comp_reg c).
Proof.
  unfold comp_ok_b, comp_ok. destruct (t_sreg g (Top (comp_reg c))) as [s|]; [|discriminate]. intros H.
  apply andb_true_iff in H. destruct H as (H & _). apply andb_true_iff in H. destruct H as (H & H3).
  apply andb_true_iff in H. destruct H as (H1 & H2).
  split; [|now apply isolated_b_sound]. exists s. split; [reflexivity|]. split; lia.
Qed.

(* the facts the theorems use *)
Record wf_area (A : area) : Prop := {
  wa_regs : wf_regs (a_regs A);
  wa_fit : regs_fit (a_regs A) (area_total A);
  wa_size : 0 <= a_size A;
  wa_sized : a_sized A = true -> 0 < a_size A /\ 0 <= a_kind A <= 3;
  wa_fill : (a_fill A < 256)%N;
  wa_comp : Forall (fun c => comp_ok (a_regs A) c /\ isolated (a_regs A) (comp_reg c)) (a_computed A);
  wa_nodup : NoDup (map comp_reg (a_computed A));
  wa_seal : forall start count, a_seal A = Some (start, count) -> 0 <= start /\ 0 <= count /\ start + 4 * count <= a_size A;
  wa_doc : a_sized A = false -> a_size A <> 0 -> image_size (reg_imgs (a_regs A)) = a_size A;
  wa_opt : a_kind A <> 7 -> a_opt A = None
}.

Lemma wf_area_b_sound A : wf_area_b A = true -> wf_area A.
Proof.
  unfold wf_area_b. intros H.
  repeat match type of H with (_ && _ = true) => apply andb_true_iff in H; let H' := fresh "C" in destruct H as (H & H') end.
  constructor.
  - now apply wf_regs_b_sound.
  - unfold regs_fit. apply Forall_forall. intros r Hr. rewrite forallb_forall in C7. specialize (C7 r Hr).
    unfold reg_fits_b, reg_end in C7. unfold reg_fits. lia.
  - lia.
  - intros Hs. rewrite Hs in C5. cbn in C5. lia.
  - apply N.ltb_lt. exact C4.
  - apply Forall_forall. intros c Hc. rewrite forallb_forall in C3. now apply comp_ok_b_sound, C3.
  - now apply nodup_b_sound.
  - intros start count E. rewrite E in C1. lia.
  - intros Hs Hn. rewrite Hs in C0. cbn in C0. lia.
  - intros Hk. destruct (a_opt A); [lia|reflexivity].
Qed.

(* ====================================================================== G. the area theorems *)
(* a state of area A: a well-formed register file with the layout of the freshly built one *)
Definition state_of (A : area) (g : regs) : Prop := wf_regs g /\ same_layout (a_regs A) g.

Lemma state_fresh A : wf_area A -> state_of A (a_regs A).
Proof. intros W. split; [apply W|apply same_layout_refl]. Qed.

Lemma regs_fit_layout g g' n : same_layout g g' -> regs_fit g n -> regs_fit g' n.
Proof.
  intros Hsl Hf. unfold regs_fit in *. apply Forall_forall. intros r' Hin. destruct (In_nth_error _ _ Hin) as (i & Ei).
  destruct (same_layout_nth g' g i r' (eq_sym Hsl) Ei) as (r & Er & _).
  destruct (same_layout_geom g g' i r r' Hsl Er Ei) as (Eo & Ew & _).
  rewrite Forall_forall in Hf. specialize (Hf r (nth_error_In _ _ Er)). unfold reg_fits in *. rewrite Eo, Ew. exact Hf.
Qed.

Lemma isolated_layout g g' i : same_layout g g' -> isolated g i -> isolated g' i.
Proof.
  intros Hsl Hi j r r' Ei Ej Hne.
  destruct (same_layout_nth g' g i r (eq_sym Hsl) Ei) as (r0 & Er0 & _).
  destruct (same_layout_nth g' g j r' (eq_sym Hsl) Ej) as (r1 & Er1 & _).
  destruct (same_layout_geom g g' i r0 r Hsl Er0 Ei) as (Eo & Ew & _).
  destruct (same_layout_geom g g' j r1 r' Hsl Er1 Ej) as (Eo' & Ew' & _).
  specialize (Hi j r0 r1 Er0 Er1 Hne). unfold disjoint_regs, reg_end in *. rewrite Eo, Ew, Eo', Ew'. exact Hi.
Qed.

Lemma reg_imgs_geom g g' : wf_regs g -> wf_regs g' -> same_layout g g' -> Forall2 same_geom (reg_imgs g) (reg_imgs g').
Proof.
  intros Hg Hg' Hsl. unfold reg_imgs. apply Forall2_nth; [rewrite !map_length; symmetry; now apply same_layout_len|].
  intros k x y Hx Hy. rewrite nth_error_map in Hx, Hy.
  destruct (nth_error (g_regs g) k) as [r|] eqn:Er; [|discriminate]. injection Hx as <-.
  destruct (nth_error (g_regs g') k) as [r'|] eqn:Er'; [|discriminate]. injection Hy as <-.
  destruct (same_layout_geom g g' k r r' Hsl Er Er') as (Eo & Ew & _).
  unfold same_geom, reg_img. cbn [fst snd]. rewrite !enc_length, Eo, Ew. split; reflexivity.
Qed.

(* ---- size: every export of a PFR / IFR area has exactly BINARY_SIZE bytes, sealed or not;
        sealing only replaces the seal words *)
Definition seal_bytes (count : Z) : list N := List.concat (repeat SEAL (Z.to_nat count)).

Lemma seal_bytes_length count : 0 <= count -> zlen (seal_bytes count) = 4 * count.
Proof.
  intros H. unfold seal_bytes, zlen. rewrite <- (Z2Nat.id count) at 2 by assumption.
  induction (Z.to_nat count) as [|n IH]; [reflexivity|]. cbn [repeat List.concat]. rewrite app_length. cbn [SEAL length]. lia.
Qed.

Theorem area_export_size_lemma A g add_seal : wf_area A -> a_sized A = true -> state_of A g ->
  exists bin, area_export A g add_seal = Ok bin /\ zlen bin = a_size A.
Proof.
  intros W Hs (Hg & Hsl). destruct (wa_sized A W Hs) as (Hpos & _).
  assert (Hf : regs_fit g (a_size A)).
  { apply (regs_fit_layout (a_regs A)); [exact Hsl|]. pose proof (wa_fit A W) as F. unfold area_total in F. now rewrite Hs in F. }
  destruct (export_with_ok g (a_size A) (a_fill A) Hg Hf (wa_size A W)) as (bin & Ex & Lb & _).
  assert (Et : total_of g (a_size A) = a_size A) by (unfold total_of; replace (a_size A =? 0) with false by lia; reflexivity).
  rewrite Et in Lb. unfold area_export. rewrite Hs, Ex. cbn [bind].
  destruct add_seal; [destruct (a_seal A) as [(start, count)|] eqn:Es|].
  - destruct (wa_seal A W start count Es) as (S1 & S2 & S3).
    assert (L : zlen (splice bin (Z.to_nat start) (seal_bytes count)) = a_size A).
    { unfold zlen. rewrite splice_length; [exact Lb|]. pose proof (seal_bytes_length count S2). unfold zlen in *. lia. }
    fold (seal_bytes count). rewrite L, Z.eqb_refl. eexists. split; [reflexivity|exact L].
  - rewrite Lb, Z.eqb_refl. exists bin. split; [reflexivity|exact Lb].
  - rewrite Lb, Z.eqb_refl. exists bin. split; [reflexivity|exact Lb].
Qed.

Theorem area_seal_lemma A g start count : wf_area A -> a_sized A = true -> state_of A g -> a_seal A = Some (start, count) ->
  exists plain sealed, area_export A g false = Ok plain /\ area_export A g true = Ok sealed /\
    sealed = splice plain (Z.to_nat start) (seal_bytes count) /\
    slice sealed (Z.to_nat start) (Z.to_nat start + length (seal_bytes count)) = seal_bytes count /\
    firstn (Z.to_nat start) sealed = firstn (Z.to_nat start) plain /\
    skipn (Z.to_nat start + length (seal_bytes count)) sealed = skipn (Z.to_nat start + length (seal_bytes count)) plain.
Proof.
  intros W Hs St Es. destruct (area_export_size_lemma A g false W Hs St) as (plain & E0 & L0).
  destruct (area_export_size_lemma A g true W Hs St) as (sealed & E1 & L1).
  exists plain, sealed. split; [exact E0|]. split; [exact E1|].
  destruct (wa_seal A W start count Es) as (S1 & S2 & S3). pose proof (seal_bytes_length count S2) as Ls.
  assert (E : sealed = splice plain (Z.to_nat start) (seal_bytes count)).
  { unfold area_export in E0, E1. rewrite Hs in E0, E1. rewrite Es in E1.
    destruct (export_with g (a_size A) (a_fill A)) as [d|]; [|discriminate]. cbn [bind] in E0, E1.
    destruct (zlen d =? a_size A); [|discriminate]. injection E0 as <-. fold (seal_bytes count) in E1.
    destruct (zlen (splice d (Z.to_nat start) (seal_bytes count)) =? a_size A); [|discriminate]. now injection E1 as <-. }
  split; [exact E|]. subst sealed. unfold zlen in *.
  split; [apply splice_slice; lia|]. unfold splice. split.
  - rewrite firstn_app, firstn_firstn, firstn_length. replace (Nat.min (Z.to_nat start) (Z.to_nat start)) with (Z.to_nat start) by lia.
    replace (Z.to_nat start - Nat.min (Z.to_nat start) (length plain))%nat with 0%nat by lia. cbn [firstn]. apply app_nil_r.
  - rewrite app_assoc. rewrite skipn_app. rewrite skipn_all2 by (rewrite app_length, firstn_length; lia).
    rewrite app_length, firstn_length. replace (Z.to_nat start + length (seal_bytes count) - (Nat.min (Z.to_nat start) (length plain) + length (seal_bytes count)))%nat with 0%nat by lia.
    reflexivity.
Qed.

(* ---- the area's own parser accepts the export, and exporting the parsed object gives the same binary again
        (PFR / IFR areas: BaseConfigArea.parse is Registers.parse; register files may overlap) *)
Theorem area_parse_export_lemma A g : wf_area A -> a_sized A = true -> state_of A g -> hidden_agree g (a_regs A) ->
  exists bin g', area_export A g false = Ok bin /\ zlen bin = a_size A /\
                 area_parse A (a_regs A) bin = Ok g' /\ state_of A g' /\ area_export A g' false = Ok bin.
Proof.
  intros W Hs (Hg & Hsl) Hh. destruct (wa_sized A W Hs) as (Hpos & Hk).
  assert (Hf : regs_fit g (a_size A)).
  { apply (regs_fit_layout (a_regs A)); [exact Hsl|]. pose proof (wa_fit A W) as F. unfold area_total in F. now rewrite Hs in F. }
  destruct (export_parse_export_lemma g (a_regs A) (a_size A) (a_fill A) Hg (wa_regs A W) (eq_sym Hsl) Hh Hf (wa_size A W) (wa_fill A W))
    as (bin & g' & Ex & Lb & Pa & Hg' & Hsl' & Ex').
  assert (Et : total_of g (a_size A) = a_size A) by (unfold total_of; replace (a_size A =? 0) with false by lia; reflexivity).
  rewrite Et in Lb. exists bin, g'.
  assert (Eexp : forall x, export_with x (a_size A) (a_fill A) = Ok bin -> area_export A x false = Ok bin).
  { intros x E. unfold area_export. rewrite Hs, E. cbn [bind]. now rewrite Lb, Z.eqb_refl. }
  split; [now apply Eexp|]. split; [exact Lb|]. split.
  - unfold area_parse. replace (a_kind A =? 5) with false by lia. replace (a_kind A =? 6) with false by lia.
    replace (a_kind A =? 4) with false by lia. replace (a_kind A =? 7) with false by lia. exact Pa.
  - split; [split; [exact Hg'|eapply same_layout_trans; eassumption]|now apply Eexp].
Qed.

(* the same for register files exported in their automatic size (BCA / FCF / FCB / memory option words without the
   class specific tag and length checks): Registers.parse o Registers.export *)
Theorem registers_parse_export_lemma g g0 : wf_regs g -> wf_regs g0 -> same_layout g g0 -> hidden_agree g g0 ->
  Forall (fun r => 0 <= s_offset (r_base r)) (g_regs g) ->
  exists bin g', export_with g 0 0%N = Ok bin /\ parse g0 bin = Ok g' /\ export_with g' 0 0%N = Ok bin.
Proof.
  intros Hg Hg0 Hsl Hh Ho.
  assert (Hf : regs_fit g 0) by (eapply Forall_impl; [|exact Ho]; intros r H; split; [exact H|now left]).
  destruct (export_parse_export_lemma g g0 0 0%N Hg Hg0 Hsl Hh Hf (Z.le_refl 0) eq_refl) as (bin & g' & Ex & _ & Pa & _ & _ & Ex').
  exists bin, g'. tauto.
Qed.

(* ---- every register that shares no byte with another one is found in the binary, in the byte order of the file *)
Theorem area_value_in_binary_lemma A g i r bin : wf_area A -> a_sized A = true -> state_of A g ->
  nth_error (g_regs g) i = Some r -> isolated (a_regs A) i -> area_export A g false = Ok bin ->
  slice bin (Z.to_nat (s_offset (r_base r))) (Z.to_nat (reg_end r)) =
  enc (g_big g) (Z.to_nat (s_width (r_base r) / 8)) (reg_stored r true).
Proof.
  intros W Hs (Hg & Hsl) E Hi Ex.
  assert (Hf : regs_fit g (a_size A)).
  { apply (regs_fit_layout (a_regs A)); [exact Hsl|]. pose proof (wa_fit A W) as F. unfold area_total in F. now rewrite Hs in F. }
  unfold area_export in Ex. rewrite Hs in Ex.
  destruct (export_with g (a_size A) (a_fill A)) as [d|] eqn:Ed; [|discriminate]. cbn [bind] in Ex.
  destruct (zlen d =? a_size A); [|discriminate]. injection Ex as <-.
  eapply export_reg_bytes_lemma; try eassumption; [apply W|]. eapply isolated_layout; eassumption.
Qed.

(* ---- computed fields hold in every binary exported after load_from_config, for every register that the configuration
        gives as a mapping without the computed bit-field *)
Theorem computed_hold_lemma A cfg g : wf_area A -> a_sized A = true -> area_load A (a_regs A) cfg = Ok g ->
  state_of A g /\
  forall i k m e, In (i, k, m) (a_computed A) -> cfg_lookup cfg (Top i) None = Some e -> needs_compute e k = true ->
    exists v r, t_get g (Top i) true = Ok v /\ computed_rel m v /\ nth_error (g_regs g) i = Some r /\ s_width (r_base r) = 32 /\
      forall bin, area_export A g false = Ok bin ->
        slice bin (Z.to_nat (s_offset (r_base r))) (Z.to_nat (s_offset (r_base r)) + 4) = enc (g_big g) 4 v.
Proof.
  intros W Hs L. destruct (wa_sized A W Hs) as (_ & Hk).
  unfold area_load in L. pose proof (load_cfg_wf (plain_cfg cfg) (a_regs A) (wa_regs A W)) as K.
  destruct (load_cfg (a_regs A) (plain_cfg cfg)) as (g1, [u|e1]); [|discriminate]. cbn [fst] in K. destruct K as (Hg1 & Hsl1).
  rewrite Hs in L.
  destruct (recompute_lemma cfg (a_computed A) g1 Hg1) as (g2 & R & Hg2 & Hsl2 & _ & Co).
  { eapply Forall_impl; [|exact (wa_comp A W)]. intros c (C & _). eapply comp_ok_layout; eassumption. }
  { exact (wa_nodup A W). }
  rewrite R in L. cbn [bind] in L. unfold fix_size in L. replace (a_kind A =? 7) with false in L by lia. injection L as <-.
  assert (St : state_of A g2) by (split; [exact Hg2|eapply same_layout_trans; eassumption]).
  split; [exact St|]. intros i k m e Hin Hl Hn.
  destruct (Co i k m e Hin Hl Hn) as (v & G & Rv & Cr).
  pose proof (wa_comp A W) as Hc. rewrite Forall_forall in Hc. destruct (Hc (i, k, m) Hin) as ((s & Es & Ws & _) & Hiso).
  cbn [comp_reg fst] in Es, Hiso.
  destruct St as (_ & Hsl). destruct (same_layout_sreg (a_regs A) g2 (Top i) s Hsl Es) as (s2 & Es2 & Ee).
  destruct (erase_s_fields s s2 Ee) as (_ & Ew & _).
  cbn [t_sreg] in Es2. destruct (nth_error (g_regs g2) i) as [r|] eqn:Er; [|discriminate]. cbn [option_map] in Es2. injection Es2 as <-.
  exists v, r. split; [exact G|]. split; [exact Cr|]. split; [reflexivity|]. split; [congruence|].
  intros bin Ex.
  pose proof (area_value_in_binary_lemma A g2 i r bin W Hs (conj Hg2 Hsl) Er Hiso Ex) as Hb.
  assert (Ew' : s_width (r_base r) = 32) by congruence.
  unfold reg_end in Hb. rewrite Ew' in Hb. change (32 / 8) with 4 in Hb.
  assert (Hoff : 0 <= s_offset (r_base r)).
  { assert (Hf : regs_fit g2 (area_total A)) by (apply (regs_fit_layout (a_regs A)); [exact Hsl|apply W]).
    unfold regs_fit in Hf. rewrite Forall_forall in Hf. destruct (Hf r (nth_error_In _ _ Er)) as (F1 & _). exact F1. }
  replace (Z.to_nat (s_offset (r_base r) + 4)) with (Z.to_nat (s_offset (r_base r)) + 4)%nat in Hb by lia.
  rewrite Hb. f_equal.
  (* the raw value read through the API is the stored one *)
  cbn [t_get] in G. rewrite Er in G. rewrite reg_get_ok in G by exact (wf_regs_nth g2 i r Hg2 Er). rewrite view_raw in G. now injection G.
Qed.

(* ====================================================================== H. TrustZone preset data *)
Lemma tz_words_length P cu : forall i ws, tz_words P cu i = Ok ws -> length ws = length P.
Proof.
  induction P as [|(n, d) t IH]; intros i ws H; cbn [tz_words] in H; [now injection H as <-|].
  destruct (tz_value _) as [w|]; [|discriminate]. cbn [bind] in H.
  destruct (tz_words t cu (i + 1)) as [ws'|] eqn:E; [|discriminate]. cbn [bind] in H. injection H as <-. cbn. f_equal. eapply IH; eassumption.
Qed.

Lemma flat_enc_length ws : length (flat_map (fun w => le_enc 4 (Z.to_N w)) ws) = (4 * length ws)%nat.
Proof. induction ws as [|w t IH]; [reflexivity|]. cbn [flat_map]. rewrite app_length, le_enc_length, IH. cbn. lia. Qed.

(* the exported data has four bytes per preset *)
Theorem tz_export_size_lemma P cu b : tz_export P cu = Ok b -> zlen b = 4 * zlen P.
Proof.
  unfold tz_export. intros H. destruct (tz_words P cu 0) as [ws|] eqn:E; [|discriminate]. cbn [bind] in H.
  destruct (forallb _ ws); [|discriminate]. injection H as <-. unfold zlen. rewrite flat_enc_length, (tz_words_length P cu 0 ws E). lia.
Qed.

Lemma tz_unpack_S n raw : tz_unpack (S n) raw = Z.of_N (le_dec (firstn 4 raw)) :: tz_unpack n (skipn 4 raw).
Proof. reflexivity. Qed.

Lemma firstn_app_exact' {A} (a b : list A) n : length a = n -> firstn n (a ++ b) = a.
Proof. intros <-. rewrite firstn_app, Nat.sub_diag, firstn_all. cbn [firstn]. apply app_nil_r. Qed.
Lemma skipn_app_exact' {A} (a b : list A) n : length a = n -> skipn n (a ++ b) = b.
Proof. intros <-. rewrite skipn_app, Nat.sub_diag, skipn_all. reflexivity. Qed.

Lemma tz_unpack_enc ws : Forall (fun w => 0 <= w < 2 ^ 32) ws ->
  forall rest, tz_unpack (length ws) (flat_map (fun w => le_enc 4 (Z.to_N w)) ws ++ rest) = ws.
Proof.
  induction 1 as [|w t Hw Ht IH]; intros rest; [reflexivity|].
  change (length (w :: t)) with (S (length t)). rewrite tz_unpack_S.
  change (flat_map (fun w0 => le_enc 4 (Z.to_N w0)) (w :: t)) with (le_enc 4 (Z.to_N w) ++ flat_map (fun w0 => le_enc 4 (Z.to_N w0)) t).
  rewrite <- app_assoc.
  rewrite firstn_app_exact' by apply le_enc_length. rewrite skipn_app_exact' by apply le_enc_length.
  rewrite le_dec_enc_small by (change (2 ^ (8 * N.of_nat 4))%N with (Z.to_N (2 ^ 32)); lia).
  rewrite Z2N.id by lia. f_equal. apply IH.
Qed.

Lemma tz_custom_seq ws : forall s i acc,
  tz_custom (combine (zseq s (length ws)) (map VInt ws)) i acc =
  if (s <=? i) && (i <? s + zlen ws) then Some (VInt (nth (Z.to_nat (i - s)) ws 0)) else acc.
Proof.
  induction ws as [|w t IH]; intros s i acc; unfold zlen; cbn [length zseq map combine tz_custom].
  - replace ((s <=? i) && (i <? s + Z.of_nat 0)) with false by lia. reflexivity.
  - rewrite IH. unfold zlen. destruct (Z.eqb_spec i s) as [->|Hne].
    + replace ((s + 1 <=? s) && (s <? s + 1 + Z.of_nat (length t))) with false by lia.
      replace ((s <=? s) && (s <? s + Z.of_nat (S (length t)))) with true by lia. now rewrite Z.sub_diag.
    + destruct (Z.leb_spec (s + 1) i); destruct (Z.ltb_spec i (s + 1 + Z.of_nat (length t))); cbn [andb].
      * replace ((s <=? i) && (i <? s + Z.of_nat (S (length t)))) with true by lia.
        replace (Z.to_nat (i - s)) with (S (Z.to_nat (i - (s + 1)))) by lia. reflexivity.
      * replace ((s <=? i) && (i <? s + Z.of_nat (S (length t)))) with false by lia. reflexivity.
      * replace ((s <=? i) && (i <? s + Z.of_nat (S (length t)))) with false by lia. reflexivity.
      * replace ((s <=? i) && (i <? s + Z.of_nat (S (length t)))) with false by lia. reflexivity.
Qed.

Lemma tz_words_custom P : forall ws cu s, length ws = length P ->
  (forall j w, nth_error ws j = Some w -> tz_custom cu (s + Z.of_nat j) None = Some (VInt w)) ->
  tz_words P cu s = Ok ws.
Proof.
  induction P as [|(n, d) t IH]; intros ws cu s Hl H; destruct ws as [|w ws']; try discriminate; cbn [tz_words]; [reflexivity|].
  pose proof (H 0%nat w eq_refl) as H0. rewrite Z.add_0_r in H0. rewrite H0. cbn [tz_value bind].
  rewrite (IH ws' cu (s + 1)); [reflexivity|cbn in Hl; lia|].
  intros j x Hj. specialize (H (S j) x Hj). replace (s + 1 + Z.of_nat j) with (s + Z.of_nat (S j)) by lia. exact H.
Qed.

(* from_binary(export) gives back the words and exports the same data *)
Theorem tz_parse_export_lemma P cu b : tz_export P cu = Ok b ->
  exists ws, tz_parse P b = Ok ws /\ tz_export P (tz_customs_of ws) = Ok b.
Proof.
  unfold tz_export. intros H. destruct (tz_words P cu 0) as [ws|] eqn:E; [|discriminate]. cbn [bind] in H.
  destruct (forallb (fun w => (0 <=? w) && (w <? 2 ^ 32)) ws) eqn:Ef; [|discriminate].
  assert (Hb : b = flat_map (fun w => le_enc 4 (Z.to_N w)) ws) by (injection H as <-; reflexivity). clear H.
  pose proof (tz_words_length P cu 0 ws E) as Lw.
  assert (Hr : Forall (fun w => 0 <= w < 2 ^ 32) ws).
  { apply Forall_forall. intros w Hw. rewrite forallb_forall in Ef. specialize (Ef w Hw). lia. }
  assert (Lb : length b = (4 * length ws)%nat) by (rewrite Hb; apply flat_enc_length).
  exists ws. split.
  - unfold tz_parse, zlen. rewrite Lb.
    destruct (Z.gtb_spec (Z.of_nat (length P)) (Z.of_nat (4 * length ws) / 4)) as [G|G]; [lia|].
    rewrite <- Lw. f_equal. rewrite Hb. rewrite <- (app_nil_r (flat_map _ ws)). now apply tz_unpack_enc.
  - rewrite (tz_words_custom P ws (tz_customs_of ws) 0 Lw).
    + cbn [bind]. rewrite Ef. now rewrite Hb.
    + intros j w Hj. unfold tz_customs_of. rewrite tz_custom_seq. unfold zlen.
      assert (j < length ws)%nat by (apply nth_error_Some; congruence).
      replace ((0 <=? 0 + Z.of_nat j) && (0 + Z.of_nat j <? 0 + Z.of_nat (length ws))) with true by lia.
      replace (Z.to_nat (0 + Z.of_nat j - 0)) with j by lia. f_equal. f_equal. now apply nth_error_nth.
Qed.

(* ====================================================================== I. the database sweep *)
(* structural classes of the recorded findings: the positive theorems above do not speak about these areas *)
Definition has_alt_b (A : area) : bool :=
  existsb (fun r => match s_alt (r_base r) with [] => false | _ => true end) (g_regs (a_regs A)).
Definition short_group_b (r : reg) : bool :=
  match r_subs r with
  | [] => false
  | s0 :: _ => negb (Z.of_nat (length (r_subs r)) * s_width s0 =? s_width (r_base r))
  end.
Definition has_short_group_b (A : area) : bool := existsb short_group_b (g_regs (a_regs A)).
Definition beyond_size_b (A : area) : bool :=
  negb (a_sized A) && negb (a_size A =? 0) && (a_size A <? image_size (reg_imgs (a_regs A))).
Definition known_class_b (A : area) : bool := has_alt_b A || has_short_group_b A || beyond_size_b A.

(* A member of a recorded class is excused for the defect that defines the class and for nothing else: wf_area_x_b is
   wf_area_b with exactly three clauses relaxed, each only where the defect is exhibited:
     - a top-level register that HAS alternative widths may have them (they must be positive multiples of 8 up to the width);
     - a grouped register that IS wider than its sub-registers may be (sub-registers of one width, not more than the group);
     - a segment register file that IS longer than the documented SIZE may be (never shorter).
   Everything else (widths, value ranges, bit-fields inside their register and pairwise disjoint, registers inside a sized
   binary, fill, seal, computed fields, duplicate computed registers, the XMCD option) is demanded of every area. *)
Definition has_alt_reg_b (r : reg) : bool := match s_alt (r_base r) with [] => false | _ => true end.
Definition wf_reg_x_b (r : reg) : bool :=
  wf_sreg_b (has_alt_reg_b r) (r_base r) && forallb (wf_sreg_b false) (r_subs r) &&
  match r_subs r with
  | [] => true
  | s0 :: _ => forallb (fun s => s_width s =? s_width s0) (r_subs r) &&
               (if short_group_b r then Z.of_nat (length (r_subs r)) * s_width s0 <? s_width (r_base r)
                else Z.of_nat (length (r_subs r)) * s_width s0 =? s_width (r_base r)) &&
               (s_value (r_base r) =? 0)
  end.
Definition wf_area_x_b (A : area) : bool :=
  forallb reg_fields_disjoint_b (g_regs (a_regs A)) &&
  forallb wf_reg_x_b (g_regs (a_regs A)) &&
  forallb (reg_fits_b (area_total A)) (g_regs (a_regs A)) &&
  (0 <=? a_size A) && (negb (a_sized A) || ((0 <? a_size A) && (0 <=? a_kind A) && (a_kind A <=? 3))) &&
  (a_fill A <? 256)%N &&
  forallb (comp_ok_b (a_regs A)) (a_computed A) && nodup_b (map comp_reg (a_computed A)) &&
  match a_seal A with Some (start, count) => (0 <=? start) && (0 <=? count) && (start + 4 * count <=? a_size A) | None => true end &&
  (a_sized A || (a_size A =? 0) || (if beyond_size_b A then true else image_size (reg_imgs (a_regs A)) =? a_size A)) &&
  match a_opt A with Some _ => a_kind A =? 7 | None => true end.

(* every area of every family and revision in the database satisfies every clause outside its recorded defect, and is
   fully well formed unless it exhibits one of the three recorded defects *)
Lemma all_areas_swept_lemma : forallb (fun A => wf_area_x_b A && (wf_area_b A || known_class_b A)) all_areas = true.
Proof. vm_compute. reflexivity. Qed.

Lemma all_areas_wf_lemma A : In A all_areas -> known_class_b A = false -> wf_area A.
Proof.
  intros Hin Hk. apply wf_area_b_sound. pose proof all_areas_swept_lemma as H. rewrite forallb_forall in H.
  specialize (H A Hin). apply andb_true_iff in H. destruct H as (_ & H). rewrite Hk, orb_false_r in H. exact H.
Qed.

(* the classes are not empty words: the recorded findings are in today's data *)
Lemma known_classes_inhabited_lemma :
  existsb has_alt_b all_areas = true /\ existsb has_short_group_b all_areas = true /\ existsb beyond_size_b all_areas = true.
Proof. vm_compute. repeat split. Qed.

(* finding C12-F1: a group register declared wider than its sub-registers drops the upper part of an in-range value *)
Definition truncating_group_b (A : area) : bool :=
  existsb (fun ir =>
    short_group_b (snd ir) &&
    let W := s_width (r_base (snd ir)) in
    match t_set (a_regs A) (Top (fst ir)) (2 ^ (W - 1)) true with
    | Ok g => match t_get g (Top (fst ir)) true with Ok v => negb (v =? 2 ^ (W - 1)) | Err _ => false end
    | Err _ => false
    end) (indexed (g_regs (a_regs A))).

Lemma group_value_truncated_refuted_lemma : exists A, In A all_areas /\ truncating_group_b A = true.
Proof.
  assert (H : existsb truncating_group_b all_areas = true) by (vm_compute; reflexivity).
  apply existsb_exists in H. exact H.
Qed.

(* the hypotheses of the theorems are satisfiable on real data: the first CMPA layout of the database *)
Example ex_area_wf : match all_areas with A :: _ => wf_area_b A = true /\ a_sized A = true | [] => False end.
Proof. vm_compute. split; reflexivity. Qed.
Example ex_hidden_agree A : hidden_agree (a_regs A) (a_regs A).
Proof. intros i r E _. exact E. Qed.

(* ====================================================================== J. configuration round trip (numeric content) *)
(* RegsProofs.load_fields_numeric / config_numeric_lemma with the frame: other top-level registers are not touched *)
Lemma load_fields_numeric_frame V t : forall fs k0 g1 s St, wf_regs g1 -> t_sreg g1 t = Some s ->
  (forall j f, nth_error fs j = Some f -> t_field g1 t (k0 + j) = Some f) ->
  t_get g1 t true = Ok St ->
  exists g2 s2, load_fields g1 t (numeric_cfg k0 fs V) = (g2, Ok tt) /\ wf_regs g2 /\ same_layout g1 g2 /\
                t_sreg g2 t = Some s2 /\ t_get g2 t true = Ok (apply_fields St fs V) /\
                (forall u r', top_of u <> top_of t -> t_get g2 u r' = t_get g1 u r').
Proof.
  induction fs as [|f rest IH]; intros k0 g1 s St Hg Hs Hf HS; cbn [numeric_cfg load_fields apply_fields fold_left].
  - exists g1, s. repeat split; solve [assumption | reflexivity].
  - assert (Hf0 : t_field g1 t k0 = Some f) by (specialize (Hf 0%nat f eq_refl); now rewrite Nat.add_0_r in Hf).
    destruct (t_field_wf g1 t k0 f s Hg Hs Hf0) as (F1 & F2 & F3 & F4).
    assert (Hp : in_range (f_width f) (pre_of f (post_of f (fbits f V)) false)).
    { unfold pre_of, post_of. rewrite pre_post by assumption. apply getbits_range. lia. }
    destruct (f_set_int_ok g1 t k0 f s _ true false Hg Hs Hf0 Hp) as (g' & rv & G1 & G2 & S1 & S2 & S3 & S4 & S5 & _).
    rewrite HS in G1. injection G1 as <-.
    rewrite Hf0. unfold f_set_enum. rewrite Hf0. cbn [to_int bind]. rewrite S1.
    unfold pre_of, post_of in S4. rewrite pre_post in S4 by assumption.
    destruct (same_layout_sreg g1 g' t s S3 Hs) as (s' & Hs' & _).
    assert (Hf' : forall j f', nth_error rest j = Some f' -> t_field g' t (S k0 + j) = Some f').
    { intros j f' Hj. rewrite (same_layout_field g1 g' t _ S3). specialize (Hf (S j) f' Hj). now rewrite Nat.add_succ_r in Hf. }
    destruct (IH (S k0) g' s' _ S2 Hs' Hf' S4) as (g2 & s2 & L1 & L2 & L3 & L4 & L5 & L6).
    exists g2, s2. split; [exact L1|]. split; [assumption|]. split; [eapply same_layout_trans; eassumption|]. split; [assumption|].
    split; [assumption|]. intros u r' Hu. rewrite L6 by assumption. now apply S5.
Qed.

(* the numeric content of one top-level register: the value itself when it has no bit-fields, else every bit-field *)
Definition nentry (fs : list field) (V : Z) : centry :=
  match fs with [] => CVal (VInt V) | _ => CFields (numeric_cfg 0 fs V) end.

Lemma load_nentry g1 t s V : wf_regs g1 -> t_sreg g1 t = Some s -> in_range (s_width s) V ->
  (s_fields s = [] \/ tiles (s_fields s) (s_width s)) ->
  exists g2, load_entry g1 t (nentry (s_fields s) V) = (g2, Ok tt) /\ wf_regs g2 /\ same_layout g1 g2 /\
             t_get g2 t false = Ok V /\ (forall u r', top_of u <> top_of t -> t_get g2 u r' = t_get g1 u r').
Proof.
  intros Hg Hs HV Ht. unfold nentry. destruct (s_fields s) as [|f0 fr] eqn:Ef.
  - destruct (t_set_ok g1 t s V false Hg Hs HV) as (g2 & T1 & T2 & T3 & T4 & T5 & _).
    exists g2. unfold load_entry. rewrite Hs. cbn [cfg_value to_int bind]. rewrite T1. repeat split; assumption.
  - destruct Ht as [Ht|Ht]; [discriminate|]. rewrite <- Ef in *.
    destruct (t_get_total g1 t s true Hg Hs) as (St & HS & HSr).
    destruct (load_fields_numeric_frame V t (s_fields s) 0 g1 s St Hg Hs) as (g2 & s2 & L1 & L2 & L3 & L4 & L5 & L6); [|assumption|].
    { intros j f Hj. unfold t_field. now rewrite Hs. }
    pose proof (t_sreg_wf g1 t s Hg Hs) as (B1 & _ & _ & BF & _).
    rewrite (apply_fields_tiled (s_width s)) in L5 by (assumption || lia).
    destruct (same_layout_sreg g1 g2 t s L3 Hs) as (s2' & Hs2 & Es).
    destruct (erase_s_fields s s2' Es) as (_ & Ew & _).
    assert (HV2 : in_range (s_width s2') V) by now rewrite Ew.
    destruct (t_set_ok g2 t s2' V false L2 Hs2 HV2) as (g3 & T1 & T2 & T3 & T4 & T5 & _).
    exists g3. split.
    { unfold load_entry. rewrite Hs, L1, L5. cbn [bind]. rewrite T1. reflexivity. }
    split; [assumption|]. split; [eapply same_layout_trans; eassumption|]. split; [assumption|].
    intros u r' Hu. rewrite T5 by assumption. now apply L6.
Qed.

Definition fields_of (g : regs) (i : nat) : list field :=
  match t_sreg g (Top i) with Some s => s_fields s | None => [] end.

Lemma fields_of_layout g g' i : same_layout g g' -> fields_of g' i = fields_of g i.
Proof.
  intros H. unfold fields_of. destruct (t_sreg g (Top i)) as [s|] eqn:E.
  - destruct (same_layout_sreg g g' _ s H E) as (s' & -> & Ee). now destruct (erase_s_fields s s' Ee) as (-> & _).
  - destruct (t_sreg g' (Top i)) as [s'|] eqn:E'; [|reflexivity].
    destruct (same_layout_sreg g' g _ s' (eq_sym H) E') as (s & E2 & _). congruence.
Qed.

(* register i can carry the value V through a configuration *)
Definition cfg_ok (g : regs) (iv : nat * Z) : Prop :=
  exists s, t_sreg g (Top (fst iv)) = Some s /\ in_range (s_width s) (snd iv) /\
            (s_fields s = [] \/ tiles (s_fields s) (s_width s)).

Lemma cfg_ok_layout g g' iv : same_layout g g' -> cfg_ok g iv -> cfg_ok g' iv.
Proof.
  intros H (s & E & R & T). destruct (same_layout_sreg g g' _ s H E) as (s' & E' & Ee).
  destruct (erase_s_fields s s' Ee) as (Ef & Ew & _). exists s'. rewrite Ef, Ew. tauto.
Qed.

Definition numeric_config (g : regs) (l : list (nat * Z)) : list (ref * centry) :=
  map (fun iv => (Top (fst iv), nentry (fields_of g (fst iv)) (snd iv))) l.

Lemma load_numeric_all : forall l g1, wf_regs g1 -> NoDup (map fst l) -> Forall (cfg_ok g1) l ->
  exists g2, load_cfg g1 (numeric_config g1 l) = (g2, Ok tt) /\ wf_regs g2 /\ same_layout g1 g2 /\
    (forall i V, In (i, V) l -> t_get g2 (Top i) false = Ok V) /\
    (forall u r', ~ In (top_of u) (map fst l) -> t_get g2 u r' = t_get g1 u r').
Proof.
  induction l as [|(i, V) rest IH]; intros g1 Hg Hnd Hc; cbn [numeric_config map load_cfg].
  - exists g1. split; [reflexivity|]. split; [assumption|]. split; [apply same_layout_refl|]. split; [intros ? ? []|reflexivity].
  - inversion Hc as [|? ? (s & Es & Rs & Ts) Hrest]; subst. cbn [fst snd] in *.
    inversion Hnd as [|? ? Hni Hnd']; subst.
    assert (Ef : fields_of g1 i = s_fields s) by (unfold fields_of; now rewrite Es). rewrite Ef.
    destruct (load_nentry g1 (Top i) s V Hg Es Rs Ts) as (g2 & L1 & L2 & L3 & L4 & L5). rewrite L1.
    destruct (IH g2 L2 Hnd') as (g3 & M1 & M2 & M3 & M4 & M5).
    { eapply Forall_impl; [|exact Hrest]. intros iv. now apply cfg_ok_layout. }
    assert (En : numeric_config g1 rest = numeric_config g2 rest).
    { unfold numeric_config. apply map_ext. intros iv. now rewrite (fields_of_layout g1 g2 _ L3). }
    fold (numeric_config g1 rest). rewrite En, M1.
    exists g3. split; [reflexivity|]. split; [assumption|]. split; [eapply same_layout_trans; eassumption|]. split.
    + intros i0 V0 [Heq|Hin]; [|now apply M4]. injection Heq as <- <-. rewrite M5; [exact L4|]. exact Hni.
    + intros u r' Hu. cbn [map fst In] in Hu. rewrite M5 by tauto. apply L5. cbn [top_of]. intros Heq. apply Hu. left. now symmetry.
Qed.

(* the (non-raw) values of all top-level registers *)
Fixpoint values_from (g : regs) (i : nat) (n : nat) : list (nat * Z) :=
  match n with
  | O => []
  | S k => match t_get g (Top i) false with Ok v => (i, v) :: values_from g (S i) k | Err _ => values_from g (S i) k end
  end.
Definition values_of (g : regs) : list (nat * Z) := values_from g 0 (length (g_regs g)).

Lemma values_from_fst g n : forall i x, In x (map fst (values_from g i n)) -> (i <= x < i + n)%nat.
Proof.
  induction n as [|n IH]; intros i x H; cbn [values_from] in H; [destruct H|].
  destruct (t_get g (Top i) false); cbn [map fst In] in H; [destruct H as [<-|H]; [lia|]|]; apply IH in H; lia.
Qed.

Lemma values_from_nodup g n : forall i, NoDup (map fst (values_from g i n)).
Proof.
  induction n as [|n IH]; intros i; cbn [values_from]; [constructor|].
  destruct (t_get g (Top i) false); [|apply IH]. cbn [map fst]. constructor; [|apply IH].
  intros H. apply values_from_fst in H. lia.
Qed.

Lemma values_from_in g n : forall i j V, In (j, V) (values_from g i n) -> t_get g (Top j) false = Ok V.
Proof.
  induction n as [|n IH]; intros i j V H; cbn [values_from] in H; [destruct H|].
  destruct (t_get g (Top i) false) eqn:E; [destruct H as [Heq|H]; [injection Heq as <- <-; exact E|]|]; eapply IH; eassumption.
Qed.

Lemma values_from_all g n : wf_regs g -> forall i j, (i <= j < i + n)%nat -> (j < length (g_regs g))%nat ->
  exists V, In (j, V) (values_from g i n).
Proof.
  intros Hg. induction n as [|n IH]; intros i j Hj Hl; [lia|]. cbn [values_from].
  destruct (Nat.eq_dec j i) as [->|Hne].
  - destruct (nth_error (g_regs g) i) as [r|] eqn:E; [|apply nth_error_None in E; lia].
    destruct (t_get_total g (Top i) (r_base r) false Hg) as (v & G & _); [cbn [t_sreg]; now rewrite E|].
    rewrite G. exists v. now left.
  - destruct (IH (S i) j) as (V & HV); [lia|assumption|]. exists V. destruct (t_get g (Top i) false); [now right|assumption].
Qed.

(* every register with bit-fields is tiled by them *)
Definition all_tiled (g : regs) : Prop :=
  forall i s, t_sreg g (Top i) = Some s -> s_fields s = [] \/ tiles (s_fields s) (s_width s).

(* loading the numeric content of the configuration of g into any object g0 of the same layout gives every top-level
   register (hence every bit-field) the value it has in g *)
Theorem config_roundtrip_lemma_area g g0 : wf_regs g -> wf_regs g0 -> same_layout g g0 -> all_tiled g ->
  exists g', load_cfg g0 (numeric_config g0 (values_of g)) = (g', Ok tt) /\ wf_regs g' /\ same_layout g g' /\
    forall i, (i < length (g_regs g))%nat -> t_get g' (Top i) false = t_get g (Top i) false.
Proof.
  intros Hg Hg0 Hsl Ht.
  destruct (load_numeric_all (values_of g) g0 Hg0 (values_from_nodup g _ 0)) as (g' & L1 & L2 & L3 & L4 & _).
  { apply Forall_forall. intros (i, V) Hin. pose proof (values_from_in g _ 0 i V Hin) as G.
    apply (cfg_ok_layout g g0 _ Hsl). cbn [t_get] in G.
    destruct (nth_error (g_regs g) i) as [r|] eqn:E; [|discriminate].
    assert (Es : t_sreg g (Top i) = Some (r_base r)) by (cbn [t_sreg]; now rewrite E).
    destruct (t_get_total g (Top i) (r_base r) false Hg Es) as (v & G' & R). cbn [t_get] in G'. rewrite E in G'. rewrite G in G'. injection G' as <-.
    exists (r_base r). split; [exact Es|]. split; [exact R|]. now apply (Ht i). }
  exists g'. split; [exact L1|]. split; [exact L2|]. split; [eapply same_layout_trans; eassumption|].
  intros i Hi. destruct (values_from_all g (length (g_regs g)) Hg 0 i) as (V & HV); [lia|assumption|].
  rewrite (L4 i V HV). symmetry. eapply values_from_in; eassumption.
Qed.

(* ---------------------------------------------------------------- decidable tiling, and the statement for areas *)
Definition tiles_b (fs : list field) (W : Z) : bool := forallb (covered fs) (zseq 0 (Z.to_nat W)).

Lemma zseq_in n k : forall s, s <= n < s + Z.of_nat k -> In n (zseq s k).
Proof.
  induction k as [|k IH]; intros s H; [lia|]. cbn [zseq]. destruct (Z.eq_dec n s) as [->|Hne]; [now left|].
  right. apply IH. lia.
Qed.

Lemma tiles_b_sound fs W : tiles_b fs W = true -> tiles fs W.
Proof.
  unfold tiles_b, tiles. intros H n Hn. rewrite forallb_forall in H. apply H. apply zseq_in. lia.
Qed.

Definition tiled_regs_b (g : regs) : bool :=
  forallb (fun r => match s_fields (r_base r) with [] => true | fs => tiles_b fs (s_width (r_base r)) end) (g_regs g).

Lemma tiled_regs_b_sound g : tiled_regs_b g = true -> all_tiled g.
Proof.
  unfold tiled_regs_b, all_tiled. intros H i s Es. cbn [t_sreg] in Es.
  destruct (nth_error (g_regs g) i) as [r|] eqn:E; [|discriminate]. cbn [option_map] in Es. injection Es as <-.
  rewrite forallb_forall in H. specialize (H r (nth_error_In _ _ E)).
  destruct (s_fields (r_base r)) as [|f t] eqn:Ef; [now left|right]. rewrite <- Ef in *. now apply tiles_b_sound.
Qed.

Lemma all_tiled_layout g g' : same_layout g g' -> all_tiled g -> all_tiled g'.
Proof.
  intros Hsl Ht i s' Es'. destruct (same_layout_sreg g' g _ s' (eq_sym Hsl) Es') as (s & Es & Ee).
  destruct (erase_s_fields s' s Ee) as (Ef & Ew & _). rewrite <- Ef, <- Ew. now apply (Ht i).
Qed.

(* converting an area object to its (numeric) configuration and loading it into a fresh object of the same area restores
   the value of every top-level register, for every state of every well-formed area whose bit-fields tile their registers *)
Theorem area_config_roundtrip_lemma A g : wf_area A -> tiled_regs_b (a_regs A) = true -> state_of A g ->
  exists g', load_cfg (a_regs A) (numeric_config (a_regs A) (values_of g)) = (g', Ok tt) /\ state_of A g' /\
    forall i, (i < length (g_regs g))%nat -> t_get g' (Top i) false = t_get g (Top i) false.
Proof.
  intros W Ht (Hg & Hsl).
  assert (Ht' : all_tiled g) by (apply (all_tiled_layout (a_regs A)); [exact Hsl|now apply tiled_regs_b_sound]).
  destruct (config_roundtrip_lemma_area g (a_regs A) Hg (wa_regs A W) (eq_sym Hsl) Ht') as (g' & L & Hg' & Hsl' & Hv).
  exists g'. split; [exact L|]. split; [split; [exact Hg'|eapply same_layout_trans; eassumption]|exact Hv].
Qed.

(* how much of the database this covers is measured by the check (tiled_regs_b over all_areas) *)
Example ex_tiled : match all_areas with A :: _ => tiled_regs_b (a_regs A) = true | [] => False end.
Proof. vm_compute. reflexivity. Qed.
