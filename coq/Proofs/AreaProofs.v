(* Proofs/AreaProofs.v -- lemmas about Model/AreaModel.v (C12), on top of Proofs/RegsProofs.v (C11). *)
From Coq Require Import ZArith NArith List Bool Lia ZifyBool.
Require Import Value Bytes BytesProofs GenMisc MiscModel GenRegs RegsModel RegsProofs GenAreaFns GenAreas AreaModel.
Import ListNotations.
Local Open Scope Z_scope.
Ltac Zify.zify_post_hook ::= Z.to_euclidean_division_equations.

(* ====================================================================== A. writing children into a parent buffer *)
(* the byte at position p after the images were written in order (later images win) *)
Definition covers (im : Z * list N) (p : nat) : bool :=
  (fst im <=? Z.of_nat p) && (Z.of_nat p <? fst im + zlen (snd im)).

Fixpoint byte_at (p : nat) (ims : list (Z * list N)) (dflt : N) : N :=
  match ims with
  | [] => dflt
  | im :: t => byte_at p t (if covers im p then nth (p - Z.to_nat (fst im)) (snd im) 0%N else dflt)
  end.

Definition fits (n : Z) (im : Z * list N) : Prop := 0 <= fst im /\ fst im + zlen (snd im) <= n.

Lemma nth_skipn' {A} (l : list A) k p d : nth p (skipn k l) d = nth (k + p) l d.
Proof. revert l; induction k as [|k IH]; intros l; [reflexivity|]. destruct l; [now destruct p|]. cbn. apply IH. Qed.

Lemma nth_firstn' {A} (l : list A) k p d : (p < k)%nat -> nth p (firstn k l) d = nth p l d.
Proof. revert l p; induction k as [|k IH]; intros l p H; [lia|]. destruct l; [reflexivity|]. destruct p; [reflexivity|]. cbn. apply IH. lia. Qed.

Lemma nth_splice (buf d : list N) off p : (off + length d <= length buf)%nat ->
  nth p (splice buf off d) 0%N = if (off <=? p)%nat && (p <? off + length d)%nat then nth (p - off) d 0%N else nth p buf 0%N.
Proof.
  intros H. unfold splice.
  destruct (Nat.leb_spec off p) as [H1|H1]; cbn [andb].
  - rewrite app_nth2 by (rewrite firstn_length; lia). rewrite firstn_length, Nat.min_l by lia.
    destruct (Nat.ltb_spec p (off + length d)) as [H2|H2].
    + apply app_nth1. lia.
    + rewrite app_nth2 by lia. rewrite nth_skipn'. f_equal. lia.
  - rewrite app_nth1 by (rewrite firstn_length; lia). apply nth_firstn'. lia.
Qed.

Lemma place_all_ok ims : forall buf, Forall (fits (zlen buf)) ims ->
  exists out, place_all buf ims = Ok out /\ length out = length buf /\
              forall p, (p < length buf)%nat -> nth p out 0%N = byte_at p ims (nth p buf 0%N).
Proof.
  induction ims as [|im t IH]; intros buf H; cbn [place_all byte_at].
  - exists buf. repeat split; reflexivity.
  - inversion H as [|? ? (F1 & F2) Ht]; subst.
    replace ((fst im <? 0) || (zlen buf <? fst im + zlen (snd im))) with false by lia.
    assert (Hl : (Z.to_nat (fst im) + length (snd im) <= length buf)%nat) by (unfold zlen in *; lia).
    assert (Hlen : length (splice buf (Z.to_nat (fst im)) (snd im)) = length buf) by now apply splice_length.
    destruct (IH (splice buf (Z.to_nat (fst im)) (snd im))) as (out & E & L & B).
    { unfold zlen. rewrite Hlen. exact Ht. }
    exists out. split; [exact E|]. split; [lia|].
    intros p Hp. rewrite B by lia. rewrite nth_splice by assumption. f_equal.
    unfold covers, zlen.
    destruct (Nat.leb_spec (Z.to_nat (fst im)) p); destruct (Nat.ltb_spec p (Z.to_nat (fst im) + length (snd im))); cbn [andb];
      destruct (Z.leb_spec (fst im) (Z.of_nat p)); destruct (Z.ltb_spec (Z.of_nat p) (fst im + Z.of_nat (length (snd im)))); cbn [andb];
      try reflexivity; lia.
Qed.

Lemma byte_at_nocover p ims : forall a, (forall im, In im ims -> covers im p = false) -> byte_at p ims a = a.
Proof.
  induction ims as [|im t IH]; intros a H; cbn [byte_at]; [reflexivity|].
  rewrite (H im) by now left. apply IH. intros x Hx. apply H. now right.
Qed.

(* an image that alone covers p determines the byte, wherever it sits in the list *)
Lemma byte_at_unique p im ims : forall a, In im ims -> covers im p = true ->
  (forall x, In x ims -> covers x p = true -> x = im) ->
  byte_at p ims a = nth (p - Z.to_nat (fst im)) (snd im) 0%N.
Proof.
  induction ims as [|x t IH]; intros a Hin Hc Hu; [destruct Hin|]. cbn [byte_at].
  destruct (covers x p) eqn:Ex.
  - assert (x = im) by (apply Hu; [now left|assumption]). subst x.
    destruct (in_dec (fun u v : Z * list N => ltac:(decide equality; [apply (list_eq_dec N.eq_dec)|apply Z.eq_dec])) im t) as [Hi|Hn].
    + apply IH; [assumption|assumption|]. intros y Hy. apply Hu. now right.
    + apply byte_at_nocover. intros y Hy. destruct (covers y p) eqn:Ey; [|reflexivity].
      exfalso. apply Hn. rewrite <- (Hu y) by (try assumption; now right). assumption.
  - destruct Hin as [->|Hin]; [congruence|]. apply IH; [assumption|assumption|]. intros y Hy. apply Hu. now right.
Qed.

(* two lists of images of the same geometry; the second one holds, image by image, either the same bytes or the bytes
   that the first list leaves in the buffer: writing the second list gives the same buffer *)
Definition same_geom (x y : Z * list N) : Prop := fst x = fst y /\ length (snd x) = length (snd y).

Lemma byte_at_idem p F : forall ims ims',
  Forall2 (fun x y => same_geom x y /\ (snd y = snd x \/ (covers x p = true -> nth (p - Z.to_nat (fst x)) (snd y) 0%N = F))) ims ims' ->
  forall a b, byte_at p ims a = F -> (b = a \/ b = F) -> byte_at p ims' b = F.
Proof.
  induction 1 as [|x y t t' ((G1 & G2) & Hd) Ht IH]; intros a b Ha Hb; cbn [byte_at] in *.
  - destruct Hb as [Hb|Hb]; congruence.
  - assert (Ec : covers y p = covers x p) by (unfold covers, zlen; rewrite G1, G2; reflexivity).
    rewrite Ec. eapply IH; [exact Ha|].
    destruct (covers x p) eqn:Ex; [|exact Hb].
    destruct Hd as [Hd|Hd]; [left; now rewrite Hd, G1|right; rewrite <- G1; now apply Hd].
Qed.

(* ---------------------------------------------------------------- sorting keeps membership and pointwise relations *)
Lemma insert_img_in x a l : In x (insert_img a l) <-> x = a \/ In x l.
Proof.
  induction l as [|c t IH]; cbn [insert_img]; [cbn; intuition|].
  destruct (fst a <? fst c); cbn [In]; [intuition|]. rewrite IH. intuition.
Qed.

Lemma sort_images_in x l : In x (sort_images l) <-> In x l.
Proof.
  unfold sort_images. assert (G : forall acc, In x (fold_left (fun l x => insert_img x l) l acc) <-> In x l \/ In x acc).
  { induction l as [|a t IH]; intros acc; cbn [fold_left In]; [intuition|]. rewrite IH, insert_img_in. intuition. }
  rewrite G. cbn. intuition.
Qed.

Lemma insert_img_rel (R : Z * list N -> Z * list N -> Prop) a a' : (forall x y, R x y -> fst x = fst y) -> R a a' ->
  forall l l', Forall2 R l l' -> Forall2 R (insert_img a l) (insert_img a' l').
Proof.
  intros HR Ha. induction 1 as [|c c' t t' Hc Ht IH]; cbn [insert_img]; [repeat constructor; assumption|].
  rewrite (HR _ _ Ha), (HR _ _ Hc). destruct (fst a' <? fst c'); repeat constructor; assumption.
Qed.

Lemma sort_images_rel (R : Z * list N -> Z * list N -> Prop) : (forall x y, R x y -> fst x = fst y) ->
  forall l l', Forall2 R l l' -> Forall2 R (sort_images l) (sort_images l').
Proof.
  intros HR l l' H. unfold sort_images.
  assert (G : forall acc acc', Forall2 R acc acc' ->
              Forall2 R (fold_left (fun l x => insert_img x l) l acc) (fold_left (fun l x => insert_img x l) l' acc')).
  { induction H as [|a a' t t' Ha Ht IH]; intros acc acc' Hacc; cbn [fold_left]; [assumption|].
    apply IH. now apply insert_img_rel. }
  apply G. constructor.
Qed.

Lemma image_size_rel l l' : Forall2 same_geom l l' -> image_size l = image_size l'.
Proof.
  intros H. unfold image_size. generalize 0. induction H as [|x y t t' (G1 & G2) Ht IH]; intros m; cbn [fold_left]; [reflexivity|].
  unfold zlen. rewrite G1, G2. apply IH.
Qed.

Lemma Forall2_impl {A B} (P Q : A -> B -> Prop) l l' : (forall x y, P x y -> Q x y) -> Forall2 P l l' -> Forall2 Q l l'.
Proof. intros H. induction 1; constructor; auto. Qed.

Lemma Forall_fits_rel n l l' : Forall2 same_geom l l' -> Forall (fits n) l -> Forall (fits n) l'.
Proof.
  induction 1 as [|x y t t' (G1 & G2) Ht IH]; intros H; [constructor|].
  inversion H as [|? ? (F1 & F2) Hr]; subst. constructor; [|now apply IH].
  unfold fits, zlen in *. rewrite <- G1, <- G2. lia.
Qed.

(* the central fact: re-writing what was read back from the buffer (or the same bytes) reproduces the buffer *)
Lemma place_all_idem buf ims ims' bin :
  Forall (fits (zlen buf)) ims -> place_all buf ims = Ok bin ->
  Forall2 (fun x y => same_geom x y /\
                      (snd y = snd x \/ snd y = slice bin (Z.to_nat (fst x)) (Z.to_nat (fst x) + length (snd x)))) ims ims' ->
  place_all buf ims' = Ok bin.
Proof.
  intros Hf E H.
  destruct (place_all_ok ims buf Hf) as (out & E1 & L1 & B1). rewrite E in E1. injection E1 as <-.
  assert (Hg : Forall2 same_geom ims ims') by (eapply Forall2_impl; [|exact H]; cbn; tauto).
  destruct (place_all_ok ims' buf (Forall_fits_rel _ _ _ Hg Hf)) as (out' & E2 & L2 & B2).
  rewrite E2. f_equal. apply nth_ext with (d := 0%N) (d' := 0%N); [lia|].
  intros p Hp. rewrite B2 by lia.
  eapply byte_at_idem with (ims := ims) (a := nth p buf 0%N); [|symmetry; apply B1; lia|now left].
  clear - H Hf L1 Hp. induction H as [|x y t t' (G & Hd) Ht IH]; [constructor|].
  inversion Hf as [|? ? (F1 & F2) Hr]; subst. constructor; [|now apply IH]. split; [exact G|].
  destruct Hd as [Hd|Hd]; [now left|right]. intros Hc. rewrite Hd. unfold slice.
  unfold covers, zlen in Hc. rewrite nth_firstn' by lia. rewrite nth_skipn'. f_equal. lia.
Qed.

(* ====================================================================== B. export of a well-formed register file *)
Lemma nth_repeat' {A} (x d : A) n p : (p < n)%nat -> nth p (repeat x n) d = x.
Proof. revert p; induction n as [|n IH]; intros p H; [lia|]. destruct p; [reflexivity|]. cbn. apply IH. lia. Qed.

Lemma wf_bytes_app a b : wf_bytes a -> wf_bytes b -> wf_bytes (a ++ b).
Proof. unfold wf_bytes. intros. apply Forall_app. now split. Qed.
Lemma In_firstn {A} (x : A) n l : In x (firstn n l) -> In x l.
Proof. revert l; induction n as [|n IH]; intros l H; [destruct H|]. destruct l; [destruct H|]. destruct H as [H|H]; [now left|right; now apply IH]. Qed.
Lemma wf_bytes_firstn n l : wf_bytes l -> wf_bytes (firstn n l).
Proof. unfold wf_bytes. rewrite !Forall_forall. intros H x Hx. apply H. eapply In_firstn; eassumption. Qed.
Lemma In_skipn {A} (x : A) n l : In x (skipn n l) -> In x l.
Proof. revert l; induction n as [|n IH]; intros l H; [exact H|]. destruct l; [destruct H|]. right. now apply IH. Qed.
Lemma wf_bytes_skipn n l : wf_bytes l -> wf_bytes (skipn n l).
Proof. unfold wf_bytes. rewrite !Forall_forall. intros H x Hx. apply H. eapply In_skipn; eassumption. Qed.
Lemma wf_bytes_slice l a b : wf_bytes l -> wf_bytes (slice l a b).
Proof. intros H. unfold slice. now apply wf_bytes_firstn, wf_bytes_skipn. Qed.
Lemma wf_bytes_repeat x n : (x < 256)%N -> wf_bytes (repeat x n).
Proof. intros H. unfold wf_bytes. apply Forall_forall. intros y Hy. apply repeat_spec in Hy. subst. exact H. Qed.

Lemma place_all_wf ims : forall buf out, wf_bytes buf -> Forall (fun im => wf_bytes (snd im)) ims ->
  place_all buf ims = Ok out -> wf_bytes out.
Proof.
  induction ims as [|im t IH]; intros buf out Hb Hi E; cbn [place_all] in E.
  - now injection E as <-.
  - inversion Hi as [|? ? H1 H2]; subst.
    destruct ((fst im <? 0) || (zlen buf <? fst im + zlen (snd im))); [discriminate|].
    eapply IH; [|exact H2|exact E]. unfold splice.
    apply wf_bytes_app; [now apply wf_bytes_firstn|]. apply wf_bytes_app; [assumption|now apply wf_bytes_skipn].
Qed.

Lemma enc_wf big n v : wf_bytes (enc big n v).
Proof. unfold enc. destruct big; [apply be_enc_wf|apply le_enc_wf]. Qed.

(* decoding a byte string and encoding it again *)
Lemma dec_bytes_range big l : wf_bytes l -> 0 <= dec_bytes big l < 2 ^ (8 * Z.of_nat (length l)).
Proof.
  intros H. unfold dec_bytes. split; [lia|].
  assert (B : (le_dec (if big then rev l else l) < 2 ^ (8 * N.of_nat (length l)))%N).
  { destruct big.
    - rewrite <- (rev_length l). apply le_dec_bound. unfold wf_bytes. now apply Forall_rev.
    - now apply le_dec_bound. }
  assert (E : (if big then be_dec else le_dec) l = le_dec (if big then rev l else l)) by (destruct big; reflexivity).
  rewrite E. rewrite pow_N_Z in B. apply N2Z.inj_lt in B. rewrite Z2N.id in B by (apply Z.pow_nonneg; lia). exact B.
Qed.

Lemma enc_dec_bytes big l : wf_bytes l -> enc big (length l) (dec_bytes big l) = l.
Proof.
  intros H. unfold enc, dec_bytes. rewrite N2Z.id. destruct big; [now apply be_enc_dec|now apply le_enc_dec].
Qed.

Definition reg_imgs (g : regs) : list (Z * list N) := map (reg_img (g_big g)) (g_regs g).

(* every register starts at a non-negative offset and, when the size is given, ends inside the binary *)
Definition reg_fits (size : Z) (r : reg) : Prop :=
  0 <= s_offset (r_base r) /\ (size = 0 \/ s_offset (r_base r) + s_width (r_base r) / 8 <= size).
Definition regs_fit (g : regs) (size : Z) : Prop := Forall (reg_fits size) (g_regs g).

Definition total_of (g : regs) (size : Z) : Z := if size =? 0 then image_size (reg_imgs g) else size.

Lemma reg_img_len big r : wf_reg r -> zlen (snd (reg_img big r)) = s_width (r_base r) / 8.
Proof.
  intros ((B1 & B2 & _) & _). unfold reg_img, zlen. cbn [snd]. rewrite enc_length. destruct (width_bytes _ B1 B2). lia.
Qed.

Lemma image_size_nonneg ims : 0 <= image_size ims.
Proof. unfold image_size. apply image_size_acc. Qed.

Lemma reg_imgs_fit g size : wf_regs g -> regs_fit g size -> Forall (fits (total_of g size)) (reg_imgs g).
Proof.
  intros Hg Hf. unfold reg_imgs. apply Forall_forall. intros im Hin. apply in_map_iff in Hin. destruct Hin as (r & <- & Hr).
  unfold regs_fit in Hf. rewrite Forall_forall in Hf. destruct (Hf r Hr) as (F1 & F2).
  assert (Hw : wf_reg r) by (unfold wf_regs in Hg; rewrite Forall_forall in Hg; now apply Hg).
  split; [exact F1|]. rewrite reg_img_len by assumption. cbn [fst reg_img]. unfold total_of.
  destruct (Z.eqb_spec size 0) as [E|E].
  - pose proof (image_size_ge (map (reg_img (g_big g)) (g_regs g)) 0 (reg_img (g_big g) r)) as G.
    rewrite reg_img_len in G by assumption. cbn [fst reg_img] in G. apply G. now apply in_map.
  - destruct F2; [contradiction|assumption].
Qed.

Lemma Forall_sorted (P : Z * list N -> Prop) l : Forall P l -> Forall P (sort_images l).
Proof. rewrite !Forall_forall. intros H x Hx. apply H. now apply sort_images_in. Qed.

(* export_with: succeeds, has the announced size, and every byte is the byte of the last child that covers it or the fill *)
Lemma export_with_ok g size fill : wf_regs g -> regs_fit g size -> 0 <= size ->
  exists bin, export_with g size fill = Ok bin /\ zlen bin = total_of g size /\
    place_all (repeat fill (Z.to_nat (total_of g size))) (sort_images (reg_imgs g)) = Ok bin /\
    forall p, (p < length bin)%nat -> nth p bin 0%N = byte_at p (sort_images (reg_imgs g)) fill.
Proof.
  intros Hg Hf Hs. unfold export_with.
  rewrite (images_from_ok g Hg (g_regs g) 0) by (intros k r H; exact H). cbn [bind].
  fold (reg_imgs g). fold (total_of g size).
  assert (Ht : 0 <= total_of g size) by (unfold total_of; destruct (size =? 0); [apply image_size_nonneg|assumption]).
  set (buf := repeat fill (Z.to_nat (total_of g size))).
  assert (Lb : zlen buf = total_of g size) by (unfold zlen, buf; rewrite repeat_length; lia).
  destruct (place_all_ok (sort_images (reg_imgs g)) buf) as (out & E & L & B).
  { rewrite Lb. apply Forall_sorted. now apply reg_imgs_fit. }
  exists out. split; [exact E|]. split; [unfold zlen in *; lia|]. split; [exact E|].
  intros p Hp. rewrite B by lia. f_equal. unfold buf. apply nth_repeat'. unfold buf in L. rewrite repeat_length in L. lia.
Qed.

(* ====================================================================== C. parse (export g) exports the same binary again *)
(* the hidden registers of the exported object hold what the receiving (fresh) object holds: hidden registers are not parsed *)
Definition hidden_agree (g g0 : regs) : Prop :=
  forall i r, nth_error (g_regs g) i = Some r -> s_hidden (r_base r) = true -> nth_error (g_regs g0) i = Some r.

Lemma same_layout_geom g g1 i r r1 : same_layout g g1 -> nth_error (g_regs g) i = Some r -> nth_error (g_regs g1) i = Some r1 ->
  s_offset (r_base r1) = s_offset (r_base r) /\ s_width (r_base r1) = s_width (r_base r) /\ s_hidden (r_base r1) = s_hidden (r_base r).
Proof.
  intros Hsl E E1. destruct (same_layout_nth g g1 i r Hsl E) as (r1' & E1' & Ee). rewrite E1 in E1'. injection E1' as <-.
  destruct (erase_r_inv r1 r Ee) as (Eb & _ & _).
  destruct (erase_s_fields (r_base r) (r_base r1) Eb) as (_ & Ew & _ & _ & _ & _ & _ & Eh & Eo). repeat split; congruence.
Qed.

Lemma same_layout_len g g1 : same_layout g g1 -> length (g_regs g1) = length (g_regs g).
Proof.
  intros H. destruct (regs_eq_inv g g1 H) as (_ & Hm).
  rewrite <- (map_length erase_r (g_regs g1)), <- Hm. apply map_length.
Qed.

Lemma Forall2_nth {A B} (R : A -> B -> Prop) l l' : length l = length l' ->
  (forall i x y, nth_error l i = Some x -> nth_error l' i = Some y -> R x y) -> Forall2 R l l'.
Proof.
  revert l'; induction l as [|x t IH]; intros [|y t'] Hl H; try discriminate; constructor.
  - apply (H 0%nat); reflexivity.
  - apply IH; [cbn in Hl; lia|]. intros i a b Ha Hb. apply (H (S i)); assumption.
Qed.

Theorem export_parse_export_lemma g g0 size fill :
  wf_regs g -> wf_regs g0 -> same_layout g g0 -> hidden_agree g g0 -> regs_fit g size -> 0 <= size -> (fill < 256)%N ->
  exists bin g', export_with g size fill = Ok bin /\ zlen bin = total_of g size /\
                 parse g0 bin = Ok g' /\ wf_regs g' /\ same_layout g g' /\ export_with g' size fill = Ok bin.
Proof.
  intros Hg Hg0 Hsl Hh Hf Hs Hfill.
  destruct (export_with_ok g size fill Hg Hf Hs) as (bin & Ex & Lb & Pl & _).
  assert (Hbig : g_big g0 = g_big g) by (destruct (regs_eq_inv g g0 Hsl); congruence).
  assert (Hlen : length (g_regs g0) = length (g_regs g)) by now apply same_layout_len.
  assert (Hfit : Forall (fits (total_of g size)) (reg_imgs g)) by now apply reg_imgs_fit.
  assert (Hwb : wf_bytes bin).
  { eapply place_all_wf; [| |exact Pl]; [now apply wf_bytes_repeat|].
    apply Forall_sorted. unfold reg_imgs. apply Forall_forall. intros im Hin. apply in_map_iff in Hin.
    destruct Hin as (r & <- & _). apply enc_wf. }
  (* the slice of every register lies inside the binary *)
  assert (Hin : forall k r, nth_error (g_regs g) k = Some r ->
            0 <= s_offset (r_base r) /\ s_offset (r_base r) + s_width (r_base r) / 8 <= zlen bin).
  { intros k r E. rewrite Lb. assert (Hr : wf_reg r) by exact (wf_regs_nth g k r Hg E).
    unfold reg_imgs in Hfit. rewrite Forall_forall in Hfit.
    destruct (Hfit (reg_img (g_big g) r)) as (F1 & F2); [apply in_map; eapply nth_error_In; eassumption|].
    rewrite reg_img_len in F2 by assumption. exact (conj F1 F2). }
  set (chunk := fun (r : reg) => slice bin (Z.to_nat (s_offset (r_base r))) (Z.to_nat (s_offset (r_base r) + s_width (r_base r) / 8))).
  assert (Hchunk : forall k r, nth_error (g_regs g) k = Some r ->
            wf_bytes (chunk r) /\ length (chunk r) = Z.to_nat (s_width (r_base r) / 8)).
  { intros k r E. destruct (Hin k r E) as (I1 & I2). split; [now apply wf_bytes_slice|].
    unfold chunk. rewrite slice_length by (unfold zlen in I2; lia).
    assert (Hr : wf_reg r) by exact (wf_regs_nth g k r Hg E). destruct Hr as ((B1 & B2 & _) & _).
    destruct (width_bytes _ B1 B2). lia. }
  (* parse *)
  destruct (parse_from_spec bin (length (g_regs g0)) 0 g0 Hg0 eq_refl) as (g' & P1 & P2 & _ & P4).
  { intros k r1 _ Ek Eh. destruct (same_layout_nth g0 g k r1 (eq_sym Hsl) Ek) as (r & Er & _).
    destruct (same_layout_geom g g0 k r r1 Hsl Er Ek) as (Eo & Ew & _). rewrite Eo, Ew.
    destruct (Hin k r Er) as (I1 & I2). split; [exact I2|].
    destruct (Hchunk k r Er) as (C1 & C2). fold (chunk r). unfold in_range.
    pose proof (dec_bytes_range (g_big g0) (chunk r) C1) as D. rewrite C2 in D.
    assert (Hr : wf_reg r) by exact (wf_regs_nth g k r Hg Er). destruct Hr as ((B1 & B2 & _) & _).
    destruct (width_bytes _ B1 B2) as (_ & _ & Q3). rewrite Q3 in D. exact D. }
  assert (Pw : keeps g0 g') by (eapply parse_from_wf; [exact Hg0|exact P1]). destruct Pw as (Hg' & Hsl').
  assert (Hsl2 : same_layout g g') by (eapply same_layout_trans; eassumption).
  exists bin, g'. split; [exact Ex|]. split; [exact Lb|]. split; [exact P1|]. split; [exact Hg'|]. split; [exact Hsl2|].
  (* the images of the parsed object *)
  assert (Hrel : Forall2 (fun x y => same_geom x y /\
                   (snd y = snd x \/ snd y = slice bin (Z.to_nat (fst x)) (Z.to_nat (fst x) + length (snd x))))
                 (reg_imgs g) (reg_imgs g')).
  { unfold reg_imgs. apply Forall2_nth; [rewrite !map_length; symmetry; now apply same_layout_len|].
    intros k x y Hx Hy. rewrite nth_error_map in Hx, Hy.
    destruct (nth_error (g_regs g) k) as [r|] eqn:Er; [|discriminate]. injection Hx as <-.
    destruct (nth_error (g_regs g') k) as [r'|] eqn:Er'; [|discriminate]. injection Hy as <-.
    destruct (same_layout_nth g g0 k r Hsl Er) as (r1 & Er1 & _).
    destruct (same_layout_geom g g0 k r r1 Hsl Er Er1) as (Eo & Ew & Ehid).
    rewrite (P4 k r1 (Nat.le_0_l k) Er1) in Er'. injection Er' as <-.
    assert (Hr : wf_reg r) by exact (wf_regs_nth g k r Hg Er).
    assert (Hr1 : wf_reg r1) by exact (wf_regs_nth g0 k r1 Hg0 Er1).
    destruct (Hchunk k r Er) as (C1 & C2).
    unfold parsed_reg. rewrite Ehid. destruct (s_hidden (r_base r)) eqn:Eh.
    - (* hidden: the receiving object holds the same register *)
      rewrite (Hh k r Er Eh) in Er1. injection Er1 as <-. rewrite P2, Hbig. split; [split; reflexivity|now left].
    - rewrite Eo, Ew. fold (chunk r).
      pose proof (dec_bytes_range (g_big g0) (chunk r) C1) as D. rewrite C2 in D.
      pose proof Hr as ((B1 & B2 & _) & _). destruct (width_bytes _ B1 B2) as (Q1 & Q2 & Q3). rewrite Q3 in D.
      assert (HV : in_range (s_width (r_base r1)) (dec_bytes (g_big g0) (chunk r))) by (unfold in_range; now rewrite Ew).
      assert (Ew' : s_width (r_base (reg_written r1 (dec_bytes (g_big g0) (chunk r)) true)) = s_width (r_base r) /\
                    s_offset (r_base (reg_written r1 (dec_bytes (g_big g0) (chunk r)) true)) = s_offset (r_base r)).
      { unfold reg_written. destruct (r_subs r1); cbn; split; congruence. }
      destruct Ew' as (Ew' & Eo').
      unfold reg_img, same_geom. rewrite Ew', Eo', reg_stored_written, view_raw by assumption. cbn [fst snd].
      rewrite !enc_length. split; [split; reflexivity|right].
      rewrite P2. rewrite <- C2. rewrite enc_dec_bytes by assumption.
      rewrite C2. unfold chunk. f_equal. destruct (Hin k r Er). lia. }
  (* export of the parsed object *)
  unfold export_with. rewrite (images_from_ok g' Hg' (g_regs g') 0) by (intros k r H; exact H). cbn [bind].
  fold (reg_imgs g').
  assert (Hgeo : Forall2 same_geom (reg_imgs g) (reg_imgs g')) by (eapply Forall2_impl; [|exact Hrel]; cbn; tauto).
  assert (Et : (if size =? 0 then image_size (reg_imgs g') else size) = total_of g size).
  { unfold total_of. destruct (size =? 0); [symmetry; now apply image_size_rel|reflexivity]. }
  rewrite Et.
  eapply place_all_idem with (ims := sort_images (reg_imgs g)); [| exact Pl |].
  - unfold zlen. rewrite repeat_length.
    assert (0 <= total_of g size) by (unfold total_of; destruct (size =? 0); [apply image_size_nonneg|assumption]).
    rewrite Z2Nat.id by assumption. apply Forall_sorted. exact Hfit.
  - apply sort_images_rel; [|exact Hrel]. intros x y ((G1 & _) & _). exact G1.
Qed.
