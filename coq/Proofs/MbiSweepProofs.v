(* Proofs/MbiSweepProofs.v -- C01: sweeps over every class / family of the generated database, and the refutation
   witnesses of the known findings (computed on the faithful model). *)
From Coq Require Import ZArith NArith List Bool Lia.
Require Import Value Bytes BytesProofs MbiMixinModel GenMbi MbiModel MbiProofs MbiRtProofs MbiKindsProofs.
Import ListNotations.
Local Open Scope Z_scope.

(* ------------------------------------------------------------------ class kinds *)
Definition class_eqb (a b : mbi_class) : bool :=
  (c_type a =? c_type b) && list_eqb Z.eqb (map mixin_id (c_mixins a)) (map mixin_id (c_mixins b)).
Definition in_db (c : mbi_class) : bool := existsb (class_eqb c) gen_compositions.

Definition kind_signed_v1 (c : mbi_class) : bool :=
  supported c && Z.eqb (opt_mixin_id (provider c SCollect)) (mixin_id ExportMixinAppTrustZoneCertBlock) &&
  Z.eqb (opt_mixin_id (provider c SSign)) (mixin_id ExportMixinRsaSign) && has c MixinCertBlockV1.
Definition kind_signed_v21 (c : mbi_class) : bool :=
  supported c && Z.eqb (opt_mixin_id (provider c SCollect)) (mixin_id ExportMixinAppCertBlockManifest) &&
  Z.eqb (opt_mixin_id (provider c SSign)) (mixin_id ExportMixinEccSign) && has c MixinCertBlockV21 && has_manifest c.
Definition kind_encrypted (c : mbi_class) : bool :=
  supported c && Z.eqb (opt_mixin_id (provider c SCollect)) (mixin_id ExportMixinAppTrustZoneCertBlockEncrypt) &&
  Z.eqb (opt_mixin_id (provider c SSign)) (mixin_id ExportMixinRsaSign) && has c MixinCertBlockV1 && has c MixinCtrInitVector.

(* every class of the database: duplicate-free mixin list, image type in 0..63, an App mixin, and one of the known kinds;
   the kind "plain/CRC" is the one for which parse (export x) = x is proved end to end (roundtrip_plain_crc). *)
(* structural hypotheses of disassemble_cuts_collect for the signed classes without relocation-table mixin *)
Definition cert_cut_hyp (c : mbi_class) : bool :=
  negb (c_type c =? 0) &&
  (opt_mixin_id (provider c SDisassemble) =? opt_mixin_id (provider c SCollect)).
Definition wf_class (c : mbi_class) : bool :=
  nodupb (c_mixins c) && (0 <=? c_type c) && (c_type c <? 64) && has c MixinApp &&
  negb (has c MixinTrustZone && has c MixinTrustZoneMandatory) &&
  (wf_plain_crc c || wf_v1 c || wf_v21 c || wf_enc c || negb (supported c)) &&
  (if (kind_signed_v1 c || kind_signed_v21 c) && negb (has c MixinRelocTable) then cert_cut_hyp c else true).
Lemma wf_class_all : forallb wf_class gen_compositions = true.
Proof. vm_compute. reflexivity. Qed.

Definition offers_of (f : Z * (Z * list (Z * (Z * Z)))) : list (Z * (Z * Z)) := snd (snd f).
Definition comp_of (o : Z * (Z * Z)) : option mbi_class := nth_comp (snd (snd o)).
Definition count_offers (p : mbi_class -> bool) : nat :=
  length (filter (fun o => match comp_of o with Some c => p c | None => false end) (flat_map offers_of gen_families)).
Definition kind_counts : nat * nat * nat * nat * nat * nat :=
  (count_offers (fun _ => true), count_offers wf_plain_crc, count_offers wf_v1, count_offers wf_v21,
   count_offers wf_enc, count_offers (fun c => negb (supported c))).
(* the five kinds partition the offers of the database: together with wf_class_all (every composition is of some kind)
   the equality of the sums says that no offer is counted twice *)
Lemma kinds_partition_offers :
  let '(t, p, v1, v21, e, u) := kind_counts in t = (p + v1 + v21 + e + u)%nat.
Proof. vm_compute. reflexivity. Qed.

(* ------------------------------------------------------------------ class selection at parse time *)
Definition subset_mixins (a b : list mixin) : bool := forallb (fun m => existsb (mixin_eqb m) b) a.
(* the selected class parses what the exporting class wrote when it has (at least) the same mixins *)
Definition sel_ok (c c' : mbi_class) : bool := (c_type c =? c_type c') && subset_mixins (c_mixins c) (c_mixins c').
(* pairs (exporting class, class selected by MasterBootImage.parse) that are NOT compatible: finding C01-F8 *)
Definition ambiguous_pair (c c' : mbi_class) : bool := negb (sel_ok c c').
Definition offer_selection (f : Z * (Z * list (Z * (Z * Z)))) (o : Z * (Z * Z)) : option (mbi_class * mbi_class) :=
  match comp_of o with
  | Some c =>
      let ty := if fst (snd f) <? 0 then c_type c else fst (snd f) in
      match select_offer (offers_of f) ty with
      | Some o' => match comp_of o' with Some c' => Some (c, c') | None => None end
      | None => None
      end
  | None => None
  end.
Definition all_selections : list (option (mbi_class * mbi_class)) :=
  flat_map (fun f => map (offer_selection f) (offers_of f)) gen_families.
Definition known_ambiguous (c c' : mbi_class) : bool :=
  (* plain load-to-RAM parsed as plain XIP, signed RAM parsed as signed XIP without load address, fixed image type *)
  let lost := filter (fun m => negb (existsb (mixin_eqb m) (c_mixins c'))) (c_mixins c) in
  forallb (fun m => match m with
                    | MixinIvt | MixinLoadAddress | MixinBcaTable | MixinFcfObsolete | ExportMixinAppFcf => true
                    | _ => false end) lost.
Lemma class_selection_all :
  forallb (fun s => match s with
                    | Some (c, c') => sel_ok c c' || known_ambiguous c c'
                    | None => false
                    end) all_selections = true.
Proof. vm_compute. reflexivity. Qed.
Definition selection_counts : nat * nat :=
  (length all_selections,
   length (filter (fun s => match s with Some (c, c') => ambiguous_pair c c' | None => true end) all_selections)).

(* ------------------------------------------------------------------ refutation witnesses (known findings), computed on the model *)
Definition k0 (sg : nat) : crypto :=
  {| k_sign := fun _ => zeros sg; k_hmac := fun _ _ => zeros 32; k_ctr := fun _ _ _ d => d; k_hash := fun _ _ => zeros 32 |}.
Definition bytes_seq (n : nat) : list N := map N.of_nat (seq 1 n).
Definition x0 (n : nat) : mbi :=
  {| m_app := bytes_seq n; m_load := 4096; m_imgver := 0; m_subtype := 0; m_fwver := 0; m_tz := TzDisabled; m_hwkey := false;
     m_ks := None; m_hmac := None; m_iv := []; m_table := None; m_cert := None; m_digest := 0 |}.
(* a well-formed certificate block v1: "cert", 1.0, header length 32, flags, build || image length || 0 certificates, table length 0, RKHT *)
Definition cert1 : cert := CertV1 ([99; 101; 114; 116; 1; 0; 0; 0; 32; 0; 0; 0] ++ zeros 8)%N (zeros 136) 256.
Definition cert21 : cert := CertV21 ([99; 104; 100; 114; 1; 0; 2; 0; 16; 0; 0; 0] ++ zeros 4)%N 64.

Definition c_crc_ram : mbi_class :=
  {| c_type := 2; c_mixins := [MixinApp; MixinRelocTable; MixinLoadAddress; MixinIvt; MixinTrustZone; MixinHwKey;
                               ExportMixinAppTrustZone; ExportMixinCrcSign] |}.
Definition c_signed_xip : mbi_class :=
  {| c_type := 4; c_mixins := [MixinApp; MixinIvt; MixinTrustZone; MixinCertBlockV1; ExportMixinAppTrustZoneCertBlock;
                               ExportMixinRsaSign] |}.
Definition c_encrypted : mbi_class :=
  {| c_type := 3; c_mixins := [MixinApp; MixinRelocTable; MixinLoadAddress; MixinIvt; MixinTrustZone; MixinCertBlockV1; MixinHwKey;
                               MixinKeyStore; MixinHmacMandatory; MixinCtrInitVector; ExportMixinAppTrustZoneCertBlockEncrypt;
                               ExportMixinRsaSign; ExportMixinHmacKeyStoreFinalize] |}.
Definition c_signed_ram : mbi_class :=
  {| c_type := 1; c_mixins := [MixinApp; MixinRelocTable; MixinLoadAddress; MixinIvt; MixinTrustZone; MixinCertBlockV1;
                               MixinHmacMandatory; MixinKeyStore; MixinHwKey; ExportMixinAppTrustZoneCertBlock;
                               ExportMixinRsaSign; ExportMixinHmacKeyStoreFinalize] |}.
Definition c_manifest : mbi_class :=
  {| c_type := 4; c_mixins := [MixinApp; MixinIvt; MixinLoadAddress; MixinCertBlockV21; MixinManifestDigest;
                               ExportMixinAppCertBlockManifest; ExportMixinEccSign] |}.

Definition bytes_of (r : res (list N)) : list N := match r with Ok b => b | Err _ => [] end.

(* ---- the repaired findings F1..F5, F7 as positive computed instances on classes of the database ---- *)
(* F1 (repaired): an image WITH a relocation table parses back, table and application included *)
Definition x_reloc : mbi := set_table (x0 64) (Some [{| e_img := [1; 2; 3; 4]%N; e_dst := 536870912; e_flags := 1 |}]).
Definition im_reloc : list N := bytes_of (export_mbi (k0 0) c_crc_ram x_reloc).
Lemma fixed_reloc_table :
  in_db c_crc_ram = true /\ export_mbi (k0 0) c_crc_ram x_reloc = Ok im_reloc /\
  parse_mbi (k0 0) c_crc_ram 1140 0 None im_reloc = Ok (parsed c_crc_ram x_reloc None).
Proof. repeat split; vm_compute; reflexivity. Qed.

(* F2 (repaired): a payload without table whose tail looks like a table header comes back whole *)
Definition x_tail : mbi :=
  set_app (x0 80) (firstn 64 (bytes_seq 80) ++ [76; 66; 84; 76; 0; 0; 0; 0; 0; 0; 0; 0; 64; 0; 0; 0]%N).
Definition im_tail : list N := bytes_of (export_mbi (k0 0) c_crc_ram x_tail).
Lemma fixed_reloc_like_tail :
  export_mbi (k0 0) c_crc_ram x_tail = Ok im_tail /\
  parse_mbi (k0 0) c_crc_ram 1140 0 None im_tail = Ok (parsed c_crc_ram x_tail None).
Proof. repeat split; vm_compute; reflexivity. Qed.

(* F3 (repaired): HMAC class, application of 56 bytes: the builder refuses *)
Definition x_hmac (n : nat) : mbi := set_cert (set_hmac (x0 n) (Some (zeros 32))) (Some cert1).
Lemma fixed_hmac_short_app :
  in_db c_signed_ram = true /\ validate c_signed_ram (x_hmac 56) = Ok tt /\
  export_mbi (k0 256) c_signed_ram (x_hmac 56) = Err E_REJECT.
Proof. repeat split; vm_compute; reflexivity. Qed.

(* F4 (repaired): encrypted class, application of exactly 64 bytes: emitted length = IVT word 0x20, and it parses back *)
Definition x_enc : mbi := set_iv (x_hmac 64) (zeros 16).
Definition im_enc : list N := bytes_of (export_mbi (k0 256) c_encrypted x_enc).
Lemma fixed_double_hmac :
  in_db c_encrypted = true /\ export_mbi (k0 256) c_encrypted x_enc = Ok im_enc /\ zlen im_enc = rd32 OFF_LEN im_enc /\
  parse_mbi (k0 256) c_encrypted 1140 256 (Some (zeros 32)) im_enc = Ok (parsed c_encrypted x_enc (Some (zeros 32))).
Proof. repeat split; vm_compute; reflexivity. Qed.

(* F5 (repaired): manifest class, default TrustZone parses back as default TrustZone *)
Definition x_manifest : mbi := set_cert (set_tz (x0 64) TzEnabled) (Some cert21).
Definition im_manifest : list N := bytes_of (export_mbi (k0 64) c_manifest x_manifest).
Lemma fixed_manifest_default_tz :
  in_db c_manifest = true /\ export_mbi (k0 64) c_manifest x_manifest = Ok im_manifest /\
  parse_mbi (k0 64) c_manifest 1100 64 None im_manifest = Ok (parsed c_manifest x_manifest None).
Proof. repeat split; vm_compute; reflexivity. Qed.

(* F7 (repaired): certificate block v1 + custom TrustZone parses back (plain and behind HMAC + key store) *)
Definition x_v1_tz : mbi := set_cert (set_tz (x0 64) (TzCustom (bytes_seq 464))) (Some cert1).
Definition im_v1_tz : list N := bytes_of (export_mbi (k0 256) c_signed_xip x_v1_tz).
Definition x_ram_tz : mbi := set_ks (set_tz (x_hmac 64) (TzCustom (bytes_seq 1140))) (Some (zeros 1424)).
Definition im_ram_tz : list N := bytes_of (export_mbi (k0 256) c_signed_ram x_ram_tz).
Lemma fixed_certv1_custom_tz :
  in_db c_signed_xip = true /\ export_mbi (k0 256) c_signed_xip x_v1_tz = Ok im_v1_tz /\
  parse_mbi (k0 256) c_signed_xip 464 256 None im_v1_tz = Ok (parsed c_signed_xip (set_load x_v1_tz 0) None) /\
  export_mbi (k0 256) c_signed_ram x_ram_tz = Ok im_ram_tz /\
  parse_mbi (k0 256) c_signed_ram 1140 256 (Some (zeros 32)) im_ram_tz = Ok (parsed c_signed_ram x_ram_tz (Some (zeros 32))).
Proof. repeat split; vm_compute; reflexivity. Qed.

(* F8: some offer is parsed with a class that has no load address although the exporting class has one *)
Definition bad_selection (s : option (mbi_class * mbi_class)) : bool :=
  match s with
  | Some (c, c') => negb (sel_ok c c') && has_attr c ALoadAddress && negb (has_attr c' ALoadAddress)
  | None => false
  end.
Lemma refute_class_selection : exists s, In s all_selections /\ bad_selection s = true.
Proof. apply existsb_exists. vm_compute. reflexivity. Qed.

Lemma wf_class_forall : forall c, In c gen_compositions -> wf_class c = true.
Proof. exact (proj1 (forallb_forall wf_class gen_compositions) wf_class_all). Qed.
Lemma class_selection_forall :
  forall s, In s all_selections ->
    exists c c', s = Some (c, c') /\ (sel_ok c c' = true \/ known_ambiguous c c' = true).
Proof.
  intros s Hs. pose proof (proj1 (forallb_forall _ all_selections) class_selection_all s Hs) as H.
  destruct s as [[c c']|]; [|discriminate]. exists c, c'. split; [reflexivity|]. now apply orb_true_iff.
Qed.
Lemma repaired_findings_hold :
  (in_db c_crc_ram = true /\ export_mbi (k0 0) c_crc_ram x_reloc = Ok im_reloc /\
   parse_mbi (k0 0) c_crc_ram 1140 0 None im_reloc = Ok (parsed c_crc_ram x_reloc None)) /\
  (export_mbi (k0 0) c_crc_ram x_tail = Ok im_tail /\
   parse_mbi (k0 0) c_crc_ram 1140 0 None im_tail = Ok (parsed c_crc_ram x_tail None)) /\
  (in_db c_signed_ram = true /\ validate c_signed_ram (x_hmac 56) = Ok tt /\
   export_mbi (k0 256) c_signed_ram (x_hmac 56) = Err E_REJECT) /\
  (in_db c_encrypted = true /\ export_mbi (k0 256) c_encrypted x_enc = Ok im_enc /\ zlen im_enc = rd32 OFF_LEN im_enc /\
   parse_mbi (k0 256) c_encrypted 1140 256 (Some (zeros 32)) im_enc = Ok (parsed c_encrypted x_enc (Some (zeros 32)))) /\
  (in_db c_manifest = true /\ export_mbi (k0 64) c_manifest x_manifest = Ok im_manifest /\
   parse_mbi (k0 64) c_manifest 1100 64 None im_manifest = Ok (parsed c_manifest x_manifest None)) /\
  (in_db c_signed_xip = true /\ export_mbi (k0 256) c_signed_xip x_v1_tz = Ok im_v1_tz /\
   parse_mbi (k0 256) c_signed_xip 464 256 None im_v1_tz = Ok (parsed c_signed_xip (set_load x_v1_tz 0) None) /\
   export_mbi (k0 256) c_signed_ram x_ram_tz = Ok im_ram_tz /\
   parse_mbi (k0 256) c_signed_ram 1140 256 (Some (zeros 32)) im_ram_tz = Ok (parsed c_signed_ram x_ram_tz (Some (zeros 32)))).
Proof. exact (conj fixed_reloc_table (conj fixed_reloc_like_tail (conj fixed_hmac_short_app (conj fixed_double_hmac (conj fixed_manifest_default_tz fixed_certv1_custom_tz))))). Qed.
