(* MiscBlkProofs.v -- C20 extension: SecBootBlckSize (spsdk/sbfile/misc.py) cipher-block helpers. *)
From Coq Require Import ZArith NArith List Bool Lia ZifyBool.
Require Import Value Bytes BytesProofs GenMisc MiscModel MiscExtModel MiscBlkModel MiscProofs MiscPatternProofs.
Import ListNotations.
Local Open Scope Z_scope.
Ltac Zify.zify_post_hook ::= Z.to_euclidean_division_equations.

Lemma sbb_is_aligned_iff s : sbb_is_aligned s = true <-> exists k, s = BLOCK_SIZE * k.
Proof.
  unfold sbb_is_aligned, BLOCK_SIZE. split.
  - intros H. exists (s / 16). lia.
  - intros [k ->]. lia.
Qed.

(* align: smallest block-aligned size not below the input; negative sizes rejected (never accepted with another meaning) *)
Lemma sbb_align_least_l n :
  (0 <= n -> exists r, sbb_align n = Ok r /\ n <= r < n + BLOCK_SIZE /\ sbb_is_aligned r = true /\
                       (forall m, n <= m -> sbb_is_aligned m = true -> r <= m)) /\
  (n < 0 -> sbb_align n = Err 1%N).
Proof.
  unfold sbb_align, BLOCK_SIZE. split.
  - intros Hn. destruct (align_ok n 16 Hn ltac:(lia)) as (r & H1 & H2 & H3 & H4).
    exists r. split; [exact H1|]. split; [lia|]. split; [unfold sbb_is_aligned, BLOCK_SIZE; lia|].
    intros m Hm Ha. apply (align_least n 16 r m Hn ltac:(lia) H1 Hm). unfold sbb_is_aligned, BLOCK_SIZE in Ha. lia.
  - intros Hn. unfold py_align. destruct (orb (Z.leb 16 0) (Z.ltb n 0)) eqn:E; [reflexivity|lia].
Qed.

(* to_num_blocks: accepted exactly on multiples of the block size, and then the exact quotient *)
Lemma sbb_to_num_blocks_iff_l s k : sbb_to_num_blocks s = Ok k <-> s = BLOCK_SIZE * k.
Proof.
  unfold sbb_to_num_blocks, sbb_is_aligned, BLOCK_SIZE.
  destruct (s mod 16 =? 0) eqn:E; cbn [negb]; split; intros H.
  - injection H as <-. lia.
  - f_equal. lia.
  - discriminate.
  - lia.
Qed.

Lemma sbb_to_num_blocks_rejects_l s :
  sbb_is_aligned s = false -> sbb_to_num_blocks s = Err 1%N.
Proof. unfold sbb_to_num_blocks. now intros ->. Qed.

Lemma sbb_to_num_blocks_total_l s : sbb_to_num_blocks s = Err 1%N \/ exists k, sbb_to_num_blocks s = Ok k /\ s = BLOCK_SIZE * k.
Proof.
  destruct (sbb_is_aligned s) eqn:E.
  - right. exists (s / BLOCK_SIZE). split.
    + unfold sbb_to_num_blocks. now rewrite E.
    + unfold sbb_is_aligned, BLOCK_SIZE in *. lia.
  - left. now apply sbb_to_num_blocks_rejects_l.
Qed.

(* align then to_num_blocks = ceiling division: the number of cipher blocks needed for n bytes *)
Lemma sbb_align_num_blocks_l n : 0 <= n ->
  exists r k, sbb_align n = Ok r /\ sbb_to_num_blocks r = Ok k /\ BLOCK_SIZE * (k - 1) < n <= BLOCK_SIZE * k.
Proof.
  intros Hn. destruct (proj1 (sbb_align_least_l n) Hn) as (r & H1 & H2 & H3 & _).
  destruct (sbb_to_num_blocks_total_l r) as [He|(k & Hk & Hr)].
  - unfold sbb_to_num_blocks in He. rewrite H3 in He. discriminate.
  - exists r, k. split; [exact H1|]. split; [exact Hk|]. unfold BLOCK_SIZE in *. lia.
Qed.

(* align_block_fill_zeros only appends, appends zeros only, fewer than one block, and the result is block aligned *)
Lemma sbb_fill_zeros_l d :
  exists npad, sbb_align_block_fill_zeros d = Ok (d ++ repeat 0%N npad) /\ (npad < 16)%nat /\
               sbb_is_aligned (Z.of_nat (length d + npad)) = true /\
               (sbb_is_aligned (Z.of_nat (length d)) = true -> npad = 0%nat).
Proof.
  unfold sbb_align_block_fill_zeros, BLOCK_SIZE.
  destruct (proj1 (align_block_total_l d 16 PZeros) ltac:(lia) I) as (r & H1 & H2 & H3 & H4).
  exists (Z.to_nat (r - Z.of_nat (length d))). split.
  - rewrite H2. f_equal. f_equal. unfold pattern_prefix. cbn [pattern_byte].
    now rewrite repeat_map_seq.
  - split; [lia|]. split.
    + unfold sbb_is_aligned, BLOCK_SIZE. rewrite Nat2Z.inj_add, Z2Nat.id by lia.
      replace (Z.of_nat (length d) + (r - Z.of_nat (length d))) with r by lia. lia.
    + intros Ha. unfold sbb_is_aligned, BLOCK_SIZE in Ha.
      assert (r <= Z.of_nat (length d)).
      { apply (align_least (Z.of_nat (length d)) 16 r (Z.of_nat (length d)) ltac:(lia) ltac:(lia) H1); lia. }
      lia.
Qed.
