(* Proofs/MbiHistProofs.v -- C01: histories on ONE builder object.
   The object is its current field values (record mbi); a history is a list of operations [export | assign a member].
   export is a function of the current fields only, so the n-th export of ANY history is export_mbi of the fields that
   are current at that moment, whatever was exported or assigned before (no state is carried between exports: this is
   what e.g. a cached total length would break), and exporting changes nothing. *)
From Coq Require Import ZArith NArith List Bool Lia.
Require Import Value Bytes MbiMixinModel GenMbi MbiModel.
Import ListNotations.
Local Open Scope Z_scope.

Inductive op : Type :=
| OpExport
| OpSetApp (a : list N) | OpSetLoad (v : Z) | OpSetImgver (v : Z) | OpSetSubtype (v : Z) | OpSetTz (t : tz)
| OpSetHwkey (b : bool) | OpSetKs (o : option (list N)) | OpSetHmac (o : option (list N)) | OpSetIv (v : list N)
| OpSetTable (o : option (list entry)) | OpSetCert (o : option cert) | OpSetManifest (fw : Z) (t : tz) (dg : Z).

Definition apply_op (x : mbi) (o : op) : mbi :=
  match o with
  | OpExport => x
  | OpSetApp a => set_app x a | OpSetLoad v => set_load x v | OpSetImgver v => set_imgver x v
  | OpSetSubtype v => set_subtype x v | OpSetTz t => set_tz x t | OpSetHwkey b => set_hwkey x b
  | OpSetKs o => set_ks x o | OpSetHmac o => set_hmac x o | OpSetIv v => set_iv x v
  | OpSetTable o => set_table x o | OpSetCert o => set_cert x o | OpSetManifest fw t dg => set_manifest x fw t dg
  end.
Definition is_export (o : op) : bool := match o with OpExport => true | _ => false end.

(* the images produced by a history, in order *)
Fixpoint run_history (k : crypto) (c : mbi_class) (x : mbi) (ops : list op) : list (res (list N)) :=
  match ops with
  | [] => []
  | o :: t => let x' := apply_op x o in
              if is_export o then export_mbi k c x' :: run_history k c x' t else run_history k c x' t
  end.
Definition state_after (x : mbi) (ops : list op) : mbi := fold_left apply_op ops x.
Definition exports_in (ops : list op) : nat := length (filter is_export ops).

Lemma run_history_length k c ops : forall x, length (run_history k c x ops) = exports_in ops.
Proof.
  induction ops as [|o t IH]; intros x; [reflexivity|]. unfold exports_in in *. cbn [run_history filter].
  destruct (is_export o); cbn [length]; now rewrite IH.
Qed.

Lemma history_export_lemma k c ops : forall x n r,
  nth_error (run_history k c x ops) n = Some r ->
  exists pre post, ops = pre ++ OpExport :: post /\ exports_in pre = n /\ r = export_mbi k c (state_after x pre).
Proof.
  induction ops as [|o t IH]; intros x n r H; [destruct n; discriminate H|].
  cbn [run_history] in H. destruct (is_export o) eqn:Eo.
  - destruct o; try discriminate Eo. destruct n as [|n].
    + cbn [nth_error] in H. injection H as <-. exists [], t. repeat split.
    + cbn [nth_error] in H. destruct (IH _ _ _ H) as (pre & post & -> & Hn & ->).
      exists (OpExport :: pre), post. repeat split. unfold exports_in in *. cbn [filter is_export length]. now rewrite Hn.
  - destruct (IH _ _ _ H) as (pre & post & -> & Hn & ->).
    exists (o :: pre), post. repeat split. unfold exports_in in *. cbn [filter]. now rewrite Eo.
Qed.

(* exporting does not change the object; two histories that end in the same field values export the same image *)
Lemma export_keeps_state x : apply_op x OpExport = x.
Proof. reflexivity. Qed.
Lemma last_export_lemma k c x ops : run_history k c x (ops ++ [OpExport]) = run_history k c x ops ++ [export_mbi k c (state_after x ops)].
Proof.
  revert x; induction ops as [|o t IH]; intros x; [reflexivity|]. cbn [app run_history state_after fold_left].
  destruct (is_export o); cbn [app]; now rewrite IH.
Qed.
