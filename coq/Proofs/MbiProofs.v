From Coq Require Import ZArith NArith List Bool Lia.
Require Import Value Bytes BytesProofs MbiMixinModel GenMbi MbiModel.
Import ListNotations.
