(* Proofs/MbiProofs.v -- lemmas about Model/MbiModel.v (C01). *)
From Coq Require Import ZArith NArith List Bool Lia.
Require Import Value Bytes BytesProofs MbiMixinModel GenMbi MbiModel.
Import ListNotations.
Ltac Zify.zify_post_hook ::= Z.to_euclidean_division_equations.
Local Open Scope Z_scope.

(* ------------------------------------------------------------------ lists: nth of a splice *)
Lemma nth_firstn' {A} (l : list A) n i (x : A) : nth i (firstn n l) x = if (i <? n)%nat then nth i l x else x.
Proof.
  revert n i; induction l as [|a l IH]; intros [|n] [|i]; simpl; try reflexivity.
  - destruct (S i <? S n)%nat; reflexivity.
  - rewrite IH. reflexivity.
Qed.
Lemma nth_skipn' {A} (l : list A) n i (x : A) : nth i (skipn n l) x = nth (n + i) l x.
Proof.
  revert l; induction n as [|n IH]; intros l; simpl; [reflexivity|].
  destruct l as [|a l]; [destruct i; reflexivity|]. apply IH.
Qed.
Lemma nth_splice {A} (buf w : list A) off i (x : A) :
  (off + length w <= length buf)%nat ->
  nth i (splice buf off w) x =
  if (i <? off)%nat then nth i buf x else if (i <? off + length w)%nat then nth (i - off) w x else nth i buf x.
Proof.
  intros H. unfold splice.
  destruct (i <? off)%nat eqn:E1.
  - apply Nat.ltb_lt in E1. rewrite app_nth1 by (rewrite firstn_length; lia). now rewrite nth_firstn', (proj2 (Nat.ltb_lt _ _) E1).
  - apply Nat.ltb_ge in E1. rewrite app_nth2 by (rewrite firstn_length; lia).
    rewrite firstn_length. replace (Nat.min off (length buf)) with off by lia.
    destruct (i <? off + length w)%nat eqn:E2.
    + apply Nat.ltb_lt in E2. now rewrite app_nth1 by lia.
    + apply Nat.ltb_ge in E2. rewrite app_nth2 by lia. rewrite nth_skipn'. f_equal. lia.
Qed.

Lemma wr_length off w d : (off + length w <= length d)%nat -> length (wr off w d) = length d.
Proof. apply splice_length. Qed.

Lemma nth_wr off w d i : (off + length w <= length d)%nat ->
  nth i (wr off w d) 0%N =
  if (i <? off)%nat then nth i d 0%N else if (i <? off + length w)%nat then nth (i - off) w 0%N else nth i d 0%N.
Proof. apply nth_splice. Qed.

Lemma list_eq_nth (a b : list N) : length a = length b -> (forall i, (i < length a)%nat -> nth i a 0%N = nth i b 0%N) -> a = b.
Proof. intros H1 H2. apply (nth_ext a b 0%N 0%N H1 H2). Qed.

(* overwriting the same place twice / two different places in either order *)
Lemma wr_wr_same off w1 w2 d : length w1 = length w2 -> (off + length w1 <= length d)%nat ->
  wr off w2 (wr off w1 d) = wr off w2 d.
Proof.
  intros Hl H. apply list_eq_nth.
  - rewrite !wr_length; rewrite ?wr_length; lia.
  - intros i _. rewrite !nth_wr by (rewrite ?wr_length; lia).
    destruct (i <? off)%nat eqn:E1; [reflexivity|]. destruct (i <? off + length w2)%nat eqn:E2; [reflexivity|].
    replace (i <? off + length w1)%nat with false; [reflexivity|]. symmetry. apply Nat.ltb_ge. apply Nat.ltb_ge in E2. lia.
Qed.

Lemma wr_wr_comm o1 w1 o2 w2 d :
  (o1 + length w1 <= o2)%nat \/ (o2 + length w2 <= o1)%nat ->
  (o1 + length w1 <= length d)%nat -> (o2 + length w2 <= length d)%nat ->
  wr o1 w1 (wr o2 w2 d) = wr o2 w2 (wr o1 w1 d).
Proof.
  intros Hd H1 H2. apply list_eq_nth.
  - rewrite !wr_length; rewrite ?wr_length; lia.
  - intros i _. rewrite !nth_wr by (rewrite ?wr_length; lia).
    destruct (i <? o1)%nat eqn:E1; destruct (i <? o2)%nat eqn:E2;
      destruct (i <? o1 + length w1)%nat eqn:E3; destruct (i <? o2 + length w2)%nat eqn:E4; try reflexivity;
      repeat match goal with H : (_ <? _)%nat = true |- _ => apply Nat.ltb_lt in H | H : (_ <? _)%nat = false |- _ => apply Nat.ltb_ge in H end; lia.
Qed.

Lemma u32_length v w : u32 v = Ok w -> length w = 4%nat.
Proof. unfold u32. destruct (_ && _); intros H; [|discriminate]. injection H as <-. reflexivity. Qed.

Lemma u32_value v w : u32 v = Ok w -> Z.of_N (le_dec w) = v /\ 0 <= v < 4294967296.
Proof.
  unfold u32. destruct ((0 <=? v) && (v <? 4294967296)) eqn:E; intros H; [|discriminate].
  assert (Hw : w = le_enc 4 (Z.to_N v)) by (now inversion H). subst w. clear H.
  apply andb_true_iff in E as [E1 E2]. apply Z.leb_le in E1. apply Z.ltb_lt in E2.
  rewrite le_dec_enc_small; [ split; [apply Z2N.id|]; lia |].
  change (2 ^ (8 * N.of_nat 4))%N with 4294967296%N. lia.
Qed.

Lemma rd32_wr_same off w d : length w = 4%nat -> (off <= length d)%nat -> rd32 off (wr off w d) = Z.of_N (le_dec w).
Proof.
  intros Hw H. unfold rd32, wr. f_equal. f_equal.
  pose proof (splice_slice d w off H) as S. unfold slice in S. rewrite Hw in S.
  replace (off + 4 - off)%nat with 4%nat in S by lia. exact S.
Qed.

Lemma firstn_skipn_nth_eq (a b : list N) off n :
  length a = length b -> (forall i, (off <= i < off + n)%nat -> nth i a 0%N = nth i b 0%N) ->
  firstn n (skipn off a) = firstn n (skipn off b).
Proof.
  intros Hl H. apply list_eq_nth.
  - rewrite !firstn_length, !skipn_length. lia.
  - intros i Hi. rewrite firstn_length, skipn_length in Hi.
    rewrite !nth_firstn'. destruct (i <? n)%nat eqn:E; [|reflexivity]. apply Nat.ltb_lt in E.
    rewrite !nth_skipn'. apply H. lia.
Qed.

Lemma rd32_wr_other o' off w d : (off + length w <= length d)%nat ->
  (o' + 4 <= off)%nat \/ (off + length w <= o')%nat -> rd32 o' (wr off w d) = rd32 o' d.
Proof.
  intros H Hd. unfold rd32. f_equal. f_equal. apply firstn_skipn_nth_eq.
  - now apply wr_length.
  - intros i Hi. rewrite nth_wr by assumption.
    destruct (i <? off)%nat eqn:E1; [reflexivity|]. destruct (i <? off + length w)%nat eqn:E2; [|reflexivity].
    apply Nat.ltb_ge in E1. apply Nat.ltb_lt in E2. lia.
Qed.

(* ------------------------------------------------------------------ IVT words *)
Lemma off_len_eq : OFF_LEN = 32%nat. Proof. reflexivity. Qed.
Lemma off_flags_eq : OFF_FLAGS = 36%nat. Proof. reflexivity. Qed.
Lemma off_crc_eq : OFF_CRC = 40%nat. Proof. reflexivity. Qed.
Lemma off_load_eq : OFF_LOAD = 52%nat. Proof. reflexivity. Qed.

Definition ivt_total (c : mbi_class) (total : Z) : Z :=
  match provider c SUpdateIvt with Some MixinIvtZeroTotalLength => 0 | _ => total end.
Definition ivt_crc (c : mbi_class) (cc : Z) : Z := if c_type c =? 0 then 0 else cc.
Definition ivt_load (c : mbi_class) (x : mbi) : Z := if has_attr c ALoadAddress then m_load x else 0.

Lemma update_ivt_inv c x app total cc app' :
  update_ivt c x app total cc = Ok app' ->
  exists wf wt wc wl,
    u32 (create_flags c x) = Ok wf /\ u32 (ivt_total c total) = Ok wt /\ u32 (ivt_crc c cc) = Ok wc /\
    u32 (ivt_load c x) = Ok wl /\
    app' = wr 52 wl (wr 40 wc (wr 32 wt (wr 36 wf app))).
Proof.
  unfold update_ivt. fold (ivt_total c total) (ivt_crc c cc) (ivt_load c x).
  destruct (u32 (create_flags c x)) as [wf|] eqn:E1; simpl; [|discriminate].
  destruct (u32 (ivt_total c total)) as [wt|] eqn:E2; simpl; [|discriminate].
  destruct (u32 (ivt_crc c cc)) as [wc|] eqn:E3; simpl; [|discriminate].
  destruct (u32 (ivt_load c x)) as [wl|] eqn:E4; simpl; [|discriminate].
  intros H; inversion H; subst. exists wf, wt, wc, wl. repeat split; try assumption.
Qed.

Lemma wr4_lengths d o1 w1 o2 w2 o3 w3 o4 w4 :
  length w1 = 4%nat -> length w2 = 4%nat -> length w3 = 4%nat -> length w4 = 4%nat ->
  (o1 + 4 <= length d)%nat -> (o2 + 4 <= length d)%nat -> (o3 + 4 <= length d)%nat -> (o4 + 4 <= length d)%nat ->
  length (wr o1 w1 d) = length d /\ length (wr o2 w2 (wr o1 w1 d)) = length d /\
  length (wr o3 w3 (wr o2 w2 (wr o1 w1 d))) = length d /\
  length (wr o4 w4 (wr o3 w3 (wr o2 w2 (wr o1 w1 d)))) = length d.
Proof.
  intros H1 H2 H3 H4 L1 L2 L3 L4.
  assert (A1 : length (wr o1 w1 d) = length d) by (apply wr_length; lia).
  assert (A2 : length (wr o2 w2 (wr o1 w1 d)) = length d) by (rewrite wr_length; lia).
  assert (A3 : length (wr o3 w3 (wr o2 w2 (wr o1 w1 d))) = length d) by (rewrite wr_length; lia).
  assert (A4 : length (wr o4 w4 (wr o3 w3 (wr o2 w2 (wr o1 w1 d)))) = length d) by (rewrite wr_length; lia).
  auto.
Qed.

Ltac decide_ltb :=
  repeat match goal with |- context [(?a <? ?b)%nat] => let E := fresh "E" in destruct (a <? b)%nat eqn:E;
         [apply Nat.ltb_lt in E | apply Nat.ltb_ge in E] end.

Lemma ivt_chain_lengths app wf wt wc wl :
  length wf = 4%nat -> length wt = 4%nat -> length wc = 4%nat -> length wl = 4%nat -> (56 <= length app)%nat ->
  length (wr 36 wf app) = length app /\ length (wr 32 wt (wr 36 wf app)) = length app /\
  length (wr 40 wc (wr 32 wt (wr 36 wf app))) = length app /\
  length (wr 52 wl (wr 40 wc (wr 32 wt (wr 36 wf app)))) = length app.
Proof.
  intros H1 H2 H3 H4 L.
  assert (A1 : length (wr 36 wf app) = length app) by (apply wr_length; lia).
  assert (A2 : length (wr 32 wt (wr 36 wf app)) = length app) by (rewrite wr_length; lia).
  assert (A3 : length (wr 40 wc (wr 32 wt (wr 36 wf app))) = length app) by (rewrite wr_length; lia).
  assert (A4 : length (wr 52 wl (wr 40 wc (wr 32 wt (wr 36 wf app)))) = length app) by (rewrite wr_length; lia).
  auto.
Qed.

Lemma update_ivt_length c x app total cc app' :
  (56 <= length app)%nat -> update_ivt c x app total cc = Ok app' -> length app' = length app.
Proof.
  intros L H. apply update_ivt_inv in H as (wf & wt & wc & wl & H1 & H2 & H3 & H4 & ->).
  apply u32_length in H1, H2, H3, H4.
  now destruct (ivt_chain_lengths app wf wt wc wl H1 H2 H3 H4 L) as (_ & _ & _ & ->).
Qed.

Lemma ivt_words c x app total cc app' :
  (56 <= length app)%nat -> update_ivt c x app total cc = Ok app' ->
  rd32 OFF_LEN app' = ivt_total c total /\ rd32 OFF_FLAGS app' = create_flags c x /\
  rd32 OFF_CRC app' = ivt_crc c cc /\ rd32 OFF_LOAD app' = ivt_load c x.
Proof.
  intros L H. apply update_ivt_inv in H as (wf & wt & wc & wl & H1 & H2 & H3 & H4 & ->).
  pose proof (u32_length _ _ H1) as L1. pose proof (u32_length _ _ H2) as L2.
  pose proof (u32_length _ _ H3) as L3. pose proof (u32_length _ _ H4) as L4.
  apply u32_value in H1 as [V1 _]. apply u32_value in H2 as [V2 _]. apply u32_value in H3 as [V3 _]. apply u32_value in H4 as [V4 _].
  rewrite off_len_eq, off_flags_eq, off_crc_eq, off_load_eq.
  destruct (ivt_chain_lengths app wf wt wc wl L1 L2 L3 L4 L) as (A1 & A2 & A3 & A4).
  repeat split.
  - rewrite rd32_wr_other by lia. rewrite rd32_wr_other by lia. rewrite rd32_wr_same by lia. exact V2.
  - rewrite rd32_wr_other by lia. rewrite rd32_wr_other by lia. rewrite rd32_wr_other by lia.
    rewrite rd32_wr_same by lia. exact V1.
  - rewrite rd32_wr_other by lia. rewrite rd32_wr_same by lia. exact V3.
  - rewrite rd32_wr_same by lia. exact V4.
Qed.

Lemma ivt_untouched c x app total cc app' :
  (56 <= length app)%nat -> update_ivt c x app total cc = Ok app' ->
  length app' = length app /\
  forall i, ~ (32 <= i < 44)%nat -> ~ (52 <= i < 56)%nat -> nth i app' 0%N = nth i app 0%N.
Proof.
  intros L H. split; [eapply update_ivt_length; eassumption|].
  apply update_ivt_inv in H as (wf & wt & wc & wl & H1 & H2 & H3 & H4 & ->).
  apply u32_length in H1, H2, H3, H4. intros i N1 N2.
  destruct (ivt_chain_lengths app wf wt wc wl H1 H2 H3 H4 L) as (A1 & A2 & A3 & A4).
  rewrite nth_wr by lia. rewrite nth_wr by lia. rewrite nth_wr by lia. rewrite nth_wr by lia. rewrite H1, H2, H3, H4.
  repeat match goal with |- context [(?a <? ?b)%nat] => let E := fresh "E" in destruct (a <? b)%nat eqn:E;
         [apply Nat.ltb_lt in E | apply Nat.ltb_ge in E] end; try reflexivity; lia.
Qed.

Lemma zeros_length n : length (zeros n) = n. Proof. apply repeat_length. Qed.

(* clean_ivt o update_ivt = clean_ivt : the four words are the only thing update_ivt changes *)
Lemma nth_clean_ivt d i : (56 <= length d)%nat ->
  nth i (clean_ivt d) 0%N = if ((32 <=? i) && (i <? 44) || (52 <=? i) && (i <? 56))%nat then 0%N else nth i d 0%N.
Proof.
  intros L. unfold clean_ivt. rewrite off_len_eq, off_flags_eq, off_crc_eq, off_load_eq.
  destruct (wr4_lengths d 32 (zeros 4) 36 (zeros 4) 40 (zeros 4) 52 (zeros 4)) as (A1 & A2 & A3 & A4);
    try apply zeros_length; try lia.
  rewrite nth_wr by (rewrite zeros_length; lia). rewrite nth_wr by (rewrite zeros_length; lia).
  rewrite nth_wr by (rewrite zeros_length; lia). rewrite nth_wr by (rewrite zeros_length; lia).
  rewrite !zeros_length.
  assert (Z : forall j, (j < 4)%nat -> nth j (zeros 4) 0%N = 0%N) by (intros [|[|[|[|j]]]] Hj; try reflexivity; lia).
  destruct (32 <=? i)%nat eqn:B1; destruct (i <? 44)%nat eqn:B2; destruct (52 <=? i)%nat eqn:B3; destruct (i <? 56)%nat eqn:B4;
    simpl; repeat match goal with H : (_ <=? _)%nat = true |- _ => apply Nat.leb_le in H
                          | H : (_ <=? _)%nat = false |- _ => apply Nat.leb_gt in H
                          | H : (_ <? _)%nat = true |- _ => apply Nat.ltb_lt in H
                          | H : (_ <? _)%nat = false |- _ => apply Nat.ltb_ge in H end;
    decide_ltb; try reflexivity; try lia; apply Z; lia.
Qed.

Lemma clean_ivt_length app : (56 <= length app)%nat -> length (clean_ivt app) = length app.
Proof.
  intros L. unfold clean_ivt. rewrite off_len_eq, off_flags_eq, off_crc_eq, off_load_eq.
  destruct (wr4_lengths app 32 (zeros 4) 36 (zeros 4) 40 (zeros 4) 52 (zeros 4)) as (A1 & A2 & A3 & A4);
    try apply zeros_length; try lia.
Qed.

Lemma clean_update c x app total cc app' :
  (56 <= length app)%nat -> update_ivt c x app total cc = Ok app' -> clean_ivt app' = clean_ivt app.
Proof.
  intros L H. pose proof (ivt_untouched _ _ _ _ _ _ L H) as [Hl Hn].
  apply list_eq_nth.
  - rewrite !clean_ivt_length; lia.
  - intros i _. rewrite !nth_clean_ivt by lia.
    destruct (32 <=? i)%nat eqn:B1; destruct (i <? 44)%nat eqn:B2; destruct (52 <=? i)%nat eqn:B3; destruct (i <? 56)%nat eqn:B4;
      simpl; try reflexivity;
      repeat match goal with H : (_ <=? _)%nat = true |- _ => apply Nat.leb_le in H
                          | H : (_ <=? _)%nat = false |- _ => apply Nat.leb_gt in H
                          | H : (_ <? _)%nat = true |- _ => apply Nat.ltb_lt in H
                          | H : (_ <? _)%nat = false |- _ => apply Nat.ltb_ge in H end; apply Hn; lia.
Qed.

(* update_ivt does not depend on what the four words held before *)
Lemma update_clean c x app total cc :
  (56 <= length app)%nat -> update_ivt c x (clean_ivt app) total cc = update_ivt c x app total cc.
Proof.
  intros L. unfold update_ivt. fold (ivt_total c total) (ivt_crc c cc) (ivt_load c x).
  destruct (u32 (create_flags c x)) as [wf|] eqn:E1; simpl; [|reflexivity].
  destruct (u32 (ivt_total c total)) as [wt|] eqn:E2; simpl; [|reflexivity].
  destruct (u32 (ivt_crc c cc)) as [wc|] eqn:E3; simpl; [|reflexivity].
  destruct (u32 (ivt_load c x)) as [wl|] eqn:E4; simpl; [|reflexivity].
  f_equal. apply u32_length in E1, E2, E3, E4.
  rewrite off_len_eq, off_flags_eq, off_crc_eq, off_load_eq.
  pose proof (clean_ivt_length app L) as CL.
  destruct (wr4_lengths app 36 wf 32 wt 40 wc 52 wl) as (A1 & A2 & A3 & A4); try assumption; try lia.
  destruct (wr4_lengths (clean_ivt app) 36 wf 32 wt 40 wc 52 wl) as (B1 & B2 & B3 & B4); try assumption; try lia.
  apply list_eq_nth; [lia|].
  intros i _.
  rewrite nth_wr by lia. rewrite nth_wr by lia. rewrite nth_wr by lia. rewrite nth_wr by lia.
  rewrite (nth_wr 52 wl (wr 40 wc (wr 32 wt (wr 36 wf app)))) by lia. rewrite (nth_wr 40 wc (wr 32 wt (wr 36 wf app))) by lia.
  rewrite (nth_wr 32 wt (wr 36 wf app)) by lia. rewrite (nth_wr 36 wf app) by lia.
  rewrite E1, E2, E3, E4. rewrite nth_clean_ivt by lia.
  decide_ltb; try reflexivity; try lia;
  repeat match goal with |- context [(?a <=? ?b)%nat] => let E := fresh "C" in destruct (a <=? b)%nat eqn:E;
         [apply Nat.leb_le in E | apply Nat.leb_gt in E] end; simpl; try reflexivity; lia.
Qed.

(* ------------------------------------------------------------------ image flags (IVT word 0x24) *)
Lemma lor_add_hi a b k : 0 <= k -> 0 <= a < 2 ^ k -> 0 <= b -> Z.lor a (Z.shiftl b k) = a + b * 2 ^ k.
Proof.
  intros Hk Ha Hb. rewrite Z.shiftl_mul_pow2 by assumption.
  assert (L : Z.land a (b * 2 ^ k) = 0).
  { rewrite <- (Z.mod_small a (2 ^ k)) by assumption. rewrite <- Z.land_ones by assumption.
    rewrite <- Z.land_assoc. rewrite (Z.land_comm (Z.ones k)). rewrite Z.land_ones by assumption.
    rewrite Z.mod_mul by lia. apply Z.land_0_r. }
  rewrite <- Z.lxor_lor by assumption. symmetry. now apply Z.add_nocarry_lxor.
Qed.

Definition zrange (n : nat) : list Z := map Z.of_nat (seq 0 n).
Lemma in_zrange z n : 0 <= z < Z.of_nat n -> In z (zrange n).
Proof.
  intros H. unfold zrange. rewrite <- (Z2Nat.id z) by lia. apply in_map. apply in_seq. lia.
Qed.

Definition low_flags (ty : Z) (htz : bool) (tag : Z) (hs : bool) (sb : Z) (hw ks tb vf : bool) : Z :=
  let f0 := ty in
  let f1 := if htz then Z.lor f0 (Z.shiftl tag 13) else f0 in
  let f2 := if hs then Z.lor f1 (Z.shiftl sb 6) else f1 in
  let f3 := if hw then Z.lor f2 4096 else f2 in
  let f4 := if ks then Z.lor f3 32768 else f3 in
  let f5 := if tb then Z.lor f4 2048 else f4 in
  if vf then Z.lor f5 1024 else f5.
Definition low_sum (ty : Z) (htz : bool) (tag : Z) (hs : bool) (sb : Z) (hw ks tb vf : bool) : Z :=
  ty + (if htz then 8192 * tag else 0) + (if hs then 64 * sb else 0) + (if hw then 4096 else 0) +
  (if ks then 32768 else 0) + (if tb then 2048 else 0) + (if vf then 1024 else 0).
Definition bools : list bool := [true; false].
Definition low_check : bool :=
  forallb (fun ty => forallb (fun tag => forallb (fun sb => forallb (fun htz => forallb (fun hs => forallb (fun hw =>
  forallb (fun ks => forallb (fun tb => forallb (fun vf =>
    low_flags ty htz tag hs sb hw ks tb vf =? low_sum ty htz tag hs sb hw ks tb vf)
  bools) bools) bools) bools) bools) bools) (zrange 4)) (zrange 3)) (zrange 64).
Lemma low_check_true : low_check = true. Proof. vm_compute. reflexivity. Qed.
Lemma in_bools b : In b bools. Proof. destruct b; simpl; auto. Qed.

Lemma low_flags_sum ty htz tag hs sb hw ks tb vf :
  0 <= ty < 64 -> 0 <= tag < 3 -> 0 <= sb < 4 ->
  low_flags ty htz tag hs sb hw ks tb vf = low_sum ty htz tag hs sb hw ks tb vf.
Proof.
  intros H1 H2 H3. pose proof low_check_true as C. unfold low_check in C.
  rewrite forallb_forall in C. specialize (C ty (in_zrange ty 64 H1)).
  rewrite forallb_forall in C. specialize (C tag (in_zrange tag 3 H2)).
  rewrite forallb_forall in C. specialize (C sb (in_zrange sb 4 H3)).
  rewrite forallb_forall in C. specialize (C htz (in_bools _)).
  rewrite forallb_forall in C. specialize (C hs (in_bools _)).
  rewrite forallb_forall in C. specialize (C hw (in_bools _)).
  rewrite forallb_forall in C. specialize (C ks (in_bools _)).
  rewrite forallb_forall in C. specialize (C tb (in_bools _)).
  rewrite forallb_forall in C. specialize (C vf (in_bools _)).
  now apply Z.eqb_eq in C.
Qed.

Definition has_table (x : mbi) : bool := match m_table x with Some _ => true | None => false end.
Definition ver_flag (c : mbi_class) (x : mbi) : bool := has_attr c AImageVersion && negb (m_imgver x =? 0).
Definition flags_low (c : mbi_class) (x : mbi) : Z :=
  low_flags (c_type c) (has_tz c) (tz_tag (m_tz x)) (has_attr c AImageSubtype) (m_subtype x)
            (has_attr c AHwKey && m_hwkey x) (has_attr c AKeyStore && truthy_ks (m_ks x))
            (has_attr c AAppTable && has_table x) (ver_flag c x).

Lemma create_flags_split c x :
  create_flags c x = if ver_flag c x then Z.lor (flags_low c x) (Z.shiftl (m_imgver x) 16) else flags_low c x.
Proof.
  unfold create_flags, flags_low, low_flags, ver_flag, has_table.
  destruct (has_attr c AImageVersion && negb (m_imgver x =? 0)); reflexivity.
Qed.

Lemma tz_tag_range t : 0 <= tz_tag t < 3. Proof. destruct t; cbv; split; congruence. Qed.

(* the flags word as a sum of disjoint fields *)
Lemma create_flags_sum c x :
  0 <= c_type c < 64 -> 0 <= m_subtype x < 4 -> 0 <= m_imgver x ->
  create_flags c x =
  low_sum (c_type c) (has_tz c) (tz_tag (m_tz x)) (has_attr c AImageSubtype) (m_subtype x)
          (has_attr c AHwKey && m_hwkey x) (has_attr c AKeyStore && truthy_ks (m_ks x))
          (has_attr c AAppTable && has_table x) (ver_flag c x)
  + (if ver_flag c x then m_imgver x * 65536 else 0).
Proof.
  intros H1 H2 H3. rewrite create_flags_split. unfold flags_low.
  rewrite low_flags_sum by (try assumption; apply tz_tag_range).
  destruct (ver_flag c x); [|lia].
  rewrite lor_add_hi; [reflexivity | lia | | assumption].
  pose proof (tz_tag_range (m_tz x)). unfold low_sum.
  destruct (has_tz c), (has_attr c AImageSubtype), (has_attr c AHwKey && m_hwkey x),
    (has_attr c AKeyStore && truthy_ks (m_ks x)), (has_attr c AAppTable && has_table x); lia.
Qed.

Lemma land_pow2 v k : 0 <= k -> Z.land v (2 ^ k) = ((v / 2 ^ k) mod 2) * 2 ^ k.
Proof.
  intros Hk. apply Z.bits_inj'. intros n Hn. rewrite Z.land_spec, Z.pow2_bits_eqb by assumption.
  rewrite <- Z.shiftl_mul_pow2, <- Z.shiftr_div_pow2 by assumption.
  change 2 with (2 ^ 1) at 1. rewrite <- Z.land_ones by lia.
  rewrite Z.shiftl_spec by assumption.
  destruct (Z.eqb_spec k n) as [->|Ne].
  - rewrite andb_true_r, Z.land_spec, Z.shiftr_spec by lia. replace (n - n) with 0 by lia.
    rewrite Z.ones_spec_low by lia. now rewrite andb_true_r.
  - rewrite andb_false_r. symmetry. destruct (Z.ltb_spec n k) as [Lt|Ge]; [apply Z.testbit_neg_r; lia|].
    rewrite Z.land_spec, Z.ones_spec_high by lia. apply andb_false_r.
Qed.

(* what the parser computes from the word: every field comes back *)
Lemma flags_decode_lemma c x :
  0 <= c_type c < 64 -> 0 <= m_subtype x < 4 -> 0 <= m_imgver x < 65536 ->
  let f := create_flags c x in
  0 <= f < 4294967296 /\
  Z.land f G_IVT_IMAGE_FLAGS_IMAGE_TYPE_MASK = c_type c /\
  Z.land (Z.shiftr f G_IVT_IMAGE_FLAGS_TZ_TYPE_SHIFT) G_IVT_IMAGE_FLAGS_TZ_TYPE_MASK = (if has_tz c then tz_tag (m_tz x) else 0) /\
  Z.land (Z.shiftr f G_IVT_IMAGE_FLAGS_SUB_TYPE_SHIFT) G_IVT_IMAGE_FLAGS_SUB_TYPE_MASK = (if has_attr c AImageSubtype then m_subtype x else 0) /\
  negb (Z.land f G_HW_USER_KEY_EN_FLAG =? 0) = (has_attr c AHwKey && m_hwkey x) /\
  negb (Z.land f G_KEY_STORE_FLAG =? 0) = (has_attr c AKeyStore && truthy_ks (m_ks x)) /\
  negb (Z.land f G_RELOC_TABLE_FLAG =? 0) = (has_attr c AAppTable && has_table x) /\
  (if negb (Z.land f G_BOOT_IMAGE_VERSION_FLAG =? 0)
   then Z.land (Z.shiftr f G_IVT_IMAGE_FLAGS_IMG_VER_SHIFT) G_IVT_IMAGE_FLAGS_IMG_VER_MASK else 0)
  = (if has_attr c AImageVersion then m_imgver x else 0).
Proof.
  intros H1 H2 H3 f. subst f. rewrite create_flags_sum by lia.
  pose proof (tz_tag_range (m_tz x)) as T.
  change G_IVT_IMAGE_FLAGS_IMAGE_TYPE_MASK with (Z.ones 6). change G_IVT_IMAGE_FLAGS_TZ_TYPE_MASK with (Z.ones 2).
  change G_IVT_IMAGE_FLAGS_SUB_TYPE_MASK with (Z.ones 2). change G_IVT_IMAGE_FLAGS_IMG_VER_MASK with (Z.ones 16).
  change G_IVT_IMAGE_FLAGS_TZ_TYPE_SHIFT with 13. change G_IVT_IMAGE_FLAGS_SUB_TYPE_SHIFT with 6.
  change G_IVT_IMAGE_FLAGS_IMG_VER_SHIFT with 16.
  change G_HW_USER_KEY_EN_FLAG with (2 ^ 12). change G_KEY_STORE_FLAG with (2 ^ 15).
  change G_RELOC_TABLE_FLAG with (2 ^ 11). change G_BOOT_IMAGE_VERSION_FLAG with (2 ^ 10).
  rewrite !land_pow2 by lia. rewrite !Z.land_ones by lia. rewrite !Z.shiftr_div_pow2 by lia.
  change (2 ^ 6) with 64. change (2 ^ 2) with 4. change (2 ^ 16) with 65536. change (2 ^ 13) with 8192.
  change (2 ^ 12) with 4096. change (2 ^ 15) with 32768. change (2 ^ 11) with 2048. change (2 ^ 10) with 1024.
  set (hw := has_attr c AHwKey && m_hwkey x). set (ks := has_attr c AKeyStore && truthy_ks (m_ks x)).
  set (tb := has_attr c AAppTable && has_table x).
  set (tzv := if has_tz c then tz_tag (m_tz x) else 0). set (sbv := if has_attr c AImageSubtype then m_subtype x else 0).
  set (vv := if has_attr c AImageVersion then m_imgver x else 0).
  assert (Rt : 0 <= tzv < 3) by (subst tzv; destruct (has_tz c); lia).
  assert (Rs : 0 <= sbv < 4) by (subst sbv; destruct (has_attr c AImageSubtype); lia).
  assert (Rv : 0 <= vv < 65536) by (subst vv; destruct (has_attr c AImageVersion); lia).
  assert (E : low_sum (c_type c) (has_tz c) (tz_tag (m_tz x)) (has_attr c AImageSubtype) (m_subtype x) hw ks tb (ver_flag c x)
              + (if ver_flag c x then m_imgver x * 65536 else 0)
              = c_type c + 8192 * tzv + 64 * sbv + 4096 * Z.b2z hw + 32768 * Z.b2z ks + 2048 * Z.b2z tb
                + 1024 * Z.b2z (negb (vv =? 0)) + 65536 * vv).
  { unfold low_sum, ver_flag. subst tzv sbv vv.
    assert (Vq : (has_attr c AImageVersion && negb (m_imgver x =? 0))
                 = negb ((if has_attr c AImageVersion then m_imgver x else 0) =? 0))
      by (destruct (has_attr c AImageVersion); reflexivity).
    rewrite Vq. clear Vq.
    destruct (has_tz c), (has_attr c AImageSubtype), hw, ks, tb; cbn [Z.b2z];
      (destruct (has_attr c AImageVersion);
       [ destruct (m_imgver x =? 0) eqn:V; cbn [negb Z.b2z]; [apply Z.eqb_eq in V|]; lia
       | change (0 =? 0) with true; cbn [negb Z.b2z]; lia ]). }
  rewrite E. clear E.
  set (vb := negb (vv =? 0)).
  assert (Vb : vb = true <-> vv <> 0) by (subst vb; destruct (Z.eqb_spec vv 0); simpl; split; congruence).
  assert (BR : forall b, 0 <= Z.b2z b <= 1) by (intros [|]; simpl; lia).
  pose proof (BR hw) as B1. pose proof (BR ks) as B2. pose proof (BR tb) as B3. pose proof (BR vb) as B4.
  repeat split; try lia.
  - destruct hw; cbn [Z.b2z] in *;
      match goal with |- negb (?e =? 0) = _ => destruct (Z.eqb_spec e 0) as [Q|Q]; cbn [negb]; try reflexivity; exfalso; lia end.
  - destruct ks; cbn [Z.b2z] in *;
      match goal with |- negb (?e =? 0) = _ => destruct (Z.eqb_spec e 0) as [Q|Q]; cbn [negb]; try reflexivity; exfalso; lia end.
  - destruct tb; cbn [Z.b2z] in *;
      match goal with |- negb (?e =? 0) = _ => destruct (Z.eqb_spec e 0) as [Q|Q]; cbn [negb]; try reflexivity; exfalso; lia end.
  - destruct vb eqn:Vq; cbn [Z.b2z] in *.
    + match goal with |- (if negb (?e =? 0) then _ else _) = _ => destruct (Z.eqb_spec e 0) as [Q|Q]; cbn [negb] end;
        [exfalso; lia | lia].
    + assert (V0 : vv = 0).
      { destruct (Z.eq_dec vv 0) as [|Ne]; [assumption|]. apply Vb in Ne. discriminate. }
      match goal with |- (if negb (?e =? 0) then _ else _) = _ => destruct (Z.eqb_spec e 0) as [Q|Q]; cbn [negb] end; lia.
Qed.

(* ------------------------------------------------------------------ sweeps over the generated database *)
Lemma tables_agree_with_source : mixin_table_ok = true /\ resolution_ok = true /\ consts_ok = true.
Proof. repeat split; vm_compute; reflexivity. Qed.

(* Python refuses a class with a duplicate base; so every real class has a duplicate-free mixin list *)
Fixpoint nodupb (l : list mixin) : bool :=
  match l with [] => true | m :: t => negb (existsb (mixin_eqb m) t) && nodupb t end.

(* manifest: the test `flags and DIGEST_PRESENT_FLAG and digest_hash_algo is not None` (logical and) that finalize uses
   equals the bitwise test `flags & DIGEST_PRESENT_FLAG` used by mix_len, for every manifest the constructor can build *)
Lemma manifest_flags_logical_is_bitwise dg :
  0 <= dg <= 3 ->
  (negb (manifest_flags dg =? 0) && negb (dg =? 0)) = negb (Z.land (manifest_flags dg) G_MANIFEST_DIGEST_PRESENT_FLAG =? 0).
Proof.
  intros H. assert (D : dg = 0 \/ dg = 1 \/ dg = 2 \/ dg = 3) by lia.
  destruct D as [->|[->|[->| ->]]]; vm_compute; reflexivity.
Qed.
