(* Proofs/BdProofs.v -- lemmas about Model/BdModel.v over the tables of Gen/GenBd.v (C19). *)
From Coq Require Import String Ascii ZArith NArith List Bool Lia Arith.
Require Import Value Bytes GenBd BdModel.
Import ListNotations.
Local Open Scope string_scope.
Local Open Scope list_scope.
Local Open Scope Z_scope.
Ltac Zify.zify_post_hook ::= Z.to_euclidean_division_equations.

(* ================================================================================================== *)
(** * Tables                                                                                          *)
(* ================================================================================================== *)
Definition std_py (o : binop) : pyop :=
  match o with
  | Add => PyAdd | Sub => PySub | Mul => PyMult | Div => PyFloorDiv | Mod => PyMod | Shl => PyLShift
  | Shr => PyRShift | BAnd => PyBitAnd | BOr => PyBitOr | BXor => PyBitXor
  end.

Lemma expr_table_standard : forall o, lookup_op (binop_text o) expr_ops = Some (std_py o, false).
Proof. destruct o; reflexivity. Qed.

Definition std_cmp (o : cmpop) : pyop :=
  match o with CLt => PyLt | CLe => PyLtE | CGt => PyGt | CGe => PyGtE | CEq => PyEq | CNe => PyNotEq end.

Lemma bool_table_standard : forall o, lookup_op (cmpop_text o) bool_ops = Some (std_cmp o, false).
Proof. destruct o; reflexivity. Qed.
(* && / || : bool(a and b) / bool(a or b), truth values *)
Lemma bool_table_and : lookup_op "&&" bool_ops = Some (PyAndBool, false).
Proof. reflexivity. Qed.
Lemma bool_table_or : lookup_op "||" bool_ops = Some (PyOrBool, false).
Proof. reflexivity. Qed.
Lemma defined_looks_up_names : defined_by_name = true.
Proof. reflexivity. Qed.
Lemma size_mask_spec : forall s, lookup_mask (isize_text s) size_masks = Some (Z.ones (spec_size_bits s)).
Proof. destruct s; reflexivity. Qed.
Lemma blob_marker_present : blob_bytes_in_order = true.
Proof. reflexivity. Qed.
Lemma encrypt_counter_is_address : encrypt_counter_from_address = true.
Proof. reflexivity. Qed.
Lemma section_options_are_refused : section_options_refused = true.
Proof. reflexivity. Qed.
(* the lexer's literal rules are the non-greedy ones (texts of the regular expressions, extracted on this run) *)
Lemma literal_regexes_non_greedy :
  regex_of "STRING_LITERAL" = Some "\""[^\""\n]*\""" /\
  regex_of "INT_LITERAL" = Some "\b([0-9]+[K]?|0[xX][0-9a-fA-F]+)\b|'[^'\n]*'".
Proof. split; reflexivity. Qed.
Lemma unary_minus_negates : str_in "-" unary_negating = true.
Proof. reflexivity. Qed.
Lemma unary_plus_identity : str_in "+" unary_negating = false.
Proof. reflexivity. Qed.
Lemma period_not_in_chain : lookup_op "." expr_ops = None.
Proof. reflexivity. Qed.

(* sanity of the parser over the extracted table (kept out of Model/ so that the model still builds when the table changes) *)
Example ex_prec : parse_tokens [TNum 2; TOp Add; TNum 3; TOp Mul; TNum 4] = Some (EBin Add (ELit 2) (EBin Mul (ELit 3) (ELit 4))).
Proof. vm_compute. reflexivity. Qed.
Example ex_unary : parse_tokens [TNum 7; TOp Div; TOp Sub; TNum 2; TOp Div; TNum 2]
                   = Some (EBin Div (ELit 7) (ENeg (EBin Div (ELit 2) (ELit 2)))).
Proof. vm_compute. reflexivity. Qed.

(* the extracted precedence tuple orders the operators of the language exactly as the C table does, and all of them
   associate to the left (stated on the relative order, so that extra rows for other tokens do not matter) *)
Definition prec_agrees (p q : string * nat) : bool :=
  match Nat.compare (prec_level precedence (fst p)) (prec_level precedence (fst q)), Nat.compare (snd p) (snd q) with
  | Eq, Eq | Lt, Lt | Gt, Gt => true
  | _, _ => false
  end.
Definition left_and_present (p : string * nat) : bool :=
  match assoc_of precedence (fst p) with LeftA => negb (Nat.eqb (prec_level precedence (fst p)) 0) | _ => false end.

Lemma prec_table_documented :
  (forall p q, In p c_table -> In q c_table ->
     Nat.compare (prec_level precedence (fst p)) (prec_level precedence (fst q)) = Nat.compare (snd p) (snd q)) /\
  (forall p, In p c_table -> assoc_of precedence (fst p) = LeftA /\ prec_level precedence (fst p) <> 0%nat) /\
  unary_lvl = lvl Sub /\ (forall o, (lvl o < size_lvl)%nat).
Proof.
  assert (H1 : forallb (fun p => forallb (prec_agrees p) c_table) c_table = true) by (vm_compute; reflexivity).
  assert (H2 : forallb left_and_present c_table = true) by (vm_compute; reflexivity).
  split; [|split; [|split]].
  - intros p q Hp Hq. rewrite forallb_forall in H1. specialize (H1 p Hp). rewrite forallb_forall in H1. specialize (H1 q Hq).
    unfold prec_agrees in H1.
    destruct (Nat.compare (prec_level precedence (fst p)) (prec_level precedence (fst q))), (Nat.compare (snd p) (snd q));
      try reflexivity; discriminate.
  - intros p Hp. rewrite forallb_forall in H2. specialize (H2 p Hp). unfold left_and_present in H2.
    destruct (assoc_of precedence (fst p)); try discriminate. split; [reflexivity|].
    intros E. rewrite E in H2. discriminate.
  - reflexivity.
  - destruct o; vm_compute; repeat constructor.
Qed.

Lemma forallb_In {A} (f : A -> bool) l : forallb f l = true -> forall x, In x l -> f x = true.
Proof. intros H x Hx. rewrite forallb_forall in H. auto. Qed.

Definition has_row (tbl : list (string * pyop * bool)) (t : string) : bool :=
  match lookup_op t tbl with Some _ => true | None => false end.

Lemma every_operator_production_has_a_row :
  (forall t, In t expr_binary_tokens -> exists r, lookup_op t expr_ops = Some r) /\
  (forall t, In t bool_binary_tokens -> exists r, lookup_op t bool_ops = Some r) /\
  (forall o, In (binop_text o) expr_binary_tokens) /\
  (forall o, In (cmpop_text o) bool_binary_tokens) /\
  In "&&" bool_binary_tokens /\ In "||" bool_binary_tokens /\
  unary_tokens = ["+"; "-"].
Proof.
  assert (H1 : forallb (has_row expr_ops) expr_binary_tokens = true) by (vm_compute; reflexivity).
  assert (H2 : forallb (has_row bool_ops) bool_binary_tokens = true) by (vm_compute; reflexivity).
  repeat split.
  - intros t Ht. pose proof (forallb_In _ _ H1 t Ht) as H. unfold has_row in H.
    destruct (lookup_op t expr_ops) as [r|]; [exists r; reflexivity | discriminate].
  - intros t Ht. pose proof (forallb_In _ _ H2 t Ht) as H. unfold has_row in H.
    destruct (lookup_op t bool_ops) as [r|]; [exists r; reflexivity | discriminate].
  - destruct o; vm_compute; tauto.
  - destruct o; vm_compute; tauto.
  - vm_compute; tauto.
  - vm_compute; tauto.
Qed.

Arguments binop_text : simpl never.
Arguments cmpop_text : simpl never.
Arguments isize_text : simpl never.
Arguments lookup_op : simpl never.
Arguments lookup_mask : simpl never.
Arguments str_in : simpl never.

(* ================================================================================================== *)
(** * Integer expressions                                                                             *)
(* ================================================================================================== *)
Lemma apply_std_spec : forall o a b, to_opt (apply_py (std_py o) a b) = spec_binop o a b.
Proof.
  intros o a b; destruct o; simpl; try reflexivity.
  - destruct (b =? 0); reflexivity.
  - destruct (b =? 0); reflexivity.
  - destruct (b <? 0) eqn:E; [reflexivity|]. simpl. rewrite Z.shiftl_mul_pow2 by lia. reflexivity.
  - destruct (b <? 0) eqn:E; [reflexivity|]. simpl. rewrite Z.shiftr_div_pow2 by lia. reflexivity.
Qed.

Lemma to_opt_bind {A B} (r : res A) (f : A -> res B) :
  to_opt (bind r f) = obind (to_opt r) (fun a => to_opt (f a)).
Proof. destruct r; reflexivity. Qed.

Theorem expr_sem : forall env e, to_opt (eval_impl env e) = eval_spec env e.
Proof.
  intros env e. induction e as [z|x|o a IHa b IHb|a IHa|a IHa|a IHa s]; simpl.
  - reflexivity.
  - destruct (lookup_var x env) as [[z|s|s|b]|]; reflexivity.
  - rewrite to_opt_bind, IHa. destruct (eval_spec env a) as [va|]; simpl; [|reflexivity].
    rewrite to_opt_bind, IHb. destruct (eval_spec env b) as [vb|]; simpl; [|reflexivity].
    rewrite expr_table_standard. simpl. apply apply_std_spec.
  - rewrite to_opt_bind, IHa. destruct (eval_spec env a); simpl; [|reflexivity].
    try rewrite unary_minus_negates; reflexivity.
  - rewrite to_opt_bind, IHa. destruct (eval_spec env a); simpl; [|reflexivity].
    try rewrite unary_plus_identity; reflexivity.
  - rewrite to_opt_bind, IHa. destruct (eval_spec env a) as [v|]; simpl; [|reflexivity].
    try rewrite period_not_in_chain. rewrite size_mask_spec. simpl.
    rewrite Z.land_ones by (destruct s; simpl; lia). reflexivity.
Qed.

(* the suffix binds tighter than the binary operators: 0xa.b + 0xb.b is (0xa.b) + (0xb.b) *)
Example size_suffix_binds_tightest :
  parse_tokens [TNum 10; TSize SzB; TOp Add; TNum 11; TSize SzB] = Some (EBin Add (ESize (ELit 10) SzB) (ESize (ELit 11) SzB)) /\
  eval_impl [] (ESize (ELit 85) SzB) = Ok 85 /\ eval_impl [] (ESize (ELit 4386) SzH) = Ok 4386.
Proof. repeat split; vm_compute; reflexivity. Qed.

Theorem division_is_c_division_on_naturals :
  forall a b, 0 <= a -> 0 < b ->
    spec_binop Div a b = Some (Z.quot a b) /\ spec_binop Mod a b = Some (Z.rem a b).
Proof.
  intros a b Ha Hb. simpl. replace (b =? 0) with false by (symmetry; apply Z.eqb_neq; lia).
  rewrite Z.quot_div_nonneg, Z.rem_mod_nonneg by lia. split; reflexivity.
Qed.

(* ================================================================================================== *)
(** * Boolean expressions                                                                             *)
(* ================================================================================================== *)
Lemma b2z_01 : forall b, b2z b = 0 \/ b2z b = 1.
Proof. destruct b; simpl; auto. Qed.

Lemma apply_cmp_spec : forall o a b, apply_py (std_cmp o) a b = Ok (b2z (spec_cmp o a b)).
Proof. destruct o; reflexivity. Qed.

Theorem bool_sem : forall env b, to_opt (beval_impl env b) = beval_spec env b.
Proof.
  intros env b. induction b as [e|o a IHa c IHc|a IHa c IHc|a IHa c IHc|a IHa|x]; simpl.
  - apply expr_sem.
  - rewrite to_opt_bind, IHa. destruct (beval_spec env a) as [va|]; simpl; [|reflexivity].
    rewrite to_opt_bind, IHc. destruct (beval_spec env c) as [vc|]; simpl; [|reflexivity].
    rewrite bool_table_standard. simpl. rewrite apply_cmp_spec. reflexivity.
  - rewrite to_opt_bind, IHa. destruct (beval_spec env a) as [va|]; simpl; [|reflexivity].
    rewrite to_opt_bind, IHc. destruct (beval_spec env c) as [vc|]; simpl; [|reflexivity].
    try rewrite bool_table_and; reflexivity.
  - rewrite to_opt_bind, IHa. destruct (beval_spec env a) as [va|]; simpl; [|reflexivity].
    rewrite to_opt_bind, IHc. destruct (beval_spec env c) as [vc|]; simpl; [|reflexivity].
    try rewrite bool_table_or; reflexivity.
  - rewrite to_opt_bind, IHa. destruct (beval_spec env a); reflexivity.
  - unfold defined_impl, is_defined. rewrite defined_looks_up_names. reflexivity.
Qed.

Example bool_sem_instances :
  beval_impl [] (BAndL (BInt (ELit 2)) (BInt (ELit 3))) = Ok 1 /\ beval_impl [] (BOrL (BInt (ELit 0)) (BInt (ELit 5))) = Ok 1 /\
  beval_impl [] (BCmp CEq (BAndL (BInt (ELit 2)) (BInt (ELit 3))) (BInt (ELit 1))) = Ok 1 /\
  beval_impl [(7%N, DInt 0)] (BDefined 7) = Ok 1 /\ beval_impl [(7%N, DInt 0)] (BDefined 8) = Ok 0.
Proof. repeat split. Qed.

(* ================================================================================================== *)
(** * Constants resolve to their definitions                                                          *)
(* ================================================================================================== *)
Lemma lookup_var_app_some : forall x e1 e2 v, lookup_var x e1 = Some v -> lookup_var x (e1 ++ e2) = Some v.
Proof.
  induction e1 as [|[y w] t IH]; simpl; intros e2 v H; [discriminate|].
  destruct (N.eqb x y); [assumption | apply IH; assumption].
Qed.

Lemma lookup_var_app_none : forall x e1 e2, lookup_var x e1 = None -> lookup_var x (e1 ++ e2) = lookup_var x e2.
Proof.
  induction e1 as [|[y w] t IH]; simpl; intros e2 H; [reflexivity|].
  destruct (N.eqb x y); [discriminate | apply IH; assumption].
Qed.

Lemma lookup_var_notin : forall x e, ~ In x (map fst e) -> lookup_var x e = None.
Proof.
  induction e as [|[y w] t IH]; simpl; intros H; [reflexivity|].
  destruct (N.eqb x y) eqn:E.
  - apply N.eqb_eq in E. subst. exfalso. apply H. left. reflexivity.
  - apply IH. intros Hin. apply H. right. assumption.
Qed.

Lemma run_constants_names : forall defs st st',
  run_constants st defs = Ok st' ->
  map fst (st_vars st') = map fst (st_vars st) ++ map fst defs /\ exists ext, st_vars st' = st_vars st ++ ext.
Proof.
  induction defs as [|[x b] r IH]; simpl; intros st st' H.
  - inversion H; subst. rewrite app_nil_r. split; [reflexivity | exists []; rewrite app_nil_r; reflexivity].
  - destruct (beval_impl (st_vars st) b) as [z|k]; simpl in H; [|discriminate].
    apply IH in H. simpl in H. destruct H as [H1 [ext H2]]. split.
    + rewrite H1, map_app. simpl. rewrite <- app_assoc. reflexivity.
    + exists ((x, DInt z) :: ext). rewrite H2, <- app_assoc. reflexivity.
Qed.

Lemma run_constants_app : forall d1 d2 st,
  run_constants st (d1 ++ d2) = bind (run_constants st d1) (fun st1 => run_constants st1 d2).
Proof.
  induction d1 as [|[x b] r IH]; simpl; intros d2 st; [reflexivity|].
  destruct (beval_impl (st_vars st) b); simpl; [apply IH | reflexivity].
Qed.

(* A constant that is defined once is evaluated in the environment of the definitions that precede it, and every
   later reference (in the final environment) resolves to that value. *)
Theorem consts_resolve :
  forall st defs1 x b defs2 st',
    run_constants st (defs1 ++ (x, b) :: defs2) = Ok st' ->
    ~ In x (map fst (st_vars st)) -> ~ In x (map fst defs1) ->
    exists st1 z, run_constants st defs1 = Ok st1 /\ beval_impl (st_vars st1) b = Ok z /\
                  lookup_var x (st_vars st') = Some (DInt z).
Proof.
  intros st defs1 x b defs2 st' H Hx1 Hx2.
  rewrite run_constants_app in H. destruct (run_constants st defs1) as [st1|k] eqn:E1; simpl in H; [|discriminate].
  destruct (beval_impl (st_vars st1) b) as [z|k] eqn:Eb; simpl in H; [|discriminate].
  exists st1, z. split; [reflexivity|]. split; [assumption|].
  apply run_constants_names in H. simpl in H. destruct H as [_ [ext H]]. rewrite H.
  apply lookup_var_app_some. rewrite lookup_var_app_none.
  - simpl. rewrite N.eqb_refl. reflexivity.
  - apply lookup_var_notin. apply run_constants_names in E1. destruct E1 as [E1 _]. rewrite E1.
    intros Hin. apply in_app_or in Hin. tauto.
Qed.

Example consts_resolve_instance :
  exists st', run_constants st0 [(1%N, BInt (ELit 5)); (2%N, BInt (EBin Add (EVar 1) (ELit 1))); (3%N, BInt (EBin Mul (EVar 2) (EVar 1)))] = Ok st'
              /\ lookup_var 3%N (st_vars st') = Some (DInt 30).
Proof. eexists. split; reflexivity. Qed.

(* ================================================================================================== *)
(** * Statements                                                                                      *)
(* ================================================================================================== *)
Lemma log2_range : forall p lo hi, 0 < p -> 0 <= lo -> 2 ^ lo <= p < 2 ^ hi -> lo <= Z.log2 p < hi.
Proof.
  intros p lo hi Hp Hlo [H1 H2]. split.
  - apply Z.log2_le_pow2; assumption.
  - apply Z.log2_lt_pow2; assumption.
Qed.

Lemma fill_word_spec : forall p, to_opt (fill_word p) = spec_fill_word p.
Proof.
  intros p. unfold fill_word, spec_fill_word.
  destruct (p <? 0) eqn:E0; [reflexivity|]. apply Z.ltb_ge in E0.
  destruct (p =? 0) eqn:Ez.
  - apply Z.eqb_eq in Ez. subst. reflexivity.
  - apply Z.eqb_neq in Ez. assert (Hp : 0 < p) by lia.
    destruct (p <? 256) eqn:E1.
    { apply Z.ltb_lt in E1. pose proof (log2_range p 0 8 Hp ltac:(lia) ltac:(simpl; lia)) as L.
      replace (Z.log2 p / 8 + 1) with 1 by lia. reflexivity. }
    apply Z.ltb_ge in E1. destruct (p <? 65536) eqn:E2.
    { apply Z.ltb_lt in E2. pose proof (log2_range p 8 16 Hp ltac:(lia) ltac:(simpl; lia)) as L.
      replace (Z.log2 p / 8 + 1) with 2 by lia. reflexivity. }
    apply Z.ltb_ge in E2. destruct (p <? 4294967296) eqn:E3.
    { apply Z.ltb_lt in E3. destruct (p <? 16777216) eqn:E4.
      - apply Z.ltb_lt in E4. pose proof (log2_range p 16 24 Hp ltac:(lia) ltac:(simpl; lia)) as L.
        replace (Z.log2 p / 8 + 1) with 3 by lia. reflexivity.
      - apply Z.ltb_ge in E4. pose proof (log2_range p 24 32 Hp ltac:(lia) ltac:(simpl; lia)) as L.
        replace (Z.log2 p / 8 + 1) with 4 by lia. reflexivity. }
    apply Z.ltb_ge in E3.
    assert (L : 32 <= Z.log2 p) by (apply Z.log2_le_pow2; [lia | simpl; lia]).
    remember (Z.log2 p / 8 + 1) as n0. assert (Hn : 5 <= n0) by lia.
    destruct (n0 =? 3) eqn:E5; [apply Z.eqb_eq in E5; lia|].
    destruct (n0 =? 1) eqn:E6; [apply Z.eqb_eq in E6; lia|].
    destruct (n0 =? 2) eqn:E7; [apply Z.eqb_eq in E7; lia|].
    destruct (n0 =? 4) eqn:E8; [apply Z.eqb_eq in E8; lia|]. reflexivity.
Qed.

Lemma bytes_cnt_le4 : forall p, 0 < p -> (bytes_cnt p <=? 4) = (p <? 4294967296).
Proof.
  intros p Hp. unfold bytes_cnt. replace (p =? 0) with false by (symmetry; apply Z.eqb_neq; lia).
  destruct (p <? 4294967296) eqn:E.
  - apply Z.ltb_lt in E. assert (L : 0 <= Z.log2 p < 32).
    { split; [apply Z.log2_nonneg | apply Z.log2_lt_pow2; [lia | simpl; lia]]. }
    apply Z.leb_le. destruct (2 <? Z.log2 p / 8 + 1) eqn:E2; lia.
  - apply Z.ltb_ge in E. assert (L : 32 <= Z.log2 p) by (apply Z.log2_le_pow2; [lia | simpl; lia]).
    apply Z.leb_gt. destruct (2 <? Z.log2 p / 8 + 1) eqn:E2; [lia | apply Z.ltb_ge in E2; lia].
Qed.

Lemma bytes_cnt_le4' : forall v, 0 <= v -> (bytes_cnt v <=? 4) = (v <? 4294967296).
Proof.
  intros v Hv. destruct (Z.eq_dec v 0) as [E|E]; [subst; reflexivity | apply bytes_cnt_le4; lia].
Qed.
Lemma bytes_cnt_le8 : forall v, 0 <= v -> (bytes_cnt v <=? 8) = (v <? 18446744073709551616).
Proof.
  intros v Hv. destruct (Z.eq_dec v 0) as [E|E]; [subst; reflexivity|]. assert (Hp : 0 < v) by lia.
  unfold bytes_cnt. replace (v =? 0) with false by (symmetry; apply Z.eqb_neq; lia).
  destruct (v <? 18446744073709551616) eqn:E1.
  - apply Z.ltb_lt in E1. assert (L : 0 <= Z.log2 v < 64).
    { split; [apply Z.log2_nonneg | apply Z.log2_lt_pow2; [lia | simpl; lia]]. }
    apply Z.leb_le. destruct (2 <? Z.log2 v / 8 + 1) eqn:E2; lia.
  - apply Z.ltb_ge in E1. assert (L : 64 <= Z.log2 v) by (apply Z.log2_le_pow2; [lia | simpl; lia]).
    apply Z.leb_gt. destruct (2 <? Z.log2 v / 8 + 1) eqn:E2; [lia | apply Z.ltb_ge in E2; lia].
Qed.

Lemma sev_ev : forall c e, sev c e = to_opt (ev c e).
Proof. intros. unfold sev, ev. symmetry. apply expr_sem. Qed.
Lemma legacy_empty : lookup_legacy "" legacy_mem = None.
Proof. reflexivity. Qed.
Lemma swap32_0 : swap32 0 = 0.
Proof. reflexivity. Qed.

Arguments lookup_legacy : simpl never.
Arguments mem_flags : simpl never.
Arguments u32 : simpl never.
Arguments fill_word : simpl never.
Arguments spec_fill_word : simpl never.
Arguments resolve_keyblob : simpl never.
Arguments load_binary : simpl never.
Arguments lookup_file : simpl never.
Arguments lookup_src : simpl never.
Arguments bytes_cnt : simpl never.
Arguments is_ext_mem : simpl never.
Arguments Z.land : simpl never.
Arguments Z.shiftl : simpl never.
Arguments Z.shiftr : simpl never.
Arguments Z.modulo : simpl never.
Arguments align_zeros : simpl never.
Arguments swap32 : simpl never.
Arguments be_dec : simpl never.
Arguments le_enc : simpl never.

Ltac destruct_evs :=
  repeat match goal with
         | |- context [ev ?c ?e] => let v := fresh "v" in let k := fresh "k" in destruct (ev c e) as [v|k]
         end.
Ltac zsubst :=
  repeat match goal with
         | H : (?v =? ?w) = true |- _ => apply Z.eqb_eq in H; subst
         | H : negb (?v =? ?w) = false |- _ => apply negb_false_iff in H; apply Z.eqb_eq in H; subst
         end.
Ltac use_names :=
  repeat match goal with
         | H : String.eqb ?s "" = false |- context [String.eqb ?s ""] => rewrite H
         end.
Ltac crunch :=
  repeat (simpl; use_names;
    match goal with
    | |- context [match lookup_legacy ?s ?l with _ => _ end] => destruct (lookup_legacy s l) as [[?|]|]
    | |- context [if ?b then _ else _] => destruct b eqn:?; zsubst
    end); simpl; try reflexivity; try discriminate.
Ltac boolfin :=
  repeat match goal with
   | H : negb _ = true |- _ => apply negb_true_iff in H
   | H : negb _ = false |- _ => apply negb_false_iff in H
   | H : _ && _ = true |- _ => apply andb_true_iff in H; destruct H
   | H : _ && _ = false |- _ => apply andb_false_iff in H; destruct H
   | H : _ || _ = false |- _ => apply orb_false_iff in H; destruct H
   | H : _ || _ = true |- _ => apply orb_true_iff in H; destruct H
   | H : (_ <? _) = true |- _ => apply Z.ltb_lt in H
   | H : (_ <? _) = false |- _ => apply Z.ltb_ge in H
   | H : (_ <=? _) = true |- _ => apply Z.leb_le in H
   | H : (_ <=? _) = false |- _ => apply Z.leb_gt in H
   | H : (_ =? _) = true |- _ => apply Z.eqb_eq in H
   | H : (_ =? _) = false |- _ => apply Z.eqb_neq in H
  end; try congruence; try lia.
Lemma mem_flags_0 : mem_flags 0 = 0.
Proof. reflexivity. Qed.
Ltac fin := crunch; try rewrite mem_flags_0; try reflexivity; boolfin.
(* a memory option written as a name: the empty name is not syntax (both sides have no command for it) *)
Ltac names :=
  repeat match goal with
         | |- context [String.eqb ?s ""] =>
             let E := fresh "Ename" in destruct (String.eqb s "") eqn:E; [apply String.eqb_eq in E; subst; rewrite ?legacy_empty | ]
         end.
Ltac prep c :=
  unfold stmt_spec, spec_mem, spec_target, spec_arg, spec_data; repeat rewrite sev_ev;
  unfold compile_impl, stmt_dict, d_load, d_memopt, d_target, d_callarg, d_ldata; names; destruct_evs; simpl; try reflexivity.
Ltac run_helper :=
  unfold helper; simpl; unfold run_handler; simpl;
  unfold h_erase, h_enable, h_jump, h_call, h_version, h_keystore, h_fill, h_load, h_prog, h_keywrap, h_encrypt,
         dint, opt_mem_id, get_mem_id, cmd_load, cmd_prog, guard, truthy; use_names.

Lemma st_erase : forall c fs kbs o t,
   to_opt (compile_impl c fs kbs (SErase o t)) = stmt_spec c fs kbs (SErase o t).
Proof.
  intros c fs kbs o t. destruct o as [|s|e]; destruct t as [e1|e1 e2].
  all: prep c.
  all: run_helper; fin.
Qed.
Lemma st_erase_all : forall c fs kbs o,
   to_opt (compile_impl c fs kbs (SEraseAll o)) = stmt_spec c fs kbs (SEraseAll o).
Proof.
  intros c fs kbs o. destruct o as [|s|e].
  all: prep c.
  all: run_helper; fin.
Qed.
Lemma st_enable : forall c fs kbs o e,
   to_opt (compile_impl c fs kbs (SEnable o e)) = stmt_spec c fs kbs (SEnable o e).
Proof.
  intros c fs kbs o e0. destruct o as [|s|e].
  all: prep c.
  all: run_helper; fin.
Qed.
Lemma st_call : forall c fs kbs j t a,
   to_opt (compile_impl c fs kbs (SCall j t a)) = stmt_spec c fs kbs (SCall j t a).
Proof.
  intros c fs kbs j t a. destruct j; destruct a as [| |e].
  all: prep c.
  all: run_helper; fin.
Qed.
Lemma st_jump_sp : forall c fs kbs sp t a,
   to_opt (compile_impl c fs kbs (SJumpSp sp t a)) = stmt_spec c fs kbs (SJumpSp sp t a).
Proof.
  intros c fs kbs sp t a. destruct a as [| |e].
  all: prep c.
  all: run_helper; fin.
Qed.
Lemma st_version : forall c fs kbs n e,
   to_opt (compile_impl c fs kbs (SVersionCheck n e)) = stmt_spec c fs kbs (SVersionCheck n e).
Proof.
  intros c fs kbs n e.
  all: prep c.
  all: run_helper; fin.
Qed.
Lemma st_reset : forall c fs kbs, to_opt (compile_impl c fs kbs SReset) = stmt_spec c fs kbs SReset.
Proof. reflexivity. Qed.

Lemma ext_mem_cases : forall m, is_ext_mem m = true -> In m ext_mem_tags.
Proof.
  intros m H. unfold is_ext_mem in H. apply existsb_exists in H. destruct H as [x [Hin Hx]].
  apply Z.eqb_eq in Hx. subst. assumption.
Qed.
Lemma ext_mem_flags : forall m, is_ext_mem m = true -> m <= 255 -> Z.land (Z.shiftl m 8) 65280 = Z.shiftl m 8.
Proof.
  intros m H1 H2. apply ext_mem_cases in H1. unfold ext_mem_tags in H1. simpl in H1.
  repeat (destruct H1 as [H1|H1]; [subst; try reflexivity; try lia|]). contradiction.
Qed.
Lemma ext_mem_pos : forall m, is_ext_mem m = true -> 0 < m.
Proof.
  intros m H1. apply ext_mem_cases in H1. unfold ext_mem_tags in H1. simpl in H1.
  repeat (destruct H1 as [H1|H1]; [subst; lia|]). contradiction.
Qed.

Lemma st_keystore : forall c fs kbs b o t,
   to_opt (compile_impl c fs kbs (SKeystore b o t)) = stmt_spec c fs kbs (SKeystore b o t).
Proof.
  intros c fs kbs b o t. destruct o as [|s|e]; destruct t as [e1|e1 e2].
  all: prep c.
  all: destruct b; run_helper; crunch.
  all: boolfin.
  all: try (rewrite ext_mem_flags by (assumption || lia); reflexivity).
  all: try (exfalso; match goal with H : is_ext_mem ?v = true |- _ => pose proof (ext_mem_pos _ H); lia end).
Qed.

Lemma st_keywrap : forall c fs kbs id b a,
   to_opt (compile_impl c fs kbs (SKeywrap id b a)) = stmt_spec c fs kbs (SKeywrap id b a).
Proof.
  intros c fs kbs id b a.
  prep c. run_helper. simpl.
  destruct (resolve_keyblob kbs v) as [k|k]; simpl; [|reflexivity].
  fin.
Qed.

Lemma st_fill : forall c fs kbs e t,
   to_opt (compile_impl c fs kbs (SLoad MNone (LPattern e) t)) = stmt_spec c fs kbs (SLoad MNone (LPattern e) t).
Proof.
  intros c fs kbs e t. destruct t as [e1|e1 e2].
  all: prep c.
  all: run_helper; simpl.
  all: rewrite <- fill_word_spec; destruct (fill_word v) as [w|k]; fin.
Qed.

Lemma st_prog : forall c fs kbs o e t, o <> MNone ->
   to_opt (compile_impl c fs kbs (SLoad o (LPattern e) t)) = stmt_spec c fs kbs (SLoad o (LPattern e) t).
Proof.
  intros c fs kbs o e t Ho. destruct o as [|s|eo]; [congruence| |]; destruct t as [e1|e1 e2].
  all: prep c.
  all: run_helper; simpl.
  all: try match goal with |- context [bytes_cnt ?p] => destruct (Z.ltb_spec 0 p); [rewrite (bytes_cnt_le4 p) by assumption|] end.
  all: unfold u32; fin.
  all: exfalso; match goal with H: 0 < ?p, H': 4 < bytes_cnt ?p |- _ =>
         let X := fresh "X" in pose proof (bytes_cnt_le4 p H) as X; apply Z.leb_gt in H'; rewrite H' in X; symmetry in X; apply Z.ltb_ge in X; lia end.
Qed.

Lemma st_loadfile : forall c fs kbs o p t,
   to_opt (compile_impl c fs kbs (SLoad o (LFile p) t)) = stmt_spec c fs kbs (SLoad o (LFile p) t).
Proof.
  intros c fs kbs o p t. destruct o as [|s|eo]; destruct t as [e1|e1 e2].
  all: prep c.
  all: destruct p as [|p0 p']; simpl.
  all: run_helper; simpl; unfold load_binary.
  all: try (destruct (lookup_file (p0 :: p') fs) as [bytes|]); fin.
Qed.
Lemma st_loadsrc : forall c fs kbs o x t,
   to_opt (compile_impl c fs kbs (SLoad o (LSource x) t)) = stmt_spec c fs kbs (SLoad o (LSource x) t).
Proof.
  intros c fs kbs o x t. destruct o as [|s|eo]; destruct t as [e1|e1 e2].
  all: prep c.
  all: destruct (lookup_src x (srcs c)) as [p|]; simpl; try reflexivity.
  all: try (destruct p as [|p0 p']; simpl).
  all: run_helper; simpl; unfold load_binary.
  all: try (destruct (lookup_file (p0 :: p') fs) as [bytes|]); fin.
Qed.

Lemma be_dec_nonneg : forall b, 0 <= Z.of_N (be_dec b).
Proof. intros. apply N2Z.is_nonneg. Qed.

Arguments h_prog : simpl never.
Arguments cmd_prog : simpl never.
Arguments spec_prog_blob : simpl never.

Lemma cmd_prog_4 : forall addr w1 w2,
  to_opt (cmd_prog addr 4 w1 w2) =
  obind (guard (u32 addr && u32 w1 && u32 w2)) (fun _ => Some (mk 10 (Z.lor (b2z (negb (w2 =? 0))) 1024) addr w1 w2 PNone 4)).
Proof.
  intros. unfold cmd_prog, guard. simpl.
  destruct (u32 addr), (u32 w1), (u32 w2); reflexivity.
Qed.

Lemma h_prog_blob : forall d addr m b0 b',
  dget "address" d = Some (DInt addr) -> dget "load_opt" d = Some m -> get_mem_id m = Ok 4 ->
  dget "values" d = Some (DBlob (b0 :: b')) ->
  to_opt (h_prog d) = spec_prog_blob addr (b0 :: b').
Proof.
  intros d addr m b0 b' Ha Hm Hg Hv. unfold h_prog, spec_prog_blob. rewrite Ha, Hm, Hv. cbn [dint bind]. rewrite Hg.
  cbn [bind truthy List.length Nat.eqb negb].
  rewrite (bytes_cnt_le4' _ (be_dec_nonneg (b0 :: b'))), (bytes_cnt_le8 _ (be_dec_nonneg (b0 :: b'))), swap32_0.
  generalize (Z.of_N (be_dec (b0 :: b'))). intros v. cbv zeta.
  destruct (v <? 4294967296).
  - rewrite cmd_prog_4. reflexivity.
  - destruct (v <? 18446744073709551616); [rewrite cmd_prog_4|]; reflexivity.
Qed.

Ltac crunch_hprog :=
  repeat (simpl; use_names;
    match goal with
    | |- context [match lookup_legacy ?s ?l with _ => _ end] => destruct (lookup_legacy s l) as [[?|]|] eqn:?
    | |- context [if ?b then _ else _] => destruct b eqn:?; zsubst
    end); simpl; try reflexivity; try discriminate.

Lemma st_blob : forall c fs kbs o b t,
   to_opt (compile_impl c fs kbs (SLoad o (LBlob b) t)) = stmt_spec c fs kbs (SLoad o (LBlob b) t).
Proof.
  intros c fs kbs o b t. destruct o as [|s|eo]; destruct t as [e1|e1 e2].
  all: prep c.
  all: destruct b as [|b0 b']; simpl.
  all: unfold helper; simpl; unfold run_handler; simpl.
  all: unfold h_load, dint, opt_mem_id, get_mem_id, cmd_load, guard, truthy; use_names; simpl.
  all: crunch_hprog; try rewrite mem_flags_0; try reflexivity.
  (* what is left: the fuse / ifr programming branch, h_prog still folded *)
  all: try (erewrite h_prog_blob; [reflexivity | reflexivity | reflexivity | | reflexivity]).
  all: try reflexivity.
  all: try (unfold get_mem_id; match goal with H : lookup_legacy ?s legacy_mem = _ |- _ => rewrite H; reflexivity end).
  all: boolfin.
Qed.

Ltac enc_fin :=
  repeat (simpl; use_names;
    match goal with
    | |- context [if ?b then _ else _] => destruct b eqn:?; zsubst
    end); simpl; try rewrite mem_flags_0; intros; try reflexivity; try discriminate; boolfin.

Lemma st_encrypt : forall c fs kbs id o d t,
   to_opt (compile_impl c fs kbs (SEncrypt id o d t)) = stmt_spec c fs kbs (SEncrypt id o d t).
Proof.
  intros c fs kbs id o d t. destruct d as [e|p|x|b]; destruct o as [|s|eo]; destruct t as [e1|e1 e2].
  all: prep c.
  all: try (destruct (lookup_src x (srcs c)) as [p|]; simpl; try reflexivity).
  all: try (destruct p as [|p0 p']; simpl).
  all: try (destruct b as [|b0 b']; simpl).
  all: run_helper; simpl; unfold load_binary.
  all: try (destruct (lookup_file (p0 :: p') fs) as [bytes|]); simpl; try reflexivity.
  all: try (destruct (resolve_keyblob kbs v) as [k|k] eqn:Ek; simpl; try reflexivity).
  all: enc_fin.
Qed.

Theorem stmt_sem :
  forall c fs kbs s, to_opt (compile_impl c fs kbs s) = stmt_spec c fs kbs s.
Proof.
  intros c fs kbs s. destruct s as [o d t|o t|o| |o e|j t a|sp t a| |n e|b o t|id b a|id o d t].
  - destruct d as [e|p|x|b].
    + destruct o as [|s|eo]; [apply st_fill | apply st_prog; discriminate | apply st_prog; discriminate].
    + apply st_loadfile.
    + apply st_loadsrc.
    + apply st_blob.
  - apply st_erase.
  - apply st_erase_all.
  - reflexivity.
  - apply st_enable.
  - apply st_call.
  - apply st_jump_sp.
  - apply st_reset.
  - apply st_version.
  - apply st_keystore.
  - apply st_keywrap.
  - apply st_encrypt.
Qed.

(* whatever SPSDK accepts is the specified command: never mis-translated *)
Theorem stmt_never_mistranslated :
  forall c fs kbs s cmd, compile_impl c fs kbs s = Ok cmd -> stmt_spec c fs kbs s = Some cmd.
Proof. intros c fs kbs s cmd H. rewrite <- stmt_sem. rewrite H. reflexivity. Qed.

(* statements of every kind that compile to a command, and the witnesses of the repaired defects *)
Example stmt_instances :
  let c := {| vars := [(1%N, DInt 4096)]; srcs := [(2%N, [102%N])] |} in
  let fs := [([102%N], [1%N; 2%N; 3%N])] in
  let kbs := [(0, [("start", DInt 134221824); ("end", DInt 134226943); ("key", DStr (repeat 48%N 32)); ("counter", DStr (repeat 48%N 16))])] in
  forallb (fun s => is_ok (compile_impl c fs kbs s))
    [SLoad MNone (LPattern (EBin Add (EVar 1) (ESize (ELit 4386) SzH))) (TRange (ELit 8192) (EBin Mul (ELit 3) (EVar 1)));
     SLoad (MName "fuse") (LPattern (ELit 1)) (TAddr (ELit 16777608));
     SLoad (MName "fuse") (LBlob [136; 153; 170; 187; 204; 221; 238; 255]%N) (TAddr (ELit 16777608));
     SLoad (MName "sdcard") (LSource 2) (TAddr (ELit 134218120)); SLoad (MAt (ELit 288)) (LFile [102%N]) (TAddr (ELit 16));
     SLoad MNone (LBlob [255; 46; 144; 7; 119; 95; 29; 32]%N) (TAddr (ELit 2684354560));
     SErase (MAt (ELit 288)) (TRange (ELit 134221824) (ELit 134247588)); SEraseAll (MAt (ELit 8)); SEraseUnsecureAll;
     SEnable (MAt (ELit 9)) (ELit 1097728); SCall true (ELit 4294901760) (AArg (ELit 5)); SCall false (ELit 256) (AArg (ELit 5));
     SJumpSp (ELit 536874496) (ELit 4096) AEmpty; SReset;
     SVersionCheck true (ELit 2); SKeystore true (MAt (ELit 9)) (TAddr (ELit 134219776));
     SKeywrap (ELit 0) (repeat 1%N 16) (ELit 134217728); SEncrypt (ELit 0) MNone (LSource 2) (TAddr (ELit 134222848))] = true
  /\ option_map c_payload (to_opt (compile_impl c fs kbs (SLoad MNone (LBlob [170; 187; 204; 221]%N) (TAddr (ELit 256)))))
       = Some (PBytes [170; 187; 204; 221]%N)
  /\ option_map (fun x => (c_count x, c_data x)) (to_opt (compile_impl c fs kbs (SLoad (MName "fuse") (LBlob [136; 153; 170; 187; 204; 221; 238; 255]%N) (TAddr (ELit 16777608)))))
       = Some (3148519816, 4293844428)         (* 0xBBAA9988, 0xFFEEDDCC: as in legacy_real_example3.sb *)
  /\ (exists k cc d, option_map c_payload (to_opt (compile_impl c fs kbs (SEncrypt (ELit 0) MNone (LSource 2) (TAddr (ELit 134222848)))))
       = Some (PEnc k cc 134221824 134226943 false 134222848 134222848 d)).
Proof. simpl. split; [vm_compute; reflexivity|]. split; [vm_compute; reflexivity|]. split; [vm_compute; reflexivity|].
  eexists. eexists. eexists. vm_compute. reflexivity. Qed.

(* ================================================================================================== *)
(** * Unsupported constructs                                                                          *)
(* ================================================================================================== *)
Theorem unsupported_refused : forall u, unsupported_outcome u = Err 1%N.
Proof. intros u. destruct u; vm_compute; reflexivity. Qed.

Lemma mapM_all_ok {A B} (f : A -> res B) : forall l r, mapM f l = Ok r -> forall a, In a l -> exists b, f a = Ok b.
Proof.
  induction l as [|x t IH]; simpl; intros r H a Ha; [contradiction|].
  destruct (f x) as [b|k] eqn:E; simpl in H; [|discriminate].
  destruct (mapM f t) as [bs|k] eqn:E2; simpl in H; [|discriminate].
  destruct Ha as [Ha|Ha]; [subst; exists b; assumption | eapply IH; [reflexivity | assumption]].
Qed.

(* a configuration in which some section carries options is never turned into commands *)
Theorem section_options_refused_by_load :
  forall fs cf sec, In sec (cf_sections cf) -> cs_opts sec <> [] -> is_ok (load_config fs cf) = false.
Proof.
  intros fs cf sec Hin Hne. unfold load_config. destruct (cf_opts cf); [|reflexivity].
  destruct (mapM _ (cf_sections cf)) as [r|k] eqn:E; [|reflexivity].
  destruct (mapM_all_ok _ _ _ E sec Hin) as [b Hb]. destruct (cs_opts sec); [congruence|].
  rewrite section_options_are_refused in Hb. discriminate.
Qed.

(* ================================================================================================== *)
(** * Key blobs resolve to their definitions                                                          *)
(* ================================================================================================== *)
Lemma find_keyblob_unique : forall kbs id c, NoDup (map fst kbs) -> In (id, c) kbs -> find_keyblob id kbs = Some c.
Proof.
  induction kbs as [|[i d] t IH]; simpl; intros id c Hnd Hin; [contradiction|].
  inversion Hnd as [|x l Hni Hnd']; subst.
  destruct Hin as [H|H].
  - inversion H; subst. rewrite Z.eqb_refl. reflexivity.
  - destruct (i =? id) eqn:E.
    + apply Z.eqb_eq in E. subst. exfalso. apply Hni. change id with (fst (id, c)). apply in_map. assumption.
    + apply IH; assumption.
Qed.

Theorem keyblob_resolves :
  forall kbs id c s e k ct kb cb,
    NoDup (map fst kbs) -> In (id, c) kbs ->
    dget "start" c = Some (DInt s) -> dget "end" c = Some (DInt e) ->
    dget "key" c = Some (DStr k) -> dget "counter" c = Some (DStr ct) ->
    fromhex k = Some kb -> fromhex ct = Some cb -> List.length kb = 16%nat -> List.length cb = 8%nat ->
    0 <= s <= e -> e <= 4294967295 -> Z.land s 1023 = 0 ->
    resolve_keyblob kbs id =
      Ok {| kb_start := s; kb_end := e; kb_key := kb; kb_ctr := cb; kb_swap := truthy (dget "byte_swap" c) |}.
Proof.
  intros kbs id c s e k ct kb cb Hnd Hin Hs He Hk Hc Hkb Hcb Lk Lc Hr He2 Hal.
  unfold resolve_keyblob. rewrite (find_keyblob_unique kbs id c Hnd Hin).
  unfold dhas. rewrite Hs, He, Hk, Hc. simpl. rewrite Hkb, Hcb, Lk, Lc. simpl.
  replace (s <? 0) with false by (symmetry; apply Z.ltb_ge; lia).
  replace (e <? s) with false by (symmetry; apply Z.ltb_ge; lia).
  replace (4294967295 <? e) with false by (symmetry; apply Z.ltb_ge; lia).
  simpl. rewrite Hal. reflexivity.
Qed.

(* ================================================================================================== *)
(** * One statement, one command                                                                      *)
(* ================================================================================================== *)
Lemma mapM_length {A B} (f : A -> res B) : forall l r, mapM f l = Ok r -> List.length r = List.length l.
Proof.
  induction l as [|a t IH]; simpl; intros r H.
  - inversion H. reflexivity.
  - destruct (f a) as [b|k]; simpl in H; [|discriminate].
    destruct (mapM f t) as [bs|k]; simpl in H; [|discriminate]. inversion H. simpl. f_equal. apply IH. reflexivity.
Qed.

Lemma mapM_Forall2 {A B} (f : A -> res B) (P : A -> B -> Prop) :
  (forall a b, f a = Ok b -> P a b) -> forall l r, mapM f l = Ok r -> Forall2 P l r.
Proof.
  intros HP. induction l as [|a t IH]; simpl; intros r H.
  - inversion H. constructor.
  - destruct (f a) as [b|k] eqn:E; simpl in H; [|discriminate].
    destruct (mapM f t) as [bs|k]; simpl in H; [|discriminate]. inversion H. constructor; [apply HP; assumption | apply IH; reflexivity].
Qed.

(* load_from_config: when it succeeds, every section of the configuration yields one section of commands and every
   statement dictionary of a section yields exactly one command, in order; and parsing keeps one dictionary per statement *)
Theorem exactly_one_command :
  (forall fs cf l, load_config fs cf = Ok l ->
     Forall2 (fun sec cmds => List.length cmds = List.length (cs_cmds sec)) (cf_sections cf) l) /\
  (forall p cf, parse_program p = Ok cf ->
     Forall2 (fun s sec => List.length (cs_cmds sec) = List.length (sec_stmts s)) (p_sections p) (cf_sections cf)).
Proof.
  split.
  - intros fs cf l H. unfold load_config in H. destruct (cf_opts cf); [|discriminate].
    eapply mapM_Forall2; [|exact H]. intros sec cmds Hc. simpl in Hc.
    destruct (cs_opts sec); [eapply mapM_length; exact Hc | first [discriminate Hc | eapply mapM_length; exact Hc]].
  - intros p cf H. unfold parse_program in H.
    destruct (run_blocks (p_extern p) st0 (p_blocks p)) as [st|k]; simpl in H; [|discriminate].
    destruct (mapM _ (p_sections p)) as [secs|k] eqn:E; simpl in H; [|discriminate]. inversion H. simpl.
    eapply mapM_Forall2; [|exact E]. intros s sec Hs. unfold parse_section in Hs.
    destruct (eval_impl _ (sec_id s)); simpl in Hs; [|discriminate].
    destruct (mapM _ (sec_opts s)); simpl in Hs; [|discriminate].
    destruct (mapM _ (sec_stmts s)) as [ds|k] eqn:E2; simpl in Hs; [|discriminate]. inversion Hs. simpl. eapply mapM_length. exact E2.
Qed.

(* ================================================================================================== *)
(** * Quoted literals end at the first closing quote                                                  *)
(* ================================================================================================== *)
Lemma scan_quoted_plain : forall q body rest acc, plain q body = true ->
  scan_quoted q (body ++ q :: rest) acc = Some (rev acc ++ body, rest).
Proof.
  intros q body. induction body as [|c t IH]; simpl; intros rest acc H.
  - rewrite N.eqb_refl, app_nil_r. reflexivity.
  - apply andb_true_iff in H. destruct H as [Hc Ht]. apply andb_true_iff in Hc. destruct Hc as [H1 H2].
    apply negb_true_iff in H1. apply negb_true_iff in H2. rewrite H1, H2.
    rewrite IH by assumption. simpl. rewrite <- app_assoc. reflexivity.
Qed.

(* two quoted literals on one line are two literals: lexing `q body1 q mid q body2 q rest` yields body1 and leaves
   `mid q body2 q rest`, from which (after mid) body2 is read the same way *)
Theorem quoted_literals_separate :
  forall q body1 mid body2 rest, plain q body1 = true -> plain q body2 = true ->
    lex_quoted q (q :: body1 ++ q :: mid ++ q :: body2 ++ q :: rest) = Some (body1, mid ++ q :: body2 ++ q :: rest) /\
    lex_quoted q (q :: body2 ++ q :: rest) = Some (body2, rest).
Proof.
  intros q body1 mid body2 rest H1 H2. unfold lex_quoted. rewrite N.eqb_refl. split.
  - rewrite scan_quoted_plain by assumption. reflexivity.
  - rewrite scan_quoted_plain by assumption. reflexivity.
Qed.

(* ================================================================================================== *)
(** * The printer is inverted by the precedence parser                                                *)
(* ================================================================================================== *)
Lemma lvl_pos : forall o, (1 <= lvl o)%nat.
Proof. destruct o; vm_compute; lia. Qed.
Opaque lvl size_lvl unary_lvl.

Definition stops (m : nat) (ts : list token) : Prop :=
  match ts with
  | TSize _ :: _ => (size_lvl < m)%nat
  | TOp o :: _ => (lvl o < m)%nat
  | _ => True
  end.

Lemma stops_mono : forall m m' ts, (m <= m')%nat -> stops m ts -> stops m' ts.
Proof. intros m m' [|[z|x|o| | |s] t] H; simpl; intros; try exact I; lia. Qed.

Lemma loop_stops : forall pe n m lhs ts, stops m ts -> parse_loop pe (S n) m lhs ts = Some (lhs, ts).
Proof.
  intros pe n m lhs [|[z|x|o| | |s] t] H; simpl in *; try reflexivity.
  - replace (Nat.leb m (lvl o)) with false by (symmetry; apply Nat.leb_gt; assumption). reflexivity.
  - replace (Nat.leb m size_lvl) with false by (symmetry; apply Nat.leb_gt; assumption). reflexivity.
Qed.

Definition pe_le (p q : operand_parser) : Prop := forall m ts r, p m ts = Some r -> q m ts = Some r.

Lemma atom_mono : forall p q ts r, pe_le p q -> parse_atom p ts = Some r -> parse_atom q ts = Some r.
Proof.
  intros p q ts r H. destruct ts as [|[z|x|o| | |s] t]; simpl; try (intros; assumption).
  - destruct o; try (intros; assumption).
    + destruct (p (S unary_lvl) t) as [[e r']|] eqn:E; [|discriminate]. rewrite (H _ _ _ E). auto.
    + destruct (p (S unary_lvl) t) as [[e r']|] eqn:E; [|discriminate]. rewrite (H _ _ _ E). auto.
  - destruct (p 0%nat t) as [[e r']|] eqn:E; [|discriminate]. rewrite (H _ _ _ E). auto.
Qed.

Lemma loop_mono : forall p q, pe_le p q -> forall n n' m lhs ts r, (n <= n')%nat ->
  parse_loop p n m lhs ts = Some r -> parse_loop q n' m lhs ts = Some r.
Proof.
  intros p q H. induction n as [|n IH]; intros n' m lhs ts r Hn; simpl; [discriminate|].
  destruct n' as [|n']; [lia|]. simpl.
  destruct ts as [|[z|x|o| | |s] t]; try (intros; assumption).
  - destruct (Nat.leb m (lvl o) && negb (Nat.eqb (lvl o) 0)); [|auto].
    destruct (p (S (lvl o)) t) as [[rhs r']|] eqn:E; [|discriminate]. rewrite (H _ _ _ E). apply IH. lia.
  - destruct (Nat.leb m size_lvl); [|auto]. apply IH. lia.
Qed.

Lemma expr_mono : forall f f', (f <= f')%nat -> pe_le (parse_expr f) (parse_expr f').
Proof.
  induction f as [|f IH]; intros f' Hf m ts r; simpl; [discriminate|].
  destruct f' as [|f']; [lia|]. simpl. assert (Hle : pe_le (parse_expr f) (parse_expr f')) by (apply IH; lia).
  destruct (parse_atom (parse_expr f) ts) as [[a r']|] eqn:E; [|discriminate].
  rewrite (atom_mono _ _ _ _ Hle E). apply loop_mono; [assumption | lia].
Qed.

Lemma expr_S : forall f m ts, parse_expr (S f) m ts =
  match parse_atom (parse_expr f) ts with None => None | Some (a, r) => parse_loop (parse_expr f) f m a r end.
Proof. reflexivity. Qed.
Lemma loop_op : forall pe n m lhs o r, (m <= lvl o)%nat ->
  parse_loop pe (S n) m lhs (TOp o :: r) =
  match pe (S (lvl o)) r with Some (rhs, r') => parse_loop pe n m (EBin o lhs rhs) r' | None => None end.
Proof.
  intros. simpl. replace (Nat.leb m (lvl o)) with true by (symmetry; apply Nat.leb_le; assumption).
  replace (Nat.eqb (lvl o) 0) with false by (symmetry; apply Nat.eqb_neq; pose proof (lvl_pos o); lia). reflexivity.
Qed.
Lemma loop_size : forall pe n m lhs s r, (m <= size_lvl)%nat ->
  parse_loop pe (S n) m lhs (TSize s :: r) = parse_loop pe n m (ESize lhs s) r.
Proof.
  intros. simpl. replace (Nat.leb m size_lvl) with true by (symmetry; apply Nat.leb_le; assumption). reflexivity.
Qed.
Lemma atom_num : forall pe z r, parse_atom pe (TNum z :: r) = Some (ELit z, r).
Proof. reflexivity. Qed.
Lemma atom_id : forall pe x r, parse_atom pe (TId x :: r) = Some (EVar x, r).
Proof. reflexivity. Qed.
Lemma atom_lp : forall pe r, parse_atom pe (TLp :: r) =
  match pe 0%nat r with Some (e, TRp :: r') => Some (e, r') | _ => None end.
Proof. reflexivity. Qed.
Lemma atom_neg : forall pe r, parse_atom pe (TOp Sub :: r) =
  match pe (S unary_lvl) r with Some (e, r') => Some (ENeg e, r') | None => None end.
Proof. reflexivity. Qed.
Lemma atom_pos : forall pe r, parse_atom pe (TOp Add :: r) =
  match pe (S unary_lvl) r with Some (e, r') => Some (EPos e, r') | None => None end.
Proof. reflexivity. Qed.
Arguments parse_expr : simpl never.
Arguments parse_loop : simpl never.
Arguments parse_atom : simpl never.

Fixpoint cost (m : nat) (e : expr) : nat :=
  match e with
  | ELit _ | EVar _ => 1
  | EBin o a b => let c := cost (lvl o) a + cost (S (lvl o)) b + 2 in if Nat.leb m (lvl o) then c else c + 2
  | ENeg a | EPos a => cost (S unary_lvl) a + 4
  | ESize a s => let c := cost size_lvl a + 2 in if Nat.leb m size_lvl then c else c + 2
  end%nat.

Lemma app_assoc' {A} (a b c : list A) : (a ++ b) ++ c = a ++ (b ++ c).
Proof. symmetry. apply app_assoc. Qed.

Lemma parse_print_loop : forall e, canonical e = true -> forall m k rest F r,
  (k <= m)%nat -> stops (S m) rest ->
  parse_loop (parse_expr F) F k e rest = Some r ->
  parse_expr (S (F + cost m e)) k (print_at m e ++ rest) = Some r.
Proof.
  induction e as [z|x|o a IHa b IHb|a IHa|a IHa|a IHa s]; intros Hc m k rest F r Hk Hst Hl.
  - (* literal *)
    simpl in Hc. apply Z.leb_le in Hc. simpl print_at.
    replace (z <? 0)%Z with false by (symmetry; apply Z.ltb_ge; assumption). simpl app.
    rewrite expr_S, atom_num. eapply loop_mono; [apply expr_mono| |exact Hl]; lia.
  - simpl print_at. simpl app. rewrite expr_S, atom_id. eapply loop_mono; [apply expr_mono| |exact Hl]; lia.
  - (* binary *)
    simpl in Hc. apply andb_true_iff in Hc. destruct Hc as [Hca Hcb].
    assert (Hnp : forall m k rest F r, (m <= lvl o)%nat -> (k <= m)%nat -> stops (S m) rest ->
              parse_loop (parse_expr F) F k (EBin o a b) rest = Some r ->
              parse_expr (S (F + (cost (lvl o) a + cost (S (lvl o)) b + 2))) k
                         ((print_at (lvl o) a ++ TOp o :: print_at (S (lvl o)) b) ++ rest) = Some r).
    { clear m k rest F r Hk Hst Hl. intros m k rest F r Hm Hk Hst Hl.
      rewrite app_assoc'. simpl app.
      replace (S (F + (cost (lvl o) a + cost (S (lvl o)) b + 2)))
        with (S ((F + cost (S (lvl o)) b + 2) + cost (lvl o) a)) by lia.
      apply (IHa Hca (lvl o) k (TOp o :: print_at (S (lvl o)) b ++ rest) (F + cost (S (lvl o)) b + 2)%nat r); [lia | simpl; lia |].
      replace (F + cost (S (lvl o)) b + 2)%nat with (S (F + cost (S (lvl o)) b + 1)) by lia.
      rewrite loop_op by lia.
      assert (Hb : parse_expr (S (F + cost (S (lvl o)) b + 1)) (S (lvl o)) (print_at (S (lvl o)) b ++ rest) = Some (b, rest)).
      { replace (S (F + cost (S (lvl o)) b + 1)) with (S ((F + 1) + cost (S (lvl o)) b)) by lia.
        apply (IHb Hcb (S (lvl o)) (S (lvl o)) rest (F + 1)%nat (b, rest)); [lia | eapply stops_mono; [|exact Hst]; lia |].
        replace (F + 1)%nat with (S F) by lia. apply loop_stops. eapply stops_mono; [|exact Hst]. lia. }
      rewrite Hb.
      eapply loop_mono; [apply expr_mono| |exact Hl]; lia. }
    simpl print_at. simpl cost. destruct (Nat.leb m (lvl o)) eqn:Em.
    + apply Nat.leb_le in Em. apply (Hnp m); assumption.
    + (* parenthesised *)
      unfold paren. simpl app. rewrite app_assoc'. simpl app.
      replace (S (F + (cost (lvl o) a + cost (S (lvl o)) b + 2 + 2)))
        with (S (S ((F + 1) + (cost (lvl o) a + cost (S (lvl o)) b + 2)))) by lia.
      rewrite expr_S, atom_lp.
      rewrite (Hnp 0%nat 0%nat (TRp :: rest) (F + 1)%nat (EBin o a b, TRp :: rest)); [| lia | lia | exact I |].
      * eapply loop_mono; [apply expr_mono| |exact Hl]; lia.
      * replace (F + 1)%nat with (S F) by lia. apply loop_stops. exact I.
  - (* unary minus *)
    simpl in Hc. simpl print_at. simpl cost. unfold paren. simpl app. rewrite app_assoc'. simpl app.
    replace (S (F + (cost (S unary_lvl) a + 4))) with (S (S (S ((F + 2) + cost (S unary_lvl) a)))) by lia.
    remember (S ((F + 2) + cost (S unary_lvl) a)) as G.
    assert (Ha : parse_expr G (S unary_lvl) (print_at (S unary_lvl) a ++ TRp :: rest) = Some (a, TRp :: rest)).
    { subst G. apply (IHa Hc (S unary_lvl) (S unary_lvl) (TRp :: rest) (F + 2)%nat (a, TRp :: rest)); [lia | exact I |].
      replace (F + 2)%nat with (S (F + 1)) by lia. apply loop_stops. exact I. }
    rewrite expr_S, atom_lp, expr_S, atom_neg, Ha.
    rewrite HeqG at 2. rewrite loop_stops by exact I.
    eapply loop_mono; [apply expr_mono| |exact Hl]; lia.
  - (* unary plus *)
    simpl in Hc. simpl print_at. simpl cost. unfold paren. simpl app. rewrite app_assoc'. simpl app.
    replace (S (F + (cost (S unary_lvl) a + 4))) with (S (S (S ((F + 2) + cost (S unary_lvl) a)))) by lia.
    remember (S ((F + 2) + cost (S unary_lvl) a)) as G.
    assert (Ha : parse_expr G (S unary_lvl) (print_at (S unary_lvl) a ++ TRp :: rest) = Some (a, TRp :: rest)).
    { subst G. apply (IHa Hc (S unary_lvl) (S unary_lvl) (TRp :: rest) (F + 2)%nat (a, TRp :: rest)); [lia | exact I |].
      replace (F + 2)%nat with (S (F + 1)) by lia. apply loop_stops. exact I. }
    rewrite expr_S, atom_lp, expr_S, atom_pos, Ha.
    rewrite HeqG at 2. rewrite loop_stops by exact I.
    eapply loop_mono; [apply expr_mono| |exact Hl]; lia.
  - (* size suffix: a postfix operator of level size_lvl (0 when PERIOD has no precedence) *)
    simpl in Hc.
    assert (Hnp : forall m k rest F r, (m <= size_lvl)%nat -> (k <= m)%nat ->
              parse_loop (parse_expr F) F k (ESize a s) rest = Some r ->
              parse_expr (S (F + (cost size_lvl a + 2))) k ((print_at size_lvl a ++ [TSize s]) ++ rest) = Some r).
    { clear m k rest F r Hk Hst Hl. intros m k rest F r Hm Hk Hl.
      rewrite app_assoc'. simpl app.
      replace (S (F + (cost size_lvl a + 2))) with (S ((F + 2) + cost size_lvl a)) by lia.
      apply (IHa Hc size_lvl k (TSize s :: rest) (F + 2)%nat r); [lia | simpl; lia |].
      replace (F + 2)%nat with (S (F + 1)) by lia. rewrite loop_size by lia.
      eapply loop_mono; [apply expr_mono| |exact Hl]; lia. }
    simpl print_at. simpl cost. destruct (Nat.leb m size_lvl) eqn:Em.
    + apply Nat.leb_le in Em. apply (Hnp m); assumption.
    + unfold paren. simpl app. rewrite app_assoc'. simpl app.
      replace (S (F + (cost size_lvl a + 2 + 2))) with (S (S ((F + 1) + (cost size_lvl a + 2)))) by lia.
      rewrite expr_S, atom_lp.
      rewrite (Hnp 0%nat 0%nat (TRp :: rest) (F + 1)%nat (ESize a s, TRp :: rest)); [| lia | lia |].
      * eapply loop_mono; [apply expr_mono| |exact Hl]; lia.
      * replace (F + 1)%nat with (S F) by lia. apply loop_stops. exact I.
Qed.

Lemma cost_le_length : forall e m, (cost m e <= 2 * List.length (print_at m e))%nat.
Proof.
  induction e as [z|x|o a IHa b IHb|a IHa|a IHa|a IHa s]; intros m; simpl.
  - destruct (z <? 0)%Z; simpl; lia.
  - lia.
  - specialize (IHa (lvl o)). specialize (IHb (S (lvl o))).
    destruct (Nat.leb m (lvl o)); unfold paren; simpl; repeat rewrite app_length; simpl; repeat rewrite app_length; simpl; lia.
  - specialize (IHa (S unary_lvl)). unfold paren. simpl. rewrite app_length. simpl. lia.
  - specialize (IHa (S unary_lvl)). unfold paren. simpl. rewrite app_length. simpl. lia.
  - specialize (IHa size_lvl).
    destruct (Nat.leb m size_lvl); unfold paren; simpl; repeat rewrite app_length; simpl; repeat rewrite app_length; simpl; lia.
Qed.

Theorem print_parse : forall e, canonical e = true -> parse_tokens (print_expr e) = Some e.
Proof.
  intros e Hc. unfold parse_tokens, print_expr.
  assert (H : parse_expr (S (1 + cost 0 e)) 0 (print_at 0 e ++ []) = Some (e, [])).
  { apply parse_print_loop; [assumption | lia | exact I | reflexivity]. }
  rewrite app_nil_r in H.
  assert (Hf : (S (1 + cost 0 e) <= 2 * List.length (print_at 0 e) + 2)%nat) by (pose proof (cost_le_length e 0%nat); lia).
  rewrite (expr_mono _ _ Hf _ _ _ H). reflexivity.
Qed.

Example print_parse_instance :
  canonical (EBin Mul (EBin Mul (ELit 2) (ENeg (ELit 3))) (ESize (EBin Add (ELit 4) (EVar 1)) SzB)) = true /\
  parse_tokens (print_expr (EBin Sub (ELit 1) (EBin Sub (ELit 2) (ELit 3)))) = Some (EBin Sub (ELit 1) (EBin Sub (ELit 2) (ELit 3))).
Proof. split; vm_compute; reflexivity. Qed.
