(* Proofs/BdProofs.v -- lemmas about Model/BdModel.v over the tables of Gen/GenBd.v (C19). *)
From Coq Require Import String Ascii ZArith NArith List Bool Lia Arith.
Require Import Value Bytes GenBd BdModel.
Import ListNotations.
Local Open Scope string_scope.
Local Open Scope list_scope.
Local Open Scope Z_scope.
Ltac Zify.zify_post_hook ::= Z.to_euclidean_division_equations.

(* ================================================================================================== *)
(** * Tables                                                                                          *)
(* ================================================================================================== *)
Definition std_py (o : binop) : pyop :=
  match o with
  | Add => PyAdd | Sub => PySub | Mul => PyMult | Div => PyFloorDiv | Mod => PyMod | Shl => PyLShift
  | Shr => PyRShift | BAnd => PyBitAnd | BOr => PyBitOr | BXor => PyBitXor
  end.

Lemma expr_table_standard : forall o, lookup_op (binop_text o) expr_ops = Some (std_py o, false).
Proof. destruct o; reflexivity. Qed.

Definition std_cmp (o : cmpop) : pyop :=
  match o with CLt => PyLt | CLe => PyLtE | CGt => PyGt | CGe => PyGtE | CEq => PyEq | CNe => PyNotEq end.

Lemma bool_table_standard : forall o, lookup_op (cmpop_text o) bool_ops = Some (std_cmp o, false).
Proof. destruct o; reflexivity. Qed.
Lemma bool_table_and : lookup_op "&&" bool_ops = Some (PyAnd, false).
Proof. reflexivity. Qed.
Lemma bool_table_or : lookup_op "||" bool_ops = Some (PyOr, false).
Proof. reflexivity. Qed.
Lemma unary_minus_negates : str_in "-" unary_negating = true.
Proof. reflexivity. Qed.
Lemma unary_plus_identity : str_in "+" unary_negating = false.
Proof. reflexivity. Qed.
Lemma period_not_in_chain : lookup_op "." expr_ops = None.
Proof. reflexivity. Qed.

Lemma prec_table_documented : precedence = documented_precedence.
Proof. reflexivity. Qed.

Lemma forallb_In {A} (f : A -> bool) l : forallb f l = true -> forall x, In x l -> f x = true.
Proof. intros H x Hx. rewrite forallb_forall in H. auto. Qed.

Definition has_row (tbl : list (string * pyop * bool)) (t : string) : bool :=
  match lookup_op t tbl with Some _ => true | None => false end.

Lemma every_operator_production_has_a_row :
  (forall t, In t expr_binary_tokens -> exists r, lookup_op t expr_ops = Some r) /\
  (forall t, In t bool_binary_tokens -> exists r, lookup_op t bool_ops = Some r) /\
  (forall o, In (binop_text o) expr_binary_tokens) /\
  (forall o, In (cmpop_text o) bool_binary_tokens) /\
  In "&&" bool_binary_tokens /\ In "||" bool_binary_tokens /\
  unary_tokens = ["+"; "-"].
Proof.
  assert (H1 : forallb (has_row expr_ops) expr_binary_tokens = true) by (vm_compute; reflexivity).
  assert (H2 : forallb (has_row bool_ops) bool_binary_tokens = true) by (vm_compute; reflexivity).
  repeat split.
  - intros t Ht. pose proof (forallb_In _ _ H1 t Ht) as H. unfold has_row in H.
    destruct (lookup_op t expr_ops) as [r|]; [exists r; reflexivity | discriminate].
  - intros t Ht. pose proof (forallb_In _ _ H2 t Ht) as H. unfold has_row in H.
    destruct (lookup_op t bool_ops) as [r|]; [exists r; reflexivity | discriminate].
  - destruct o; vm_compute; tauto.
  - destruct o; vm_compute; tauto.
  - vm_compute; tauto.
  - vm_compute; tauto.
Qed.

Arguments binop_text : simpl never.
Arguments cmpop_text : simpl never.
Arguments isize_text : simpl never.
Arguments lookup_op : simpl never.
Arguments lookup_mask : simpl never.
Arguments str_in : simpl never.

(* ================================================================================================== *)
(** * Integer expressions                                                                             *)
(* ================================================================================================== *)
Lemma apply_std_spec : forall o a b, to_opt (apply_py (std_py o) a b) = spec_binop o a b.
Proof.
  intros o a b; destruct o; simpl; try reflexivity.
  - destruct (b =? 0); reflexivity.
  - destruct (b =? 0); reflexivity.
  - destruct (b <? 0) eqn:E; [reflexivity|]. simpl. rewrite Z.shiftl_mul_pow2 by lia. reflexivity.
  - destruct (b <? 0) eqn:E; [reflexivity|]. simpl. rewrite Z.shiftr_div_pow2 by lia. reflexivity.
Qed.

Lemma to_opt_bind {A B} (r : res A) (f : A -> res B) :
  to_opt (bind r f) = obind (to_opt r) (fun a => to_opt (f a)).
Proof. destruct r; reflexivity. Qed.

Theorem expr_sem_except_known :
  forall env e, no_size e = true -> to_opt (eval_impl env e) = eval_spec env e.
Proof.
  intros env e. induction e as [z|x|o a IHa b IHb|a IHa|a IHa|a IHa s]; simpl; intros H.
  - reflexivity.
  - destruct (lookup_var x env) as [[z|s|s|b]|]; reflexivity.
  - apply andb_true_iff in H. destruct H as [Ha Hb].
    rewrite to_opt_bind, (IHa Ha). destruct (eval_spec env a) as [va|]; simpl; [|reflexivity].
    rewrite to_opt_bind, (IHb Hb). destruct (eval_spec env b) as [vb|]; simpl; [|reflexivity].
    rewrite expr_table_standard. simpl. apply apply_std_spec.
  - rewrite to_opt_bind, (IHa H). destruct (eval_spec env a); simpl; [|reflexivity].
    try rewrite unary_minus_negates; reflexivity.
  - rewrite to_opt_bind, (IHa H). destruct (eval_spec env a); simpl; [|reflexivity].
    try rewrite unary_plus_identity; reflexivity.
  - discriminate.
Qed.

(* the integer-size suffixes: masks 0xFFFF / 0xFF / 0xF instead of word / half-word / byte, and the suffix binds
   looser than every operator: 0xa.b + 0xb.b reads as (0xa.b + 0xb).b *)
Theorem size_suffix_refuted :
  (exists env e, to_opt (eval_impl env e) <> eval_spec env e) /\
  eval_impl [] (ESize (ELit 85) SzB) = Ok 5 /\ eval_spec [] (ESize (ELit 85) SzB) = Some 85 /\
  eval_impl [] (ESize (ELit 4386) SzH) = Ok 34 /\ eval_spec [] (ESize (ELit 4386) SzH) = Some 4386 /\
  parse_tokens [TNum 10; TSize SzB; TOp Add; TNum 11; TSize SzB]
    = Some (ESize (EBin Add (ESize (ELit 10) SzB) (ELit 11)) SzB).
Proof.
  repeat split; try (vm_compute; reflexivity).
  exists [], (ESize (ELit 85) SzB). vm_compute. intros H; discriminate H.
Qed.

Theorem division_is_c_division_on_naturals :
  forall a b, 0 <= a -> 0 < b ->
    spec_binop Div a b = Some (Z.quot a b) /\ spec_binop Mod a b = Some (Z.rem a b).
Proof.
  intros a b Ha Hb. simpl. replace (b =? 0) with false by (symmetry; apply Z.eqb_neq; lia).
  rewrite Z.quot_div_nonneg, Z.rem_mod_nonneg by lia. split; reflexivity.
Qed.

(* ================================================================================================== *)
(** * Boolean expressions                                                                             *)
(* ================================================================================================== *)
Lemma b2z_01 : forall b, b2z b = 0 \/ b2z b = 1.
Proof. destruct b; simpl; auto. Qed.

Lemma apply_cmp_spec : forall o a b, apply_py (std_cmp o) a b = Ok (b2z (spec_cmp o a b)).
Proof. destruct o; reflexivity. Qed.

Lemma and4 : forall a b c d, a && b && c && d = true -> a = true /\ b = true /\ c = true /\ d = true.
Proof. intros [] [] [] []; simpl; intros; auto; discriminate. Qed.

Lemma shaped_value_01 : forall env b v,
  bclean b = true -> bool_shaped b = true -> beval_impl env b = Ok v -> v = 0 \/ v = 1.
Proof.
  intros env b. induction b as [e|o a IHa c IHc|a IHa c IHc|a IHa c IHc|a IHa|x]; intros v Hc Hs Hv; simpl in *.
  - destruct e; try discriminate. simpl in Hv. inversion Hv; subst.
    apply orb_true_iff in Hs. destruct Hs as [H|H]; apply Z.eqb_eq in H; auto.
  - destruct (beval_impl env a) as [va|]; simpl in Hv; [|discriminate].
    destruct (beval_impl env c) as [vc|]; simpl in Hv; [|discriminate].
    rewrite bool_table_standard in Hv. simpl in Hv. rewrite apply_cmp_spec in Hv. inversion Hv. apply b2z_01.
  - apply and4 in Hc. destruct Hc as (Hca & Hcc & Hsa & Hsc).
    destruct (beval_impl env a) as [va|] eqn:Ea; simpl in Hv; [|discriminate].
    destruct (beval_impl env c) as [vc|] eqn:Ec; simpl in Hv; [|discriminate].
    try rewrite bool_table_and in Hv. simpl in Hv. inversion Hv.
    destruct (va =? 0); [eapply IHa | eapply IHc]; eauto.
  - apply and4 in Hc. destruct Hc as (Hca & Hcc & Hsa & Hsc).
    destruct (beval_impl env a) as [va|] eqn:Ea; simpl in Hv; [|discriminate].
    destruct (beval_impl env c) as [vc|] eqn:Ec; simpl in Hv; [|discriminate].
    try rewrite bool_table_or in Hv. simpl in Hv. inversion Hv.
    destruct (va =? 0); [eapply IHc | eapply IHa]; eauto.
  - destruct (beval_impl env a) as [va|]; simpl in Hv; [|discriminate]. inversion Hv. apply b2z_01.
  - discriminate.
Qed.

Theorem bool_sem_except_known :
  forall env b, bclean b = true -> to_opt (beval_impl env b) = beval_spec env b.
Proof.
  intros env b. induction b as [e|o a IHa c IHc|a IHa c IHc|a IHa c IHc|a IHa|x]; simpl; intros H.
  - apply expr_sem_except_known; assumption.
  - apply andb_true_iff in H. destruct H as [Ha Hc].
    rewrite to_opt_bind, (IHa Ha). destruct (beval_spec env a) as [va|]; simpl; [|reflexivity].
    rewrite to_opt_bind, (IHc Hc). destruct (beval_spec env c) as [vc|]; simpl; [|reflexivity].
    rewrite bool_table_standard. simpl. rewrite apply_cmp_spec. reflexivity.
  - apply and4 in H. destruct H as (Ha & Hc & H1 & H0).
    rewrite to_opt_bind. specialize (IHa Ha). specialize (IHc Hc).
    destruct (beval_impl env a) as [va|] eqn:Ea; simpl in *; rewrite <- IHa; simpl; [|reflexivity].
    rewrite to_opt_bind.
    destruct (beval_impl env c) as [vc|] eqn:Ec; simpl in *; rewrite <- IHc; simpl; [|reflexivity].
    try rewrite bool_table_and; simpl.
    destruct (shaped_value_01 env a va Ha H1 Ea) as [?|?], (shaped_value_01 env c vc Hc H0 Ec) as [?|?]; subst; reflexivity.
  - apply and4 in H. destruct H as (Ha & Hc & H1 & H0).
    rewrite to_opt_bind. specialize (IHa Ha). specialize (IHc Hc).
    destruct (beval_impl env a) as [va|] eqn:Ea; simpl in *; rewrite <- IHa; simpl; [|reflexivity].
    rewrite to_opt_bind.
    destruct (beval_impl env c) as [vc|] eqn:Ec; simpl in *; rewrite <- IHc; simpl; [|reflexivity].
    try rewrite bool_table_or; simpl.
    destruct (shaped_value_01 env a va Ha H1 Ea) as [?|?], (shaped_value_01 env c vc Hc H0 Ec) as [?|?]; subst; reflexivity.
  - rewrite to_opt_bind, (IHa H). destruct (beval_spec env a); reflexivity.
  - discriminate.
Qed.

(* non-vacuity: a clean boolean expression with nested logical operators *)
Example bclean_instance :
  bclean (BOrL (BCmp CLt (BInt (ELit 1)) (BInt (EBin Add (ELit 2) (EVar 1)))) (BNot (BAndL (BInt (ELit 1)) (BCmp CEq (BInt (ELit 4)) (BInt (ELit 4)))))) = true.
Proof. reflexivity. Qed.

(* defined(x) is False for a defined x *)
Theorem defined_refuted :
  exists env x, is_defined env x = true /\ beval_impl env (BDefined x) = Ok 0 /\ beval_spec env (BDefined x) = Some 1.
Proof. exists [(7%N, DInt 1)], 7%N. repeat split. Qed.

(* a && b / a || b yield an operand, not a truth value: (2 && 3) == 1 is false *)
Theorem logical_value_refuted :
  beval_impl [] (BAndL (BInt (ELit 2)) (BInt (ELit 3))) = Ok 3 /\
  beval_spec [] (BAndL (BInt (ELit 2)) (BInt (ELit 3))) = Some 1 /\
  beval_impl [] (BCmp CEq (BAndL (BInt (ELit 2)) (BInt (ELit 3))) (BInt (ELit 1))) = Ok 0 /\
  beval_spec [] (BCmp CEq (BAndL (BInt (ELit 2)) (BInt (ELit 3))) (BInt (ELit 1))) = Some 1 /\
  beval_impl [] (BOrL (BInt (ELit 0)) (BInt (ELit 5))) = Ok 5.
Proof. repeat split. Qed.

(* ================================================================================================== *)
(** * Constants resolve to their definitions                                                          *)
(* ================================================================================================== *)
Lemma lookup_var_app_some : forall x e1 e2 v, lookup_var x e1 = Some v -> lookup_var x (e1 ++ e2) = Some v.
Proof.
  induction e1 as [|[y w] t IH]; simpl; intros e2 v H; [discriminate|].
  destruct (N.eqb x y); [assumption | apply IH; assumption].
Qed.

Lemma lookup_var_app_none : forall x e1 e2, lookup_var x e1 = None -> lookup_var x (e1 ++ e2) = lookup_var x e2.
Proof.
  induction e1 as [|[y w] t IH]; simpl; intros e2 H; [reflexivity|].
  destruct (N.eqb x y); [discriminate | apply IH; assumption].
Qed.

Lemma lookup_var_notin : forall x e, ~ In x (map fst e) -> lookup_var x e = None.
Proof.
  induction e as [|[y w] t IH]; simpl; intros H; [reflexivity|].
  destruct (N.eqb x y) eqn:E.
  - apply N.eqb_eq in E. subst. exfalso. apply H. left. reflexivity.
  - apply IH. intros Hin. apply H. right. assumption.
Qed.

Lemma run_constants_names : forall defs st st',
  run_constants st defs = Ok st' ->
  map fst (st_vars st') = map fst (st_vars st) ++ map fst defs /\ exists ext, st_vars st' = st_vars st ++ ext.
Proof.
  induction defs as [|[x b] r IH]; simpl; intros st st' H.
  - inversion H; subst. rewrite app_nil_r. split; [reflexivity | exists []; rewrite app_nil_r; reflexivity].
  - destruct (beval_impl (st_vars st) b) as [z|k]; simpl in H; [|discriminate].
    apply IH in H. simpl in H. destruct H as [H1 [ext H2]]. split.
    + rewrite H1, map_app. simpl. rewrite <- app_assoc. reflexivity.
    + exists ((x, DInt z) :: ext). rewrite H2, <- app_assoc. reflexivity.
Qed.

Lemma run_constants_app : forall d1 d2 st,
  run_constants st (d1 ++ d2) = bind (run_constants st d1) (fun st1 => run_constants st1 d2).
Proof.
  induction d1 as [|[x b] r IH]; simpl; intros d2 st; [reflexivity|].
  destruct (beval_impl (st_vars st) b); simpl; [apply IH | reflexivity].
Qed.

(* A constant that is defined once is evaluated in the environment of the definitions that precede it, and every
   later reference (in the final environment) resolves to that value. *)
Theorem consts_resolve :
  forall st defs1 x b defs2 st',
    run_constants st (defs1 ++ (x, b) :: defs2) = Ok st' ->
    ~ In x (map fst (st_vars st)) -> ~ In x (map fst defs1) ->
    exists st1 z, run_constants st defs1 = Ok st1 /\ beval_impl (st_vars st1) b = Ok z /\
                  lookup_var x (st_vars st') = Some (DInt z).
Proof.
  intros st defs1 x b defs2 st' H Hx1 Hx2.
  rewrite run_constants_app in H. destruct (run_constants st defs1) as [st1|k] eqn:E1; simpl in H; [|discriminate].
  destruct (beval_impl (st_vars st1) b) as [z|k] eqn:Eb; simpl in H; [|discriminate].
  exists st1, z. split; [reflexivity|]. split; [assumption|].
  apply run_constants_names in H. simpl in H. destruct H as [_ [ext H]]. rewrite H.
  apply lookup_var_app_some. rewrite lookup_var_app_none.
  - simpl. rewrite N.eqb_refl. reflexivity.
  - apply lookup_var_notin. apply run_constants_names in E1. destruct E1 as [E1 _]. rewrite E1.
    intros Hin. apply in_app_or in Hin. tauto.
Qed.

Example consts_resolve_instance :
  exists st', run_constants st0 [(1%N, BInt (ELit 5)); (2%N, BInt (EBin Add (EVar 1) (ELit 1))); (3%N, BInt (EBin Mul (EVar 2) (EVar 1)))] = Ok st'
              /\ lookup_var 3%N (st_vars st') = Some (DInt 30).
Proof. eexists. split; reflexivity. Qed.

(* ================================================================================================== *)
(** * Statements                                                                                      *)
(* ================================================================================================== *)
Lemma log2_range : forall p lo hi, 0 < p -> 0 <= lo -> 2 ^ lo <= p < 2 ^ hi -> lo <= Z.log2 p < hi.
Proof.
  intros p lo hi Hp Hlo [H1 H2]. split.
  - apply Z.log2_le_pow2; assumption.
  - apply Z.log2_lt_pow2; assumption.
Qed.

Lemma fill_word_spec : forall p, to_opt (fill_word p) = spec_fill_word p.
Proof.
  intros p. unfold fill_word, spec_fill_word.
  destruct (p <? 0) eqn:E0; [reflexivity|]. apply Z.ltb_ge in E0.
  destruct (p =? 0) eqn:Ez.
  - apply Z.eqb_eq in Ez. subst. reflexivity.
  - apply Z.eqb_neq in Ez. assert (Hp : 0 < p) by lia.
    destruct (p <? 256) eqn:E1.
    { apply Z.ltb_lt in E1. pose proof (log2_range p 0 8 Hp ltac:(lia) ltac:(simpl; lia)) as L.
      replace (Z.log2 p / 8 + 1) with 1 by lia. reflexivity. }
    apply Z.ltb_ge in E1. destruct (p <? 65536) eqn:E2.
    { apply Z.ltb_lt in E2. pose proof (log2_range p 8 16 Hp ltac:(lia) ltac:(simpl; lia)) as L.
      replace (Z.log2 p / 8 + 1) with 2 by lia. reflexivity. }
    apply Z.ltb_ge in E2. destruct (p <? 4294967296) eqn:E3.
    { apply Z.ltb_lt in E3. destruct (p <? 16777216) eqn:E4.
      - apply Z.ltb_lt in E4. pose proof (log2_range p 16 24 Hp ltac:(lia) ltac:(simpl; lia)) as L.
        replace (Z.log2 p / 8 + 1) with 3 by lia. reflexivity.
      - apply Z.ltb_ge in E4. pose proof (log2_range p 24 32 Hp ltac:(lia) ltac:(simpl; lia)) as L.
        replace (Z.log2 p / 8 + 1) with 4 by lia. reflexivity. }
    apply Z.ltb_ge in E3.
    assert (L : 32 <= Z.log2 p) by (apply Z.log2_le_pow2; [lia | simpl; lia]).
    remember (Z.log2 p / 8 + 1) as n0. assert (Hn : 5 <= n0) by lia.
    destruct (n0 =? 3) eqn:E5; [apply Z.eqb_eq in E5; lia|].
    destruct (n0 =? 1) eqn:E6; [apply Z.eqb_eq in E6; lia|].
    destruct (n0 =? 2) eqn:E7; [apply Z.eqb_eq in E7; lia|].
    destruct (n0 =? 4) eqn:E8; [apply Z.eqb_eq in E8; lia|]. reflexivity.
Qed.

Lemma bytes_cnt_le4 : forall p, 0 < p -> (bytes_cnt p <=? 4) = (p <? 4294967296).
Proof.
  intros p Hp. unfold bytes_cnt. replace (p =? 0) with false by (symmetry; apply Z.eqb_neq; lia).
  destruct (p <? 4294967296) eqn:E.
  - apply Z.ltb_lt in E. assert (L : 0 <= Z.log2 p < 32).
    { split; [apply Z.log2_nonneg | apply Z.log2_lt_pow2; [lia | simpl; lia]]. }
    apply Z.leb_le. destruct (2 <? Z.log2 p / 8 + 1) eqn:E2; lia.
  - apply Z.ltb_ge in E. assert (L : 32 <= Z.log2 p) by (apply Z.log2_le_pow2; [lia | simpl; lia]).
    apply Z.leb_gt. destruct (2 <? Z.log2 p / 8 + 1) eqn:E2; [lia | apply Z.ltb_ge in E2; lia].
Qed.

Lemma sev_ev : forall c e, no_size e = true -> sev c e = to_opt (ev c e).
Proof. intros. unfold sev, ev. symmetry. apply expr_sem_except_known. assumption. Qed.
