(* Proofs/Ahab2Proofs.v -- lemmas about Model/Ahab2Model.v (C06, container version 2). *)
From Coq Require Import ZArith NArith List Bool Lia ZifyBool.
Require Import Value Bytes BytesProofs Sha2 Aes Modes CryptoProofs GenMisc GenAhab AhabModel AhabProofs Ahab2Model.
Import ListNotations.
Local Open Scope Z_scope.
Ltac Zify.zify_post_hook ::= Z.to_euclidean_division_equations.

(* ------------------------------------------------------------------ lengths *)
Lemma srk_data_bytes_len id d : zlen' (srk_data_bytes id d) = srk_data_len d.
Proof. unfold srk_data_bytes, srk_data_len, zlen'. rewrite !app_length, !le_length. lia. Qed.

Lemma srk_array_bytes_len a : zlen' (srk_array_bytes a) = srk_array_len a.
Proof.
  unfold srk_array_bytes, srk_array_len. pose proof (srk_table_bytes_len true (srk_table_len (a_recs a)) (a_recs a)) as T.
  pose proof (srk_data_bytes_len (a_used a) (used_data a)) as D. unfold zlen' in *. rewrite !app_length, !le_length. lia.
Qed.

Lemma srk_array_len_pos a : 20 <= srk_array_len a.
Proof. unfold srk_array_len, srk_data_len, zlen'. pose proof (srk_table_len_pos (a_recs a)). lia. Qed.

(* ------------------------------------------------------------------ the signature block is the plain concatenation of its parts *)
Lemma py_set_next (pre d : list N) a n m :
  length pre = a -> length d = n -> (n <= m)%nat ->
  py_set (pre ++ repeat 0%N m) a (a + n) d = (pre ++ d) ++ repeat 0%N (m - n).
Proof.
  intros Ha Hn Hm. unfold py_set. rewrite firstn_app_exact by assumption.
  replace (Nat.max a (a + n)) with (n + length pre)%nat by lia.
  rewrite <- skipn_skipn'. rewrite skipn_app_exact by reflexivity. rewrite <- app_assoc. f_equal. f_equal.
  clear -Hm. revert m Hm. induction n as [|n IH]; intros m Hm; [now rewrite Nat.sub_0_r|].
  destruct m as [|m]; [lia|]. cbn [repeat skipn]. apply IH. lia.
Qed.

Lemma place_next (pre d : list N) off len m :
  zlen' pre = off -> zlen' d = len -> (length d <= m)%nat ->
  place (pre ++ repeat 0%N m) off len d = (pre ++ d) ++ repeat 0%N (m - length d).
Proof.
  intros Ho Hl Hm. unfold place, zlen' in *. subst off len.
  rewrite Nat2Z.id. replace (Z.to_nat (Z.of_nat (length pre) + Z.of_nat (length d))) with (length pre + length d)%nat by lia.
  now apply py_set_next.
Qed.

Lemma sigblock_header_len v sb : length (sigblock_header v sb) = 16%nat.
Proof. unfold sigblock_header. rewrite !app_length, !le_length. reflexivity. Qed.

(* arithmetic of SignatureBlockV2.update_fields for a signed container *)
Lemma sigblock2_update_facts ar s bl :
  let sb := sigblock2_update (Some ar) (Some s) bl in
  sb_srk_off sb = 16 /\ sb_sig_off sb = 16 + srk_array_len ar /\ sb_sig sb = Some s /\ sb_sig_length sb = 8 + zlen' s /\
  sb_blob sb = bl /\ sb_srk sb = a_recs ar /\
  match bl with
  | Some b => sb_blob_off sb = 16 + srk_array_len ar + 8 + zlen' s /\ sb_length sb = 16 + srk_array_len ar + 8 + zlen' s + b_length b
  | None => sb_blob_off sb = 0 /\ sb_length sb = 16 + srk_array_len ar + 8 + zlen' s
  end.
Proof.
  destruct bl as [b|]; unfold sigblock2_update;
    cbn [sb_length sb_srk_off sb_sig_off sb_blob_off sb_sig sb_sig_length sb_blob sb_srk]; repeat split; lia.
Qed.

Lemma sigblock2_bytes_concat ar s bl :
  blob_ok bl ->
  let sb := sigblock2_update (Some ar) (Some s) bl in
  sigblock2_bytes sb (Some ar)
  = sigblock_header true sb ++ srk_array_bytes ar ++ signature_bytes (8 + zlen' s) s
    ++ match bl with Some b => blob_bytes b | None => [] end.
Proof.
  intros Hb sb. destruct (sigblock2_update_facts ar s bl) as (F1 & F2 & F3 & F4 & F5 & F6 & F7). fold sb in F1, F2, F3, F4, F5, F6, F7.
  unfold sigblock2_bytes. rewrite F3, F5, F1, F2, F4.
  pose proof (srk_array_bytes_len ar) as LA. pose proof (signature_bytes_len (8 + zlen' s) s) as LS.
  pose proof (sigblock_header_len true sb) as LH. pose proof (srk_array_len_pos ar) as AP.
  set (H := sigblock_header true sb) in *. set (A := srk_array_bytes ar) in *. set (S := signature_bytes (8 + zlen' s) s) in *.
  assert (E1 : forall m, (16 <= m)%nat -> py_set (repeat 0%N m) 0 16 H = H ++ repeat 0%N (m - 16)).
  { intros m Hm. change (repeat 0%N m) with ([] ++ repeat 0%N m). change 16%nat with (0 + 16)%nat at 1.
    rewrite py_set_next by (try reflexivity; assumption). reflexivity. }
  destruct bl as [b|].
  - destruct F7 as [F7 F8]. pose proof (Hb b eq_refl) as LB. rewrite F7, F8.
    rewrite E1 by (unfold zlen' in *; lia).
    rewrite (place_next H A) by (unfold zlen' in *; lia).
    rewrite (place_next (H ++ A) S) by (unfold zlen' in *; rewrite ?app_length; lia).
    rewrite (place_next ((H ++ A) ++ S) (blob_bytes b)) by (unfold zlen' in *; rewrite ?app_length; lia).
    replace (Z.to_nat (16 + srk_array_len ar + 8 + zlen' s + b_length b) - 16 - length A - length S - length (blob_bytes b))%nat
      with 0%nat by (unfold zlen' in *; lia).
    cbn [repeat]. rewrite app_nil_r, <- !app_assoc. reflexivity.
  - destruct F7 as [F7 F8]. rewrite F8.
    rewrite E1 by (unfold zlen' in *; lia).
    rewrite (place_next H A) by (unfold zlen' in *; lia).
    rewrite (place_next (H ++ A) S) by (unfold zlen' in *; rewrite ?app_length; lia).
    replace (Z.to_nat (16 + srk_array_len ar + 8 + zlen' s) - 16 - length A - length S)%nat with 0%nat by (unfold zlen' in *; lia).
    cbn [repeat]. rewrite !app_nil_r, <- !app_assoc. reflexivity.
Qed.

(* AHABContainerV2.export = header ++ image array ++ signature block *)
Lemma container2_bytes_split k :
  0 <= sb_length (c_sb (k_c k)) ->
  exists rest, container2_bytes k = container_head (k_c k) ++ sigblock2_bytes (c_sb (k_c k)) (k_arr k) ++ rest.
Proof.
  intros H. unfold container2_bytes. fold (container_head (k_c k)). pose proof (container_head_length (k_c k)) as LH.
  set (c := k_c k) in *. set (N0 := Z.to_nat (zalign (header_length c) gen_container_alignment)).
  assert (A8 : 0 < gen_container_alignment) by reflexivity.
  assert (HN : (Z.to_nat (sbo c) <= N0)%nat).
  { unfold N0. pose proof (zalign_ge (header_length c) _ A8). unfold header_length in *. rewrite sbo_val in *. unfold zlen' in *. lia. }
  unfold py_set at 2. cbn [firstn app]. rewrite Nat.max_0_l.
  unfold py_set. rewrite firstn_app_exact by assumption. eexists. reflexivity.
Qed.

Definition set_sb2 (k : container2) (sb : sigblock) : container2 := {| k_c := set_sb (k_c k) sb; k_arr := k_arr k |}.

(* ------------------------------------------------------------------ signed range, version 2 *)
Lemma signed_range_v2_l k ar s s' bl :
  k_arr k = Some ar -> c_sb (k_c k) = sigblock2_update (Some ar) (Some s) bl -> blob_ok bl -> length s' = length s ->
  signed_data2 k = container_head (k_c k) ++ sigblock_header true (c_sb (k_c k)) ++ srk_array_bytes ar /\
  signed_data2 (set_sb2 k (sigblock2_update (Some ar) (Some s') bl)) = signed_data2 k /\
  sb_srk_off (c_sb (k_c k)) = 16 /\ sb_sig_off (c_sb (k_c k)) = 16 + srk_array_len ar.
Proof.
  intros Ha Hs Hb Hl.
  assert (SD : forall k0 s0, k_arr k0 = Some ar -> c_sb (k_c k0) = sigblock2_update (Some ar) (Some s0) bl ->
            signed_data2 k0 = container_head (k_c k0) ++ sigblock_header true (c_sb (k_c k0)) ++ srk_array_bytes ar).
  { intros k0 s0 A0 E0. destruct (sigblock2_update_facts ar s0 bl) as (F1 & F2 & F3 & _ & _ & _ & F7). rewrite <- E0 in *.
    pose proof (srk_array_len_pos ar) as AP.
    unfold signed_data2. rewrite F3, A0.
    destruct (container2_bytes_split k0) as [rest ->].
    { destruct bl as [b|]; destruct F7 as [_ F7]; rewrite F7; unfold zlen'; try lia.
      pose proof (Hb b eq_refl) as LB. unfold zlen' in LB. lia. }
    rewrite A0, E0, sigblock2_bytes_concat by assumption. rewrite <- E0.
    pose proof (container_head_length (k_c k0)) as LH. pose proof (srk_array_bytes_len ar) as LA.
    pose proof (sigblock_header_len true (c_sb (k_c k0))) as L16.
    rewrite F2. rewrite Z2Nat.inj_add by (rewrite ?sbo_val; unfold zlen'; lia). rewrite <- LH.
    rewrite firstn_app_2. f_equal.
    match goal with |- firstn _ ?L = _ =>
      replace L with ((sigblock_header true (c_sb (k_c k0)) ++ srk_array_bytes ar) ++
                      (signature_bytes (8 + zlen' s0) s0 ++ match bl with Some b => blob_bytes b | None => [] end) ++ rest)
        by (now rewrite <- !app_assoc) end.
    apply firstn_app_exact. rewrite app_length, L16. unfold zlen' in LA. lia. }
  split; [exact (SD k s Ha Hs)|]. split.
  - rewrite (SD (set_sb2 k (sigblock2_update (Some ar) (Some s') bl)) s' Ha eq_refl), (SD k s Ha Hs).
    unfold set_sb2, container_head, header_bytes, sbo, header_length.
    cbn [k_c set_sb c_sb c_images c_version c_length c_flags c_sw c_fuse]. rewrite Hs.
    destruct bl as [b|]; unfold sigblock_header, sigblock2_update, zlen';
      cbn [sb_length sb_srk_off sb_sig_off sb_cert_off sb_blob_off sb_blob]; rewrite Hl; reflexivity.
  - destruct (sigblock2_update_facts ar s bl) as (F1 & F2 & _). rewrite <- Hs in *. auto.
Qed.

(* ------------------------------------------------------------------ SRK hash = SHA-512 of the exported table *)
Lemma srk_hash_of_exported_table_v2_l k ar s bl :
  k_arr k = Some ar -> c_sb (k_c k) = sigblock2_update (Some ar) (Some s) bl -> blob_ok bl ->
  srk_hash2 ar
  = sha512 (zslice (container2_bytes k) (sbo (k_c k) + sb_srk_off (c_sb (k_c k)) + 8)
                   (sbo (k_c k) + sb_srk_off (c_sb (k_c k)) + 8 + srk_table_len (a_recs ar))).
Proof.
  intros Ha Hs Hb. destruct (sigblock2_update_facts ar s bl) as (F1 & F2 & F3 & _ & _ & _ & F7). rewrite <- Hs in *.
  pose proof (srk_array_len_pos ar) as AP. pose proof (srk_table_len_pos (a_recs ar)) as TP.
  unfold srk_hash2. f_equal.
  destruct (container2_bytes_split k) as [rest ->].
  { destruct bl as [b|]; destruct F7 as [_ F7]; rewrite F7; unfold zlen'; try lia.
    pose proof (Hb b eq_refl) as LB. unfold zlen' in LB. lia. }
  rewrite Ha, Hs, sigblock2_bytes_concat by assumption. rewrite <- Hs. rewrite F1.
  pose proof (container_head_length (k_c k)) as LH. pose proof (sigblock_header_len true (c_sb (k_c k))) as L16.
  pose proof (srk_table_bytes_len true (srk_table_len (a_recs ar)) (a_recs ar)) as LT. unfold zlen' in LT.
  unfold zslice. rewrite !Z2Nat.inj_add by (rewrite ?sbo_val; unfold zlen'; lia). rewrite <- LH.
  set (T := srk_table_bytes true (srk_table_len (a_recs ar)) (a_recs ar)) in *.
  rewrite slice_app_r by lia.
  replace (length (container_head (k_c k)) + Z.to_nat 16 + Z.to_nat 8 - length (container_head (k_c k)))%nat with 24%nat by lia.
  replace (length (container_head (k_c k)) + Z.to_nat 16 + Z.to_nat 8 + Z.to_nat (srk_table_len (a_recs ar))
           - length (container_head (k_c k)))%nat with (24 + length T)%nat by lia.
  set (AH := le 1 gen_version_SRKTableArray ++ le 2 (srk_array_len ar) ++ le 1 gen_tag_srk_array ++ le 1 1 ++ le 2 0 ++ le 1 0).
  assert (LAH : length AH = 8%nat) by (unfold AH; rewrite !app_length, !le_length; reflexivity).
  match goal with |- _ = slice ?L _ _ =>
    replace L with (sigblock_header true (c_sb (k_c k)) ++ AH ++ T ++
                    (srk_data_bytes (a_used ar) (used_data ar) ++ signature_bytes (8 + zlen' s) s ++
                     match bl with Some b => blob_bytes b | None => [] end) ++ rest)
      by (unfold srk_array_bytes, AH; fold T; now rewrite <- !app_assoc) end.
  rewrite slice_app_r by lia. rewrite L16. rewrite slice_app_r by lia. rewrite LAH.
  replace (24 - 16 - 8)%nat with 0%nat by lia. replace (24 + length T - 16 - 8)%nat with (length T) by lia.
  rewrite slice_app_l by lia. symmetry. apply slice_full.
Qed.

(* ------------------------------------------------------------------ every record carries the hash of its SRK data container *)
Lemma srk2_of_keys_nth flags : forall ks ix rds, srk2_of_keys flags ix ks = Ok rds ->
  forall j r d, nth_error rds j = Some (r, d) ->
  exists h, hash_of (sr_hash r) (srk_data_bytes (ix + Z.of_nat j) d) = Ok h /\ sr_params r = h ++ repeat 0%N (64 - length h) /\
            sr_flags r = flags /\ exists key, nth_error ks j = Some key /\ key_data key = Ok d.
Proof.
  induction ks as [|key t IH]; intros ix rds H j r d Hj; cbn [srk2_of_keys] in H.
  - inversion H; subst. destruct j; discriminate.
  - destruct (srk2_of_key flags ix key) as [x|] eqn:E1; [|discriminate]. cbn [bind] in H.
    destruct (srk2_of_keys flags (ix + 1) t) as [xs|] eqn:E2; [|discriminate]. cbn [bind] in H. inversion H; subst rds; clear H.
    destruct j as [|j].
    + cbn in Hj. inversion Hj; subst x; clear Hj. unfold srk2_of_key in E1.
      destruct (key_size_code key) as [ks0|]; [|discriminate].
      destruct (key_data key) as [d0|] eqn:EK; [|discriminate]. cbn [bind] in E1.
      destruct (hash_of (key_hash_tag key) (srk_data_bytes ix d0)) as [h|] eqn:EH; [|discriminate]. cbn [bind] in E1.
      inversion E1; subst. exists h. cbn. rewrite Z.add_0_r. repeat split; try assumption. exists key. auto.
    + cbn in Hj. destruct (IH _ _ E2 j r d Hj) as (h & H1 & H2 & H3 & key' & H4 & H5).
      exists h. replace (ix + Z.of_nat (S j)) with (ix + 1 + Z.of_nat j) by lia. repeat split; try assumption. exists key'. auto.
Qed.

(* ------------------------------------------------------------------ codec round trips of the new records *)
Lemma srk_data_roundtrip_l id d rest :
  fits 2 id = true -> fits 2 (8 + zlen' d) = true ->
  srk_data_parse (srk_data_bytes id d ++ rest) = Ok (id, d).
Proof.
  intros H1 H2. unfold srk_data_parse, head_ok, srk_data_bytes.
  set (l := (le 1 gen_version_SRKData ++ _) ++ rest).
  assert (R0 : rd l 0 1 = gen_version_SRKData) by (apply rd_field; reflexivity).
  assert (R3 : rd l 3 1 = gen_tag_srk_data) by (apply rd_field; reflexivity).
  assert (R1 : rd l 1 2 = 8 + zlen' d) by (apply rd_field; [reflexivity | assumption]).
  assert (R4 : rd l 4 2 = id) by (apply rd_field; [reflexivity | assumption]).
  assert (Ll : zlen' l = 8 + zlen' d + zlen' rest) by (unfold l, zlen'; rewrite !app_length, !le_length; lia).
  rewrite R0, R3, R1, R4. cbn [existsb]. rewrite !Z.eqb_refl. cbn [orb andb].
  replace (Nat.leb 8 (length l)) with true by (symmetry; apply Nat.leb_le; unfold zlen' in Ll; lia).
  replace (8 + zlen' d <=? zlen' l) with true by (symmetry; apply Z.leb_le; unfold zlen' in *; lia). cbn [andb].
  f_equal. f_equal. unfold l.
  change ((le 1 gen_version_SRKData ++ le 2 (8 + zlen' d) ++ le 1 gen_tag_srk_data ++ le 2 id ++ le 1 0 ++ le 1 0 ++ d) ++ rest)
    with ((le 1 gen_version_SRKData ++ le 2 (8 + zlen' d) ++ le 1 gen_tag_srk_data ++ le 2 id ++ le 1 0 ++ le 1 0) ++ d ++ rest).
  rewrite slice_app_r by (rewrite !app_length, !le_length; simpl; lia). rewrite !app_length, !le_length. cbn [Nat.add].
  replace (8 - 8)%nat with 0%nat by lia. replace (Z.to_nat (8 + zlen' d) - 8)%nat with (length d) by (unfold zlen'; lia).
  rewrite slice_app_l by lia. apply slice_full.
Qed.

Lemma srk_array_head_roundtrip_l a rest :
  fits 2 (srk_array_len a) = true ->
  srk_array_head_parse (srk_array_bytes a ++ rest) = Ok (srk_array_len a, 1).
Proof.
  intros H1. unfold srk_array_head_parse, head_ok. pose proof (srk_array_bytes_len a) as LA.
  set (l := srk_array_bytes a ++ rest).
  assert (R0 : rd l 0 1 = gen_version_SRKTableArray) by (apply rd_field; reflexivity).
  assert (R3 : rd l 3 1 = gen_tag_srk_array) by (apply rd_field; reflexivity).
  assert (R1 : rd l 1 2 = srk_array_len a) by (apply rd_field; [reflexivity | assumption]).
  assert (R4 : rd l 4 1 = 1) by (apply rd_field; reflexivity).
  assert (Ll : zlen' l = srk_array_len a + zlen' rest) by (unfold l, zlen' in *; rewrite app_length; lia).
  pose proof (srk_array_len_pos a) as AP.
  rewrite R0, R3, R1, R4. cbn [existsb]. rewrite !Z.eqb_refl. cbn [orb andb].
  replace (Nat.leb 8 (length l)) with true by (symmetry; apply Nat.leb_le; unfold zlen' in Ll; lia).
  replace (srk_array_len a <=? zlen' l) with true by (symmetry; apply Z.leb_le; unfold zlen' in *; lia). reflexivity.
Qed.

Definition srk_rec2_wf (r : srk_rec) : Prop :=
  sr_length r = 76 /\ length (sr_params r) = 64%nat /\ In (sr_alg r) [33; 34; 39; 40; 209; 210] /\
  In (sr_hash r) [0; 1; 2; 3; 4; 5; 6; 8; 9] /\ fits 1 (sr_ksize r) = true /\ fits 1 (sr_flags r) = true.

Lemma existsb_In_Z x l : In x l -> existsb (Z.eqb x) l = true.
Proof. intros H. apply existsb_exists. exists x. split; [assumption|apply Z.eqb_refl]. Qed.

Lemma srk_rec2_roundtrip_l r rest : srk_rec2_wf r -> srk_rec2_parse (srk_rec_bytes r ++ rest) = Ok r.
Proof.
  intros (HL & HP & HA & HH & HK & HF). unfold srk_rec2_parse, srk_rec_bytes. destruct (key_sizes (sr_ksize r)) as [l1 l2].
  set (l := (le 1 gen_tag_srk_record ++ _) ++ rest).
  assert (FA : fits 1 (sr_alg r) = true) by (cbn in HA; repeat (destruct HA as [<-|HA]; [reflexivity|]); destruct HA).
  assert (FH : fits 1 (sr_hash r) = true) by (cbn in HH; repeat (destruct HH as [<-|HH]; [reflexivity|]); destruct HH).
  assert (R0 : rd l 0 1 = gen_tag_srk_record) by (apply rd_field; reflexivity).
  assert (R1 : rd l 1 2 = sr_length r) by (apply rd_field; [reflexivity | rewrite HL; reflexivity]).
  assert (R3 : rd l 3 1 = sr_alg r) by (apply rd_field; [reflexivity | assumption]).
  assert (R4 : rd l 4 1 = sr_hash r) by (apply rd_field; [reflexivity | assumption]).
  assert (R5 : rd l 5 1 = sr_ksize r) by (apply rd_field; [reflexivity | assumption]).
  assert (R7 : rd l 7 1 = sr_flags r) by (apply rd_field; [reflexivity | assumption]).
  assert (Ll : zlen' l = 76 + zlen' rest) by (unfold l, zlen'; rewrite !app_length, !le_length, HP; lia).
  rewrite R0, R1, R3, R4, R5, R7, HL. rewrite Z.eqb_refl.
  rewrite (existsb_In_Z _ _ HA), (existsb_In_Z _ _ HH).
  replace (Nat.leb 12 (length l)) with true by (symmetry; apply Nat.leb_le; unfold zlen' in Ll; lia).
  replace (76 <=? zlen' l) with true by (symmetry; apply Z.leb_le; unfold zlen' in *; lia). cbn [andb negb].
  change (76 <? 64 + 12) with false. cbn iota.
  assert (SP : slice l 12 76 = sr_params r).
  { unfold l.
    change ((le 1 gen_tag_srk_record ++ le 2 (sr_length r) ++ le 1 (sr_alg r) ++ le 1 (sr_hash r) ++ le 1 (sr_ksize r) ++ le 1 0 ++
             le 1 (sr_flags r) ++ (le 2 l1 ++ le 2 l2) ++ sr_params r) ++ rest)
      with ((le 1 gen_tag_srk_record ++ le 2 (sr_length r) ++ le 1 (sr_alg r) ++ le 1 (sr_hash r) ++ le 1 (sr_ksize r) ++ le 1 0 ++
             le 1 (sr_flags r) ++ le 2 l1 ++ le 2 l2) ++ sr_params r ++ rest).
    rewrite slice_app_r by (rewrite !app_length, !le_length; simpl; lia). rewrite !app_length, !le_length. cbn [Nat.add].
    replace (12 - 12)%nat with 0%nat by lia. replace (76 - 12)%nat with (length (sr_params r)) by lia.
    rewrite slice_app_l by lia. apply slice_full. }
  rewrite SP. destruct r; cbn in *; subst; reflexivity.
Qed.

(* ------------------------------------------------------------------ offsets for the version-2 families of the database *)
Definition fam_allows_v2 (fam : gen_family) : bool := let '(_, _, types, _, _, _, _) := fam in existsb (Z.eqb 2) types.

Lemma v2_start_facts : forall fam, In fam gen_families -> fam_allows_v2 fam = true ->
  forall tm, In tm [0; 2; 3; 4] ->
  let p := params_of fam tm true in
  p_start p = (if is_nand tm then 48128 else 49152) /\ p_csize p = 16384 /\ p_max_cnt p <= 3 /\
  2 * p_csize p <= p_start p /\ (is_nand tm = false -> p_max_cnt p * p_csize p <= p_start p).
Proof.
  assert (H : forallb (fun fam => negb (fam_allows_v2 fam) || forallb (fun tm =>
              let p := params_of fam tm true in
              (p_start p =? (if is_nand tm then 48128 else 49152)) && (p_csize p =? 16384) && (p_max_cnt p <=? 3)
              && (2 * p_csize p <=? p_start p) && (is_nand tm || (p_max_cnt p * p_csize p <=? p_start p))) [0; 2; 3; 4]) gen_families = true)
    by (vm_compute; reflexivity).
  intros fam Hf Hv tm Ht. rewrite forallb_forall in H. specialize (H fam Hf). rewrite Hv in H. cbn [negb orb] in H.
  rewrite forallb_forall in H. specialize (H tm Ht). cbn zeta in H.
  repeat (apply andb_true_iff in H; destruct H as [H ?]).
  apply Z.eqb_eq in H. repeat match goal with X : (_ =? _) = true |- _ => apply Z.eqb_eq in X | X : (_ <=? _) = true |- _ => apply Z.leb_le in X end.
  repeat split; try assumption. intros Hn. rewrite Hn in *. cbn [orb] in *. now apply Z.leb_le.
Qed.

Lemma offsets_disjoint_v2_l fam tm cs :
  In fam gen_families -> fam_allows_v2 fam = true -> In tm [0; 2; 3; 4] ->
  let p := params_of fam tm true in
  (forall c e, In c cs -> In e (c_images c) -> i_raw_off e + c_coff c <= 0 /\ 0 <= i_size e /\ 0 <= i_gap e) ->
  let sp := spans (assign_offsets p (p_start p) cs) in
  gchain (p_start p) sp /\ pairwise_disjoint sp /\ all_after (if is_nand tm then 48128 else 49152) sp /\
  achain_all p 1024 (assign_offsets p (p_start p) cs) /\
  2 * 16384 <= p_start p /\ (is_nand tm = false -> p_max_cnt p * 16384 <= p_start p).
Proof.
  intros Hf Hv Ht p H sp. destruct (v2_start_facts fam Hf Hv tm Ht) as (S1 & S2 & S3 & S4 & S5). fold p in S1, S2, S3, S4, S5.
  destruct (offsets_disjoint_l p cs H) as (O1 & O2 & O3 & _). fold sp in O1, O2, O3.
  repeat split; try assumption.
  - now rewrite <- S1.
  - apply offsets_aligned_l; [intros c e Hc He; now apply (H c e)|]. rewrite S1. destruct (is_nand tm); reflexivity.
  - now rewrite <- S2.
  - intros Hn. rewrite <- S2. now apply S5.
Qed.

(* ------------------------------------------------------------------ the hypotheses are satisfiable: a signed version-2 container of mimx943 *)
Definition demo2_cfg : list container_cfg :=
  [ {| cc_srk_set := 2; cc_used := 1; cc_revoke := 0; cc_gdet := 0; cc_fuse := 0; cc_sw := 0;
       cc_keys := [KEcc 256 5 6; KEcc 256 7 8; KEcc 256 9 10; KEcc 256 11 12]; cc_flag_ca := false;
       cc_sigmode := 1; cc_sig := repeat 7%N 64; cc_sig_ok := true; cc_blob := None; cc_images := [demo_image 5] |} ].
Definition demo2_params : params := params_of (nth 6 gen_families (0, 0, [], 1, 1, false, [])) 4 true.

Example v2_nonvacuous :
  exists k ar, ahab2_update demo2_params demo2_cfg = Ok [k] /\ k_arr k = Some ar /\
               c_sb (k_c k) = sigblock2_update (Some ar) (Some (repeat 7%N 64)) None /\
               is_ok (ahab2_export demo2_params demo2_cfg) = true /\ (0 <? zlen' (signed_data2 k)) = true.
Proof. eexists. eexists. split; [vm_compute; reflexivity|]. split; [reflexivity|]. vm_compute. repeat split. Qed.

(* ------------------------------------------------------------------ layouts of the new records agree with the extracted struct formats *)
Lemma layouts_v2_l :
  gen_fmt_srk_array = [1; 2; 1; 1; 2; 1] /\ gen_fmt_srk_data = [1; 2; 1; 2; 1; 1] /\ gen_fmt_srk_record = [1; 2; 1; 1; 1; 1; 1; 4] /\
  gen_tag_srk_array = 90 /\ gen_tag_srk_data = 93 /\ gen_version_srk_table true = 67 /\ gen_version_sigblock true = 1 /\
  gen_version_container true = 2 /\
  (forall id d, length (srk_data_bytes id d) = (Z.to_nat (fold_right Z.add 0%Z gen_fmt_srk_data) + length d)%nat) /\
  (forall a, zlen' (srk_array_bytes a)
             = fold_right Z.add 0%Z gen_fmt_srk_array + srk_table_len (a_recs a) + srk_data_len (used_data a)).
Proof.
  repeat split; try reflexivity; intros;
    try (unfold srk_data_bytes; rewrite !app_length, !le_length; reflexivity).
  rewrite srk_array_bytes_len. unfold srk_array_len. simpl. lia.
Qed.

(* ------------------------------------------------------------------ version 2: every entry points at its image in the exported file *)
Lemma layout_ok_pieces2 p ks :
  layout_ok p (map k_c ks) = true -> zlen' (containers_block2 p ks) = start_real p (map k_c ks) ->
  (forall c e, In c (map k_c ks) -> In e (c_images c) -> zlen' (i_image e) <= i_size e) ->
  pieces_ok (ahab_len p (map k_c ks)) ((0, zlen' (containers_block2 p ks), containers_block2 p ks) :: all_images (map k_c ks)).
Proof.
  intros H HB HS. set (cs := map k_c ks) in *. unfold layout_ok in H.
  apply andb_true_iff in H as [H H4]. apply andb_true_iff in H as [H H3]. rewrite HB. split.
  - cbn [forallb] in H3. apply andb_true_iff in H3 as [F0 F]. constructor.
    + unfold fits_in in F0. cbn [fst snd] in F0. apply andb_true_iff in F0 as [_ F0]. apply Z.ltb_lt in F0.
      unfold piece_in, p_off, p_size. cbn [fst snd]. rewrite HB. lia.
    + assert (G : forall x, In x (all_images cs) -> zlen' (snd x) <= p_size x).
      { intros x Hx. unfold all_images in Hx. apply in_concat in Hx as (l & Hl & Hx). apply in_map_iff in Hl as (c & <- & Hc).
        apply in_map_iff in Hx as (e & <- & He). cbn. now apply (HS c e). }
      revert F G. generalize (all_images cs) as L. induction L as [|x t IH]; intros F G; [constructor|].
      cbn [map forallb] in F. apply andb_true_iff in F as [Fx Ft]. constructor; [|apply IH; [assumption|intros; apply G; now right]].
      unfold fits_in in Fx. apply andb_true_iff in Fx as [A B]. apply Z.leb_le in A. apply Z.ltb_lt in B.
      unfold piece_in. fold (p_off x) (p_size x) in A, B. repeat split; [assumption|apply G; now left|lia].
  - apply (pairwise_ok_pw ((0, start_real p cs, containers_block2 p ks) :: all_images cs)). exact H4.
Qed.

Lemma entry_points_at_image_v2_l p ks :
  layout_ok p (map k_c ks) = true -> zlen' (containers_block2 p ks) = start_real p (map k_c ks) ->
  (forall c e, In c (map k_c ks) -> In e (c_images c) -> zlen' (i_image e) <= i_size e) ->
  forall c e, In c (map k_c ks) -> In e (c_images c) ->
  zslice (ahab2_bytes p ks) (img_abs c e) (img_abs c e + i_size e) = fit_image (i_size e) (i_image e).
Proof.
  intros H HB HS c e Hc He. pose proof (layout_ok_pieces2 p ks H HB HS) as P.
  assert (T : 0 <= ahab_len p (map k_c ks)).
  { destruct P as [P _]. inversion P as [|? ? (A1 & A2 & A3) _]; subst. unfold p_off, p_size, zlen' in *. cbn [fst snd] in *. lia. }
  unfold ahab2_bytes.
  apply (place_all_read (ahab_len p (map k_c ks)) _ _ (img_abs c e, i_size e, i_image e) T); [apply repeat_length | exact P |].
  right. now apply all_images_In.
Qed.

Example v2_layout_nonvacuous :
  exists k, ahab2_update demo2_params demo2_cfg = Ok [k] /\ layout_ok demo2_params [k_c k] = true /\
            zlen' (containers_block2 demo2_params [k]) = start_real demo2_params [k_c k] /\
            map (img_abs (k_c k)) (c_images (k_c k)) = [49152].
Proof. eexists. split; [vm_compute; reflexivity|]. vm_compute. repeat split. Qed.
