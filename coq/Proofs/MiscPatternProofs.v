(* MiscPatternProofs.v -- C20 extension: BinaryPattern.get_block / align_block against a pattern
   stream specification (the byte at index i of an infinite stream). *)
From Coq Require Import ZArith NArith List Bool Lia ZifyBool.
Require Import Value Bytes BytesProofs GenMisc MiscModel MiscProofs.
Import ListNotations.
Local Open Scope Z_scope.
Ltac Zify.zify_post_hook ::= Z.to_euclidean_division_equations.

(* ------------------------------------------------------------------ specification *)
(* the repeating unit of a numeric pattern: big-endian, minimal width (at least one byte) *)
Definition num_unit (v : Z) : list N := be_enc (Z.to_nat (width_spec v false)) (Z.to_N v).
Definition pattern_byte (p : pattern) (i : nat) : N :=
  match p with
  | PZeros => 0%N
  | POnes => 255%N
  | PInc => (N.of_nat i mod 256)%N
  | PNum v => nth (i mod length (num_unit v)) (num_unit v) 0%N
  end.
Definition pattern_prefix (p : pattern) (n : nat) : list N := map (pattern_byte p) (seq 0 n).
Definition pattern_defined (p : pattern) : Prop := match p with PNum v => 0 <= v | _ => True end.

(* ------------------------------------------------------------------ helpers *)
Lemma repeat_map_seq {A} (x : A) n : repeat x n = map (fun _ => x) (seq 0 n).
Proof.
  induction n as [|n IH]; [reflexivity|].
  cbn [repeat seq map]. rewrite <- seq_shift, map_map. now rewrite IH.
Qed.

Lemma inc_block_map_seq n s :
  inc_block n s = map (fun i => ((s + N.of_nat i) mod 256)%N) (seq 0 n).
Proof.
  revert s. induction n as [|n IH]; intros s; [reflexivity|].
  cbn [inc_block seq map]. rewrite <- seq_shift, map_map, IH.
  f_equal.
  - f_equal. lia.
  - apply map_ext. intros i. f_equal. lia.
Qed.

Lemma skipn_cons_inv {A} (l : list A) off c t d :
  skipn off l = c :: t -> nth off l d = c /\ skipn (S off) l = t /\ (off < length l)%nat.
Proof.
  revert off. induction l as [|a l IH]; intros off H.
  - destruct off; discriminate.
  - destruct off as [|off].
    + cbn in H. injection H as -> ->. cbn. repeat split. lia.
    + cbn [skipn] in H. apply IH in H. destruct H as (H1 & H2 & H3).
      cbn [nth length]. split; [exact H1|]. split; [exact H2|lia].
Qed.

Lemma skipn_nil_inv {A} (l : list A) off : skipn off l = [] -> (length l <= off)%nat.
Proof.
  intros H. apply (f_equal (@length A)) in H. rewrite skipn_length in H. cbn in H. lia.
Qed.

Lemma mod_wrap i L : L <> 0%nat -> ((L + i) mod L = i mod L)%nat.
Proof.
  intros HL. replace (L + i)%nat with (i + 1 * L)%nat by lia. apply Nat.mod_add. exact HL.
Qed.

Lemma cycle_fuel_restart n pat : cycle_fuel n pat [] = cycle_fuel n pat pat.
Proof. destruct n as [|n]; [reflexivity|]. destruct pat; reflexivity. Qed.

(* key lemma: the model's cursor walk equals index arithmetic modulo the unit length *)
Lemma cycle_fuel_skipn n pat off : pat <> [] -> (off <= length pat)%nat ->
  cycle_fuel n pat (skipn off pat) =
  map (fun i => nth ((off + i) mod length pat) pat 0%N) (seq 0 n).
Proof.
  intros Hp. revert off. induction n as [|n IH]; intros off Hoff; [reflexivity|].
  assert (HL : length pat <> 0%nat) by (destruct pat; [congruence|discriminate]).
  assert (Hlt : forall o, (o < length pat)%nat ->
            cycle_fuel (S n) pat (skipn o pat) =
            map (fun i => nth ((o + i) mod length pat) pat 0%N) (seq 0 (S n))).
  { intros o Ho. cbn [seq map]. rewrite <- seq_shift, map_map.
    destruct (skipn o pat) as [|c t] eqn:E.
    - apply skipn_nil_inv in E. lia.
    - cbn [cycle_fuel].
      apply (skipn_cons_inv pat o c t 0%N) in E. destruct E as (H1 & H2 & H3).
      rewrite <- H2. rewrite IH by lia.
      f_equal.
      + rewrite Nat.add_0_r, Nat.mod_small by lia. symmetry. exact H1.
      + apply map_ext. intros i. replace (S o + i)%nat with (o + S i)%nat by lia. reflexivity. }
  destruct (Nat.eq_dec off (length pat)) as [->|Hne].
  - rewrite skipn_all, cycle_fuel_restart.
    pose proof (Hlt 0%nat ltac:(lia)) as H0. cbn [skipn] in H0. rewrite H0.
    apply map_ext. intros i. rewrite mod_wrap by exact HL. reflexivity.
  - apply Hlt. lia.
Qed.

Lemma cycle_fuel_stream n pat : pat <> [] ->
  cycle_fuel n pat pat = map (fun i => nth (i mod length pat) pat 0%N) (seq 0 n).
Proof.
  intros Hp. exact (cycle_fuel_skipn n pat 0 Hp (Nat.le_0_l _)).
Qed.

Lemma pattern_prefix_0 p : pattern_prefix p 0 = [].
Proof. reflexivity. Qed.

Lemma pattern_prefix_length p n : length (pattern_prefix p n) = n.
Proof. unfold pattern_prefix. now rewrite map_length, seq_length. Qed.

(* ------------------------------------------------------------------ main lemmas *)
Lemma num_unit_spec v : 0 <= v ->
  value_to_bytes_int v false 0 true = Ok (num_unit v) /\ be_dec (num_unit v) = Z.to_N v /\
  (0 < length (num_unit v))%nat /\
  (forall c, 0 <= c -> v < 2 ^ (8 * c) -> v <> 0 -> Z.of_nat (length (num_unit v)) <= c).
Proof.
  intros Hv.
  destruct (width_spec_fits v false Hv) as [Hf Hp].
  assert (E : value_to_bytes_int v false 0 true = Ok (num_unit v)).
  { unfold value_to_bytes_int. rewrite bytes_cnt_total by assumption.
    unfold int_to_bytes.
    destruct ((v <? 0) || (width_spec v false <? 0)) eqn:E1; [lia|].
    destruct (2 ^ (8 * width_spec v false) <=? v) eqn:E2; [lia|].
    reflexivity. }
  split; [exact E|].
  unfold value_to_bytes_int in E. rewrite bytes_cnt_total in E by assumption.
  apply int_to_bytes_roundtrip in E. destruct E as (Hd & Hl & _).
  split; [exact Hd|]. split; [lia|].
  intros c Hc Hb Hne. rewrite Hl. unfold width_spec.
  destruct (v =? 0) eqn:E0; [lia|].
  cbn [andb]. apply nbytes_minimal; lia.
Qed.

Lemma pattern_block_spec p n : pattern_defined p -> pattern_block p n = Ok (pattern_prefix p n).
Proof.
  destruct p as [| | |v]; cbn [pattern_defined]; intros Hd; cbn [pattern_block]; unfold pattern_prefix.
  - f_equal. rewrite repeat_map_seq. apply map_ext. reflexivity.
  - f_equal. rewrite repeat_map_seq. apply map_ext. reflexivity.
  - f_equal. rewrite inc_block_map_seq. apply map_ext. reflexivity.
  - destruct (num_unit_spec v Hd) as (E & _ & Hl & _). rewrite E. f_equal.
    rewrite cycle_fuel_stream.
    + apply map_ext. reflexivity.
    + intros H0. rewrite H0 in Hl. cbn in Hl. lia.
Qed.

Lemma pattern_block_rejects v n : v < 0 -> pattern_block (PNum v) n = Err 1%N.
Proof.
  intros H. cbn [pattern_block]. now rewrite value_to_bytes_neg_rejected.
Qed.

Lemma pattern_defined_dec p : pattern_defined p \/ exists v, p = PNum v /\ v < 0.
Proof.
  destruct p as [| | |v]; try (left; exact I).
  destruct (Z_lt_le_dec v 0) as [Hn|Hp]; [right; exists v; split; [reflexivity|exact Hn]|left; exact Hp].
Qed.

Lemma align_block_pattern d a p d2 : align_block d a p = Ok d2 ->
  exists r, py_align (Z.of_nat (length d)) a = Ok r /\ Z.of_nat (length d) <= r /\
    d2 = d ++ pattern_prefix p (Z.to_nat (r - Z.of_nat (length d))).
Proof.
  unfold align_block. destruct (a <? 0) eqn:Ea; [discriminate|].
  destruct (py_align (Z.of_nat (length d)) a) as [al|k] eqn:E; [|discriminate].
  assert (Hal : Z.of_nat (length d) <= al).
  { destruct (Z.eq_dec a 0) as [->|Hne].
    - unfold py_align in E. simpl in E. discriminate.
    - destruct (align_ok (Z.of_nat (length d)) a ltac:(lia) ltac:(lia)) as (r & Hr & Hle & _).
      rewrite Hr in E. injection E as <-. exact Hle. }
  destruct (Z.to_nat (al - Z.of_nat (length d))) as [|n] eqn:En.
  - intros H; injection H as <-. exists al. split; [reflexivity|]. split; [exact Hal|].
    rewrite En, pattern_prefix_0, app_nil_r. reflexivity.
  - destruct (pattern_block p (S n)) as [blk|k] eqn:Eb; [|discriminate].
    intros H; injection H as <-. exists al. split; [reflexivity|]. split; [exact Hal|].
    rewrite En.
    destruct (pattern_defined_dec p) as [Hd|(v & -> & Hv)].
    + rewrite pattern_block_spec in Eb by exact Hd. injection Eb as <-. reflexivity.
    + rewrite pattern_block_rejects in Eb by exact Hv. discriminate.
Qed.

Lemma align_block_total d a p : 0 < a -> pattern_defined p ->
  exists r, py_align (Z.of_nat (length d)) a = Ok r /\
    align_block d a p = Ok (d ++ pattern_prefix p (Z.to_nat (r - Z.of_nat (length d)))) /\
    Z.of_nat (length d) <= r < Z.of_nat (length d) + a /\ r mod a = 0.
Proof.
  intros Ha Hd.
  destruct (align_ok (Z.of_nat (length d)) a ltac:(lia) Ha) as (r & Hr & Hle & Hm & Hlt).
  exists r. split; [exact Hr|]. split; [|split; [split; assumption|exact Hm]].
  unfold align_block. destruct (a <? 0) eqn:Ea; [lia|]. rewrite Hr.
  destruct (Z.to_nat (r - Z.of_nat (length d))) as [|n] eqn:En.
  - rewrite pattern_prefix_0, app_nil_r. reflexivity.
  - rewrite pattern_block_spec by exact Hd. reflexivity.
Qed.

Lemma align_block_rejects d a p : a <= 0 -> align_block d a p = Err 1%N.
Proof.
  intros Ha. unfold align_block. destruct (a <? 0) eqn:Ea; [reflexivity|].
  unfold py_align. destruct (orb (Z.leb a 0) (Z.ltb (Z.of_nat (length d)) 0)) eqn:E; [reflexivity|lia].
Qed.

(* a negative numeric pattern is rejected exactly when padding is needed *)
Lemma align_block_negative_pattern d a v : 0 < a -> v < 0 ->
  align_block d a (PNum v) = if Z.of_nat (length d) mod a =? 0 then Ok d else Err 1%N.
Proof.
  intros Ha Hv.
  destruct (align_ok (Z.of_nat (length d)) a ltac:(lia) Ha) as (r & Hr & Hle & Hm & Hlt).
  unfold align_block. destruct (a <? 0) eqn:Ea; [lia|]. rewrite Hr.
  destruct (Z.of_nat (length d) mod a =? 0) eqn:Em.
  - apply Z.eqb_eq in Em.
    assert (r <= Z.of_nat (length d)).
    { apply (align_least (Z.of_nat (length d)) a r); try assumption; lia. }
    replace (Z.to_nat (r - Z.of_nat (length d))) with 0%nat by lia. reflexivity.
  - apply Z.eqb_neq in Em.
    assert (r <> Z.of_nat (length d)) by (intros ->; contradiction).
    destruct (Z.to_nat (r - Z.of_nat (length d))) as [|n] eqn:En; [lia|].
    rewrite pattern_block_rejects by exact Hv. reflexivity.
Qed.

(* ------------------------------------------------------------------ sanity examples *)
Example pattern_prefix_ex1 : pattern_prefix (PNum 0x010203) 7 = [1;2;3;1;2;3;1]%N.
Proof. vm_compute. reflexivity. Qed.
Example pattern_prefix_ex2 : pattern_prefix PInc 3 = [0;1;2]%N.
Proof. vm_compute. reflexivity. Qed.
Example align_block_ex1 : align_block [9;9;9]%N 8 (PNum 0x1234) = Ok [9;9;9;0x12;0x34;0x12;0x34;0x12]%N.
Proof. vm_compute. reflexivity. Qed.
Example align_block_ex2 : align_block [9;9]%N 2 (PNum (-1)) = Ok [9;9]%N /\ align_block [9]%N 2 (PNum (-1)) = Err 1%N.
Proof. vm_compute. split; reflexivity. Qed.

Print Assumptions pattern_block_spec.
Print Assumptions align_block_pattern.
Print Assumptions align_block_total.
Print Assumptions align_block_negative_pattern.
Print Assumptions num_unit_spec.

(* ====================================================================== statements used by Props/C20 *)
Lemma pattern_block_spec_l p n :
  (pattern_defined p -> pattern_block p n = Ok (pattern_prefix p n)) /\
  (~ pattern_defined p -> pattern_block p n = Err 1%N).
Proof.
  split; [apply pattern_block_spec|]. intros H.
  destruct (pattern_defined_dec p) as [Hd|(v & -> & Hv)]; [contradiction|]. now apply pattern_block_rejects.
Qed.

Lemma align_block_total_l d a p :
  (0 < a -> pattern_defined p ->
     exists r, py_align (Z.of_nat (length d)) a = Ok r /\
       align_block d a p = Ok (d ++ pattern_prefix p (Z.to_nat (r - Z.of_nat (length d)))) /\
       Z.of_nat (length d) <= r < Z.of_nat (length d) + a /\ r mod a = 0) /\
  (a <= 0 -> align_block d a p = Err 1%N) /\
  (forall v, p = PNum v -> 0 < a -> v < 0 ->
     align_block d a p = if Z.of_nat (length d) mod a =? 0 then Ok d else Err 1%N).
Proof.
  split; [apply align_block_total|]. split; [apply align_block_rejects|].
  intros v -> Ha Hv. now apply align_block_negative_pattern.
Qed.

Example pattern_defined_ex : pattern_defined (PNum 0x1234) /\ pattern_defined PInc /\ ~ pattern_defined (PNum (-1)).
Proof. cbn. lia. Qed.
Print Assumptions pattern_block_spec_l.
Print Assumptions align_block_total_l.
