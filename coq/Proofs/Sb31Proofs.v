(* Proofs/Sb31Proofs.v -- lemmas about Model/Sb31Model.v (C05). *)
From Coq Require Import ZArith NArith List Bool Lia.
Require Import Value Bytes BytesProofs Sha2 Aes Modes Cmac CryptoProofs Sb31Model GenSb31.
Import ListNotations.
Local Open Scope N_scope.
Ltac Zify.zify_post_hook ::= Z.to_euclidean_division_equations.

(* ------------------------------------------------------------------ A. readers over concatenations *)
Lemma firstn_app_exact {A} (a r : list A) n : length a = n -> firstn n (a ++ r) = a.
Proof. intros <-. rewrite firstn_app, Nat.sub_diag, firstn_all. simpl. apply app_nil_r. Qed.
Lemma skipn_app_exact {A} (a r : list A) n : length a = n -> skipn n (a ++ r) = r.
Proof. intros <-. rewrite skipn_app, Nat.sub_diag, skipn_all. reflexivity. Qed.

Lemma rd_app a r n : length a = n -> rd n (a ++ r) = Some (a, r).
Proof.
  intros H. unfold rd. rewrite app_length.
  destruct (Nat.ltb_spec (length a + length r) n); [lia|].
  now rewrite firstn_app_exact, skipn_app_exact.
Qed.
Lemma rd_exact a n : length a = n -> rd n a = Some (a, []).
Proof. intros H. rewrite <- (app_nil_r a) at 1. now apply rd_app. Qed.

Lemma rd_some n l a r : rd n l = Some (a, r) -> l = a ++ r /\ length a = n.
Proof.
  unfold rd. destruct (Nat.ltb_spec (length l) n); [discriminate|].
  intros E. inversion E; subst. split; [symmetry; apply firstn_skipn | rewrite firstn_length; lia].
Qed.

Lemma w32_length v : length (w32 v) = 4%nat.
Proof. apply le_enc_length. Qed.
Lemma w32_dec v : v < U32 -> le_dec (w32 v) = v.
Proof. intros H. unfold w32. apply le_dec_enc_small. exact H. Qed.
Lemma rdw_app v r : v < U32 -> rdw (w32 v ++ r) = Some (v, r).
Proof. intros H. unfold rdw. rewrite rd_app by apply w32_length. cbn [obind]. now rewrite w32_dec. Qed.

Lemma nlen_app {A} (a b : list A) : nlen (a ++ b) = nlen a + nlen b.
Proof. unfold nlen. rewrite app_length. lia. Qed.

Lemma rdn_app a r : rdn (nlen a) (a ++ r) = Some (a, r).
Proof.
  unfold rdn. rewrite nlen_app. destruct (N.ltb_spec (nlen a + nlen r) (nlen a)); [lia|].
  unfold nlen. rewrite Nat2N.id. now apply rd_app.
Qed.

Lemma all_zero_zeros n : all_zero (zeros n) = true.
Proof. unfold all_zero, zeros. induction n; simpl; auto. Qed.
Lemma zeros_length n : length (zeros n) = n.
Proof. apply repeat_length. Qed.
Lemma wf_zeros n : wf_bytes (zeros n).
Proof. unfold wf_bytes, zeros. induction n; simpl; constructor; auto. reflexivity. Qed.

Lemma rd_padded_app d r :
  rd_padded (nlen d) (d ++ zeros (padlen 16 (length d)) ++ r) = Some (d, r).
Proof.
  unfold rd_padded. rewrite rdn_app. cbn [obind]. rewrite rd_app by apply zeros_length. cbn [obind].
  now rewrite all_zero_zeros.
Qed.

Lemma hdr4_length a b c d : length (hdr4 a b c d) = 16%nat.
Proof. unfold hdr4. now rewrite !app_length, !w32_length. Qed.

Lemma rd_ext_app a b c d r : a < U32 -> b < U32 -> c < U32 -> d < U32 ->
  rd_ext (hdr4 a b c d ++ r) = Some (a, b, c, d, r).
Proof.
  intros. unfold rd_ext, hdr4. rewrite <- !app_assoc.
  rewrite rdw_app by assumption. cbn [obind]. rewrite rdw_app by assumption. cbn [obind].
  rewrite rdw_app by assumption. cbn [obind]. rewrite rdw_app by assumption. reflexivity.
Qed.

Lemma padlen_add k a b : (0 < k)%nat -> Nat.modulo a k = 0%nat -> padlen k (a + b) = padlen k b.
Proof.
  intros Hk Ha. unfold padlen. rewrite Nat.add_mod by lia. rewrite Ha. simpl.
  now rewrite Nat.mod_mod by lia.
Qed.
Lemma padlen_lt k n : (0 < k)%nat -> (padlen k n < k)%nat.
Proof. intros. unfold padlen. apply Nat.mod_upper_bound. lia. Qed.
Lemma padlen_total k n : (0 < k)%nat -> Nat.modulo (n + padlen k n) k = 0%nat.
Proof.
  intros Hk. unfold padlen.
  pose proof (Nat.mod_upper_bound n k ltac:(lia)) as Hb.
  pose proof (Nat.div_mod n k ltac:(lia)) as Hd.
  destruct (Nat.eq_dec (Nat.modulo n k) 0) as [E|E].
  - rewrite E, Nat.sub_0_r, Nat.mod_same, Nat.add_0_r by lia. exact E.
  - rewrite (Nat.mod_small (k - Nat.modulo n k) k) by lia.
    replace (n + (k - Nat.modulo n k))%nat with (k * Nat.div n k + 1 * k)%nat by lia.
    rewrite Nat.mod_add by lia. rewrite Nat.mul_comm. apply Nat.mod_mul. lia.
Qed.

Lemma sb_align_app h d : Nat.modulo (length h) 16 = 0%nat ->
  sb_align 16 (h ++ d) = h ++ d ++ zeros (padlen 16 (length d)).
Proof.
  intros H. unfold sb_align. rewrite app_length, padlen_add by (auto; lia). now rewrite app_assoc.
Qed.

Lemma sb_align_noop k l : (0 < k)%nat -> Nat.modulo (length l) k = 0%nat -> sb_align k l = l.
Proof.
  intros Hk H. unfold sb_align, padlen. rewrite H, Nat.sub_0_r, Nat.mod_same by lia. simpl. apply app_nil_r.
Qed.

(* bounds *)
Lemma u32b_lt v : u32b v = true -> v < U32.
Proof. unfold u32b. apply N.ltb_lt. Qed.
Lemma u16b_lt v : u16b v = true -> v < U16.
Proof. unfold u16b. apply N.ltb_lt. Qed.

(* firstn / skipn through words *)
Lemma firstn4_w32 v r : firstn 4 (w32 v ++ r) = w32 v.
Proof. apply firstn_app_exact, w32_length. Qed.
Lemma skipn4_w32 v r : skipn 4 (w32 v ++ r) = r.
Proof. apply skipn_app_exact, w32_length. Qed.

Lemma take_n_app d r : take_n (nlen d) (d ++ r) = d.
Proof.
  unfold take_n. rewrite nlen_app, N.min_l by lia. unfold nlen. rewrite Nat2N.id.
  now apply firstn_app_exact.
Qed.

(* ------------------------------------------------------------------ B. parse_command (export_cmd c) = c *)
Lemma split4_hdr4 a b c d r : a < U32 -> b < U32 -> c < U32 -> d < U32 ->
  split4 (hdr4 a b c d ++ r) = (a, b, c, d, r).
Proof.
  intros. unfold split4, hdr4. cbv zeta. rewrite <- !app_assoc.
  rewrite !skipn4_w32, !firstn4_w32, !w32_dec by assumption. reflexivity.
Qed.

Lemma SB_TAG_lt : SB_TAG < U32.
Proof. reflexivity. Qed.

Lemma parse_command_hdr f1b f2 t body : length f1b = 4%nat -> f2 < U32 -> t < U32 ->
  parse_command (w32 SB_TAG ++ f1b ++ w32 f2 ++ w32 t ++ body) = parse_body f1b f2 t body.
Proof.
  intros Hl H2 Ht. unfold parse_command.
  rewrite !app_length, !w32_length, Hl.
  destruct (Nat.ltb_spec (4 + (4 + (4 + (4 + length body)))) 4); [lia|].
  destruct (Nat.ltb_spec (4 + (4 + (4 + (4 + length body)))) 16); [lia|].
  rewrite firstn4_w32, (w32_dec _ SB_TAG_lt), N.eqb_refl. cbn [negb]. cbv zeta.
  rewrite !skipn4_w32.
  rewrite (firstn_app_exact f1b _ 4 Hl), (skipn_app_exact f1b _ 4 Hl).
  rewrite !skipn4_w32, !firstn4_w32, !w32_dec by assumption. reflexivity.
Qed.

Lemma wf_cmd_inv c : wf_cmd c ->
  cmd_in_range c = true /\ wf_bytes (cmd_data c) /\
  match c with CProgFuses _ d => nlen d mod 4 = 0 | _ => True end.
Proof.
  unfold wf_cmd, wf_cmdb. rewrite !andb_true_iff. intros [[H1 H2] H3].
  split; [exact H1|]. split; [now apply wf_bytesb_spec|].
  destruct c; cbn [cmd_constructible] in H3; auto. now apply N.eqb_eq.
Qed.

Ltac range_hyps :=
  repeat match goal with
         | H : _ && _ = true |- _ => apply andb_true_iff in H; destruct H
         | H : u32b _ = true |- _ => apply u32b_lt in H
         | H : u16b _ = true |- _ => apply u16b_lt in H
         | H : (_ <? _) = true |- _ => apply N.ltb_lt in H
         end.

Lemma lt_U32_small v : v < 16 -> v < U32.
Proof. intros. unfold U32. lia. Qed.

Lemma div4_lt v : v < U32 -> v / 4 < U32.
Proof. intros. apply N.le_lt_trans with v; [|assumption]. apply N.div_le_upper_bound; lia. Qed.

Lemma le_enc2_dec v : v < U16 -> le_dec (le_enc 2 v) = v.
Proof. intros H. apply le_dec_enc_small. exact H. Qed.

Ltac finish_parse :=
  cbn -[le_dec w32 hdr4 take_n nlen le_enc N.mul N.div N.modulo zeros padlen]; try reflexivity.

(* header, memory-id block, data, zero padding [, trailer] *)
Ltac load_case :=
  rewrite (app_assoc (hdr4 _ _ _ _) (hdr4 _ _ _ _)), sb_align_app by (rewrite app_length, !hdr4_length; reflexivity);
  unfold hdr4 at 1; rewrite <- !app_assoc;
  rewrite parse_command_hdr by (try apply w32_length; auto; reflexivity);
  unfold parse_body; rewrite split4_hdr4 by (auto; reflexivity);
  rewrite app_length, hdr4_length, w32_dec, take_n_app by assumption;
  finish_parse.

Theorem cmd_roundtrip_lemma c : wf_cmd c -> parse_command (export_cmd c) = Ok c.
Proof.
  intros W. destruct (wf_cmd_inv c W) as (R & WB & F). clear W.
  destruct c; cbn [cmd_in_range cmd_data] in *; range_hyps; unfold export_cmd.
  - (* erase *)
    unfold hdr4 at 1. rewrite <- !app_assoc.
    rewrite parse_command_hdr by (try apply w32_length; auto; reflexivity).
    rewrite <- (app_nil_r (hdr4 mem 0 0 0)).
    unfold parse_body. rewrite split4_hdr4 by (auto; reflexivity).
    rewrite app_length, hdr4_length, w32_dec by assumption. finish_parse.
  - (* load *) load_case.
  - (* execute *)
    unfold hdr4. rewrite <- (app_nil_r (w32 3)).
    rewrite parse_command_hdr by (try apply w32_length; auto; reflexivity).
    unfold parse_body. rewrite w32_dec by assumption. finish_parse.
  - (* call *)
    unfold hdr4. rewrite <- (app_nil_r (w32 4)).
    rewrite parse_command_hdr by (try apply w32_length; auto; reflexivity).
    unfold parse_body. rewrite w32_dec by assumption. finish_parse.
  - (* programFuses *)
    rewrite sb_align_app by (rewrite hdr4_length; reflexivity).
    unfold hdr4. rewrite <- !app_assoc.
    rewrite parse_command_hdr by (try apply w32_length; auto using div4_lt; reflexivity).
    unfold parse_body. rewrite w32_dec by assumption.
    replace (4 * (nlen data / 4)) with (nlen data) by (apply N.div_exact; [lia | exact F]).
    rewrite take_n_app. cbv zeta. rewrite F. finish_parse.
  - (* programIFR *)
    rewrite sb_align_app by (rewrite hdr4_length; reflexivity).
    unfold hdr4. rewrite <- !app_assoc.
    rewrite parse_command_hdr by (try apply w32_length; auto; reflexivity).
    unfold parse_body. rewrite w32_dec, take_n_app by assumption. finish_parse.
  - (* loadCMAC *) load_case.
  - (* copy *)
    unfold hdr4 at 1. rewrite <- !app_assoc.
    rewrite parse_command_hdr by (try apply w32_length; auto; reflexivity).
    rewrite <- (app_nil_r (hdr4 dest memfrom memto 0)).
    unfold parse_body. rewrite split4_hdr4 by (auto; reflexivity).
    rewrite app_length, hdr4_length, w32_dec by assumption. finish_parse.
  - (* loadHashLocking *)
    rewrite (app_assoc (hdr4 _ _ _ _) (hdr4 _ _ _ _)), sb_align_app by (rewrite app_length, !hdr4_length; reflexivity).
    unfold hdr4 at 1. rewrite <- !app_assoc.
    rewrite parse_command_hdr by (try apply w32_length; auto; reflexivity).
    unfold parse_body. rewrite split4_hdr4 by (auto; reflexivity).
    rewrite app_length, hdr4_length, w32_dec, take_n_app by assumption. finish_parse.
  - (* loadKeyBlob *)
    rewrite !app_assoc, sb_align_app by (rewrite !app_length, !w32_length, !le_enc_length; reflexivity).
    rewrite <- !app_assoc. rewrite (app_assoc (le_enc 2 offset)).
    rewrite parse_command_hdr by (try (rewrite app_length, !le_enc_length; reflexivity); auto; reflexivity).
    unfold parse_body.
    rewrite (firstn_app_exact (le_enc 2 offset)), (skipn_app_exact (le_enc 2 offset)) by apply le_enc_length.
    rewrite !le_enc2_dec, take_n_app by assumption.
    rewrite nlen_app. destruct (N.ltb_spec (nlen data + nlen (zeros (padlen 16 (length data)))) (nlen data)); [lia|].
    finish_parse.
  - (* configureMemory *)
    unfold hdr4. rewrite <- (app_nil_r (w32 11)).
    rewrite parse_command_hdr by (try apply w32_length; auto; reflexivity).
    unfold parse_body. rewrite w32_dec by assumption. finish_parse.
  - (* fillMemory *)
    unfold hdr4 at 1. rewrite <- !app_assoc.
    rewrite parse_command_hdr by (try apply w32_length; auto; reflexivity).
    rewrite <- (app_nil_r (hdr4 pattern 0 0 0)).
    unfold parse_body. rewrite split4_hdr4 by (auto; reflexivity).
    rewrite app_length, hdr4_length, w32_dec by assumption. finish_parse.
  - (* checkFwVersion *)
    unfold hdr4. rewrite <- (app_nil_r (w32 13)).
    rewrite parse_command_hdr by (try apply w32_length; auto using lt_U32_small; try reflexivity; unfold U32; lia).
    unfold parse_body. rewrite w32_dec by assumption.
    apply N.ltb_lt in H0. finish_parse. now rewrite H0.
  - (* reset *)
    unfold hdr4. rewrite <- (app_nil_r (w32 14)).
    rewrite parse_command_hdr by (try apply w32_length; auto; reflexivity).
    reflexivity.
Qed.

(* construction: only programFuses has a precondition (whole 32-bit words, finding C05-F1 repaired); everything
   constructible and exportable reads back; parse_command never returns a command that could not have been constructed *)
Lemma parse_body_constructible f1b f2 t body c : parse_body f1b f2 t body = Ok c -> cmd_constructible c = true.
Proof.
  unfold parse_body. destruct (split4 body) as [[[[e0 e1] e2] e3] rest]. cbv zeta.
  repeat match goal with
         | |- context [if ?b then _ else _] => destruct b eqn:?
         end; intros H; inversion H; subst; try reflexivity.
  cbn [cmd_constructible]. assumption.
Qed.

Lemma parse_command_constructible d c : parse_command d = Ok c -> cmd_constructible c = true.
Proof.
  unfold parse_command.
  repeat match goal with
         | |- context [if ?b then _ else _] => destruct b eqn:?
         end; try discriminate.
  cbv zeta. apply parse_body_constructible.
Qed.

Lemma fuses_whole_words_lemma :
  (forall a d, cmd_constructible (CProgFuses a d) = true <-> nlen d mod 4 = 0) /\
  (forall c, (forall a d, c <> CProgFuses a d) -> cmd_constructible c = true) /\
  (forall c, cmd_constructible c = true -> cmd_in_range c = true -> wf_bytes (cmd_data c) ->
             parse_command (export_cmd c) = Ok c) /\
  (forall d c, parse_command d = Ok c -> cmd_constructible c = true).
Proof.
  split; [intros a d; cbn [cmd_constructible]; apply N.eqb_eq|].
  split; [intros c H; destruct c; try reflexivity; exfalso; eapply H; reflexivity|].
  split; [|exact parse_command_constructible].
  intros c H1 H2 H3. apply cmd_roundtrip_lemma. unfold wf_cmd, wf_cmdb.
  rewrite H1, H2, (proj2 (wf_bytesb_spec _) H3). reflexivity.
Qed.

Example fuses_odd_rejected : cmd_constructible (CProgFuses 256 [1; 2; 3; 4; 5]) = false.
Proof. reflexivity. Qed.

(* ------------------------------------------------------------------ C. the loader's command decoder on exported commands *)
Lemma lt6_U32 v : v < 6 -> v < U32.
Proof. intros. unfold U32. lia. Qed.
Lemma guard_true b : b = true -> guard b = Some tt.
Proof. now intros ->. Qed.

Ltac rom_hdr_step :=
  unfold rom_cmd;
  rewrite (rdw_app _ _ SB_TAG_lt); cbn [obind]; rewrite N.eqb_refl; cbn [guard obind];
  rewrite rd_app by (try apply w32_length; rewrite app_length, !le_enc_length; reflexivity); cbn [obind];
  rewrite rdw_app by (auto using div4_lt, lt6_U32; reflexivity); cbn [obind];
  rewrite rdw_app by (auto using lt_U32_small; try reflexivity); cbn [obind].

Ltac rom_finish :=
  cbn -[le_dec w32 hdr4 nlen le_enc N.mul N.div N.modulo zeros padlen rd rd_ext rd_padded rdw rdn all_zero]; try reflexivity.

Lemma rd_0 l : rd 0 l = Some ([], l).
Proof. reflexivity. Qed.

Ltac rom_load_case :=
  rewrite (app_assoc (hdr4 _ _ _ _) (hdr4 _ _ _ _)), sb_align_app by (rewrite app_length, !hdr4_length; reflexivity);
  unfold hdr4 at 1; rewrite <- !app_assoc; rom_hdr_step; rom_finish;
  rewrite rd_ext_app by (auto; reflexivity); rom_finish;
  rewrite rd_padded_app; rom_finish.

Lemma rom_cmd_export c rest : wf_cmd c -> rom_cmd (export_cmd c ++ rest) = Some (c, rest).
Proof.
  intros W. destruct (wf_cmd_inv c W) as (R & WB & F). clear W.
  destruct c; cbn [cmd_in_range cmd_data] in *; range_hyps; unfold export_cmd.
  - (* erase *)
    unfold hdr4 at 1. rewrite <- !app_assoc. rom_hdr_step. rom_finish.
    rewrite rd_ext_app by (auto; reflexivity). rom_finish. now rewrite w32_dec.
  - (* load *) rom_load_case. now rewrite w32_dec.
  - (* execute *) unfold hdr4. rewrite <- !app_assoc. rom_hdr_step. rom_finish. now rewrite w32_dec.
  - (* call *) unfold hdr4. rewrite <- !app_assoc. rom_hdr_step. rom_finish. now rewrite w32_dec.
  - (* programFuses *)
    rewrite sb_align_app by (rewrite hdr4_length; reflexivity).
    unfold hdr4. rewrite <- !app_assoc. rom_hdr_step. rom_finish.
    replace (4 * (nlen data / 4)) with (nlen data) by (apply N.div_exact; [lia | exact F]).
    rewrite rd_padded_app. rom_finish. now rewrite w32_dec.
  - (* programIFR *)
    rewrite sb_align_app by (rewrite hdr4_length; reflexivity).
    unfold hdr4. rewrite <- !app_assoc. rom_hdr_step. rom_finish.
    rewrite rd_padded_app. rom_finish. now rewrite w32_dec.
  - (* loadCMAC *) rom_load_case. now rewrite w32_dec.
  - (* copy *)
    unfold hdr4 at 1. rewrite <- !app_assoc. rom_hdr_step. rom_finish.
    rewrite rd_ext_app by (auto; reflexivity). rom_finish. now rewrite w32_dec.
  - (* loadHashLocking *)
    rewrite (app_assoc (hdr4 _ _ _ _) (hdr4 _ _ _ _)), sb_align_app by (rewrite app_length, !hdr4_length; reflexivity).
    unfold hdr4 at 1. rewrite <- !app_assoc. rom_hdr_step. rom_finish.
    rewrite rd_ext_app by (auto; reflexivity). rom_finish.
    rewrite rd_padded_app. rom_finish.
    rewrite rd_app by apply zeros_length. rom_finish. rewrite all_zero_zeros. rom_finish. now rewrite w32_dec.
  - (* loadKeyBlob *)
    rewrite !app_assoc, sb_align_app by (rewrite !app_length, !w32_length, !le_enc_length; reflexivity).
    rewrite <- !app_assoc. rewrite (app_assoc (le_enc 2 offset)). rom_hdr_step.
    rewrite (firstn_app_exact (le_enc 2 offset)), (skipn_app_exact (le_enc 2 offset)) by apply le_enc_length.
    rom_finish. rewrite rd_padded_app. rom_finish.
    now rewrite !le_enc2_dec by assumption.
  - (* configureMemory *) unfold hdr4. rewrite <- !app_assoc. rom_hdr_step. rom_finish. now rewrite w32_dec.
  - (* fillMemory *)
    unfold hdr4 at 1. rewrite <- !app_assoc. rom_hdr_step. rom_finish.
    rewrite rd_ext_app by (auto; reflexivity). rom_finish. now rewrite w32_dec.
  - (* checkFwVersion *)
    unfold hdr4. rewrite <- !app_assoc. rom_hdr_step. rom_finish.
    apply N.ltb_lt in H0. rewrite H0. rom_finish. now rewrite w32_dec.
  - (* reset *) unfold hdr4. rewrite <- !app_assoc. rom_hdr_step. rom_finish.
Qed.

Lemma export_cmd_nonempty c : exists x t, export_cmd c = x :: t.
Proof.
  destruct c; unfold export_cmd, sb_align, hdr4, w32; cbn [le_enc app]; eexists; eexists; reflexivity.
Qed.

Lemma rom_cmds_step fuel s : s <> [] ->
  rom_cmds (S fuel) s = obind (rom_cmd s) (fun '(c, r) => obind (rom_cmds fuel r) (fun cs => Some (c :: cs))).
Proof. destruct s; [congruence | reflexivity]. Qed.

Lemma rom_cmds_nil fuel : rom_cmds fuel [] = Some [].
Proof. destruct fuel; reflexivity. Qed.

Lemma cmds_bytes_cons c cs : cmds_bytes (c :: cs) = export_cmd c ++ cmds_bytes cs.
Proof. reflexivity. Qed.

Lemma cmds_bytes_length_ge cs : (length cs <= length (cmds_bytes cs))%nat.
Proof.
  induction cs as [|c cs IH]; [simpl; lia|].
  rewrite cmds_bytes_cons, app_length. destruct (export_cmd_nonempty c) as (x & t & E). rewrite E. simpl. lia.
Qed.

Lemma rom_cmds_export cs : Forall wf_cmd cs -> forall fuel, (length cs <= fuel)%nat ->
  rom_cmds fuel (cmds_bytes cs) = Some cs.
Proof.
  induction 1 as [|c cs Hc _ IH]; intros fuel Hf.
  - apply rom_cmds_nil.
  - destruct fuel as [|fuel]; [simpl in Hf; lia|].
    rewrite cmds_bytes_cons, rom_cmds_step.
    + rewrite rom_cmd_export by assumption. cbn [obind]. rewrite IH by (simpl in Hf; lia). reflexivity.
    + destruct (export_cmd_nonempty c) as (x & t & E). rewrite E. discriminate.
Qed.

(* ------------------------------------------------------------------ D. 256-byte chunks *)
Lemma sb_align_length k l : (0 < k)%nat -> Nat.modulo (length (sb_align k l)) k = 0%nat.
Proof. intros. unfold sb_align. rewrite app_length, zeros_length. now apply padlen_total. Qed.

Lemma sb_align_256_length l : (0 < length l <= 256)%nat -> length (sb_align 256 l) = 256%nat.
Proof.
  intros H. pose proof (sb_align_length 256 l ltac:(lia)) as M.
  unfold sb_align in *. rewrite app_length, zeros_length in *.
  pose proof (padlen_lt 256 (length l) ltac:(lia)).
  destruct (mod_mult_exists _ 256 ltac:(lia) M) as [q Hq]. lia.
Qed.

Lemma chunk_pad_spec fuel : forall l, (0 < length l)%nat -> (Nat.div (length l) 256 < fuel)%nat ->
  concat (chunk_pad fuel l) = l ++ zeros (padlen 256 (length l)) /\
  Forall (fun c => length c = 256%nat) (chunk_pad fuel l).
Proof.
  induction fuel as [|fuel IH]; intros l Hl Hf; [lia|].
  cbn [chunk_pad]. destruct (Nat.leb_spec (length l) 256) as [Hle|Hgt].
  - cbn [concat]. rewrite app_nil_r. split; [reflexivity|]. constructor; [|constructor].
    apply sb_align_256_length. lia.
  - assert (Hs : length (skipn 256 l) = (length l - 256)%nat) by apply skipn_length.
    assert (Hd : Nat.div (length l) 256 = S (Nat.div (length l - 256) 256)).
    { replace (length l) with ((length l - 256) + 1 * 256)%nat at 1 by lia. rewrite Nat.div_add by lia. lia. }
    destruct (IH (skipn 256 l)) as [IH1 IH2]; [lia | rewrite Hs; lia |].
    split.
    + cbn [concat]. rewrite IH1, Hs, app_assoc, firstn_skipn. f_equal. f_equal.
      replace (length l) with (256 + (length l - 256))%nat at 2 by lia.
      symmetry. apply padlen_add; [lia | reflexivity].
    + constructor; [|exact IH2]. rewrite firstn_length. lia.
Qed.

Lemma data_chunks_spec l : (0 < length l)%nat ->
  concat (data_chunks l) = l ++ zeros (padlen 256 (length l)) /\
  Forall (fun c => length c = 256%nat) (data_chunks l).
Proof. intros. apply chunk_pad_spec; [assumption | lia]. Qed.

(* ------------------------------------------------------------------ E. key derivation, hash chain, forward walk *)
Definition key_ok (k : list N) : Prop := aes_key_ok k = true /\ wf_bytes k.

Lemma be_enc1 v : v < 256 -> be_enc 1 v = [v].
Proof. intros. unfold be_enc. cbn [le_enc rev app]. now rewrite N.mod_small. Qed.

Lemma wf_le_enc w v : wf_bytes (le_enc w v).
Proof. apply le_enc_wf. Qed.
Lemma wf_be_enc w v : wf_bytes (be_enc w v).
Proof. apply be_enc_wf. Qed.

Lemma kdf_spec_lemma (k256 : bool) (Mac : list N -> list N -> list N) key const rights mode : rights < 4 ->
  sb_derive k256 Mac key const rights mode =
  kdf_counter_mode Mac key (le_enc 12 const) (kdf_context k256 rights mode) (key_bits k256).
Proof.
  intros Hr. unfold sb_derive, kdf_counter_mode, kdf_data, kdf_context.
  assert (Hs : be_enc 1 (N.shiftl rights 6) = [64 * rights]).
  { rewrite N.shiftl_mul_pow2. replace (2 ^ 6) with 64 by reflexivity. rewrite N.mul_comm. apply be_enc1. lia. }
  rewrite Hs. change (zeros 1) with [0].
  destruct k256, mode; unfold key_bits; cbn [N.eqb Pos.eqb]; rewrite be_enc1 by reflexivity;
    [change (N.to_nat (256 / 128)) with 2%nat | change (N.to_nat (256 / 128)) with 2%nat
     | change (N.to_nat (128 / 128)) with 1%nat | change (N.to_nat (128 / 128)) with 1%nat];
    cbn [n_range map concat app]; rewrite ?app_nil_r; reflexivity.
Qed.

Lemma descr16_length s : length (descr16 s) = 16%nat.
Proof. unfold descr16. rewrite app_length, zeros_length, firstn_length. lia. Qed.

Lemma sb_header_length hl x bc tl : length (sb_header hl x bc tl) = 60%nat.
Proof. unfold sb_header. rewrite !app_length, !le_enc_length, descr16_length. reflexivity. Qed.

Section Generic.
Variable Hf : list N -> list N.
Variable hl : nat.
Variable k256 : bool.
Variable E D : list N -> blk -> blk.
Variable Mac : list N -> list N -> list N.
Hypothesis H_len : forall m, length (Hf m) = hl.
Hypothesis C_law : forall k b, key_ok k -> okb b -> D k (E k b) = b /\ okb (E k b).
Hypothesis M_law : forall k m, key_ok k -> wf_bytes m -> okb (Mac k m).

Lemma wf_kdf_data const rights mode i : rights < 4 -> wf_bytes (kdf_data k256 const rights mode i).
Proof.
  intros Hr. unfold kdf_data.
  apply wf_bytes_app; [apply wf_le_enc|]. apply wf_bytes_app; [|apply wf_bytes_app; apply wf_be_enc].
  apply wf_bytes_app; [apply wf_zeros|]. apply wf_bytes_app; [apply wf_be_enc|].
  apply wf_bytes_app; [destruct mode; repeat constructor|]. apply wf_bytes_app; [apply wf_zeros | apply wf_be_enc].
Qed.

Lemma sb_derive_key_ok key const rights mode : key_ok key -> rights < 4 ->
  key_ok (sb_derive k256 Mac key const rights mode).
Proof.
  intros Hk Hr. unfold sb_derive.
  destruct (M_law key (kdf_data k256 const rights mode 1) Hk (wf_kdf_data _ _ _ _ Hr)) as [L1 W1].
  destruct (M_law key (kdf_data k256 const rights mode 2) Hk (wf_kdf_data _ _ _ _ Hr)) as [L2 W2].
  unfold key_bits. destruct k256; cbn [N.eqb Pos.eqb].
  - split; [unfold aes_key_ok; rewrite app_length, L1, L2; reflexivity | now apply wf_bytes_app].
  - split; [unfold aes_key_ok; rewrite L1; reflexivity | assumption].
Qed.

(* the chain as a right fold: block n embeds the hash of block n+1 *)
Fixpoint chain (enc : bool) (kdk : list N) (rights : N) (n : N) (chunks : list (list N)) : list N * list (list N) :=
  match chunks with
  | [] => (zeros hl, [])
  | c :: t => let r := chain enc kdk rights (n + 1) t in
              let b := process_block k256 E Mac enc kdk rights (fst r) n c in (Hf b, b :: snd r)
  end.

Lemma process_blocks_chain enc kdk rights chunks :
  process_blocks Hf hl k256 E Mac enc kdk rights chunks = chain enc kdk rights 1 chunks.
Proof.
  unfold process_blocks.
  set (f := fun (acc : list N * list (list N)) (nc : N * list N) =>
              (Hf (process_block k256 E Mac enc kdk rights (fst acc) (fst nc) (snd nc)),
               process_block k256 E Mac enc kdk rights (fst acc) (fst nc) (snd nc) :: snd acc)).
  rewrite <- (rev_involutive (combine _ chunks)) at 1.
  rewrite rev_involutive.
  pose proof (fold_left_rev_right (fun nc acc => f acc nc) (rev (combine (n_range 1 (length chunks)) chunks))
                (zeros hl, [])) as FR.
  rewrite rev_involutive in FR. cbv beta in FR.
  change (fun x y => f x y) with f in FR. rewrite <- FR. clear FR.
  generalize 1%N as n. induction chunks as [|c t IH]; intros n; [reflexivity|].
  cbn [length n_range combine fold_right chain]. rewrite IH. reflexivity.
Qed.

Lemma chain_fst_length enc kdk rights n chunks : length (fst (chain enc kdk rights n chunks)) = hl.
Proof. destruct chunks; cbn [chain fst]; [apply zeros_length | apply H_len]. Qed.

Definition chunk_ok (c : list N) : Prop := length c = 256%nat /\ wf_bytes c.

Lemma okb_zeros16 : okb (zeros 16).
Proof. split; [reflexivity | apply wf_zeros]. Qed.

Definition blk_body (enc : bool) (key chunk : list N) : list N :=
  if enc then cbc_enc (E key) (zeros 16) (sb_align 16 chunk) else chunk.
Definition blk_plain (enc : bool) (key body : list N) : list N :=
  if enc then cbc_dec (D key) (zeros 16) body else body.

Lemma process_block_body enc key chunk : key_ok key -> chunk_ok chunk ->
  length (blk_body enc key chunk) = 256%nat /\ blk_plain enc key (blk_body enc key chunk) = chunk.
Proof.
  intros Hk [Hl Hw]. unfold blk_body, blk_plain.
  assert (M16 : Nat.modulo (length chunk) 16 = 0%nat) by (rewrite Hl; reflexivity).
  destruct enc; [|auto].
  rewrite sb_align_noop by (auto; lia).
  assert (DE : forall b, okb b -> D key (E key b) = b) by (intros b Hb; apply C_law; assumption).
  assert (EO : forall b, okb b -> okb (E key b)) by (intros b Hb; apply C_law; assumption).
  destruct (cbc_enc_length (E key) EO (zeros 16) chunk okb_zeros16 Hw M16) as [L _].
  split; [congruence|]. apply (cbc_dec_enc_l (E key) (D key) DE EO); auto using okb_zeros16.
Qed.

Lemma chain_plain_kdk kdk kdk' rights n chunks :
  chain false kdk rights n chunks = chain false kdk' rights n chunks.
Proof.
  revert n. induction chunks as [|c t IH]; intros n; [reflexivity|]. cbn [chain]. rewrite IH. reflexivity.
Qed.

Lemma rom_walk_chain enc kdk kdk' rights :
  (enc = true -> kdk' = kdk /\ key_ok kdk /\ rights < 4) -> forall chunks n,
  Forall chunk_ok chunks -> n + N.of_nat (length chunks) <= U32 ->
  rom_walk Hf hl k256 D Mac enc kdk' rights (length chunks) n
           (fst (chain enc kdk rights n chunks)) (concat (snd (chain enc kdk rights n chunks))) = Some chunks.
Proof.
  intros Henc. induction chunks as [|c t IH]; intros n Hc Hn.
  - cbn [chain fst snd concat length rom_walk]. rewrite (proj2 (eqb_list_spec _ _) eq_refl). reflexivity.
  - inversion Hc as [|? ? Hc1 Hc2]; subst.
    cbn [chain fst snd concat length rom_walk].
    set (r := chain enc kdk rights (n + 1) t).
    set (key := sb_block_key k256 Mac kdk n rights).
    unfold process_block. fold key. fold (blk_body enc key c).
    set (body := blk_body enc key c) in *.
    assert (BL : length body = 256%nat /\
                 (if enc then cbc_dec (D (kdf_counter_mode Mac kdk' (le_enc 12 n) (kdf_context k256 rights false) (key_bits k256)))
                                      (zeros 16) body else body) = c).
    { destruct enc.
      - destruct (Henc eq_refl) as (-> & Hk & Hr).
        assert (Kk : key_ok key) by (apply sb_derive_key_ok; assumption).
        destruct (process_block_body true key c Kk Hc1) as [BL BD]. split; [exact BL|].
        rewrite <- kdf_spec_lemma by assumption. exact BD.
      - split; [apply Hc1 | reflexivity]. }
    destruct BL as [BL BD].
    assert (LB : length (le_enc 4 n ++ fst r ++ body) = N.to_nat (block_size hl)).
    { rewrite !app_length, le_enc_length, BL. unfold r. rewrite chain_fst_length. unfold block_size. lia. }
    rewrite (rd_app _ _ _ LB). cbn [obind].
    rewrite (proj2 (eqb_list_spec _ _) eq_refl). cbn [guard obind].
    change (le_enc 4 n) with (w32 n). rewrite rdw_app by (cbn [length] in Hn; lia). cbn [obind].
    rewrite N.eqb_refl. cbn [guard obind].
    rewrite rd_app by (unfold r; apply chain_fst_length). cbn [obind].
    unfold r. rewrite IH by (auto; cbn [length] in Hn; lia). cbn [obind].
    fold r. rewrite BD. reflexivity.
Qed.

(* ------------------------------------------------------------------ F. build, then load *)
Lemma wf_hdr4 a b c d : wf_bytes (hdr4 a b c d).
Proof. unfold hdr4, w32. repeat apply wf_bytes_app; apply wf_le_enc. Qed.
Lemma wf_sb_align k l : wf_bytes l -> wf_bytes (sb_align k l).
Proof. intros. unfold sb_align. apply wf_bytes_app; [assumption | apply wf_zeros]. Qed.

Lemma wf_export_cmd c : wf_cmd c -> wf_bytes (export_cmd c).
Proof.
  intros W. destruct (wf_cmd_inv c W) as (_ & WB & _).
  destruct c; cbn [cmd_data] in WB; unfold export_cmd;
    repeat first [apply wf_sb_align | apply wf_bytes_app | apply wf_hdr4 | apply wf_zeros | apply wf_le_enc | assumption].
Qed.

Lemma wf_cmds_bytes cs : Forall wf_cmd cs -> wf_bytes (cmds_bytes cs).
Proof.
  intros H. unfold cmds_bytes. apply wf_bytes_concat. induction H; simpl; constructor; auto using wf_export_cmd.
Qed.

Lemma wf_sb_stream cs : Forall wf_cmd cs -> wf_bytes (sb_stream cs).
Proof. intros. unfold sb_stream, section_header. apply wf_bytes_app; [apply wf_hdr4 | now apply wf_cmds_bytes]. Qed.

Lemma sb_stream_length cs : length (sb_stream cs) = (16 + length (cmds_bytes cs))%nat.
Proof. unfold sb_stream, section_header. now rewrite app_length, hdr4_length. Qed.

Lemma wf_chunk_pad fuel : forall l, wf_bytes l -> Forall wf_bytes (chunk_pad fuel l).
Proof.
  induction fuel as [|fuel IH]; intros l W; cbn [chunk_pad]; [constructor|].
  destruct (Nat.leb (length l) 256).
  - constructor; [now apply wf_sb_align | constructor].
  - constructor; [now apply wf_bytes_firstn | apply IH; now apply wf_bytes_skipn].
Qed.

Lemma data_chunks_ok cs : Forall wf_cmd cs -> Forall chunk_ok (data_chunks (sb_stream cs)).
Proof.
  intros W. destruct (data_chunks_spec (sb_stream cs)) as [_ L]; [rewrite sb_stream_length; lia|].
  pose proof (wf_chunk_pad (S (Nat.div (length (sb_stream cs)) 256)) _ (wf_sb_stream cs W)) as Wc.
  fold (data_chunks (sb_stream cs)) in Wc.
  rewrite Forall_forall in *. intros c Hc. split; auto.
Qed.

Lemma data_chunks_nonempty l : (1 <= length (data_chunks l))%nat.
Proof. unfold data_chunks. cbn [chunk_pad]. destruct (Nat.leb (length l) 256); simpl; lia. Qed.

Lemma blk_body_length enc key c : (enc = true -> key_ok key) -> chunk_ok c -> length (blk_body enc key c) = 256%nat.
Proof.
  intros Hk Hc. destruct enc.
  - now destruct (process_block_body true key c (Hk eq_refl) Hc).
  - apply Hc.
Qed.

Lemma chain_blocks enc kdk rights : (enc = true -> key_ok kdk /\ rights < 4) -> forall chunks n,
  Forall chunk_ok chunks ->
  length (snd (chain enc kdk rights n chunks)) = length chunks /\
  Forall (fun b => length b = (260 + hl)%nat) (snd (chain enc kdk rights n chunks)).
Proof.
  intros Henc. induction chunks as [|c t IH]; intros n Hc; cbn [chain snd length]; [split; [reflexivity | constructor]|].
  inversion Hc as [|? ? Hc1 Hc2]; subst. destruct (IH (n + 1) Hc2) as [IL IFA]. split; [now rewrite IL|].
  constructor; [|exact IFA].
  unfold process_block. fold (blk_body enc (sb_block_key k256 Mac kdk n rights) c).
  rewrite !app_length, le_enc_length, chain_fst_length, blk_body_length; [lia | | assumption].
  intros He. destruct (Henc He). now apply sb_derive_key_ok.
Qed.

Lemma concat_length_uniform (bs : list (list N)) k : Forall (fun b => length b = k) bs -> length (concat bs) = (length bs * k)%nat.
Proof. induction 1 as [|b bs Hb _ IH]; [reflexivity|]. cbn [concat length]. rewrite app_length, IH, Hb. lia. Qed.

Definition image_type (x : sb_input) : N := if i_nxp x then 7 else 6.

Lemma rom_header_built x bc tl fh : length fh = hl ->
  i_flags x < U32 -> bc < U32 -> 1 <= bc -> i_timestamp x < U64 -> i_fwver x < U32 -> tl < U32 -> block_size hl < U32 ->
  rom_header hl (sb_header hl x bc tl ++ fh) =
  Some (mk_hdr (i_flags x) bc (i_timestamp x) (i_fwver x) tl (image_type x) (descr16 (i_descr x)) fh).
Proof.
  intros Hfh Hfl Hbc Hbc1 Hts Hfw Htl Hbs. unfold rom_header, sb_header. rewrite <- !app_assoc.
  rewrite (rd_app SB_MAGIC) by reflexivity. cbn [obind].
  rewrite (proj2 (eqb_list_spec _ _) eq_refl). cbn [guard obind].
  rewrite rd_app by apply le_enc_length. cbn [obind]. rewrite rd_app by apply le_enc_length. cbn [obind].
  rewrite !le_dec_enc_small by reflexivity. cbn [N.eqb Pos.eqb andb guard obind].
  change (le_enc 4) with w32.
  rewrite rdw_app by assumption. cbn [obind]. rewrite rdw_app by assumption. cbn [obind].
  rewrite rdw_app by assumption. cbn [obind].
  rewrite rd_app by apply le_enc_length. cbn [obind].
  rewrite rdw_app by assumption. cbn [obind]. rewrite rdw_app by assumption. cbn [obind].
  rewrite rdw_app by (destruct (i_nxp x); reflexivity). cbn [obind].
  rewrite rdw_app by (unfold cert_offset, block_size, U32 in *; lia). cbn [obind].
  rewrite rd_app by apply descr16_length. cbn [obind].
  rewrite !N.eqb_refl. cbn [andb].
  replace (((if i_nxp x then 7 else 6) =? 6) || ((if i_nxp x then 7 else 6) =? 7)) with true by (destruct (i_nxp x); reflexivity).
  cbn [andb]. rewrite (proj2 (N.leb_le 1 bc) Hbc1). cbn [guard obind].
  rewrite rd_exact by assumption. cbn [obind length Nat.eqb guard].
  rewrite le_dec_enc_small by exact Hts. reflexivity.
Qed.

Definition wf_input (x : sb_input) : Prop :=
  Forall wf_cmd (i_cmds x) /\ i_flags x < U32 /\ i_fwver x < U32 /\ i_timestamp x < U64 /\
  i_cert_expected x = nlen (i_cert x) /\
  60 + N.of_nat hl + nlen (i_cert x) + 2 * N.of_nat hl < U32 /\
  nlen (data_chunks (sb_stream (i_cmds x))) < U32 /\
  nlen (cmds_bytes (i_cmds x)) < U32 /\
  (i_encrypted x = true -> key_ok (i_pck x) /\ i_rights x < 4).

Definition total_len (x : sb_input) : N := 60 + N.of_nat hl + nlen (i_cert x) + 2 * N.of_nat hl.
Definition the_chunks (x : sb_input) : list (list N) := data_chunks (sb_stream (i_cmds x)).
Definition the_kdk (x : sb_input) : list N := sb_kdk k256 Mac (i_pck x) (i_timestamp x) (i_rights x).
Definition the_chain (x : sb_input) : list N * list (list N) :=
  chain (i_encrypted x) (the_kdk x) (i_rights x) 1 (the_chunks x).
(* header || H(block 1) || certificate block: what the signature covers *)
Definition signed_part (x : sb_input) : list N :=
  sb_header hl x (nlen (the_chunks x)) (total_len x) ++ fst (the_chain x) ++ i_cert x.
Definition file_of (x : sb_input) (sig : list N) : list N := signed_part x ++ sig ++ concat (snd (the_chain x)).
Definition state_of (x : sb_input) : sb_state := mk_state (fst (the_chain x)) (nlen (the_chunks x)) (total_len x).
Definition decoded (x : sb_input) (sig : list N) : rom_out :=
  mk_out (i_fwver x) (i_timestamp x) (i_flags x) (image_type x) (descr16 (i_descr x)) (nlen (the_chunks x)) (total_len x)
         (i_cmds x) (signed_part x) (i_cert x) sig.

Lemma wf_cmd_in_range cs : Forall wf_cmd cs -> forallb cmd_in_range cs = true.
Proof.
  induction 1 as [|c cs Hc _ IH]; [reflexivity|]. cbn [forallb]. rewrite IH.
  destruct (wf_cmd_inv c Hc) as (R & _). now rewrite R.
Qed.

Lemma build31_eq x sig s : wf_input x -> 60 <= s_total_len s ->
  build31 Hf hl k256 E Mac s x sig = Ok (state_of x, file_of x sig).
Proof.
  intros (Wc & Wfl & Wfw & Wts & Wce & Wtl & Wbc & Wsl & Wk) Hs. unfold build31.
  destruct (N.ltb_spec (s_total_len s) 60); [lia|].
  rewrite (wf_cmd_in_range _ Wc). cbn [negb].
  rewrite process_blocks_chain. fold (the_chunks x). fold (the_kdk x). fold (the_chain x).
  destruct (the_chain x) as [fh blocks] eqn:EC.
  rewrite Wce. fold (total_len x). fold (total_len x) in Wtl. fold (the_chunks x) in Wbc.
  unfold u32b. rewrite (proj2 (N.ltb_lt _ _) Wfl), (proj2 (N.ltb_lt _ _) Wbc), (proj2 (N.ltb_lt _ _) Wts),
    (proj2 (N.ltb_lt _ _) Wfw), (proj2 (N.ltb_lt _ _) Wtl). cbn [andb negb].
  unfold state_of, file_of, signed_part. rewrite EC. cbn [fst snd]. rewrite <- !app_assoc. reflexivity.
Qed.

Lemma rom31_file x sig : wf_input x -> length sig = (2 * hl)%nat ->
  rom31_g Hf hl k256 D Mac (i_encrypted x) (i_pck x) (i_rights x) (file_of x sig) = Some (decoded x sig).
Proof.
  intros (Wc & Wfl & Wfw & Wts & Wce & Wtl & Wbc & Wsl & Wk) Hsig.
  pose proof (data_chunks_ok _ Wc) as Cok. fold (the_chunks x) in Cok, Wbc.
  pose proof (data_chunks_nonempty (sb_stream (i_cmds x))) as Cne. fold (the_chunks x) in Cne.
  assert (Henc : i_encrypted x = true -> key_ok (the_kdk x) /\ i_rights x < 4).
  { intros He. destruct (Wk He). split; [apply sb_derive_key_ok|]; assumption. }
  destruct (chain_blocks (i_encrypted x) (the_kdk x) (i_rights x) Henc (the_chunks x) 1 Cok) as [CL CF].
  fold (the_chain x) in CL, CF.
  assert (Lfh : length (fst (the_chain x)) = hl) by apply chain_fst_length.
  unfold rom31_g, file_of, signed_part. fold (total_len x) in Wtl.
  (* front: header and H(block 1) *)
  rewrite <- !app_assoc.
  rewrite (app_assoc (sb_header _ _ _ _)).
  rewrite rd_app by (rewrite app_length, sb_header_length, Lfh; reflexivity). cbn [obind].
  rewrite rom_header_built; [ | assumption | assumption | assumption | unfold nlen; lia | assumption | assumption | assumption
                            | unfold block_size, total_len, U32 in *; lia ].
  cbn [obind h_tl h_bcount h_ts h_hash1 h_fw h_flags h_itype h_descr].
  (* lengths *)
  assert (G1 : (N.of_nat (60 + hl + 2 * hl) <=? total_len x) = true) by (apply N.leb_le; unfold total_len; lia).
  assert (G2 : (nlen ((sb_header hl x (nlen (the_chunks x)) (total_len x) ++ fst (the_chain x)) ++
                      i_cert x ++ sig ++ concat (snd (the_chain x))) =?
                total_len x + nlen (the_chunks x) * block_size hl) = true).
  { apply N.eqb_eq. unfold nlen. rewrite !app_length, sb_header_length, Lfh, Hsig.
    rewrite (concat_length_uniform _ _ CF), CL. unfold total_len, block_size, nlen. lia. }
  rewrite G1, G2. cbn [andb guard obind].
  rewrite rd_app by (unfold total_len, nlen; lia). cbn [obind].
  rewrite rd_app by assumption. cbn [obind].
  (* walk *)
  replace (N.to_nat (nlen (the_chunks x))) with (length (the_chunks x)) by (unfold nlen; lia).
  unfold the_chain.
  rewrite (rom_walk_chain (i_encrypted x) (the_kdk x)); [| |assumption|unfold nlen, U32 in *; lia].
  2:{ intros He. destruct (Wk He) as [Kp Hr]. destruct (Henc He) as [Kk _]. split; [|split; assumption].
      unfold the_kdk, sb_kdk. symmetry. now apply kdf_spec_lemma. }
  cbn [obind].
  (* section *)
  unfold the_chunks. destruct (data_chunks_spec (sb_stream (i_cmds x))) as [CC _]; [rewrite sb_stream_length; lia|].
  rewrite CC. unfold sb_stream at 1, section_header, hdr4. rewrite <- !app_assoc.
  rewrite rdw_app by reflexivity. cbn [obind]. rewrite rdw_app by reflexivity. cbn [obind].
  rewrite rdw_app by assumption. cbn [obind]. rewrite rdw_app by reflexivity. cbn [obind].
  cbn [N.eqb Pos.eqb andb guard obind].
  rewrite rdn_app. cbn [obind]. rewrite all_zero_zeros, zeros_length.
  destruct (Nat.ltb_spec (padlen 256 (length (sb_stream (i_cmds x)))) 256) as [_|Hp];
    [|pose proof (padlen_lt 256 (length (sb_stream (i_cmds x)))); lia].
  cbn [andb guard obind].
  rewrite rom_cmds_export by (auto using cmds_bytes_length_ge). cbn [obind].
  unfold decoded, signed_part. f_equal. f_equal.
  replace (N.to_nat (total_len x) - 2 * hl)%nat with
      (length ((sb_header hl x (nlen (data_chunks (sb_stream (i_cmds x)))) (total_len x) ++
                fst (chain (i_encrypted x) (the_kdk x) (i_rights x) 1 (data_chunks (sb_stream (i_cmds x))))) ++ i_cert x)).
  - rewrite (app_assoc (sb_header _ _ _ _)), (app_assoc (_ ++ _) (i_cert x)), firstn_app_exact by reflexivity.
    now rewrite <- app_assoc.
  - rewrite !app_length, sb_header_length. fold (the_chunks x). fold (the_chain x). rewrite Lfh.
    unfold total_len, nlen. lia.
Qed.

(* ------------------------------------------------------------------ G. export histories *)
Lemma total_len_ge x : 60 <= total_len x.
Proof. unfold total_len. lia. Qed.

Lemma exports_eq x : wf_input x -> forall sigs s, 60 <= s_total_len s ->
  exists s', exports Hf hl k256 E Mac s x sigs = Ok (s', map (file_of x) sigs) /\ 60 <= s_total_len s'.
Proof.
  intros W. induction sigs as [|sg more IH]; intros s Hs; cbn [exports map].
  - exists s. split; [reflexivity | assumption].
  - rewrite (build31_eq x sg s W Hs).
    destruct (IH (state_of x)) as (s' & Es & Hs'); [apply total_len_ge|].
    rewrite Es. exists s'. split; [reflexivity | assumption].
Qed.

(* ------------------------------------------------------------------ H. what the chain authenticates *)
(* h is the hash of the first block; every block embeds (bytes 4 .. 4+hl) the hash of its successor; the last one zeros *)
Fixpoint chained (h : list N) (bs : list (list N)) : Prop :=
  match bs with
  | [] => h = zeros hl
  | b :: t => h = Hf b /\ chained (firstn hl (skipn 4 b)) t
  end.

Lemma chain_chained enc kdk rights : forall chunks n,
  chained (fst (chain enc kdk rights n chunks)) (snd (chain enc kdk rights n chunks)).
Proof.
  induction chunks as [|c t IH]; intros n; cbn [chain fst snd chained]; [reflexivity|].
  split; [reflexivity|]. unfold process_block.
  rewrite skipn_app_exact by apply le_enc_length.
  rewrite firstn_app_exact by apply chain_fst_length. apply IH.
Qed.

Lemma obind_some {A B} (o : option A) (f : A -> option B) v : obind o f = Some v -> exists a, o = Some a /\ f a = Some v.
Proof. destruct o; [eauto | discriminate]. Qed.
Lemma guard_some b u : guard b = Some u -> b = true.
Proof. destruct b; [reflexivity | discriminate]. Qed.

Ltac inv_do H :=
  match type of H with
  | obind (guard ?b) _ = Some _ =>
      let G := fresh "G" in destruct b eqn:G; cbn [guard obind] in H; [|discriminate H]
  | obind ?o _ = Some _ =>
      let a := fresh "a" in let Ea := fresh "Ea" in
      destruct o as [a|] eqn:Ea; cbn [obind] in H; [|discriminate H]
  end.

Definition collision : Prop := exists a b : list N, a <> b /\ Hf a = Hf b.

Lemma rom_walk_binds enc kdk rights : forall count n e r1 r2 p1 p2,
  rom_walk Hf hl k256 D Mac enc kdk rights count n e r1 = Some p1 ->
  rom_walk Hf hl k256 D Mac enc kdk rights count n e r2 = Some p2 ->
  r1 = r2 \/ collision.
Proof.
  induction count as [|count IH]; intros n e r1 r2 p1 p2 W1 W2; cbn [rom_walk] in W1, W2.
  - inv_do W1. inv_do W1. inv_do W2. inv_do W2. left.
    apply Nat.eqb_eq in G0, G2. destruct r1, r2; simpl in *; try lia. reflexivity.
  - inv_do W1. destruct a as [b1 r1']. inv_do W1. inv_do W1. destruct a as [n1 q1]. inv_do W1. inv_do W1.
    destruct a as [nx1 pl1]. inv_do W1.
    inv_do W2. destruct a0 as [b2 r2']. inv_do W2. inv_do W2. destruct a0 as [n2 q2]. inv_do W2. inv_do W2.
    destruct a0 as [nx2 pl2]. inv_do W2.
    apply eqb_list_spec in G, G1.
    destruct (rd_some _ _ _ _ Ea) as [-> Lb1]. destruct (rd_some _ _ _ _ Ea3) as [-> Lb2].
    destruct (list_eq_dec N.eq_dec b1 b2) as [Eb|Nb].
    + subst b2. rewrite Ea0 in Ea4. inversion Ea4; subst. rewrite Ea1 in Ea5. inversion Ea5; subst.
      destruct (IH _ _ _ _ _ _ Ea2 Ea6) as [->|C]; [left; reflexivity | right; exact C].
    + right. exists b1, b2. split; [exact Nb | congruence].
Qed.

Lemma app_inj_length {A} (a b c d : list A) : length a = length c -> a ++ b = c ++ d -> a = c /\ b = d.
Proof.
  intros L Eq. split.
  - apply (f_equal (firstn (length a))) in Eq. rewrite firstn_app_exact in Eq by reflexivity.
    rewrite L, firstn_app_exact in Eq by reflexivity. exact Eq.
  - apply (f_equal (skipn (length a))) in Eq. rewrite skipn_app_exact in Eq by reflexivity.
    rewrite L, skipn_app_exact in Eq by reflexivity. exact Eq.
Qed.

(* what acceptance by the loader means for the layout of the file *)
Lemma rom31_inv enc pck rights f o : rom31_g Hf hl k256 D Mac enc pck rights f = Some o ->
  exists pre h cert blocks plains,
    rom_header hl pre = Some h /\ length pre = (60 + hl)%nat /\
    f = pre ++ cert ++ o_sig o ++ blocks /\ o_signed o = pre ++ cert /\ o_cert o = cert /\
    length (o_sig o) = (2 * hl)%nat /\
    N.of_nat (length (pre ++ cert ++ o_sig o)) = o_total_len o /\
    nlen blocks = o_block_count o * block_size hl /\
    o_total_len o = h_tl h /\ o_block_count o = h_bcount h /\
    rom_walk Hf hl k256 D Mac enc (kdf_counter_mode Mac pck (le_enc 12 (h_ts h)) (kdf_context k256 rights true) (key_bits k256))
             rights (N.to_nat (h_bcount h)) 1 (h_hash1 h) blocks = Some plains.
Proof.
  unfold rom31_g. intros H.
  inv_do H. destruct a as [pre r]. inv_do H. rename a into h. inv_do H.
  inv_do H. destruct a as [cert r1]. inv_do H. destruct a as [sig blocks]. inv_do H. rename a into plains.
  inv_do H. destruct a as [uid s1]. inv_do H. destruct a as [stype s2]. inv_do H. destruct a as [slen s3].
  inv_do H. destruct a as [spad s4]. inv_do H. inv_do H. destruct a as [body padding]. inv_do H. inv_do H.
  inversion H; subst o; clear H. cbn [o_sig o_signed o_cert o_total_len o_block_count].
  apply andb_true_iff in G. destruct G as [GA GB]. apply N.leb_le in GA. apply N.eqb_eq in GB.
  destruct (rd_some _ _ _ _ Ea) as [-> Lpre]. destruct (rd_some _ _ _ _ Ea1) as [-> Lcert].
  destruct (rd_some _ _ _ _ Ea2) as [-> Lsig].
  exists pre, h, cert, blocks, plains.
  assert (Lc : (N.to_nat (h_tl h) - 2 * hl)%nat = length (pre ++ cert)) by (rewrite app_length; lia).
  repeat split; try assumption; try reflexivity.
  - replace (N.to_nat (h_tl h) - (hl + (hl + 0)))%nat with (length (pre ++ cert)) by (rewrite app_length; lia).
    rewrite app_assoc. apply firstn_app_exact. reflexivity.
  - rewrite !app_length. lia.
  - unfold nlen in *. rewrite !app_length in GB. lia.
Qed.

Lemma rom_header_hash1_length pre h : rom_header hl pre = Some h -> length (h_hash1 h) = hl.
Proof.
  unfold rom_header. intros H.
  inv_do H. destruct a as [m r]. inv_do H. inv_do H. destruct a as [mi r1]. inv_do H. destruct a as [ma r2].
  inv_do H. inv_do H. destruct a as [fl r3]. inv_do H. destruct a as [bc r4]. inv_do H. destruct a as [bs r5].
  inv_do H. destruct a as [ts r6]. inv_do H. destruct a as [fw r7]. inv_do H. destruct a as [tl r8].
  inv_do H. destruct a as [it r9]. inv_do H. destruct a as [co r10]. inv_do H. destruct a as [de r11].
  inv_do H. inv_do H. destruct a as [h1 r12]. inv_do H. inversion H; subst h. cbn [h_hash1].
  match goal with HH : rd hl _ = Some (h1, _) |- _ => now destruct (rd_some _ _ _ _ HH) end.
Qed.

(* two accepted files with the same signed part agree everywhere except (possibly) in the signature field,
   unless two different blocks with the same hash are exhibited *)
Lemma signature_binds_lemma enc pck rights f1 f2 o1 o2 :
  rom31_g Hf hl k256 D Mac enc pck rights f1 = Some o1 ->
  rom31_g Hf hl k256 D Mac enc pck rights f2 = Some o2 ->
  o_signed o1 = o_signed o2 ->
  f2 = o_signed o1 ++ o_sig o2 ++ skipn (N.to_nat (o_total_len o1)) f1 \/ collision.
Proof.
  intros R1 R2 S.
  destruct (rom31_inv _ _ _ _ _ R1) as (pre1 & h1 & cert1 & bl1 & pl1 & Hh1 & Lp1 & F1 & S1 & _ & Ls1 & T1 & _ & Tl1 & Bc1 & W1).
  destruct (rom31_inv _ _ _ _ _ R2) as (pre2 & h2 & cert2 & bl2 & pl2 & Hh2 & Lp2 & F2 & S2 & _ & Ls2 & T2 & _ & Tl2 & Bc2 & W2).
  rewrite S1, S2 in S. destruct (app_inj_length pre1 cert1 pre2 cert2 ltac:(congruence) S) as [-> ->].
  rewrite Hh1 in Hh2. inversion Hh2; subst h2.
  destruct (rom_walk_binds _ _ _ _ _ _ _ _ _ _ W1 W2) as [->|C]; [left | right; exact C].
  rewrite F2, S1, <- app_assoc. f_equal. f_equal. f_equal.
  rewrite F1, <- T1, Nat2N.id. rewrite !app_assoc. rewrite skipn_app_exact; [reflexivity|].
  now rewrite <- !app_assoc.
Qed.

(* ------------------------------------------------------------------ generic forms of the property theorems *)
Theorem rom31_build_first_g x sig s : wf_input x -> 60 <= s_total_len s -> length sig = (2 * hl)%nat ->
  build31 Hf hl k256 E Mac s x sig = Ok (state_of x, file_of x sig) /\
  rom31_g Hf hl k256 D Mac (i_encrypted x) (i_pck x) (i_rights x) (file_of x sig) = Some (decoded x sig).
Proof. intros W Hs Hl. split; [now apply build31_eq | now apply rom31_file]. Qed.

Theorem rom31_build_history_g x sigs s : wf_input x -> 60 <= s_total_len s ->
  Forall (fun sg => length sg = (2 * hl)%nat) sigs ->
  exists s', exports Hf hl k256 E Mac s x sigs = Ok (s', map (file_of x) sigs) /\
             Forall (fun sg => rom31_g Hf hl k256 D Mac (i_encrypted x) (i_pck x) (i_rights x) (file_of x sg)
                               = Some (decoded x sg)) sigs.
Proof.
  intros W Hs Hl. destruct (exports_eq x W sigs s Hs) as (s' & Es & _). exists s'. split; [exact Es|].
  eapply Forall_impl; [|exact Hl]. intros sg Hsg. now apply rom31_file.
Qed.

Theorem chain_authenticates_g x sig : wf_input x ->
  file_of x sig = sb_header hl x (nlen (the_chunks x)) (total_len x) ++ fst (the_chain x) ++ i_cert x ++ sig
                  ++ concat (snd (the_chain x)) /\
  chained (fst (the_chain x)) (snd (the_chain x)) /\
  length (snd (the_chain x)) = length (the_chunks x) /\
  Forall (fun b => length b = (260 + hl)%nat) (snd (the_chain x)).
Proof.
  intros (Wc & Wfl & Wfw & Wts & Wce & Wtl & Wbc & Wsl & Wk).
  split; [unfold file_of, signed_part; now rewrite <- !app_assoc|].
  split; [apply chain_chained|].
  apply chain_blocks; [|now apply data_chunks_ok].
  intros He. destruct (Wk He). split; [apply sb_derive_key_ok|]; assumption.
Qed.

Theorem coverage31_g enc pck rights f o : rom31_g Hf hl k256 D Mac enc pck rights f = Some o ->
  exists blocks, f = o_signed o ++ o_sig o ++ blocks /\
                 length (o_sig o) = (2 * hl)%nat /\
                 N.of_nat (length (o_signed o ++ o_sig o)) = o_total_len o /\
                 nlen blocks = o_block_count o * block_size hl.
Proof.
  intros R. destruct (rom31_inv _ _ _ _ _ R) as (pre & h & cert & bl & pl & Hh & Lp & F & S & _ & Ls & T & B & _).
  exists bl. rewrite S. repeat split; try assumption.
  - now rewrite <- app_assoc.
  - now rewrite <- app_assoc.
Qed.

End Generic.

Lemma export_cmd_aligned c : Nat.modulo (length (export_cmd c)) 16 = 0%nat.
Proof.
  destruct c; unfold export_cmd; rewrite ?app_length, ?hdr4_length, ?zeros_length;
    try reflexivity; try (apply sb_align_length; lia).
  pose proof (sb_align_length 16 (hdr4 SB_TAG addr (nlen data) 9 ++ hdr4 mem 0 0 0 ++ data) ltac:(lia)) as M.
  rewrite Nat.add_mod, M by lia. reflexivity.
Qed.

Lemma cmds_bytes_aligned cs : Nat.modulo (length (cmds_bytes cs)) 16 = 0%nat.
Proof.
  induction cs as [|c cs IH]; [reflexivity|].
  rewrite cmds_bytes_cons, app_length, Nat.add_mod, export_cmd_aligned, IH by lia. reflexivity.
Qed.

Theorem stream_ends_everywhere_lemma :
  (forall cs, let s := sb_stream cs in
     concat (data_chunks s) = s ++ zeros (padlen 256 (length s)) /\ (padlen 256 (length s) < 256)%nat /\
     Forall (fun c => length c = 256%nat) (data_chunks s) /\ Nat.modulo (length s) 16 = 0%nat) /\
  (forall m : nat, exists cs, Forall wf_cmd cs /\ length (sb_stream cs) = (16 * (m + 1))%nat).
Proof.
  split.
  - intros cs s. destruct (data_chunks_spec s) as [A B]; [unfold s; rewrite sb_stream_length; lia|].
    split; [exact A|]. split; [apply padlen_lt; lia|]. split; [exact B|].
    unfold s. rewrite sb_stream_length, Nat.add_mod, cmds_bytes_aligned by lia. reflexivity.
  - intros m. exists (repeat CReset m). split.
    + induction m; simpl; constructor; auto. reflexivity.
    + rewrite sb_stream_length. induction m as [|m IH]; [reflexivity|].
      cbn [repeat]. rewrite cmds_bytes_cons, app_length. unfold export_cmd at 1. rewrite hdr4_length. lia.
Qed.

(* ------------------------------------------------------------------ I. the concrete primitives satisfy the laws *)
Lemma digest_bytes_length c s : length (digest_bytes c s) = (8 * wbytes c)%nat.
Proof.
  destruct s as [[[[[[[a b] cc] d] e] f] g] h]. unfold digest_bytes. cbn [map concat].
  rewrite !app_length, !be_enc_length. simpl. lia.
Qed.

Lemma sha_len b384 m : length (sha_of b384 m) = hl_of b384.
Proof.
  destruct b384; unfold sha_of, hl_of, sha384, sha256, sha2; rewrite firstn_length, digest_bytes_length;
    reflexivity.
Qed.

Lemma aes_law k b : key_ok k -> okb b -> aes_D k (aes_E k b) = b /\ okb (aes_E k b).
Proof. intros [K W] Hb. exact (aes_dec_enc k b K W Hb). Qed.

Lemma okb_cmac_dbl b : okb (cmac_dbl b).
Proof. unfold cmac_dbl. split; [apply be_enc_length | apply be_enc_wf]. Qed.

Lemma chunked_split bs : chunked 16 bs -> Forall wf_bytes bs ->
  Forall okb (removelast bs) /\ (length (last bs []) <= 16)%nat /\ wf_bytes (last bs []).
Proof.
  induction bs as [|b t IH]; intros C W.
  - split; [constructor|]. split; [simpl; lia | constructor].
  - inversion W as [|? ? Wb Wt]; subst. destruct t as [|b' t'].
    + cbn [removelast last chunked] in *. split; [constructor|]. split; [lia | assumption].
    + destruct C as [Lb C']. destruct (IH C' Wt) as (I1 & I2 & I3).
      change (removelast (b :: b' :: t')) with (b :: removelast (b' :: t')).
      change (last (b :: b' :: t') []) with (last (b' :: t') []).
      split; [constructor; [split; assumption | exact I1]|]. split; assumption.
Qed.

Lemma cbc_mac_ok (F : blk -> blk) : (forall b, okb b -> okb (F b)) -> forall l acc,
  Forall okb l -> okb acc -> okb (fold_left (fun a b => F (xor_bytes b a)) l acc).
Proof.
  intros HF. induction l as [|b l IH]; intros acc Hl Ha; [exact Ha|].
  inversion Hl; subst. cbn [fold_left]. apply IH; [assumption|]. apply HF, okb_xor; assumption.
Qed.

Lemma cmac_law k m : key_ok k -> wf_bytes m -> okb (aes_cmac k m).
Proof.
  intros [K W] Wm. unfold aes_cmac. cbv zeta.
  assert (HF : forall b, okb b -> okb (cipher_rks (key_expansion k) b)).
  { intros b Hb. exact (proj2 (aes_dec_enc k b K W Hb)). }
  unfold cmac_gen. cbv zeta.
  destruct (chunked_split (chunks BS m) (chunked_chunks 16 m ltac:(lia)) (wf_chunks 16 m Wm)) as (B1 & B2 & B3).
  unfold cbc_mac. apply cbc_mac_ok; [exact HF | | split; [reflexivity | apply wf_zeros]].
  apply Forall_app. split; [exact B1|]. constructor; [|constructor].
  set (lastb := last (chunks BS m) []) in *.
  destruct (Nat.eqb_spec (length lastb) BS) as [E16|N16].
  - apply okb_xor; [split; assumption | apply okb_cmac_dbl].
  - apply okb_xor; [|apply okb_cmac_dbl]. unfold BS in *. split.
    + rewrite !app_length, zeros_length. cbn [length]. lia.
    + repeat apply wf_bytes_app; [assumption | repeat constructor | apply wf_zeros].
Qed.

(* ------------------------------------------------------------------ J. the model that is executed against SPSDK *)
Definition wf_input_c (b384 : bool) : sb_input -> Prop := wf_input (hl_of b384).
Definition the_chain_c (b384 : bool) := the_chain (sha_of b384) (hl_of b384) b384 aes_E aes_cmac.
Definition signed_part_c (b384 : bool) := signed_part (sha_of b384) (hl_of b384) b384 aes_E aes_cmac.
Definition file_of_c (b384 : bool) := file_of (sha_of b384) (hl_of b384) b384 aes_E aes_cmac.
Definition state_of_c (b384 : bool) := state_of (sha_of b384) (hl_of b384) b384 aes_E aes_cmac.
Definition decoded_c (b384 : bool) := decoded (sha_of b384) (hl_of b384) b384 aes_E aes_cmac.
Definition rom31_c (b384 : bool) := rom31_g (sha_of b384) (hl_of b384) b384 aes_D aes_cmac.
Definition chained_c (b384 : bool) := chained (sha_of b384) (hl_of b384).
Definition collision_c (b384 : bool) := collision (sha_of b384).

Lemma slice_16_20 (a b c d e : list N) v r :
  length a = 4%nat -> length b = 2%nat -> length c = 2%nat -> length d = 4%nat -> length e = 4%nat ->
  slice (a ++ b ++ c ++ d ++ e ++ w32 v ++ r) 16 20 = w32 v.
Proof.
  intros. unfold slice. change (20 - 16)%nat with 4%nat.
  rewrite (app_assoc a), (app_assoc (a ++ b)), (app_assoc ((a ++ b) ++ c)), (app_assoc (((a ++ b) ++ c) ++ d)).
  rewrite skipn_app_exact by (rewrite !app_length; lia). apply firstn4_w32.
Qed.

(* the loader's choice of hash from the block size field agrees with the container's hash type *)
Lemma file_bsize b384 x sig : le_dec (slice (file_of_c b384 x sig) 16 20) = block_size (hl_of b384).
Proof.
  unfold file_of_c, file_of, signed_part, sb_header. rewrite <- !app_assoc.
  change (le_enc 4 (block_size (hl_of b384))) with (w32 (block_size (hl_of b384))).
  rewrite slice_16_20 by (try apply le_enc_length; reflexivity).
  apply w32_dec. destruct b384; reflexivity.
Qed.

Lemma rom31_dispatch b384 x sig enc pck rights :
  rom31 enc pck rights (file_of_c b384 x sig) = rom31_c b384 enc pck rights (file_of_c b384 x sig).
Proof. unfold rom31. rewrite file_bsize. destruct b384; reflexivity. Qed.

Theorem rom31_build_first_lemma b384 x sig s :
  wf_input_c b384 x -> 60 <= s_total_len s -> length sig = (2 * hl_of b384)%nat ->
  build31_c b384 s x sig = Ok (state_of_c b384 x, file_of_c b384 x sig) /\
  rom31 (i_encrypted x) (i_pck x) (i_rights x) (file_of_c b384 x sig) = Some (decoded_c b384 x sig).
Proof.
  intros W Hs Hl. rewrite rom31_dispatch.
  exact (rom31_build_first_g (sha_of b384) (hl_of b384) b384 aes_E aes_D aes_cmac (sha_len b384) aes_law cmac_law x sig s W Hs Hl).
Qed.

Theorem rom31_build_history_lemma b384 x sigs s :
  wf_input_c b384 x -> 60 <= s_total_len s -> Forall (fun sg => length sg = (2 * hl_of b384)%nat) sigs ->
  exists s', exports_c b384 s x sigs = Ok (s', map (file_of_c b384 x) sigs) /\
             Forall (fun sg => rom31 (i_encrypted x) (i_pck x) (i_rights x) (file_of_c b384 x sg)
                               = Some (decoded_c b384 x sg)) sigs.
Proof.
  intros W Hs Hl.
  destruct (rom31_build_history_g (sha_of b384) (hl_of b384) b384 aes_E aes_D aes_cmac (sha_len b384) aes_law cmac_law
              x sigs s W Hs Hl) as (s' & Es & F).
  exists s'. split; [exact Es|]. eapply Forall_impl; [|exact F]. intros sg H. rewrite rom31_dispatch. exact H.
Qed.

Theorem chain_authenticates_lemma b384 x sig : wf_input_c b384 x ->
  file_of_c b384 x sig =
    sb_header (hl_of b384) x (nlen (the_chunks x)) (total_len (hl_of b384) x) ++ fst (the_chain_c b384 x) ++ i_cert x ++ sig
    ++ concat (snd (the_chain_c b384 x)) /\
  chained_c b384 (fst (the_chain_c b384 x)) (snd (the_chain_c b384 x)) /\
  length (snd (the_chain_c b384 x)) = length (the_chunks x) /\
  Forall (fun b => length b = (260 + hl_of b384)%nat) (snd (the_chain_c b384 x)).
Proof.
  exact (chain_authenticates_g (sha_of b384) (hl_of b384) b384 aes_E aes_D aes_cmac (sha_len b384) aes_law cmac_law x sig).
Qed.

Theorem signature_binds_whole_file_lemma b384 enc pck rights f1 f2 o1 o2 :
  rom31_c b384 enc pck rights f1 = Some o1 -> rom31_c b384 enc pck rights f2 = Some o2 -> o_signed o1 = o_signed o2 ->
  f2 = o_signed o1 ++ o_sig o2 ++ skipn (N.to_nat (o_total_len o1)) f1 \/ collision_c b384.
Proof.
  exact (signature_binds_lemma (sha_of b384) (hl_of b384) b384 aes_E aes_D aes_cmac (sha_len b384) aes_law cmac_law
           enc pck rights f1 f2 o1 o2).
Qed.

Theorem coverage31_lemma b384 enc pck rights f o : rom31_c b384 enc pck rights f = Some o ->
  exists blocks, f = o_signed o ++ o_sig o ++ blocks /\
                 length (o_sig o) = (2 * hl_of b384)%nat /\
                 N.of_nat (length (o_signed o ++ o_sig o)) = o_total_len o /\
                 nlen blocks = o_block_count o * block_size (hl_of b384).
Proof.
  exact (coverage31_g (sha_of b384) (hl_of b384) b384 aes_E aes_D aes_cmac (sha_len b384) aes_law cmac_law enc pck rights f o).
Qed.

Theorem kdf_spec_concrete b384 key const rights mode : rights < 4 ->
  sb_derive b384 aes_cmac key const rights mode =
    kdf_counter_mode aes_cmac key (le_enc 12 const) (kdf_context b384 rights mode) (key_bits b384) /\
  (key_ok key -> N.of_nat (8 * length (sb_derive b384 aes_cmac key const rights mode)) = key_bits b384 /\
                 wf_bytes (sb_derive b384 aes_cmac key const rights mode)).
Proof.
  intros Hr. split; [now apply kdf_spec_lemma|]. intros Hk.
  destruct (sb_derive_key_ok b384 aes_cmac cmac_law key const rights mode Hk Hr) as [K W]. split; [|exact W].
  unfold sb_derive in *.
  destruct (cmac_law key (kdf_data b384 const rights mode 1) Hk (wf_kdf_data b384 _ _ _ _ Hr)) as [L1 _].
  destruct (cmac_law key (kdf_data b384 const rights mode 2) Hk (wf_kdf_data b384 _ _ _ _ Hr)) as [L2 _].
  destruct b384; unfold key_bits; cbn [N.eqb Pos.eqb]; rewrite ?app_length, ?L1, ?L2; reflexivity.
Qed.

(* ---- the hypotheses are satisfiable: a concrete encrypted container with two blocks ---- *)
Definition sample_input : sb_input :=
  mk_input true (map N.of_nat (seq 1 16)) 2 12345 7 3 false [104; 105]
           [CErase 256 512 0; CLoad 256 1 (map N.of_nat (seq 0 230)); CProgFuses 16 [1; 2; 3; 4]; CLoadKeyBlob 4 16 [9; 9; 9];
            CFwVersionCheck 5 2; CReset]
           (repeat 7 200) 200.

Example sample_wf : wf_input_c false sample_input.
Proof.
  unfold wf_input_c, wf_input, sample_input. cbn [i_cmds i_flags i_fwver i_timestamp i_cert_expected i_cert i_encrypted i_pck i_rights].
  split; [repeat constructor|]. repeat split; try reflexivity.
  apply wf_bytesb_spec. reflexivity.
Qed.

Example sample_accepted :
  let f := file_of_c false sample_input (repeat 1 64) in
  length f = (60 + 32 + 200 + 64 + 2 * 292)%nat /\
  rom31 true (i_pck sample_input) 2 f = Some (decoded_c false sample_input (repeat 1 64)).
Proof. vm_compute. split; reflexivity. Qed.

(* ------------------------------------------------------------------ T1 ties: literal tables extracted from the source *)
Definition all_cmd_shapes : list cmd :=
  [CErase 0 0 0; CLoad 0 0 []; CExecute 0; CCall 0; CProgFuses 0 []; CProgIfr 0 []; CLoadCmac 0 0 []; CCopy 0 0 0 0 0;
   CLoadHashLocking 0 0 []; CLoadKeyBlob 0 0 []; CConfigureMemory 0 0; CFillMemory 0 0 0; CFwVersionCheck 0 0; CReset].
Definition nsum (l : list nat) : nat := fold_right Nat.add 0%nat l.

Example tie_tags :
  gen_own_tags = map cmd_tag all_cmd_shapes /\ gen_dispatch_tags = gen_own_tags /\ gen_tag_none = 0 /\ gen_tag_max = 14 /\
  gen_cmd_magic = SB_TAG /\ gen_counter_ids = [0; 1; 2; 3; 4; 5].
Proof. repeat split; reflexivity. Qed.

(* every exported command carries the extracted magic and its extracted tag at bytes 0..4 and 12..16 *)
Example tie_export_tags :
  map (fun c => (le_dec (firstn 4 (export_cmd c)), le_dec (firstn 4 (skipn 12 (export_cmd c))))) all_cmd_shapes
  = map (fun t => (gen_cmd_magic, t)) gen_own_tags.
Proof. vm_compute. reflexivity. Qed.

Example tie_formats :
  gen_base_widths = [4; 4; 4; 4]%nat /\ gen_keyblob_widths = [4; 2; 2; 4; 4]%nat /\ gen_section_widths = [4; 4; 4; 4]%nat /\
  gen_header_widths = [4; 2; 2; 4; 4; 4; 8; 4; 4; 4; 4; 16]%nat /\
  length (export_cmd CReset) = nsum gen_base_widths /\ length (export_cmd (CLoadKeyBlob 0 0 [])) = nsum gen_keyblob_widths /\
  length (section_header 0) = nsum gen_section_widths /\
  (forall hl x bc tl, length (sb_header hl x bc tl) = nsum gen_header_widths).
Proof. repeat split; try reflexivity. intros. apply sb_header_length. Qed.

Example tie_container :
  gen_magic = SB_MAGIC /\ gen_version = (3, 1) /\ gen_descr_len = 16%nat /\ gen_chunk_len = 256%nat /\
  (forall hl, block_size hl = 4 + N.of_nat gen_chunk_len + N.of_nat hl) /\
  (forall l, (0 < length l)%nat -> Forall (fun c => length c = gen_chunk_len) (data_chunks l)).
Proof.
  repeat split; try reflexivity.
  intros l H. now destruct (data_chunks_spec l H).
Qed.

(* literals of _get_key_derivation_data (range checks 0..3 / 128,256; label 12 bytes; 8 zero bytes; << 6; b"\x01"; b"\x10";
   one zero byte; 0x20 / 128 / 0x21; two 4-byte big-endian fields) and of _derive_key (iteration 1; 256 -> iteration 2) *)
Example tie_kdf :
  gen_kdf_data_literals = [0; 1; 2; 3; 128; 256; 12; 8; 6; 1; 1001; 1016; 1; 32; 128; 33; 1; 4; 4] /\
  gen_derive_literals = [1; 256; 2].
Proof. split; reflexivity. Qed.
