(* Proofs/Sb31Proofs.v -- lemmas about Model/Sb31Model.v (C05). *)
From Coq Require Import ZArith NArith List Bool Lia.
Require Import Value Bytes BytesProofs Sha2 Aes Modes Cmac CryptoProofs Sb31Model.
Import ListNotations.
Local Open Scope N_scope.
Ltac Zify.zify_post_hook ::= Z.to_euclidean_division_equations.

(* ------------------------------------------------------------------ A. readers over concatenations *)
Lemma firstn_app_exact {A} (a r : list A) n : length a = n -> firstn n (a ++ r) = a.
Proof. intros <-. rewrite firstn_app, Nat.sub_diag, firstn_all. simpl. apply app_nil_r. Qed.
Lemma skipn_app_exact {A} (a r : list A) n : length a = n -> skipn n (a ++ r) = r.
Proof. intros <-. rewrite skipn_app, Nat.sub_diag, skipn_all. reflexivity. Qed.

Lemma rd_app a r n : length a = n -> rd n (a ++ r) = Some (a, r).
Proof.
  intros H. unfold rd. rewrite app_length.
  destruct (Nat.ltb_spec (length a + length r) n); [lia|].
  now rewrite firstn_app_exact, skipn_app_exact.
Qed.
Lemma rd_exact a n : length a = n -> rd n a = Some (a, []).
Proof. intros H. rewrite <- (app_nil_r a) at 1. now apply rd_app. Qed.

Lemma rd_some n l a r : rd n l = Some (a, r) -> l = a ++ r /\ length a = n.
Proof.
  unfold rd. destruct (Nat.ltb_spec (length l) n); [discriminate|].
  intros E. inversion E; subst. split; [symmetry; apply firstn_skipn | rewrite firstn_length; lia].
Qed.

Lemma w32_length v : length (w32 v) = 4%nat.
Proof. apply le_enc_length. Qed.
Lemma w32_dec v : v < U32 -> le_dec (w32 v) = v.
Proof. intros H. unfold w32. apply le_dec_enc_small. exact H. Qed.
Lemma rdw_app v r : v < U32 -> rdw (w32 v ++ r) = Some (v, r).
Proof. intros H. unfold rdw. rewrite rd_app by apply w32_length. cbn [obind]. now rewrite w32_dec. Qed.

Lemma nlen_app {A} (a b : list A) : nlen (a ++ b) = nlen a + nlen b.
Proof. unfold nlen. rewrite app_length. lia. Qed.

Lemma rdn_app a r : rdn (nlen a) (a ++ r) = Some (a, r).
Proof.
  unfold rdn. rewrite nlen_app. destruct (N.ltb_spec (nlen a + nlen r) (nlen a)); [lia|].
  unfold nlen. rewrite Nat2N.id. now apply rd_app.
Qed.

Lemma all_zero_zeros n : all_zero (zeros n) = true.
Proof. unfold all_zero, zeros. induction n; simpl; auto. Qed.
Lemma zeros_length n : length (zeros n) = n.
Proof. apply repeat_length. Qed.
Lemma wf_zeros n : wf_bytes (zeros n).
Proof. unfold wf_bytes, zeros. induction n; simpl; constructor; auto. reflexivity. Qed.

Lemma rd_padded_app d r :
  rd_padded (nlen d) (d ++ zeros (padlen 16 (length d)) ++ r) = Some (d, r).
Proof.
  unfold rd_padded. rewrite rdn_app. cbn [obind]. rewrite rd_app by apply zeros_length. cbn [obind].
  now rewrite all_zero_zeros.
Qed.

Lemma hdr4_length a b c d : length (hdr4 a b c d) = 16%nat.
Proof. unfold hdr4. now rewrite !app_length, !w32_length. Qed.

Lemma rd_ext_app a b c d r : a < U32 -> b < U32 -> c < U32 -> d < U32 ->
  rd_ext (hdr4 a b c d ++ r) = Some (a, b, c, d, r).
Proof.
  intros. unfold rd_ext, hdr4. rewrite <- !app_assoc.
  rewrite rdw_app by assumption. cbn [obind]. rewrite rdw_app by assumption. cbn [obind].
  rewrite rdw_app by assumption. cbn [obind]. rewrite rdw_app by assumption. reflexivity.
Qed.

Lemma padlen_add k a b : (0 < k)%nat -> Nat.modulo a k = 0%nat -> padlen k (a + b) = padlen k b.
Proof.
  intros Hk Ha. unfold padlen. rewrite Nat.add_mod by lia. rewrite Ha. simpl.
  now rewrite Nat.mod_mod by lia.
Qed.
Lemma padlen_lt k n : (0 < k)%nat -> (padlen k n < k)%nat.
Proof. intros. unfold padlen. apply Nat.mod_upper_bound. lia. Qed.
Lemma padlen_total k n : (0 < k)%nat -> Nat.modulo (n + padlen k n) k = 0%nat.
Proof.
  intros Hk. unfold padlen.
  pose proof (Nat.mod_upper_bound n k ltac:(lia)) as Hb.
  pose proof (Nat.div_mod n k ltac:(lia)) as Hd.
  destruct (Nat.eq_dec (Nat.modulo n k) 0) as [E|E].
  - rewrite E, Nat.sub_0_r, Nat.mod_same, Nat.add_0_r by lia. exact E.
  - rewrite (Nat.mod_small (k - Nat.modulo n k) k) by lia.
    replace (n + (k - Nat.modulo n k))%nat with (k * Nat.div n k + 1 * k)%nat by lia.
    rewrite Nat.mod_add by lia. rewrite Nat.mul_comm. apply Nat.mod_mul. lia.
Qed.

Lemma sb_align_app h d : Nat.modulo (length h) 16 = 0%nat ->
  sb_align 16 (h ++ d) = h ++ d ++ zeros (padlen 16 (length d)).
Proof.
  intros H. unfold sb_align. rewrite app_length, padlen_add by (auto; lia). now rewrite app_assoc.
Qed.

Lemma sb_align_noop k l : (0 < k)%nat -> Nat.modulo (length l) k = 0%nat -> sb_align k l = l.
Proof.
  intros Hk H. unfold sb_align, padlen. rewrite H, Nat.sub_0_r, Nat.mod_same by lia. simpl. apply app_nil_r.
Qed.

(* bounds *)
Lemma u32b_lt v : u32b v = true -> v < U32.
Proof. unfold u32b. apply N.ltb_lt. Qed.
Lemma u16b_lt v : u16b v = true -> v < U16.
Proof. unfold u16b. apply N.ltb_lt. Qed.

(* firstn / skipn through words *)
Lemma firstn4_w32 v r : firstn 4 (w32 v ++ r) = w32 v.
Proof. apply firstn_app_exact, w32_length. Qed.
Lemma skipn4_w32 v r : skipn 4 (w32 v ++ r) = r.
Proof. apply skipn_app_exact, w32_length. Qed.

Lemma take_n_app d r : take_n (nlen d) (d ++ r) = d.
Proof.
  unfold take_n. rewrite nlen_app, N.min_l by lia. unfold nlen. rewrite Nat2N.id.
  now apply firstn_app_exact.
Qed.

(* ------------------------------------------------------------------ B. parse_command (export_cmd c) = c *)
Lemma split4_hdr4 a b c d r : a < U32 -> b < U32 -> c < U32 -> d < U32 ->
  split4 (hdr4 a b c d ++ r) = (a, b, c, d, r).
Proof.
  intros. unfold split4, hdr4. cbv zeta. rewrite <- !app_assoc.
  rewrite !skipn4_w32, !firstn4_w32, !w32_dec by assumption. reflexivity.
Qed.

Lemma SB_TAG_lt : SB_TAG < U32.
Proof. reflexivity. Qed.

Lemma parse_command_hdr f1b f2 t body : length f1b = 4%nat -> f2 < U32 -> t < U32 ->
  parse_command (w32 SB_TAG ++ f1b ++ w32 f2 ++ w32 t ++ body) = parse_body f1b f2 t body.
Proof.
  intros Hl H2 Ht. unfold parse_command.
  rewrite !app_length, !w32_length, Hl.
  destruct (Nat.ltb_spec (4 + (4 + (4 + (4 + length body)))) 4); [lia|].
  destruct (Nat.ltb_spec (4 + (4 + (4 + (4 + length body)))) 16); [lia|].
  rewrite firstn4_w32, (w32_dec _ SB_TAG_lt), N.eqb_refl. cbn [negb]. cbv zeta.
  rewrite !skipn4_w32.
  rewrite (firstn_app_exact f1b _ 4 Hl), (skipn_app_exact f1b _ 4 Hl).
  rewrite !skipn4_w32, !firstn4_w32, !w32_dec by assumption. reflexivity.
Qed.

Lemma wf_cmd_inv c : wf_cmd c ->
  cmd_in_range c = true /\ wf_bytes (cmd_data c) /\
  match c with CProgFuses _ d => nlen d mod 4 = 0 | _ => True end.
Proof.
  unfold wf_cmd, wf_cmdb. rewrite !andb_true_iff. intros [[H1 H2] H3].
  split; [exact H1|]. split; [now apply wf_bytesb_spec|].
  destruct c; auto. now apply N.eqb_eq.
Qed.

Ltac range_hyps :=
  repeat match goal with
         | H : _ && _ = true |- _ => apply andb_true_iff in H; destruct H
         | H : u32b _ = true |- _ => apply u32b_lt in H
         | H : u16b _ = true |- _ => apply u16b_lt in H
         | H : (_ <? _) = true |- _ => apply N.ltb_lt in H
         end.

Lemma lt_U32_small v : v < 16 -> v < U32.
Proof. intros. unfold U32. lia. Qed.

Lemma div4_lt v : v < U32 -> v / 4 < U32.
Proof. intros. apply N.le_lt_trans with v; [|assumption]. apply N.div_le_upper_bound; lia. Qed.

Lemma le_enc2_dec v : v < U16 -> le_dec (le_enc 2 v) = v.
Proof. intros H. apply le_dec_enc_small. exact H. Qed.

Ltac finish_parse :=
  cbn -[le_dec w32 hdr4 take_n nlen le_enc N.mul N.div N.modulo zeros padlen]; try reflexivity.

(* header, memory-id block, data, zero padding [, trailer] *)
Ltac load_case :=
  rewrite (app_assoc (hdr4 _ _ _ _) (hdr4 _ _ _ _)), sb_align_app by (rewrite app_length, !hdr4_length; reflexivity);
  unfold hdr4 at 1; rewrite <- !app_assoc;
  rewrite parse_command_hdr by (try apply w32_length; auto; reflexivity);
  unfold parse_body; rewrite split4_hdr4 by (auto; reflexivity);
  rewrite app_length, hdr4_length, w32_dec, take_n_app by assumption;
  finish_parse.

Theorem cmd_roundtrip_lemma c : wf_cmd c -> parse_command (export_cmd c) = Ok c.
Proof.
  intros W. destruct (wf_cmd_inv c W) as (R & WB & F). clear W.
  destruct c; cbn [cmd_in_range cmd_data] in *; range_hyps; unfold export_cmd.
  - (* erase *)
    unfold hdr4 at 1. rewrite <- !app_assoc.
    rewrite parse_command_hdr by (try apply w32_length; auto; reflexivity).
    rewrite <- (app_nil_r (hdr4 mem 0 0 0)).
    unfold parse_body. rewrite split4_hdr4 by (auto; reflexivity).
    rewrite app_length, hdr4_length, w32_dec by assumption. finish_parse.
  - (* load *) load_case.
  - (* execute *)
    unfold hdr4. rewrite <- (app_nil_r (w32 3)).
    rewrite parse_command_hdr by (try apply w32_length; auto; reflexivity).
    unfold parse_body. rewrite w32_dec by assumption. finish_parse.
  - (* call *)
    unfold hdr4. rewrite <- (app_nil_r (w32 4)).
    rewrite parse_command_hdr by (try apply w32_length; auto; reflexivity).
    unfold parse_body. rewrite w32_dec by assumption. finish_parse.
  - (* programFuses *)
    rewrite sb_align_app by (rewrite hdr4_length; reflexivity).
    unfold hdr4. rewrite <- !app_assoc.
    rewrite parse_command_hdr by (try apply w32_length; auto using div4_lt; reflexivity).
    unfold parse_body. rewrite w32_dec by assumption.
    replace (4 * (nlen data / 4)) with (nlen data) by (apply N.div_exact; [lia | exact F]).
    rewrite take_n_app. finish_parse.
  - (* programIFR *)
    rewrite sb_align_app by (rewrite hdr4_length; reflexivity).
    unfold hdr4. rewrite <- !app_assoc.
    rewrite parse_command_hdr by (try apply w32_length; auto; reflexivity).
    unfold parse_body. rewrite w32_dec, take_n_app by assumption. finish_parse.
  - (* loadCMAC *) load_case.
  - (* copy *)
    unfold hdr4 at 1. rewrite <- !app_assoc.
    rewrite parse_command_hdr by (try apply w32_length; auto; reflexivity).
    rewrite <- (app_nil_r (hdr4 dest memfrom memto 0)).
    unfold parse_body. rewrite split4_hdr4 by (auto; reflexivity).
    rewrite app_length, hdr4_length, w32_dec by assumption. finish_parse.
  - (* loadHashLocking *)
    rewrite (app_assoc (hdr4 _ _ _ _) (hdr4 _ _ _ _)), sb_align_app by (rewrite app_length, !hdr4_length; reflexivity).
    unfold hdr4 at 1. rewrite <- !app_assoc.
    rewrite parse_command_hdr by (try apply w32_length; auto; reflexivity).
    unfold parse_body. rewrite split4_hdr4 by (auto; reflexivity).
    rewrite app_length, hdr4_length, w32_dec, take_n_app by assumption. finish_parse.
  - (* loadKeyBlob *)
    rewrite !app_assoc, sb_align_app by (rewrite !app_length, !w32_length, !le_enc_length; reflexivity).
    rewrite <- !app_assoc. rewrite (app_assoc (le_enc 2 offset)).
    rewrite parse_command_hdr by (try (rewrite app_length, !le_enc_length; reflexivity); auto; reflexivity).
    unfold parse_body.
    rewrite (firstn_app_exact (le_enc 2 offset)), (skipn_app_exact (le_enc 2 offset)) by apply le_enc_length.
    rewrite !le_enc2_dec, take_n_app by assumption.
    rewrite nlen_app. destruct (N.ltb_spec (nlen data + nlen (zeros (padlen 16 (length data)))) (nlen data)); [lia|].
    finish_parse.
  - (* configureMemory *)
    unfold hdr4. rewrite <- (app_nil_r (w32 11)).
    rewrite parse_command_hdr by (try apply w32_length; auto; reflexivity).
    unfold parse_body. rewrite w32_dec by assumption. finish_parse.
  - (* fillMemory *)
    unfold hdr4 at 1. rewrite <- !app_assoc.
    rewrite parse_command_hdr by (try apply w32_length; auto; reflexivity).
    rewrite <- (app_nil_r (hdr4 pattern 0 0 0)).
    unfold parse_body. rewrite split4_hdr4 by (auto; reflexivity).
    rewrite app_length, hdr4_length, w32_dec by assumption. finish_parse.
  - (* checkFwVersion *)
    unfold hdr4. rewrite <- (app_nil_r (w32 13)).
    rewrite parse_command_hdr by (try apply w32_length; auto using lt_U32_small; try reflexivity; unfold U32; lia).
    unfold parse_body. rewrite w32_dec by assumption.
    apply N.ltb_lt in H0. finish_parse. now rewrite H0.
  - (* reset *)
    unfold hdr4. rewrite <- (app_nil_r (w32 14)).
    rewrite parse_command_hdr by (try apply w32_length; auto; reflexivity).
    reflexivity.
Qed.

(* fuse data that is not a whole number of words does not read back (the recorded finding C05-F1) *)
Lemma cmd_roundtrip_fuses_refuted_lemma :
  exists c, cmd_in_range c = true /\ wf_bytes (cmd_data c) /\ parse_command (export_cmd c) <> Ok c.
Proof.
  exists (CProgFuses 256 [1; 2; 3; 4; 5]). split; [reflexivity|]. split.
  - apply wf_bytesb_spec. reflexivity.
  - vm_compute. discriminate.
Qed.

(* ------------------------------------------------------------------ C. the loader's command decoder on exported commands *)
Lemma lt6_U32 v : v < 6 -> v < U32.
Proof. intros. unfold U32. lia. Qed.
Lemma guard_true b : b = true -> guard b = Some tt.
Proof. now intros ->. Qed.

Ltac rom_hdr_step :=
  unfold rom_cmd;
  rewrite (rdw_app _ _ SB_TAG_lt); cbn [obind]; rewrite N.eqb_refl; cbn [guard obind];
  rewrite rd_app by (try apply w32_length; rewrite app_length, !le_enc_length; reflexivity); cbn [obind];
  rewrite rdw_app by (auto using div4_lt, lt6_U32; reflexivity); cbn [obind];
  rewrite rdw_app by (auto using lt_U32_small; try reflexivity); cbn [obind].

Ltac rom_finish :=
  cbn -[le_dec w32 hdr4 nlen le_enc N.mul N.div N.modulo zeros padlen rd rd_ext rd_padded rdw rdn all_zero]; try reflexivity.

Lemma rd_0 l : rd 0 l = Some ([], l).
Proof. reflexivity. Qed.

Ltac rom_load_case :=
  rewrite (app_assoc (hdr4 _ _ _ _) (hdr4 _ _ _ _)), sb_align_app by (rewrite app_length, !hdr4_length; reflexivity);
  unfold hdr4 at 1; rewrite <- !app_assoc; rom_hdr_step; rom_finish;
  rewrite rd_ext_app by (auto; reflexivity); rom_finish;
  rewrite rd_padded_app; rom_finish.

Lemma rom_cmd_export c rest : wf_cmd c -> rom_cmd (export_cmd c ++ rest) = Some (c, rest).
Proof.
  intros W. destruct (wf_cmd_inv c W) as (R & WB & F). clear W.
  destruct c; cbn [cmd_in_range cmd_data] in *; range_hyps; unfold export_cmd.
  - (* erase *)
    unfold hdr4 at 1. rewrite <- !app_assoc. rom_hdr_step. rom_finish.
    rewrite rd_ext_app by (auto; reflexivity). rom_finish. now rewrite w32_dec.
  - (* load *) rom_load_case. now rewrite w32_dec.
  - (* execute *) unfold hdr4. rewrite <- !app_assoc. rom_hdr_step. rom_finish. now rewrite w32_dec.
  - (* call *) unfold hdr4. rewrite <- !app_assoc. rom_hdr_step. rom_finish. now rewrite w32_dec.
  - (* programFuses *)
    rewrite sb_align_app by (rewrite hdr4_length; reflexivity).
    unfold hdr4. rewrite <- !app_assoc. rom_hdr_step. rom_finish.
    replace (4 * (nlen data / 4)) with (nlen data) by (apply N.div_exact; [lia | exact F]).
    rewrite rd_padded_app. rom_finish. now rewrite w32_dec.
  - (* programIFR *)
    rewrite sb_align_app by (rewrite hdr4_length; reflexivity).
    unfold hdr4. rewrite <- !app_assoc. rom_hdr_step. rom_finish.
    rewrite rd_padded_app. rom_finish. now rewrite w32_dec.
  - (* loadCMAC *) rom_load_case. now rewrite w32_dec.
  - (* copy *)
    unfold hdr4 at 1. rewrite <- !app_assoc. rom_hdr_step. rom_finish.
    rewrite rd_ext_app by (auto; reflexivity). rom_finish. now rewrite w32_dec.
  - (* loadHashLocking *)
    rewrite (app_assoc (hdr4 _ _ _ _) (hdr4 _ _ _ _)), sb_align_app by (rewrite app_length, !hdr4_length; reflexivity).
    unfold hdr4 at 1. rewrite <- !app_assoc. rom_hdr_step. rom_finish.
    rewrite rd_ext_app by (auto; reflexivity). rom_finish.
    rewrite rd_padded_app. rom_finish.
    rewrite rd_app by apply zeros_length. rom_finish. rewrite all_zero_zeros. rom_finish. now rewrite w32_dec.
  - (* loadKeyBlob *)
    rewrite !app_assoc, sb_align_app by (rewrite !app_length, !w32_length, !le_enc_length; reflexivity).
    rewrite <- !app_assoc. rewrite (app_assoc (le_enc 2 offset)). rom_hdr_step.
    rewrite (firstn_app_exact (le_enc 2 offset)), (skipn_app_exact (le_enc 2 offset)) by apply le_enc_length.
    rom_finish. rewrite rd_padded_app. rom_finish.
    now rewrite !le_enc2_dec by assumption.
  - (* configureMemory *) unfold hdr4. rewrite <- !app_assoc. rom_hdr_step. rom_finish. now rewrite w32_dec.
  - (* fillMemory *)
    unfold hdr4 at 1. rewrite <- !app_assoc. rom_hdr_step. rom_finish.
    rewrite rd_ext_app by (auto; reflexivity). rom_finish. now rewrite w32_dec.
  - (* checkFwVersion *)
    unfold hdr4. rewrite <- !app_assoc. rom_hdr_step. rom_finish.
    apply N.ltb_lt in H0. rewrite H0. rom_finish. now rewrite w32_dec.
  - (* reset *) unfold hdr4. rewrite <- !app_assoc. rom_hdr_step. rom_finish.
Qed.

Lemma export_cmd_nonempty c : exists x t, export_cmd c = x :: t.
Proof.
  destruct c; unfold export_cmd, sb_align, hdr4, w32; cbn [le_enc app]; eexists; eexists; reflexivity.
Qed.

Lemma rom_cmds_step fuel s : s <> [] ->
  rom_cmds (S fuel) s = obind (rom_cmd s) (fun '(c, r) => obind (rom_cmds fuel r) (fun cs => Some (c :: cs))).
Proof. destruct s; [congruence | reflexivity]. Qed.

Lemma rom_cmds_nil fuel : rom_cmds fuel [] = Some [].
Proof. destruct fuel; reflexivity. Qed.

Lemma cmds_bytes_cons c cs : cmds_bytes (c :: cs) = export_cmd c ++ cmds_bytes cs.
Proof. reflexivity. Qed.

Lemma cmds_bytes_length_ge cs : (length cs <= length (cmds_bytes cs))%nat.
Proof.
  induction cs as [|c cs IH]; [simpl; lia|].
  rewrite cmds_bytes_cons, app_length. destruct (export_cmd_nonempty c) as (x & t & E). rewrite E. simpl. lia.
Qed.

Lemma rom_cmds_export cs : Forall wf_cmd cs -> forall fuel, (length cs <= fuel)%nat ->
  rom_cmds fuel (cmds_bytes cs) = Some cs.
Proof.
  induction 1 as [|c cs Hc _ IH]; intros fuel Hf.
  - apply rom_cmds_nil.
  - destruct fuel as [|fuel]; [simpl in Hf; lia|].
    rewrite cmds_bytes_cons, rom_cmds_step.
    + rewrite rom_cmd_export by assumption. cbn [obind]. rewrite IH by (simpl in Hf; lia). reflexivity.
    + destruct (export_cmd_nonempty c) as (x & t & E). rewrite E. discriminate.
Qed.

(* ------------------------------------------------------------------ D. 256-byte chunks *)
Lemma sb_align_length k l : (0 < k)%nat -> Nat.modulo (length (sb_align k l)) k = 0%nat.
Proof. intros. unfold sb_align. rewrite app_length, zeros_length. now apply padlen_total. Qed.

Lemma sb_align_256_length l : (0 < length l <= 256)%nat -> length (sb_align 256 l) = 256%nat.
Proof.
  intros H. pose proof (sb_align_length 256 l ltac:(lia)) as M.
  unfold sb_align in *. rewrite app_length, zeros_length in *.
  pose proof (padlen_lt 256 (length l) ltac:(lia)).
  destruct (mod_mult_exists _ 256 ltac:(lia) M) as [q Hq]. lia.
Qed.

Lemma chunk_pad_spec fuel : forall l, (0 < length l)%nat -> (Nat.div (length l) 256 < fuel)%nat ->
  concat (chunk_pad fuel l) = l ++ zeros (padlen 256 (length l)) /\
  Forall (fun c => length c = 256%nat) (chunk_pad fuel l).
Proof.
  induction fuel as [|fuel IH]; intros l Hl Hf; [lia|].
  cbn [chunk_pad]. destruct (Nat.leb_spec (length l) 256) as [Hle|Hgt].
  - cbn [concat]. rewrite app_nil_r. split; [reflexivity|]. constructor; [|constructor].
    apply sb_align_256_length. lia.
  - assert (Hs : length (skipn 256 l) = (length l - 256)%nat) by apply skipn_length.
    assert (Hd : Nat.div (length l) 256 = S (Nat.div (length l - 256) 256)).
    { replace (length l) with ((length l - 256) + 1 * 256)%nat at 1 by lia. rewrite Nat.div_add by lia. lia. }
    destruct (IH (skipn 256 l)) as [IH1 IH2]; [lia | rewrite Hs; lia |].
    split.
    + cbn [concat]. rewrite IH1, Hs, app_assoc, firstn_skipn. f_equal. f_equal.
      replace (length l) with (256 + (length l - 256))%nat at 2 by lia.
      symmetry. apply padlen_add; [lia | reflexivity].
    + constructor; [|exact IH2]. rewrite firstn_length. lia.
Qed.

Lemma data_chunks_spec l : (0 < length l)%nat ->
  concat (data_chunks l) = l ++ zeros (padlen 256 (length l)) /\
  Forall (fun c => length c = 256%nat) (data_chunks l).
Proof. intros. apply chunk_pad_spec; [assumption | lia]. Qed.

(* ------------------------------------------------------------------ E. key derivation, hash chain, forward walk *)
Definition key_ok (k : list N) : Prop := aes_key_ok k = true /\ wf_bytes k.

Lemma be_enc1 v : v < 256 -> be_enc 1 v = [v].
Proof. intros. unfold be_enc. cbn [le_enc rev app]. now rewrite N.mod_small. Qed.

Lemma wf_le_enc w v : wf_bytes (le_enc w v).
Proof. apply le_enc_wf. Qed.
Lemma wf_be_enc w v : wf_bytes (be_enc w v).
Proof. apply be_enc_wf. Qed.

Section Generic.
Variable Hf : list N -> list N.
Variable hl : nat.
Variable k256 : bool.
Variable E D : list N -> blk -> blk.
Variable Mac : list N -> list N -> list N.
Hypothesis H_len : forall m, length (Hf m) = hl.
Hypothesis C_law : forall k b, key_ok k -> okb b -> D k (E k b) = b /\ okb (E k b).
Hypothesis M_law : forall k m, key_ok k -> wf_bytes m -> okb (Mac k m).

Lemma kdf_spec_lemma key const rights mode : rights < 4 ->
  sb_derive k256 Mac key const rights mode =
  kdf_counter_mode Mac key (le_enc 12 const) (kdf_context k256 rights mode) (key_bits k256).
Proof.
  intros Hr. unfold sb_derive, kdf_counter_mode, kdf_data, kdf_context.
  assert (Hs : be_enc 1 (N.shiftl rights 6) = [64 * rights]).
  { rewrite N.shiftl_mul_pow2. replace (2 ^ 6) with 64 by reflexivity. rewrite N.mul_comm. apply be_enc1. lia. }
  rewrite Hs. change (zeros 1) with [0].
  destruct k256, mode; unfold key_bits; cbn [N.eqb Pos.eqb]; rewrite be_enc1 by reflexivity;
    [change (N.to_nat (256 / 128)) with 2%nat | change (N.to_nat (256 / 128)) with 2%nat
     | change (N.to_nat (128 / 128)) with 1%nat | change (N.to_nat (128 / 128)) with 1%nat];
    cbn [n_range map concat app]; rewrite ?app_nil_r; reflexivity.
Qed.

Lemma wf_kdf_data const rights mode i : rights < 4 -> wf_bytes (kdf_data k256 const rights mode i).
Proof.
  intros Hr. unfold kdf_data.
  apply wf_bytes_app; [apply wf_le_enc|]. apply wf_bytes_app; [|apply wf_bytes_app; apply wf_be_enc].
  apply wf_bytes_app; [apply wf_zeros|]. apply wf_bytes_app; [apply wf_be_enc|].
  apply wf_bytes_app; [destruct mode; repeat constructor|]. apply wf_bytes_app; [apply wf_zeros | apply wf_be_enc].
Qed.

Lemma sb_derive_key_ok key const rights mode : key_ok key -> rights < 4 ->
  key_ok (sb_derive k256 Mac key const rights mode).
Proof.
  intros Hk Hr. unfold sb_derive.
  destruct (M_law key (kdf_data k256 const rights mode 1) Hk (wf_kdf_data _ _ _ _ Hr)) as [L1 W1].
  destruct (M_law key (kdf_data k256 const rights mode 2) Hk (wf_kdf_data _ _ _ _ Hr)) as [L2 W2].
  unfold key_bits. destruct k256; cbn [N.eqb Pos.eqb].
  - split; [unfold aes_key_ok; rewrite app_length, L1, L2; reflexivity | now apply wf_bytes_app].
  - split; [unfold aes_key_ok; rewrite L1; reflexivity | assumption].
Qed.

(* the chain as a right fold: block n embeds the hash of block n+1 *)
Fixpoint chain (enc : bool) (kdk : list N) (rights : N) (n : N) (chunks : list (list N)) : list N * list (list N) :=
  match chunks with
  | [] => (zeros hl, [])
  | c :: t => let r := chain enc kdk rights (n + 1) t in
              let b := process_block k256 E Mac enc kdk rights (fst r) n c in (Hf b, b :: snd r)
  end.

Lemma process_blocks_chain enc kdk rights chunks :
  process_blocks Hf hl k256 E Mac enc kdk rights chunks = chain enc kdk rights 1 chunks.
Proof.
  unfold process_blocks.
  set (f := fun (acc : list N * list (list N)) (nc : N * list N) =>
              (Hf (process_block k256 E Mac enc kdk rights (fst acc) (fst nc) (snd nc)),
               process_block k256 E Mac enc kdk rights (fst acc) (fst nc) (snd nc) :: snd acc)).
  rewrite <- (rev_involutive (combine _ chunks)) at 1.
  rewrite rev_involutive.
  pose proof (fold_left_rev_right (fun nc acc => f acc nc) (rev (combine (n_range 1 (length chunks)) chunks))
                (zeros hl, [])) as FR.
  rewrite rev_involutive in FR. cbv beta in FR.
  change (fun x y => f x y) with f in FR. rewrite <- FR. clear FR.
  generalize 1 as n. induction chunks as [|c t IH]; intros n; [reflexivity|].
  cbn [length n_range combine fold_right chain]. rewrite IH. reflexivity.
Qed.

Lemma chain_fst_length enc kdk rights n chunks : length (fst (chain enc kdk rights n chunks)) = hl.
Proof. destruct chunks; cbn [chain fst]; [apply zeros_length | apply H_len]. Qed.

Definition chunk_ok (c : list N) : Prop := length c = 256%nat /\ wf_bytes c.

Lemma okb_zeros16 : okb (zeros 16).
Proof. split; [reflexivity | apply wf_zeros]. Qed.

Lemma process_block_body enc key chunk : key_ok key -> chunk_ok chunk ->
  let body := if enc then cbc_enc (E key) (zeros 16) (sb_align 16 chunk) else chunk in
  length body = 256%nat /\ (if enc then cbc_dec (D key) (zeros 16) body else body) = chunk.
Proof.
  intros Hk [Hl Hw]. cbv zeta.
  assert (M16 : Nat.modulo (length chunk) 16 = 0%nat) by (rewrite Hl; reflexivity).
  destruct enc; [|auto].
  rewrite sb_align_noop by (auto; lia).
  assert (DE : forall b, okb b -> D key (E key b) = b) by (intros b Hb; apply C_law; assumption).
  assert (EO : forall b, okb b -> okb (E key b)) by (intros b Hb; apply C_law; assumption).
  destruct (cbc_enc_length (E key) EO (zeros 16) chunk okb_zeros16 Hw M16) as [L _].
  split; [congruence|]. apply (cbc_dec_enc_l (E key) (D key) DE EO); assumption.
Qed.

Lemma rom_walk_chain enc kdk rights : key_ok kdk -> rights < 4 -> forall chunks n,
  Forall chunk_ok chunks -> n + N.of_nat (length chunks) <= U32 ->
  rom_walk Hf hl k256 D Mac enc kdk rights (length chunks) n
           (fst (chain enc kdk rights n chunks)) (concat (snd (chain enc kdk rights n chunks))) = Some chunks.
Proof.
  intros Hk Hr. induction chunks as [|c t IH]; intros n Hc Hn.
  - cbn [chain fst snd concat length rom_walk]. rewrite (proj2 (eqb_list_spec _ _) eq_refl). reflexivity.
  - inversion Hc as [|? ? Hc1 Hc2]; subst.
    cbn [chain fst snd concat length rom_walk].
    set (r := chain enc kdk rights (n + 1) t).
    set (key := sb_block_key k256 Mac kdk n rights).
    assert (Kk : key_ok key) by (apply sb_derive_key_ok; assumption).
    destruct (process_block_body enc key c Kk Hc1) as [BL BD]. cbv zeta in BL, BD.
    unfold process_block. fold key.
    set (body := if enc then cbc_enc (E key) (zeros 16) (sb_align 16 c) else c) in *.
    assert (LB : length (le_enc 4 n ++ fst r ++ body) = N.to_nat (block_size hl)).
    { rewrite !app_length, le_enc_length, BL. unfold r. rewrite chain_fst_length. unfold block_size. lia. }
    rewrite (rd_app _ _ _ LB). cbn [obind].
    rewrite (proj2 (eqb_list_spec _ _) eq_refl). cbn [guard obind].
    change (le_enc 4 n) with (w32 n). rewrite rdw_app by (cbn [length] in Hn; lia). cbn [obind].
    rewrite N.eqb_refl. cbn [guard obind].
    rewrite rd_app by (unfold r; apply chain_fst_length). cbn [obind].
    unfold r. rewrite IH by (auto; cbn [length] in Hn; lia). cbn [obind].
    fold r. rewrite <- kdf_spec_lemma by assumption. fold (sb_block_key k256 Mac kdk n rights). fold key.
    rewrite BD. reflexivity.
Qed.
End Generic.
