(* reverse_bits: the bit-mirror inside the declared width, and what happens outside it. *)
From Coq Require Import ZArith NArith List Bool Lia ZifyBool.
Require Import Value Bytes BytesProofs GenMisc MiscModel MiscProofs.
Import ListNotations.
Local Open Scope Z_scope.

(* ---------- lists of bits, least significant first ---------- *)

Fixpoint of_bits_lsb (l : list bool) : N :=
  match l with [] => 0%N | b :: t => (2 * of_bits_lsb t + N.b2n b)%N end.

Lemma of_bits_lsb_app l b :
  of_bits_lsb (l ++ [b]) = (of_bits_lsb l + N.b2n b * 2 ^ N.of_nat (length l))%N.
Proof.
  induction l as [|a l IH]; cbn [of_bits_lsb app length].
  - change (2 ^ N.of_nat 0)%N with 1%N. lia.
  - rewrite IH, Nat2N.inj_succ, N.pow_succ_r'. lia.
Qed.

Lemma of_bits_msb_lsb l : forall acc,
  of_bits_msb l acc = (acc * 2 ^ N.of_nat (length l) + of_bits_lsb (rev l))%N.
Proof.
  induction l as [|a l IH]; intros acc; cbn [of_bits_msb rev length].
  - change (2 ^ N.of_nat 0)%N with 1%N. cbn [of_bits_lsb]. lia.
  - rewrite IH, of_bits_lsb_app, rev_length, Nat2N.inj_succ, N.pow_succ_r'.
    change (if a then 1 else 0)%N with (N.b2n a). lia.
Qed.

Lemma bits_lsb_length w : forall x, length (bits_lsb w x) = w.
Proof. induction w as [|w IH]; intros x; cbn [bits_lsb length]; [reflexivity|]. now rewrite IH. Qed.

Lemma bits_lsb_nth w : forall x i, (i < w)%nat ->
  nth i (bits_lsb w x) false = N.testbit x (N.of_nat i).
Proof.
  induction w as [|w IH]; intros x i Hi; [lia|].
  destruct i as [|i]; cbn [bits_lsb nth].
  - symmetry. apply N.bit0_odd.
  - rewrite IH by lia. rewrite Nat2N.inj_succ, N.testbit_succ_r_div2 by lia. reflexivity.
Qed.

Lemma of_bits_lsb_testbit l : forall i,
  N.testbit (of_bits_lsb l) (N.of_nat i) = nth i l false.
Proof.
  induction l as [|a l IH]; intros i.
  - cbn [of_bits_lsb]. rewrite N.bits_0. destruct i; reflexivity.
  - destruct i as [|i]; cbn [of_bits_lsb nth].
    + change (N.of_nat 0) with 0%N. apply N.testbit_0_r.
    + rewrite Nat2N.inj_succ, N.testbit_succ_r. apply IH.
Qed.

Lemma of_bits_lsb_bound l : (of_bits_lsb l < 2 ^ N.of_nat (length l))%N.
Proof.
  induction l as [|a l IH]; cbn [of_bits_lsb length].
  - change (2 ^ N.of_nat 0)%N with 1%N. lia.
  - rewrite Nat2N.inj_succ, N.pow_succ_r'. destruct a; cbn [N.b2n]; lia.
Qed.

(* ---------- the mirror at a fixed width ---------- *)

Definition rev_w (w : nat) (x : N) : N := of_bits_msb (bits_lsb w x) 0.

Lemma rev_w_bound w x : (rev_w w x < 2 ^ N.of_nat w)%N.
Proof.
  unfold rev_w. rewrite of_bits_msb_lsb, N.mul_0_l, N.add_0_l.
  pose proof (of_bits_lsb_bound (rev (bits_lsb w x))) as H.
  now rewrite rev_length, bits_lsb_length in H.
Qed.

Lemma rev_w_testbit w x i : (i < w)%nat ->
  N.testbit (rev_w w x) (N.of_nat i) = N.testbit x (N.of_nat (w - 1 - i)).
Proof.
  intros Hi. unfold rev_w. rewrite of_bits_msb_lsb, N.mul_0_l, N.add_0_l.
  rewrite of_bits_lsb_testbit, rev_nth by (rewrite bits_lsb_length; exact Hi).
  rewrite bits_lsb_length, bits_lsb_nth by lia.
  f_equal. lia.
Qed.

Lemma N_testbit_high x n i : (x < 2 ^ n)%N -> (n <= i)%N -> N.testbit x i = false.
Proof.
  intros Hx Hi. destruct (N.eq_dec x 0) as [->|Hnz]; [apply N.bits_0|].
  apply N.bits_above_log2.
  apply N.log2_lt_pow2 in Hx; lia.
Qed.

Lemma rev_w_involutive w x : (x < 2 ^ N.of_nat w)%N -> rev_w w (rev_w w x) = x.
Proof.
  intros Hx. apply N.bits_inj. intros n.
  rewrite <- (N2Nat.id n). destruct (lt_dec (N.to_nat n) w) as [Hlt|Hge].
  - rewrite rev_w_testbit by exact Hlt. rewrite rev_w_testbit by lia. f_equal. lia.
  - rewrite (N_testbit_high _ (N.of_nat w)) by (try apply rev_w_bound; lia).
    rewrite (N_testbit_high _ (N.of_nat w)) by (try exact Hx; lia).
    reflexivity.
Qed.

(* a value below 2^(k+1) with bit k clear is below 2^k *)
Lemma N_top_clear a k : (a < 2 ^ N.succ k)%N -> N.testbit a k = false -> (a < 2 ^ k)%N.
Proof.
  intros Ha Hb.
  assert (Hp : (2 ^ k <> 0)%N) by (apply N.pow_nonzero; lia).
  pose proof (N.testbit_spec' a k) as Hs. rewrite Hb in Hs. cbn [N.b2n] in Hs.
  assert (Hq : (a / 2 ^ k < 2)%N).
  { apply N.div_lt_upper_bound; [exact Hp|]. rewrite N.pow_succ_r' in Ha. lia. }
  rewrite N.mod_small in Hs by exact Hq.
  apply N.div_small_iff; [exact Hp|]. lia.
Qed.

Lemma N_top_set a k : N.testbit a k = true -> (2 ^ k <= a)%N.
Proof.
  intros Hb. destruct (N.le_gt_cases (2 ^ k) a) as [H|H]; [exact H|].
  rewrite (N_testbit_high a k k) in Hb by lia. discriminate.
Qed.

(* ---------- bit length ---------- *)

Lemma N_size_le_of_lt a k : (a < 2 ^ k)%N -> (N.size a <= k)%N.
Proof.
  intros Ha. pose proof (N.size_le a) as Hs.
  assert (H : (2 ^ N.size a < 2 ^ N.succ k)%N) by (rewrite N.pow_succ_r'; lia).
  apply N.pow_lt_mono_r_iff in H; lia.
Qed.

Lemma N_size_gt_of_le a k : (2 ^ k <= a)%N -> (k < N.size a)%N.
Proof.
  intros Ha. pose proof (N.size_gt a) as Hs.
  assert (H : (2 ^ k < 2 ^ N.size a)%N) by lia.
  apply N.pow_lt_mono_r_iff in H; lia.
Qed.

Lemma N_size_top a : a <> 0%N ->
  (2 ^ N.pred (N.size a) <= a)%N /\ N.testbit a (N.pred (N.size a)) = true.
Proof.
  intros Ha. rewrite N.size_log2, N.pred_succ by exact Ha. split.
  - apply N.log2_spec. lia.
  - apply N.bit_log2. exact Ha.
Qed.

Lemma Z_log2_size x : 0 < x -> Z.log2 x + 1 = Z.of_N (N.size (Z.to_N x)).
Proof.
  intros Hx. destruct x as [|p|p]; try lia.
  destruct p as [p|p|]; cbn [Z.log2 Z.to_N N.size Pos.size Z.of_N]; lia.
Qed.

(* ---------- the model, unfolded ---------- *)

Definition wid (xn : N) (b : nat) : nat := Nat.max (Nat.max b (N.to_nat (N.size xn))) 1.

Lemma reverse_bits_ok x bits : 0 <= x -> 0 <= bits ->
  reverse_bits x bits = Ok (Z.of_N (rev_w (wid (Z.to_N x) (Z.to_nat bits)) (Z.to_N x))).
Proof.
  intros Hx Hb. unfold reverse_bits.
  destruct ((x <? 0) || (bits <? 0)) eqn:E; [lia|reflexivity].
Qed.

Lemma wid_small xn b : (xn < 2 ^ N.of_nat b)%N -> (1 <= b)%nat -> wid xn b = b.
Proof. intros H Hb. apply N_size_le_of_lt in H. unfold wid. lia. Qed.

Lemma wid_large xn b : (2 ^ N.of_nat b <= xn)%N -> wid xn b = N.to_nat (N.size xn).
Proof. intros H. apply N_size_gt_of_le in H. unfold wid. lia. Qed.

Lemma pow2_N2Z n : Z.of_N (2 ^ N.of_nat n) = 2 ^ Z.of_nat n.
Proof. rewrite N2Z.inj_pow, nat_N_Z. reflexivity. Qed.

Lemma lt_pow_to_N x bits : 0 <= bits -> 0 <= x -> x < 2 ^ bits ->
  (Z.to_N x < 2 ^ N.of_nat (Z.to_nat bits))%N.
Proof.
  intros Hb Hx H. apply N2Z.inj_lt. rewrite pow2_N2Z, Z2N.id, Z2Nat.id by lia. exact H.
Qed.

Lemma le_pow_to_N x bits : 0 <= bits -> 0 <= x -> 2 ^ bits <= x ->
  (2 ^ N.of_nat (Z.to_nat bits) <= Z.to_N x)%N.
Proof.
  intros Hb Hx H. apply N2Z.inj_le. rewrite pow2_N2Z, Z2N.id, Z2Nat.id by lia. exact H.
Qed.

Lemma rev_w_bound_Z n xn : 0 <= Z.of_N (rev_w n xn) < 2 ^ Z.of_nat n.
Proof.
  split; [lia|]. rewrite <- pow2_N2Z. apply N2Z.inj_lt, rev_w_bound.
Qed.

(* ---------- 1. in range ---------- *)

Lemma reverse_bits_mirror x bits : 0 <= bits -> 0 <= x < 2 ^ bits ->
  exists y, reverse_bits x bits = Ok y /\ 0 <= y < 2 ^ bits /\
    (forall i, 0 <= i < bits -> Z.testbit y i = Z.testbit x (bits - 1 - i)).
Proof.
  intros Hb Hx. destruct (Z.eq_dec bits 0) as [->|Hnz].
  - assert (x = 0) by (change (2 ^ 0) with 1 in Hx; lia). subst x.
    exists 0. split; [vm_compute; reflexivity|]. split; [change (2 ^ 0) with 1; lia|].
    intros i Hi. lia.
  - pose proof (lt_pow_to_N x bits Hb (proj1 Hx) (proj2 Hx)) as HxN.
    rewrite reverse_bits_ok, wid_small by (try exact HxN; lia).
    eexists. split; [reflexivity|]. split.
    + pose proof (rev_w_bound_Z (Z.to_nat bits) (Z.to_N x)) as H.
      rewrite Z2Nat.id in H by lia. exact H.
    + intros i Hi. rewrite Z.testbit_of_N' by lia.
      replace (Z.to_N i) with (N.of_nat (Z.to_nat i)) by lia.
      rewrite rev_w_testbit by lia.
      rewrite <- (Z2N.id x) at 2 by lia. rewrite Z.testbit_of_N' by lia.
      f_equal. lia.
Qed.

Lemma reverse_bits_involutive x bits : 0 <= bits -> 0 <= x < 2 ^ bits ->
  exists y, reverse_bits x bits = Ok y /\ 0 <= y < 2 ^ bits /\ reverse_bits y bits = Ok x.
Proof.
  intros Hb Hx. destruct (Z.eq_dec bits 0) as [->|Hnz].
  - assert (x = 0) by (change (2 ^ 0) with 1 in Hx; lia). subst x.
    exists 0. split; [vm_compute; reflexivity|]. split; [change (2 ^ 0) with 1; lia|].
    vm_compute; reflexivity.
  - pose proof (lt_pow_to_N x bits Hb (proj1 Hx) (proj2 Hx)) as HxN.
    rewrite reverse_bits_ok, wid_small by (try exact HxN; lia).
    pose proof (rev_w_bound_Z (Z.to_nat bits) (Z.to_N x)) as H.
    rewrite Z2Nat.id in H by lia.
    eexists. split; [reflexivity|]. split; [exact H|].
    rewrite reverse_bits_ok, N2Z.id by lia.
    rewrite wid_small by (try apply rev_w_bound; lia).
    rewrite rev_w_involutive by exact HxN.
    rewrite Z2N.id by lia. reflexivity.
Qed.

(* ---------- 2. out of range ---------- *)

Lemma reverse_bits_large x bits : 0 <= bits -> 2 ^ bits <= x ->
  exists y, reverse_bits x bits = Ok y /\ Z.odd y = true /\
    reverse_bits x bits = reverse_bits x (Z.log2 x + 1) /\
    (reverse_bits y bits = Ok x <-> Z.odd x = true).
Proof.
  intros Hb Hx.
  assert (Hpos : 0 < x) by (pose proof (Z.pow_pos_nonneg 2 bits); lia).
  pose proof (le_pow_to_N x bits Hb (Z.lt_le_incl _ _ Hpos) Hx) as HxN.
  remember (Z.to_N x) as xn eqn:Exn.
  remember (Z.to_nat bits) as b eqn:Eb.
  assert (Hnz : xn <> 0%N) by lia.
  assert (Hxx : x = Z.of_N xn) by lia.
  pose proof (N_size_gt_of_le _ _ HxN) as HbW.
  destruct (N_size_top xn Hnz) as [Htop Htopbit].
  pose proof (N.size_gt xn) as Hgt.
  remember (N.to_nat (N.size xn)) as W eqn:EW.
  assert (HWN : N.of_nat W = N.size xn) by lia.
  assert (HW1 : N.of_nat (W - 1) = N.pred (N.size xn)) by lia.
  assert (HbWn : (b < W)%nat) by lia.
  rewrite reverse_bits_ok by lia. rewrite <- Exn, <- Eb, wid_large, <- EW by exact HxN.
  remember (rev_w W xn) as yn eqn:Eyn.
  assert (Hyb : (yn < 2 ^ N.of_nat W)%N) by (subst yn; apply rev_w_bound).
  assert (Hy0 : N.testbit yn 0 = true).
  { change 0%N with (N.of_nat 0). subst yn. rewrite rev_w_testbit by lia.
    replace (W - 1 - 0)%nat with (W - 1)%nat by lia. rewrite HW1. exact Htopbit. }
  assert (Hytop : N.testbit yn (N.of_nat (W - 1)) = N.testbit xn 0).
  { subst yn. rewrite rev_w_testbit by lia.
    replace (W - 1 - (W - 1))%nat with 0%nat by lia. reflexivity. }
  assert (Hx0 : Z.odd x = N.testbit xn 0).
  { rewrite <- Z.bit0_odd, Hxx. apply (Z.testbit_of_N xn 0). }
  exists (Z.of_N yn). split; [reflexivity|]. split.
  { rewrite <- Z.bit0_odd. rewrite Z.testbit_of_N' by lia. exact Hy0. }
  split.
  { rewrite (reverse_bits_ok x (Z.log2 x + 1)) by (pose proof (Z.log2_nonneg x); lia).
    rewrite <- Exn.
    replace (Z.to_nat (Z.log2 x + 1)) with W
      by (rewrite (Z_log2_size x Hpos), <- Exn; lia).
    replace (wid xn W) with W by (unfold wid; lia). rewrite <- Eyn. reflexivity. }
  rewrite reverse_bits_ok, N2Z.id, <- Eb by lia.
  destruct (Z.odd x) eqn:Hodd.
  - (* odd: the mirror keeps its top bit, so the second width is again W *)
    rewrite <- Hx0 in Hytop. apply N_top_set in Hytop.
    assert (HsW : N.size yn = N.of_nat W).
    { pose proof (N_size_gt_of_le _ _ Hytop). pose proof (N_size_le_of_lt _ _ Hyb). lia. }
    assert (Hby : (2 ^ N.of_nat b <= yn)%N).
    { eapply N.le_trans; [|exact Hytop]. apply N.pow_le_mono_r; lia. }
    rewrite wid_large by exact Hby. rewrite HsW, Nat2N.id.
    subst yn. rewrite rev_w_involutive by (rewrite HWN; exact Hgt).
    rewrite <- Hxx. split; reflexivity.
  - (* even: the mirror loses a bit, the second width is smaller, the result is below x *)
    rewrite <- Hx0 in Hytop.
    assert (HW2 : (2 <= W)%nat).
    { assert (H2 : (2 ^ 1 <= xn)%N).
      { change (2 ^ 1)%N with 2%N. rewrite Hx0 in Hodd.
        destruct xn as [|[p|p|]]; cbn in Hodd; try discriminate; lia. }
      apply N_size_gt_of_le in H2. lia. }
    assert (Hylt : (yn < 2 ^ N.of_nat (W - 1))%N).
    { apply N_top_clear; [|exact Hytop].
      replace (N.succ (N.of_nat (W - 1))) with (N.of_nat W) by lia. exact Hyb. }
    pose proof (N_size_le_of_lt _ _ Hylt) as Hsy.
    assert (Hw' : (wid yn b <= W - 1)%nat) by (unfold wid; lia).
    pose proof (rev_w_bound (wid yn b) yn) as Hz.
    assert (Hpw : (2 ^ N.of_nat (wid yn b) <= 2 ^ N.of_nat (W - 1))%N)
      by (apply N.pow_le_mono_r; lia).
    rewrite HW1 in Hpw.
    split; [|discriminate].
    intros H. injection H as H. lia.
Qed.

(* ---------- 3. negative arguments ---------- *)

Lemma reverse_bits_negative x bits : x < 0 \/ bits < 0 -> reverse_bits x bits = Err 2%N.
Proof.
  intros H. unfold reverse_bits.
  destruct ((x <? 0) || (bits <? 0)) eqn:E; [reflexivity|lia].
Qed.

Example reverse_bits_ex1 : reverse_bits 6 8 = Ok 96.
Proof. vm_compute. reflexivity. Qed.
Example reverse_bits_ex2 : reverse_bits 6 2 = Ok 3.      (* out of range, even: 6 -> '110' -> '011' = 3 *)
Proof. vm_compute. reflexivity. Qed.
Example reverse_bits_ex3 : reverse_bits 3 2 = Ok 3 /\ reverse_bits 3 1 = Ok 3.
Proof. vm_compute. split; reflexivity. Qed.
Example reverse_bits_ex4 : reverse_bits 0 0 = Ok 0.
Proof. vm_compute. reflexivity. Qed.

Print Assumptions reverse_bits_mirror.
Print Assumptions reverse_bits_involutive.
Print Assumptions reverse_bits_large.

(* ====================================================================== statements used by Props/C20 *)
Lemma reverse_bits_involution_l x bits : 0 <= bits -> 0 <= x < 2 ^ bits ->
  exists y, reverse_bits x bits = Ok y /\ 0 <= y < 2 ^ bits /\
    (forall i, 0 <= i < bits -> Z.testbit y i = Z.testbit x (bits - 1 - i)) /\
    reverse_bits y bits = Ok x.
Proof.
  intros Hb Hx. destruct (reverse_bits_mirror x bits Hb Hx) as (y & E & B & M).
  destruct (reverse_bits_involutive x bits Hb Hx) as (y' & E' & _ & I).
  rewrite E in E'. injection E' as <-. exists y. auto.
Qed.

Lemma reverse_bits_out_of_range_l x bits :
  (0 <= bits -> 2 ^ bits <= x ->
     exists y, reverse_bits x bits = Ok y /\ Z.odd y = true /\
       reverse_bits x bits = reverse_bits x (Z.log2 x + 1) /\
       (reverse_bits y bits = Ok x <-> Z.odd x = true)) /\
  (x < 0 \/ bits < 0 -> reverse_bits x bits = Err 2%N).
Proof. split; [apply reverse_bits_large|apply reverse_bits_negative]. Qed.

Example reverse_bits_ex5 : 0 <= 8 /\ 0 <= 6 < 2 ^ 8 /\ 2 ^ 2 <= 6.
Proof. lia. Qed.
Print Assumptions reverse_bits_involution_l.
Print Assumptions reverse_bits_out_of_range_l.
