(* Proofs/HabHistProofs.v -- C07: HabContainer.update_csf() as a history: the k-th update + export equals the first. *)
From Coq Require Import ZArith NArith List Bool Lia ZifyBool.
Require Import Value Bytes BytesProofs Sha2 Aes Modes CryptoProofs HabModel HabProofs.
Import ListNotations.
Local Open Scope Z_scope.

(* ------------------------------------------------------------------ updating the n-th Authenticate Data command *)
Definition keeps_auth (f : ccmd -> ccmd) : Prop := forall c, is_auth (f c) = is_auth c.

Lemma set_blocks_keeps bl d : keeps_auth (set_blocks bl d).
Proof. intros c. destruct c; reflexivity. Qed.

Lemma set_blocks_idem bl d c : d <> None -> set_blocks bl d (set_blocks bl d c) = set_blocks bl d c.
Proof. intros Hd. destruct c; cbn [set_blocks]; try reflexivity. destruct d; [reflexivity | congruence]. Qed.

Lemma upd_auth_idem f : keeps_auth f -> (forall c, f (f c) = f c) ->
  forall l n l', upd_auth n f l = Some l' -> upd_auth n f l' = Some l'.
Proof.
  intros Hk Hi. induction l as [|c t IH]; intros n l' H; cbn [upd_auth] in H; [discriminate|].
  destruct (is_auth c) eqn:Ea.
  - destruct n as [|n].
    + inversion H; subst l'. cbn [upd_auth]. rewrite Hk, Ea. now rewrite Hi.
    + destruct (upd_auth n f t) as [t'|] eqn:Et; cbn [option_map] in H; [|discriminate]. inversion H; subst l'.
      cbn [upd_auth]. rewrite Ea. now rewrite (IH _ _ Et).
  - destruct (upd_auth n f t) as [t'|] eqn:Et; cbn [option_map] in H; [|discriminate]. inversion H; subst l'.
    cbn [upd_auth]. rewrite Ea. now rewrite (IH _ _ Et).
Qed.

(* updates of two different Authenticate Data commands commute *)
Lemma upd_auth_comm f g : keeps_auth f -> keeps_auth g ->
  forall l n m l1 l2, n <> m -> upd_auth n f l = Some l1 -> upd_auth m g l1 = Some l2 ->
  exists l1', upd_auth m g l = Some l1' /\ upd_auth n f l1' = Some l2.
Proof.
  intros Hf Hg. induction l as [|c t IH]; intros n m l1 l2 Hnm H1 H2; cbn [upd_auth] in H1; [discriminate|].
  destruct (is_auth c) eqn:Ea.
  - destruct n as [|n].
    + inversion H1; subst l1. cbn [upd_auth] in H2. rewrite Hf, Ea in H2.
      destruct m as [|m]; [congruence|].
      destruct (upd_auth m g t) as [t'|] eqn:Et; cbn [option_map] in H2; [|discriminate]. inversion H2; subst l2.
      exists (c :: t'). split; cbn [upd_auth]; rewrite ?Ea, ?Et; reflexivity.
    + destruct (upd_auth n f t) as [t1|] eqn:Et1; cbn [option_map] in H1; [|discriminate]. inversion H1; subst l1.
      cbn [upd_auth] in H2. rewrite Ea in H2. destruct m as [|m].
      * inversion H2; subst l2. exists (g c :: t). split; cbn [upd_auth]; rewrite ?Hg, ?Ea, ?Et1; reflexivity.
      * destruct (upd_auth m g t1) as [t2|] eqn:Et2; cbn [option_map] in H2; [|discriminate]. inversion H2; subst l2.
        destruct (IH n m t1 t2 ltac:(congruence) Et1 Et2) as (t1' & E1 & E2).
        exists (c :: t1'). split; cbn [upd_auth]; rewrite ?Ea, ?E1, ?E2; reflexivity.
  - destruct (upd_auth n f t) as [t1|] eqn:Et1; cbn [option_map] in H1; [|discriminate]. inversion H1; subst l1.
    cbn [upd_auth] in H2. rewrite Ea in H2.
    destruct (upd_auth m g t1) as [t2|] eqn:Et2; cbn [option_map] in H2; [|discriminate]. inversion H2; subst l2.
    destruct (IH n m t1 t2 Hnm Et1 Et2) as (t1' & E1 & E2).
    exists (c :: t1'). split; cbn [upd_auth]; rewrite ?Ea, ?E1, ?E2; reflexivity.
Qed.

(* ------------------------------------------------------------------ the overlap refusal looks only at offsets and lengths *)
Lemma segs_ok_len l : forall l' occ, map (fun s => (fst s, hlen (snd s))) l = map (fun s => (fst s, hlen (snd s))) l' ->
  segs_ok occ l = segs_ok occ l'.
Proof.
  induction l as [|s t IH]; intros [|s' t'] occ H; cbn [map] in H; try discriminate; [reflexivity|].
  inversion H as [[H1 H2 H3]]. cbn [segs_ok]. rewrite H1, H2. now rewrite (IH t' _ H3).
Qed.

Lemma all_segs_len c q csf ap ap' : hlen ap = hlen ap' -> segs_ok [] (all_segs c q csf ap) = segs_ok [] (all_segs c q csf ap').
Proof.
  intros H. apply segs_ok_len. unfold all_segs. rewrite !map_app. cbn [map fst snd]. now rewrite H.
Qed.

(* ------------------------------------------------------------------ encryption depends on the commands only through the update *)
Lemma hab_encrypt_change c cmds img cmds1 ct nonce mac cmds' cmds1' :
  hab_encrypt c cmds img = Ok (cmds1, ct, nonce, mac) ->
  upd_auth 2 (set_blocks (enc_blocks c) (Some (macimg (h_ver c) nonce mac))) cmds' = Some cmds1' ->
  upd_auth 2 (set_blocks (enc_blocks c) (Some (macimg (h_ver c) nonce mac))) cmds = Some cmds1 /\
  hab_encrypt c cmds' img = Ok (cmds1', ct, nonce, mac).
Proof.
  unfold hab_encrypt. intros H H'.
  set (nonce0 := match h_nonce c with Some n => n | None => rng_bytes (aead_nonce_len (hlen img)) end) in *.
  set (plain := hslice img (h_ivt_off c + c_app_off c) (h_ivt_off c + c_app_off c + hlen (c_app_bin c))) in *.
  destruct (negb _); [discriminate|].
  set (out := ccm_encrypt (aes_enc (h_dek c)) nonce0 [] (Z.to_nat (h_mac_len c)) plain) in *.
  destruct (upd_auth 2 _ cmds) as [x|] eqn:E; [|discriminate].
  apply ok_inj in H. inversion H; subst. rewrite E. split; [reflexivity|]. now rewrite H'.
Qed.

(* ------------------------------------------------------------------ a second update_csf() changes nothing *)
Theorem update_fixpoint c q cmds0 cmds1 b1 : hab_pre c = Ok q -> c_auth c = true -> layout_full c q ->
  (c_enc c = true -> wf_bytes (h_dek c)) ->
  hab_update c q cmds0 = Ok (cmds1, b1) -> hab_update c q cmds1 = Ok (cmds1, b1).
Proof.
  intros Hq Ha W Hw H.
  apply hab_update_inv in H as (csf0 & c1 & app_fin & eb & nonce & mac & c2 & c3 & csf_b & H0 & H1 & H2 & H3 & H4 & H5 & H6 & H7 & Hr).
  inversion Hr; subst cmds1 b1; clear Hr.
  pose proof (set_blocks_keeps (signed_blocks c q) (Some (sigimg (h_ver c) (h_sig_data c)))) as K1.
  pose proof (set_blocks_keeps [] (Some (sigimg (h_ver c) (h_sig_csf c)))) as K0.
  assert (I1 := fun x => set_blocks_idem (signed_blocks c q) (Some (sigimg (h_ver c) (h_sig_data c))) x ltac:(discriminate)).
  assert (I0 := fun x => set_blocks_idem [] (Some (sigimg (h_ver c) (h_sig_csf c))) x ltac:(discriminate)).
  (* the three updates applied to the final command list give it back *)
  assert (F0 : upd_auth 0 (set_blocks [] (Some (sigimg (h_ver c) (h_sig_csf c)))) c3 = Some c3)
    by (eapply upd_auth_idem; eauto).
  assert (F1 : upd_auth 1 (set_blocks (signed_blocks c q) (Some (sigimg (h_ver c) (h_sig_data c)))) c3 = Some c3).
  { destruct (upd_auth_comm _ _ K1 K0 _ 1%nat 0%nat _ _ ltac:(discriminate) H2 H4) as (y & E1 & E2).
    eapply upd_auth_idem; eauto. }
  assert (Lapp : hlen app_fin = hlen (c_app_bin c)).
  { destruct (c_enc c) eqn:He.
    - destruct H1 as [Henc _]. pose proof (hab_encrypt_facts c _ _ _ _ _ _ Henc (Hw eq_refl)) as (_ & F2 & _).
      rewrite padded_app_slice in F2 by assumption. unfold hlen. lia.
    - destruct H1 as (_ & -> & _). reflexivity. }
  unfold hab_update. rewrite H5. cbn [bind].
  rewrite (all_segs_len c q csf_b (c_app_bin c) app_fin) by (now symmetry). rewrite H7. cbn [negb].
  assert (Ep : padded_image c q csf_b = padded_image c q csf0) by (now rewrite !padded_image_eq).
  rewrite Ep.
  destruct (c_enc c) eqn:He.
  - destruct H1 as [Henc ->].
    pose proof (set_blocks_keeps (enc_blocks c) (Some (macimg (h_ver c) nonce mac))) as K2.
    assert (I2 := fun x => set_blocks_idem (enc_blocks c) (Some (macimg (h_ver c) nonce mac)) x ltac:(discriminate)).
    assert (U2 : upd_auth 2 (set_blocks (enc_blocks c) (Some (macimg (h_ver c) nonce mac))) cmds0 = Some c1).
    { unfold hab_encrypt in Henc. destruct (negb _) in Henc; [discriminate|].
      destruct (upd_auth 2 _ cmds0) as [x|] eqn:E; [|discriminate]. apply ok_inj in Henc. inversion Henc; subst. exact E. }
    assert (F2 : upd_auth 2 (set_blocks (enc_blocks c) (Some (macimg (h_ver c) nonce mac))) c3 = Some c3).
    { destruct (upd_auth_comm _ _ K2 K1 _ 2%nat 1%nat _ _ ltac:(discriminate) U2 H2) as (y & E1 & E2).
      destruct (upd_auth_comm _ _ K2 K0 _ 2%nat 0%nat _ _ ltac:(discriminate) E2 H4) as (z & E3 & E4).
      eapply upd_auth_idem; eauto. }
    rewrite (proj2 (hab_encrypt_change c _ _ _ _ _ _ c3 c3 Henc F2)). cbn [res_map bind].
    rewrite F1, H3, F0, H5. cbn [bind]. rewrite H7. reflexivity.
  - destruct H1 as (-> & -> & -> & -> & ->). cbn [bind].
    rewrite F1, H3, F0, H5. cbn [bind]. rewrite H7. reflexivity.
Qed.

Lemma updates_fixpoint c q cmds1 b1 : hab_update c q cmds1 = Ok (cmds1, b1) -> forall k, hab_updates c q k cmds1 = Ok (cmds1, b1).
Proof. intros H. induction k as [|k IH]; cbn [hab_updates]; [exact H|]. rewrite H. cbn [bind fst]. exact IH. Qed.

(* every further update_csf() + export() of the object load_from_config returned gives the first export again *)
Theorem update_csf_history c b q k : hab_build c = Ok b -> hab_pre c = Ok q -> c_auth c = true -> layout_wf c q ->
  (c_enc c = true -> wf_bytes (h_dek c)) ->
  exists cmds, hab_updates c q k (q_cmds0 q) = Ok (cmds, b).
Proof.
  intros Hb Hq Ha W Hw. pose proof (layout_full_of_build c b q Hb Hq W) as WF.
  apply hab_build_inv in Hb as (q' & Hq' & Hb). rewrite Hq in Hq'. apply ok_inj in Hq'; subst q'. rewrite Ha in Hb.
  unfold hab_finish in Hb. destruct (hab_update c q (q_cmds0 q)) as [[cmds1 b1]|] eqn:Eu; cbn [res_map snd] in Hb; [|discriminate].
  apply ok_inj in Hb. subst b1. exists cmds1.
  pose proof (update_fixpoint c q _ _ _ Hq Ha WF Hw Eu) as Fx.
  destruct k as [|k]; [exact Eu|]. cbn [hab_updates]. rewrite Eu. cbn [bind fst]. now apply updates_fixpoint.
Qed.
