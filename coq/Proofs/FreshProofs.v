(* Proofs/FreshProofs.v -- C17: lemmas about Model/FreshModel.v.
   Main results (used one-line by coq/Props/C17/*.v):
     fresh_nodup          : every site per-call  ->  for every history no draw number occurs twice among the secret slots
     fresh_slot_unique    : ... two slot entries with the same draw number are the same entry of the same artifact
     ctr_pair_unique_lem  : ... two different artifacts never have the same (key, nonce) pair when one of them is invented
     restart_split        : for ANY site table, slots created after a Restart only use draws made after it
     user_value_kept      : a user supplied secret is recorded as the user's value (never replaced by a draw)
   The premise `all_percall gen_sites = true` is closed by computation on the generated table in Proofs/FreshGenProofs.v. *)
From Coq Require Import ZArith NArith List Bool Lia.
Require Import Value FreshModel.
Import ListNotations.
Local Open Scope N_scope.

(* ------------------------------------------------------------------ table facts *)
Lemma all_percall_site : forall t s, all_percall t = true -> site_percall t s = true.
Proof.
  unfold all_percall, site_percall. intros t s H.
  rewrite forallb_forall in *. intros r Hr. rewrite (H r Hr). apply orb_true_r.
Qed.

Lemma all_percall_edges : forall t es, all_percall t = true -> first_import_edge t es = None.
Proof.
  intros t es H. induction es as [|e r IH]; simpl; [reflexivity|].
  rewrite (all_percall_site t e H). exact IH.
Qed.

Lemma all_percall_key : forall t s es, all_percall t = true -> cache_key t s es = None.
Proof.
  intros t s es H. unfold cache_key. rewrite (all_percall_edges t es H), (all_percall_site t s H). reflexivity.
Qed.

Lemma all_percall_no_import_rows : forall t m, all_percall t = true ->
  filter (fun r => (row_mod r =? m) && negb (row_pc r)) t = [].
Proof.
  unfold all_percall. intros t m H. induction t as [|r t IH]; simpl in *; [reflexivity|].
  apply andb_true_iff in H. destruct H as [H1 H2]. rewrite H1. simpl. rewrite andb_false_r. apply IH, H2.
Qed.

(* ------------------------------------------------------------------ slots of one plan *)
Definition sidx (sl : list slot) : list N := flat_map (fun e => slot_idx (snd e)) sl.

Lemma sidx_app : forall a b, sidx (a ++ b) = sidx a ++ sidx b.
Proof. intros. unfold sidx. apply flat_map_app. Qed.

Lemma indices_app : forall a b, indices (a ++ b) = indices a ++ indices b.
Proof. intros. unfold indices. apply flat_map_app. Qed.

Lemma indices_tag : forall j sl, indices (tag j sl) = sidx sl.
Proof.
  intros j sl. unfold indices, sidx, tag. induction sl as [|e r IH]; simpl; [reflexivity|]. now rewrite IH.
Qed.

Lemma keep_slot_idx : forall k f o, sidx (keep_slot k f o) = if k then slot_idx o else [].
Proof. intros [|] f o; unfold keep_slot, sidx; simpl; [apply app_nil_r|reflexivity]. Qed.

(* per-call execution: cache stays empty, new draw numbers are exactly next, next+1, ... *)
Definition fresh_range (lo hi : N) (l : list N) : Prop :=
  (forall i, In i l -> lo <= i < hi) /\ NoDup l.

Lemma fresh_range_nil : forall lo hi, fresh_range lo hi [].
Proof. intros. split; [intros i []|constructor]. Qed.

Lemma fresh_range_app : forall lo mid hi a b,
  fresh_range lo mid a -> fresh_range mid hi b -> lo <= mid -> mid <= hi -> fresh_range lo hi (a ++ b).
Proof.
  intros lo mid hi a b [Ha Na] [Hb Nb] L1 L2. split.
  - intros i Hi. apply in_app_or in Hi. destruct Hi as [Hi|Hi]; [specialize (Ha i Hi)|specialize (Hb i Hi)]; lia.
  - induction a as [|x a IH]; simpl; [exact Nb|].
    inversion Na as [|? ? Hx Na']; subst. constructor.
    + intro Hin. apply in_app_or in Hin. destruct Hin as [Hin|Hin]; [contradiction|].
      specialize (Hb x Hin). assert (lo <= x < mid) by (apply Ha; now left). lia.
    + apply IH; [|exact Na']. intros i Hi. apply Ha. now right.
Qed.

Lemma exec_item_pc : forall t s it s' d sl,
  all_percall t = true -> r_cache s = [] -> exec_item t s it = (s', d, sl) ->
  r_cache s' = [] /\ r_next s <= r_next s' /\ fresh_range (r_next s) (r_next s') (sidx sl).
Proof.
  intros t s [f site es g a len keep] s' d sl Ht Hc H. simpl in H.
  destruct (invents g a).
  - rewrite (all_percall_key t site es Ht) in H. inversion H; subst; clear H. simpl.
    split; [exact Hc|]. split; [lia|]. rewrite keep_slot_idx. destruct keep; simpl.
    + split; [intros i [Hi|[]]; subst; lia|]. constructor; [intros []|constructor].
    + apply fresh_range_nil.
  - inversion H; subst; clear H. split; [exact Hc|]. split; [lia|]. rewrite keep_slot_idx.
    destruct keep; [|apply fresh_range_nil]. destruct a; simpl; apply fresh_range_nil.
Qed.

Lemma exec_items_pc : forall t its s s' d sl,
  all_percall t = true -> r_cache s = [] -> exec_items t s its = (s', d, sl) ->
  r_cache s' = [] /\ r_next s <= r_next s' /\ fresh_range (r_next s) (r_next s') (sidx sl).
Proof.
  intros t its. induction its as [|it r IH]; intros s s' d sl Ht Hc H; simpl in H.
  - inversion H; subst. split; [exact Hc|]. split; [lia|]. apply fresh_range_nil.
  - destruct (exec_item t s it) as [[s1 d1] l1] eqn:E1.
    destruct (exec_items t s1 r) as [[s2 d2] l2] eqn:E2.
    inversion H; subst; clear H.
    destruct (exec_item_pc t s it s1 d1 l1 Ht Hc E1) as (C1 & L1 & F1).
    destruct (IH s1 s' d2 l2 Ht C1 E2) as (C2 & L2 & F2).
    split; [exact C2|]. split; [lia|]. rewrite sidx_app.
    eapply fresh_range_app; eauto.
Qed.

Lemma import_rows_pc : forall t s m, all_percall t = true -> import_rows t s m = (s, []).
Proof. intros t s m H. unfold import_rows. rewrite (all_percall_no_import_rows t m H). reflexivity. Qed.

Lemma import_list_pc : forall t ms s imp, all_percall t = true ->
  exists imp', import_list t s imp ms = (s, imp', []).
Proof.
  intros t ms. induction ms as [|m r IH]; intros s imp H; simpl.
  - now exists imp.
  - destruct (mem m imp); [apply IH, H|].
    rewrite (import_rows_pc t s m H). destruct (IH s (imp ++ [m]) H) as [imp' E]. rewrite E. now exists imp'.
Qed.

Lemma ensure_import_pc : forall t c s imp m, all_percall t = true ->
  exists imp', ensure_import t c s imp m = (s, imp', []).
Proof. intros. unfold ensure_import. now apply import_list_pc. Qed.

(* ------------------------------------------------------------------ invariant of a per-call world *)
Definition inv (w : world) : Prop :=
  r_cache (w_rs w) = [] /\ fresh_range 1 (r_next (w_rs w)) (indices (w_slots w)) /\ 1 <= r_next (w_rs w).

Lemma inv_init : inv init_world.
Proof. unfold inv, init_world; simpl. split; [reflexivity|]. split; [apply fresh_range_nil|lia]. Qed.

Lemma run_plan_inv : forall t c w p j newobj,
  all_percall t = true -> inv w -> inv (fst (run_plan t c w p j newobj)).
Proof.
  intros t c w [[m its] status] j newobj Ht (Hc & Hf & H1). unfold run_plan.
  destruct (ensure_import_pc t c (w_rs w) (w_imp w) m Ht) as [imp' E]. rewrite E.
  destruct (exec_items t (w_rs w) its) as [[s2 d2] sl] eqn:E2.
  destruct (exec_items_pc t its (w_rs w) s2 d2 sl Ht Hc E2) as (C2 & L2 & F2).
  destruct (status =? 0); unfold inv; simpl.
  - split; [exact C2|]. split; [|lia]. rewrite indices_app, indices_tag.
    eapply fresh_range_app; eauto.
  - split; [exact C2|]. split; [|lia]. destruct Hf as [Ha Hn]. split; [|exact Hn].
    intros i Hi. specialize (Ha i Hi). lia.
Qed.

Lemma step_inv : forall t c w o, all_percall t = true -> inv w -> inv (fst (step t c w o)).
Proof.
  intros t c w o Ht Hw. destruct o as [|m|k flag a|j a x|j]; simpl.
  - destruct (ensure_import_pc t c (RS (r_next (w_rs w)) []) [] 0 Ht) as [imp' E]. rewrite E.
    destruct Hw as (Hc & Hf & H1). unfold inv; simpl. auto.
  - destruct (ensure_import_pc t c (w_rs w) (w_imp w) m Ht) as [imp' E]. rewrite E.
    destruct Hw as (Hc & Hf & H1). unfold inv; simpl. auto.
  - destruct (plan_new t k flag a); [now apply run_plan_inv|exact Hw].
  - destruct (j <? w_base w); [exact Hw|].
    destruct (nth_error (w_objs w) (N.to_nat j)); [|exact Hw].
    destruct (plan_act t (w_slots w) j o a x); [now apply run_plan_inv|exact Hw].
  - destruct (j <? w_base w); [exact Hw|].
    destruct (nth_error (w_objs w) (N.to_nat j)); [|exact Hw].
    destruct (config_driven (o_kind o) (o_flag o)); [|exact Hw].
    destruct (plan_new t (o_kind o) (o_flag o) (o_args o)); [now apply run_plan_inv|exact Hw].
Qed.

Lemma run_from_inv : forall t c h w, all_percall t = true -> inv w -> inv (run_from t c w h).
Proof.
  intros t c h. induction h as [|o r IH]; intros w Ht Hw; simpl; [exact Hw|].
  apply IH; [exact Ht|]. now apply step_inv.
Qed.

(* no draw number is used twice: every site per-call => for all histories *)
Theorem fresh_nodup : forall t c, all_percall t = true ->
  forall h, NoDup (indices (w_slots (run t c h))).
Proof.
  intros t c Ht h. unfold run. destruct (run_from_inv t c h init_world Ht inv_init) as (_ & [_ Hn] & _). exact Hn.
Qed.

(* two slot entries with the same draw number are one and the same entry *)
Lemma nodup_flat_unique : forall (sl : list wslot) e1 e2 i,
  NoDup (indices sl) -> In e1 sl -> In e2 sl -> snd e1 = ODraw i -> snd e2 = ODraw i -> e1 = e2.
Proof.
  induction sl as [|e r IH]; intros e1 e2 i Hn H1 H2 O1 O2; [destruct H1|].
  unfold indices in Hn. simpl in Hn. fold (indices r) in Hn.
  assert (Hr : NoDup (indices r)).
  { clear -Hn. induction (slot_idx (snd e)) as [|x l IHl]; simpl in Hn; [exact Hn|]. inversion Hn; auto. }
  assert (Hin : forall e', In e' r -> snd e' = ODraw i -> In i (indices r)).
  { intros e' He' Oe'. unfold indices. apply in_flat_map. exists e'. split; [exact He'|]. rewrite Oe'. now left. }
  destruct H1 as [H1|H1], H2 as [H2|H2]; subst.
  - reflexivity.
  - exfalso. rewrite O1 in Hn. simpl in Hn. inversion Hn as [|? ? Hx _]; subst. apply Hx. eapply Hin; eauto.
  - exfalso. rewrite O2 in Hn. simpl in Hn. inversion Hn as [|? ? Hx _]; subst. apply Hx. eapply Hin; eauto.
  - eapply IH; eauto.
Qed.

Theorem fresh_slot_unique : forall t c, all_percall t = true ->
  forall h a fa b fb i,
    In (a, fa, ODraw i) (w_slots (run t c h)) -> In (b, fb, ODraw i) (w_slots (run t c h)) ->
    a = b /\ fa = fb.
Proof.
  intros t c Ht h a fa b fb i Ha Hb.
  assert (E : (a, fa, ODraw i) = (b, fb, ODraw i)).
  { eapply nodup_flat_unique; [apply (fresh_nodup t c Ht h)|exact Ha|exact Hb|reflexivity|reflexivity]. }
  inversion E. auto.
Qed.

(* (key, nonce) pairs: if two different artifacts had the same pair and one component were invented,
   its draw number would sit in both artifacts *)
Theorem ctr_pair_unique_lem : forall t c, all_percall t = true ->
  forall h a b fk fn fk' fn' k n,
    a <> b ->
    In (a, fk, k) (w_slots (run t c h)) -> In (a, fn, n) (w_slots (run t c h)) ->
    In (b, fk', k) (w_slots (run t c h)) -> In (b, fn', n) (w_slots (run t c h)) ->
    is_draw k = true \/ is_draw n = true -> False.
Proof.
  intros t c Ht h a b fk fn fk' fn' k n Hab Hak Han Hbk Hbn [Hd|Hd].
  - destruct k as [| |i]; try discriminate. destruct (fresh_slot_unique t c Ht h a fk b fk' i Hak Hbk). contradiction.
  - destruct n as [| |i]; try discriminate. destruct (fresh_slot_unique t c Ht h a fn b fn' i Han Hbn). contradiction.
Qed.

(* building again from the same configuration object: the new artifact (its id is the number of artifacts before the
   op) shares no draw with the artifact the configuration was first used for -- nor with any other *)
Theorem config_reuse_fresh_lem : forall t c, all_percall t = true ->
  forall h j, j < nlen (w_objs (run t c h)) ->
  forall f f' i,
    In (j, f, ODraw i) (w_slots (run t c (h ++ [Again j]))) ->
    In (nlen (w_objs (run t c h)), f', ODraw i) (w_slots (run t c (h ++ [Again j]))) -> False.
Proof.
  intros t c Ht h j Hj f f' i H1 H2.
  destruct (fresh_slot_unique t c Ht (h ++ [Again j]) _ _ _ _ _ H1 H2) as [E _]. lia.
Qed.

(* ------------------------------------------------------------------ restarts, for ANY table *)
(* general invariant: everything recorded so far is below the next draw number *)
Definition below (w : world) : Prop :=
  (forall k v, In (k, v) (r_cache (w_rs w)) -> v < r_next (w_rs w)) /\
  (forall i, In i (indices (w_slots w)) -> i < r_next (w_rs w)).

(* relative to a restart point n0 with old slots `old`: cache values and later slots are >= n0 *)
Definition after (n0 : N) (old : list wslot) (w : world) : Prop :=
  n0 <= r_next (w_rs w) /\
  (forall k v, In (k, v) (r_cache (w_rs w)) -> n0 <= v < r_next (w_rs w)) /\
  exists later, w_slots w = old ++ later /\ forall i, In i (indices later) -> n0 <= i < r_next (w_rs w).

Lemma lookup_in : forall k c v, lookup k c = Some v -> In (k, v) c.
Proof.
  intros k c. induction c as [|[k' v'] r IH]; intros v H; simpl in H; [discriminate|].
  destruct (k' =? k) eqn:E; [inversion H; subst; apply N.eqb_eq in E; subst; now left|right; now apply IH].
Qed.

(* state of the entropy stream relative to n0 *)
Definition rs_ok (n0 : N) (s : rs) : Prop :=
  n0 <= r_next s /\ forall k v, In (k, v) (r_cache s) -> n0 <= v < r_next s.

Lemma exec_item_after : forall t n0 s it s' d sl,
  rs_ok n0 s -> exec_item t s it = (s', d, sl) ->
  rs_ok n0 s' /\ r_next s <= r_next s' /\ forall i, In i (sidx sl) -> n0 <= i < r_next s'.
Proof.
  intros t n0 s [f site es g a len keep] s' d sl [Hn Hc] H. simpl in H.
  destruct (invents g a).
  - destruct (cache_key t site es) as [k|].
    + destruct (lookup k (r_cache s)) as [v|] eqn:L.
      * inversion H; subst; clear H. split; [split; assumption|]. split; [lia|].
        intros i Hi. rewrite keep_slot_idx in Hi. destruct keep; [|destruct Hi]. destruct Hi as [Hi|[]]; subst.
        apply (Hc k). now apply lookup_in.
      * inversion H; subst; clear H. unfold rs_ok; simpl. split.
        { split; [lia|]. intros k0 v0 [E|Hin]; [inversion E; subst; lia|]. specialize (Hc k0 v0 Hin). lia. }
        split; [lia|]. intros i Hi. rewrite keep_slot_idx in Hi. destruct keep; [|destruct Hi].
        destruct Hi as [Hi|[]]; subst. lia.
    + inversion H; subst; clear H. unfold rs_ok; simpl. split.
      { split; [lia|]. intros k0 v0 Hin. specialize (Hc k0 v0 Hin). lia. }
      split; [lia|]. intros i Hi. rewrite keep_slot_idx in Hi. destruct keep; [|destruct Hi].
      destruct Hi as [Hi|[]]; subst. lia.
  - inversion H; subst; clear H. split; [split; assumption|]. split; [lia|].
    intros i Hi. rewrite keep_slot_idx in Hi. destruct keep; [|destruct Hi]. destruct a; destruct Hi.
Qed.

Lemma exec_items_after : forall t n0 its s s' d sl,
  rs_ok n0 s -> exec_items t s its = (s', d, sl) ->
  rs_ok n0 s' /\ r_next s <= r_next s' /\ forall i, In i (sidx sl) -> n0 <= i < r_next s'.
Proof.
  intros t n0 its. induction its as [|it r IH]; intros s s' d sl Hs H; simpl in H.
  - inversion H; subst. split; [exact Hs|]. split; [lia|]. intros i [].
  - destruct (exec_item t s it) as [[s1 d1] l1] eqn:E1.
    destruct (exec_items t s1 r) as [[s2 d2] l2] eqn:E2.
    inversion H; subst; clear H.
    destruct (exec_item_after t n0 s it s1 d1 l1 Hs E1) as (S1 & L1 & I1).
    destruct (IH s1 s' d2 l2 S1 E2) as (S2 & L2 & I2).
    split; [exact S2|]. split; [lia|]. intros i Hi. rewrite sidx_app in Hi. apply in_app_or in Hi.
    destruct Hi as [Hi|Hi]; [specialize (I1 i Hi); lia|now apply I2].
Qed.

Lemma import_draws_after : forall n0 es s s' d,
  rs_ok n0 s -> import_draws s es = (s', d) -> rs_ok n0 s' /\ r_next s <= r_next s'.
Proof.
  intros n0 es. induction es as [|[k len] r IH]; intros s s' d Hs H; simpl in H.
  - inversion H; subst. split; [exact Hs|lia].
  - destruct (lookup k (r_cache s)); [eapply IH; eauto|].
    destruct (import_draws (RS (r_next s + 1) ((k, r_next s) :: r_cache s)) r) as [s2 d2] eqn:E.
    inversion H; subst; clear H.
    assert (Hs1 : rs_ok n0 (RS (r_next s + 1) ((k, r_next s) :: r_cache s))).
    { destruct Hs as [Hn Hc]. split; simpl; [lia|]. intros k0 v0 [E0|Hin]; [inversion E0; subst; lia|].
      specialize (Hc k0 v0 Hin). lia. }
    destruct (IH _ _ _ Hs1 E) as [S2 L2]. simpl in L2. split; [exact S2|lia].
Qed.

Lemma import_list_after : forall t n0 ms s imp s' imp' d,
  rs_ok n0 s -> import_list t s imp ms = (s', imp', d) -> rs_ok n0 s' /\ r_next s <= r_next s'.
Proof.
  intros t n0 ms. induction ms as [|m r IH]; intros s imp s' imp' d Hs H; simpl in H.
  - inversion H; subst. split; [exact Hs|lia].
  - destruct (mem m imp); [eapply IH; eauto|].
    destruct (import_rows t s m) as [s1 d1] eqn:E1.
    destruct (import_list t s1 (imp ++ [m]) r) as [[s2 imp2] d2] eqn:E2.
    inversion H; subst; clear H. unfold import_rows in E1.
    destruct (import_draws_after n0 _ s s1 d1 Hs E1) as [S1 L1].
    destruct (IH s1 (imp ++ [m]) s' imp' d2 S1 E2) as [S2 L2]. split; [exact S2|lia].
Qed.

Lemma after_rs : forall n0 old w, after n0 old w -> rs_ok n0 (w_rs w).
Proof. intros n0 old w (H1 & H2 & _). split; assumption. Qed.

Lemma run_plan_after : forall t c n0 old w p j newobj,
  after n0 old w -> after n0 old (fst (run_plan t c w p j newobj)).
Proof.
  intros t c n0 old w [[m its] status] j newobj Hw. pose proof (after_rs _ _ _ Hw) as Hs.
  destruct Hw as (H1 & H2 & later & EL & HL). unfold run_plan, ensure_import.
  destruct (import_list t (w_rs w) (w_imp w) (closure_of c m)) as [[s1 imp1] d1] eqn:E1.
  destruct (import_list_after t n0 _ _ _ _ _ _ Hs E1) as [S1 L1].
  destruct (exec_items t s1 its) as [[s2 d2] sl] eqn:E2.
  destruct (exec_items_after t n0 its s1 s2 d2 sl S1 E2) as (S2 & L2 & I2).
  destruct S2 as [N2 C2].
  destruct (status =? 0); unfold after; simpl.
  - split; [exact N2|]. split; [exact C2|]. exists (later ++ tag j sl). split; [rewrite EL; now rewrite app_assoc|].
    intros i Hi. rewrite indices_app, indices_tag in Hi. apply in_app_or in Hi.
    destruct Hi as [Hi|Hi]; [specialize (HL i Hi); lia|now apply I2].
  - split; [exact N2|]. split; [exact C2|]. exists later. split; [exact EL|].
    intros i Hi. specialize (HL i Hi). lia.
Qed.

Lemma step_after : forall t c n0 old w o, after n0 old w -> after n0 old (fst (step t c w o)).
Proof.
  intros t c n0 old w o Hw. destruct o as [|m|k flag a|j a x|j]; simpl.
  - destruct Hw as (H1 & H2 & later & EL & HL). unfold ensure_import.
    destruct (import_list t (RS (r_next (w_rs w)) []) [] (closure_of c 0)) as [[s1 imp1] d1] eqn:E1.
    assert (Hs : rs_ok n0 (RS (r_next (w_rs w)) [])) by (split; simpl; [exact H1|intros k v []]).
    destruct (import_list_after t n0 _ _ _ _ _ _ Hs E1) as [[N1 C1] L1]. simpl in L1.
    unfold after; simpl. split; [exact N1|]. split; [exact C1|]. exists later. split; [exact EL|].
    intros i Hi. specialize (HL i Hi). lia.
  - pose proof (after_rs _ _ _ Hw) as Hs. destruct Hw as (H1 & H2 & later & EL & HL). unfold ensure_import.
    destruct (import_list t (w_rs w) (w_imp w) (closure_of c m)) as [[s1 imp1] d1] eqn:E1.
    destruct (import_list_after t n0 _ _ _ _ _ _ Hs E1) as [[N1 C1] L1].
    unfold after; simpl. split; [exact N1|]. split; [exact C1|]. exists later. split; [exact EL|].
    intros i Hi. specialize (HL i Hi). lia.
  - destruct (plan_new t k flag a); [now apply run_plan_after|exact Hw].
  - destruct (j <? w_base w); [exact Hw|].
    destruct (nth_error (w_objs w) (N.to_nat j)); [|exact Hw].
    destruct (plan_act t (w_slots w) j o a x); [now apply run_plan_after|exact Hw].
  - destruct (j <? w_base w); [exact Hw|].
    destruct (nth_error (w_objs w) (N.to_nat j)); [|exact Hw].
    destruct (config_driven (o_kind o) (o_flag o)); [|exact Hw].
    destruct (plan_new t (o_kind o) (o_flag o) (o_args o)); [now apply run_plan_after|exact Hw].
Qed.

Lemma run_from_after : forall t c n0 old h w, after n0 old w -> after n0 old (run_from t c w h).
Proof.
  intros t c n0 old h. induction h as [|o r IH]; intros w Hw; simpl; [exact Hw|]. apply IH. now apply step_after.
Qed.

(* everything recorded is below next -- follows from `after 1 []` *)
Lemma run_below : forall t c h i, In i (indices (w_slots (run t c h))) -> i < r_next (w_rs (run t c h)).
Proof.
  intros t c h i Hi.
  assert (H0 : after 1 [] init_world).
  { unfold after, init_world; simpl. split; [lia|]. split; [intros k v []|]. exists []. split; [reflexivity|intros j []]. }
  destruct (run_from_after t c 1 [] h init_world H0) as (_ & _ & later & EL & HL).
  unfold run in *. rewrite EL in Hi. simpl in Hi. specialize (HL i Hi). lia.
Qed.

Lemma run_from_app : forall t c h1 h2 w, run_from t c w (h1 ++ h2) = run_from t c (run_from t c w h1) h2.
Proof. intros t c h1. induction h1 as [|o r IH]; intros h2 w; simpl; [reflexivity|apply IH]. Qed.

(* For ANY site table (import-time sites included): artifacts made after an interpreter restart use only draws made
   after the restart, which are all larger than every draw recorded before it. *)
Theorem restart_split : forall t c h1 h2,
  exists later,
    w_slots (run t c (h1 ++ Restart :: h2)) = w_slots (run t c h1) ++ later /\
    forall i j, In i (indices (w_slots (run t c h1))) -> In j (indices later) -> i < j.
Proof.
  intros t c h1 h2. unfold run at 1. rewrite run_from_app. fold (run t c h1). simpl.
  set (w1 := run t c h1). set (n0 := r_next (w_rs w1)).
  assert (H0 : after n0 (w_slots w1) (fst (step t c w1 Restart))).
  { simpl. unfold ensure_import.
    destruct (import_list t (RS (r_next (w_rs w1)) []) [] (closure_of c 0)) as [[s1 imp1] d1] eqn:E1.
    assert (Hs : rs_ok n0 (RS (r_next (w_rs w1)) [])) by (split; simpl; [unfold n0; lia|intros k v []]).
    destruct (import_list_after t n0 _ _ _ _ _ _ Hs E1) as [[N1 C1] L1].
    unfold after; simpl. split; [exact N1|]. split; [exact C1|]. exists []. split; [now rewrite app_nil_r|intros i []]. }
  destruct (run_from_after t c n0 (w_slots w1) h2 _ H0) as (_ & _ & later & EL & HL).
  exists later. split; [exact EL|]. intros i j Hi Hj. specialize (HL j Hj).
  pose proof (run_below t c h1 i Hi) as Hb. fold w1 in Hb. fold n0 in Hb. lia.
Qed.

(* ------------------------------------------------------------------ user values are kept *)
Lemma exec_item_user : forall t s f site es g v len,
  exec_item t s (Item f site es g (AGiven v) len true) = (s, [], [(f, OUser v)]).
Proof. intros. simpl. destruct g; reflexivity. Qed.

(* ------------------------------------------------------------------ necessity: the pre-repair shapes share *)
Definition shares (t : table) (h : list op) : bool :=
  let l := indices (w_slots (run t [] h)) in
  negb (N.of_nat (length (nodup N.eq_dec l)) =? N.of_nat (length l)).

Lemma default_param_object_shared :
  shares [((2, 511), false, 32)] [Restart; New 2 0 []; New 2 0 []] = true /\
  shares [((2, 160), false, 31)] [Restart; New 1 0 []; New 1 0 []] = true /\
  shares [((3, 1854), false, 33)] [Restart; New 4 0 []; New 4 4 []; Act 0 1 AAbsent; Act 1 1 AAbsent] = true.
Proof. vm_compute. repeat split. Qed.

Lemma shares_not_nodup : forall t h, shares t h = true -> ~ NoDup (indices (w_slots (run t [] h))).
Proof.
  unfold shares. intros t h H Hn. rewrite (nodup_fixed_point N.eq_dec Hn) in H.
  rewrite N.eqb_refl in H. discriminate.
Qed.

(* the three import-time shapes that existed before the repairs (default-argument SBV2xAdvancedParams() of
   BootImageV21 / BootImageV20, class-body NEEDED_MEMBERS draw of the MBI mixin) each admit a history in which two
   artifacts share draws: the per-call premise of fresh_nodup cannot be dropped *)
Lemma import_time_shapes_refuted :
  (~ NoDup (indices (w_slots (run [((2, 511), false, 32)] [] [Restart; New 2 0 []; New 2 0 []])))) /\
  (~ NoDup (indices (w_slots (run [((2, 160), false, 31)] [] [Restart; New 1 0 []; New 1 0 []])))) /\
  (~ NoDup (indices (w_slots (run [((3, 1854), false, 33)] []
                                  [Restart; New 4 0 []; New 4 4 []; Act 0 1 AAbsent; Act 1 1 AAbsent])))).
Proof.
  destruct default_param_object_shared as (H1 & H2 & H3).
  repeat split; apply shares_not_nodup; assumption.
Qed.
