(* Proofs/RotBlockProofs.v -- export/parse round trips of the certificate blocks of Model/RotModel.v (C03). *)
From Coq Require Import ZArith NArith List Bool Lia.
Require Import Value Bytes BytesProofs Sha2 GenRot RotModel RotProofs.
Import ListNotations.
Ltac Zify.zify_post_hook ::= Z.to_euclidean_division_equations.
Local Open Scope N_scope.

Lemma le32_length v : length (le32 v) = 4%nat.
Proof. apply le_enc_length. Qed.
Lemma le16_length v : length (le16 v) = 2%nat.
Proof. apply le_enc_length. Qed.
Lemma le_dec_le32 v : v < 2 ^ 32 -> le_dec (le32 v) = v.
Proof. intros H. unfold le32. now apply le_dec_enc_small. Qed.
Lemma le_dec_le16 v : v < 2 ^ 16 -> le_dec (le16 v) = v.
Proof. intros H. unfold le16. now apply le_dec_enc_small. Qed.
Global Opaque le32 le16.

(* reading a field that sits right after a prefix of known length *)
Lemma field_after {A} (pre f rest : list A) o w :
  o = length pre -> w = length f -> firstn w (skipn o (pre ++ f ++ rest)) = f.
Proof. intros -> ->. rewrite skipn_app_len by reflexivity. now apply firstn_app_len. Qed.

Lemma u32_at_pre pre v rest o : o = length pre -> v < 2 ^ 32 -> u32_at (pre ++ le32 v ++ rest) o = Ok v.
Proof.
  intros -> H. unfold u32_at. rewrite !nlen_app. unfold nlen at 2. rewrite le32_length.
  replace (nlen pre + (N.of_nat 4 + nlen rest) <? N.of_nat (length pre) + 4) with false by (symmetry; apply N.ltb_ge; unfold nlen; lia).
  rewrite (field_after pre (le32 v) rest) by (try rewrite le32_length; reflexivity). now rewrite le_dec_le32.
Qed.

Lemma u32_at_head v rest : v < 2 ^ 32 -> u32_at (le32 v ++ rest) 0 = Ok v.
Proof. intros H. exact (u32_at_pre [] v rest 0%nat eq_refl H). Qed.

(* ====================================================================================== *)
(* ISK certificate                                                                          *)
(* ====================================================================================== *)
Definition isk_ok (i : isk_in) : Prop :=
  (exists c x y, i_key i = KEcc c x y /\ (c = 256 \/ c = 384) /\ on_curve c x y = true)
  /\ i_constraints i < 2 ^ 32 /\ isk_sig_offset i < 2 ^ 32
  /\ N.land (isk_sig_offset i) g_isk_heur_mask <> g_isk_heur_magic.

Lemma isk_flags_props i c x y : i_key i = KEcc c x y -> (c = 256 \/ c = 384) ->
  isk_flags i < 2 ^ 32 /\ N.land (isk_flags i) 15 = curve_nibble c /\
  N.testbit (isk_flags i) 31 = (match i_user_data i with [] => false | _ => true end) /\
  nib_len (curve_nibble c) = Ok (N.of_nat (coord_size c)).
Proof.
  intros EK Hc. unfold isk_flags. rewrite EK. cbn [key_bits].
  destruct (i_user_data i); destruct Hc as [-> | ->]; vm_compute; repeat split; reflexivity.
Qed.

Lemma isk_parse_ok i pub sg :
  isk_ok i -> raw_key (i_key i) = Ok pub -> sg <> [] ->
  isk_parse (isk_head i ++ pub ++ i_user_data i ++ sg) (length sg) =
  Ok {| o_constraints := i_constraints i; o_flags := isk_flags i; o_pub := pub; o_user_data := i_user_data i; o_sig := sg;
        o_offset_present := true |}.
Proof.
  intros ((c & x & y & EK & Hc & HO) & Hcn & Hoff & Hheur) EP Hsg.
  assert (Hc3 : c = 256 \/ c = 384 \/ c = 521) by (destruct Hc; auto).
  pose proof (on_curve_key_ok c x y Hc3 HO) as KO.
  assert (RO : raw_ok (KEcc c x y)) by (split; assumption).
  pose proof (raw_key_roundtrip_lemma _ RO) as RT.
  rewrite EK in EP. rewrite EP in RT. cbn [bind] in RT.
  assert (Lp : length pub = (2 * coord_size c)%nat).
  { rewrite raw_key_ecc in EP by assumption. injection EP as <-. rewrite app_length, !be_encf_length. lia. }
  destruct (isk_flags_props i c x y EK Hc) as (Hfl & Hnib & Hbit & Hkl).
  set (cs := coord_size c) in *. set (ud := i_user_data i) in *.
  assert (Eoff : isk_sig_offset i = 12 + nlen ud + 2 * N.of_nat cs) by (unfold isk_sig_offset; now rewrite EK).
  unfold isk_parse, isk_head. rewrite <- !app_assoc.
  rewrite (u32_at_head _ _ Hoff). cbn [bind].
  rewrite (u32_at_pre (le32 (isk_sig_offset i)) _ _ 4%nat (eq_sym (le32_length _)) Hcn). cbn [bind].
  replace (le32 (isk_sig_offset i) ++ le32 (i_constraints i) ++ le32 (isk_flags i) ++ pub ++ ud ++ sg)
    with ((le32 (isk_sig_offset i) ++ le32 (i_constraints i)) ++ le32 (isk_flags i) ++ pub ++ ud ++ sg) by (now rewrite <- app_assoc).
  rewrite (u32_at_pre _ _ _ 8%nat) by (try rewrite app_length, !le32_length; auto). cbn [bind].
  apply N.eqb_neq in Hheur. rewrite Hheur. cbv iota.
  rewrite Hnib, Hkl. cbn [bind].
  set (hd := (le32 (isk_sig_offset i) ++ le32 (i_constraints i)) ++ le32 (isk_flags i)).
  replace ((le32 (isk_sig_offset i) ++ le32 (i_constraints i)) ++ le32 (isk_flags i) ++ pub ++ ud ++ sg) with (hd ++ pub ++ ud ++ sg)
    by (unfold hd; now rewrite <- !app_assoc).
  assert (Lh : length hd = 12%nat) by (unfold hd; now rewrite !app_length, !le32_length).
  set (d := hd ++ pub ++ ud ++ sg).
  assert (Ld : length d = (12 + 2 * cs + length ud + length sg)%nat) by (unfold d; rewrite !app_length, Lh, Lp; lia).
  assert (Emin : N.min (isk_sig_offset i) (nlen d) = isk_sig_offset i).
  { apply N.min_l. unfold nlen. rewrite Ld, Eoff. unfold nlen. lia. }
  rewrite Emin.
  assert (E2 : N.to_nat (2 * N.of_nat cs) = (2 * cs)%nat) by lia.
  rewrite E2.
  assert (P1 : firstn (2 * cs) (skipn 12 d) = pub).
  { unfold d. apply field_after; [now rewrite Lh|now rewrite Lp]. }
  rewrite P1.
  assert (Esl : slice d (12 + 2 * cs) (N.to_nat (isk_sig_offset i)) = ud).
  { unfold slice.
    replace (N.to_nat (isk_sig_offset i) - (12 + 2 * cs))%nat with (length ud) by (rewrite Eoff; unfold nlen; lia).
    unfold d. replace (hd ++ pub ++ ud ++ sg) with ((hd ++ pub) ++ ud ++ sg) by (now rewrite <- app_assoc).
    apply field_after; [rewrite app_length, Lh, Lp; lia|reflexivity]. }
  assert (Eud : (if N.testbit (isk_flags i) 31 then slice d (12 + 2 * cs) (N.to_nat (isk_sig_offset i)) else []) = ud).
  { rewrite Hbit, Esl. clear. destruct ud; reflexivity. }
  rewrite Eud.
  assert (Esg : firstn (length sg) (skipn (N.to_nat (isk_sig_offset i)) d) = sg).
  { unfold d. replace (hd ++ pub ++ ud ++ sg) with ((hd ++ pub ++ ud) ++ sg ++ []) by (now rewrite <- !app_assoc, app_nil_r).
    apply field_after; [rewrite !app_length, Lh, Lp, Eoff; unfold nlen; lia|reflexivity]. }
  rewrite Esg.
  destruct pub as [|p0 pt] eqn:EPB; [simpl in Lp; destruct Hc as [-> | ->]; simpl in Lp; lia|]. rewrite <- EPB in *.
  rewrite RT. cbn [bind].
  assert (Efl : N.lor (match ud with [] => 0 | _ => 2 ^ 31 end) (curve_nibble c) = isk_flags i).
  { unfold isk_flags. rewrite EK. reflexivity. }
  rewrite Efl. reflexivity.
Qed.

Lemma isk_out_bytes_ok i pub sg :
  sg <> [] ->
  isk_out_bytes {| o_constraints := i_constraints i; o_flags := isk_flags i; o_pub := pub; o_user_data := i_user_data i; o_sig := sg;
                   o_offset_present := true |} =
  Ok (le32 (12 + nlen (i_user_data i) + nlen pub) ++ le32 (i_constraints i) ++ le32 (isk_flags i) ++ pub ++ i_user_data i ++ sg).
Proof. intros H. unfold isk_out_bytes. cbn. destruct sg; [contradiction|reflexivity]. Qed.

(* ====================================================================================== *)
(* root key record                                                                          *)
(* ====================================================================================== *)
Definition flags_small_check : bool :=
  forallb (fun ca => forallb (fun used => forallb (fun n => forallb (fun nib => rkr_flags ca used n nib <? 2 ^ 32)
    range16) range16) range16) [true; false].
Lemma flags_small ca used n nib : used < 16 -> n < 16 -> nib < 16 -> rkr_flags ca used n nib < 2 ^ 32.
Proof.
  intros Hu Hn Hb. assert (C : flags_small_check = true) by (vm_compute; reflexivity). unfold flags_small_check in C.
  rewrite forallb_forall in C. specialize (C ca (ltac:(destruct ca; simpl; tauto))).
  rewrite forallb_forall in C. specialize (C used (in_range16 _ Hu)).
  rewrite forallb_forall in C. specialize (C n (in_range16 _ Hn)).
  rewrite forallb_forall in C. specialize (C nib (in_range16 _ Hb)). now apply N.ltb_lt.
Qed.

Lemma split_n_concat (k : nat) (hs : list (list N)) : (forall h, In h hs -> length h = k) ->
  split_n (length hs) k (concat hs) = hs.
Proof.
  induction hs as [|h t IH]; intros H; [reflexivity|].
  cbn [length split_n concat]. rewrite firstn_app_len, skipn_app_len by (symmetry; apply H; now left).
  rewrite IH; [reflexivity|]. intros x Hx. apply H. now right.
Qed.

Lemma coord_hlen c : c = 256 \/ c = 384 -> coord_size c = hlen (halg_c c) /\ nib_len (curve_nibble c) = Ok (N.of_nat (hlen (halg_c c)))
  /\ nib_halg (curve_nibble c) = Ok (halg_c c) /\ curve_nibble c < 16 /\ (0 < hlen (halg_c c))%nat.
Proof. intros [-> | ->]; vm_compute; repeat split; try reflexivity; lia. Qed.

Lemma rkr_parse_ok c ca used ks :
  ecc_set c ks -> Forall key_ok ks -> (length ks <= 4)%nat -> (N.to_nat used < length ks)%nat ->
  exists f pub k, rkr_calc ca used ks = Ok (f, map rkh_spec ks, pub) /\ f < 2 ^ 32 /\ N.testbit f 31 = ca /\
    N.shiftr (N.land f 3840) 8 = used /\ N.shiftr (N.land f 240) 4 = nlen ks /\
    nth_error ks (N.to_nat used) = Some k /\ raw_key k = Ok pub /\
    length pub = (2 * coord_size c)%nat /\
    forall rest, rkr_parse (rkr_bytes (f, map rkh_spec ks, pub) ++ rest) = Ok (f, map rkh_spec ks, pub).
Proof.
  intros HS HK HL HU. destruct (rkr_calc_ok c ca used ks HS HK HL HU) as (k & pub & EN & ER & E).
  destruct HS as [Hc HF]. assert (HS : ecc_set c ks) by (now split).
  destruct (coord_hlen c Hc) as (Ecs & Enl & Enh & Hnib & Hpos).
  set (n := nlen ks) in *. assert (Hn : n < 16) by (unfold n, nlen; lia). assert (Hu : used < 16) by lia.
  fold (rkr_flags ca used n (curve_nibble c)) in E. set (f := rkr_flags ca used n (curve_nibble c)) in *.
  pose proof (flags_small ca used n _ Hu Hn Hnib) as Hf. fold f in Hf.
  destruct (flags_decode ca used n _ Hu Hn Hnib) as (D31 & Dused & Dn & Dnib). fold f in D31, Dused, Dn, Dnib.
  pose proof (nth_error_In _ _ EN) as Hk.
  assert (Lp : length pub = (2 * coord_size c)%nat).
  { assert (Ek : is_ecc c k) by (rewrite Forall_forall in HF; now apply HF). destruct k as [|c1 x y]; [contradiction|]. simpl in Ek. subst c1.
    rewrite raw_key_ecc in ER by (rewrite Forall_forall in HK; now apply HK). injection ER as <-. rewrite app_length, !be_encf_length. lia. }
  exists f, pub, k. split; [exact E|]. split; [exact Hf|]. split; [exact D31|]. split; [exact Dused|]. split; [exact Dn|].
  split; [exact EN|]. split; [exact ER|]. split; [exact Lp|]. intros rest.
  set (hs := map rkh_spec ks). set (hl := hlen (halg_c c)) in *.
  assert (Lhs : forall h, In h hs -> length h = hl).
  { intros h Hh. apply in_map_iff in Hh as (k' & <- & Hk'). apply (ecc_hash_len c ks k' HS Hk'). }
  assert (Nhs : length hs = length ks) by (unfold hs; apply map_length).
  unfold rkr_parse, rkr_bytes. rewrite <- !app_assoc.
  rewrite (u32_at_head _ _ Hf). cbn [bind]. rewrite Dn, Dnib, Enl, Enh. cbn [bind].
  destruct (1 <? n) eqn:E1.
  - assert (Eex : export_v21 hs = concat hs) by (unfold export_v21, nlen; rewrite Nhs; fold (nlen ks); fold n; now rewrite E1).
    rewrite Eex.
    assert (Lc : length (concat hs) = (hl * length ks)%nat) by (rewrite (concat_len_k hl _ Lhs); now rewrite Nhs).
    assert (T1 : N.to_nat (N.of_nat hl * n) = length (concat hs)) by (rewrite Lc; unfold n, nlen; lia).
    rewrite T1.
    rewrite (field_after (le32 f) (concat hs) (pub ++ rest)) by (try rewrite le32_length; reflexivity).
    assert (T2 : N.to_nat (4 + N.of_nat hl * n) = length (le32 f ++ concat hs)) by (rewrite app_length, le32_length, Lc; unfold n, nlen; lia).
    rewrite T2.
    replace (le32 f ++ concat hs ++ pub ++ rest) with ((le32 f ++ concat hs) ++ pub ++ rest) by (now rewrite <- app_assoc).
    rewrite (field_after (le32 f ++ concat hs) pub rest) by (try reflexivity; rewrite Lp, Ecs; lia).
    unfold nlen at 1. rewrite !Lc. fold hl.
    replace (N.of_nat (hl * length ks) mod N.of_nat hl =? 0) with true
      by (symmetry; apply N.eqb_eq; rewrite Nat2N.inj_mul, N.mul_comm; apply N.mod_mul; lia).
    cbn [negb].
    replace (hl * length ks / hl)%nat with (length hs) by (rewrite Nhs, Nat.mul_comm, Nat.div_mul; lia).
    rewrite (split_n_concat hl hs Lhs).
    unfold nlen. rewrite Nhs. replace (4 <? N.of_nat (length ks)) with false by (symmetry; apply N.ltb_ge; lia). reflexivity.
  - assert (L1 : length ks = 1%nat) by (apply N.ltb_ge in E1; unfold n, nlen in E1; lia).
    assert (Eex : export_v21 hs = []) by (unfold export_v21, nlen; rewrite Nhs, L1; reflexivity).
    rewrite Eex. cbn [app].
    rewrite (field_after (le32 f) pub rest) by (try rewrite le32_length; try reflexivity; rewrite Lp, Ecs; lia).
    assert (U0 : N.to_nat used = 0%nat) by lia.
    destruct ks as [|k0 [|k1 t]]; try (simpl in L1; lia). rewrite U0 in EN. cbn in EN. injection EN as <-.
    unfold hs. cbn [map]. destruct (ecc_hash_len c [k0] k0 HS (or_introl eq_refl)) as [EQ _]. rewrite EQ.
    assert (Ek : is_ecc c k0) by (inversion HF; assumption). destruct k0 as [|c1 x y]; [contradiction|]. simpl in Ek. subst c1.
    rewrite raw_key_ecc in ER by (inversion HK; assumption). injection ER as <-. reflexivity.
Qed.

(* ====================================================================================== *)
(* the whole block                                                                          *)
(* ====================================================================================== *)
Definition block_ok (sign : list N -> list N) (c : N) (b : cb21_in) : Prop :=
  ecc_set c (b_keys b) /\ Forall key_ok (b_keys b) /\ (length (b_keys b) <= 4)%nat /\
  (N.to_nat (b_used b) < length (b_keys b))%nat /\
  (forall m, length (sign m) = (2 * coord_size c)%nat) /\
  (b_ca b = false -> exists i, b_isk b = Some i /\ isk_ok i).

Lemma hdr21_facts : g_cb21_hdr_size = 12 /\ length g_cb21_magic = 4%nat /\ fst g_cb21_version < 2 ^ 16 /\ snd g_cb21_version < 2 ^ 16.
Proof. vm_compute. repeat split; reflexivity. Qed.

Lemma cb21_parse_shape mn mj sz rk ic :
  mn < 2 ^ 16 -> mj < 2 ^ 16 ->
  let ex := g_cb21_magic ++ le16 mn ++ le16 mj ++ le32 sz ++ rk ++ ic in
  cb21_parse ex =
  bind (rkr_parse (rk ++ ic)) (fun r =>
    let '(flags, hs, pub) := r in
    if N.testbit flags 31 then
      Ok {| p_major := mj; p_minor := mn; p_size := le_dec (le32 sz); p_flags := flags; p_rkh := hs; p_root_pub := pub; p_isk := None |}
    else
      bind (isk_parse (skipn (rkr_out_size r) (rk ++ ic)) (length pub)) (fun io =>
      Ok {| p_major := mj; p_minor := mn; p_size := le_dec (le32 sz); p_flags := flags; p_rkh := hs; p_root_pub := pub;
            p_isk := Some io |})).
Proof.
  intros Hmn Hmj ex. destruct hdr21_facts as (Hs & Lm & _ & _).
  unfold cb21_parse. rewrite Hs.
  assert (Lex : length ex = (12 + length (rk ++ ic))%nat).
  { unfold ex. rewrite !app_length, Lm, !le16_length, le32_length. lia. }
  replace (nlen ex <? 12) with false by (symmetry; apply N.ltb_ge; unfold nlen; lia).
  assert (F1 : firstn 4 ex = g_cb21_magic) by (unfold ex; apply firstn_app_len; now rewrite Lm).
  rewrite F1. replace (eqb_list g_cb21_magic g_cb21_magic) with true by (symmetry; now apply eqb_list_spec). cbn [negb].
  assert (F2 : firstn 2 (skipn 4 ex) = le16 mn).
  { unfold ex. apply field_after; [now rewrite Lm|now rewrite le16_length]. }
  assert (F3 : firstn 2 (skipn 6 ex) = le16 mj).
  { unfold ex. replace (g_cb21_magic ++ le16 mn ++ le16 mj ++ le32 sz ++ rk ++ ic) with ((g_cb21_magic ++ le16 mn) ++ le16 mj ++ le32 sz ++ rk ++ ic)
      by (now rewrite <- app_assoc). apply field_after; [now rewrite app_length, Lm, le16_length|now rewrite le16_length]. }
  assert (F4 : firstn 4 (skipn 8 ex) = le32 sz).
  { unfold ex. replace (g_cb21_magic ++ le16 mn ++ le16 mj ++ le32 sz ++ rk ++ ic) with ((g_cb21_magic ++ le16 mn ++ le16 mj) ++ le32 sz ++ rk ++ ic)
      by (now rewrite <- !app_assoc). apply field_after; [now rewrite !app_length, Lm, !le16_length|now rewrite le32_length]. }
  assert (F5 : skipn (N.to_nat 12) ex = rk ++ ic).
  { unfold ex. replace (g_cb21_magic ++ le16 mn ++ le16 mj ++ le32 sz ++ rk ++ ic) with ((g_cb21_magic ++ le16 mn ++ le16 mj ++ le32 sz) ++ rk ++ ic)
      by (now rewrite <- !app_assoc). apply skipn_app_len. now rewrite !app_length, Lm, !le16_length, le32_length. }
  rewrite F2, F3, F4, F5. rewrite (le_dec_le16 _ Hmn), (le_dec_le16 _ Hmj). reflexivity.
Qed.

Lemma ok_pair_inj {A B} (a a' : A) (b b' : B) : @Ok (A * B) (a, b) = Ok (a', b') -> a = a' /\ b = b'.
Proof. intros H. injection H. auto. Qed.

Lemma cb21_roundtrip_lemma c sign b ex msgs :
  block_ok sign c b -> cb21_export sign b = Ok (ex, msgs) ->
  exists p,
    cb21_parse ex = Ok p /\ cb21_reexport p = Ok ex /\ cb21_out_rkth p = Ok (rot_spec_v21 (b_keys b)) /\
    N.testbit (p_flags p) 31 = b_ca b /\ N.shiftr (N.land (p_flags p) 3840) 8 = b_used b /\
    N.shiftr (N.land (p_flags p) 240) 4 = nlen (b_keys b) /\
    (exists k, nth_error (b_keys b) (N.to_nat (b_used b)) = Some k /\ raw_key k = Ok (p_root_pub p)) /\
    match p_isk p, (if b_ca b then None else b_isk b) with
    | None, None => True
    | Some o, Some i => o_constraints o = i_constraints i /\ o_user_data o = i_user_data i /\ raw_key (i_key i) = Ok (o_pub o)
                        /\ o_flags o = isk_flags i /\ exists m, msgs = [m] /\ o_sig o = sign m
    | _, _ => False
    end.
Proof.
  intros (HS & HK & HL & HU & Hsig & Hisk) HE.
  destruct (rkr_parse_ok c (b_ca b) (b_used b) (b_keys b) HS HK HL HU) as (f & pub & k & ER & Hf & D31 & Dused & Dn & EN & EK & Lp & HP).
  destruct hdr21_facts as (Hs & Lm & Hmj & Hmn).
  assert (HNE : b_keys b <> []) by (intros E0; rewrite E0 in HU; simpl in HU; lia).
  assert (RK : rkth_v21 (map rkh_spec (b_keys b)) = Ok (rot_spec_v21 (b_keys b))) by (now apply (rkth_v21_spec c)).
  unfold cb21_export in HE. rewrite ER in HE.
  destruct (b_ca b) eqn:ECA.
  - (* CA: no ISK certificate *)
    cbn [bind] in HE. apply ok_pair_inj in HE as [<- <-].
    set (rk := rkr_bytes (f, map rkh_spec (b_keys b), pub)) in *.
    replace (g_cb21_magic ++ le16 (snd g_cb21_version) ++ le16 (fst g_cb21_version) ++ le32 (g_cb21_hdr_size + nlen rk) ++ rk)
      with (g_cb21_magic ++ le16 (snd g_cb21_version) ++ le16 (fst g_cb21_version) ++ le32 (g_cb21_hdr_size + nlen rk) ++ rk ++ [])
      by (now rewrite app_nil_r).
    rewrite (cb21_parse_shape _ _ _ rk [] Hmn Hmj). rewrite (HP []). cbn [bind]. rewrite D31.
    eexists. split; [reflexivity|]. cbn [p_flags p_isk p_rkh p_root_pub].
    split.
    { unfold cb21_reexport. cbn [p_isk p_flags p_rkh p_root_pub p_minor p_major bind]. unfold rkr_bytes. rewrite !app_nil_r.
      change (nlen (@nil N)) with 0. rewrite N.add_0_r. reflexivity. }
    split; [unfold cb21_out_rkth; cbn [p_rkh]; exact RK|]. split; [exact D31|]. split; [exact Dused|]. split; [exact Dn|].
    split; [exists k; now split|exact I].
  - (* ISK certificate present *)
    destruct (Hisk eq_refl) as (i & EI & IO). rewrite EI in HE |- *.
    destruct (isk_check (b_family b) i); [|discriminate]. cbn [bind] in HE.
    destruct IO as ((ci & xi & yi & EKi & Hci & HOi) & Hcn & Hoff & Hheur).
    assert (IO : isk_ok i) by (split; [exists ci, xi, yi; auto|auto]).
    assert (Hc3 : ci = 256 \/ ci = 384 \/ ci = 521) by (destruct Hci; auto).
    pose proof (on_curve_key_ok ci xi yi Hc3 HOi) as KOi.
    assert (EPi : raw_key (i_key i) = Ok (be_encf (coord_size ci) xi ++ be_encf (coord_size ci) yi)) by (rewrite EKi; now apply raw_key_ecc).
    rewrite EPi in HE. cbn [bind] in HE. set (ipub := be_encf (coord_size ci) xi ++ be_encf (coord_size ci) yi) in *.
    set (rk := rkr_bytes (f, map rkh_spec (b_keys b), pub)) in *.
    set (msg := isk_tbs rk i ipub) in *.
    assert (Lsg : length (sign msg) = (2 * coord_size c)%nat) by apply Hsig.
    destruct (sign msg) as [|s0 st] eqn:ES.
    { exfalso. simpl in Lsg. destruct HS as [[-> | ->] _]; simpl in Lsg; lia. }
    rewrite <- ES in *. apply ok_pair_inj in HE as [<- <-].
    set (ic := isk_head i ++ ipub ++ i_user_data i ++ sign msg).
    rewrite (cb21_parse_shape _ _ _ rk ic Hmn Hmj). rewrite (HP ic). cbn [bind]. rewrite D31.
    assert (SK : skipn (rkr_out_size (f, map rkh_spec (b_keys b), pub)) (rk ++ ic) = ic).
    { apply skipn_app_len. unfold rk, rkr_bytes, rkr_out_size. rewrite !app_length, le32_length. reflexivity. }
    rewrite SK. rewrite Lp, <- Lsg.
    assert (NE : sign msg <> []) by (rewrite ES; discriminate).
    unfold ic. rewrite (isk_parse_ok i ipub (sign msg) IO EPi NE). cbn [bind].
    eexists. split; [reflexivity|]. cbn [p_flags p_isk p_rkh p_root_pub].
    split.
    { unfold cb21_reexport. cbn [p_isk p_flags p_rkh p_root_pub p_minor p_major].
      rewrite (isk_out_bytes_ok i ipub (sign msg) NE). cbn [bind].
      assert (EO : 12 + nlen (i_user_data i) + nlen ipub = isk_sig_offset i).
      { unfold isk_sig_offset. rewrite EKi. cbn [key_bits]. unfold ipub, nlen. rewrite app_length, !be_encf_length. lia. }
      rewrite EO. unfold rk, rkr_bytes, isk_head. rewrite <- !app_assoc. reflexivity. }
    split; [unfold cb21_out_rkth; cbn [p_rkh]; exact RK|]. split; [exact D31|]. split; [exact Dused|]. split; [exact Dn|].
    split; [exists k; now split|]. cbn [o_constraints o_user_data o_pub o_flags o_sig].
    repeat split; try reflexivity; try assumption. exists msg. split; reflexivity.
Qed.

Example block_ok_nontrivial :
  block_ok (fun _ => repeat 7 64%nat) 256
    {| b_ca := false; b_used := 1; b_keys := [p256_g; p256_g]; b_family := None;
       b_isk := Some {| i_constraints := 5; i_key := p256_g; i_user_data := [1; 2; 3] |} |}.
Proof.
  unfold block_ok. cbn [b_keys b_used b_ca b_isk].
  split; [split; [now left|repeat constructor]|]. split; [repeat constructor; vm_compute; reflexivity|].
  split; [simpl; lia|]. split; [simpl; lia|]. split; [intros; reflexivity|].
  intros _. eexists. split; [reflexivity|]. unfold isk_ok. cbn [i_key i_constraints].
  split; [eexists _, _, _; split; [reflexivity|]; split; [now left|vm_compute; reflexivity]|].
  split; [vm_compute; reflexivity|]. split; [vm_compute; reflexivity|]. vm_compute. discriminate.
Qed.

(* ====================================================================================== *)
(* certificate block v1                                                                     *)
(* ====================================================================================== *)
Definition wf_cb1 (b : cb1) : Prop :=
  c1_major b < 2 ^ 16 /\ c1_minor b < 2 ^ 16 /\ c1_flags b < 2 ^ 32 /\ c1_build b < 2 ^ 32 /\ c1_image_length b < 2 ^ 32 /\
  Forall (fun c => nlen c < 2 ^ 32) (c1_certs b) /\ nlen (c1_certs b) < 2 ^ 32 /\ nlen (cert_table (c1_certs b)) < 2 ^ 32 /\
  (length (c1_rkh b) <= 4)%nat /\ (forall h, In h (c1_rkh b) -> length h = 32%nat).

Definition slots_v1 (hs : list (list N)) : list (list N) := map (slot_v1 hs) (seq 0 4).
Lemma export_v1_slots hs : export_v1 hs = concat (slots_v1 hs).
Proof. reflexivity. Qed.
Lemma slot_v1_len hs i : (forall h, In h hs -> length h = 32%nat) -> length (slot_v1 hs i) = 32%nat.
Proof.
  intros H. unfold slot_v1. destruct (nth_error hs i) as [h|] eqn:E; [|reflexivity].
  pose proof (H h (nth_error_In _ _ E)) as L. destruct h; [discriminate|exact L].
Qed.
Lemma slots_v1_len hs : (forall h, In h hs -> length h = 32%nat) -> forall h, In h (slots_v1 hs) -> length h = 32%nat.
Proof. intros H h Hh. apply in_map_iff in Hh as (i & <- & _). now apply slot_v1_len. Qed.
Lemma slots_v1_idem hs : (forall h, In h hs -> length h = 32%nat) -> slots_v1 (slots_v1 hs) = slots_v1 hs.
Proof.
  intros H. unfold slots_v1 at 1 3. apply map_ext_in. intros i Hi. apply in_seq in Hi.
  unfold slot_v1 at 1. unfold slots_v1. rewrite nth_error_map.
  assert (E : nth_error (seq 0 4) i = Some i).
  { destruct i as [|[|[|[|i]]]]; try reflexivity. lia. }
  rewrite E. cbn [option_map]. pose proof (slot_v1_len hs i H) as L. destruct (slot_v1 hs i); [discriminate|reflexivity].
Qed.

Lemma cert_table_cons c t : cert_table (c :: t) = (le32 (nlen c) ++ c) ++ cert_table t.
Proof. reflexivity. Qed.
Lemma cert_table_len certs : (4 * length certs <= length (cert_table certs))%nat.
Proof.
  induction certs as [|c t IH]; [simpl; lia|]. rewrite cert_table_cons, !app_length, le32_length. simpl length. lia.
Qed.

Lemma parse_certs_ok certs tail : Forall (fun c => nlen c < 2 ^ 32) certs ->
  parse_certs (length certs) (cert_table certs ++ tail) = Ok (certs, tail).
Proof.
  induction certs as [|c t IH]; intros H; [reflexivity|]. inversion H as [|? ? Hc Ht]; subst.
  cbn [length parse_certs]. rewrite cert_table_cons, <- !app_assoc.
  set (rest := le32 (nlen c) ++ c ++ cert_table t ++ tail).
  assert (Lr : length rest = (4 + length c + length (cert_table t ++ tail))%nat) by (unfold rest; rewrite !app_length, le32_length; lia).
  replace (nlen rest <? 4) with false by (symmetry; apply N.ltb_ge; unfold nlen; lia).
  assert (F : firstn 4 rest = le32 (nlen c)) by (unfold rest; apply firstn_app_len; now rewrite le32_length).
  rewrite F, (le_dec_le32 _ Hc).
  replace (N.to_nat (N.min (nlen c) (nlen rest))) with (length c) by (unfold nlen; lia).
  assert (F2 : firstn (length c) (skipn 4 rest) = c) by (unfold rest; apply field_after; [now rewrite le32_length|reflexivity]).
  rewrite F2.
  assert (F3 : skipn (4 + length c) rest = cert_table t ++ tail).
  { unfold rest. replace (le32 (nlen c) ++ c ++ cert_table t ++ tail) with ((le32 (nlen c) ++ c) ++ cert_table t ++ tail) by (now rewrite <- app_assoc).
    apply skipn_app_len. now rewrite app_length, le32_length. }
  rewrite F3, (IH Ht). reflexivity.
Qed.

Lemma hdr1_facts : g_cb1_hdr_size = 32 /\ length g_cb1_sig = 4%nat /\ g_rkht_size = 4 /\ g_rkh_size = 32.
Proof. vm_compute. repeat split; reflexivity. Qed.

Lemma cb1_roundtrip_lemma al b :
  0 < al -> wf_cb1 b ->
  exists p,
    cb1_parse (cb1_export al b) = Ok p /\
    c1_certs p = c1_certs b /\ c1_flags p = c1_flags b /\ c1_build p = c1_build b /\
    c1_major p = c1_major b /\ c1_minor p = c1_minor b /\ c1_image_length p = c1_image_length b /\
    c1_rkh p = slots_v1 (c1_rkh b) /\ cb1_rkth p = cb1_rkth b /\ cb1_fuses p = cb1_fuses b /\
    cb1_export al p = cb1_export al b.
Proof.
  intros Hal (Hmj & Hmn & Hfl & Hbn & Hil & Hcs & Hcnt & Htl & Hrl & Hrh).
  destruct hdr1_facts as (Hs & Ls & Hk & Hz).
  unfold cb1_export, pad_to.
  set (certs := c1_certs b) in *. set (T := cert_table certs) in *. set (R := export_v1 (c1_rkh b)).
  assert (LR : length R = 128%nat).
  { unfold R. rewrite export_v1_slots, (concat_len_k 32 _ (slots_v1_len _ Hrh)). unfold slots_v1. now rewrite map_length, seq_length. }
  set (body := cb1_header b ++ T ++ R).
  set (P := zeros (N.to_nat (if nlen body mod al =? 0 then 0 else al - nlen body mod al))).
  set (hd4 := g_cb1_sig ++ le16 (c1_major b) ++ le16 (c1_minor b)).
  assert (L4 : length hd4 = 8%nat) by (unfold hd4; now rewrite !app_length, Ls, !le16_length).
  set (d := body ++ P).
  assert (Ed : d = g_cb1_sig ++ le16 (c1_major b) ++ le16 (c1_minor b) ++ le32 g_cb1_hdr_size ++ le32 (c1_flags b) ++ le32 (c1_build b)
                   ++ le32 (c1_image_length b) ++ le32 (nlen certs) ++ le32 (nlen T) ++ T ++ R ++ P).
  { unfold d, body, cb1_header. fold certs. fold T. now rewrite <- !app_assoc. }
  assert (Ld : length d = (32 + length T + 128 + length P)%nat).
  { rewrite Ed. rewrite !app_length, Ls, !le16_length, !le32_length, LR. lia. }
  unfold cb1_parse. rewrite Hs, Hk, Hz.
  replace (nlen d <? 32) with false by (symmetry; apply N.ltb_ge; unfold nlen; lia).
  assert (F0 : firstn 4 d = g_cb1_sig) by (rewrite Ed; apply firstn_app_len; now rewrite Ls).
  rewrite F0. replace (eqb_list g_cb1_sig g_cb1_sig) with true by (symmetry; now apply eqb_list_spec). cbn [negb].
  (* header fields *)
  assert (FA : forall (pre f rest : list N) o w, d = pre ++ f ++ rest -> o = length pre -> w = length f -> firstn w (skipn o d) = f).
  { intros pre f rest o w E Ho Hw. rewrite E. now apply field_after. }
  assert (G4 : firstn 2 (skipn 4 d) = le16 (c1_major b)) by (apply (FA g_cb1_sig _ _ _ _ Ed); [now rewrite Ls|now rewrite le16_length]).
  assert (G6 : firstn 2 (skipn 6 d) = le16 (c1_minor b)).
  { eapply (FA (g_cb1_sig ++ le16 (c1_major b))); [rewrite Ed, <- !app_assoc; reflexivity|now rewrite app_length, Ls, le16_length|now rewrite le16_length]. }
  assert (G8 : firstn 4 (skipn 8 d) = le32 32).
  { eapply (FA hd4); [rewrite Ed; unfold hd4; rewrite <- !app_assoc; reflexivity|now rewrite L4|now rewrite le32_length]. }
  assert (G12 : firstn 4 (skipn 12 d) = le32 (c1_flags b)).
  { eapply (FA (hd4 ++ le32 32)); [rewrite Ed; unfold hd4; rewrite <- !app_assoc; reflexivity|now rewrite app_length, L4, le32_length|now rewrite le32_length]. }
  assert (G16 : firstn 4 (skipn 16 d) = le32 (c1_build b)).
  { eapply (FA (hd4 ++ le32 32 ++ le32 (c1_flags b))); [rewrite Ed; unfold hd4; rewrite <- !app_assoc; reflexivity
      |now rewrite !app_length, L4, !le32_length|now rewrite le32_length]. }
  assert (G20 : firstn 4 (skipn 20 d) = le32 (c1_image_length b)).
  { eapply (FA (hd4 ++ le32 32 ++ le32 (c1_flags b) ++ le32 (c1_build b))); [rewrite Ed; unfold hd4; rewrite <- !app_assoc; reflexivity
      |now rewrite !app_length, L4, !le32_length|now rewrite le32_length]. }
  assert (G24 : firstn 4 (skipn 24 d) = le32 (nlen certs)).
  { eapply (FA (hd4 ++ le32 32 ++ le32 (c1_flags b) ++ le32 (c1_build b) ++ le32 (c1_image_length b)));
      [rewrite Ed; unfold hd4; rewrite <- !app_assoc; reflexivity|now rewrite !app_length, L4, !le32_length|now rewrite le32_length]. }
  assert (G28 : firstn 4 (skipn 28 d) = le32 (nlen T)).
  { eapply (FA (hd4 ++ le32 32 ++ le32 (c1_flags b) ++ le32 (c1_build b) ++ le32 (c1_image_length b) ++ le32 (nlen certs)));
      [rewrite Ed; unfold hd4; rewrite <- !app_assoc; reflexivity|now rewrite !app_length, L4, !le32_length|now rewrite le32_length]. }
  assert (G32 : skipn (N.to_nat 32) d = T ++ R ++ P).
  { change (N.to_nat 32) with 32%nat. rewrite Ed.
    replace (g_cb1_sig ++ le16 (c1_major b) ++ le16 (c1_minor b) ++ le32 g_cb1_hdr_size ++ le32 (c1_flags b) ++ le32 (c1_build b)
             ++ le32 (c1_image_length b) ++ le32 (nlen certs) ++ le32 (nlen T) ++ T ++ R ++ P)
      with ((g_cb1_sig ++ le16 (c1_major b) ++ le16 (c1_minor b) ++ le32 g_cb1_hdr_size ++ le32 (c1_flags b) ++ le32 (c1_build b)
             ++ le32 (c1_image_length b) ++ le32 (nlen certs) ++ le32 (nlen T)) ++ T ++ R ++ P) by (now rewrite <- !app_assoc).
    apply skipn_app_len. now rewrite !app_length, Ls, !le16_length, !le32_length. }
  rewrite G8, G24, G28, G32, G4, G6, G12, G16, G20.
  rewrite (le_dec_le32 32) by (vm_compute; reflexivity). cbn [N.eqb Pos.eqb negb].
  rewrite (le_dec_le32 _ Hcnt), (le_dec_le32 _ Htl), (le_dec_le32 _ Hfl), (le_dec_le32 _ Hbn), (le_dec_le32 _ Hil), (le_dec_le16 _ Hmj), (le_dec_le16 _ Hmn).
  replace (nlen d <? nlen T + 4 * 32) with false by (symmetry; apply N.ltb_ge; unfold nlen; lia).
  pose proof (cert_table_len certs) as LT. fold T in LT.
  replace (N.to_nat (N.min (nlen certs) (nlen d))) with (length certs) by (unfold nlen; lia).
  pose proof (parse_certs_ok certs (R ++ P) Hcs) as PC. fold T in PC. rewrite PC.
  change (N.to_nat (4 * 32)) with 128%nat. change (N.to_nat 4) with 4%nat.
  rewrite (firstn_app_len R P 128) by (now rewrite LR). rewrite LR. change (128 / 4)%nat with 32%nat.
  assert (SP : split_n 4 32 R = slots_v1 (c1_rkh b)).
  { unfold R. rewrite export_v1_slots. replace 4%nat with (length (slots_v1 (c1_rkh b))) by (unfold slots_v1; now rewrite map_length, seq_length).
    apply split_n_concat. apply slots_v1_len, Hrh. }
  rewrite SP.
  assert (FB : forallb (fun h => nlen h =? 32) (slots_v1 (c1_rkh b)) = true).
  { apply forallb_forall. intros h Hh. unfold nlen. rewrite (slots_v1_len _ Hrh h Hh). reflexivity. }
  rewrite FB. cbn [negb].
  eexists. split; [reflexivity|]. cbn [c1_certs c1_flags c1_build c1_major c1_minor c1_image_length c1_rkh].
  assert (EX : export_v1 (slots_v1 (c1_rkh b)) = export_v1 (c1_rkh b)) by (rewrite !export_v1_slots; now rewrite (slots_v1_idem _ Hrh)).
  split; [reflexivity|]. split; [reflexivity|]. split; [reflexivity|]. split; [reflexivity|]. split; [reflexivity|].
  split; [reflexivity|]. split; [reflexivity|]. split; [|split].
  - unfold cb1_rkth. cbn [c1_rkh]. unfold rkth_v1. now rewrite EX.
  - unfold cb1_fuses, cb1_rkth. cbn [c1_rkh]. unfold rkth_v1. now rewrite EX.
  - unfold d, P, body, T, cb1_header. cbn [c1_certs c1_flags c1_build c1_major c1_minor c1_image_length c1_rkh].
    fold certs. unfold R. rewrite EX. reflexivity.
Qed.

Example wf_cb1_nontrivial :
  wf_cb1 {| c1_major := 1; c1_minor := 0; c1_flags := 5; c1_build := 7; c1_image_length := 12608; c1_certs := [[48; 0; 0; 0]]; c1_rkh := [zeros 32] |}.
Proof.
  unfold wf_cb1. cbn [c1_major c1_minor c1_flags c1_build c1_image_length c1_certs c1_rkh].
  split; [vm_compute; reflexivity|]. split; [vm_compute; reflexivity|]. split; [vm_compute; reflexivity|].
  split; [vm_compute; reflexivity|]. split; [vm_compute; reflexivity|]. split; [constructor; [vm_compute; reflexivity|constructor]|].
  split; [vm_compute; reflexivity|]. split; [vm_compute; reflexivity|]. split; [cbn [length]; lia|]. intros h [<-|[]]. reflexivity.
Qed.
