(* Proofs/MbootSpecProofs.v -- C10 extension: FAULTFREE_REFINES_SPEC for the other operation families and for both
   transports.  The transport-free SPECIFICATION of a call is "apply the reference bootloader core (dev_command /
   dev_data_out) to the command packet and the data, read status / values off its answer"; the theorems say that the host
   over the framed link computes exactly that, for whole call sequences.
   The proofs are done once, over an abstract "lock-step transport" (three facts T1-T3), and instantiated for the serial
   link (from Proofs/MbootProofs.v) and for USB-HID (proved here). *)
From Coq Require Import ZArith NArith List Bool Lia ZifyBool.
Require Import Value Bytes BytesProofs GenMboot MbootModel MbootProofs.
Import ListNotations.
Local Open Scope N_scope.

(* a data chunk the transport can carry: non-empty, at most maxc bytes *)
Definition cok (maxc : N) (ch : list N) : Prop := ch <> [] /\ nlen ch <= maxc.
Lemma cok_chunks maxc m (data : list N) : 0 < m -> m <= maxc -> Forall (cok maxc) (chunksN m data).
Proof.
  intros H0 H1. destruct (chunksN_spec m data H0) as [_ F]. eapply Forall_impl; [|exact F].
  intros ch [Hne Hl]. split; [exact Hne|lia].
Qed.

(* what the device still has to deliver after a command *)
Inductive litem : Type := LData (ch : list N) | LFin (fin tag : N).
Definition din_items (c1 : dcore) (din : option (list N * (N * N))) : list litem :=
  match din with
  | Some (data, (tag, fin)) => map LData (chunksN (dc_mps c1) data) ++ [LFin fin tag]
  | None => []
  end.
Definition cmd_din (c : dcore) (b : list N) : option (list N * (N * N)) := snd (dev_command c b).
Definition cmd_zfin (c : dcore) (b : list N) : option (list N) := snd (dev_zero_phase (fst (fst (dev_command c b)))).

(* ------------------------------------------------------------------ operation families and their transport-free specification *)
Inductive fop : Type :=
| FSimple (p : cmdpkt)                     (* command answered by one response, no data phase: fill, erase, set-property, program-once, key-provisioning control ... *)
| FGetProp (tag idx : N)                   (* get_property *)
| FReadOnce (idx count : N)                (* flash_read_once *)
| FOut (p : cmdpkt) (data : list N)        (* command + outgoing data: write_memory, receive_sb_file, kp_set_user_key, kp_write_key_store *)
| FIn (p : cmdpkt) (cls : N).              (* command + incoming data: read_memory, kp_read_key_store, flash_read_resource *)
Definition fop_pkt (f : fop) : cmdpkt :=
  match f with
  | FSimple p => p | FGetProp t i => pkt_get_property t i | FReadOnce i c => pkt_flash_read_once i c | FOut p _ => p | FIn p _ => p
  end.

(* SPEC: the reference bootloader core applied to the command packet (and the data); status / values / data are read off the
   core's answer -- no frames, no reports, no chunks, no ACKs *)
Definition spec_fop (ce : bool) (c : dcore) (f : fop) : (result apival * N) * dcore :=
  match pkt_bytes (fop_pkt f) with
  | RExn x => ((RExn x, 0), c)
  | ROk b =>
      let c1 := cmd_core c b in
      match parse_cmd_response (cmd_first c b) with
      | RExn x => ((RExn x, 0), c1)
      | ROk rs =>
          let st := r_status rs in
          let out (v : apival) : result apival := if ce && negb (st =? SC_SUCCESS) then RExn (XCmd st) else ROk v in
          match f with
          | FSimple _ => ((out (AVBool (st =? SC_SUCCESS)), st), c1)
          | FGetProp _ _ => ((out (if st =? SC_SUCCESS then AVInts (r_values rs) else AVNone), st), c1)
          | FReadOnce _ _ => ((out (if st =? SC_SUCCESS then AVBytes (r_data rs) else AVNone), st), c1)
          | FOut _ data =>
              match dc_phase c1 with
              | Some ph => ((ROk (AVBool true), SC_SUCCESS), phase_done c1 (ph_add ph data))
              | None => ((out (AVBool false), st), c1)
              end
          | FIn _ _ =>
              match cmd_din c b with
              | Some (data, _) => ((ROk (AVBytes data), SC_SUCCESS), c1)
              | None => ((out AVNone, st), c1)
              end
          end
      end
  end.
Fixpoint spec_fops (ce : bool) (c : dcore) (fs : list fop) : list (result apival * N) * dcore :=
  match fs with
  | [] => ([], c)
  | f :: t => let '(r, c1) := spec_fop ce c f in let '(rs, c2) := spec_fops ce c1 t in (r :: rs, c2)
  end.

(* side conditions under which the lock step is proved (each family lemma below shows they hold for its commands) *)
Definition fop_ok (maxc : N) (fuel : nat) (c : dcore) (f : fop) : Prop :=
  exists b rs,
    (pkt_bytes (fop_pkt f) = ROk b /\ b <> [] /\ nlen b <= maxc) /\
    (cmd_first c b <> [] /\ nlen (cmd_first c b) <= maxc /\ parse_cmd_response (cmd_first c b) = ROk rs /\ cmd_zfin c b = None) /\
    dc_mps (cmd_core c b) = dc_mps c /\
    match f with
    | FSimple _ => cmd_din c b = None
    | FGetProp _ _ => cmd_din c b = None /\ r_cls rs = 2
    | FReadOnce _ count => cmd_din c b = None /\ r_cls rs = 4 /\ (count = 4 \/ count = 8)
    | FOut p data =>
        cmd_din c b = None /\ rs = generic_resp S_OK (pkt_tag p) /\ data <> [] /\ pkt_tag p <> CT_NO_COMMAND /\
        exists ph, dc_phase (cmd_core c b) = Some ph /\ ph_expected ph = nlen data /\ ph_buf ph = [] /\ ph_fin ph = S_OK /\ ph_tag ph < U32 /\
                   dc_mps (phase_done (cmd_core c b) (ph_add ph data)) = dc_mps c
    | FIn p cls =>
        exists rt data, rs = mkResp cls rt S_OK (nlen data) [] [] /\ cmd_din c b = Some (data, (pkt_tag p, S_OK)) /\ pkt_tag p < U32 /\
                        (length (chunksN (dc_mps c) data) < fuel)%nat
    end.
Fixpoint fops_ok (maxc : N) (ce : bool) (fuel : nat) (c : dcore) (fs : list fop) : Prop :=
  match fs with [] => True | f :: t => fop_ok maxc fuel c f /\ fops_ok maxc ce fuel (snd (spec_fop ce c f)) t end.

(* ------------------------------------------------------------------ API calls over an abstract lock-step transport *)
Section Generic.
  Variable LE : Type.
  Variable LI : iface LE.
  Variable ce : bool.
  (* live c items e: the device core is c, it is waiting for the host, `items` are still to be delivered, nothing else *)
  Variable live : dcore -> list litem -> LE -> Prop.
  Variable maxc : N.                  (* largest payload the transport carries in one frame / report *)
  Hypothesis maxc_lt : maxc < 65536.

  Hypothesis T1 : forall c b p rs st mps e,
    live c [] e -> pkt_bytes p = ROk b -> b <> [] -> nlen b <= maxc -> cmd_first c b <> [] -> nlen (cmd_first c b) <= maxc ->
    parse_cmd_response (cmd_first c b) = ROk rs -> cmd_zfin c b = None ->
    exists e', process_cmd LE LI ce p (mkMbs LE st mps e) = finish_cmd LE ce rs (mkMbs LE st mps e') /\
               live (cmd_core c b) (din_items (cmd_core c b) (cmd_din c b)) e'.
  Hypothesis T2 : forall fin tag chunks acc fuel c st mps e,
    fin < U32 -> tag < U32 -> Forall (cok maxc) chunks -> (length chunks < fuel)%nat ->
    live c (map LData chunks ++ [LFin fin tag]) e ->
    exists e', read_data_loop LE LI tag fuel acc (mkMbs LE st mps e) =
               (ROk (concat (rev acc) ++ concat chunks, generic_resp fin tag), mkMbs LE fin mps e') /\ live c [] e'.
  Hypothesis T3 : forall tag chunks c ph st mps e,
    tag <> CT_NO_COMMAND -> Forall (cok maxc) chunks -> chunks <> [] -> dc_phase c = Some ph ->
    ph_expected ph = nlen (ph_buf ph) + nlen (concat chunks) -> ph_fin ph = S_OK -> ph_tag ph < U32 -> live c [] e ->
    exists e', send_data LE LI ce false tag chunks (mkMbs LE st mps e) = (ROk true, mkMbs LE SC_SUCCESS mps e') /\
               live (phase_done c (ph_add ph (concat chunks))) [] e'.

  Definition pkt_ok (p : cmdpkt) (b : list N) : Prop := pkt_bytes p = ROk b /\ b <> [] /\ nlen b <= maxc.
  Definition first_ok (c : dcore) (b : list N) (rs : resp) : Prop :=
    cmd_first c b <> [] /\ nlen (cmd_first c b) <= maxc /\ parse_cmd_response (cmd_first c b) = ROk rs /\ cmd_zfin c b = None.

  (* outcome of _process_cmd as seen by the caller *)
  Definition cmd_outcome {A} (rs : resp) (k : A) : result A :=
    if ce && negb (r_status rs =? SC_SUCCESS) then RExn (XCmd (r_status rs)) else ROk k.

  (* any command without data phase *)
  Lemma simple_gen c p b rs st mps e :
    live c [] e -> pkt_ok p b -> first_ok c b rs -> cmd_din c b = None ->
    exists e', simple LE LI ce p (mkMbs LE st mps e) =
               (cmd_outcome rs (AVBool (r_status rs =? SC_SUCCESS)), mkMbs LE (r_status rs) mps e') /\ live (cmd_core c b) [] e'.
  Proof.
    intros Hl (Hb & Hne & Hlen) (Hf & Hfl & Hp & Hz) Hd.
    destruct (T1 c b p rs st mps e Hl Hb Hne Hlen Hf Hfl Hp Hz) as (e' & P & L). rewrite Hd in L. cbn [din_items] in L.
    exists e'. split; [|exact L]. unfold simple, mbind. rewrite P. unfold finish_cmd, cmd_outcome. cbn [set_status mb_status mb_mps mb_env].
    destruct (ce && negb (r_status rs =? SC_SUCCESS)); reflexivity.
  Qed.

  (* get_property *)
  Lemma get_property_gen c tag idx b rs st mps e :
    live c [] e -> pkt_ok (pkt_get_property tag idx) b -> first_ok c b rs -> cmd_din c b = None -> r_cls rs = 2 ->
    exists e', get_property LE LI ce tag idx (mkMbs LE st mps e) =
               (cmd_outcome rs (if r_status rs =? SC_SUCCESS then Some (r_values rs) else None), mkMbs LE (r_status rs) mps e') /\
               live (cmd_core c b) [] e'.
  Proof.
    intros Hl (Hb & Hne & Hlen) (Hf & Hfl & Hp & Hz) Hd Hc.
    destruct (T1 c b _ rs st mps e Hl Hb Hne Hlen Hf Hfl Hp Hz) as (e' & P & L). rewrite Hd in L. cbn [din_items] in L.
    exists e'. split; [|exact L]. unfold get_property, mbind. rewrite P. unfold finish_cmd, cmd_outcome. cbn [set_status mb_status mb_mps mb_env].
    destruct (ce && negb (r_status rs =? SC_SUCCESS)); [reflexivity|].
    destruct (r_status rs =? SC_SUCCESS); [rewrite Hc; reflexivity|reflexivity].
  Qed.

  (* flash_read_once *)
  Lemma flash_read_once_gen c idx count b rs st mps e :
    live c [] e -> count = 4 \/ count = 8 -> pkt_ok (pkt_flash_read_once idx count) b -> first_ok c b rs -> cmd_din c b = None -> r_cls rs = 4 ->
    exists e', flash_read_once LE LI ce idx count (mkMbs LE st mps e) =
               (cmd_outcome rs (if r_status rs =? SC_SUCCESS then AVBytes (r_data rs) else AVNone), mkMbs LE (r_status rs) mps e') /\
               live (cmd_core c b) [] e'.
  Proof.
    intros Hl Hcnt (Hb & Hne & Hlen) (Hf & Hfl & Hp & Hz) Hd Hc.
    destruct (T1 c b _ rs st mps e Hl Hb Hne Hlen Hf Hfl Hp Hz) as (e' & P & L). rewrite Hd in L. cbn [din_items] in L.
    exists e'. split; [|exact L]. unfold flash_read_once.
    replace (negb ((count =? 4) || (count =? 8))) with false by (destruct Hcnt; subst; reflexivity).
    unfold mbind. rewrite P. unfold finish_cmd, cmd_outcome, is_success. cbn [set_status mb_status mb_mps mb_env].
    destruct (ce && negb (r_status rs =? SC_SUCCESS)); [reflexivity|].
    destruct (r_status rs =? SC_SUCCESS); [rewrite Hc; reflexivity|reflexivity].
  Qed.

  (* command + outgoing data phase (write_memory, receive_sb_file, kp_set_user_key, kp_write_key_store): the device core
     accepted the command (generic SUCCESS) and opened a phase expecting exactly the data *)
  Lemma data_out_gen c p b data ph st e :
    live c [] e -> pkt_ok p b -> first_ok c b (generic_resp S_OK (pkt_tag p)) -> cmd_din c b = None ->
    0 < dc_mps c -> dc_mps c <= maxc -> data <> [] -> pkt_tag p <> CT_NO_COMMAND ->
    dc_phase (cmd_core c b) = Some ph -> ph_expected ph = nlen data -> ph_buf ph = [] -> ph_fin ph = S_OK -> ph_tag ph < U32 ->
    exists e', cmd_data_out LE LI ce false p data (mkMbs LE st (Some (dc_mps c)) e) =
               (ROk (AVBool true), mkMbs LE SC_SUCCESS (Some (dc_mps c)) e') /\
               live (phase_done (cmd_core c b) (ph_add ph data)) [] e'.
  Proof.
    intros Hl Hpk Hfo Hd Hm0 Hm1 Hne Htag Hph Hex Hbuf Hfin Hpt.
    destruct Hpk as (Hb & Hbn & Hlen). destruct Hfo as (Hf & Hfl & Hp & Hz).
    destruct (T1 c b p _ st (Some (dc_mps c)) e Hl Hb Hbn Hlen Hf Hfl Hp Hz) as (e1 & P & L). rewrite Hd in L. cbn [din_items] in L.
    destruct (chunksN_spec (dc_mps c) data Hm0) as [Hc Hfa].
    destruct (T3 (pkt_tag p) (chunksN (dc_mps c) data) (cmd_core c b) ph S_OK (Some (dc_mps c)) e1) as (e2 & S & L2); try assumption.
    - apply cok_chunks; assumption.
    - intros Hn. rewrite Hn in Hc. simpl in Hc. now subst data.
    - rewrite Hc, Hbuf, Hex. reflexivity.
    - exists e2. rewrite Hc in L2. split; [|exact L2].
      unfold cmd_data_out. unfold mbind at 1. unfold split_data. change NEED_DATA_SPLIT with true. cbv iota.
      unfold mbind at 1. unfold get_max_packet_size. cbn [mb_mps].
      destruct (dc_mps c =? 0) eqn:E0; [apply N.eqb_eq in E0; lia|]. unfold mret. unfold mbind at 1. rewrite P.
      unfold finish_cmd, generic_resp. cbn [r_status set_status mb_status mb_mps mb_env].
      change (negb (S_OK =? SC_SUCCESS)) with false. rewrite andb_false_r. unfold is_success. cbn [r_status].
      change (S_OK =? SC_SUCCESS) with true. cbv iota. unfold set_status. cbn [mb_status mb_mps mb_env]. unfold mbind at 1. rewrite S. reflexivity.
  Qed.

  (* command + typed response announcing l bytes + incoming data phase (read_memory, kp_read_key_store, ...) *)
  Lemma data_in_gen fuel c p b cls rt data st mps e :
    live c [] e -> pkt_ok p b -> first_ok c b (mkResp cls rt S_OK (nlen data) [] []) ->
    cmd_din c b = Some (data, (pkt_tag p, S_OK)) -> pkt_tag p < U32 ->
    0 < dc_mps (cmd_core c b) -> dc_mps (cmd_core c b) <= maxc ->
    (length (chunksN (dc_mps (cmd_core c b)) data) < fuel)%nat ->
    exists e', cmd_data_in LE LI ce fuel p cls (mkMbs LE st mps e) = (ROk (AVBytes data), mkMbs LE SC_SUCCESS mps e') /\
               live (cmd_core c b) [] e'.
  Proof.
    intros Hl (Hb & Hbn & Hlen) (Hf & Hfl & Hp & Hz) Hd Hpt Hm0 Hm1 Hfu.
    destruct (T1 c b p _ st mps e Hl Hb Hbn Hlen Hf Hfl Hp Hz) as (e1 & P & L). rewrite Hd in L. cbn [din_items] in L.
    destruct (chunksN_spec (dc_mps (cmd_core c b)) data Hm0) as [Hc _].
    destruct (T2 S_OK (pkt_tag p) (chunksN (dc_mps (cmd_core c b)) data) [] fuel (cmd_core c b) S_OK mps e1) as (e2 & R & L2);
      try assumption; try reflexivity; [apply cok_chunks; assumption|].
    exists e2. split; [|exact L2]. unfold cmd_data_in. unfold mbind at 1. rewrite P.
    unfold finish_cmd. cbn [r_status set_status mb_status mb_mps mb_env].
    change (negb (S_OK =? SC_SUCCESS)) with false. rewrite andb_false_r. unfold is_success. cbn [r_status r_cls r_second].
    change (S_OK =? SC_SUCCESS) with true. cbv iota. rewrite N.eqb_refl.
    unfold set_status. cbn [mb_status mb_mps mb_env]. unfold mbind at 1. unfold read_data. unfold mbind at 1. rewrite R. cbn [concat rev app]. rewrite Hc.
    unfold mbind at 1. unfold get_status. cbn [mb_status fst snd]. rewrite N.ltb_irrefl. change (negb (S_OK =? SC_SUCCESS)) with false.
    cbn [orb]. unfold mret. replace (firstnN (nlen data) data) with data; [reflexivity|].
    pose proof (firstnN_app_exact data []) as F. rewrite app_nil_r in F. now rewrite F.
  Qed.

  (* ---- whole sequences *)
  Definition run_fop (fuel : nat) (f : fop) : M (mbs LE) apival :=
    match f with
    | FSimple p => simple LE LI ce p
    | FGetProp t i => v <- get_property LE LI ce t i ;; mret (match v with Some l => AVInts l | None => AVNone end)
    | FReadOnce i c => flash_read_once LE LI ce i c
    | FOut p d => cmd_data_out LE LI ce false p d
    | FIn p cls => cmd_data_in LE LI ce fuel p cls
    end.
  Fixpoint fsession (fuel : nat) (fs : list fop) (s : mbs LE) : list (result apival * N) * mbs LE :=
    match fs with
    | [] => ([], s)
    | f :: t => let '(r, s1) := run_fop fuel f s in let '(rs, s2) := fsession fuel t s1 in ((r, mb_status LE s1) :: rs, s2)
    end.

  Lemma run_fop_spec fuel c f st e : 0 < dc_mps c -> dc_mps c <= maxc -> live c [] e -> fop_ok maxc fuel c f ->
    exists e' st', run_fop fuel f (mkMbs LE st (Some (dc_mps c)) e) =
                   (fst (fst (spec_fop ce c f)), mkMbs LE st' (Some (dc_mps c)) e') /\
                   st' = snd (fst (spec_fop ce c f)) /\ live (snd (spec_fop ce c f)) [] e' /\
                   dc_mps (snd (spec_fop ce c f)) = dc_mps c.
  Proof.
    intros Hm0 Hm1 Hl (b & rs & Hpk & Hfo & Hmps & Hf). unfold spec_fop.
    destruct Hpk as (Hb & Hbn & Hbl). destruct Hfo as (Hf1 & Hf2 & Hp & Hz). rewrite Hb, Hp.
    destruct f as [p|t i|i cnt|p data|p cls]; cbn [fop_pkt] in *.
    - destruct (simple_gen c p b rs st (Some (dc_mps c)) e Hl (conj Hb (conj Hbn Hbl)) (conj Hf1 (conj Hf2 (conj Hp Hz))) Hf) as (e' & R & L).
      exists e', (r_status rs). cbn [run_fop fst snd]. rewrite R. unfold cmd_outcome. auto.
    - destruct Hf as (Hd & Hc).
      destruct (get_property_gen c t i b rs st (Some (dc_mps c)) e Hl (conj Hb (conj Hbn Hbl)) (conj Hf1 (conj Hf2 (conj Hp Hz))) Hd Hc) as (e' & R & L).
      exists e', (r_status rs). cbn [run_fop fst snd]. unfold mbind. rewrite R. unfold cmd_outcome.
      split; [|auto]. destruct (ce && negb (r_status rs =? SC_SUCCESS)); [reflexivity|]. destruct (r_status rs =? SC_SUCCESS); reflexivity.
    - destruct Hf as (Hd & Hc & Hcnt).
      destruct (flash_read_once_gen c i cnt b rs st (Some (dc_mps c)) e Hl Hcnt (conj Hb (conj Hbn Hbl)) (conj Hf1 (conj Hf2 (conj Hp Hz))) Hd Hc) as (e' & R & L).
      exists e', (r_status rs). cbn [run_fop fst snd]. rewrite R. unfold cmd_outcome. auto.
    - destruct Hf as (Hd & Hrs & Hne & Htag & ph & Hph & Hex & Hbuf & Hfin & Hpt & Hm2). subst rs.
      destruct (data_out_gen c p b data ph st e Hl (conj Hb (conj Hbn Hbl)) (conj Hf1 (conj Hf2 (conj Hp Hz))) Hd Hm0 Hm1 Hne Htag Hph Hex Hbuf Hfin Hpt)
        as (e' & R & L).
      exists e', SC_SUCCESS. cbn [run_fop]. rewrite R, Hph. cbn [fst snd]. auto.
    - destruct Hf as (rt & data & Hrs & Hd & Hpt & Hfu). subst rs.
      destruct (data_in_gen fuel c p b cls rt data st (Some (dc_mps c)) e Hl (conj Hb (conj Hbn Hbl)) (conj Hf1 (conj Hf2 (conj Hp Hz))) Hd Hpt)
        as (e' & R & L); try (rewrite Hmps; assumption).
      exists e', SC_SUCCESS. cbn [run_fop]. rewrite R, Hd. cbn [fst snd]. auto.
  Qed.

  (* FAULTFREE_REFINES_SPEC, all families: the session over the link equals the transport-free specification *)
  Lemma fsession_spec fuel : forall fs c st e, 0 < dc_mps c -> dc_mps c <= maxc -> live c [] e -> fops_ok maxc ce fuel c fs ->
    exists e' st', fsession fuel fs (mkMbs LE st (Some (dc_mps c)) e) =
                   (fst (spec_fops ce c fs), mkMbs LE st' (Some (dc_mps c)) e') /\ live (snd (spec_fops ce c fs)) [] e'.
  Proof.
    induction fs as [|f t IH]; intros c st e Hm0 Hm1 Hl Hok.
    - exists e, st. split; [reflexivity|exact Hl].
    - destruct Hok as [Hf Ht]. destruct (run_fop_spec fuel c f st e Hm0 Hm1 Hl Hf) as (e1 & st1 & R & Hst & L1 & Hm).
      cbn [fsession spec_fops]. rewrite R. destruct (spec_fop ce c f) as [[r stt] c1] eqn:SP. cbn [fst snd] in *. subst st1.
      rewrite <- Hm in *. destruct (IH c1 stt e1) as (e2 & st2 & R2 & L2); try assumption.
      rewrite R2. destruct (spec_fops ce c1 t) as [rs c2]. cbn [fst snd mb_status] in *. exists e2, st2. split; [reflexivity|exact L2].
  Qed.
End Generic.

(* ------------------------------------------------------------------ the serial link is a lock-step transport *)
Definition frame_of (it : litem) : list N :=
  match it with LData ch => mk_frame FP_DATA ch | LFin fin tag => mk_frame FP_CMD (generic fin tag) end.
Definition live_serial (c : dcore) (items : list litem) (e : senv sdev) : Prop :=
  exists out cons, e = live_env c (tl (map frame_of items)) (hd [] (map frame_of items)) out cons.

Lemma frames_in_frames chunks fin tag : map frame_of (map LData chunks ++ [LFin fin tag]) = in_frames chunks fin tag.
Proof. unfold in_frames. rewrite map_app, map_map. reflexivity. Qed.

Lemma serial_T1 ce : forall c b p rs st mps e,
  live_serial c [] e -> pkt_bytes p = ROk b -> b <> [] -> nlen b <= 65535 -> cmd_first c b <> [] -> nlen (cmd_first c b) <= 65535 ->
  parse_cmd_response (cmd_first c b) = ROk rs -> cmd_zfin c b = None ->
  exists e', process_cmd _ (serial_iface sdev sdev_recv) ce p (mkMbs _ st mps e) = finish_cmd _ ce rs (mkMbs _ st mps e') /\
             live_serial (cmd_core c b) (din_items (cmd_core c b) (cmd_din c b)) e'.
Proof.
  intros c b p rs st mps e (out & cons & ->) Hb Hne Hl Hf Hfl Hp Hz. cbn [map hd tl].
  destruct (process_cmd_live ce p b rs c st mps out cons Hb Hne ltac:(lia) Hf ltac:(lia) Hp) as (o1 & c1 & P).
  eexists. split; [exact P|]. exists o1, c1.
  assert (Q : cmd_queue c b = map frame_of (din_items (cmd_core c b) (cmd_din c b))).
  { unfold cmd_queue, dev_queue. unfold cmd_zfin in Hz. rewrite Hz. unfold cmd_din, din_items. cbn [app].
    destruct (snd (dev_command c b)) as [[data [tag fin]]|]; [|reflexivity]. rewrite map_app, map_map. reflexivity. }
  rewrite Q. reflexivity.
Qed.

Lemma serial_T2 : forall fin tag chunks acc fuel c st mps e,
  fin < U32 -> tag < U32 -> Forall (cok 65535) chunks -> (length chunks < fuel)%nat ->
  live_serial c (map LData chunks ++ [LFin fin tag]) e ->
  exists e', read_data_loop _ (serial_iface sdev sdev_recv) tag fuel acc (mkMbs _ st mps e) =
             (ROk (concat (rev acc) ++ concat chunks, generic_resp fin tag), mkMbs _ fin mps e') /\ live_serial c [] e'.
Proof.
  intros fin tag chunks acc fuel c st mps e Hf Ht Hc0 Hfu (out & cons & ->). rewrite frames_in_frames.
  assert (Hc : Forall chunk_ok chunks) by (eapply Forall_impl; [|exact Hc0]; intros ch [? ?]; split; [assumption|lia]).
  destruct (read_loop_live fin tag Hf Ht chunks acc fuel c out cons st mps Hc Hfu) as (o1 & c1 & R).
  unfold live_env. eexists. split; [exact R|]. exists o1, c1. reflexivity.
Qed.

Lemma serial_T3 ce : forall tag chunks c ph st mps e,
  tag <> CT_NO_COMMAND -> Forall (cok 65535) chunks -> chunks <> [] -> dc_phase c = Some ph ->
  ph_expected ph = nlen (ph_buf ph) + nlen (concat chunks) -> ph_fin ph = S_OK -> ph_tag ph < U32 -> live_serial c [] e ->
  exists e', send_data _ (serial_iface sdev sdev_recv) ce false tag chunks (mkMbs _ st mps e) = (ROk true, mkMbs _ SC_SUCCESS mps e') /\
             live_serial (phase_done c (ph_add ph (concat chunks))) [] e'.
Proof.
  intros tag chunks c ph st mps e Ht Hc0 Hne Hph Hex Hfin Hpt (out & cons & ->). cbn [map hd tl].
  assert (Hc : Forall chunk_ok chunks) by (eapply Forall_impl; [|exact Hc0]; intros ch [? ?]; split; [assumption|lia]).
  destruct (send_data_live ce tag chunks c ph st mps out cons Ht Hc Hne Hph Hex Hfin Hpt) as (o1 & c1 & S).
  eexists. split; [exact S|]. exists o1, c1. reflexivity.
Qed.

(* FAULTFREE_REFINES_SPEC (all families) on the serial link *)
Lemma faultfree_families_serial ce fuel fs c st out cons :
  0 < dc_mps c -> dc_mps c <= 65535 -> fops_ok 65535 ce fuel c fs ->
  exists out' cons' st',
    fsession _ (serial_iface sdev sdev_recv) ce fuel fs (mkMbs _ st (Some (dc_mps c)) (live_env c [] [] out cons)) =
    (fst (spec_fops ce c fs), mkMbs _ st' (Some (dc_mps c)) (live_env (snd (spec_fops ce c fs)) [] [] out' cons')).
Proof.
  intros Hm0 Hm1 Hok.
  destruct (fsession_spec _ (serial_iface sdev sdev_recv) ce live_serial 65535 eq_refl (serial_T1 ce) serial_T2 (serial_T3 ce) fuel fs c st
              (live_env c [] [] out cons) Hm0 Hm1) as (e' & st' & R & (o1 & c1 & ->)); [exists out, cons; reflexivity|exact Hok|].
  exists o1, c1, st'. exact R.
Qed.

(* ------------------------------------------------------------------ USB-HID is a lock-step transport *)
Definition HID_MAXC : N := 1020.        (* a report read with device.read(1024) carries at most 1020 payload bytes *)
Definition report_of (it : litem) : list N :=
  match it with LData ch => mk_report RID_DATA_IN ch | LFin fin tag => mk_report RID_CMD_IN (generic fin tag) end.
Definition live_hid (c : dcore) (items : list litem) (e : henv dcore) : Prop :=
  exists out cons, e = mkHenv dcore c (map report_of items) out cons.

Lemma mk_report_nlen rid p : nlen (mk_report rid p) = 4 + nlen p.
Proof. unfold mk_report. rewrite !nlen_cons, nlen_app, le16_nlen. lia. Qed.
Lemma firstnN_ge {A} (l : list A) n : nlen l <= n -> firstnN n l = l.
Proof. intros H. rewrite firstnN_firstn. apply firstn_all2. unfold nlen in H. lia. Qed.

(* report_roundtrip, device side: the reference bootloader decodes what the host encoded *)
Lemma hdev_decode rid p : nlen p < 65536 ->
  (nlen (mk_report rid p) <? 4) = false /\ nth 0 (mk_report rid p) 0 = rid /\
  firstnN (le_dec (firstn 2 (skipn 2 (mk_report rid p)))) (skipn 4 (mk_report rid p)) = p.
Proof.
  intros Hl. split; [apply N.ltb_ge; rewrite mk_report_nlen; lia|]. split; [reflexivity|].
  unfold mk_report.
  assert (S4 : forall (a b : N) l, skipn 4 (a :: b :: l) = skipn 2 l) by reflexivity.
  assert (S2 : forall (a b : N) l, skipn 2 (a :: b :: l) = l) by reflexivity.
  rewrite S4, S2. rewrite (firstn_app_len (le16 (nlen p))) by apply le16_length.
  rewrite le_dec_le16 by exact Hl.
  rewrite (skipn_app_len (le16 (nlen p))) by apply le16_length. apply firstnN_ge. lia.
Qed.

Lemma hread_report r rest c out cons : r <> [] -> nlen r <= 1024 ->
  hread dcore (mkHenv dcore c (r :: rest) out cons) = (ROk r, mkHenv dcore c rest out (r :: cons)).
Proof.
  intros Hne Hl. unfold hread. cbn [he_in he_dev he_out he_cons]. rewrite firstnN_ge by exact Hl. destruct r; [contradiction|reflexivity].
Qed.

Lemma h_read_report rid p rest c out cons : p <> [] -> nlen p <= HID_MAXC ->
  h_read dcore (mkHenv dcore c (mk_report rid p :: rest) out cons) =
  (if rid =? RID_CMD_IN then parse_rx p else mret (RxData p)) (mkHenv dcore c rest out (mk_report rid p :: cons)).
Proof.
  intros Hne Hl. unfold HID_MAXC in Hl. unfold h_read, mbind. rewrite hread_report; [|discriminate|rewrite mk_report_nlen; lia].
  rewrite report_roundtrip_lemma by (first [exact Hne|lia]). destruct (rid =? RID_CMD_IN); reflexivity.
Qed.

Definition hid_queue (c2 : dcore) (zfin : option (list N)) (din : option (list N * (N * N))) : list (list N) :=
  (match zfin with Some r => [mk_report RID_CMD_IN r] | None => [] end) ++
  (match din with
   | Some (data, (tag, fin)) => map (mk_report RID_DATA_IN) (chunksN (dc_mps c2) data) ++ [mk_report RID_CMD_IN (generic fin tag)]
   | None => []
   end).
Lemma hdev_recv_cmd c b : nlen b < 65536 ->
  hdev_recv c (mk_report RID_CMD_OUT b) =
  (cmd_core c b, mk_report RID_CMD_IN (cmd_first c b) :: hid_queue (cmd_core c b) (cmd_zfin c b) (cmd_din c b)).
Proof.
  intros Hl. unfold hdev_recv. destruct (hdev_decode RID_CMD_OUT b Hl) as (D4 & D0 & Dp). rewrite D4, D0, Dp.
  change (RID_CMD_OUT =? RID_CMD_OUT) with true. cbv iota.
  unfold cmd_core, cmd_first, cmd_zfin, cmd_din, hid_queue.
  destruct (dev_command c b) as [[c1 first] din]. cbn [fst snd]. destruct (dev_zero_phase c1) as [c2 zfin]. cbn [fst snd].
  destruct din as [[data [tag fin]]|]; reflexivity.
Qed.
Lemma hdev_recv_data c p : nlen p < 65536 ->
  hdev_recv c (mk_report RID_DATA_OUT p) =
  (fst (dev_data_out c p), match snd (dev_data_out c p) with Some r => [mk_report RID_CMD_IN r] | None => [] end).
Proof.
  intros Hl. unfold hdev_recv. destruct (hdev_decode RID_DATA_OUT p Hl) as (D4 & D0 & Dp). rewrite D4, D0, Dp.
  change (RID_DATA_OUT =? RID_CMD_OUT) with false. change (RID_DATA_OUT =? RID_DATA_OUT) with true. cbv iota.
  destruct (dev_data_out c p) as [c1 fin]. reflexivity.
Qed.

Lemma hid_T1 ce : forall c b p rs st mps e,
  live_hid c [] e -> pkt_bytes p = ROk b -> b <> [] -> nlen b <= HID_MAXC -> cmd_first c b <> [] -> nlen (cmd_first c b) <= HID_MAXC ->
  parse_cmd_response (cmd_first c b) = ROk rs -> cmd_zfin c b = None ->
  exists e', process_cmd _ (hid_iface dcore hdev_recv) ce p (mkMbs _ st mps e) = finish_cmd _ ce rs (mkMbs _ st mps e') /\
             live_hid (cmd_core c b) (din_items (cmd_core c b) (cmd_din c b)) e'.
Proof.
  intros c b p rs st mps e (out & cons & ->) Hb Hne Hl Hf Hfl Hp Hz. cbn [map]. unfold HID_MAXC in Hl.
  eexists. split.
  - unfold process_cmd, lift. cbn [mb_env]. rewrite Hb. unfold mlift. unfold mbind at 1. cbn [i_write_command i_read hid_iface].
    unfold mbind at 1. unfold h_write_command, mbind at 1, mlift, create_report.
    replace (65536 <=? nlen b) with false by (symmetry; apply N.leb_gt; lia).
    unfold hwrite. cbn [he_dev he_in he_out he_cons]. rewrite hdev_recv_cmd by lia. cbn [app].
    rewrite h_read_report by assumption. change (RID_CMD_IN =? RID_CMD_IN) with true. cbv iota.
    unfold parse_rx. rewrite Hp. unfold mret, set_env. cbn [mb_status mb_mps]. reflexivity.
  - eexists. eexists. rewrite Hz. unfold hid_queue, din_items. cbn [app].
    destruct (cmd_din c b) as [[data [tag fin]]|]; [|reflexivity]. rewrite map_app, map_map. reflexivity.
Qed.

Lemma hid_T2 : forall fin tag chunks acc fuel c st mps e,
  fin < U32 -> tag < U32 -> Forall (cok HID_MAXC) chunks -> (length chunks < fuel)%nat ->
  live_hid c (map LData chunks ++ [LFin fin tag]) e ->
  exists e', read_data_loop _ (hid_iface dcore hdev_recv) tag fuel acc (mkMbs _ st mps e) =
             (ROk (concat (rev acc) ++ concat chunks, generic_resp fin tag), mkMbs _ fin mps e') /\ live_hid c [] e'.
Proof.
  intros fin tag. induction chunks as [|ch t IH]; intros acc fuel c st mps e Hf Ht Hc Hfu (out & cons & ->).
  - destruct fuel as [|f]; [inversion Hfu|]. cbn [map app report_of]. cbn [read_data_loop]. unfold lift. cbn [mb_env i_read hid_iface].
    rewrite h_read_report; [|discriminate|rewrite generic_nlen; unfold HID_MAXC; lia].
    change (RID_CMD_IN =? RID_CMD_IN) with true. cbv iota. unfold parse_rx. rewrite parse_generic by assumption.
    unfold mret. unfold set_env. cbn [mb_status mb_mps mb_env]. unfold generic_resp at 1. cbn [r_cls]. change (1 =? 1) with true. cbv iota.
    unfold mbind, put_status. cbn [r_second generic_resp r_status set_status mb_mps mb_env mb_status]. rewrite N.eqb_refl.
    unfold mret. cbn [concat]. rewrite (app_nil_r (concat (rev acc))). eexists. split; [reflexivity|]. eexists. eexists. reflexivity.
  - destruct fuel as [|f]; [inversion Hfu|]. inversion Hc as [|? ? [Hne Hl] Ht']; subst.
    cbn [map app report_of]. cbn [read_data_loop]. unfold lift. cbn [mb_env i_read hid_iface].
    rewrite h_read_report by assumption. change (RID_DATA_IN =? RID_CMD_IN) with false. cbv iota. unfold mret, set_env. cbn [mb_status mb_mps].
    destruct (IH (ch :: acc) f c st mps (mkHenv dcore c (map report_of (map LData t ++ [LFin fin tag])) out (mk_report RID_DATA_IN ch :: cons)))
      as (e' & R & L); try assumption; [simpl in Hfu; lia|eexists; eexists; reflexivity|].
    exists e'. split; [|exact L]. rewrite R. cbn [rev concat]. rewrite concat_app. cbn [concat]. rewrite app_nil_r, <- app_assoc. reflexivity.
Qed.

Lemma hid_write_chunks : forall chunks c ph out cons,
  Forall (cok HID_MAXC) chunks -> chunks <> [] -> dc_phase c = Some ph ->
  ph_expected ph = nlen (ph_buf ph) + nlen (concat chunks) ->
  exists out' cons',
  write_chunks _ (hid_iface dcore hdev_recv) false chunks (mkHenv dcore c [] out cons) =
  (ROk tt, mkHenv dcore (phase_done c (ph_add ph (concat chunks))) [mk_report RID_CMD_IN (generic (ph_fin ph) (ph_tag ph))] out' cons').
Proof.
  induction chunks as [|ch t IH]; intros c ph out cons Hc Hne Hph Hex; [contradiction|].
  inversion Hc as [|? ? [Hcn Hcl] Ht]; subst. unfold HID_MAXC in Hcl.
  cbn [write_chunks]. unfold mbind at 1. cbn [i_write_data hid_iface].
  unfold h_write_data, mbind at 1, mlift, create_report.
  replace (65536 <=? nlen ch) with false by (symmetry; apply N.leb_gt; lia).
  unfold mbind at 1. unfold mret at 1. unfold hwrite. cbn [he_dev he_in he_out he_cons].
  rewrite hdev_recv_data by lia. unfold dev_data_out. rewrite Hph. fold (ph_add ph ch). cbn [app].
  cbn [concat] in Hex. rewrite nlen_app in Hex.
  destruct t as [|ch2 t].
  - cbn [concat] in *. rewrite app_nil_r in *. change (nlen []) with 0 in Hex.
    replace (ph_expected ph <=? nlen (ph_buf (ph_add ph ch))) with true
      by (symmetry; apply N.leb_le; cbn [ph_add ph_buf]; rewrite nlen_app; lia).
    cbn [fst snd write_chunks]. unfold mret. eexists. eexists. reflexivity.
  - inversion Ht as [|? ? [Hne2 Hl2] Ht2]; subst.
    assert (Hpos : 0 < nlen (concat (ch2 :: t))).
    { cbn [concat]. rewrite nlen_app. destruct ch2; [contradiction|]. rewrite nlen_cons. lia. }
    replace (ph_expected ph <=? nlen (ph_buf (ph_add ph ch))) with false
      by (symmetry; apply N.leb_gt; cbn [ph_add ph_buf]; rewrite nlen_app; lia).
    cbn [fst snd]. fold (with_phase c (ph_add ph ch)).
    destruct (IH (with_phase c (ph_add ph ch)) (ph_add ph ch) (mk_report RID_DATA_OUT ch :: out) cons) as (o' & c' & Heq);
      [exact Ht|discriminate|apply with_phase_phase| |].
    + cbn [ph_add ph_expected ph_buf]. rewrite nlen_app. lia.
    + rewrite Heq. rewrite phase_done_with, ph_add_add. cbn [ph_add ph_fin ph_tag]. eexists. eexists. reflexivity.
Qed.

Lemma hid_T3 ce : forall tag chunks c ph st mps e,
  tag <> CT_NO_COMMAND -> Forall (cok HID_MAXC) chunks -> chunks <> [] -> dc_phase c = Some ph ->
  ph_expected ph = nlen (ph_buf ph) + nlen (concat chunks) -> ph_fin ph = S_OK -> ph_tag ph < U32 -> live_hid c [] e ->
  exists e', send_data _ (hid_iface dcore hdev_recv) ce false tag chunks (mkMbs _ st mps e) = (ROk true, mkMbs _ SC_SUCCESS mps e') /\
             live_hid (phase_done c (ph_add ph (concat chunks))) [] e'.
Proof.
  intros tag chunks c ph st mps e Ht Hc Hne Hph Hex Hfin Hpt (out & cons & ->). cbn [map].
  destruct (hid_write_chunks chunks c ph out cons Hc Hne Hph Hex) as (o1 & c1 & W).
  eexists. split.
  - unfold send_data. destruct (tag =? CT_NO_COMMAND) eqn:E; [apply N.eqb_eq in E; contradiction|]. cbn [negb].
    unfold lift at 1. cbn [mb_env]. rewrite W. unfold set_env at 1. cbn [mb_status mb_mps]. unfold lift. cbn [mb_env i_read hid_iface].
    rewrite h_read_report; [|discriminate|rewrite generic_nlen; unfold HID_MAXC; lia].
    change (RID_CMD_IN =? RID_CMD_IN) with true. cbv iota. unfold parse_rx. rewrite Hfin.
    rewrite parse_generic by (first [reflexivity|assumption]).
    unfold mret, set_env. cbn [mb_status mb_mps].
    unfold mbind, put_status, generic_resp. cbn [r_status set_status mb_mps mb_env]. change (negb (S_OK =? SC_SUCCESS)) with false.
    cbv iota. unfold mret. reflexivity.
  - eexists. eexists. reflexivity.
Qed.

(* FAULTFREE_REFINES_SPEC (all families) over USB-HID *)
Lemma faultfree_families_hid ce fuel fs c st out cons :
  0 < dc_mps c -> dc_mps c <= HID_MAXC -> fops_ok HID_MAXC ce fuel c fs ->
  exists out' cons' st',
    fsession _ (hid_iface dcore hdev_recv) ce fuel fs (mkMbs _ st (Some (dc_mps c)) (mkHenv dcore c [] out cons)) =
    (fst (spec_fops ce c fs), mkMbs _ st' (Some (dc_mps c)) (mkHenv dcore (snd (spec_fops ce c fs)) [] out' cons')).
Proof.
  intros Hm0 Hm1 Hok.
  destruct (fsession_spec _ (hid_iface dcore hdev_recv) ce live_hid HID_MAXC eq_refl (hid_T1 ce) hid_T2 (hid_T3 ce) fuel fs c st
              (mkHenv dcore c [] out cons) Hm0 Hm1) as (e' & st' & R & (o1 & c1 & ->)); [exists out, cons; reflexivity|exact Hok|].
  exists o1, c1, st'. exact R.
Qed.

(* ------------------------------------------------------------------ the reference bootloader core on the families' commands *)
Ltac closed_eqb :=
  repeat match goal with
         | |- context [N.eqb ?a ?b] =>
             let v := eval vm_compute in (N.eqb a b) in
             match v with
             | true => change (N.eqb a b) with true
             | false => change (N.eqb a b) with false
             end
         end;
  cbn [orb andb negb]; cbv iota.

Lemma pkt1_words tag flags a : a < U32 ->
  let pkt := tag :: flags :: 0 :: 1 :: u32s [a] in
  (4 + 4 * 1 <=? nlen pkt) = true /\ words (N.to_nat 1) (skipn 4 pkt) = [a].
Proof.
  intros Ha pkt. split.
  - apply N.leb_le. unfold pkt. rewrite !nlen_cons, u32s_nlen. change (nlen [a]) with 1. lia.
  - unfold pkt. cbn [skipn]. rewrite <- (app_nil_r (u32s [a])). change (N.to_nat 1) with (length [a]). apply words_u32s. repeat constructor; assumption.
Qed.
Lemma pkt2_words tag flags a l : a < U32 -> l < U32 ->
  let pkt := tag :: flags :: 0 :: 2 :: u32s [a; l] in
  (4 + 4 * 2 <=? nlen pkt) = true /\ words (N.to_nat 2) (skipn 4 pkt) = [a; l].
Proof.
  intros Ha Hl pkt. split.
  - apply N.leb_le. unfold pkt. rewrite !nlen_cons, u32s_nlen. change (nlen [a; l]) with 2. lia.
  - unfold pkt. cbn [skipn]. rewrite <- (app_nil_r (u32s [a; l])). change (N.to_nat 2) with (length [a; l]). apply words_u32s. repeat constructor; assumption.
Qed.
Lemma pkt_bytes_small tag flags ps : Forall (fun x => x < U32) ps -> nlen ps < 256 ->
  pkt_bytes (tag, flags, ps) = ROk (tag :: flags :: 0 :: nlen ps :: u32s ps).
Proof.
  intros Hf Hn. unfold pkt_bytes. fold U32.
  replace (existsb (fun x => U32 <=? x) ps) with false.
  - replace (256 <=? nlen ps) with false by (symmetry; apply N.leb_gt; exact Hn). reflexivity.
  - symmetry. clear Hn. induction Hf as [|x t Hx _ IH]; [reflexivity|]. cbn [existsb]. rewrite IH.
    replace (U32 <=? x) with false by (symmetry; apply N.leb_gt; exact Hx). reflexivity.
Qed.

(* introduction rule: a command the core answers with a generic response and no data phase *)
Lemma fop_ok_simple maxc fuel c p b c1 st :
  16 <= maxc -> pkt_bytes p = ROk b -> b <> [] -> nlen b <= maxc ->
  dev_command c b = (c1, generic st (pkt_tag p), None) -> dc_phase c1 = None -> dc_mps c1 = dc_mps c -> st < U32 -> pkt_tag p < U32 ->
  fop_ok maxc fuel c (FSimple p) /\
  spec_fop false c (FSimple p) = ((ROk (AVBool (st =? SC_SUCCESS)), st), c1).
Proof.
  intros Hmx Hb Hne Hl Hd Hph Hm Hst Htg.
  assert (Hz : dev_zero_phase c1 = (c1, None)) by (unfold dev_zero_phase; rewrite Hph; reflexivity).
  assert (Hcore : cmd_core c b = c1) by (unfold cmd_core; rewrite Hd; cbn [fst]; rewrite Hz; reflexivity).
  assert (Hfirst : cmd_first c b = generic st (pkt_tag p)) by (unfold cmd_first; rewrite Hd; reflexivity).
  split.
  - exists b, (generic_resp st (pkt_tag p)). cbn [fop_pkt]. rewrite Hfirst, Hcore. repeat split; try assumption.
    + discriminate.
    + rewrite generic_nlen. lia.
    + apply parse_generic; assumption.
    + unfold cmd_zfin. rewrite Hd. cbn [fst]. rewrite Hz. reflexivity.
    + unfold cmd_din. rewrite Hd. reflexivity.
  - unfold spec_fop. cbn [fop_pkt]. rewrite Hb, Hfirst, Hcore, parse_generic by assumption. reflexivity.
Qed.

(* fill_memory: aligned and in range -> the pattern words are written; otherwise an error status, nothing changes *)
Lemma fill_core c a l pat : no_faults c -> a < U32 -> l < U32 -> pat < U32 ->
  let b := CT_FILL_MEMORY :: CF_NONE :: 0 :: 3 :: u32s [a; l; pat] in
  let lc := log_cmd c (CT_FILL_MEMORY, CF_NONE, [a; l; pat]) in
  dev_command c b =
  if negb ((a mod 4 =? 0) && (l mod 4 =? 0)) then (lc, generic S_ALIGN CT_FILL_MEMORY, None)
  else if in_range c a l
       then (upd_core lc (mem_put c a (flat_map (fun _ => le_enc 4 pat) (repeat tt (N.to_nat (l / 4))))) (dc_props c) (dc_fuses c) (dc_phase c) (dc_cmds lc),
             generic S_OK CT_FILL_MEMORY, None)
       else (lc, generic S_RANGE CT_FILL_MEMORY, None).
Proof.
  intros [Hfc Hff] Ha Hl Hp b lc. subst b lc. unfold dev_command.
  destruct (pkt3_words CT_FILL_MEMORY CF_NONE a l pat Ha Hl Hp) as [H1 H2].
  cbv zeta in H1, H2. cbn [nth]. rewrite H1, H2. cbn [nth].
  cbn [upd_core dc_fail_cmd dc_fail_final dc_mem dc_props dc_fuses dc_phase dc_cmds dc_base].
  rewrite Hfc, Hff. cbn [assoc assocd]. closed_eqb.
  match goal with |- context [in_range ?x a l] => change (in_range x a l) with (in_range c a l) end.
  destruct (negb ((a mod 4 =? 0) && (l mod 4 =? 0))); [reflexivity|]. destruct (in_range c a l); reflexivity.
Qed.

Ltac core_eval W :=
  unfold dev_command; destruct W as [H1 H2]; cbv zeta in H1, H2; cbn [nth]; rewrite H1, H2; cbn [nth];
  cbn [upd_core dc_fail_cmd dc_fail_final dc_mem dc_props dc_fuses dc_phase dc_cmds dc_base];
  match goal with Hfc : dc_fail_cmd _ = [], Hff : dc_fail_final _ = [] |- _ => rewrite Hfc, Hff end;
  cbn [assoc assocd]; closed_eqb.

Lemma erase_region_core c a l m : no_faults c -> a < U32 -> l < U32 -> m < U32 ->
  let lc := log_cmd c (CT_FLASH_ERASE_REGION, CF_NONE, [a; l; m]) in
  dev_command c (CT_FLASH_ERASE_REGION :: CF_NONE :: 0 :: 3 :: u32s [a; l; m]) =
  if in_range c a l
  then (upd_core lc (mem_put c a (repeat 255 (N.to_nat l))) (dc_props c) (dc_fuses c) (dc_phase c) (dc_cmds lc), generic S_OK CT_FLASH_ERASE_REGION, None)
  else (lc, generic S_RANGE CT_FLASH_ERASE_REGION, None).
Proof.
  intros [Hfc Hff] Ha Hl Hm lc. subst lc. core_eval (pkt3_words CT_FLASH_ERASE_REGION CF_NONE a l m Ha Hl Hm).
  match goal with |- context [in_range ?x a l] => change (in_range x a l) with (in_range c a l) end.
  destruct (in_range c a l); reflexivity.
Qed.

Lemma erase_all_core c m : no_faults c -> m < U32 ->
  let lc := log_cmd c (CT_FLASH_ERASE_ALL, CF_NONE, [m]) in
  dev_command c (CT_FLASH_ERASE_ALL :: CF_NONE :: 0 :: 1 :: u32s [m]) =
  (upd_core lc (repeat 255 (length (dc_mem c))) (dc_props c) (dc_fuses c) (dc_phase c) (dc_cmds lc), generic S_OK CT_FLASH_ERASE_ALL, None).
Proof. intros [Hfc Hff] Hm lc. subst lc. core_eval (pkt1_words CT_FLASH_ERASE_ALL CF_NONE m Hm). reflexivity. Qed.

Lemma set_property_core c t v : no_faults c -> t < U32 -> v < U32 ->
  let lc := log_cmd c (CT_SET_PROPERTY, CF_NONE, [t; v]) in
  dev_command c (CT_SET_PROPERTY :: CF_NONE :: 0 :: 2 :: u32s [t; v]) =
  match assoc t (dc_props c) with
  | None => (lc, generic S_UNK_PROP CT_SET_PROPERTY, None)
  | Some _ => if memb t WRITABLE_PROPS
              then (upd_core lc (dc_mem c) (aset t [v] (dc_props c)) (dc_fuses c) (dc_phase c) (dc_cmds lc), generic S_OK CT_SET_PROPERTY, None)
              else (lc, generic S_RO_PROP CT_SET_PROPERTY, None)
  end.
Proof.
  intros [Hfc Hff] Ht Hv lc. subst lc. core_eval (pkt2_words CT_SET_PROPERTY CF_NONE t v Ht Hv).
  destruct (assoc t (dc_props c)); [destruct (memb t WRITABLE_PROPS)|]; reflexivity.
Qed.

Lemma get_property_core c t i : no_faults c -> t < U32 -> i < U32 ->
  let lc := log_cmd c (CT_GET_PROPERTY, CF_NONE, [t; i]) in
  dev_command c (CT_GET_PROPERTY :: CF_NONE :: 0 :: 2 :: u32s [t; i]) =
  match assoc t (dc_props c) with
  | Some vals => (lc, response RT_GET_PROPERTY (S_OK :: vals), None)
  | None => (lc, response RT_GET_PROPERTY [S_UNK_PROP], None)
  end.
Proof.
  intros [Hfc Hff] Ht Hi lc. subst lc. core_eval (pkt2_words CT_GET_PROPERTY CF_NONE t i Ht Hi).
  destruct (assoc t (dc_props c)); reflexivity.
Qed.

Lemma receive_sb_core c l : no_faults c -> l < U32 ->
  dev_command c (CT_RECEIVE_SB_FILE :: CF_HAS_DATA_PHASE :: 0 :: 1 :: u32s [l]) =
  (with_phase (log_cmd c (CT_RECEIVE_SB_FILE, CF_HAS_DATA_PHASE, [l])) (mkPhase CT_RECEIVE_SB_FILE l [] 1 0 S_OK), generic S_OK CT_RECEIVE_SB_FILE, None).
Proof. intros [Hfc Hff] Hl. core_eval (pkt1_words CT_RECEIVE_SB_FILE CF_HAS_DATA_PHASE l Hl). reflexivity. Qed.

Lemma kp_write_key_store_core c l : no_faults c -> l < U32 ->
  dev_command c (CT_KEY_PROVISIONING :: CF_HAS_DATA_PHASE :: 0 :: 3 :: u32s [KPO_WRITE_KEY_STORE; 0; l]) =
  (with_phase (log_cmd c (CT_KEY_PROVISIONING, CF_HAS_DATA_PHASE, [KPO_WRITE_KEY_STORE; 0; l])) (mkPhase CT_KEY_PROVISIONING l [] 3 0 S_OK),
   generic S_OK CT_KEY_PROVISIONING, None).
Proof.
  intros [Hfc Hff] Hl. core_eval (pkt3_words CT_KEY_PROVISIONING CF_HAS_DATA_PHASE KPO_WRITE_KEY_STORE 0 l ltac:(reflexivity) ltac:(reflexivity) Hl).
  reflexivity.
Qed.

Lemma kp_read_key_store_core c : no_faults c ->
  dev_command c (CT_KEY_PROVISIONING :: CF_NONE :: 0 :: 1 :: u32s [KPO_READ_KEY_STORE]) =
  (log_cmd c (CT_KEY_PROVISIONING, CF_NONE, [KPO_READ_KEY_STORE]), response RT_KEY_PROVISIONING_RESPONSE [S_OK; nlen (dc_keystore c)],
   Some (dc_keystore c, (CT_KEY_PROVISIONING, S_OK))).
Proof. intros [Hfc Hff]. core_eval (pkt1_words CT_KEY_PROVISIONING CF_NONE KPO_READ_KEY_STORE ltac:(reflexivity)). reflexivity. Qed.

Lemma program_once_core c idx v : no_faults c -> idx < U32 -> v < U32 ->
  let lc := log_cmd c (CT_FLASH_PROGRAM_ONCE, CF_NONE, [idx; 4; v]) in
  dev_command c (CT_FLASH_PROGRAM_ONCE :: CF_NONE :: 0 :: 3 :: u32s [idx; 4; v]) =
  (upd_core lc (dc_mem c) (dc_props c) (aset idx (N.lor (assocd idx (dc_fuses c) 0) v) (dc_fuses c)) (dc_phase c) (dc_cmds lc),
   generic S_OK CT_FLASH_PROGRAM_ONCE, None).
Proof.
  intros [Hfc Hff] Hi Hv lc. subst lc. core_eval (pkt3_words CT_FLASH_PROGRAM_ONCE CF_NONE idx 4 v Hi ltac:(reflexivity) Hv). reflexivity.
Qed.

(* get-property responses parse back: status and ALL values are those the core sent *)
Lemma parse_star tagr cls st vals (Hcls : assocd tagr known_response 0 = cls)
      (Hshape : assoc cls response_shape = Some (1, 0, 1, 1, 0)) (Hc4 : (cls =? 4) = false) :
  st < U32 -> Forall (fun x => x < U32) vals ->
  parse_cmd_response (response tagr (st :: vals)) = ROk (mkResp cls tagr st 0 vals []).
Proof.
  intros Hs Hv. unfold parse_cmd_response, response. fold U32.
  assert (Hall : Forall (fun x => x < U32) (st :: vals)) by (constructor; assumption).
  rewrite map_mod_id by exact Hall. set (ps := st :: vals) in *. set (raw := u32s ps).
  assert (Hraw : nlen raw = 4 * nlen ps) by (unfold raw; apply u32s_nlen).
  assert (Hps : 1 <= nlen ps) by (unfold ps; rewrite nlen_cons; lia).
  replace (nlen (tagr :: 0 :: 0 :: nlen ps :: raw) <? CMD_HEADER_SIZE) with false
    by (symmetry; apply N.ltb_ge; rewrite !nlen_cons; unfold CMD_HEADER_SIZE; lia).
  cbn [nth]. assert (S4 : forall (a b c d : N) l, skipn 4 (a :: b :: c :: d :: l) = l) by reflexivity. rewrite S4.
  replace (nlen raw <? 4) with false by (symmetry; apply N.ltb_ge; lia).
  rewrite Hcls, Hshape. change (1 =? 0) with false. cbv iota. change (1 =? 2) with false. cbv iota.
  replace (nlen raw <? 4 * nlen ps) with false by (symmetry; apply N.ltb_ge; lia).
  change (1 =? 1) with true. cbv iota. replace (nlen ps <? 1) with false by (symmetry; apply N.ltb_ge; lia).
  change (2 <=? 1) with false. cbv iota. rewrite Hc4. cbn [andb].
  assert (W : words (N.to_nat (nlen ps)) raw = ps).
  { unfold raw. rewrite nlen_to_nat, <- (app_nil_r (u32s ps)). apply words_u32s. exact Hall. }
  rewrite W. change (N.to_nat 1) with 1%nat. change (skipn 1 ps) with vals.
  replace (le_dec (firstn 4 raw)) with st; [reflexivity|].
  unfold raw, ps. cbn [u32s flat_map]. rewrite (firstn_app_len (le_enc 4 st)) by apply le_enc4_length. now rewrite le_dec_enc4.
Qed.
Lemma parse_getprop st vals : st < U32 -> Forall (fun x => x < U32) vals ->
  parse_cmd_response (response RT_GET_PROPERTY (st :: vals)) = ROk (mkResp 2 RT_GET_PROPERTY st 0 vals []).
Proof. apply (parse_star RT_GET_PROPERTY 2); reflexivity. Qed.

Section FamilyOk.
  Variable maxc : N.
  Hypothesis Hmax : 16 <= maxc.
  Variable fuel : nat.
  Variable ce : bool.

  Lemma log_cmd_frame c e : dc_phase (log_cmd c e) = dc_phase c /\ dc_mps (log_cmd c e) = dc_mps c.
  Proof. split; reflexivity. Qed.

  (* fill_memory, every argument triple *)
  Lemma fill_ok c a l pat : no_faults c -> dc_phase c = None -> a < U32 -> l < U32 -> pat < U32 ->
    fop_ok maxc fuel c (FSimple (pkt_fill_memory a l pat)).
  Proof.
    intros Hnf Hph Ha Hl Hp. pose proof (fill_core c a l pat Hnf Ha Hl Hp) as Hc. cbv zeta in Hc.
    assert (Hb : pkt_bytes (pkt_fill_memory a l pat) = ROk (CT_FILL_MEMORY :: CF_NONE :: 0 :: 3 :: u32s [a; l; pat]))
      by (apply (pkt_bytes_small CT_FILL_MEMORY CF_NONE [a; l; pat]); [repeat constructor; assumption|reflexivity]).
    destruct (negb ((a mod 4 =? 0) && (l mod 4 =? 0))); [|destruct (in_range c a l)];
      (eapply fop_ok_simple; [exact Hmax|exact Hb|discriminate|rewrite !nlen_cons, u32s_nlen; cbn; lia|exact Hc|exact Hph|reflexivity|reflexivity|reflexivity]).
  Qed.

  Lemma erase_region_ok c a l m : no_faults c -> dc_phase c = None -> a < U32 -> l < U32 -> m < U32 ->
    fop_ok maxc fuel c (FSimple (CT_FLASH_ERASE_REGION, CF_NONE, [a; l; m])).
  Proof.
    intros Hnf Hph Ha Hl Hm. pose proof (erase_region_core c a l m Hnf Ha Hl Hm) as Hc. cbv zeta in Hc.
    assert (Hb : pkt_bytes (CT_FLASH_ERASE_REGION, CF_NONE, [a; l; m]) = ROk (CT_FLASH_ERASE_REGION :: CF_NONE :: 0 :: 3 :: u32s [a; l; m]))
      by (apply pkt_bytes_small; [repeat constructor; assumption|reflexivity]).
    destruct (in_range c a l);
      (eapply fop_ok_simple; [exact Hmax|exact Hb|discriminate|rewrite !nlen_cons, u32s_nlen; cbn; lia|exact Hc|exact Hph|reflexivity|reflexivity|reflexivity]).
  Qed.

  Lemma erase_all_ok c m : no_faults c -> dc_phase c = None -> m < U32 -> fop_ok maxc fuel c (FSimple (pkt_flash_erase_all m)).
  Proof.
    intros Hnf Hph Hm. pose proof (erase_all_core c m Hnf Hm) as Hc. cbv zeta in Hc.
    assert (Hb : pkt_bytes (pkt_flash_erase_all m) = ROk (CT_FLASH_ERASE_ALL :: CF_NONE :: 0 :: 1 :: u32s [m]))
      by (apply (pkt_bytes_small CT_FLASH_ERASE_ALL CF_NONE [m]); [repeat constructor; assumption|reflexivity]).
    eapply fop_ok_simple; [exact Hmax|exact Hb|discriminate|rewrite !nlen_cons, u32s_nlen; cbn; lia|exact Hc|exact Hph|reflexivity|reflexivity|reflexivity].
  Qed.

  Lemma set_property_ok c t v : no_faults c -> dc_phase c = None -> t < U32 -> v < U32 -> fop_ok maxc fuel c (FSimple (pkt_set_property t v)).
  Proof.
    intros Hnf Hph Ht Hv. pose proof (set_property_core c t v Hnf Ht Hv) as Hc. cbv zeta in Hc.
    assert (Hb : pkt_bytes (pkt_set_property t v) = ROk (CT_SET_PROPERTY :: CF_NONE :: 0 :: 2 :: u32s [t; v]))
      by (apply (pkt_bytes_small CT_SET_PROPERTY CF_NONE [t; v]); [repeat constructor; assumption|reflexivity]).
    destruct (assoc t (dc_props c)); [destruct (memb t WRITABLE_PROPS)|];
      (eapply fop_ok_simple; [exact Hmax|exact Hb|discriminate|rewrite !nlen_cons, u32s_nlen; cbn; lia|exact Hc|exact Hph|reflexivity|reflexivity|reflexivity]).
  Qed.

  Lemma program_once_ok c idx v : no_faults c -> dc_phase c = None -> idx < U32 -> v < U32 ->
    fop_ok maxc fuel c (FSimple (pkt_efuse_program_once idx v)).
  Proof.
    intros Hnf Hph Hi Hv. pose proof (program_once_core c idx v Hnf Hi Hv) as Hc. cbv zeta in Hc.
    assert (Hb : pkt_bytes (pkt_efuse_program_once idx v) = ROk (CT_FLASH_PROGRAM_ONCE :: CF_NONE :: 0 :: 3 :: u32s [idx; 4; v]))
      by (apply (pkt_bytes_small CT_FLASH_PROGRAM_ONCE CF_NONE [idx; 4; v]); [repeat constructor; first [assumption|reflexivity]|reflexivity]).
    eapply fop_ok_simple; [exact Hmax|exact Hb|discriminate|rewrite !nlen_cons, u32s_nlen; cbn; lia|exact Hc|exact Hph|reflexivity|reflexivity|reflexivity].
  Qed.

  (* get_property: known property -> its values; unknown -> status UNKNOWN_PROPERTY *)
  Lemma get_property_ok c t i : no_faults c -> dc_phase c = None -> t < U32 -> i < U32 ->
    (forall vals, assoc t (dc_props c) = Some vals -> Forall (fun x => x < U32) vals /\ 4 + 4 * (1 + nlen vals) <= maxc) ->
    fop_ok maxc fuel c (FGetProp t i) /\
    spec_fop false c (FGetProp t i) =
      match assoc t (dc_props c) with
      | Some vals => ((ROk (AVInts vals), S_OK), log_cmd c (CT_GET_PROPERTY, CF_NONE, [t; i]))
      | None => ((ROk AVNone, S_UNK_PROP), log_cmd c (CT_GET_PROPERTY, CF_NONE, [t; i]))
      end.
  Proof.
    intros Hnf Hph Ht Hi Hvals. pose proof (get_property_core c t i Hnf Ht Hi) as Hc. cbv zeta in Hc.
    assert (Hb : pkt_bytes (pkt_get_property t i) = ROk (CT_GET_PROPERTY :: CF_NONE :: 0 :: 2 :: u32s [t; i]))
      by (apply (pkt_bytes_small CT_GET_PROPERTY CF_NONE [t; i]); [repeat constructor; assumption|reflexivity]).
    set (b := CT_GET_PROPERTY :: CF_NONE :: 0 :: 2 :: u32s [t; i]) in *.
    set (lc := log_cmd c (CT_GET_PROPERTY, CF_NONE, [t; i])) in *.
    assert (Hz : dev_zero_phase lc = (lc, None)) by (unfold dev_zero_phase; change (dc_phase lc) with (dc_phase c); rewrite Hph; reflexivity).
    assert (G : forall first rs, dev_command c b = (lc, first, None) -> first <> [] -> nlen first <= maxc -> parse_cmd_response first = ROk rs -> r_cls rs = 2 ->
                fop_ok maxc fuel c (FGetProp t i) /\
                spec_fop false c (FGetProp t i) = ((ROk (if r_status rs =? SC_SUCCESS then AVInts (r_values rs) else AVNone), r_status rs), lc)).
    { intros first rs Hd Hne Hl Hp Hcl.
      assert (Hcore : cmd_core c b = lc) by (unfold cmd_core; rewrite Hd; cbn [fst]; rewrite Hz; reflexivity).
      assert (Hfirst : cmd_first c b = first) by (unfold cmd_first; rewrite Hd; reflexivity).
      split.
      - exists b, rs. cbn [fop_pkt]. rewrite Hfirst, Hcore. repeat split; try assumption; try discriminate.
        + unfold b. rewrite !nlen_cons, u32s_nlen. cbn. lia.
        + unfold cmd_zfin. rewrite Hd. cbn [fst]. rewrite Hz. reflexivity.
        + unfold cmd_din. rewrite Hd. reflexivity.
      - unfold spec_fop. cbn [fop_pkt]. rewrite Hb, Hfirst, Hcore, Hp. reflexivity. }
    destruct (assoc t (dc_props c)) as [vals|] eqn:EA.
    - destruct (Hvals vals eq_refl) as [Hv Hl].
      apply (G (response RT_GET_PROPERTY (S_OK :: vals)) (mkResp 2 RT_GET_PROPERTY S_OK 0 vals [])); [exact Hc|discriminate| |apply parse_getprop; [reflexivity|exact Hv]|reflexivity].
      rewrite response_nlen, nlen_cons. exact Hl.
    - apply (G (response RT_GET_PROPERTY [S_UNK_PROP]) (mkResp 2 RT_GET_PROPERTY S_UNK_PROP 0 [] [])); [exact Hc|discriminate| |apply parse_getprop; [reflexivity|constructor]|reflexivity].
      rewrite response_nlen. cbn. lia.
  Qed.
End FamilyOk.

Section FamilyOk2.
  Variable maxc : N.
  Hypothesis Hmax : 16 <= maxc.
  Variable fuel : nat.
  Variable ce : bool.

  Lemma phase_done_mps c ph : dc_mps (phase_done c ph) = dc_mps c.
  Proof. unfold phase_done. destruct (negb (ph_fin ph =? S_OK)); [reflexivity|]. destruct (ph_kind ph =? 0); [reflexivity|].
         destruct (ph_kind ph =? 1); [reflexivity|]. destruct (ph_kind ph =? 2); reflexivity. Qed.

  (* introduction rule for command + outgoing data *)
  Lemma fop_ok_out c p b data kind arg : pkt_bytes p = ROk b -> b <> [] -> nlen b <= maxc -> data <> [] ->
    pkt_tag p <> CT_NO_COMMAND -> pkt_tag p < U32 ->
    dev_command c b = (with_phase (log_cmd c p) (mkPhase (pkt_tag p) (nlen data) [] kind arg S_OK), generic S_OK (pkt_tag p), None) ->
    fop_ok maxc fuel c (FOut p data) /\
    spec_fop ce c (FOut p data) =
      ((ROk (AVBool true), SC_SUCCESS), phase_done (log_cmd c p) (mkPhase (pkt_tag p) (nlen data) data kind arg S_OK)).
  Proof.
    intros Hb Hne Hl Hd Ht0 Htu Hc.
    set (ph := mkPhase (pkt_tag p) (nlen data) [] kind arg S_OK) in *.
    assert (Hz : dev_zero_phase (with_phase (log_cmd c p) ph) = (with_phase (log_cmd c p) ph, None)).
    { unfold dev_zero_phase. rewrite with_phase_phase. cbn [ph_expected ph]. destruct (nlen data =? 0) eqn:E; [apply N.eqb_eq, nlen_0 in E; contradiction|reflexivity]. }
    assert (Hcore : cmd_core c b = with_phase (log_cmd c p) ph) by (unfold cmd_core; rewrite Hc; cbn [fst]; rewrite Hz; reflexivity).
    assert (Hfirst : cmd_first c b = generic S_OK (pkt_tag p)) by (unfold cmd_first; rewrite Hc; reflexivity).
    split.
    - exists b, (generic_resp S_OK (pkt_tag p)). cbn [fop_pkt]. rewrite Hfirst, Hcore. repeat split; try assumption; try discriminate.
      + rewrite generic_nlen. lia.
      + apply parse_generic; [reflexivity|exact Htu].
      + unfold cmd_zfin. rewrite Hc. cbn [fst]. rewrite Hz. reflexivity.
      + unfold cmd_din. rewrite Hc. reflexivity.
      + exists ph. rewrite with_phase_phase. repeat split; try reflexivity; try assumption. rewrite phase_done_mps; reflexivity.
    - unfold spec_fop. cbn [fop_pkt]. rewrite Hb, Hfirst, Hcore, parse_generic by (first [reflexivity|exact Htu]).
      rewrite with_phase_phase, phase_done_with. reflexivity.
  Qed.

  Lemma receive_sb_ok c data : no_faults c -> nlen data < U32 -> data <> [] ->
    fop_ok maxc fuel c (FOut (pkt_receive_sb_file data) data) /\
    dc_sb (snd (spec_fop ce c (FOut (pkt_receive_sb_file data) data))) = dc_sb c ++ [data].
  Proof.
    intros Hnf Hl Hd.
    set (b := CT_RECEIVE_SB_FILE :: CF_HAS_DATA_PHASE :: 0 :: 1 :: u32s [nlen data]).
    assert (Hb : pkt_bytes (pkt_receive_sb_file data) = ROk b)
      by (apply (pkt_bytes_small CT_RECEIVE_SB_FILE CF_HAS_DATA_PHASE [nlen data]); [repeat constructor; assumption|reflexivity]).
    assert (Hlen : nlen b <= maxc) by (unfold b; rewrite !nlen_cons, u32s_nlen; cbn; lia).
    destruct (fop_ok_out c (pkt_receive_sb_file data) b data 1 0 Hb ltac:(discriminate) Hlen Hd ltac:(discriminate) ltac:(reflexivity)
                (receive_sb_core c (nlen data) Hnf Hl)) as [Ho Hs].
    split; [exact Ho|]. rewrite Hs. cbn [snd]. unfold phase_done. cbn [ph_fin ph_kind ph_expected ph_buf].
    closed_eqb. rewrite firstnN_all. destruct c; reflexivity.
  Qed.

  Lemma kp_write_key_store_ok c data : no_faults c -> nlen data < U32 -> data <> [] ->
    fop_ok maxc fuel c (FOut (pkt_kp_write_key_store data) data) /\
    dc_keystore (snd (spec_fop ce c (FOut (pkt_kp_write_key_store data) data))) = data.
  Proof.
    intros Hnf Hl Hd.
    set (b := CT_KEY_PROVISIONING :: CF_HAS_DATA_PHASE :: 0 :: 3 :: u32s [KPO_WRITE_KEY_STORE; 0; nlen data]).
    assert (Hb : pkt_bytes (pkt_kp_write_key_store data) = ROk b)
      by (apply (pkt_bytes_small CT_KEY_PROVISIONING CF_HAS_DATA_PHASE [KPO_WRITE_KEY_STORE; 0; nlen data]);
          [repeat constructor; first [assumption|reflexivity]|reflexivity]).
    assert (Hlen : nlen b <= maxc) by (unfold b; rewrite !nlen_cons, u32s_nlen; cbn; lia).
    destruct (fop_ok_out c (pkt_kp_write_key_store data) b data 3 0 Hb ltac:(discriminate) Hlen Hd ltac:(discriminate) ltac:(reflexivity)
                (kp_write_key_store_core c (nlen data) Hnf Hl)) as [Ho Hs].
    split; [exact Ho|].
    rewrite Hs. cbn [snd]. unfold phase_done. cbn [ph_fin ph_kind ph_expected ph_buf].
    closed_eqb. rewrite firstnN_all. destruct c; reflexivity.
  Qed.

  (* kp_read_key_store returns exactly the key store of the device *)
  Lemma kp_read_key_store_ok c : no_faults c -> dc_phase c = None -> nlen (dc_keystore c) < U32 ->
    (length (chunksN (dc_mps c) (dc_keystore c)) < fuel)%nat ->
    fop_ok maxc fuel c (FIn pkt_kp_read_key_store 6) /\
    fst (fst (spec_fop ce c (FIn pkt_kp_read_key_store 6))) = ROk (AVBytes (dc_keystore c)).
  Proof.
    intros Hnf Hph Hl Hfu. pose proof (kp_read_key_store_core c Hnf) as Hc.
    set (b := CT_KEY_PROVISIONING :: CF_NONE :: 0 :: 1 :: u32s [KPO_READ_KEY_STORE]) in *.
    set (lc := log_cmd c (CT_KEY_PROVISIONING, CF_NONE, [KPO_READ_KEY_STORE])) in *.
    assert (Hb : pkt_bytes pkt_kp_read_key_store = ROk b) by reflexivity.
    assert (Hz : dev_zero_phase lc = (lc, None)) by (unfold dev_zero_phase; change (dc_phase lc) with (dc_phase c); rewrite Hph; reflexivity).
    assert (Hcore : cmd_core c b = lc) by (unfold cmd_core; rewrite Hc; cbn [fst]; rewrite Hz; reflexivity).
    assert (Hfirst : cmd_first c b = response RT_KEY_PROVISIONING_RESPONSE [S_OK; nlen (dc_keystore c)]) by (unfold cmd_first; rewrite Hc; reflexivity).
    assert (Hp : parse_cmd_response (cmd_first c b) = ROk (mkResp 6 RT_KEY_PROVISIONING_RESPONSE S_OK (nlen (dc_keystore c)) [] [])).
    { rewrite Hfirst. apply (parse_two RT_KEY_PROVISIONING_RESPONSE 6); auto; reflexivity. }
    split.
    - exists b, (mkResp 6 RT_KEY_PROVISIONING_RESPONSE S_OK (nlen (dc_keystore c)) [] []). cbn [fop_pkt]. rewrite Hcore.
      repeat split; try assumption; try discriminate.
      + unfold b. rewrite !nlen_cons, u32s_nlen. cbn. lia.
      + rewrite Hfirst. discriminate.
      + rewrite Hfirst, response_nlen. cbn. lia.
      + unfold cmd_zfin. rewrite Hc. cbn [fst]. rewrite Hz. reflexivity.
      + exists RT_KEY_PROVISIONING_RESPONSE, (dc_keystore c). repeat split; try reflexivity; try assumption.
        unfold cmd_din. rewrite Hc. reflexivity.
    - unfold spec_fop. cbn [fop_pkt]. rewrite Hb, Hp. unfold cmd_din. rewrite Hc. reflexivity.
  Qed.
End FamilyOk2.

(* ------------------------------------------------------------------ from McuBoot API calls to the families *)
Inductive fcall : Type :=
| CFill (a l pat : N) | CEraseRegion (a l : N) | CEraseAll (m : N) | CSetProp (t v : N) | CGetProp (t i : N)
| CReceiveSb (data : list N) | CProgramOnce (idx v : N) | CReadOnce (idx cnt : N)
| CKpWriteStore (data : list N) | CKpReadStore | CWrite (a : N) (data : list N) | CReadFast (a l : N).
Definition fcall_call (x : fcall) : call :=
  match x with
  | CFill a l p => Call 5 [a; l; p] [] | CEraseRegion a l => Call 2 [a; l; 0] [] | CEraseAll m => Call 1 [m] []
  | CSetProp t v => Call 12 [t; v] [] | CGetProp t i => Call 7 [t; i] [] | CReceiveSb d => Call 8 [0] d
  | CProgramOnce i v => Call 14 [i; v; 0] [] | CReadOnce i c => Call 16 [i; c] [] | CKpWriteStore d => Call 27 [] d
  | CKpReadStore => Call 28 [] [] | CWrite a d => Call 4 [a; 0] d | CReadFast a l => Call 34 [a; l; 0] []
  end.
Definition fcall_fop (x : fcall) : fop :=
  match x with
  | CFill a l p => FSimple (pkt_fill_memory a l p) | CEraseRegion a l => FSimple (CT_FLASH_ERASE_REGION, CF_NONE, [a; l; 0])
  | CEraseAll m => FSimple (pkt_flash_erase_all m) | CSetProp t v => FSimple (pkt_set_property t v) | CGetProp t i => FGetProp t i
  | CReceiveSb d => FOut (pkt_receive_sb_file d) d | CProgramOnce i v => FSimple (pkt_efuse_program_once i v)
  | CReadOnce i c => FReadOnce i c | CKpWriteStore d => FOut (pkt_kp_write_key_store d) d | CKpReadStore => FIn pkt_kp_read_key_store 6
  | CWrite a d => FOut (CT_WRITE_MEMORY, CF_HAS_DATA_PHASE, [a; nlen d; 0]) d | CReadFast a l => FIn (CT_READ_MEMORY, CF_NONE, [a; l; 0]) 3
  end.

Section ApiFamilies.
  Variable LE : Type.
  Variable LI : iface LE.
  Variable ce : bool.

  Lemma efuse_program_once_noverify idx v s :
    efuse_program_once LE LI ce idx v false s = simple LE LI ce (pkt_efuse_program_once idx v) s.
  Proof.
    unfold efuse_program_once, simple, mbind. destruct (process_cmd LE LI ce (pkt_efuse_program_once idx v) s) as [[rs|x] s1]; [|reflexivity].
    destruct (is_success rs); reflexivity.
  Qed.

  Lemma api_fcall fuel x s : api LE LI ce fuel (fcall_call x) s = run_fop LE LI ce fuel (fcall_fop x) s.
  Proof.
    destruct x; cbn [fcall_call fcall_fop run_fop]; try reflexivity.
    - unfold api. cbn [nth]. apply efuse_program_once_noverify.
    - unfold api. cbn [nth]. unfold read_memory. rewrite andb_false_r. reflexivity.
  Qed.

  Lemma session_fcalls fuel : forall xs s,
    session LE LI ce fuel (map fcall_call xs) s = fsession LE LI ce fuel (map fcall_fop xs) s.
  Proof.
    induction xs as [|x t IH]; intros s; [reflexivity|]. cbn [map session fsession]. rewrite api_fcall.
    destruct (run_fop LE LI ce fuel (fcall_fop x) s) as [r s1]. rewrite IH. reflexivity.
  Qed.
End ApiFamilies.

(* FAULTFREE_REFINES_SPEC for McuBoot API call sequences of all families, on both transports *)
Lemma faultfree_api_serial ce fuel xs c st out cons :
  0 < dc_mps c -> dc_mps c <= 65535 -> fops_ok 65535 ce fuel c (map fcall_fop xs) ->
  exists out' cons' st',
    session _ (serial_iface sdev sdev_recv) ce fuel (map fcall_call xs) (mkMbs _ st (Some (dc_mps c)) (live_env c [] [] out cons)) =
    (fst (spec_fops ce c (map fcall_fop xs)),
     mkMbs _ st' (Some (dc_mps c)) (live_env (snd (spec_fops ce c (map fcall_fop xs))) [] [] out' cons')).
Proof. intros. rewrite session_fcalls. apply faultfree_families_serial; assumption. Qed.

Lemma faultfree_api_hid ce fuel xs c st out cons :
  0 < dc_mps c -> dc_mps c <= HID_MAXC -> fops_ok HID_MAXC ce fuel c (map fcall_fop xs) ->
  exists out' cons' st',
    session _ (hid_iface dcore hdev_recv) ce fuel (map fcall_call xs) (mkMbs _ st (Some (dc_mps c)) (mkHenv dcore c [] out cons)) =
    (fst (spec_fops ce c (map fcall_fop xs)),
     mkMbs _ st' (Some (dc_mps c)) (mkHenv dcore (snd (spec_fops ce c (map fcall_fop xs))) [] out' cons')).
Proof. intros. rewrite session_fcalls. apply faultfree_families_hid; assumption. Qed.

(* non-vacuity: a device and a call list of six families that satisfy the side conditions on both transports *)
Definition ex_core : dcore :=
  mkCore 4096 (repeat 7 64) 8 [(10, [1]); (11, [8])] [] [1; 2; 3] [] [] [] [] [] None [].
Definition ex_calls : list fcall :=
  [CFill 4096 8 2864434397; CSetProp 10 5; CGetProp 10 0; CReceiveSb [1; 2; 3; 4; 5; 6; 7; 8; 9; 10; 11]; CKpWriteStore [9; 9; 9]; CKpReadStore].
Lemma LT : forall a b : N, (a ?= b) = Lt -> a < b. Proof. intros a b E; exact E. Qed.
Example families_instance (maxc : N) (H : 16 <= maxc) : fops_ok maxc false 100 ex_core (map fcall_fop ex_calls).
Proof.
  unfold ex_calls. cbn [map fcall_fop fops_ok].
  split; [|split; [|split; [|split; [|split; [|split; [|exact I]]]]]].
  - (apply fill_ok; try exact H; try (apply LT; reflexivity); try reflexivity; split; reflexivity).
  - (apply set_property_ok; try exact H; try (apply LT; vm_compute; reflexivity); try (vm_compute; reflexivity); split; vm_compute; reflexivity).
  - eapply (fun a b c d e => proj1 (get_property_ok maxc H 100 _ _ _ a b c d e)).
    + split; vm_compute; reflexivity.
    + vm_compute; reflexivity.
    + apply LT; reflexivity.
    + apply LT; reflexivity.
    + intros vals E. vm_compute in E. injection E as <-. split; [repeat constructor; apply LT; reflexivity|]. cbn. lia.
  - (eapply (fun a b c => proj1 (receive_sb_ok maxc H 100 false _ _ a b c)); try (apply LT; vm_compute; reflexivity); try discriminate; split; vm_compute; reflexivity).
  - (eapply (fun a b c => proj1 (kp_write_key_store_ok maxc H 100 false _ _ a b c)); try (apply LT; vm_compute; reflexivity); try discriminate; split; vm_compute; reflexivity).
  - (eapply (fun a b c d => proj1 (kp_read_key_store_ok maxc H 100 false _ a b c d)); try (apply LT; vm_compute; reflexivity); try (vm_compute; reflexivity); [split; vm_compute; reflexivity|]).
    vm_compute. lia.
Qed.
Example families_instance_result :
  fst (spec_fops false ex_core (map fcall_fop ex_calls)) =
  [(ROk (AVBool true), 0); (ROk (AVBool true), 0); (ROk (AVInts [5]), 0); (ROk (AVBool true), 0); (ROk (AVBool true), 0); (ROk (AVBytes [9; 9; 9]), 0)].
Proof. vm_compute. reflexivity. Qed.
