(* Proofs/SigEncProofs.v -- lemmas about Model/SigEncModel.v (C08). *)
From Coq Require Import ZArith NArith List Bool Lia.
Require Import Value Bytes BytesProofs GenSigEnc SigEncModel.
Import ListNotations.
Ltac Zify.zify_post_hook ::= Z.to_euclidean_division_equations.

(* ====================================================================================== *)
(* big-endian encoder: head/tail decomposition                                              *)
(* ====================================================================================== *)
Local Open Scope N_scope.

Lemma be_enc_snoc w n : be_enc (S w) n = be_enc w (n / 256) ++ [n mod 256].
Proof. unfold be_enc. cbn [le_enc rev]. reflexivity. Qed.

Lemma pow256_succ w : 256 ^ N.of_nat (S w) = 256 * 256 ^ N.of_nat w.
Proof. rewrite Nat2N.inj_succ, N.pow_succ_r'. reflexivity. Qed.

Lemma pow256_pos w : 0 < 256 ^ N.of_nat w.
Proof. apply N.neq_0_lt_0. apply N.pow_nonzero. discriminate. Qed.

Lemma be_enc_cons w n :
  be_enc (S w) n = ((n / 256 ^ N.of_nat w) mod 256) :: be_enc w (n mod 256 ^ N.of_nat w).
Proof.
  revert n. induction w as [|w IH]; intros n.
  - cbn. rewrite N.div_1_r. reflexivity.
  - rewrite be_enc_snoc. rewrite IH. rewrite (be_enc_snoc w).
    cbn [app]. rewrite pow256_succ.
    pose proof (pow256_pos w) as HP. set (P := 256 ^ N.of_nat w) in *.
    assert (E1 : n / 256 / P = n / (256 * P)) by (rewrite N.div_div by lia; reflexivity).
    assert (HA : n mod 256 < 256) by (apply N.mod_lt; lia).
    assert (E3 : (n mod (256 * P)) / 256 = (n / 256) mod P).
    { rewrite N.mod_mul_r by lia. symmetry. apply (N.div_unique _ 256 _ (n mod 256)); lia. }
    assert (E4 : (n mod (256 * P)) mod 256 = n mod 256).
    { rewrite N.mod_mul_r by lia. symmetry. apply (N.mod_unique _ 256 ((n / 256) mod P)); lia. }
    rewrite E1, E3, E4. reflexivity.
Qed.

Lemma pow256_pow2 w : 256 ^ N.of_nat w = 2 ^ (8 * N.of_nat w).
Proof. rewrite N.pow_mul_r. reflexivity. Qed.

(* the shift-based encoder of the model is the library encoder *)
Lemma le_enc_f_eq w n : le_enc_f w n = le_enc w n.
Proof.
  revert n; induction w as [|w IH]; intros n; [reflexivity|].
  cbn [le_enc_f le_enc]. rewrite IH. f_equal.
  - change 255 with (N.ones 8). rewrite N.land_ones. reflexivity.
  - rewrite N.shiftr_div_pow2. reflexivity.
Qed.

Lemma be_enc_f_eq w n : be_enc_f w n = be_enc w n.
Proof. unfold be_enc_f, be_enc. rewrite le_enc_f_eq. reflexivity. Qed.

(* ====================================================================================== *)
(* bit sizes                                                                                *)
(* ====================================================================================== *)
Lemma size_upper n : n < 2 ^ N.size n.
Proof. apply N.size_gt. Qed.

Lemma size_lower n : n <> 0 -> 2 ^ (N.size n - 1) <= n.
Proof.
  intros Hn. pose proof (N.size_le n) as H.
  assert (Hs : N.size n <> 0).
  { destruct n; [contradiction|]. simpl. discriminate. }
  replace (N.size n) with (N.succ (N.size n - 1)) in H by lia.
  rewrite N.pow_succ_r' in H.
  destruct n as [|p]; [contradiction|]. simpl N.succ_double in H. lia.
Qed.

Lemma size_le_pow n k : n < 2 ^ k -> N.size n <= k.
Proof.
  intros H. destruct (N.eq_dec n 0) as [->|Hn]; [simpl; lia|].
  destruct (N.le_gt_cases (N.size n) k) as [|Hgt]; [assumption|exfalso].
  pose proof (size_lower n Hn) as HL.
  assert (2 ^ k <= 2 ^ (N.size n - 1)) by (apply N.pow_le_mono_r; lia). lia.
Qed.

Lemma size_ge_pow n k : 2 ^ k <= n -> k < N.size n.
Proof.
  intros H. destruct (N.lt_ge_cases k (N.size n)) as [|Hge]; [assumption|exfalso].
  pose proof (size_upper n).
  assert (2 ^ N.size n <= 2 ^ k) by (apply N.pow_le_mono_r; lia). lia.
Qed.

(* ====================================================================================== *)
(* DER INTEGER content                                                                      *)
(* ====================================================================================== *)
Definition int_len (n : N) : nat := N.to_nat (N.size n / 8 + 1).

Lemma der_int_content_length n : length (der_int_content n) = int_len n.
Proof. unfold der_int_content, int_len. rewrite be_enc_f_eq. apply be_enc_length. Qed.

Lemma pow2_split a b : 2 ^ (a + b) = 2 ^ a * 2 ^ b.
Proof. apply N.pow_add_r. Qed.

Lemma der_int_content_val n : der_uint_val (der_int_content n) = Some n.
Proof.
  unfold der_int_content. rewrite be_enc_f_eq.
  remember (N.size n / 8) as q eqn:Hq.
  assert (Hlo : 8 * q <= N.size n) by lia.
  assert (Hhi : N.size n < 8 * q + 8) by lia.
  replace (N.to_nat (q + 1)) with (S (N.to_nat q)) by lia.
  set (w := N.to_nat q).
  assert (Hw : N.of_nat w = q) by (unfold w; lia).
  pose proof (size_upper n) as HU.
  assert (Hn7 : n < 2 ^ (8 * q + 7)).
  { eapply N.lt_le_trans; [exact HU|]. apply N.pow_le_mono_r; lia. }
  assert (Hfull : n < 2 ^ (8 * N.of_nat (S w))).
  { eapply N.lt_le_trans; [exact HU|]. apply N.pow_le_mono_r; lia. }
  assert (Hval : be_dec (be_enc (S w) n) = n) by (apply be_dec_enc_small; exact Hfull).
  rewrite be_enc_cons in *. rewrite pow256_pow2, Hw in *.
  assert (HP : 0 < 2 ^ (8 * q)) by (apply N.neq_0_lt_0, N.pow_nonzero; discriminate).
  assert (Hhd : n / 2 ^ (8 * q) < 128).
  { apply N.div_lt_upper_bound; [lia|]. rewrite pow2_split in Hn7. change (2 ^ 7) with 128 in Hn7. lia. }
  assert (Hhd' : (n / 2 ^ (8 * q)) mod 256 = n / 2 ^ (8 * q)) by (apply N.mod_small; lia).
  rewrite Hhd' in *.
  destruct w as [|w'].
  - (* one byte *)
    cbn [be_enc le_enc rev] in *. unfold be_enc. cbn [le_enc rev]. cbn [der_uint_val].
    apply N.ltb_lt in Hhd. rewrite Hhd.
    f_equal. unfold be_dec in Hval. cbn [rev app le_dec] in Hval. lia.
  - rewrite be_enc_cons in *. cbn [der_uint_val].
    pose proof Hhd as Hhdb. apply N.ltb_lt in Hhdb. rewrite Hhdb.
    destruct (N.eqb_spec (n / 2 ^ (8 * q)) 0) as [Hz|Hnz]; cbn [andb].
    + (* leading 0x00: the next byte has its top bit set *)
      assert (Hsmall : n < 2 ^ (8 * q)).
      { destruct (N.lt_ge_cases n (2 ^ (8 * q))) as [|Hge]; [assumption|exfalso].
        assert (1 <= n / 2 ^ (8 * q)) by (apply N.div_le_lower_bound; lia). lia. }
      assert (Hq1 : q = N.of_nat w' + 1) by lia.
      rewrite (N.mod_small n) by assumption.
      rewrite pow256_pow2.
      assert (Hn0 : n <> 0).
      { intros Hn0. rewrite Hn0 in Hlo. change (N.size 0) with 0 in Hlo. lia. }
      pose proof (size_lower n Hn0) as HL.
      assert (HL2 : 2 ^ (8 * N.of_nat w' + 7) <= n).
      { eapply N.le_trans; [|exact HL]. apply N.pow_le_mono_r; lia. }
      assert (HP' : 0 < 2 ^ (8 * N.of_nat w')) by (apply N.neq_0_lt_0, N.pow_nonzero; discriminate).
      assert (Hb1 : 128 <= n / 2 ^ (8 * N.of_nat w')).
      { apply N.div_le_lower_bound; [lia|]. rewrite pow2_split in HL2. change (2 ^ 7) with 128 in HL2. lia. }
      assert (Hb2 : n / 2 ^ (8 * N.of_nat w') < 256).
      { apply N.div_lt_upper_bound; [lia|]. rewrite Hq1 in Hsmall.
        replace (8 * (N.of_nat w' + 1)) with (8 * N.of_nat w' + 8) in Hsmall by lia.
        rewrite pow2_split in Hsmall. change (2 ^ 8) with 256 in Hsmall. lia. }
      rewrite (N.mod_small _ 256) by assumption.
      assert (Hf : (n / 2 ^ (8 * N.of_nat w') <? 128) = false) by (apply N.ltb_ge; lia).
      rewrite Hf.
      rewrite (N.mod_small n) in Hval by assumption.
      rewrite pow256_pow2 in Hval. rewrite (N.mod_small _ 256) in Hval by assumption.
      rewrite Hval. reflexivity.
    + rewrite Hval. reflexivity.
Qed.

(* ====================================================================================== *)
(* DER lengths and TLVs                                                                     *)
(* ====================================================================================== *)
Lemma firstn_app_exact {A} (a b : list A) n : n = length a -> firstn n (a ++ b) = a.
Proof. intros ->. rewrite firstn_app, Nat.sub_diag, firstn_all. simpl. apply app_nil_r. Qed.

Lemma skipn_app_exact {A} (a b : list A) n : n = length a -> skipn n (a ++ b) = b.
Proof. intros ->. rewrite skipn_app, Nat.sub_diag, skipn_all. reflexivity. Qed.

Lemma read_len_bytes n rest :
  n < 2 ^ 32 -> read_len (der_len_bytes n ++ rest) = Some (n, rest).
Proof.
  intros Hn. unfold der_len_bytes. rewrite be_enc_f_eq.
  destruct (N.ltb_spec n 128) as [Hs|Hl].
  - cbn [app read_len]. apply N.ltb_lt in Hs. rewrite Hs. reflexivity.
  - set (k := (N.size n + 7) / 8).
    assert (Hsz1 : 8 <= N.size n).
    { assert (7 < N.size n) by (apply size_ge_pow; change (2 ^ 7) with 128; lia). lia. }
    assert (Hsz2 : N.size n <= 32) by (apply size_le_pow; exact Hn).
    assert (Hk1 : 1 <= k) by (unfold k; lia).
    assert (Hk4 : k <= 4) by (unfold k; lia).
    assert (Hk8 : N.size n <= 8 * k) by (unfold k; lia).
    assert (Hk8' : 8 * (k - 1) < N.size n) by (unfold k; lia).
    assert (Hkk : N.of_nat (N.to_nat k) = k) by lia.
    cbn [app read_len]. rewrite Hkk.
    assert (E0 : (128 + k <? 128) = false) by (apply N.ltb_ge; lia). rewrite E0.
    replace (128 + k - 128) with k by lia.
    assert (E1 : ((1 <=? k) && (k <=? 4)) = true).
    { apply andb_true_iff; split; apply N.leb_le; lia. }
    rewrite E1.
    assert (E2 : (nlen (be_enc (N.to_nat k) n ++ rest) <? k) = false).
    { apply N.ltb_ge. unfold nlen. rewrite app_length, be_enc_length. lia. }
    rewrite E2.
    rewrite firstn_app_exact by (rewrite be_enc_length; reflexivity).
    rewrite skipn_app_exact by (rewrite be_enc_length; reflexivity).
    assert (E3 : be_dec (be_enc (N.to_nat k) n) = n).
    { apply be_dec_enc_small. rewrite Hkk. eapply N.lt_le_trans; [apply size_upper|].
      apply N.pow_le_mono_r; lia. }
    rewrite E3.
    assert (E4 : (n <? min_long_len k) = false).
    { apply N.ltb_ge. unfold min_long_len. destruct (N.eqb_spec k 1) as [|Hk]; [lia|].
      assert (n <> 0) by lia.
      eapply N.le_trans; [|apply size_lower; assumption]. apply N.pow_le_mono_r; lia. }
    rewrite E4. reflexivity.
Qed.

Lemma read_tlv_tlv tag c rest :
  nlen c < 2 ^ 32 -> read_tlv tag (der_tlv tag c ++ rest) = Some (c, rest).
Proof.
  intros Hc. unfold der_tlv. cbn [app read_tlv]. rewrite N.eqb_refl.
  rewrite <- app_assoc. rewrite read_len_bytes by exact Hc.
  assert (E : (nlen (c ++ rest) <? nlen c) = false).
  { apply N.ltb_ge. unfold nlen. rewrite app_length. lia. }
  rewrite E.
  rewrite firstn_app_exact by (unfold nlen; lia).
  rewrite skipn_app_exact by (unfold nlen; lia). reflexivity.
Qed.

Definition der_body (r s : N) : list N := der_tlv 2 (der_int_content r) ++ der_tlv 2 (der_int_content s).

Lemma der_tlv_length_ge tag c : (length c < length (der_tlv tag c))%nat.
Proof. unfold der_tlv. cbn [length]. rewrite app_length. lia. Qed.

(* decode_dss (encode_dss r s) = (r, s) for every r, s whose encoding stays below the 4-byte length limit
   of the decoder (4 GiB) *)
Lemma der_roundtrip_N r s :
  nlen (der_body r s) < 2 ^ 32 -> decode_dss (der_sig r s) = Some (r, s).
Proof.
  intros Hb. unfold der_sig. fold (der_body r s).
  unfold decode_dss.
  rewrite <- (app_nil_r (der_tlv 48 (der_body r s))).
  rewrite read_tlv_tlv by exact Hb.
  assert (Hr : nlen (der_int_content r) < 2 ^ 32).
  { eapply N.le_lt_trans; [|exact Hb]. unfold der_body, nlen. rewrite app_length.
    pose proof (der_tlv_length_ge 2 (der_int_content r)). lia. }
  assert (Hs : nlen (der_int_content s) < 2 ^ 32).
  { eapply N.le_lt_trans; [|exact Hb]. unfold der_body, nlen. rewrite app_length.
    pose proof (der_tlv_length_ge 2 (der_int_content s)). lia. }
  unfold der_body. rewrite read_tlv_tlv by exact Hr.
  rewrite <- (app_nil_r (der_tlv 2 (der_int_content s))).
  rewrite read_tlv_tlv by exact Hs.
  rewrite !der_int_content_val. reflexivity.
Qed.

(* ====================================================================================== *)
(* Python int.to_bytes / from_bytes                                                         *)
(* ====================================================================================== *)
Local Open Scope Z_scope.

Lemma pow_N2Z (w : Z) : 0 <= w -> Z.of_N (2 ^ (8 * N.of_nat (Z.to_nat w)))%N = 2 ^ (8 * w).
Proof.
  intros Hw. rewrite N2Z.inj_pow. rewrite N2Z.inj_mul. rewrite nat_N_Z. rewrite Z2Nat.id by assumption. reflexivity.
Qed.

Lemma to_N_lt_pow v w : 0 <= v -> 0 <= w -> v < 2 ^ (8 * w) -> (Z.to_N v < 2 ^ (8 * N.of_nat (Z.to_nat w)))%N.
Proof.
  intros Hv Hw H. apply N2Z.inj_lt. rewrite Z2N.id by assumption. rewrite pow_N2Z by assumption. exact H.
Qed.

Lemma to_bytes_be_ok v w :
  0 <= v -> 0 <= w -> v < 2 ^ (8 * w) -> to_bytes_be v w = Ok (be_enc (Z.to_nat w) (Z.to_N v)).
Proof.
  intros Hv Hw H. unfold to_bytes_be. rewrite Z.shiftl_1_l.
  assert (E1 : (v <? 0) || (w <? 0) = false).
  { apply orb_false_iff; split; apply Z.ltb_ge; assumption. }
  rewrite E1.
  assert (E2 : (2 ^ (8 * w) <=? v) = false) by (apply Z.leb_gt; exact H).
  rewrite E2. rewrite be_enc_f_eq. reflexivity.
Qed.

Lemma from_bytes_be_enc v w :
  0 <= v -> 0 <= w -> v < 2 ^ (8 * w) -> from_bytes_be (be_enc (Z.to_nat w) (Z.to_N v)) = v.
Proof.
  intros Hv Hw H. unfold from_bytes_be. rewrite be_dec_enc_small by (apply to_N_lt_pow; assumption).
  apply Z2N.id. exact Hv.
Qed.

Lemma to_bytes_be_length v w b : to_bytes_be v w = Ok b -> zlen b = w.
Proof.
  unfold to_bytes_be. destruct ((v <? 0) || (w <? 0)) eqn:E1; [discriminate|].
  destruct (Z.shiftl 1 (8 * w) <=? v); [discriminate|]. intros H. inversion H; subst.
  apply orb_false_iff in E1 as [_ E1]. apply Z.ltb_ge in E1.
  unfold zlen. rewrite be_enc_f_eq, be_enc_length. apply Z2Nat.id. exact E1.
Qed.

Lemma take_app_exact {A} (a b : list A) n : n = zlen a -> take n (a ++ b) = a.
Proof. intros ->. unfold take, zlen. rewrite Nat2Z.id. apply firstn_app_exact. reflexivity. Qed.

Lemma drop_app_exact {A} (a b : list A) n : n = zlen a -> drop n (a ++ b) = b.
Proof. intros ->. unfold drop, zlen. rewrite Nat2Z.id. apply skipn_app_exact. reflexivity. Qed.

Lemma zlen_app {A} (a b : list A) : zlen (a ++ b) = zlen a + zlen b.
Proof. unfold zlen. rewrite app_length. lia. Qed.

(* ====================================================================================== *)
(* length of a DER signature                                                                *)
(* ====================================================================================== *)
Definition lenlen (n : Z) : Z := if n <? 128 then 1 else 1 + (Z.of_N (N.size (Z.to_N n)) + 7) / 8.
Definition tlvlen (n : Z) : Z := 1 + lenlen n + n.
Definition zint_len (n : N) : Z := Z.of_N (N.size n) / 8 + 1.

Lemma zlen_der_int_content n : zlen (der_int_content n) = zint_len n.
Proof.
  unfold zlen. rewrite der_int_content_length. unfold int_len, zint_len.
  rewrite N_nat_Z. rewrite N2Z.inj_add, N2Z.inj_div. reflexivity.
Qed.

Lemma zlen_der_tlv tag c : zlen (der_tlv tag c) = tlvlen (zlen c).
Proof.
  unfold der_tlv, tlvlen, lenlen, der_len_bytes, nlen, zlen. rewrite be_enc_f_eq. cbn [length]. rewrite app_length.
  destruct (N.ltb_spec (N.of_nat (length c)) 128) as [H|H].
  - assert (E : (Z.of_nat (length c) <? 128) = true) by (apply Z.ltb_lt; lia). rewrite E. cbn [length]. lia.
  - assert (E : (Z.of_nat (length c) <? 128) = false) by (apply Z.ltb_ge; lia). rewrite E.
    cbn [length]. rewrite be_enc_length.
    replace (Z.to_N (Z.of_nat (length c))) with (N.of_nat (length c)) by lia.
    assert (EX : Z.of_nat (N.to_nat ((N.size (N.of_nat (length c)) + 7) / 8))
                 = (Z.of_N (N.size (N.of_nat (length c))) + 7) / 8).
    { rewrite N_nat_Z, N2Z.inj_div, N2Z.inj_add. reflexivity. }
    lia.
Qed.

Lemma zlen_der_sig r s :
  zlen (der_sig r s) = tlvlen (tlvlen (zint_len r) + tlvlen (zint_len s)).
Proof.
  unfold der_sig. rewrite zlen_der_tlv, zlen_app, !zlen_der_tlv, !zlen_der_int_content. reflexivity.
Qed.

Lemma tlvlen_gt n : 0 <= n -> n + 2 <= tlvlen n.
Proof.
  intros H. unfold tlvlen, lenlen. destruct (n <? 128); [lia|].
  assert (0 <= Z.of_N (N.size (Z.to_N n))) by lia. lia.
Qed.

Lemma zint_len_pos n : 1 <= zint_len n.
Proof. unfold zint_len. assert (0 <= Z.of_N (N.size n)) by lia. lia. Qed.

(* a DER signature shorter than 4 GiB decodes to the numbers it was made from *)
Lemma der_roundtrip_len r s :
  zlen (der_sig r s) < 2 ^ 32 -> decode_dss (der_sig r s) = Some (r, s).
Proof.
  intros H. apply der_roundtrip_N.
  unfold der_sig in H. rewrite zlen_der_tlv in H. fold (der_body r s) in H.
  pose proof (tlvlen_gt (zlen (der_body r s))) as HG.
  assert (0 <= zlen (der_body r s)) by (unfold zlen; lia).
  unfold nlen. unfold zlen in *.
  apply N2Z.inj_lt. rewrite nat_N_Z. change (Z.of_N (2 ^ 32)) with (2 ^ 32). lia.
Qed.

(* ====================================================================================== *)
(* ECDSASignature sniffing                                                                  *)
(* ====================================================================================== *)
(* the DER length window in which get_ecc_curve recognises curve cv *)
Definition in_window (cv L : Z) : bool :=
  match lookup sig_coord_lengths cv with
  | Some c => (c * sig_win_mul_lo + sig_win_lo <=? L) && (L <? c * sig_win_mul_hi + sig_win_hi)
  | None => false
  end.
(* lengths that get_encoding takes for the raw format *)
Definition is_raw_len (L : Z) : bool := existsb (fun p => snd p =? L / sig_enc_div) sig_coord_lengths.
(* supported curve ids with their coordinate length and key size *)
Definition curve_ok (cv c ks : Z) : Prop :=
  (cv = 0 /\ c = 32 /\ ks = 256) \/ (cv = 1 /\ c = 48 /\ ks = 384) \/ (cv = 2 /\ c = 66 /\ ks = 521).

Lemma lookup_cases cv c :
  lookup sig_coord_lengths cv = Some c -> (cv = 0 /\ c = 32) \/ (cv = 1 /\ c = 48) \/ (cv = 2 /\ c = 66).
Proof.
  unfold sig_coord_lengths. cbn [lookup].
  destruct (Z.eqb_spec 0 cv); [intros H; inversion H; lia|].
  destruct (Z.eqb_spec 1 cv); [intros H; inversion H; lia|].
  destruct (Z.eqb_spec 2 cv); [intros H; inversion H; lia|]. discriminate.
Qed.

Lemma curve_ok_tables cv c ks :
  curve_ok cv c ks <-> (lookup sig_coord_lengths cv = Some c /\ lookup ecc_curves cv = Some ks).
Proof.
  split.
  - intros [(-> & -> & ->)|[(-> & -> & ->)|(-> & -> & ->)]]; split; reflexivity.
  - intros [H1 H2]. apply lookup_cases in H1.
    destruct H1 as [[-> ->]|[[-> ->]|[-> ->]]]; vm_compute in H2; inversion H2; subst; unfold curve_ok; tauto.
Qed.

Ltac zenum L lo hi :=
  let rec go k :=
    (first [ (assert (L = k) by lia; subst L) |
             (destruct (Z.eq_dec L k) as [?|?]; [subst L | go (k + 1)%Z]) ]) in
  idtac.

Lemma window_sniff cv L :
  in_window cv L = true -> is_raw_len L = false /\ sig_get_ecc_curve L = Ok cv.
Proof.
  unfold in_window. destruct (lookup sig_coord_lengths cv) as [c|] eqn:E; [|discriminate].
  apply lookup_cases in E. intros H. apply andb_true_iff in H as [H1 H2].
  apply Z.leb_le in H1. apply Z.ltb_lt in H2.
  destruct E as [[-> ->]|[[-> ->]|[-> ->]]].
  - change (32 * sig_win_mul_lo + sig_win_lo) with 67 in H1. change (32 * sig_win_mul_hi + sig_win_hi) with 73 in H2.
    assert (HL : L = 67 \/ L = 68 \/ L = 69 \/ L = 70 \/ L = 71 \/ L = 72) by lia.
    destruct HL as [->|[->|[->|[->|[->| ->]]]]]; split; reflexivity.
  - change (48 * sig_win_mul_lo + sig_win_lo) with 99 in H1. change (48 * sig_win_mul_hi + sig_win_hi) with 105 in H2.
    assert (HL : L = 99 \/ L = 100 \/ L = 101 \/ L = 102 \/ L = 103 \/ L = 104) by lia.
    destruct HL as [->|[->|[->|[->|[->| ->]]]]]; split; reflexivity.
  - change (66 * sig_win_mul_lo + sig_win_lo) with 135 in H1. change (66 * sig_win_mul_hi + sig_win_hi) with 141 in H2.
    assert (HL : L = 135 \/ L = 136 \/ L = 137 \/ L = 138 \/ L = 139 \/ L = 140) by lia.
    destruct HL as [->|[->|[->|[->|[->| ->]]]]]; split; reflexivity.
Qed.

Lemma in_window_small cv L : in_window cv L = true -> L < 2 ^ 32.
Proof.
  unfold in_window. destruct (lookup sig_coord_lengths cv) as [c|] eqn:E; [|discriminate].
  apply lookup_cases in E. intros H. apply andb_true_iff in H as [_ H2]. apply Z.ltb_lt in H2.
  destruct E as [[-> ->]|[[-> ->]|[-> ->]]].
  - change (32 * sig_win_mul_hi + sig_win_hi) with 73 in H2. change (2 ^ 32) with 4294967296. lia.
  - change (48 * sig_win_mul_hi + sig_win_hi) with 105 in H2. change (2 ^ 32) with 4294967296. lia.
  - change (66 * sig_win_mul_hi + sig_win_hi) with 141 in H2. change (2 ^ 32) with 4294967296. lia.
Qed.

(* parse of a DER signature whose length lies in the window of its curve *)
Lemma sig_parse_der_in_window r s cv :
  in_window cv (zlen (der_sig r s)) = true ->
  sig_parse (der_sig r s) = Ok (Z.of_N r, Z.of_N s, cv).
Proof.
  intros HW. pose proof (window_sniff _ _ HW) as [HR HC].
  pose proof (der_roundtrip_len r s (in_window_small _ _ HW)) as HD.
  unfold sig_parse, sig_get_encoding. fold (is_raw_len (zlen (der_sig r s))).
  rewrite HR, HD. cbn [Z.eqb Pos.eqb]. rewrite HC. reflexivity.
Qed.

Lemma sniff_sound_der r s cv :
  0 <= r -> 0 <= s ->
  in_window cv (zlen (der_sig (Z.to_N r) (Z.to_N s))) = true ->
  sig_parse_export r s cv 1 = Ok (r, s, cv).
Proof.
  intros Hr Hs HW. unfold sig_parse_export, sig_export. cbn [Z.eqb Pos.eqb].
  unfold encode_dss.
  assert (E : (r <? 0) || (s <? 0) = false) by (apply orb_false_iff; split; apply Z.ltb_ge; assumption).
  rewrite E. cbn [bind]. rewrite (sig_parse_der_in_window _ _ cv) by exact HW.
  rewrite !Z2N.id by assumption. reflexivity.
Qed.

(* ---------- raw r||s ---------- *)
Lemma sig_parse_raw c cv rb sb :
  (cv = 0 /\ c = 32) \/ (cv = 1 /\ c = 48) \/ (cv = 2 /\ c = 66) ->
  zlen rb = c -> zlen sb = c ->
  sig_parse (rb ++ sb) = Ok (from_bytes_be rb, from_bytes_be sb, cv).
Proof.
  intros HC Hrb Hsb.
  assert (HL : zlen (rb ++ sb) = 2 * c) by (rewrite zlen_app; lia).
  unfold sig_parse, sig_get_encoding. rewrite HL.
  assert (Hdiv1 : 2 * c / sig_parse_div1 = c) by (change sig_parse_div1 with 2; lia).
  assert (Hdiv2 : 2 * c / sig_parse_div2 = c) by (change sig_parse_div2 with 2; lia).
  rewrite Hdiv1, Hdiv2.
  rewrite take_app_exact by (symmetry; exact Hrb).
  rewrite drop_app_exact by (symmetry; exact Hrb).
  destruct HC as [[-> ->]|[[-> ->]|[-> ->]]]; reflexivity.
Qed.

Lemma raw_roundtrip_lemma r s cv c ks :
  curve_ok cv c ks -> 0 <= r < 2 ^ (8 * c) -> 0 <= s < 2 ^ (8 * c) ->
  sig_parse_export r s cv 0 = Ok (r, s, cv).
Proof.
  intros HC [Hr0 Hr] [Hs0 Hs].
  assert (Hc0 : 0 <= c) by (destruct HC as [(_ & -> & _)|[(_ & -> & _)|(_ & -> & _)]]; lia).
  assert (HL : lookup sig_coord_lengths cv = Some c) by (apply (curve_ok_tables cv c ks); exact HC).
  unfold sig_parse_export, sig_export. cbn [Z.eqb]. rewrite HL.
  rewrite !to_bytes_be_ok by assumption. cbn [bind].
  rewrite (sig_parse_raw c cv).
  - rewrite !from_bytes_be_enc by assumption. reflexivity.
  - destruct HC as [(-> & -> & _)|[(-> & -> & _)|(-> & -> & _)]]; tauto.
  - unfold zlen. rewrite be_enc_length. lia.
  - unfold zlen. rewrite be_enc_length. lia.
Qed.

(* ---------- DER length from the magnitude of r and s ---------- *)
Lemma zint_len_bounds n k :
  (2 ^ (8 * k) <= n < 2 ^ (8 * k + 16))%N -> Z.of_N k + 1 <= zint_len n <= Z.of_N k + 3.
Proof.
  intros [H1 H2]. unfold zint_len.
  assert (8 * k < N.size n)%N by (apply size_ge_pow; exact H1).
  assert (N.size n <= 8 * k + 16)%N by (apply size_le_pow; exact H2).
  lia.
Qed.

Lemma size_bounds_Z r lo hi :
  0 <= lo -> 2 ^ lo <= r < 2 ^ hi -> lo < Z.of_N (N.size (Z.to_N r)) <= hi.
Proof.
  intros Hlo [H1 H2].
  assert (Hp : 0 < 2 ^ lo) by (apply Z.pow_pos_nonneg; lia).
  assert (Hhi : 0 <= hi).
  { destruct (Z.le_gt_cases 0 hi); [assumption|]. rewrite Z.pow_neg_r in H2 by lia. lia. }
  assert (A : (2 ^ Z.to_N lo <= Z.to_N r)%N).
  { change 2%N with (Z.to_N 2). rewrite <- Z2N.inj_pow by lia. apply Z2N.inj_le; lia. }
  assert (B : (Z.to_N r < 2 ^ Z.to_N hi)%N).
  { change 2%N with (Z.to_N 2). rewrite <- Z2N.inj_pow by lia. apply Z2N.inj_lt; lia. }
  apply size_ge_pow in A. apply size_le_pow in B. lia.
Qed.

Lemma lenlen_small n : n < 128 -> lenlen n = 1.
Proof. intros H. unfold lenlen. apply Z.ltb_lt in H. rewrite H. reflexivity. Qed.

(* r and s with at most one leading zero byte in their fixed-width form always land in the window *)
Lemma typical_in_window r s cv c ks :
  curve_ok cv c ks ->
  2 ^ (8 * (c - 2)) <= r < 2 ^ ks -> 2 ^ (8 * (c - 2)) <= s < 2 ^ ks ->
  in_window cv (zlen (der_sig (Z.to_N r) (Z.to_N s))) = true.
Proof.
  intros HC Hr Hs. rewrite zlen_der_sig. unfold zint_len.
  destruct HC as [(-> & -> & ->)|[(-> & -> & ->)|(-> & -> & ->)]].
  - pose proof (size_bounds_Z r (8 * (32 - 2)) 256 ltac:(lia) Hr) as Br.
    pose proof (size_bounds_Z s (8 * (32 - 2)) 256 ltac:(lia) Hs) as Bs.
    set (a := Z.of_N (N.size (Z.to_N r)) / 8 + 1) in *. set (b := Z.of_N (N.size (Z.to_N s)) / 8 + 1) in *.
    assert (Ha : 31 <= a <= 33) by (unfold a; lia). assert (Hb : 31 <= b <= 33) by (unfold b; lia).
    unfold tlvlen at 2 3. rewrite !lenlen_small by lia.
    unfold tlvlen. rewrite lenlen_small by lia.
    unfold in_window. change (lookup sig_coord_lengths 0) with (Some 32). cbv beta iota.
    change (32 * sig_win_mul_lo + sig_win_lo) with 67. change (32 * sig_win_mul_hi + sig_win_hi) with 73.
    apply andb_true_iff; split; [apply Z.leb_le|apply Z.ltb_lt]; lia.
  - pose proof (size_bounds_Z r (8 * (48 - 2)) 384 ltac:(lia) Hr) as Br.
    pose proof (size_bounds_Z s (8 * (48 - 2)) 384 ltac:(lia) Hs) as Bs.
    set (a := Z.of_N (N.size (Z.to_N r)) / 8 + 1) in *. set (b := Z.of_N (N.size (Z.to_N s)) / 8 + 1) in *.
    assert (Ha : 47 <= a <= 49) by (unfold a; lia). assert (Hb : 47 <= b <= 49) by (unfold b; lia).
    unfold tlvlen at 2 3. rewrite !lenlen_small by lia.
    unfold tlvlen. rewrite lenlen_small by lia.
    unfold in_window. change (lookup sig_coord_lengths 1) with (Some 48). cbv beta iota.
    change (48 * sig_win_mul_lo + sig_win_lo) with 99. change (48 * sig_win_mul_hi + sig_win_hi) with 105.
    apply andb_true_iff; split; [apply Z.leb_le|apply Z.ltb_lt]; lia.
  - pose proof (size_bounds_Z r (8 * (66 - 2)) 521 ltac:(lia) Hr) as Br.
    pose proof (size_bounds_Z s (8 * (66 - 2)) 521 ltac:(lia) Hs) as Bs.
    set (a := Z.of_N (N.size (Z.to_N r)) / 8 + 1) in *. set (b := Z.of_N (N.size (Z.to_N s)) / 8 + 1) in *.
    assert (Ha : 65 <= a <= 66) by (unfold a; lia). assert (Hb : 65 <= b <= 66) by (unfold b; lia).
    unfold tlvlen at 2 3. rewrite !lenlen_small by lia.
    assert (HT : 1 + 1 + a + (1 + 1 + b) = 134 \/ 1 + 1 + a + (1 + 1 + b) = 135 \/ 1 + 1 + a + (1 + 1 + b) = 136) by lia.
    destruct HT as [->|[-> | ->]]; reflexivity.
Qed.

(* ---------- D23: the sniffing is not sound for all r, s ---------- *)
Definition r29 : Z := 2 ^ 231 - 5.       (* 29 bytes, top bit clear: DER of (r29, r29) is 64 bytes long *)

Lemma sniff_refuted_small : sig_parse_export 1 1 0 1 = Err 1%N.
Proof. vm_compute. reflexivity. Qed.

Lemma sniff_refuted_rawlen :
  zlen (der_sig (Z.to_N r29) (Z.to_N r29)) = 64 /\
  exists r' s', sig_parse_export r29 r29 0 1 = Ok (r', s', 0) /\ r' <> r29.
Proof.
  split; [vm_compute; reflexivity|].
  eexists. eexists. split; [vm_compute; reflexivity|]. vm_compute. discriminate.
Qed.

(* a P-384 signature whose DER length falls into the P-256 window is attributed to P-256 *)
Definition r31 : Z := 2 ^ 247 - 3.
Lemma sniff_refuted_other_curve : sig_parse_export r31 r31 1 1 = Ok (r31, r31, 0).
Proof. vm_compute. reflexivity. Qed.

Lemma sniff_sound_refuted_lemma :
  exists r s cv c ks, curve_ok cv c ks /\ 0 < r < 2 ^ (8 * c) /\ 0 < s < 2 ^ (8 * c) /\
                      sig_parse_export r s cv 1 <> Ok (r, s, cv).
Proof.
  exists 1, 1, 0, 32, 256. split; [unfold curve_ok; tauto|].
  split; [split; [lia|reflexivity]|]. split; [split; [lia|reflexivity]|].
  rewrite sniff_refuted_small. discriminate.
Qed.

(* ---------- SignatureProvider.get_signature ---------- *)
Lemma sig_export_raw r s cv c ks :
  curve_ok cv c ks -> 0 <= r < 2 ^ (8 * c) -> 0 <= s < 2 ^ (8 * c) ->
  sig_export r s cv 0 = Ok (be_enc (Z.to_nat c) (Z.to_N r) ++ be_enc (Z.to_nat c) (Z.to_N s)).
Proof.
  intros HC [Hr0 Hr] [Hs0 Hs].
  assert (Hc0 : 0 <= c) by (destruct HC as [(_ & -> & _)|[(_ & -> & _)|(_ & -> & _)]]; lia).
  assert (HL : lookup sig_coord_lengths cv = Some c) by (apply (curve_ok_tables cv c ks); exact HC).
  unfold sig_export. cbn [Z.eqb]. rewrite HL. rewrite !to_bytes_be_ok by assumption. reflexivity.
Qed.

Definition raw_sig (c r s : Z) : list N := be_enc (Z.to_nat c) (Z.to_N r) ++ be_enc (Z.to_nat c) (Z.to_N s).

Lemma curve_ok_c cv c ks : curve_ok cv c ks -> (cv = 0 /\ c = 32) \/ (cv = 1 /\ c = 48) \/ (cv = 2 /\ c = 66).
Proof. intros [(-> & -> & _)|[(-> & -> & _)|(-> & -> & _)]]; tauto. Qed.

Lemma sig_parse_raw_sig r s cv c ks :
  curve_ok cv c ks -> 0 <= r < 2 ^ (8 * c) -> 0 <= s < 2 ^ (8 * c) ->
  sig_parse (raw_sig c r s) = Ok (r, s, cv).
Proof.
  intros HC [Hr0 Hr] [Hs0 Hs].
  assert (Hc0 : 0 <= c) by (destruct HC as [(_ & -> & _)|[(_ & -> & _)|(_ & -> & _)]]; lia).
  unfold raw_sig. rewrite (sig_parse_raw c cv).
  - rewrite !from_bytes_be_enc by assumption. reflexivity.
  - eapply curve_ok_c; exact HC.
  - unfold zlen. rewrite be_enc_length. lia.
  - unfold zlen. rewrite be_enc_length. lia.
Qed.

Lemma get_signature_raw r s cv c ks :
  curve_ok cv c ks -> 0 <= r < 2 ^ (8 * c) -> 0 <= s < 2 ^ (8 * c) ->
  get_signature (raw_sig c r s) (-1) = Ok (raw_sig c r s) /\
  get_signature (raw_sig c r s) 0 = Ok (raw_sig c r s) /\
  get_signature (raw_sig c r s) 1 = Ok (der_sig (Z.to_N r) (Z.to_N s)).
Proof.
  intros HC Hr Hs. unfold get_signature.
  rewrite (sig_parse_raw_sig r s cv c ks) by assumption.
  cbn [Z.eqb Pos.eqb]. rewrite (sig_export_raw r s cv c ks) by assumption.
  repeat split. unfold sig_export. cbn [Z.eqb Pos.eqb]. unfold encode_dss.
  assert (E : (r <? 0) || (s <? 0) = false) by (apply orb_false_iff; split; apply Z.ltb_ge; lia).
  rewrite E. reflexivity.
Qed.

Lemma get_signature_der r s cv c ks :
  curve_ok cv c ks -> 0 <= r < 2 ^ (8 * c) -> 0 <= s < 2 ^ (8 * c) ->
  in_window cv (zlen (der_sig (Z.to_N r) (Z.to_N s))) = true ->
  get_signature (der_sig (Z.to_N r) (Z.to_N s)) (-1) = Ok (raw_sig c r s).
Proof.
  intros HC Hr Hs HW. unfold get_signature.
  rewrite (sig_parse_der_in_window _ _ cv) by exact HW.
  rewrite !Z2N.id by lia. cbn [Z.eqb Pos.eqb].
  rewrite (sig_export_raw r s cv c ks) by assumption. reflexivity.
Qed.

Lemma get_signature_refuted :
  get_signature (der_sig 1 1) (-1) = Ok (der_sig 1 1) /\ der_sig 1 1 <> raw_sig 32 1 1.
Proof. split; [vm_compute; reflexivity|vm_compute; discriminate]. Qed.

(* RSA signatures (key_size/8 bytes) are never touched *)
Lemma get_signature_rsa_unchanged sig enc ks :
  In ks rsa_key_sizes -> zlen sig = ks / rsa_sig_div -> get_signature sig enc = Ok sig.
Proof.
  intros Hin HL.
  assert (HP : sig_parse sig = Err 1%N).
  { unfold sig_parse, sig_get_encoding. rewrite HL.
    destruct Hin as [<-|[<-|[<-|[]]]];
      (change (existsb _ sig_coord_lengths) with false; cbv iota;
       destruct (decode_dss sig) as [[r s]|]; [cbn [Z.eqb Pos.eqb]; reflexivity|reflexivity]). }
  unfold get_signature. rewrite HP. reflexivity.
Qed.

(* ---------- PublicKeyEcc.verify_signature re-encoding, PrivateKeyEcc.sign serialisation ---------- *)
Lemma curve_ok_sizes cv c ks :
  curve_ok cv c ks -> coordinate_size ks = c /\ signature_size ks = 2 * c /\ ceil_div ks ecc_verify_div = c.
Proof. intros [(-> & -> & ->)|[(-> & -> & ->)|(-> & -> & ->)]]; repeat split; reflexivity. Qed.

Lemma verify_reencode_raw r s cv c ks :
  curve_ok cv c ks -> 0 <= r < 2 ^ (8 * c) -> 0 <= s < 2 ^ (8 * c) ->
  verify_reencode (raw_sig c r s) ks = Ok (der_sig (Z.to_N r) (Z.to_N s)).
Proof.
  intros HC [Hr0 Hr] [Hs0 Hs].
  assert (Hc0 : 0 <= c) by (destruct HC as [(_ & -> & _)|[(_ & -> & _)|(_ & -> & _)]]; lia).
  destruct (curve_ok_sizes _ _ _ HC) as (_ & H2 & H3).
  unfold verify_reencode. rewrite H2, H3.
  assert (Hlr : zlen (be_enc (Z.to_nat c) (Z.to_N r)) = c) by (unfold zlen; rewrite be_enc_length; lia).
  assert (Hls : zlen (be_enc (Z.to_nat c) (Z.to_N s)) = c) by (unfold zlen; rewrite be_enc_length; lia).
  unfold raw_sig. rewrite zlen_app, Hlr, Hls.
  replace (c + c =? 2 * c) with true by (symmetry; apply Z.eqb_eq; lia).
  rewrite take_app_exact by (symmetry; exact Hlr). rewrite drop_app_exact by (symmetry; exact Hlr).
  rewrite !from_bytes_be_enc by assumption.
  unfold encode_dss.
  assert (E : (r <? 0) || (s <? 0) = false) by (apply orb_false_iff; split; apply Z.ltb_ge; lia).
  rewrite E. reflexivity.
Qed.

Lemma verify_reencode_other sig ks : zlen sig <> signature_size ks -> verify_reencode sig ks = Ok sig.
Proof. intros H. unfold verify_reencode. apply Z.eqb_neq in H. rewrite H. reflexivity. Qed.

Lemma in_window_not_raw_size cv c ks L : curve_ok cv c ks -> in_window cv L = true -> L <> signature_size ks.
Proof.
  intros HC HW. destruct (curve_ok_sizes _ _ _ HC) as (_ & H2 & _). rewrite H2.
  unfold in_window in HW.
  destruct HC as [(-> & -> & ->)|[(-> & -> & ->)|(-> & -> & ->)]];
    cbn [lookup sig_coord_lengths Z.eqb Pos.eqb] in HW;
    apply andb_true_iff in HW as [H1 _]; apply Z.leb_le in H1.
  - change (32 * sig_win_mul_lo + sig_win_lo) with 67 in H1. lia.
  - change (48 * sig_win_mul_lo + sig_win_lo) with 99 in H1. lia.
  - change (66 * sig_win_mul_lo + sig_win_lo) with 135 in H1. lia.
Qed.

Lemma verify_reencode_der r s cv c ks :
  curve_ok cv c ks -> in_window cv (zlen (der_sig r s)) = true ->
  verify_reencode (der_sig r s) ks = Ok (der_sig r s).
Proof. intros HC HW. apply verify_reencode_other. eapply in_window_not_raw_size; eassumption. Qed.

Lemma verify_reencode_refuted :
  0 < r29 < 2 ^ 256 /\
  exists d, verify_reencode (der_sig (Z.to_N r29) (Z.to_N r29)) 256 = Ok d /\ d <> der_sig (Z.to_N r29) (Z.to_N r29).
Proof.
  split; [split; reflexivity|]. eexists. split; [vm_compute; reflexivity|]. vm_compute. discriminate.
Qed.

(* bound on the DER length for r, s below 2^(8c), c <= 66 *)
Lemma lenlen_le2 n : 0 <= n < 256 -> lenlen n <= 2.
Proof.
  intros [H0 H]. unfold lenlen. destruct (n <? 128); [lia|].
  assert (N.size (Z.to_N n) <= 8)%N.
  { apply size_le_pow. change (2 ^ 8)%N with (Z.to_N 256). apply Z2N.inj_lt; lia. }
  lia.
Qed.

Lemma der_sig_len_bound r s c :
  0 <= c <= 66 -> 0 <= r < 2 ^ (8 * c) -> 0 <= s < 2 ^ (8 * c) ->
  zlen (der_sig (Z.to_N r) (Z.to_N s)) <= 141.
Proof.
  intros Hc Hr Hs. rewrite zlen_der_sig.
  assert (A : forall v, 0 <= v < 2 ^ (8 * c) -> 1 <= zint_len (Z.to_N v) <= 67).
  { intros v [Hv0 Hv]. split; [apply zint_len_pos|]. unfold zint_len.
    assert (N.size (Z.to_N v) <= Z.to_N (8 * c))%N.
    { apply size_le_pow. change 2%N with (Z.to_N 2). rewrite <- Z2N.inj_pow by lia. apply Z2N.inj_lt; lia. }
    lia. }
  pose proof (A r Hr) as Ar. pose proof (A s Hs) as As.
  set (a := zint_len (Z.to_N r)) in *. set (b := zint_len (Z.to_N s)) in *.
  unfold tlvlen at 2 3. rewrite !lenlen_small by lia.
  unfold tlvlen. pose proof (lenlen_le2 (1 + 1 + a + (1 + 1 + b)) ltac:(lia)). lia.
Qed.

Lemma decode_der_sig_bounded r s c :
  0 <= c <= 66 -> 0 <= r < 2 ^ (8 * c) -> 0 <= s < 2 ^ (8 * c) ->
  decode_dss (der_sig (Z.to_N r) (Z.to_N s)) = Some (Z.to_N r, Z.to_N s).
Proof.
  intros Hc Hr Hs. apply der_roundtrip_len.
  pose proof (der_sig_len_bound r s c Hc Hr Hs). change (2 ^ 32) with 4294967296. lia.
Qed.

Lemma serialize_der_sig r s cv c ks :
  curve_ok cv c ks -> 0 <= r < 2 ^ (8 * c) -> 0 <= s < 2 ^ (8 * c) ->
  serialize_signature (der_sig (Z.to_N r) (Z.to_N s)) c = Ok (raw_sig c r s).
Proof.
  intros HC Hr Hs.
  assert (Hc : 0 <= c <= 66) by (destruct HC as [(_ & -> & _)|[(_ & -> & _)|(_ & -> & _)]]; lia).
  unfold serialize_signature. rewrite (decode_der_sig_bounded r s c) by assumption.
  rewrite !Z2N.id by lia. rewrite !to_bytes_be_ok by lia. reflexivity.
Qed.

(* DER -> raw -> DER *)
Lemma der_raw_der_lemma r s cv c ks :
  curve_ok cv c ks -> 0 <= r < 2 ^ (8 * c) -> 0 <= s < 2 ^ (8 * c) ->
  bind (ecc_sign_format (der_sig (Z.to_N r) (Z.to_N s)) ks false) (fun raw => verify_reencode raw ks)
  = Ok (der_sig (Z.to_N r) (Z.to_N s)).
Proof.
  intros HC Hr Hs. destruct (curve_ok_sizes _ _ _ HC) as (H1 & _ & _).
  unfold ecc_sign_format. rewrite H1. rewrite (serialize_der_sig r s cv c ks) by assumption.
  cbn [bind]. apply (verify_reencode_raw r s cv c ks); assumption.
Qed.

Lemma from_bytes_be_bound l : wf_bytes l -> 0 <= from_bytes_be l < 2 ^ (8 * zlen l).
Proof.
  intros H. unfold from_bytes_be, be_dec. split; [lia|].
  assert (Hw : wf_bytes (rev l)) by (unfold wf_bytes; apply Forall_rev; exact H).
  pose proof (le_dec_bound (rev l) Hw) as B. rewrite rev_length in B.
  apply N2Z.inj_lt in B. rewrite N2Z.inj_pow, N2Z.inj_mul, nat_N_Z in B. exact B.
Qed.

Lemma be_enc_from_bytes l : wf_bytes l -> be_enc (length l) (Z.to_N (from_bytes_be l)) = l.
Proof. intros H. unfold from_bytes_be. rewrite N2Z.id. apply be_enc_dec. exact H. Qed.

Lemma in_firstn {A} n (l : list A) x : In x (firstn n l) -> In x l.
Proof.
  revert l; induction n as [|n IH]; intros [|y l] H; simpl in *; try contradiction.
  destruct H as [->|H]; [left; reflexivity|right; apply IH; exact H].
Qed.

Lemma in_skipn {A} n (l : list A) x : In x (skipn n l) -> In x l.
Proof.
  revert l; induction n as [|n IH]; intros [|y l] H; simpl in *; try contradiction; try assumption.
  right. apply IH. exact H.
Qed.

Lemma wf_firstn n l : wf_bytes l -> wf_bytes (firstn n l).
Proof.
  unfold wf_bytes. rewrite !Forall_forall. intros H x Hx. apply H. eapply in_firstn; exact Hx.
Qed.

Lemma wf_skipn n l : wf_bytes l -> wf_bytes (skipn n l).
Proof.
  unfold wf_bytes. rewrite !Forall_forall. intros H x Hx. apply H. eapply in_skipn; exact Hx.
Qed.

(* raw -> DER -> raw, for every well-formed byte string of the curve's signature size *)
Lemma raw_der_raw_lemma raw cv c ks :
  curve_ok cv c ks -> wf_bytes raw -> zlen raw = 2 * c ->
  bind (verify_reencode raw ks) (fun der => ecc_sign_format der ks false) = Ok raw.
Proof.
  intros HC Hwf HL.
  assert (Hc : 0 <= c <= 66) by (destruct HC as [(_ & -> & _)|[(_ & -> & _)|(_ & -> & _)]]; lia).
  destruct (curve_ok_sizes _ _ _ HC) as (H1 & H2 & H3).
  unfold verify_reencode. rewrite H2, H3, HL. rewrite Z.eqb_refl.
  set (a := take c raw). set (b := drop c raw).
  assert (Hab : raw = a ++ b) by (unfold a, b, take, drop; symmetry; apply firstn_skipn).
  assert (Hla : length a = Z.to_nat c).
  { unfold a, take. rewrite firstn_length. unfold zlen in HL. lia. }
  assert (Hlb : length b = Z.to_nat c).
  { unfold b, drop. rewrite skipn_length. unfold zlen in HL. lia. }
  assert (Hwa : wf_bytes a) by (apply wf_firstn; exact Hwf).
  assert (Hwb : wf_bytes b) by (apply wf_skipn; exact Hwf).
  pose proof (from_bytes_be_bound a Hwa) as Ba. pose proof (from_bytes_be_bound b Hwb) as Bb.
  unfold zlen in Ba, Bb. rewrite Hla in Ba. rewrite Hlb in Bb. rewrite Z2Nat.id in Ba, Bb by lia.
  unfold encode_dss.
  assert (E : (from_bytes_be a <? 0) || (from_bytes_be b <? 0) = false)
    by (apply orb_false_iff; split; apply Z.ltb_ge; lia).
  rewrite E. cbn [bind]. unfold ecc_sign_format. rewrite H1.
  rewrite (serialize_der_sig _ _ cv c ks) by assumption.
  unfold raw_sig. rewrite <- Hla at 1. rewrite <- Hlb. rewrite !be_enc_from_bytes by assumption.
  rewrite <- Hab. reflexivity.
Qed.

(* ====================================================================================== *)
(* NXP raw public keys                                                                      *)
(* ====================================================================================== *)
Lemma bit_length_exact v k : 0 < k -> 2 ^ (k - 1) <= v < 2 ^ k -> bit_length v = k.
Proof.
  intros Hk H. unfold bit_length. pose proof (size_bounds_Z v (k - 1) k ltac:(lia) H). lia.
Qed.

Lemma rsa_raw_roundtrip_lemma e n ks :
  In ks rsa_key_sizes -> 2 ^ (ks - 1) <= n < 2 ^ ks -> 2 ^ 16 <= e < 2 ^ 32 ->
  exists b, rsa_export_nxp e n 0 0 = Ok b /\ rsa_recreate_public_numbers b = Ok (e, n) /\
            (zlen b = ks / 8 + 3 \/ zlen b = ks / 8 + 4).
Proof.
  intros Hin Hn He.
  assert (Hks : 0 < ks /\ ks mod 8 = 0 /\ (ks = 2048 \/ ks = 3072 \/ ks = 4096)).
  { destruct Hin as [<-|[<-|[<-|[]]]]; repeat split; try reflexivity; tauto. }
  destruct Hks as (Hks0 & Hks8 & Hcases).
  assert (Hbn : bit_length n = ks) by (apply bit_length_exact; assumption).
  assert (Hbe : 16 < bit_length e <= 32).
  { unfold bit_length. apply (size_bounds_Z e 16 32); [lia|exact He]. }
  assert (Hn0 : 0 <= n) by (assert (0 < 2 ^ (ks - 1)) by (apply Z.pow_pos_nonneg; lia); lia).
  assert (He0 : 0 <= e) by (assert (0 < 2 ^ 16) by reflexivity; lia).
  unfold rsa_export_nxp. cbn [Z.eqb]. rewrite Hbn.
  remember (ceil_div (bit_length e) rsa_exp_div) as el eqn:Eel.
  unfold ceil_div in Eel. change rsa_exp_div with 8 in Eel.
  assert (Hel : el = 3 \/ el = 4) by lia.
  assert (Hml : ceil_div ks rsa_mod_div = ks / 8) by (unfold ceil_div; change rsa_mod_div with 8; lia).
  rewrite Hml.
  assert (He' : e < 2 ^ (8 * el)).
  { destruct He as [_ He]. destruct Hel as [Hel | Hel]; rewrite Hel in *.
    - assert (bit_length e <= 24) by lia.
      unfold bit_length in H.
      assert (B : (Z.to_N e < 2 ^ N.size (Z.to_N e))%N) by apply size_upper.
      assert (B2 : (2 ^ N.size (Z.to_N e) <= 2 ^ 24)%N) by (apply N.pow_le_mono_r; lia).
      change (8 * 3) with 24. change (2 ^ 24) with (Z.of_N (2 ^ 24)). lia.
    - exact He. }
  assert (Hn' : n < 2 ^ (8 * (ks / 8))) by (replace (8 * (ks / 8)) with ks by lia; tauto).
  clear Hn He.
  rewrite (to_bytes_be_ok e el) by lia. rewrite (to_bytes_be_ok n (ks / 8)) by lia. cbn [bind].
  eexists. split; [reflexivity|].
  set (mb := be_enc (Z.to_nat (ks / 8)) (Z.to_N n)). set (eb := be_enc (Z.to_nat el) (Z.to_N e)).
  assert (Lm : zlen mb = ks / 8) by (unfold mb, zlen; rewrite be_enc_length; lia).
  assert (Le : zlen eb = el) by (unfold eb, zlen; rewrite be_enc_length; lia).
  assert (Hdec : from_bytes_be (drop (ks / 8) (mb ++ eb)) = e /\ from_bytes_be (take (ks / 8) (mb ++ eb)) = n).
  { rewrite take_app_exact, drop_app_exact by (symmetry; exact Lm). unfold mb, eb.
    split; apply from_bytes_be_enc; lia. }
  destruct Hdec as [D1 D2].
  assert (HL : zlen (mb ++ eb) = ks / 8 + el) by (rewrite zlen_app; lia).
  split; [|rewrite HL; lia].
  unfold rsa_recreate_public_numbers, rsa_key_sizes. cbn [rsa_recreate_tbl].
  rewrite HL. change rsa_raw_div with 8. change rsa_raw_exp_lo with 3. change rsa_raw_exp_hi with 4.
  destruct Hcases as [->|[-> | ->]].
  - change (2048 / 8) with 256 in *.
    replace ((256 + 3 <=? 256 + el) && (256 + el <=? 256 + 4)) with true
      by (symmetry; apply andb_true_iff; split; apply Z.leb_le; lia).
    rewrite D1, D2. reflexivity.
  - change (2048 / 8) with 256 in *. change (3072 / 8) with 384 in *.
    replace ((256 + 3 <=? 384 + el) && (384 + el <=? 256 + 4)) with false
      by (symmetry; apply andb_false_iff; right; apply Z.leb_gt; lia).
    replace ((384 + 3 <=? 384 + el) && (384 + el <=? 384 + 4)) with true
      by (symmetry; apply andb_true_iff; split; apply Z.leb_le; lia).
    rewrite D1, D2. reflexivity.
  - change (2048 / 8) with 256 in *. change (3072 / 8) with 384 in *. change (4096 / 8) with 512 in *.
    replace ((256 + 3 <=? 512 + el) && (512 + el <=? 256 + 4)) with false
      by (symmetry; apply andb_false_iff; right; apply Z.leb_gt; lia).
    replace ((384 + 3 <=? 512 + el) && (512 + el <=? 384 + 4)) with false
      by (symmetry; apply andb_false_iff; right; apply Z.leb_gt; lia).
    replace ((512 + 3 <=? 512 + el) && (512 + el <=? 512 + 4)) with true
      by (symmetry; apply andb_true_iff; split; apply Z.leb_le; lia).
    rewrite D1, D2. reflexivity.
Qed.

Lemma curve_p_fits cv c ks : curve_ok cv c ks -> 0 < curve_p ks /\ curve_p ks < 2 ^ (8 * c).
Proof. intros [(-> & -> & ->)|[(-> & -> & ->)|(-> & -> & ->)]]; split; reflexivity. Qed.

Lemma ecc_get_curve_raw cv c ks :
  curve_ok cv c ks -> ecc_get_curve ecc_curves (2 * c) = Ok (cv, ks, false).
Proof. intros [(-> & -> & ->)|[(-> & -> & ->)|(-> & -> & ->)]]; reflexivity. Qed.

Lemma ecc_raw_roundtrip_lemma x y cv c ks :
  curve_ok cv c ks -> 0 <= x < curve_p ks -> 0 <= y < curve_p ks -> on_curve ks x y = true ->
  exists b, ecc_export_nxp x y ks = Ok b /\ zlen b = 2 * c /\
            ecc_recreate_from_data b (-1) None = Ok (KEcc cv x y).
Proof.
  intros HC Hx Hy Hon.
  assert (Hc : 0 <= c <= 66) by (destruct HC as [(_ & -> & _)|[(_ & -> & _)|(_ & -> & _)]]; lia).
  destruct (curve_p_fits _ _ _ HC) as [Hp0 Hp].
  destruct (curve_ok_sizes _ _ _ HC) as (H1 & _ & _).
  unfold ecc_export_nxp. rewrite H1.
  rewrite (to_bytes_be_ok x c), (to_bytes_be_ok y c) by lia. cbn [bind].
  eexists. split; [reflexivity|].
  set (xb := be_enc (Z.to_nat c) (Z.to_N x)). set (yb := be_enc (Z.to_nat c) (Z.to_N y)).
  assert (Lx : zlen xb = c) by (unfold xb, zlen; rewrite be_enc_length; lia).
  assert (Ly : zlen yb = c) by (unfold yb, zlen; rewrite be_enc_length; lia).
  assert (HL : zlen (xb ++ yb) = 2 * c) by (rewrite zlen_app; lia).
  split; [exact HL|].
  unfold ecc_recreate_from_data. change (curve_list (-1)) with ecc_curves.
  rewrite HL, (ecc_get_curve_raw cv c ks HC).
  replace (2 * c / ecc_raw_half) with c by (change ecc_raw_half with 2; lia).
  rewrite take_app_exact, drop_app_exact by (symmetry; exact Lx).
  unfold xb, yb. rewrite !from_bytes_be_enc by lia. rewrite Hon.
  rewrite !Z.mod_small by lia. reflexivity.
Qed.

(* the length classes of the two raw formats never overlap *)
Lemma rsa_recreate_lengths data k :
  rsa_recreate_public_numbers data = Ok k ->
  In (zlen data) [259; 260; 387; 388; 515; 516].
Proof.
  unfold rsa_recreate_public_numbers, rsa_key_sizes. cbn [rsa_recreate_tbl].
  change rsa_raw_div with 8. change rsa_raw_exp_lo with 3. change rsa_raw_exp_hi with 4.
  change (2048 / 8) with 256. change (3072 / 8) with 384. change (4096 / 8) with 512.
  set (L := zlen data).
  destruct ((256 + 3 <=? L) && (L <=? 256 + 4)) eqn:E1.
  { intros _. apply andb_true_iff in E1 as [A B]. apply Z.leb_le in A. apply Z.leb_le in B.
    assert (L = 259 \/ L = 260) by lia. cbn [In]. lia. }
  destruct ((384 + 3 <=? L) && (L <=? 384 + 4)) eqn:E2.
  { intros _. apply andb_true_iff in E2 as [A B]. apply Z.leb_le in A. apply Z.leb_le in B.
    assert (L = 387 \/ L = 388) by lia. cbn [In]. lia. }
  destruct ((512 + 3 <=? L) && (L <=? 512 + 4)) eqn:E3.
  { intros _. apply andb_true_iff in E3 as [A B]. apply Z.leb_le in A. apply Z.leb_le in B.
    assert (L = 515 \/ L = 516) by lia. cbn [In]. lia. }
  discriminate.
Qed.

Lemma raw_key_lengths_disjoint_lemma data k :
  rsa_recreate_public_numbers data = Ok k -> ecc_get_curve ecc_curves (zlen data) = Err 1%N.
Proof.
  intros H. apply rsa_recreate_lengths in H. cbn [In] in H.
  destruct H as [<-|[<-|[<-|[<-|[<-|[<-|[]]]]]]]; reflexivity.
Qed.

Lemma ecc_get_curve_lengths L r :
  ecc_get_curve ecc_curves L = Ok r -> In L [64; 71; 72; 73; 96; 103; 104; 105; 132; 139; 140; 141].
Proof.
  unfold ecc_curves. cbn [ecc_get_curve].
  change (ceil_div 256 ecc_raw_div * ecc_raw_mul) with 64.
  change (ceil_div 384 ecc_raw_div * ecc_raw_mul) with 96.
  change (ceil_div 521 ecc_raw_div * ecc_raw_mul) with 132.
  change ecc_raw_der_lo with 7. change ecc_raw_der_span with 2.
  destruct (Z.eqb_spec 64 L); [intros _; cbn [In]; lia|].
  destruct ((64 + 7 <=? L) && (L <=? 64 + 7 + 2)) eqn:E1.
  { intros _. apply andb_true_iff in E1 as [A B]. apply Z.leb_le in A. apply Z.leb_le in B. cbn [In]. lia. }
  destruct (Z.eqb_spec 96 L); [intros _; cbn [In]; lia|].
  destruct ((96 + 7 <=? L) && (L <=? 96 + 7 + 2)) eqn:E2.
  { intros _. apply andb_true_iff in E2 as [A B]. apply Z.leb_le in A. apply Z.leb_le in B. cbn [In]. lia. }
  destruct (Z.eqb_spec 132 L); [intros _; cbn [In]; lia|].
  destruct ((132 + 7 <=? L) && (L <=? 132 + 7 + 2)) eqn:E3.
  { intros _. apply andb_true_iff in E3 as [A B]. apply Z.leb_le in A. apply Z.leb_le in B. cbn [In]. lia. }
  discriminate.
Qed.

Lemma raw_key_lengths_disjoint_lemma2 data r :
  ecc_get_curve ecc_curves (zlen data) = Ok r -> rsa_recreate_public_numbers data = Err 1%N.
Proof.
  intros H. destruct (rsa_recreate_public_numbers data) as [k|e] eqn:E.
  - apply raw_key_lengths_disjoint_lemma in E. rewrite E in H. discriminate.
  - revert E. unfold rsa_recreate_public_numbers, rsa_key_sizes. cbn [rsa_recreate_tbl].
    repeat (destruct (_ && _); [discriminate|]). intros E; inversion E; reflexivity.
Qed.

(* ---------- PublicKey.parse / typed parse on raw exports ---------- *)
Lemma pub_parse_raw_ecc_lemma x y cv c ks b pem rv :
  curve_ok cv c ks -> 0 <= x < curve_p ks -> 0 <= y < curve_p ks -> on_curve ks x y = true ->
  ecc_export_nxp x y ks = Ok b -> pem_like b = false ->
  pub_parse b pem None rv = Ok (KEcc cv x y) /\
  ecc_pub_parse b pem None rv = Ok (KEcc cv x y) /\
  rsa_pub_parse b pem None rv = Err 1%N.
Proof.
  intros HC Hx Hy Hon Hex Hpem.
  destruct (ecc_raw_roundtrip_lemma x y cv c ks HC Hx Hy Hon) as (b' & E1 & _ & E3).
  rewrite Hex in E1. inversion E1; subst b'.
  assert (P : pub_parse b pem None rv = Ok (KEcc cv x y)) by (unfold pub_parse; rewrite Hpem, E3; reflexivity).
  repeat split; [exact P| |]; [unfold ecc_pub_parse|unfold rsa_pub_parse]; rewrite P; reflexivity.
Qed.

Lemma pub_parse_raw_rsa_lemma e n ks b pem :
  In ks rsa_key_sizes -> 2 ^ (ks - 1) <= n < 2 ^ ks -> 2 ^ 16 <= e < 2 ^ 32 ->
  rsa_export_nxp e n 0 0 = Ok b -> pem_like b = false ->
  pub_parse b pem None true = Ok (KRsa e n) /\
  rsa_pub_parse b pem None true = Ok (KRsa e n) /\
  ecc_pub_parse b pem None true = Err 1%N.
Proof.
  intros Hin Hn He Hex Hpem.
  destruct (rsa_raw_roundtrip_lemma e n ks Hin Hn He) as (b' & E1 & E2 & _).
  rewrite Hex in E1. inversion E1; subst b'.
  pose proof (raw_key_lengths_disjoint_lemma b _ E2) as D.
  assert (R : ecc_recreate_from_data b (-1) None = Err 1%N).
  { unfold ecc_recreate_from_data. change (curve_list (-1)) with ecc_curves. rewrite D. reflexivity. }
  assert (P : pub_parse b pem None true = Ok (KRsa e n)).
  { unfold pub_parse. rewrite Hpem, R. unfold rsa_recreate_from_data. rewrite E2. reflexivity. }
  repeat split; [exact P| |]; [unfold rsa_pub_parse|unfold ecc_pub_parse]; rewrite P; reflexivity.
Qed.

(* data that decode as UTF-8 and contain "----" are never tried as raw keys by PublicKey.parse *)
Lemma pub_parse_pem_like_masks data der rv :
  pem_like data = true -> pub_parse data None der rv = Err 1%N.
Proof. intros H. unfold pub_parse. rewrite H. reflexivity. Qed.

Definition pemlike_raw : list N := repeat 45%N 64.
Lemma pem_like_raw_length_exists : zlen pemlike_raw = 64 /\ pem_like pemlike_raw = true /\ wf_bytes pemlike_raw.
Proof.
  split; [reflexivity|]. split; [vm_compute; reflexivity|].
  unfold pemlike_raw, wf_bytes. apply Forall_forall. intros x Hx. apply repeat_spec in Hx. subst. reflexivity.
Qed.

(* non-vacuity: the generator point of P-256 satisfies the hypotheses of the raw key lemmas *)
Example on_curve_p256_G :
  on_curve 256 48439561293906451759052585252797914202762949526041747995844080717082404635286
               36134250956749795798585127919587881956611106672985015071877198253568414405109 = true.
Proof. vm_compute. reflexivity. Qed.

(* ---------- combined statement used by Props/C08/sniff_sound_except_known ---------- *)
Lemma sniff_sound_except_known_lemma r s cv c ks enc :
  curve_ok cv c ks -> 0 <= r < 2 ^ (8 * c) -> 0 <= s < 2 ^ (8 * c) ->
  enc = 0 \/ (enc = 1 /\ in_window cv (zlen (der_sig (Z.to_N r) (Z.to_N s))) = true) ->
  sig_parse_export r s cv enc = Ok (r, s, cv).
Proof.
  intros HC Hr Hs [->|[-> HW]].
  - eapply raw_roundtrip_lemma; eassumption.
  - apply sniff_sound_der; [lia|lia|exact HW].
Qed.

Lemma sniff_sound_typical_lemma r s cv c ks enc :
  curve_ok cv c ks ->
  2 ^ (8 * (c - 2)) <= r < 2 ^ ks -> 2 ^ (8 * (c - 2)) <= s < 2 ^ ks -> enc = 0 \/ enc = 1 ->
  sig_parse_export r s cv enc = Ok (r, s, cv).
Proof.
  intros HC Hr Hs He.
  assert (Hk : 0 < 2 ^ (8 * (c - 2)) /\ 2 ^ ks <= 2 ^ (8 * c)).
  { destruct HC as [(_ & -> & ->)|[(_ & -> & ->)|(_ & -> & ->)]]; split; try reflexivity; discriminate. }
  destruct Hk as [K1 K2].
  apply (sniff_sound_except_known_lemma r s cv c ks enc HC); [lia|lia|].
  destruct He as [-> | ->]; [left; reflexivity|right; split; [reflexivity|]].
  eapply typical_in_window; eassumption.
Qed.

(* non-vacuity of the hypotheses of the typical case *)
Example typical_instance : 2 ^ (8 * (32 - 2)) <= 2 ^ 255 + 12345 < 2 ^ 256.
Proof. split; [discriminate|reflexivity]. Qed.

Lemma der_roundtrip_lemma (r s : Z) :
  0 <= r -> 0 <= s ->
  exists d, encode_dss r s = Ok d /\ (zlen d < 2 ^ 32 -> decode_dss d = Some (Z.to_N r, Z.to_N s)).
Proof.
  intros Hr Hs. exists (der_sig (Z.to_N r) (Z.to_N s)). split; [|apply der_roundtrip_len].
  unfold encode_dss.
  assert (E : (r <? 0) || (s <? 0) = false) by (apply orb_false_iff; split; apply Z.ltb_ge; assumption).
  rewrite E. reflexivity.
Qed.

Lemma get_signature_normalises_lemma r s cv c ks :
  curve_ok cv c ks -> 0 <= r < 2 ^ (8 * c) -> 0 <= s < 2 ^ (8 * c) ->
  get_signature (raw_sig c r s) (-1) = Ok (raw_sig c r s) /\
  get_signature (raw_sig c r s) 1 = Ok (der_sig (Z.to_N r) (Z.to_N s)) /\
  (in_window cv (zlen (der_sig (Z.to_N r) (Z.to_N s))) = true ->
   get_signature (der_sig (Z.to_N r) (Z.to_N s)) (-1) = Ok (raw_sig c r s)).
Proof.
  intros HC Hr Hs. destruct (get_signature_raw r s cv c ks HC Hr Hs) as (A & _ & B).
  split; [exact A|split; [exact B|apply (get_signature_der r s cv c ks HC Hr Hs)]].
Qed.

Lemma verify_reencode_sound_lemma r s cv c ks :
  curve_ok cv c ks -> 0 <= r < 2 ^ (8 * c) -> 0 <= s < 2 ^ (8 * c) ->
  verify_reencode (raw_sig c r s) ks = Ok (der_sig (Z.to_N r) (Z.to_N s)) /\
  (in_window cv (zlen (der_sig (Z.to_N r) (Z.to_N s))) = true ->
   verify_reencode (der_sig (Z.to_N r) (Z.to_N s)) ks = Ok (der_sig (Z.to_N r) (Z.to_N s))).
Proof.
  intros HC Hr Hs. split; [apply (verify_reencode_raw r s cv c ks HC Hr Hs)|apply (verify_reencode_der _ _ cv c ks HC)].
Qed.

(* ---------- exactness of the window condition (DER lengths that are not raw lengths) ---------- *)
Lemma get_ecc_curve_cases L cv :
  sig_get_ecc_curve L = Ok cv ->
  exists c, lookup sig_coord_lengths cv = Some c /\ (L = 2 * c \/ in_window cv L = true).
Proof.
  unfold sig_get_ecc_curve, sig_coord_lengths. cbn [sig_curve_of_len].
  change sig_raw_mul with 2. change sig_win_mul_lo with 2. change sig_win_mul_hi with 2.
  destruct (Z.eqb_spec L (32 * 2)) as [E|E].
  { intros H; inversion H; subst. exists 32. split; [reflexivity|left; lia]. }
  destruct ((32 * 2 + sig_win_lo <=? L) && (L <? 32 * 2 + sig_win_hi)) eqn:W0.
  { intros H; inversion H; subst. exists 32. split; [reflexivity|right]. unfold in_window.
    change (lookup sig_coord_lengths 0) with (Some 32). cbv beta iota.
    change sig_win_mul_lo with 2. change sig_win_mul_hi with 2. exact W0. }
  destruct (Z.eqb_spec L (48 * 2)) as [E1|E1].
  { intros H; inversion H; subst. exists 48. split; [reflexivity|left; lia]. }
  destruct ((48 * 2 + sig_win_lo <=? L) && (L <? 48 * 2 + sig_win_hi)) eqn:W1.
  { intros H; inversion H; subst. exists 48. split; [reflexivity|right]. unfold in_window.
    change (lookup sig_coord_lengths 1) with (Some 48). cbv beta iota.
    change sig_win_mul_lo with 2. change sig_win_mul_hi with 2. exact W1. }
  destruct (Z.eqb_spec L (66 * 2)) as [E2|E2].
  { intros H; inversion H; subst. exists 66. split; [reflexivity|left; lia]. }
  destruct ((66 * 2 + sig_win_lo <=? L) && (L <? 66 * 2 + sig_win_hi)) eqn:W2.
  { intros H; inversion H; subst. exists 66. split; [reflexivity|right]. unfold in_window.
    change (lookup sig_coord_lengths 2) with (Some 66). cbv beta iota.
    change sig_win_mul_lo with 2. change sig_win_mul_hi with 2. exact W2. }
  discriminate.
Qed.

Lemma raw_len_of_table c cv : lookup sig_coord_lengths cv = Some c -> is_raw_len (2 * c) = true.
Proof.
  intros H. apply lookup_cases in H. destruct H as [[_ ->]|[[_ ->]|[_ ->]]]; reflexivity.
Qed.

(* for DER lengths that get_encoding does not mistake for raw, the window condition is exact *)
Lemma sniff_der_exact_lemma r s cv c ks :
  curve_ok cv c ks -> 0 <= r -> 0 <= s ->
  zlen (der_sig (Z.to_N r) (Z.to_N s)) < 2 ^ 32 ->
  is_raw_len (zlen (der_sig (Z.to_N r) (Z.to_N s))) = false ->
  (sig_parse_export r s cv 1 = Ok (r, s, cv) <-> in_window cv (zlen (der_sig (Z.to_N r) (Z.to_N s))) = true).
Proof.
  intros HC Hr Hs HL HR. split; [|apply sniff_sound_der; assumption].
  unfold sig_parse_export, sig_export. cbn [Z.eqb Pos.eqb]. unfold encode_dss.
  assert (E : (r <? 0) || (s <? 0) = false) by (apply orb_false_iff; split; apply Z.ltb_ge; assumption).
  rewrite E. cbn [bind]. unfold sig_parse, sig_get_encoding.
  fold (is_raw_len (zlen (der_sig (Z.to_N r) (Z.to_N s)))). rewrite HR.
  rewrite (der_roundtrip_len _ _ HL). cbn [Z.eqb Pos.eqb].
  destruct (sig_get_ecc_curve (zlen (der_sig (Z.to_N r) (Z.to_N s)))) as [cv'|k] eqn:EC; [|discriminate].
  intros H. assert (Hcv : cv' = cv) by congruence. subst cv'. clear H.
  destruct (get_ecc_curve_cases _ _ EC) as (c' & Hc' & [Hraw|Hw]); [|exact Hw].
  pose proof (raw_len_of_table c' cv Hc') as HT. rewrite <- Hraw in HT. rewrite HT in HR. discriminate.
Qed.

(* when the DER length is one of the raw lengths the bytes are read as raw halves *)
Lemma sniff_der_rawlen_lemma r s cv :
  0 <= r -> 0 <= s ->
  is_raw_len (zlen (der_sig (Z.to_N r) (Z.to_N s))) = true ->
  let d := der_sig (Z.to_N r) (Z.to_N s) in
  sig_parse_export r s cv 1 =
  match sig_get_ecc_curve (zlen d) with
  | Ok cv' => Ok (from_bytes_be (take (zlen d / sig_parse_div1) d), from_bytes_be (drop (zlen d / sig_parse_div2) d), cv')
  | Err k => Err k
  end.
Proof.
  intros Hr Hs HR d. unfold sig_parse_export, sig_export. cbn [Z.eqb Pos.eqb]. unfold encode_dss.
  assert (E : (r <? 0) || (s <? 0) = false) by (apply orb_false_iff; split; apply Z.ltb_ge; assumption).
  rewrite E. cbn [bind]. unfold sig_parse, sig_get_encoding. fold d.
  fold (is_raw_len (zlen d)). unfold d at 1. rewrite HR. cbn [Z.eqb]. reflexivity.
Qed.

(* ====================================================================================== *)
(* nxpcrypto key convert -e RAW                                                             *)
(* ====================================================================================== *)
Definition p521_gx : Z := 2661740802050217063228768716723360960729859168756973147706671368418802944996427808491545080627771902352094241225065558662157113545570916814161637315895999846.
Definition p521_gy : Z := 3757180025770020463545507224491183603594455134769762486694567779615544477440556316691234405012945539562144444537289428522585666729196580810124344277578376784.
Definition p521_y1 : Z := 226550527432254644762927155718498869710358906817053425319320865507781004639099725838657309164078643711530506222673069010331048069570407113457901669103973732.

Lemma cli_raw_pub_is_export x y ks : cli_convert_raw_pub x y ks = ecc_export_nxp x y ks.
Proof. reflexivity. Qed.

Lemma cli_raw_pub_roundtrip_lemma x y cv c ks b pem rv :
  curve_ok cv c ks ->
  0 <= x < curve_p ks -> 0 <= y < curve_p ks -> on_curve ks x y = true ->
  cli_convert_raw_pub x y ks = Ok b -> pem_like b = false ->
  cli_reconstruct b (pub_parse b pem None rv) = Ok (CPub (KEcc cv x y)).
Proof.
  intros HC Hx Hy Hon Hex Hpem.
  rewrite cli_raw_pub_is_export in Hex.
  destruct (pub_parse_raw_ecc_lemma x y cv c ks b pem rv HC Hx Hy Hon Hex Hpem) as (P & _ & _).
  rewrite P. reflexivity.
Qed.

Lemma pub_parse_short_fails b pem rv :
  zlen b = 32 \/ zlen b = 48 \/ zlen b = 66 -> pem_like b = false -> pub_parse b pem None rv = Err 1%N.
Proof.
  intros HL Hpem. unfold pub_parse. rewrite Hpem.
  unfold ecc_recreate_from_data. change (curve_list (-1)) with ecc_curves.
  unfold rsa_recreate_from_data, rsa_recreate_public_numbers, rsa_key_sizes. cbn [rsa_recreate_tbl].
  destruct HL as [-> |[-> | ->]]; reflexivity.
Qed.

Lemma cli_raw_prv_roundtrip_lemma d cv c ks pem rv :
  curve_ok cv c ks -> 1 <= d < curve_n ks ->
  exists b, cli_convert_raw_prv d ks = Ok b /\
            (pem_like b = false -> cli_reconstruct b (pub_parse b pem None rv) = Ok (CPrv cv d)).
Proof.
  intros HC Hd.
  assert (Hw : cli_raw_width ks = c) by (destruct HC as [(_ & -> & ->)|[(_ & -> & ->)|(_ & -> & ->)]]; reflexivity).
  assert (Hn : curve_n ks < 2 ^ (8 * c)) by (destruct HC as [(_ & -> & ->)|[(_ & -> & ->)|(_ & -> & ->)]]; reflexivity).
  assert (Hc : 0 <= c) by (destruct HC as [(_ & -> & _)|[(_ & -> & _)|(_ & -> & _)]]; lia).
  unfold cli_convert_raw_prv. rewrite Hw. rewrite to_bytes_be_ok by lia.
  eexists. split; [reflexivity|]. intros Hpem.
  set (b := be_enc (Z.to_nat c) (Z.to_N d)).
  assert (HL : zlen b = c) by (unfold b, zlen; rewrite be_enc_length; lia).
  rewrite pub_parse_short_fails; [|destruct HC as [(_ & -> & _)|[(_ & -> & _)|(_ & -> & _)]]; lia|exact Hpem].
  unfold cli_reconstruct. rewrite HL.
  assert (Hd' : from_bytes_be b = d) by (unfold b; apply from_bytes_be_enc; lia).
  rewrite Hd'.
  assert (E : forall k, ((1 <=? d) && (d <? curve_n k)) = true \/ ~ d < curve_n k).
  { intros k. destruct (Z.ltb_spec d (curve_n k)); [left|right; lia].
    apply andb_true_iff; split; [apply Z.leb_le; lia|reflexivity]. }
  destruct HC as [(-> & -> & ->)|[(-> & -> & ->)|(-> & -> & ->)]].
  - change (key_len_curve 32) with (@Ok Z 0). cbv beta iota. change (lookup ecc_curves 0) with (Some 256). cbv beta iota.
    change ((32 <=? cli_prv_max) || (32 =? cli_prv_extra)) with true. cbv iota. destruct (E 256) as [-> | N]; [reflexivity|lia].
  - change (key_len_curve 48) with (@Ok Z 1). cbv beta iota. change (lookup ecc_curves 1) with (Some 384). cbv beta iota.
    change ((48 <=? cli_prv_max) || (48 =? cli_prv_extra)) with true. cbv iota. destruct (E 384) as [-> | N]; [reflexivity|lia].
  - change (key_len_curve 66) with (@Ok Z 2). cbv beta iota. change (lookup ecc_curves 2) with (Some 521). cbv beta iota.
    change ((66 <=? cli_prv_max) || (66 =? cli_prv_extra)) with true. cbv iota. destruct (E 521) as [-> | N]; [reflexivity|lia].
Qed.

(* non-vacuity for P-521: the generator point and the scalar 2^520 (both need 66 bytes) convert and read back *)
Example cli_raw_p521_instances :
  on_curve 521 p521_gx p521_gy = true /\
  (exists b, cli_convert_raw_pub p521_gx p521_gy 521 = Ok b /\ zlen b = 132 /\
             cli_reconstruct b (pub_parse b None None true) = Ok (CPub (KEcc 2 p521_gx p521_gy))) /\
  (exists b, cli_convert_raw_prv (2 ^ 520) 521 = Ok b /\ zlen b = 66 /\
             cli_reconstruct b (pub_parse b None None true) = Ok (CPrv 2 (2 ^ 520))).
Proof.
  split; [vm_compute; reflexivity|]. split; eexists; (split; [vm_compute; reflexivity|]); split; vm_compute; reflexivity.
Qed.

(* an invalid scalar in a 66-byte file is refused by the primitive with a ValueError (kind 2), as for 32/48 bytes *)
Example cli_raw_bad_scalar :
  cli_reconstruct (repeat 0%N 66) (pub_parse (repeat 0%N 66) None None true) = Err 2%N /\
  cli_reconstruct (repeat 0%N 32) (pub_parse (repeat 0%N 32) None None true) = Err 2%N.
Proof. split; vm_compute; reflexivity. Qed.

(* ====================================================================================== *)
(* PublicKeyEcc.verify_signature: candidate list                                            *)
(* ====================================================================================== *)
(* every signature is offered to the primitive as it is; nothing but the signature itself and the DER re-encoding of
   its raw reading is ever offered *)
Lemma verify_candidates_self sig ks :
  exists l, verify_candidates sig ks = Ok l /\ In sig l /\
            (forall d, In d l -> d = sig \/ (zlen sig = signature_size ks /\ verify_reencode sig ks = Ok d)).
Proof.
  unfold verify_candidates. destruct (zlen sig =? signature_size ks) eqn:E.
  - assert (Hr : exists d, verify_reencode sig ks = Ok d).
    { unfold verify_reencode. rewrite E. unfold encode_dss.
      assert (F : forall l, (from_bytes_be l <? 0) = false) by (intros l; apply Z.ltb_ge; unfold from_bytes_be; lia).
      rewrite !F. eexists; reflexivity. }
    destruct Hr as [d Hd]. rewrite Hd. cbn [bind]. change (insert_at ecc_verify_first d [sig]) with [d; sig].
    eexists. split; [reflexivity|]. split; [right; left; reflexivity|].
    intros d' [<-|[<-|[]]]; [right; split; [apply Z.eqb_eq; exact E|reflexivity]|left; reflexivity].
  - eexists. split; [reflexivity|]. split; [left; reflexivity|]. intros d' [<-|[]]. left; reflexivity.
Qed.

Lemma verify_candidates_sound_lemma r s cv c ks :
  curve_ok cv c ks -> 0 <= r < 2 ^ (8 * c) -> 0 <= s < 2 ^ (8 * c) ->
  (exists l, verify_candidates (raw_sig c r s) ks = Ok l /\ In (der_sig (Z.to_N r) (Z.to_N s)) l) /\
  (exists l, verify_candidates (der_sig (Z.to_N r) (Z.to_N s)) ks = Ok l /\ In (der_sig (Z.to_N r) (Z.to_N s)) l).
Proof.
  intros HC Hr Hs. split.
  - destruct (curve_ok_sizes _ _ _ HC) as (_ & H2 & _).
    assert (Hc0 : 0 <= c) by (destruct HC as [(_ & -> & _)|[(_ & -> & _)|(_ & -> & _)]]; lia).
    assert (HL : zlen (raw_sig c r s) = signature_size ks).
    { rewrite H2. unfold raw_sig. rewrite zlen_app. unfold zlen. rewrite !be_enc_length. lia. }
    unfold verify_candidates. rewrite HL, Z.eqb_refl.
    rewrite (verify_reencode_raw r s cv c ks HC Hr Hs). cbn [bind].
    change (insert_at ecc_verify_first ?d ?l) with (d :: l).
    eexists. split; [reflexivity|left; reflexivity].
  - destruct (verify_candidates_self (der_sig (Z.to_N r) (Z.to_N s)) ks) as (l & E & I & _).
    exists l. split; assumption.
Qed.

