(* Proofs/BdF2Proofs.v -- finding C19-F2 (defined()) *)
From Coq Require Import String Ascii ZArith NArith List Bool Lia.
Require Import Value Bytes GenBd BdModel BdProofs.
Import ListNotations.
Local Open Scope string_scope.
Local Open Scope list_scope.
Local Open Scope Z_scope.

(* defined(x) is False for a defined x *)
Theorem defined_refuted :
  exists env x, is_defined env x = true /\ beval_impl env (BDefined x) = Ok 0 /\ beval_spec env (BDefined x) = Some 1.
Proof. exists [(7%N, DInt 1)], 7%N. repeat split. Qed.
