(* Proofs/DatV2Proofs.v -- C15 extension: EdgeLock container version 2 credentials (AHAB certificate). *)
From Coq Require Import ZArith NArith List Bool Lia.
Require Import Value Bytes BytesProofs Sha2 GenRot RotModel GenDat DatModel GenDatV2 DatV2Model DatProofs.
Import ListNotations.
Local Open Scope N_scope.
Local Arguments N.ltb : simpl never.
Local Arguments N.leb : simpl never.
Local Arguments N.eqb : simpl never.
Local Arguments N.land : simpl never.
Local Arguments N.lxor : simpl never.
Local Arguments N.modulo : simpl never.
Local Arguments N.div : simpl never.
Local Arguments le_dec : simpl never.
Local Arguments N.of_nat : simpl never.
Local Arguments N.to_nat : simpl never.
Local Opaque sha256 sha384 sha512 on_curve curve_p curve_b.

(* ---------------------------------------------------------------- small facts *)
Lemma le_enc2 v : le_enc 2 v = [v mod 256; (v / 256) mod 256].
Proof. reflexivity. Qed.
Lemma le_dec_pair v : v < 65536 -> le_dec [v mod 256; (v / 256) mod 256] = v.
Proof. intros H. rewrite <- le_enc2. apply le_dec_enc_small. simpl. lia. Qed.
Lemma u16_ok v : v < 65536 -> u16 v = Ok [v mod 256; (v / 256) mod 256].
Proof. intros H. unfold u16. apply N.ltb_lt in H. now rewrite H. Qed.
Lemma u8_ok v : v < 256 -> u8 v = Ok [v].
Proof. intros H. unfold u8. apply N.ltb_lt in H. now rewrite H. Qed.
Lemma extend_exact n d : length d = n -> extend_block n d = Ok d.
Proof.
  intros <-. unfold extend_block. rewrite Nat.ltb_irrefl, Nat.sub_diag. unfold zeros. cbn [repeat]. now rewrite app_nil_r.
Qed.
Lemma nlen_app {A} (a b : list A) : nlen (a ++ b) = nlen a + nlen b.
Proof. unfold nlen. rewrite app_length. lia. Qed.
Lemma nth_after {A} (a r : list A) (x d : A) n : n = length a -> nth n (a ++ x :: r) d = x.
Proof. intros ->. apply nth_middle. Qed.
Lemma mem_n_in x l : mem_n x l = true <-> In x l.
Proof.
  unfold mem_n. rewrite existsb_exists. split.
  - intros (y & Hy & E). apply N.eqb_eq in E. now subst.
  - intros H. exists x. split; [assumption|apply N.eqb_refl].
Qed.

(* ---------------------------------------------------------------- SRK record v2 *)
Definition wf_srk2 (r : srk2) : Prop :=
  k_len r = 76 /\ In (k_alg r) g_v2_algs /\ In (k_hash r) g_v2_hashes /\ k_ksid r < 256 /\ k_flags r < 256 /\
  (exists l, lookup2 g_v2_key_sizes (k_ksid r) = Some l) /\ length (k_params r) = 64%nat.
Lemma algs_small a : In a g_v2_algs -> a < 256 /\ mem_n a g_v2_rec_versions = true /\ mem_n a g_v2_algs = true.
Proof. intros H. cbn in H. repeat (destruct H as [<- | H]; [repeat split; reflexivity|]). contradiction. Qed.
Lemma hashes_small h : In h g_v2_hashes -> h < 256 /\ mem_n h g_v2_hashes = true.
Proof. intros H. cbn in H. repeat (destruct H as [<- | H]; [repeat split; reflexivity|]). contradiction. Qed.

Lemma srk2_roundtrip r : wf_srk2 r ->
  exists b, srk2_export r = Ok b /\ length b = 76%nat /\ forall rest, srk2_parse (b ++ rest) = Ok r.
Proof.
  destruct r as [len alg hash ksid flags params]. unfold wf_srk2. cbn [k_len k_alg k_hash k_ksid k_flags k_params].
  intros (-> & Ha & Hh & Hk & Hf & ([l1 l2] & HL) & Hp).
  destruct (algs_small _ Ha) as (Ha1 & Ha2 & Ha3). destruct (hashes_small _ Hh) as (Hh1 & Hh2).
  unfold srk2_export. cbn [k_len k_alg k_hash k_ksid k_flags k_params]. rewrite HL.
  rewrite (u16_ok 76) by lia. rewrite !u8_ok by assumption. cbn [bind].
  eexists. split; [reflexivity|]. split.
  { rewrite !app_length, !le_enc_length, Hp. reflexivity. }
  intros rest. rewrite !le_enc2. cbn [app]. unfold srk2_parse.
  set (tail := params ++ rest).
  assert (LT : (64 <= length tail)%nat) by (unfold tail; rewrite app_length; lia).
  match goal with |- context [nlen ?l <? g_v2_rec_size] => assert (LN : nlen l = 12 + nlen tail) by (unfold nlen; cbn [length]; fold tail; lia) end.
  rewrite LN. assert (E1 : (12 + nlen tail <? g_v2_rec_size) = false) by (apply N.ltb_ge; change g_v2_rec_size with 12; lia).
  rewrite E1. cbn [nth skipn firstn]. rewrite (le_dec_pair 76) by lia. rewrite N.eqb_refl, Ha2. cbn [negb orb].
  assert (E2 : (12 + nlen tail <? 76) = false) by (apply N.ltb_ge; unfold nlen; lia). rewrite E2.
  change (76 <? g_v2_params_len + g_v2_rec_size) with false. cbv iota. rewrite Ha3, Hh2. cbn [negb orb].
  do 2 f_equal. change (N.to_nat g_v2_params_len) with 64%nat. change (N.to_nat g_v2_rec_size) with 12%nat. cbn [skipn].
  unfold tail. now apply firstn_app_len.
Qed.

(* ---------------------------------------------------------------- SRK data *)
Definition wf_srkdata (d : srkdata) : Prop :=
  sd_len d = 8 + nlen (sd_data d) /\ sd_len d < 65536 /\ sd_id d < 65536 /\ (4 <= length (sd_data d))%nat.
Lemma srkdata_roundtrip d : wf_srkdata d ->
  exists b, srkdata_export d = Ok b /\ length b = (8 + length (sd_data d))%nat /\ forall rest, srkdata_parse (b ++ rest) = Ok d.
Proof.
  destruct d as [len id data]. unfold wf_srkdata. cbn [sd_len sd_id sd_data]. intros (-> & Hl & Hi & Hd).
  unfold srkdata_export. cbn [sd_len sd_id sd_data]. rewrite !u16_ok by assumption. cbn [bind].
  eexists. split; [reflexivity|]. split; [cbn [app length]; lia|].
  intros rest. cbn [app]. unfold srkdata_parse, head_ok.
  set (tail := data ++ rest).
  match goal with |- context [g_v2_data_size <=? nlen ?l] => assert (LN : nlen l = 8 + nlen tail) by (unfold nlen; cbn [length]; fold tail; lia) end.
  rewrite LN. cbn [nth skipn firstn]. rewrite (le_dec_pair _ Hl), (le_dec_pair _ Hi).
  assert (E1 : (g_v2_data_size <=? 8 + nlen tail) = true) by (apply N.leb_le; change g_v2_data_size with 8; lia).
  assert (E2 : (8 + nlen data <=? 8 + nlen tail) = true) by (apply N.leb_le; unfold tail; rewrite nlen_app; lia).
  rewrite E1, E2. change (93 =? g_v2_data_tag) with true. change (0 =? g_v2_data_version) with true. cbn [andb negb].
  assert (E3 : (8 + nlen data <? g_v2_data_size) = false) by (apply N.ltb_ge; change g_v2_data_size with 8; lia). rewrite E3.
  change (N.to_nat g_v2_data_size) with 8%nat. cbn [skipn].
  replace (N.to_nat (8 + nlen data - g_v2_data_size)) with (length data) by (change g_v2_data_size with 8; unfold nlen; lia).
  unfold tail. rewrite firstn_app_len by reflexivity.
  assert (E4 : (nlen data <? 4) = false) by (apply N.ltb_ge; unfold nlen; lia). rewrite E4. reflexivity.
Qed.

(* ---------------------------------------------------------------- signature container *)
Lemma sigc_roundtrip len sig : sig <> [] -> len = 8 + nlen sig -> len < 65536 ->
  exists b, sigc_export len sig = Ok b /\ length b = (8 + length sig)%nat /\
    forall rest, head_ok g_v2_sig_size g_v2_sig_tag g_v2_sig_version (b ++ rest) = true
                 /\ le_dec (firstn 2 (skipn 1 (b ++ rest))) = len
                 /\ firstn (N.to_nat (len - 8)) (skipn 8 (b ++ rest)) = sig.
Proof.
  intros Hne -> Hl. unfold sigc_export. destruct sig as [|s0 sg] eqn:ES; [contradiction|]. rewrite <- ES in *.
  rewrite u16_ok by assumption. cbn [bind]. eexists. split; [reflexivity|]. split; [cbn [app length]; lia|].
  intros rest. cbn [app]. unfold head_ok. set (tail := sig ++ rest).
  match goal with |- context [g_v2_sig_size <=? nlen ?l] => assert (LN : nlen l = 8 + nlen tail) by (unfold nlen; cbn [length]; fold tail; lia) end.
  rewrite LN. cbn [nth skipn firstn]. rewrite (le_dec_pair _ Hl).
  assert (E1 : (g_v2_sig_size <=? 8 + nlen tail) = true) by (apply N.leb_le; change g_v2_sig_size with 8; lia).
  assert (E2 : (8 + nlen sig <=? 8 + nlen tail) = true) by (apply N.leb_le; unfold tail; rewrite nlen_app; lia).
  rewrite E1, E2. split; [reflexivity|]. split; [reflexivity|].
  replace (N.to_nat (8 + nlen sig - 8)) with (length sig) by (unfold nlen; lia). unfold tail. now apply firstn_app_len.
Qed.

(* ---------------------------------------------------------------- the certificate *)
Definition wf_cert (c : cert) : Prop :=
  c_perm c < 256 /\ c_fuse c < 256 /\ length (c_permdata c) = 12%nat /\ length (c_uuid c) = 16%nat /\
  wf_srk2 (c_pk c) /\ wf_srkdata (c_pkd c) /\
  c_sigoff c = 40 + 76 + 8 + nlen (sd_data (c_pkd c)) /\
  c_sig c <> [] /\ c_siglen c = 8 + nlen (c_sig c) /\ c_len c = c_sigoff c + c_siglen c /\ c_len c < 65536.

Lemma cert_roundtrip_lemma c : wf_cert c ->
  exists b t s, cert_tbs c = Ok t /\ sigc_export (c_siglen c) (c_sig c) = Ok s /\ cert_export c = Ok b /\ b = t ++ s
                /\ nlen t = c_sigoff c /\ firstn (length t) b = t /\ forall extra, cert_parse (b ++ extra) = Ok c.
Proof.
  destruct c as [len sigoff perm pd fuse uuid pk pkd siglen sig]. unfold wf_cert.
  cbn [c_len c_sigoff c_perm c_permdata c_fuse c_uuid c_pk c_pkd c_siglen c_sig].
  intros (Hperm & Hfuse & Hpd & Huu & Hpk & Hpkd & Hso & Hsig & Hsl & Hlen & Hl).
  destruct (srk2_roundtrip pk Hpk) as (rb & Erb & Lrb & Prb).
  destruct (srkdata_roundtrip pkd Hpkd) as (db & Edb & Ldb & Pdb).
  assert (Hsl2 : siglen < 65536) by lia.
  destruct (sigc_roundtrip siglen sig Hsig Hsl Hsl2) as (sb & Esb & Lsb & Psb).
  assert (Hso2 : sigoff < 65536) by lia.
  set (hdr := [2; len mod 256; (len / 256) mod 256; 175; sigoff mod 256; (sigoff / 256) mod 256; N.land (N.lxor perm 255) 255; perm]
              ++ pd ++ [fuse; 0; 0; 0] ++ uuid).
  assert (Lh : length hdr = 40%nat) by (unfold hdr; rewrite !app_length, Hpd, Huu; reflexivity).
  set (c0 := {| c_len := len; c_sigoff := sigoff; c_perm := perm; c_permdata := pd; c_fuse := fuse; c_uuid := uuid; c_pk := pk;
                c_pkd := pkd; c_siglen := siglen; c_sig := sig |}).
  assert (Eh : cert_header c0 = Ok hdr).
  { unfold cert_header, c0. cbn [c_len c_sigoff c_perm c_permdata c_fuse c_uuid]. rewrite !u16_ok by assumption.
    rewrite !u8_ok by assumption. rewrite !extend_exact by assumption. cbn [bind app]. unfold hdr. cbn [app]. repeat rewrite <- app_assoc. reflexivity. }
  assert (Et : cert_tbs c0 = Ok (hdr ++ rb ++ db)).
  { unfold cert_tbs. rewrite Eh. cbn [bind]. unfold c0. cbn [c_pk c_pkd]. now rewrite Erb, Edb. }
  assert (Lt : nlen (hdr ++ rb ++ db) = sigoff).
  { unfold nlen. rewrite !app_length, Lh, Lrb, Ldb. unfold nlen in Hso. lia. }
  exists ((hdr ++ rb ++ db) ++ sb), (hdr ++ rb ++ db), sb. split; [exact Et|]. split; [exact Esb|]. split.
  { unfold cert_export. rewrite Et. cbn [bind]. change (c_siglen c0) with siglen. change (c_sig c0) with sig. rewrite Esb. cbn [bind].
    assert (E : (nlen ((hdr ++ rb ++ db) ++ sb) =? c_len c0) = true).
    { apply N.eqb_eq. rewrite nlen_app, Lt. unfold c0. cbn [c_len]. unfold nlen. rewrite Lsb. unfold nlen in Hsl. lia. }
    now rewrite E. }
  split; [reflexivity|]. split; [exact Lt|]. split; [now apply firstn_app_len|].
  intros extra. unfold cert_parse. unfold head_ok at 1.
  set (b := ((hdr ++ rb ++ db) ++ sb) ++ extra).
  assert (Eb : b = [2; len mod 256; (len / 256) mod 256; 175; sigoff mod 256; (sigoff / 256) mod 256; N.land (N.lxor perm 255) 255; perm]
                   ++ pd ++ [fuse; 0; 0; 0] ++ uuid ++ rb ++ db ++ sb ++ extra).
  { unfold b, hdr. now rewrite <- !app_assoc. }
  assert (Lb : nlen b = len + nlen extra).
  { unfold b. rewrite (nlen_app _ extra), (nlen_app _ sb), Lt. unfold nlen. rewrite Lsb. unfold nlen in Hsl. lia. }
  assert (N0 : nth 0 b 0 = 2) by (rewrite Eb; reflexivity).
  assert (N3 : nth 3 b 0 = 175) by (rewrite Eb; reflexivity).
  assert (N6 : nth 6 b 0 = N.land (N.lxor perm 255) 255) by (rewrite Eb; reflexivity).
  assert (N7 : nth 7 b 0 = perm) by (rewrite Eb; reflexivity).
  assert (D1 : le_dec (firstn 2 (skipn 1 b)) = len) by (rewrite Eb; cbn [app skipn firstn]; now apply le_dec_pair).
  assert (D4 : le_dec (firstn 2 (skipn 4 b)) = sigoff) by (rewrite Eb; cbn [app skipn firstn]; now apply le_dec_pair).
  set (A8 := [2; len mod 256; (len / 256) mod 256; 175; sigoff mod 256; (sigoff / 256) mod 256; N.land (N.lxor perm 255) 255; perm]) in *.
  assert (P8 : firstn 12 (skipn 8 b) = pd).
  { rewrite Eb. rewrite (skipn_app_len A8) by reflexivity. now apply firstn_app_len. }
  assert (N20 : nth 20 b 0 = fuse).
  { rewrite Eb. rewrite (app_assoc A8 pd). apply nth_after. rewrite app_length, Hpd. reflexivity. }
  assert (S24 : skipn 24 b = uuid ++ rb ++ db ++ sb ++ extra).
  { rewrite Eb. rewrite (app_assoc A8 pd). rewrite (app_assoc (A8 ++ pd) [fuse; 0; 0; 0]).
    apply skipn_app_len. rewrite !app_length, Hpd. reflexivity. }
  assert (S40 : skipn 40 b = rb ++ db ++ sb ++ extra).
  { change 40%nat with (24 + 16)%nat. rewrite <- dat_skipn_skipn, S24. now apply skipn_app_len. }
  rewrite N0, N3, D1, Lb. change (g_v2_cert_size <=? len + nlen extra) with (40 <=? len + nlen extra).
  assert (E1 : (40 <=? len + nlen extra) = true) by (apply N.leb_le; unfold nlen in *; lia).
  assert (E2 : (len <=? len + nlen extra) = true) by (apply N.leb_le; lia).
  rewrite E1, E2. change (175 =? g_v2_cert_tag) with true. change (2 =? g_v2_cert_version) with true. cbn [andb negb].
  rewrite N6, N7, N.eqb_refl. cbn [negb]. rewrite S40, Prb. cbn [bind].
  assert (Lp : length (k_params pk) = 64%nat) by (destruct Hpk as (_ & _ & _ & _ & _ & _ & H); exact H). rewrite Lp.
  assert (S116 : skipn (40 + 12 + 64) b = db ++ sb ++ extra).
  { change (40 + 12 + 64)%nat with (40 + 76)%nat. rewrite <- dat_skipn_skipn, S40. now apply skipn_app_len. }
  rewrite S116, Pdb. cbn [bind].
  assert (E3 : (N.of_nat (40 + 12 + 64 + 8 + length (sd_data pkd)) <? sigoff) = false).
  { apply N.ltb_ge. rewrite Hso. unfold nlen. lia. }
  rewrite D4, E3.
  assert (SS : skipn (N.to_nat sigoff) b = sb ++ extra).
  { unfold b. rewrite <- app_assoc. apply skipn_app_len. unfold nlen in Lt. lia. }
  rewrite SS. destruct (Psb extra) as (Q1 & Q2 & Q3). rewrite Q1. cbn [negb]. rewrite Q2.
  assert (E4 : (siglen <? 8) = false) by (apply N.ltb_ge; lia). rewrite E4, Q3, P8, N20.
  rewrite S24. rewrite (firstn_app_len uuid _ 16) by (now rewrite Huu). reflexivity.
Qed.

(* non-vacuity: a concrete well-formed certificate *)
Example wf_cert_nontrivial :
  wf_cert {| c_len := 260; c_sigoff := 188; c_perm := 2; c_permdata := le_enc 4 1297612894 ++ le_enc 4 1023 ++ le_enc 4 0; c_fuse := 1;
             c_uuid := repeat 7 16;
             c_pk := {| k_len := 76; k_alg := 39; k_hash := 0; k_ksid := 1; k_flags := 0; k_params := repeat 5 64 |};
             c_pkd := {| sd_len := 72; sd_id := 0; sd_data := repeat 9 64 |}; c_siglen := 72; c_sig := repeat 3 64 |}.
Proof.
  unfold wf_cert, wf_srk2, wf_srkdata. cbn [c_len c_sigoff c_perm c_permdata c_fuse c_uuid c_pk c_pkd c_siglen c_sig k_len k_alg k_hash k_ksid k_flags k_params sd_len sd_id sd_data].
  repeat split; try reflexivity; try lia; try (cbn; tauto); try discriminate.
  - eexists; reflexivity.
  - cbn [repeat length]. lia.
Qed.
