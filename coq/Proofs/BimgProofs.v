(* Proofs/BimgProofs.v -- C14 lemmas about Model/BimgModel.v and the regenerated tables Gen/GenBimg.v. *)
From Coq Require Import ZArith NArith List Bool Lia ZifyBool.
From Coq Require String.
Require Import Value Bytes BytesProofs GenBimg BimgModel.
Import ListNotations.
Local Open Scope Z_scope.
Ltac Zify.zify_post_hook ::= Z.to_euclidean_division_equations.

(* ================================================================== alignment *)
Lemma align_up_spec n a : 0 < a -> n <= align_up n a /\ (align_up n a) mod a = 0 /\ align_up n a < n + a.
Proof.
  intros Ha. unfold align_up. repeat split.
  - nia.
  - apply Z.mod_mul. lia.
  - nia.
Qed.

Lemma align_up_least n a m : 0 < a -> n <= m -> m mod a = 0 -> align_up n a <= m.
Proof.
  intros Ha Hm Hd. unfold align_up.
  apply Z.mod_divide in Hd; [|lia]. destruct Hd as [q ->].
  assert ((n + (a - 1)) / a < q + 1); [|nia].
  apply Z.div_lt_upper_bound; nia.
Qed.

Lemma align_up_fix n a : 0 < a -> n mod a = 0 -> align_up n a = n.
Proof.
  intros Ha Hd. pose proof (align_up_spec n a Ha) as (H1 & H2 & H3).
  pose proof (align_up_least n a n Ha (Z.le_refl _) Hd). lia.
Qed.

(* shifting by a multiple of the alignment commutes with aligning (parse works in image coordinates) *)
Lemma align_up_shift n a io : 0 < a -> io mod a = 0 -> align_up (n - io) a = align_up n a - io.
Proof.
  intros Ha Hd. apply Z.mod_divide in Hd; [|lia]. destruct Hd as [q ->].
  unfold align_up.
  replace (n - q * a + (a - 1)) with ((n + (a - 1)) + (- q) * a) by lia.
  rewrite Z.div_add by lia. lia.
Qed.

(* ================================================================== list helpers *)
Lemma firstn_repeat_le {A} (x : A) n m : (n <= m)%nat -> firstn n (repeat x m) = repeat x n.
Proof.
  revert m; induction n as [|n IH]; intros m H; [reflexivity|].
  destruct m as [|m]; [lia|]. simpl. f_equal. apply IH. lia.
Qed.

Lemma skipn_repeat {A} (x : A) n m : skipn n (repeat x m) = repeat x (m - n).
Proof.
  revert m; induction n as [|n IH]; intros m.
  - now rewrite Nat.sub_0_r.
  - destruct m as [|m]; [reflexivity|]. simpl. apply IH.
Qed.

Lemma repeat_app_nat {A} (x : A) n m : repeat x (n + m) = repeat x n ++ repeat x m.
Proof. apply repeat_app. Qed.

Lemma zlen_app {A} (a b : list A) : zlen (a ++ b) = zlen a + zlen b.
Proof. unfold zlen. rewrite app_length. lia. Qed.
Lemma zlen_nonneg {A} (a : list A) : 0 <= zlen a.
Proof. unfold zlen. lia. Qed.
Lemma zlen_repeat {A} (x : A) n : zlen (repeat x n) = Z.of_nat n.
Proof. unfold zlen. now rewrite repeat_length. Qed.
Lemma zlen_nil_iff {A} (a : list A) : zlen a = 0 <-> a = [].
Proof. unfold zlen. destruct a; simpl; split; intros H; try reflexivity; try discriminate; lia. Qed.
Lemma is_nil_false_len {A} (a : list A) : is_nil a = false -> 0 < zlen a.
Proof. destruct a; simpl; [discriminate|]. unfold zlen. simpl. lia. Qed.
Lemma is_nil_true {A} (a : list A) : is_nil a = true -> a = [].
Proof. destruct a; simpl; [reflexivity|discriminate]. Qed.

(* ================================================================== well-formed tables *)
(* classes whose parser keeps the whole rest of the image (MBI, HAB, SB2.1, SB3.1) *)
Definition whole_tag (s : seg) : bool := (tag s =? 10) || (tag s =? 11) || (tag s =? 15) || (tag s =? 16).

(* consecutive segments s, s' of a table *)
Definition wf_pair (s s' : seg) : bool :=
  (if 0 <=? fo s' then (0 <=? fo s) && (fo s + Z.max (fsize s) 0 <=? fo s') && (fo s <? fo s')
   else 0 <=? fo s)                                   (* a floating segment follows a fixed one and is the last *)
  && negb (whole_tag s).                               (* whole-rest classes come last *)

Fixpoint wf_chain (l : list seg) : bool :=
  match l with
  | s :: ((s' :: _) as tl) => wf_pair s s' && wf_chain tl
  | _ => true
  end.

Definition wf_seg (l : list seg) (s : seg) : bool :=
  (0 <? algn s) &&
  (if 0 <=? doff s then (doff s mod algn s =? 0)       (* the database offset is where the segment starts *)
   else forallb (fun s' => if 0 <=? fo s' then fo s' mod algn s =? 0 else true) l).
                                                       (* every possible image start keeps the floating alignment *)

Definition wf_tableb (t : table) : bool :=
  match segs t with
  | [] => false
  | s :: _ => (0 <=? fo s) && wf_chain (segs t) && forallb (wf_seg (segs t)) (segs t)
  end.
Definition wf_table (t : table) : Prop := wf_tableb t = true.

Lemma all_tables_wf_lemma : forallb wf_tableb tables = true.
Proof. vm_compute. reflexivity. Qed.

Lemma tables_wf t : In t tables -> wf_table t.
Proof. intros H. exact (proj1 (forallb_forall _ _) all_tables_wf_lemma t H). Qed.

(* every (family, revision, memory type) of the database points at a well-formed layout *)
Definition triple_ok (x : String.string * String.string * String.string * nat) : bool :=
  match nth_error tables (snd x) with Some t => wf_tableb t | None => false end.
Lemma all_triples_indexed_lemma : forallb triple_ok triples = true.
Proof. vm_compute. reflexivity. Qed.

Lemma triples_wf f r m i : In (f, r, m, i) triples -> exists t, nth_error tables i = Some t /\ wf_table t.
Proof.
  intros H. pose proof (proj1 (forallb_forall _ _) all_triples_indexed_lemma _ H) as E.
  unfold triple_ok in E. simpl in E. destruct (nth_error tables i) as [t|]; [|discriminate].
  exists t. split; [reflexivity|exact E].
Qed.

Example triples_nonempty : (Nat.ltb 100 (List.length triples)) = true.
Proof. vm_compute. reflexivity. Qed.


(* literal well-formed layouts used in examples and refutations (independent of the order of the regenerated tables) *)
Definition t_rt1170_nor : table := ex_table_rt1170_nor.
Definition t_rt1010_nor : table :=
  mkTable 0%N [mkSeg 1 0 1 256 false true; mkSeg 2 1024 1 512 true true; mkSeg 11 4096 1 (-1) true false].
Definition t_lpc55s3x_nor : table :=
  mkTable 255%N [mkSeg 2 1024 1 512 true true; mkSeg 5 1536 1 4 false true; mkSeg 10 4096 1 (-1) true false].
Definition t_mx8ulp_nor : table :=
  mkTable 0%N [mkSeg 1 0 1 256 false true; mkSeg 2 1024 1 512 true true; mkSeg 13 4096 1 (-1) true false;
               mkSeg 14 (-1) 1024 (-1) false false].
Example literal_tables_wf :
  wf_table t_rt1170_nor /\ wf_table t_rt1010_nor /\ wf_table t_lpc55s3x_nor /\ wf_table t_mx8ulp_nor.
Proof. repeat split; vm_compute; reflexivity. Qed.

(* ================================================================== offsets: an explicit recursion *)
Definition off_of (pe : Z) (s : seg) : Z := if 0 <=? fo s then fo s else align_up pe (algn s).

Fixpoint place_from (io pe : Z) (l : list (seg * list N)) : list placed :=
  match l with
  | [] => []
  | (s, p) :: tl => let o := off_of pe s in
                    mkPlaced s p (seg_offset io s (Ok o)) :: place_from io (o + zlen p) tl
  end.

Definition mk_placed (io : Z) (x : seg * list N * res Z) : placed :=
  mkPlaced (fst (fst x)) (snd (fst x)) (seg_offset io (fst (fst x)) (snd x)).

Lemma place_some io po pl l :
  map (mk_placed io) (combine l (raw_offsets (Some (Ok po, pl)) l)) = place_from io (po + pl) l.
Proof.
  revert po pl; induction l as [|[s p] tl IH]; intros po pl; [reflexivity|].
  cbn [raw_offsets combine map place_from]. unfold off_of.
  destruct (0 <=? fo s) eqn:E.
  - unfold mk_placed at 1. cbn [fst snd]. f_equal. apply IH.
  - unfold mk_placed at 1. cbn [fst snd]. f_equal. apply IH.
Qed.

Lemma place_none io pe l :
  match l with (s, _) :: _ => 0 <= fo s | [] => True end ->
  map (mk_placed io) (combine l (raw_offsets None l)) = place_from io pe l.
Proof.
  destruct l as [|[s p] tl]; intros H; [reflexivity|].
  cbn [raw_offsets combine map place_from]. unfold off_of.
  destruct (0 <=? fo s) eqn:E; [|lia].
  unfold mk_placed at 1. cbn [fst snd]. f_equal. apply place_some.
Qed.

Lemma place_spec t io ps :
  wf_table t -> place t io ps = place_from io 0 (combine (segs t) ps).
Proof.
  intros W. unfold place. fold (mk_placed io). apply place_none.
  unfold wf_table, wf_tableb in W. destruct (segs t) as [|s tl]; [discriminate|].
  destruct ps as [|p ps]; [exact I|]. cbn [combine]. lia.
Qed.

(* ------------------------------------------------------------------ structure of place_from *)
Lemma place_from_nth io pe l k x :
  nth_error (place_from io pe l) k = Some x ->
  exists pe', nth_error l k = Some (p_seg x, p_data x) /\
              p_off x = seg_offset io (p_seg x) (Ok (off_of pe' (p_seg x))) /\
              (0 <= fo (p_seg x) -> off_of pe' (p_seg x) = fo (p_seg x)).
Proof.
  revert pe k; induction l as [|[s p] tl IH]; intros pe k H.
  - destruct k; discriminate.
  - destruct k as [|k]; cbn [place_from nth_error] in *.
    + injection H as <-. cbn [p_seg p_data p_off]. exists pe. repeat split.
      intros Hs. unfold off_of. destruct (0 <=? fo s) eqn:E; [reflexivity|lia].
    + eapply IH; eassumption.
Qed.

Lemma place_from_consec io pe l k xp x :
  nth_error (place_from io pe l) k = Some xp ->
  nth_error (place_from io pe l) (S k) = Some x ->
  0 <= fo (p_seg xp) ->
  p_off x = seg_offset io (p_seg x) (Ok (off_of (fo (p_seg xp) + zlen (p_data xp)) (p_seg x))).
Proof.
  revert pe k; induction l as [|[s p] tl IH]; intros pe k H1 H2 Hs.
  - destruct k; discriminate.
  - destruct k as [|k]; cbn [place_from nth_error] in *.
    + injection H1 as <-. cbn [p_seg p_data] in *.
      destruct tl as [|[s' p'] tl']; [discriminate|]. cbn [place_from nth_error] in H2.
      injection H2 as <-. cbn [p_seg p_off].
      unfold off_of at 2. destruct (0 <=? fo s) eqn:E; [reflexivity|lia].
    + eapply IH; eassumption.
Qed.

Lemma combine_nth_fst {A B} (a : list A) (b : list B) k x y :
  nth_error (combine a b) k = Some (x, y) -> nth_error a k = Some x.
Proof.
  revert b k; induction a as [|a0 a IH]; intros b k H; [destruct k; discriminate|].
  destruct b as [|b0 b]; [destruct k; discriminate|].
  destruct k as [|k]; cbn in *; [now injection H as -> _|]. eapply IH; eassumption.
Qed.

Lemma wf_chain_nth l k s s' :
  wf_chain l = true -> nth_error l k = Some s -> nth_error l (S k) = Some s' -> wf_pair s s' = true.
Proof.
  revert k; induction l as [|a tl IH]; intros k W H1 H2; [destruct k; discriminate|].
  destruct tl as [|b tl']; [destruct k; cbn in H2; try discriminate; destruct k; discriminate|].
  cbn [wf_chain] in W. apply andb_true_iff in W as [W1 W2].
  destruct k as [|k]; cbn [nth_error] in *.
  - injection H1 as <-. injection H2 as <-. exact W1.
  - eapply IH; eassumption.
Qed.

Lemma wf_table_parts t : wf_table t ->
  wf_chain (segs t) = true /\ forallb (wf_seg (segs t)) (segs t) = true /\
  match segs t with s :: _ => 0 <= fo s | [] => False end.
Proof.
  unfold wf_table, wf_tableb. destruct (segs t) as [|s tl] eqn:E; [discriminate|].
  intros H. apply andb_true_iff in H as [H H3]. apply andb_true_iff in H as [H1 H2].
  repeat split; try assumption. lia.
Qed.

Lemma wf_static_offset t s : wf_table t -> In s (segs t) -> 0 <= doff s -> fo s = doff s /\ 0 < algn s.
Proof.
  intros W Hin Hd. destruct (wf_table_parts t W) as (_ & F & _).
  pose proof (proj1 (forallb_forall _ _) F s Hin) as E. unfold wf_seg in E.
  apply andb_true_iff in E as [Ea Eb]. destruct (0 <=? doff s) eqn:E0; [|lia].
  unfold fo. destruct (doff s <? 0) eqn:E1; [lia|].
  split; [|lia]. apply align_up_fix; lia.
Qed.

Lemma wf_algn t s : wf_table t -> In s (segs t) -> 0 < algn s.
Proof.
  intros W Hin. destruct (wf_table_parts t W) as (_ & F & _).
  pose proof (proj1 (forallb_forall _ _) F s Hin) as E. unfold wf_seg in E.
  apply andb_true_iff in E as [Ea _]. lia.
Qed.

Lemma fo_neg_iff s : fo s < 0 <-> doff s < 0 \/ False.
Proof. Abort.

Lemma fo_dyn s : 0 < algn s -> (fo s < 0 <-> doff s < 0).
Proof.
  intros Ha. unfold fo. destruct (doff s <? 0) eqn:E; [lia|].
  pose proof (align_up_spec (doff s) (algn s) Ha). lia.
Qed.

(* ------------------------------------------------------------------ property: offsets as the database prescribes *)
Lemma offsets_as_prescribed_lemma t io ps k x :
  wf_table t -> nth_error (place t io ps) k = Some x ->
  0 <= doff (p_seg x) -> excluded io (p_seg x) = false ->
  p_off x = Ok (doff (p_seg x) - io).
Proof.
  intros W H Hd Hx. rewrite (place_spec t io ps W) in H.
  destruct (place_from_nth _ _ _ _ _ H) as (pe' & Hn & Ho & Hs).
  apply combine_nth_fst in Hn. apply nth_error_In in Hn.
  destruct (wf_static_offset t _ W Hn Hd) as [Hf Ha].
  rewrite Ho, Hs by lia. unfold seg_offset. rewrite Hx. cbn. now rewrite Hf.
Qed.

(* ------------------------------------------------------------------ property: floating offsets *)
Lemma dynamic_offset_lemma t io ps k xp x :
  wf_table t -> nth_error (place t io ps) k = Some xp -> nth_error (place t io ps) (S k) = Some x ->
  doff (p_seg x) < 0 ->
  let e := doff (p_seg xp) + zlen (p_data xp) in
  let a := algn (p_seg x) in
  exists o, p_off x = Ok o /\ 0 <= doff (p_seg xp) /\ 0 < a /\
            e <= o + io /\ (o + io) mod a = 0 /\ o + io < e + a /\
            (forall m, e <= m -> m mod a = 0 -> o + io <= m).
Proof.
  intros W H1 H2 Hd e a. rewrite (place_spec t io ps W) in H1, H2.
  destruct (place_from_nth _ _ _ _ _ H1) as (pe1 & Hn1 & _ & _).
  destruct (place_from_nth _ _ _ _ _ H2) as (pe2 & Hn2 & _ & _).
  apply combine_nth_fst in Hn1, Hn2.
  destruct (wf_table_parts t W) as (C & _ & _).
  pose proof (wf_chain_nth _ _ _ _ C Hn1 Hn2) as P.
  pose proof (wf_algn t _ W (nth_error_In _ _ Hn2)) as Ha. fold a in Ha.
  assert (Hfx : fo (p_seg x) < 0) by (apply fo_dyn; assumption).
  unfold wf_pair in P. apply andb_true_iff in P as [P _].
  destruct (0 <=? fo (p_seg x)) eqn:E; [lia|].
  assert (Hsp : 0 <= fo (p_seg xp)) by lia.
  assert (Hdp : 0 <= doff (p_seg xp)).
  { destruct (Z_lt_le_dec (doff (p_seg xp)) 0) as [Hneg|]; [|assumption].
    apply (fo_dyn _ (wf_algn t _ W (nth_error_In _ _ Hn1))) in Hneg. lia. }
  destruct (wf_static_offset t _ W (nth_error_In _ _ Hn1) Hdp) as [Hfp _].
  pose proof (place_from_consec _ _ _ _ _ _ H1 H2 Hsp) as Ho.
  unfold off_of in Ho. rewrite E in Ho. rewrite Hfp in Ho. fold e a in Ho.
  unfold seg_offset, excluded in Ho. rewrite E, andb_false_r in Ho. cbn in Ho.
  exists (align_up e a - io). split; [exact Ho|].
  pose proof (align_up_spec e a Ha) as (A1 & A2 & A3).
  repeat split; try assumption; try lia.
  - replace (align_up e a - io + io) with (align_up e a) by lia. exact A2.
  - intros m Hm Hmod. pose proof (align_up_least e a m Ha Hm Hmod). lia.
Qed.

(* ------------------------------------------------------------------ sizes that fit *)
(* "payload sizes up to the next segment's offset": a payload never reaches into the next fixed segment *)
Fixpoint fits_l (l : list (seg * list N)) : Prop :=
  match l with
  | (s, p) :: (((s', _) :: _) as tl) => (0 <= fo s' -> fo s + zlen p <= fo s') /\ fits_l tl
  | _ => True
  end.
Definition fits (t : table) (ps : list (list N)) : Prop := fits_l (combine (segs t) ps).

(* every segment starts at or after the end of its predecessor *)
Fixpoint chain_l (pe : Z) (l : list (seg * list N)) : Prop :=
  match l with
  | [] => True
  | (s, p) :: tl => 0 < algn s /\ pe <= off_of pe s /\ (fo s < 0 -> tl = []) /\ chain_l (off_of pe s + zlen p) tl
  end.

Lemma wf_chain_combine (a : list seg) (b : list (list N)) : wf_chain a = true -> wf_chain (map fst (combine a b)) = true.
Proof.
  revert b; induction a as [|s tl IH]; intros b W; [reflexivity|].
  destruct b as [|p b]; [reflexivity|]. cbn [combine map].
  destruct tl as [|s' tl']; [reflexivity|]. destruct b as [|p' b']; [reflexivity|].
  cbn [wf_chain] in W. apply andb_true_iff in W as [W1 W2].
  specialize (IH (p' :: b') W2). cbn [combine map fst] in IH |- *.
  change (wf_pair s s' && wf_chain (s' :: map fst (combine tl' b')) = true).
  now rewrite W1, IH.
Qed.

Lemma chain_of_fits pe l :
  wf_chain (map fst l) = true -> (forall s, In s (map fst l) -> 0 < algn s) -> fits_l l ->
  match l with (s, _) :: _ => 0 <= fo s -> pe <= fo s | [] => True end ->
  chain_l pe l.
Proof.
  revert pe; induction l as [|[s p] tl IH]; intros pe W A F H; [exact I|].
  cbn [chain_l]. assert (Ha : 0 < algn s) by (apply A; now left).
  assert (Hpe : pe <= off_of pe s).
  { unfold off_of. destruct (0 <=? fo s) eqn:E; [apply H; lia|]. apply align_up_spec; assumption. }
  destruct tl as [|[s' p'] tl']; [cbn [chain_l]; auto|].
  cbn [map wf_chain] in W. apply andb_true_iff in W as [W1 W2].
  cbn [fits_l] in F. destruct F as [F1 F2].
  assert (Hst : 0 <= fo s).
  { unfold wf_pair in W1. apply andb_true_iff in W1 as [W1 _]. cbn [fst] in W1.
    destruct (0 <=? fo s'); lia. }
  split; [assumption|]. split; [assumption|]. split; [lia|].
  apply IH; try assumption.
  - intros x Hx. apply A. now right.
  - intros Hs'. unfold wf_pair in W1. apply andb_true_iff in W1 as [W1 _]. cbn [fst] in W1.
    destruct (0 <=? fo s') eqn:E'; [|lia].
    unfold off_of. destruct (0 <=? fo s) eqn:E; [|lia]. apply F1. lia.
Qed.

Lemma chain_of_table t ps : wf_table t -> fits t ps -> chain_l 0 (combine (segs t) ps).
Proof.
  intros W F. destruct (wf_table_parts t W) as (C & _ & H0).
  apply chain_of_fits; try assumption.
  - now apply wf_chain_combine.
  - intros s Hs. apply (wf_algn t s W). apply in_map_iff in Hs as ((s0 & p0) & <- & Hin).
    now apply in_combine_l in Hin.
  - destruct (segs t) as [|s tl]; [contradiction|]. destruct ps; [exact I|]. cbn [combine]. lia.
Qed.

Lemma chain_ge io pe l k x o :
  chain_l pe l -> nth_error (place_from io pe l) k = Some x -> p_off x = Ok o -> pe - io <= o.
Proof.
  revert pe k; induction l as [|[s p] tl IH]; intros pe k C H Ho; [destruct k; discriminate|].
  cbn [chain_l] in C. destruct C as (Ha & Hpe & _ & C').
  destruct k as [|k]; cbn [place_from nth_error] in H.
  - injection H as <-. cbn [p_off] in Ho. unfold seg_offset in Ho.
    destruct (excluded io s); [discriminate|]. cbn in Ho. injection Ho as <-. lia.
  - pose proof (IH _ _ C' H Ho). pose proof (zlen_nonneg p). lia.
Qed.

Lemma chain_disjoint io pe l i j xi xj oi oj :
  chain_l pe l -> (i < j)%nat ->
  nth_error (place_from io pe l) i = Some xi -> nth_error (place_from io pe l) j = Some xj ->
  p_off xi = Ok oi -> p_off xj = Ok oj -> oi + zlen (p_data xi) <= oj.
Proof.
  revert pe i j; induction l as [|[s p] tl IH]; intros pe i j C Hij Hi Hj Hoi Hoj; [destruct i; discriminate|].
  cbn [chain_l] in C. destruct C as (Ha & Hpe & _ & C').
  destruct j as [|j]; [lia|]. cbn [place_from nth_error] in Hj.
  destruct i as [|i]; cbn [place_from nth_error] in Hi.
  - injection Hi as <-. cbn [p_off p_data] in *. unfold seg_offset in Hoi.
    destruct (excluded io s); [discriminate|]. cbn in Hoi. injection Hoi as <-.
    pose proof (chain_ge _ _ _ _ _ _ C' Hj Hoj). lia.
  - apply (IH _ i j C'); try assumption. lia.
Qed.

Lemma no_overlap_lemma t io ps i j xi xj oi oj :
  wf_table t -> fits t ps -> (i < j)%nat ->
  nth_error (place t io ps) i = Some xi -> nth_error (place t io ps) j = Some xj ->
  p_off xi = Ok oi -> p_off xj = Ok oj ->
  oi + zlen (p_data xi) <= oj.
Proof.
  intros W F Hij Hi Hj Hoi Hoj. rewrite (place_spec t io ps W) in Hi, Hj.
  eapply chain_disjoint; try eassumption. now apply chain_of_table.
Qed.

(* the hypotheses are satisfiable with non-trivial payloads: the i.MX RT1170 NOR layout completely filled *)
Example fits_example :
  let t := t_rt1170_nor in
  wf_table t /\ fits t [syn 129 1024; syn 130 1024; syn 131 2048; syn 132 5000].
Proof. split; [vm_compute; reflexivity|]. cbn. repeat split; vm_compute; intros; discriminate. Qed.

(* ================================================================== merge = the flat layout *)
(* present sub-images in table order: (offset in the image, bytes) *)
Fixpoint subs_of (io : Z) (pl : list placed) : list (Z * list N) :=
  match pl with
  | [] => []
  | x :: tl => if present io x then
                 match p_off x with Ok o => (o, p_data x) :: subs_of io tl | Err _ => subs_of io tl end
               else subs_of io tl
  end.

Fixpoint sorted_from (cur : Z) (l : list (Z * list N)) : Prop :=
  match l with [] => True | (o, d) :: tl => cur <= o /\ sorted_from (o + zlen d) tl end.
Fixpoint end_of (cur : Z) (l : list (Z * list N)) : Z :=
  match l with [] => cur | (o, d) :: tl => end_of (o + zlen d) tl end.
(* the image the property prescribes: pattern, segment, pattern, segment ... *)
Fixpoint flat (f : N) (cur : Z) (l : list (Z * list N)) : list N :=
  match l with
  | [] => []
  | (o, d) :: tl => repeat f (Z.to_nat (o - cur)) ++ d ++ flat f (o + zlen d) tl
  end.

Lemma sorted_weaken c c' l : c' <= c -> sorted_from c l -> sorted_from c' l.
Proof. destruct l as [|[o d] tl]; cbn; [trivial|]. intros H [H1 H2]. split; [lia|assumption]. Qed.

Lemma end_of_ge cur l : sorted_from cur l -> cur <= end_of cur l.
Proof.
  revert cur; induction l as [|[o d] tl IH]; intros cur S; cbn in *; [lia|].
  destruct S as [S1 S2]. specialize (IH _ S2). pose proof (zlen_nonneg d). lia.
Qed.

Lemma flat_length f cur l : sorted_from cur l -> zlen (flat f cur l) = end_of cur l - cur.
Proof.
  revert cur; induction l as [|[o d] tl IH]; intros cur S; cbn in *; [unfold zlen; simpl; lia|].
  destruct S as [S1 S2]. rewrite !zlen_app, zlen_repeat, (IH _ S2). lia.
Qed.

Lemma insert_img_append x acc : Forall (fun y => fst y <= fst x) acc -> insert_img x acc = acc ++ [x].
Proof.
  induction acc as [|y tl IH]; intros F; [reflexivity|]. inversion F as [|? ? Hy Ht]; subst.
  cbn [insert_img]. destruct (fst x <? fst y) eqn:E; [lia|]. cbn. f_equal. now apply IH.
Qed.

(* present segments of place_from have an offset *)
Lemma place_from_present_ok io pe l x : In x (place_from io pe l) -> present io x = true -> exists o, p_off x = Ok o.
Proof.
  revert pe; induction l as [|[s p] tl IH]; intros pe Hin Hp; [contradiction|].
  cbn [place_from] in Hin. destruct Hin as [<-|Hin]; [|eapply IH; eassumption].
  unfold present in Hp. cbn [p_seg p_data p_off] in *. apply andb_true_iff in Hp as [Hx _].
  unfold seg_offset. destruct (excluded io s); [discriminate|]. cbn. eexists; reflexivity.
Qed.

(* io is 0 or the start of a segment still ahead, or already passed *)
Definition ahead (io pe : Z) (l : list (seg * list N)) : Prop :=
  io <= pe \/ exists s p, In (s, p) l /\ fo s = io.

Lemma subs_sorted io pe l :
  chain_l pe l -> ahead io pe l -> 0 <= pe ->
  sorted_from (Z.max 0 (pe - io)) (subs_of io (place_from io pe l)).
Proof.
  revert pe; induction l as [|[s p] tl IH]; intros pe C A Hpe; [exact I|].
  cbn [chain_l] in C. destruct C as (Ha & Hle & Hlast & C').
  assert (A' : ahead io (off_of pe s + zlen p) tl).
  { pose proof (zlen_nonneg p). destruct A as [A|(s0 & p0 & [E|Hin] & Hf)].
    - left. lia.
    - injection E as -> ->. left. unfold off_of. destruct (0 <=? fo s0) eqn:E0; [lia|].
      pose proof (align_up_spec pe (algn s0) Ha). lia.
    - right. exists s0, p0. split; assumption. }
  assert (Hpe' : 0 <= off_of pe s + zlen p) by (pose proof (zlen_nonneg p); lia).
  specialize (IH _ C' A' Hpe').
  cbn [place_from subs_of]. unfold present at 1. cbn [p_seg p_data p_off]. unfold seg_offset.
  destruct (excluded io s) eqn:Ex; cbn [negb andb].
  - eapply sorted_weaken; [|exact IH]. pose proof (zlen_nonneg p). lia.
  - destruct (is_nil p) eqn:En; cbn [negb].
    + eapply sorted_weaken; [|exact IH]. pose proof (zlen_nonneg p). lia.
    + cbn [res_map sorted_from]. split.
      * (* 0 <= o and pe - io <= o *)
        assert (0 <= off_of pe s - io); [|lia].
        unfold excluded in Ex. unfold off_of in *. destruct (0 <=? fo s) eqn:E0.
        -- lia.
        -- destruct A as [A|(s0 & p0 & [E|Hin] & Hf)].
           ++ lia.
           ++ injection E as -> ->. lia.
           ++ rewrite Hlast in Hin by lia. contradiction.
      * eapply sorted_weaken; [|exact IH]. lia.
Qed.

Lemma sorted_all_le cur l : sorted_from cur l -> Forall (fun y => fst y <= end_of cur l) l /\ cur <= end_of cur l.
Proof.
  revert cur; induction l as [|[o d] tl IH]; intros cur S; cbn in *; [split; [constructor|lia]|].
  destruct S as [S1 S2]. destruct (IH _ S2) as [F1 F2]. pose proof (zlen_nonneg d).
  split; [|lia]. constructor; [cbn; lia|assumption].
Qed.

Lemma sorted_app cur a o d :
  sorted_from cur a -> end_of cur a <= o -> sorted_from cur (a ++ [(o, d)]) /\ end_of cur (a ++ [(o, d)]) = o + zlen d.
Proof.
  revert cur; induction a as [|[o1 d1] tl IH]; intros cur S H; cbn in *.
  - repeat split; lia.
  - destruct S as [S1 S2]. destruct (IH _ S2 H) as [I1 I2]. repeat split; assumption.
Qed.

(* BinaryImage.add_image keeps the table order when offsets never decrease *)
Lemma sub_images_sorted io pe l acc c0 :
  chain_l pe l -> ahead io pe l -> 0 <= pe ->
  sorted_from c0 acc -> end_of c0 acc <= Z.max 0 (pe - io) ->
  sub_images io (place_from io pe l) acc = Ok (acc ++ subs_of io (place_from io pe l)) /\
  sorted_from c0 (acc ++ subs_of io (place_from io pe l)).
Proof.
  revert pe acc; induction l as [|[s p] tl IH]; intros pe acc C A Hpe Sa He.
  - cbn. rewrite app_nil_r. split; [reflexivity|assumption].
  - pose proof (subs_sorted io pe _ C A Hpe) as SS.
    cbn [chain_l] in C. destruct C as (Ha & Hle & Hlast & C').
    assert (A' : ahead io (off_of pe s + zlen p) tl).
    { pose proof (zlen_nonneg p). destruct A as [A|(s0 & p0 & [E|Hin] & Hf)].
      - left. lia.
      - injection E as -> ->. left. unfold off_of. destruct (0 <=? fo s0) eqn:E0; [lia|].
        pose proof (align_up_spec pe (algn s0) Ha). lia.
      - right. exists s0, p0. split; assumption. }
    assert (Hpe' : 0 <= off_of pe s + zlen p) by (pose proof (zlen_nonneg p); lia).
    cbn [place_from subs_of sub_images] in *. unfold present in *. cbn [p_seg p_data p_off] in *.
    unfold seg_offset in *.
    destruct (excluded io s) eqn:Ex; cbn [negb andb] in *.
    + apply IH; try assumption. pose proof (zlen_nonneg p). lia.
    + destruct (is_nil p) eqn:En; cbn [negb] in *.
      * apply IH; try assumption. pose proof (zlen_nonneg p). lia.
      * cbn [res_map] in *. cbn [sorted_from] in SS. destruct SS as [SS1 SS2].
        destruct (sorted_all_le _ _ Sa) as [Fa _].
        rewrite insert_img_append.
        2:{ cbn [fst]. eapply Forall_impl; [|exact Fa]. cbn. intros y Hy. lia. }
        destruct (sorted_app c0 acc (off_of pe s - io) p Sa) as [Sb Eb]; [lia|].
        specialize (IH (off_of pe s + zlen p) (acc ++ [(off_of pe s - io, p)]) C' A' Hpe' Sb).
        rewrite <- app_assoc in IH. cbn [app] in IH. apply IH. rewrite Eb. lia.
Qed.

Lemma subs_of_app io a b : subs_of io (a ++ b) = subs_of io a ++ subs_of io b.
Proof.
  induction a as [|x tl IH]; [reflexivity|]. cbn [app subs_of].
  destruct (present io x); [|exact IH]. destruct (p_off x); [|exact IH]. cbn. now rewrite IH.
Qed.

Lemma end_of_app cur a o d : end_of cur (a ++ [(o, d)]) = o + zlen d.
Proof. revert cur; induction a as [|[o1 d1] tl IH]; intros cur; cbn; [reflexivity|apply IH]. Qed.

(* __len__ = end of the last present segment *)
Lemma total_len_subs io pl c :
  (forall x, In x pl -> present io x = true -> exists o, p_off x = Ok o) ->
  total_len io pl = match subs_of io pl with [] => Err 2%N | _ => Ok (end_of c (subs_of io pl)) end.
Proof.
  induction pl as [|x tl IH] using rev_ind; intros H; [reflexivity|].
  unfold total_len. rewrite filter_app, rev_app_distr, subs_of_app. cbn [filter subs_of].
  destruct (present io x) eqn:Px.
  - destruct (H x) as [o Ho]; [apply in_or_app; right; now left|assumption|].
    rewrite Ho. cbn [rev app]. rewrite Ho. cbn [res_map].
    destruct (subs_of io tl ++ [(o, p_data x)]) eqn:E; [destruct (subs_of io tl); discriminate|].
    rewrite <- E, end_of_app. reflexivity.
  - cbn [rev app]. rewrite app_nil_r. apply IH. intros y Hy. apply H. apply in_or_app. now left.
Qed.

(* sequential writes into the pattern block produce the flat layout *)
Lemma write_all_flat f l done cur tot :
  0 <= cur -> zlen done = cur -> sorted_from cur l -> end_of cur l <= tot ->
  write_all (done ++ repeat f (Z.to_nat (tot - cur))) l
  = Ok (done ++ flat f cur l ++ repeat f (Z.to_nat (tot - end_of cur l))).
Proof.
  revert done cur; induction l as [|[o d] tl IH]; intros done cur Hc Hd S He; cbn [write_all flat end_of] in *.
  - reflexivity.
  - destruct S as [S1 S2]. pose proof (end_of_ge _ _ S2) as Hge. pose proof (zlen_nonneg d) as Hdl.
    unfold write_at. rewrite zlen_app, zlen_repeat.
    destruct ((o <? 0) || (zlen done + Z.of_nat (Z.to_nat (tot - cur)) <? o + zlen d)) eqn:E; [lia|].
    assert (Hsp : splice (done ++ repeat f (Z.to_nat (tot - cur))) (Z.to_nat o) d
                  = (done ++ repeat f (Z.to_nat (o - cur)) ++ d) ++ repeat f (Z.to_nat (tot - (o + zlen d)))).
    { unfold splice. unfold zlen in *.
      rewrite firstn_app, skipn_app.
      replace (Z.to_nat o - length done)%nat with (Z.to_nat (o - cur)) by lia.
      rewrite firstn_all2 by lia.
      rewrite firstn_repeat_le by lia.
      rewrite (skipn_all2 done) by lia. rewrite skipn_repeat. cbn [app].
      replace (Z.to_nat (tot - cur) - (Z.to_nat o + length d - length done))%nat
        with (Z.to_nat (tot - (o + Z.of_nat (length d)))) by lia.
      now rewrite <- !app_assoc. }
    rewrite Hsp. rewrite (IH _ (o + zlen d)); try assumption; try lia.
    + now rewrite <- !app_assoc.
    + rewrite !zlen_app, zlen_repeat. lia.
Qed.

Definition valid_start (t : table) (io : Z) : Prop := io = 0 \/ exists s, In s (segs t) /\ fo s = io /\ 0 <= io.

Lemma ahead_of_start t io ps :
  List.length ps = List.length (segs t) -> valid_start t io -> ahead io 0 (combine (segs t) ps).
Proof.
  intros Hl [->|(s & Hin & Hf & H0)]; [left; lia|].
  right. apply In_nth_error in Hin as [k Hk].
  assert (Hk' : (k < List.length ps)%nat) by (rewrite Hl; apply nth_error_Some; congruence).
  destruct (nth_error ps k) as [p|] eqn:Ep; [|apply nth_error_None in Ep; lia].
  exists s, p. split; [|assumption].
  apply (nth_error_In _ k). revert ps k Hk Ep Hl Hk'. generalize (segs t).
  induction l as [|a l IH]; intros ps k Hk Ep Hl Hk'; [destruct k; discriminate|].
  destruct ps as [|q ps]; [destruct k; discriminate|].
  destruct k as [|k]; cbn in *; [congruence|]. apply IH; try assumption; lia.
Qed.

(* the merged image is exactly the flat layout of the present segments *)
Lemma merge_flat t io ps :
  wf_table t -> List.length ps = List.length (segs t) -> fits t ps -> valid_start t io ->
  subs_of io (place t io ps) <> [] ->
  merge t io ps = Ok (flat (fillb t) 0 (subs_of io (place t io ps))) /\
  sorted_from 0 (subs_of io (place t io ps)).
Proof.
  intros W Hl F V Hne. unfold merge. rewrite (place_spec t io ps W) in *.
  set (l := combine (segs t) ps) in *.
  pose proof (chain_of_table t ps W F) as C. fold l in C.
  pose proof (ahead_of_start t io ps Hl V) as A. fold l in A.
  destruct (sub_images_sorted io 0 l [] 0 C A (Z.le_refl _) I) as [E1 E2]; [cbn; lia|].
  cbn [app] in E1, E2.
  rewrite (total_len_subs io _ 0).
  2:{ intros x Hx Hp. eapply place_from_present_ok; eassumption. }
  destruct (subs_of io (place_from io 0 l)) as [|y tl] eqn:Es; [congruence|]. rewrite <- Es in *.
  rewrite E1. split; [|assumption].
  pose proof (write_all_flat (fillb t) (subs_of io (place_from io 0 l)) [] 0 (end_of 0 (subs_of io (place_from io 0 l)))
                (Z.le_refl _) eq_refl E2 (Z.le_refl _)) as Wf.
  cbn [app] in Wf. rewrite Z.sub_0_r in Wf. rewrite Wf.
  rewrite Z.sub_diag. cbn. now rewrite app_nil_r.
Qed.

(* ------------------------------------------------------------------ reading the flat layout *)
Lemma flat_skip f cur l o d :
  0 <= cur -> sorted_from cur l -> In (o, d) l ->
  exists rest, zskip (o - cur) (flat f cur l) = d ++ rest.
Proof.
  revert cur; induction l as [|[o1 d1] tl IH]; intros cur Hc S Hin; [contradiction|].
  cbn [sorted_from flat] in *. destruct S as [S1 S2]. destruct Hin as [E|Hin].
  - injection E as -> ->. exists (flat f (o + zlen d) tl). unfold zskip.
    rewrite skipn_app, repeat_length, Nat.sub_diag. rewrite skipn_all2 by (rewrite repeat_length; lia). reflexivity.
  - pose proof (zlen_nonneg d1) as Hd1.
    destruct (IH (o1 + zlen d1)) as [rest Hr]; try assumption; [lia|].
    exists rest. rewrite <- Hr. unfold zskip.
    assert (Hge : o1 + zlen d1 <= o).
    { clear -S2 Hin. revert S2. generalize (o1 + zlen d1). induction tl as [|[o2 d2] tl IH]; intros c S; [contradiction|].
      cbn in S. destruct S as [Sa Sb]. destruct Hin as [E|Hin]; [injection E as -> ->; lia|].
      specialize (IH Hin _ Sb). pose proof (zlen_nonneg d2). lia. }
    rewrite skipn_app, repeat_length. rewrite skipn_all2 by (rewrite repeat_length; lia). cbn [app].
    rewrite skipn_app. unfold zlen in *. rewrite skipn_all2 by lia. cbn [app].
    f_equal. lia.
Qed.

Lemma nth_repeat_lt {A} (x d : A) k m : (k < m)%nat -> nth k (repeat x m) d = x.
Proof. revert k; induction m as [|m IH]; intros k H; [lia|]. destruct k; cbn; [reflexivity|]. apply IH. lia. Qed.

Lemma flat_gap f cur l i dflt :
  0 <= cur -> sorted_from cur l -> cur <= i < end_of cur l ->
  (forall o d, In (o, d) l -> ~ (o <= i < o + zlen d)) ->
  nth (Z.to_nat (i - cur)) (flat f cur l) dflt = f.
Proof.
  revert cur; induction l as [|[o1 d1] tl IH]; intros cur Hc S Hi Hout; cbn [sorted_from flat end_of] in *; [lia|].
  destruct S as [S1 S2]. pose proof (zlen_nonneg d1) as Hd1.
  pose proof (Hout o1 d1 (or_introl eq_refl)) as H1.
  destruct (Z_lt_le_dec i o1) as [Hlt|Hge].
  - rewrite app_nth1 by (rewrite repeat_length; lia). apply nth_repeat_lt. lia.
  - assert (Hi2 : o1 + zlen d1 <= i) by lia.
    rewrite app_nth2 by (rewrite repeat_length; lia). rewrite repeat_length.
    unfold zlen in *. rewrite app_nth2 by lia.
    replace (Z.to_nat (i - cur) - Z.to_nat (o1 - cur) - length d1)%nat
      with (Z.to_nat (i - (o1 + Z.of_nat (length d1)))) by lia.
    apply IH; try assumption; try lia.
    intros o d Hin. apply Hout. now right.
Qed.

Lemma subs_in io pl k x o :
  nth_error pl k = Some x -> present io x = true -> p_off x = Ok o -> In (o, p_data x) (subs_of io pl).
Proof.
  revert k; induction pl as [|y tl IH]; intros k H Hp Ho; [destruct k; discriminate|].
  destruct k as [|k]; cbn [nth_error subs_of] in *.
  - injection H as ->. rewrite Hp, Ho. now left.
  - specialize (IH _ H Hp Ho). destruct (present io y); [|assumption]. destruct (p_off y); [now right|assumption].
Qed.

Lemma subs_in_inv io pl o d :
  In (o, d) (subs_of io pl) -> exists k x, nth_error pl k = Some x /\ present io x = true /\ p_off x = Ok o /\ d = p_data x.
Proof.
  induction pl as [|y tl IH]; intros Hin; [contradiction|]. cbn [subs_of] in Hin.
  assert (Htl : In (o, d) (subs_of io tl) ->
                exists k x, nth_error (y :: tl) k = Some x /\ present io x = true /\ p_off x = Ok o /\ d = p_data x).
  { intros H. destruct (IH H) as (k & x & H1 & H2). exists (S k), x. split; assumption. }
  destruct (present io y) eqn:Py; [|auto]. destruct (p_off y) as [oy|] eqn:Oy; [|auto].
  destruct Hin as [E|Hin]; [|auto]. injection E as <- <-. exists 0%nat, y. repeat split; assumption.
Qed.

Lemma subs_nonempty io pl k x o : nth_error pl k = Some x -> present io x = true -> p_off x = Ok o -> subs_of io pl <> [].
Proof. intros H1 H2 H3 E. pose proof (subs_in io pl k x o H1 H2 H3) as Hin. rewrite E in Hin. contradiction. Qed.

(* ------------------------------------------------------------------ property: segments intact, gaps = pattern *)
Lemma segments_intact_lemma t io ps k x o img :
  wf_table t -> List.length ps = List.length (segs t) -> fits t ps -> valid_start t io ->
  nth_error (place t io ps) k = Some x -> present io x = true -> p_off x = Ok o ->
  merge t io ps = Ok img ->
  zfirst (zlen (p_data x)) (zskip o img) = p_data x.
Proof.
  intros W Hl F V Hk Hp Ho Hm.
  destruct (merge_flat t io ps W Hl F V (subs_nonempty _ _ _ _ _ Hk Hp Ho)) as [E S].
  rewrite E in Hm. injection Hm as <-.
  destruct (flat_skip (fillb t) 0 _ o (p_data x) (Z.le_refl _) S (subs_in _ _ _ _ _ Hk Hp Ho)) as [rest Hr].
  rewrite Z.sub_0_r in Hr. rewrite Hr. unfold zfirst, zlen. rewrite Nat2Z.id.
  rewrite firstn_app, Nat.sub_diag, firstn_all. cbn. now rewrite app_nil_r.
Qed.

Lemma gaps_are_pattern_lemma t io ps img :
  wf_table t -> List.length ps = List.length (segs t) -> fits t ps -> valid_start t io ->
  merge t io ps = Ok img ->
  total_len io (place t io ps) = Ok (zlen img) /\
  forall i, 0 <= i < zlen img ->
    (forall k x o, nth_error (place t io ps) k = Some x -> present io x = true -> p_off x = Ok o ->
                   ~ (o <= i < o + zlen (p_data x))) ->
    nth_error img (Z.to_nat i) = Some (fillb t).
Proof.
  intros W Hl F V Hm.
  assert (Hne : subs_of io (place t io ps) <> []).
  { intros E. unfold merge in Hm.
    rewrite (total_len_subs io _ 0) in Hm.
    - rewrite E in Hm. discriminate.
    - intros x Hx Hp. rewrite (place_spec t io ps W) in Hx. eapply place_from_present_ok; eassumption. }
  destruct (merge_flat t io ps W Hl F V Hne) as [E S].
  rewrite E in Hm. injection Hm as <-.
  pose proof (flat_length (fillb t) 0 _ S) as Hlen. rewrite Z.sub_0_r in Hlen.
  split.
  - rewrite (total_len_subs io _ 0).
    + destruct (subs_of io (place t io ps)); [congruence|]. now rewrite Hlen.
    + intros x Hx Hp. rewrite (place_spec t io ps W) in Hx. eapply place_from_present_ok; eassumption.
  - intros i Hi Hout.
    assert (Hn : nth (Z.to_nat (i - 0)) (flat (fillb t) 0 (subs_of io (place t io ps))) 256%N = fillb t).
    { apply flat_gap; try assumption; try lia.
      intros o d Hin. destruct (subs_in_inv _ _ _ _ Hin) as (k & x & H1 & H2 & H3 & ->). eapply Hout; eassumption. }
    rewrite Z.sub_0_r in Hn. rewrite <- Hn at 2. apply nth_error_nth'. unfold zlen in *. lia.
Qed.

(* ------------------------------------------------------------------ property: init offset *)
Lemma fold_min_spec l o :
  (fold_left Z.min l o = o \/ In (fold_left Z.min l o) l) /\ fold_left Z.min l o <= o /\
  forall x, In x l -> fold_left Z.min l o <= x.
Proof.
  revert o; induction l as [|a tl IH]; intros o; cbn [fold_left In].
  - split; [now left|]. split; [lia|]. intros x [].
  - destruct (IH (Z.min o a)) as (H1 & H2 & H3).
    set (m := fold_left Z.min tl (Z.min o a)) in *.
    split; [|split].
    + destruct H1 as [H1|H1]; [|right; right; exact H1].
      destruct (Z.min_spec o a) as [[_ E]|[_ E]]; rewrite E in H1; [left; exact H1|right; left; now symmetry].
    + lia.
    + intros x [<-|Hx]; [lia|auto].
Qed.

(* a positive init offset snaps to the closest segment start at or above it (floating segments do not count) and is refused
   (SPSDK error) beyond the last fixed segment -- on every layout *)
Lemma init_offset_snaps_lemma t r : 0 < r ->
  match set_init t r with
  | Ok io => (exists s, In s (segs t) /\ fo s = io) /\ r <= io /\ (forall s, In s (segs t) -> r <= fo s -> io <= fo s)
  | Err k => k = 1%N /\ forall s, In s (segs t) -> fo s < r
  end.
Proof.
  intros Hr. unfold set_init.
  destruct (r <? 0) eqn:E1; [lia|]. destruct (r =? 0) eqn:E2; [lia|].
  set (P := fun o => r <=? o).
  destruct (filter P (map fo (segs t))) as [|o rest] eqn:Ef.
  - split; [reflexivity|]. intros s Hs.
    destruct (Z_lt_le_dec (fo s) r) as [|Hge]; [assumption|].
    assert (Hin : In (fo s) (filter P (map fo (segs t)))).
    { apply filter_In. split; [now apply in_map|]. unfold P. lia. }
    rewrite Ef in Hin. contradiction.
  - assert (Hall : forall x, In x (o :: rest) -> r <= x /\ exists s, In s (segs t) /\ fo s = x).
    { intros x Hx. rewrite <- Ef in Hx. apply filter_In in Hx as [Hx1 Hx2].
      apply in_map_iff in Hx1 as (s & Hs1 & Hs2). unfold P in Hx2.
      split; [lia|]. exists s. split; assumption. }
    destruct (fold_min_spec rest o) as (Hm1 & Hm2 & Hm3).
    set (m := fold_left Z.min rest o) in *.
    assert (Hmin : In m (o :: rest)) by (destruct Hm1 as [->|H]; [now left|now right]).
    destruct (Hall m Hmin) as [Hrm Hs]. repeat split; try assumption.
    intros s Hs1 Hs2.
    assert (Hin : In (fo s) (o :: rest)).
    { rewrite <- Ef. apply filter_In. split; [now apply in_map|]. unfold P. lia. }
    destruct Hin as [<-|Hin]; [assumption|auto].
Qed.

(* whatever the setter accepts is a start the merge / parse theorems speak about *)
Lemma init_offset_valid_start_lemma t r io : set_init t r = Ok io -> valid_start t io.
Proof.
  intros H. destruct (Z_lt_le_dec 0 r) as [Hr|Hr].
  - pose proof (init_offset_snaps_lemma t r Hr) as S. rewrite H in S. destruct S as ((s & Hs1 & Hs2) & Hle & _).
    right. exists s. repeat split; try assumption. lia.
  - unfold set_init in H. destruct (r <? 0) eqn:E1; [discriminate|]. destruct (r =? 0) eqn:E2; [|lia].
    injection H as <-. now left.
Qed.

(* the repaired C14-F1 instance: the start of the FCB on the i.MX 8ULP NOR layout (with a floating segment) *)
Example init_offset_floating_layout : set_init t_mx8ulp_nor 1024 = Ok 1024 /\ set_init t_mx8ulp_nor 1025 = Ok 4096 /\
                                      set_init t_mx8ulp_nor 4097 = Err 1%N.
Proof. vm_compute. repeat split. Qed.

(* ================================================================== parse (merge) *)
Lemma wf_chain_later s l s' :
  wf_chain (s :: l) = true -> In s' l -> 0 <= fo s' -> fo s + Z.max (fsize s) 0 <= fo s' /\ 0 <= fo s.
Proof.
  revert s; induction l as [|s1 l' IH]; intros s W Hin Hs'; [contradiction|].
  cbn [wf_chain] in W. apply andb_true_iff in W as [W1 W2].
  unfold wf_pair in W1. apply andb_true_iff in W1 as [W1 _].
  destruct Hin as [->|Hin].
  - destruct (0 <=? fo s') eqn:E; [|lia]. lia.
  - destruct (IH s1 W2 Hin Hs') as [H1 H2]. destruct (0 <=? fo s1) eqn:E; [|lia]. lia.
Qed.

(* later fixed segments start after the reserved size of an earlier one *)
Fixpoint spaced_l (l : list (seg * list N)) : Prop :=
  match l with
  | [] => True
  | (s, _) :: tl => (forall s' p', In (s', p') tl -> 0 <= fo s' -> fo s + Z.max (fsize s) 0 <= fo s') /\ spaced_l tl
  end.
(* classes that keep the whole rest of the image are last *)
Fixpoint whole_last (l : list (seg * list N)) : Prop :=
  match l with
  | [] => True
  | (s, _) :: tl => (whole_tag s = true -> tl = []) /\ whole_last tl
  end.

Lemma spaced_of_wf l : wf_chain (map fst l) = true -> spaced_l l /\ whole_last l.
Proof.
  induction l as [|[s p] tl IH]; intros W; [split; exact I|].
  assert (Wt : wf_chain (map fst tl) = true).
  { cbn [map wf_chain] in W. destruct (map fst tl) eqn:E; [reflexivity|]. now apply andb_true_iff in W as [_ W]. }
  destruct (IH Wt) as [I1 I2]. split; cbn [spaced_l whole_last]; (split; [|assumption]).
  - intros s' p' Hin Hs'. apply (wf_chain_later s (map fst tl) s' W); [|assumption].
    apply in_map_iff. exists (s', p'). split; [reflexivity|assumption].
  - intros Hw. destruct tl as [|[s1 p1] tl1]; [reflexivity|].
    cbn [map wf_chain] in W. apply andb_true_iff in W as [W1 _]. unfold wf_pair in W1.
    apply andb_true_iff in W1 as [_ W1]. cbn [fst] in W1. rewrite Hw in W1. discriminate.
Qed.

(* what may be left out: a fixed-size header segment (when a later fixed segment is supplied), or the floating
   segment; a floating segment is supplied only together with its predecessor *)
Fixpoint supplied_ok (io : Z) (l : list (seg * list N)) : Prop :=
  match l with
  | [] => True
  | (s, p) :: tl =>
      (0 <= fo s -> excluded io s = false -> p = [] -> exists s' p', In (s', p') tl /\ 0 <= fo s' /\ p' <> []) /\
      (match tl with (s', p') :: _ => fo s' < 0 -> p' <> [] -> p <> [] /\ excluded io s = false | [] => True end) /\
      supplied_ok io tl
  end.

Section ParseProof.
  Variable rec : seg -> list N -> rec_result.
  Variable find : seg -> list N -> res Z.
  Variable f : N.        (* fill byte *)
  Variable io : Z.

  (* contract of the per-class recogniser for segment s carrying payload p (p = [] : not supplied) *)
  Definition rec_ok (s : seg) (p : list N) : Prop :=
    (p = [] -> 0 <= fo s ->
       0 < fsize s /\ forall n rest, fsize s <= Z.of_nat n -> rec s (repeat f n ++ rest) = RAbsent) /\
    (p <> [] -> forall rest, (whole_tag s = true -> rest = []) ->
       rec s (p ++ rest) = RFound p (zlen p) /\ (fo s < 0 -> find s (p ++ rest) = Ok 0)).

  Definition masked (l : list (seg * list N)) : list (list N) :=
    map (fun x => if excluded io (fst x) then [] else snd x) l.

  Lemma ahead_step pe s p tl :
    0 <= pe -> 0 < algn s -> pe <= off_of pe s -> ahead io pe ((s, p) :: tl) -> ahead io (off_of pe s + zlen p) tl.
  Proof.
    intros Hpe Ha Hle A. pose proof (zlen_nonneg p). destruct A as [A|(s0 & p0 & [E|Hin] & Hf)].
    - left. lia.
    - injection E as -> ->. left. unfold off_of. destruct (0 <=? fo s0) eqn:E0; [lia|].
      pose proof (align_up_spec pe (algn s0) Ha). lia.
    - right. exists s0, p0. split; assumption.
  Qed.

  Lemma zskip_in_gap (done X : list N) (cur q o1 : Z) :
    zlen done = cur -> cur <= q -> q <= o1 ->
    zskip q (done ++ repeat f (Z.to_nat (o1 - cur)) ++ X) = repeat f (Z.to_nat (o1 - q)) ++ X.
  Proof.
    intros Hd H1 H2. unfold zskip, zlen in *. pose proof (Nat2Z.is_nonneg (length done)).
    rewrite skipn_app. rewrite skipn_all2 by lia. cbn [app].
    rewrite skipn_app, skipn_repeat, repeat_length.
    replace (Z.to_nat q - length done - Z.to_nat (o1 - cur))%nat with 0%nat by lia.
    cbn [skipn]. f_equal. f_equal. lia.
  Qed.

  Lemma first_sub_static pe tl :
    chain_l pe tl ->
    (exists s' p', In (s', p') tl /\ 0 <= fo s' /\ p' <> [] /\ excluded io s' = false) ->
    exists s1 d1 rest, subs_of io (place_from io pe tl) = (fo s1 - io, d1) :: rest /\ In (s1, d1) tl /\ 0 <= fo s1.
  Proof.
    revert pe; induction tl as [|[s0 p0] tl IH]; intros pe C (s' & p' & Hin & Hs' & Hp' & Hx'); [contradiction|].
    cbn [chain_l] in C. destruct C as (Ha & Hle & Hlast & C').
    cbn [place_from subs_of]. unfold present. cbn [p_seg p_data p_off]. unfold seg_offset.
    destruct (excluded io s0) eqn:Ex; cbn [negb andb].
    - destruct Hin as [E|Hin]; [injection E as -> ->; congruence|].
      destruct (IH _ C') as (s1 & d1 & rest & E1 & E2 & E3); [exists s', p'; auto|].
      exists s1, d1, rest. repeat split; try assumption. now right.
    - destruct (is_nil p0) eqn:En; cbn [negb].
      + destruct Hin as [E|Hin]; [injection E as -> ->; apply is_nil_true in En; congruence|].
        destruct (IH _ C') as (s1 & d1 & rest & E1 & E2 & E3); [exists s', p'; auto|].
        exists s1, d1, rest. repeat split; try assumption. now right.
      + cbn [res_map]. destruct (Z_lt_le_dec (fo s0) 0) as [Hdyn|Hst].
        * rewrite (Hlast Hdyn) in Hin. destruct Hin as [E|[]]. injection E as -> ->. lia.
        * exists s0, p0. eexists. unfold off_of. destruct (0 <=? fo s0) eqn:E0; [|lia].
          repeat split; try assumption. now left.
  Qed.

  Lemma parse_loop_ok (img : list N) l :
    forall pe done first prev_off prev_size,
    chain_l pe l -> ahead io pe l -> 0 <= pe -> spaced_l l -> whole_last l -> supplied_ok io l ->
    (forall s p, In (s, p) l -> excluded io s = false -> rec_ok s p) ->
    (forall s p, In (s, p) l -> fo s < 0 -> io mod algn s = 0) ->
    (match l with (s, p) :: _ => (first = true -> 0 <= fo s) /\ (fo s < 0 -> p <> [] -> zlen done = pe - io)
                | [] => True end) ->
    zlen done = prev_off + prev_size -> zlen done <= Z.max 0 (pe - io) ->
    img = done ++ flat f (zlen done) (subs_of io (place_from io pe l)) ->
    parse_loop rec find io img first prev_off prev_size (map fst l) = Ok (masked l).
  Proof.
    induction l as [|[s p] tl IH]; intros pe done first prev_off prev_size C A Hpe Sp Wl Su R Dm Hh Hd Hc Himg;
      [reflexivity|].
    pose proof C as C0. cbn [chain_l] in C. destruct C as (Ha & Hle & Hlast & C').
    pose proof (ahead_step pe s p tl Hpe Ha Hle A) as A'.
    pose proof (zlen_nonneg p) as Hp0.
    assert (Hpe' : 0 <= off_of pe s + zlen p) by lia.
    cbn [spaced_l] in Sp. destruct Sp as [Sp1 Sp2].
    cbn [whole_last] in Wl. destruct Wl as [Wl1 Wl2].
    cbn [supplied_ok] in Su. destruct Su as (Su1 & Su2 & Su3).
    destruct Hh as [Hf1 Hf2].
    assert (R' : forall s0 p0, In (s0, p0) tl -> excluded io s0 = false -> rec_ok s0 p0) by (intros; apply R; [now right|assumption]).
    assert (Dm' : forall s0 p0, In (s0, p0) tl -> fo s0 < 0 -> io mod algn s0 = 0) by (intros; eapply Dm; [right; eassumption|assumption]).
    pose proof (subs_sorted io pe _ C0 A Hpe) as SS.
    cbn [map fst parse_loop masked]. cbv zeta. fold (masked tl).
    cbn [place_from subs_of] in Himg, SS. unfold present in Himg, SS. cbn [p_seg p_data p_off] in Himg, SS.
    unfold seg_offset in Himg, SS.
    destruct (excluded io s) eqn:Ex; cbn [negb andb] in Himg, SS.
    - (* excluded: skipped, nothing in the image *)
      assert (HI : parse_loop rec find io img false prev_off prev_size (map fst tl) = Ok (masked tl)).
      { apply (IH (off_of pe s + zlen p) done); try assumption; try lia.
        destruct tl as [|[s1 p1] tl1]; [exact I|]. split; [discriminate|].
        intros H1 H2. destruct (Su2 H1 H2) as [_ E]. congruence. }
      rewrite HI. reflexivity.
    - unfold is_dyn. destruct (fo s <? 0) eqn:Ed.
      + (* floating segment: the last one *)
        assert (Hdyn : fo s < 0) by lia. rewrite (Hlast Hdyn) in *.
        destruct first; [lia|].
        destruct (R s p (or_introl eq_refl) Ex) as [Rabs Rpre].
        unfold off_of in Himg, SS. destruct (0 <=? fo s) eqn:E0; [lia|].
        destruct (is_nil p) eqn:En; cbn [negb] in Himg, SS.
        * (* not supplied: the image ends before the aligned start *)
          apply is_nil_true in En. subst p. cbn [place_from subs_of flat] in Himg. rewrite app_nil_r in Himg. subst img.
          pose proof (align_up_spec (prev_off + prev_size) (algn s) Ha) as (B1 & _ & _).
          destruct (zlen done <=? align_up (prev_off + prev_size) (algn s)) eqn:E; [|lia]. reflexivity.
        * assert (Hpn : p <> []) by (intros ->; discriminate).
          specialize (Hf2 Hdyn Hpn).
          cbn [res_map place_from subs_of flat] in Himg.
          assert (Hq : align_up pe (algn s) - io = align_up (prev_off + prev_size) (algn s)).
          { rewrite <- Hd, Hf2. symmetry. apply align_up_shift; [assumption|]. eapply Dm; [now left|assumption]. }
          rewrite Hq in Himg. set (start := align_up (prev_off + prev_size) (algn s)) in *.
          pose proof (align_up_spec (prev_off + prev_size) (algn s) Ha) as (B1 & _ & _). fold start in B1.
          assert (Hsk : zskip start img = p ++ []).
          { subst img. pose proof (zskip_in_gap done (p ++ []) (zlen done) start start eq_refl) as Z1.
            rewrite Z.sub_diag in Z1. cbn [Z.to_nat repeat app] in Z1. apply Z1; lia. }
          assert (Hlen : zlen img = start + zlen p).
          { subst img. rewrite !zlen_app, zlen_repeat. unfold zlen at 4. cbn [length]. lia. }
          pose proof (is_nil_false_len p En) as Hpl.
          destruct (zlen img <=? start) eqn:E1; [lia|].
          destruct (Rpre Hpn [] (fun _ => eq_refl)) as [Rr Rf].
          rewrite Hsk, (Rf Hdyn). rewrite Z.add_0_r.
          destruct ((zlen img <=? start) && is_hdr s) eqn:E2; [lia|].
          rewrite Hsk, Rr. cbn. try rewrite Ex. reflexivity.
      + (* fixed offset *)
        assert (Hst : 0 <= fo s) by lia.
        assert (Hoff : off_of pe s = fo s) by (unfold off_of; destruct (0 <=? fo s) eqn:E0; [reflexivity|lia]).
        rewrite Hoff in *.
        assert (Hq0 : 0 <= fo s - io).
        { unfold excluded in Ex. lia. }
        assert (Hqc : zlen done <= fo s - io) by lia.
        destruct (R s p (or_introl eq_refl) Ex) as [Rabs Rpre].
        destruct (is_nil p) eqn:En; cbn [negb] in Himg, SS.
        * (* header segment not supplied: the gap reads as padding *)
          apply is_nil_true in En. subst p.
          change (zlen (@nil N)) with 0 in *. rewrite ?Z.add_0_r in *.
          destruct (Rabs eq_refl Hst) as [Hfs Rab].
          destruct (Su1 Hst eq_refl eq_refl) as (s' & p' & Hin' & Hs' & Hp').
          pose proof (Sp1 s' p' Hin' Hs') as Hsp'.
          assert (Hx' : excluded io s' = false) by (unfold excluded; lia).
          destruct (first_sub_static (fo s) tl C') as (s1 & d1 & rest & E1 & E2 & E3);
            [exists s', p'; repeat split; assumption|].
          pose proof (Sp1 s1 d1 E2 E3) as Hsp1.
          rewrite E1 in Himg. cbn [flat] in Himg.
          assert (Hsk : zskip (fo s - io) img
                        = repeat f (Z.to_nat (fo s1 - io - (fo s - io))) ++ d1 ++ flat f (fo s1 - io + zlen d1) rest).
          { subst img. apply zskip_in_gap; [reflexivity|assumption|lia]. }
          assert (Hlen : fo s - io < zlen img).
          { subst img. rewrite !zlen_app, zlen_repeat. pose proof (zlen_nonneg d1).
            pose proof (zlen_nonneg (flat f (fo s1 - io + zlen d1) rest)). lia. }
          destruct ((zlen img <=? fo s - io) && is_hdr s) eqn:E2'; [lia|].
          rewrite Hsk, Rab by lia.
          assert (HI : parse_loop rec find io img false prev_off prev_size (map fst tl) = Ok (masked tl)).
          { apply (IH (fo s) done); try assumption; try lia.
            - destruct tl as [|[s2 p2] tl2]; [exact I|]. split; [discriminate|].
              intros H1 H2. destruct (Su2 H1 H2) as [E _]. congruence.
            - rewrite E1. cbn [flat]. exact Himg. }
          rewrite HI. reflexivity.
        * (* supplied *)
          assert (Hpn : p <> []) by (intros ->; discriminate).
          pose proof (is_nil_false_len p En) as Hpl.
          cbn [res_map flat] in Himg.
          set (rest := flat f (fo s - io + zlen p) (subs_of io (place_from io (fo s + zlen p) tl))) in *.
          assert (Hsk : zskip (fo s - io) img = p ++ rest).
          { subst img. pose proof (zskip_in_gap done (p ++ rest) (zlen done) (fo s - io) (fo s - io) eq_refl) as Z1.
            rewrite Z.sub_diag in Z1. cbn [Z.to_nat repeat app] in Z1. apply Z1; lia. }
          assert (Hlen : fo s - io < zlen img).
          { subst img. rewrite !zlen_app, zlen_repeat. pose proof (zlen_nonneg rest). lia. }
          destruct ((zlen img <=? fo s - io) && is_hdr s) eqn:E2'; [lia|].
          assert (Hrest : whole_tag s = true -> rest = []).
          { intros Hw. unfold rest. rewrite (Wl1 Hw). reflexivity. }
          destruct (Rpre Hpn rest Hrest) as [Rr _]. rewrite Hsk, Rr.
          assert (HI : parse_loop rec find io img false (fo s - io) (zlen p) (map fst tl) = Ok (masked tl)).
          { apply (IH (fo s + zlen p) (done ++ repeat f (Z.to_nat (fo s - io - zlen done)) ++ p)); try assumption.
            - destruct tl as [|[s2 p2] tl2]; [exact I|]. split; [discriminate|].
              intros _ _. rewrite !zlen_app, zlen_repeat. lia.
            - rewrite !zlen_app, zlen_repeat. lia.
            - rewrite !zlen_app, zlen_repeat. lia.
            - rewrite Himg. rewrite <- !app_assoc. do 3 f_equal. unfold rest. f_equal.
              rewrite !zlen_app, zlen_repeat. lia. }
          rewrite HI. reflexivity.
  Qed.
End ParseProof.

Lemma map_fst_combine {A B} (a : list A) (b : list B) : List.length b = List.length a -> map fst (combine a b) = a.
Proof.
  revert b; induction a as [|x a IH]; intros b H; [reflexivity|].
  destruct b as [|y b]; [discriminate|]. cbn. f_equal. apply IH. cbn in H. lia.
Qed.
Lemma map_snd_combine {A B} (a : list A) (b : list B) : List.length b = List.length a -> map snd (combine a b) = b.
Proof.
  revert b; induction a as [|x a IH]; intros b H; [destruct b; [reflexivity|discriminate]|].
  destruct b as [|y b]; [discriminate|]. cbn. f_equal. apply IH. cbn in H. lia.
Qed.

Lemma merge_ok_subs t io ps img : wf_table t -> merge t io ps = Ok img -> subs_of io (place t io ps) <> [].
Proof.
  intros W Hm E. unfold merge in Hm. rewrite (total_len_subs io _ 0) in Hm.
  - rewrite E in Hm. discriminate.
  - intros x Hx Hp. rewrite (place_spec t io ps W) in Hx. eapply place_from_present_ok; eassumption.
Qed.

Lemma start_aligned t io s : wf_table t -> valid_start t io -> In s (segs t) -> fo s < 0 -> io mod algn s = 0.
Proof.
  intros W V Hin Hd. destruct (wf_table_parts t W) as (_ & F & _).
  pose proof (proj1 (forallb_forall _ _) F s Hin) as E. unfold wf_seg in E.
  apply andb_true_iff in E as [Ea Eb].
  assert (Hdo : doff s < 0) by (apply (fo_dyn s); lia).
  destruct (0 <=? doff s) eqn:E0; [lia|].
  destruct V as [->|(s' & Hin' & Hf' & H0)]; [apply Z.mod_0_l; lia|].
  pose proof (proj1 (forallb_forall _ _) Eb s' Hin') as E'. cbv beta in E'.
  destruct (0 <=? fo s') eqn:E1; [|lia]. subst io. lia.
Qed.

(* ------------------------------------------------------------------ property: parse (merge) = segments *)
Lemma parse_merge_lemma rec find t io ps img :
  wf_table t -> List.length ps = List.length (segs t) -> fits t ps -> valid_start t io ->
  supplied_ok io (combine (segs t) ps) ->
  (forall s p, In (s, p) (combine (segs t) ps) -> excluded io s = false -> rec_ok rec find (fillb t) s p) ->
  merge t io ps = Ok img ->
  parse_at rec find t io img = Ok (masked io (combine (segs t) ps)).
Proof.
  intros W Hl F V Su R Hm.
  destruct (merge_flat t io ps W Hl F V (merge_ok_subs t io ps img W Hm)) as [E S].
  rewrite E in Hm. injection Hm as <-. rewrite (place_spec t io ps W).
  set (l := combine (segs t) ps) in *.
  destruct (wf_table_parts t W) as (Cw & _ & H0).
  destruct (spaced_of_wf l) as [Sp Wl]; [apply wf_chain_combine; exact Cw|].
  unfold parse_at. rewrite <- (map_fst_combine (segs t) ps Hl). fold l.
  apply (parse_loop_ok rec find (fillb t) io _ l 0 [] true 0 0); try assumption; try reflexivity.
  - now apply chain_of_table.
  - now apply ahead_of_start.
  - intros s p Hin Hd. apply (start_aligned t io s W V); [|assumption]. now apply in_combine_l in Hin.
  - unfold l. destruct (segs t) as [|s tl]; [contradiction|]. destruct ps as [|p ps']; [exact I|].
    cbn [combine]. split; intros; lia.
  - cbn. lia.
Qed.

Lemma masked_full t ps : List.length ps = List.length (segs t) -> masked 0 (combine (segs t) ps) = ps.
Proof.
  intros Hl. unfold masked. rewrite <- (map_snd_combine (segs t) ps Hl) at 2.
  apply map_ext. intros [s p]. cbn [fst snd]. unfold excluded.
  destruct (fo s - 0 <? 0) eqn:E1; destruct (0 <=? fo s) eqn:E2; try reflexivity. lia.
Qed.

(* BootableImage.parse of a complete image: the first attempt (init offset 0) succeeds *)
Lemma parse_typed_full_lemma rec find t ps img :
  wf_table t -> List.length ps = List.length (segs t) -> fits t ps ->
  supplied_ok 0 (combine (segs t) ps) ->
  (forall s p, In (s, p) (combine (segs t) ps) -> rec_ok rec find (fillb t) s p) ->
  verify_layout t 0 ps = true -> verify_segments t ps = true ->
  merge t 0 ps = Ok img ->
  parse_typed rec find t img = Ok (0, ps).
Proof.
  intros W Hl F Su R V1 V2 Hm. unfold parse_typed, try_parse. cbn [set_init Z.ltb Z.eqb Z.compare].
  rewrite (parse_merge_lemma rec find t 0 ps img W Hl F (or_introl eq_refl) Su); try assumption.
  - rewrite (masked_full t ps Hl), V1, V2. reflexivity.
  - intros s p Hin _. now apply R.
Qed.

(* ------------------------------------------------------------------ the recogniser contract is met by the code's generic
   Segment.parse_binary (key blob, key store, BEE headers) *)
Lemma all_eq_repeat b n : all_eq b (repeat b n) = true.
Proof. unfold all_eq. induction n; cbn; [reflexivity|]. now rewrite N.eqb_refl. Qed.

Definition raw_tag (s : seg) : bool := (tag s =? 1) || (tag s =? 6) || (tag s =? 7) || (tag s =? 8).

Lemma rec_raw_contract c f s p :
  raw_tag s = true -> 0 < fsize s -> In f padding_bytes ->
  (p = [] \/ (zlen p = fsize s /\ forall b, In b padding_bytes -> all_eq b p = false)) ->
  rec_ok (rec_std c) (find_std c) f s p.
Proof.
  intros Ht Hs Hf Hp. unfold raw_tag in Ht.
  assert (Hfind : forall bin, find_std c s bin = Ok 0).
  { intros bin. unfold find_std.
    destruct ((tag s =? 12) || (tag s =? 13) || (tag s =? 14)) eqn:E; [lia|reflexivity]. }
  assert (Hrec : forall bin, rec_std c s bin = rec_raw s bin).
  { intros bin. unfold rec_std. cbv zeta. rewrite Ht. reflexivity. }
  split.
  - intros -> _. split; [assumption|]. intros n rest Hn. rewrite Hrec. unfold rec_raw.
    assert (Hz : zlen (repeat f n ++ rest) = Z.of_nat n + zlen rest) by (rewrite zlen_app, zlen_repeat; reflexivity).
    pose proof (zlen_nonneg rest).
    destruct ((0 <? fsize s) && (zlen (repeat f n ++ rest) <? fsize s)) eqn:E; [lia|].
    unfold is_padding. rewrite Hz.
    destruct (0 <? fsize s) eqn:E1; [|lia]. destruct (fsize s <=? Z.of_nat n + zlen rest) eqn:E2; [|lia].
    cbn [andb].
    assert (Hex : existsb (fun b => all_eq b (zfirst (fsize s) (repeat f n ++ rest))) padding_bytes = true).
    { apply existsb_exists. exists f. split; [assumption|]. unfold zfirst.
      rewrite firstn_app, repeat_length. rewrite firstn_repeat_le by lia.
      replace (Z.to_nat (fsize s) - n)%nat with 0%nat by lia. cbn [firstn]. rewrite app_nil_r. apply all_eq_repeat. }
    rewrite Hex. reflexivity.
  - intros Hne rest _. destruct Hp as [->|[Hlen Hnp]]; [congruence|].
    split; [|intros _; apply Hfind]. rewrite Hrec. unfold rec_raw.
    assert (Hz : zlen (p ++ rest) = fsize s + zlen rest) by (rewrite zlen_app, Hlen; reflexivity).
    pose proof (zlen_nonneg rest).
    destruct ((0 <? fsize s) && (zlen (p ++ rest) <? fsize s)) eqn:E; [lia|].
    assert (Hfirst : zfirst (fsize s) (p ++ rest) = p).
    { unfold zfirst, zlen in *. rewrite firstn_app. replace (Z.to_nat (fsize s) - length p)%nat with 0%nat by lia.
      cbn [firstn]. rewrite app_nil_r. apply firstn_all2. lia. }
    unfold is_padding. rewrite Hfirst.
    assert (Hex : existsb (fun b => all_eq b p) padding_bytes = false).
    { destruct (existsb (fun b => all_eq b p) padding_bytes) eqn:E0; [|reflexivity].
      apply existsb_exists in E0 as (b & Hb1 & Hb2). rewrite (Hnp b Hb1) in Hb2. discriminate. }
    rewrite Hex, !andb_false_r. destruct (0 <? fsize s) eqn:E1; [|lia]. reflexivity.
Qed.

(* a complete instance: the i.MX RT1170 NOR layout with key blob, (tagged) FCB, key store and a HAB container *)
Example parse_merge_instance :
  let t := t_rt1170_nor in
  let hab := syn 140 300 in
  let c := mkCtx true [mkDescr 11 (firstn 8 hab) 300 true] in
  let ps := [syn 129 256; [70; 67; 70; 66]%N ++ syn 130 508; []; hab] in
  match merge t 0 ps with
  | Ok img => parse_typed (rec_std c) (find_std c) t img = Ok (0, ps) /\
              parse_typed (rec_std c) (find_std c) t (zskip 1024 img) = Ok (1024, [[]; nth 1 ps []; []; hab])
  | Err _ => False
  end.
Proof. vm_compute. split; reflexivity. Qed.

(* ------------------------------------------------------------------ refutations (known findings) *)
(* C14-F3: merged from the start of a non-INIT segment (image_version of the LPC55S3x NOR layout): parse fails *)
Lemma parse_noninit_offset_refuted_lemma :
  exists t io ps c img0 img, wf_table t /\ valid_start t io /\ set_init t io = Ok io /\
    merge t 0 ps = Ok img0 /\ parse_typed (rec_std c) (find_std c) t img0 = Ok (0, ps) /\
    merge t io ps = Ok img /\ parse_typed (rec_std c) (find_std c) t img = Err 1%N.
Proof.
  exists t_lpc55s3x_nor, 1536, [[70; 67; 70; 66]%N ++ syn 130 508; [52; 18; 203; 237]%N; syn 140 64],
         (mkCtx true [mkDescr 10 (firstn 8 (syn 140 64)) 64 true]).
  eexists. eexists. split; [vm_compute; reflexivity|]. split.
  - right. eexists. split; [right; left; reflexivity|]. vm_compute. split; [reflexivity|discriminate].
  - split; [vm_compute; reflexivity|]. split; [vm_compute; reflexivity|]. split; [vm_compute; reflexivity|].
    split; vm_compute; reflexivity.
Qed.

(* repaired C14-F4: the FCB recogniser meets the contract whether or not the family has an FCB description *)
Lemma padding_not_fcb_tag b : In b padding_bytes -> b <> 70%N /\ b <> 67%N.
Proof.
  intros H. assert (E : forallb (fun x => negb (N.eqb x 70) && negb (N.eqb x 67)) padding_bytes = true) by (vm_compute; reflexivity).
  pose proof (proj1 (forallb_forall _ _) E b H) as Hb. cbv beta in Hb.
  apply andb_true_iff in Hb as [H1 H2]. split; intros ->; discriminate.
Qed.

Lemma starts_with_app q p rest : starts_with q p = true -> starts_with q (p ++ rest) = true.
Proof.
  revert p; induction q as [|a q IH]; intros p H; [reflexivity|].
  destruct p as [|b p]; [discriminate|]. cbn [app starts_with] in *.
  destruct (N.eqb a b); [now apply IH|discriminate].
Qed.

Definition fcb_class (s : seg) : bool := (tag s =? 2) || (tag s =? 3).

Lemma rec_fcb_contract c f s p :
  fcb_class s = true -> 0 < fsize s -> In f padding_bytes ->
  (p = [] \/ (zlen p = fsize s /\ fcb_tag p = true /\ forall b, In b padding_bytes -> all_eq b p = false)) ->
  rec_ok (rec_std c) (find_std c) f s p.
Proof.
  intros Ht Hs Hf Hp. unfold fcb_class in Ht.
  assert (Hfind : forall bin, find_std c s bin = Ok 0).
  { intros bin. unfold find_std. destruct ((tag s =? 12) || (tag s =? 13) || (tag s =? 14)) eqn:E; [lia|reflexivity]. }
  assert (Hrec : forall bin, rec_std c s bin =
            if zlen bin <? fsize s then RFail 1%N
            else if fcb_tag bin then (if fcb_supported c then let raw := zfirst (fsize s) bin in RFound raw (zlen raw) else rec_raw s bin)
                 else if is_padding s bin then RAbsent else RFail 1%N).
  { intros bin. unfold rec_std. cbv zeta.
    destruct ((tag s =? 1) || (tag s =? 6) || (tag s =? 7) || (tag s =? 8)) eqn:E1; [lia|].
    destruct (tag s =? 4) eqn:E4; [lia|]. destruct (tag s =? 5) eqn:E5; [lia|]. rewrite Ht. reflexivity. }
  split.
  - intros -> _. split; [assumption|]. intros n rest Hn. rewrite Hrec.
    assert (Hz : zlen (repeat f n ++ rest) = Z.of_nat n + zlen rest) by (rewrite zlen_app, zlen_repeat; reflexivity).
    pose proof (zlen_nonneg rest).
    destruct (zlen (repeat f n ++ rest) <? fsize s) eqn:E; [lia|].
    destruct (padding_not_fcb_tag f Hf) as [N1 N2].
    assert (Htag : fcb_tag (repeat f n ++ rest) = false).
    { destruct n as [|n]; [lia|]. unfold fcb_tag. cbn [repeat app starts_with].
      destruct (N.eqb 70 f) eqn:A1; [apply N.eqb_eq in A1; congruence|].
      destruct (N.eqb 67 f) eqn:A2; [apply N.eqb_eq in A2; congruence|]. reflexivity. }
    rewrite Htag. unfold is_padding. rewrite Hz.
    destruct (0 <? fsize s) eqn:E1; [|lia]. destruct (fsize s <=? Z.of_nat n + zlen rest) eqn:E2; [|lia].
    cbn [andb].
    assert (Hex : existsb (fun b => all_eq b (zfirst (fsize s) (repeat f n ++ rest))) padding_bytes = true).
    { apply existsb_exists. exists f. split; [assumption|]. unfold zfirst.
      rewrite firstn_app, repeat_length. rewrite firstn_repeat_le by lia.
      replace (Z.to_nat (fsize s) - n)%nat with 0%nat by lia. cbn [firstn]. rewrite app_nil_r. apply all_eq_repeat. }
    rewrite Hex. reflexivity.
  - intros Hne rest _. destruct Hp as [->|(Hlen & Htg & Hnp)]; [congruence|].
    split; [|intros _; apply Hfind]. rewrite Hrec.
    assert (Hz : zlen (p ++ rest) = fsize s + zlen rest) by (rewrite zlen_app, Hlen; reflexivity).
    pose proof (zlen_nonneg rest).
    destruct (zlen (p ++ rest) <? fsize s) eqn:E; [lia|].
    assert (Hfirst : zfirst (fsize s) (p ++ rest) = p).
    { unfold zfirst, zlen in *. rewrite firstn_app. replace (Z.to_nat (fsize s) - length p)%nat with 0%nat by lia.
      cbn [firstn]. rewrite app_nil_r. apply firstn_all2. lia. }
    assert (Htag : fcb_tag (p ++ rest) = true).
    { unfold fcb_tag in *. apply orb_true_iff in Htg. apply orb_true_iff.
      destruct Htg as [T|T]; [left|right]; now apply starts_with_app. }
    rewrite Htag. destruct (fcb_supported c).
    + cbv zeta. rewrite Hfirst. reflexivity.
    + unfold rec_raw. destruct ((0 <? fsize s) && (zlen (p ++ rest) <? fsize s)) eqn:E0; [lia|].
      unfold is_padding. rewrite Hfirst.
      assert (Hex : existsb (fun b => all_eq b p) padding_bytes = false).
      { destruct (existsb (fun b => all_eq b p) padding_bytes) eqn:E1; [|reflexivity].
        apply existsb_exists in E1 as (b & Hb1 & Hb2). rewrite (Hnp b Hb1) in Hb2. discriminate. }
      rewrite Hex, !andb_false_r. destruct (0 <? fsize s) eqn:E1; [|lia]. reflexivity.
Qed.

(* the repaired instance: the same merged image is parsed back with and without an FCB description of the family *)
Example fcb_any_family_instance :
  let t := t_mx8ulp_nor in
  let ps := [syn 129 256; [70; 67; 70; 66]%N ++ syn 130 508; syn 140 1024; []] in
  let d := [mkDescr 13 (firstn 8 (syn 140 1024)) 1024 false; mkDescr 14 (firstn 8 (syn 140 1024)) 1024 false] in
  match merge t 0 ps with
  | Ok img => parse_typed (rec_std (mkCtx true d)) (find_std (mkCtx true d)) t img = Ok (0, ps) /\
              parse_typed (rec_std (mkCtx false d)) (find_std (mkCtx false d)) t img = Ok (0, ps) /\
              parse_typed (rec_std (mkCtx false d)) (find_std (mkCtx false d)) t (zskip 1024 img)
                = Ok (1024, [[]; nth 1 ps []; nth 2 ps []; []])
  | Err _ => False
  end.
Proof. vm_compute. repeat split. Qed.

(* repaired C14-F2: a configuration is loaded only when no fixed-size class gets more bytes than its SIZE *)
Lemma oversize_rejected_l l : load_check_l l = Ok tt ->
  forall s p, In (s, p) l -> sized_tag s = true -> 0 < fsize s -> zlen p <= fsize s.
Proof.
  induction l as [|[s0 p0] tl IH]; intros H s p Hin Ht Hs; [contradiction|].
  cbn [load_check_l] in H.
  destruct (sized_tag s0 && (0 <? fsize s0) && (fsize s0 <? zlen p0)) eqn:E; [discriminate|].
  destruct ((tag s0 =? 11) && is_nil p0); [discriminate|].
  destruct Hin as [Eq|Hin]; [|eapply IH; eassumption].
  injection Eq as -> ->. rewrite Ht in E. cbn [andb] in E. lia.
Qed.

Lemma oversize_rejected_lemma t ps : load_check t ps = Ok tt ->
  forall s p, In (s, p) (combine (segs t) ps) -> sized_tag s = true -> 0 < fsize s -> zlen p <= fsize s.
Proof. apply oversize_rejected_l. Qed.

Example oversize_rejected_instance :
  load_check t_rt1010_nor [syn 129 257; [70; 67; 70; 66]%N ++ syn 130 508; syn 140 300] = Err 1%N /\
  load_check t_rt1010_nor [syn 129 256; [70; 67; 70; 66]%N ++ syn 130 508; syn 140 300] = Ok tt.
Proof. vm_compute. split; reflexivity. Qed.
