(* Proofs/BdF3Proofs.v -- finding C19-F3 (&& / || yield an operand) *)
From Coq Require Import String Ascii ZArith NArith List Bool Lia.
Require Import Value Bytes GenBd BdModel BdProofs.
Import ListNotations.
Local Open Scope string_scope.
Local Open Scope list_scope.
Local Open Scope Z_scope.

(* a && b / a || b yield an operand, not a truth value: (2 && 3) == 1 is false *)
Theorem logical_value_refuted :
  beval_impl [] (BAndL (BInt (ELit 2)) (BInt (ELit 3))) = Ok 3 /\
  beval_spec [] (BAndL (BInt (ELit 2)) (BInt (ELit 3))) = Some 1 /\
  beval_impl [] (BCmp CEq (BAndL (BInt (ELit 2)) (BInt (ELit 3))) (BInt (ELit 1))) = Ok 0 /\
  beval_spec [] (BCmp CEq (BAndL (BInt (ELit 2)) (BInt (ELit 3))) (BInt (ELit 1))) = Some 1 /\
  beval_impl [] (BOrL (BInt (ELit 0)) (BInt (ELit 5))) = Ok 5.
Proof. repeat split. Qed.
