(* Proofs/BdF4Proofs.v -- finding C19-F4 (blob load) *)
From Coq Require Import String Ascii ZArith NArith List Bool Lia.
Require Import Value Bytes GenBd BdModel BdProofs.
Import ListNotations.
Local Open Scope string_scope.
Local Open Scope list_scope.
Local Open Scope Z_scope.

(* load of a blob: the bytes are reversed (one little-endian word is built from the hex text), blobs longer than
   four bytes are refused, shorter ones are padded to four bytes *)
Theorem blob_load_refuted :
  let c := {| vars := []; srcs := [] |} in
  (exists cmd1 cmd2, stmt_spec c [] [] (SLoad MNone (LBlob [170; 187; 204; 221]%N) (TAddr (ELit 256))) = Some cmd1 /\
                     compile_impl c [] [] (SLoad MNone (LBlob [170; 187; 204; 221]%N) (TAddr (ELit 256))) = Ok cmd2 /\
                     c_payload cmd1 = PBytes [170; 187; 204; 221]%N /\ c_payload cmd2 = PBytes [221; 204; 187; 170]%N) /\
  (exists cmd1, stmt_spec c [] [] (SLoad MNone (LBlob [1; 2; 3; 4; 5; 6; 7; 8]%N) (TAddr (ELit 256))) = Some cmd1 /\
                compile_impl c [] [] (SLoad MNone (LBlob [1; 2; 3; 4; 5; 6; 7; 8]%N) (TAddr (ELit 256))) = Err 1%N) /\
  (exists cmd2, compile_impl c [] [] (SLoad MNone (LBlob [1; 2]%N) (TAddr (ELit 256))) = Ok cmd2 /\
                c_payload cmd2 = PBytes [2; 1; 0; 0]%N).
Proof.
  simpl. split; [|split].
  - eexists. eexists. repeat split; vm_compute; reflexivity.
  - eexists. split; vm_compute; reflexivity.
  - eexists. split; vm_compute; reflexivity.
Qed.
